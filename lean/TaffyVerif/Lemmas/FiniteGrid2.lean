/-
  C03 (finiteness at `ER`) — the grid program, part 2: the container's own sizes (`mkCtx`), the item layer (available space,
  known dimensions, the contribution queries and their caches), step 7's re-run tests, and the ASSEMBLY of
  `compute_grid_layout` from its stages (`EvalGrid.gridSetupK ▸ gridMain ▸ gridStep7 ▸ gridTail`), relative to two named
  statements about the parts that are not walked here:
    `SizingFin`      one run of `track_sizing_algorithm` keeps tracks and items finite and asks only finite queries
    `InitTracksFin`  `initialize_grid_tracks` produces finite tracks from finite track sizing functions and a finite gap
-/
import TaffyVerif.Lemmas.FiniteGrid1
import TaffyVerif.Lemmas.GridLiftSetup

set_option linter.unusedSectionVars false
set_option linter.unusedVariables false

namespace C03Fin
open GridModel GridTracks EvalGrid

/-! ### small things -/

theorem fin_sget {s : Size ER} {ax : Ax} (h : SFin s) : IsFin (sget s ax) := by cases ax; exact h.1; exact h.2
theorem fin_osget {s : Size (Option ER)} {ax : Ax} (h : SOFin s) : OFin (sget s ax) := by cases ax; exact h.1; exact h.2
theorem fin_lpasget {s : Size (LPA ER)} {ax : Ax} (h : SLPAFin s) : LPAFin (sget s ax) := by
  cases ax; exact h.1; exact h.2
theorem fin_osset {s : Size (Option ER)} {ax : Ax} {v : Option ER} (h : SOFin s) (hv : OFin v) : SOFin (sset s ax v) := by
  cases ax
  · exact ⟨hv, h.2⟩
  · exact ⟨h.1, hv⟩

theorem fin_allSome : ∀ (l : List (Option ER)) (xs : List ER), (∀ o ∈ l, OFin o) → allSome l = some xs →
    ∀ x ∈ xs, IsFin x
  | [], xs, _, e => by
    simp only [allSome, Option.some.injEq] at e
    subst e
    intro x hx; cases hx
  | none :: _, xs, _, e => by simp [allSome] at e
  | some a :: rest, xs, h, e => by
    unfold allSome at e
    cases hr : allSome rest with
    | none => rw [hr] at e; simp at e
    | some ys =>
      rw [hr] at e
      simp at e
      subst e
      intro x hx
      rcases List.mem_cons.mp hx with rfl | hx
      · exact h (some x) (List.mem_cons_self ..)
      · exact fin_allSome rest ys (fun o ho => h o (List.mem_cons_of_mem _ ho)) hr x hx

theorem fin_allSome_sum {l : List (Option ER)} (h : ∀ o ∈ l, OFin o) : OFin ((allSome l).map GridTracks.sumF) := by
  cases hr : allSome l with
  | none => trivial
  | some xs => exact fin_gsumF (fin_allSome l xs h hr)

theorem fin_omap_add {o : Option ER} {x : ER} (ho : OFin o) (hx : IsFin x) : OFin (o.map fun s => s + x) := by
  cases o
  · trivial
  · exact fin_add ho hx

theorem fin_max_definiteValue {f : MaxTrack ER} {p : Option ER} (hf : MaxTrackFin f) (hp : OFin p) :
    OFin (f.definiteValue p) := by
  cases f <;> cases p <;> first | trivial | exact hf | exact fin_mul hf hp

theorem fin_max_definiteLimit {f : MaxTrack ER} {p : Option ER} (hf : MaxTrackFin f) (hp : OFin p) :
    OFin (f.definiteLimit p) := by
  cases f <;> cases p <;> first | trivial | exact hf | exact fin_mul hf hp

theorem fin_min_definiteValue {f : MinTrack ER} {p : Option ER} (hf : MinTrackFin f) (hp : OFin p) :
    OFin (f.definiteValue p) := by
  cases f <;> cases p <;> first | trivial | exact hf | exact fin_mul hf hp

theorem fin_min_resolvedPercentageSize {f : MinTrack ER} {p : ER} (hf : MinTrackFin f) (hp : IsFin p) :
    OFin (f.resolvedPercentageSize p) := by
  cases f <;> first | trivial | exact fin_mul hf hp

theorem fin_max_resolvedPercentageSize {f : MaxTrack ER} {p : ER} (hf : MaxTrackFin f) (hp : IsFin p) :
    OFin (f.resolvedPercentageSize p) := by
  cases f <;> first | trivial | exact fin_mul hf hp

theorem fin_estimate {e : Estimate} {t : GridTrack ER} {p : Option ER} (ht : TrackFin t) (hp : OFin p) :
    OFin (e.eval t p) := by
  cases e
  · exact fin_max_definiteValue ht.maxFn hp
  · exact ht.baseSize

theorem spannedTracks_sub (it : GItem ER) (ax : Ax) (ts : List (GridTrack ER)) :
    ∀ t ∈ it.spannedTracks ax ts, t ∈ ts := by
  intro t ht
  simp only [GItem.spannedTracks, GItem.trackRange, sliceOf] at ht
  exact List.mem_of_mem_drop (List.mem_of_mem_take ht)

theorem fin_resolveSize {d : Size (Dimension ER)} {ctx : Size (Option ER)} {ar : Option ER} {adj : Size ER}
    (hd : SLPAFin d) (hc : SOFin ctx) (har : ARFin ar) (ha : SFin adj) : SOFin (GItem.resolveSize d ctx ar adj) :=
  fin_size_of_add (fin_maybeApplyAspectRatio (fin_sizeMaybe hd hc) har) ha

/-! ### `mkCtx` -/

structure CtxFin (c : Ctx ER) : Prop where
  padding : RFin c.padding
  border : RFin c.border
  paddingBorderSize : SFin c.paddingBorderSize
  minSize : SOFin c.minSize
  maxSize : SOFin c.maxSize
  preferredSize : SOFin c.preferredSize
  scrollbarGutter : PFin c.scrollbarGutter
  contentBoxInset : RFin c.contentBoxInset
  availableGridSpace : SAvFin c.availableGridSpace
  outerNodeSize : SOFin c.outerNodeSize
  innerNodeSize : SOFin c.innerNodeSize
  autoFitContainerSize : SOFin c.autoFitContainerSize

theorem CtxFin.tail {c : Ctx ER} (h : CtxFin c) : CtxTailFin c := ⟨h.padding, h.border, h.scrollbarGutter⟩

theorem fin_pick {o : Option ER} {a : AvailableSpace ER} (ho : OFin o) (ha : AvFin a) :
    AvFin (match (generalizing := false) o with | some v => AvailableSpace.definite v | none => a) := by
  cases o
  · exact ha
  · exact ho

/-- **mkCtx**: the container's own sizes (step 1) are finite for a finite style and a finite input -/
theorem fin_mkCtx {s : Style ER} {inputs : LayoutInput ER} (hs : StyleFin s) (hi : InFin inputs) :
    CtxFin (mkCtx s inputs) := by
  have hpad : RFin (mkCtx s inputs).padding := fin_rectLPOrZero hs.padding hi.ps.1
  have hbor : RFin (mkCtx s inputs).border := fin_rectLPOrZero hs.border hi.ps.1
  have hpb := fin_rect_add hpad hbor
  have hpbs : SFin (mkCtx s inputs).paddingBorderSize := fin_sumAxes hpb
  have hadj : SFin (if s.boxSizing == .contentBox then (mkCtx s inputs).paddingBorderSize else Size.zero) :=
    fin_site hpbs fin_size_zero
  have hmin : SOFin (mkCtx s inputs).minSize := fin_resolveSize hs.minSize hi.ps hs.aspectRatio hadj
  have hmax : SOFin (mkCtx s inputs).maxSize := fin_resolveSize hs.maxSize hi.ps hs.aspectRatio hadj
  have hpref : SOFin (mkCtx s inputs).preferredSize := by
    show SOFin (if inputs.sizingMode == .inherentSize then GItem.resolveSize s.size inputs.parentSize s.aspectRatio
      (if s.boxSizing == .contentBox then (mkCtx s inputs).paddingBorderSize else Size.zero) else Size.none)
    split
    · exact fin_resolveSize hs.size hi.ps hs.aspectRatio hadj
    · exact fin_size_none
  have hgut : PFin (mkCtx s inputs).scrollbarGutter :=
    ⟨fin_ite hs.scrollbarWidth fin_zero, fin_ite hs.scrollbarWidth fin_zero⟩
  have hinset : RFin (mkCtx s inputs).contentBoxInset := ⟨hpb.l, fin_add hpb.r hgut.1, hpb.t, fin_add hpb.b hgut.2⟩
  have hkp := fin_orOpt hi.kd hpref
  have hags : SAvFin (mkCtx s inputs).availableGridSpace := by
    unfold mkCtx
    dsimp only
    refine ⟨fin_af_sub (fin_af_max (fin_ao_clamp ?_ hmin.1 hmax.1) hpbs.1) (fin_hsum hinset),
      fin_af_sub (fin_af_max (fin_ao_clamp ?_ hmin.2 hmax.2) hpbs.2) (fin_vsum hinset)⟩
    · split
      · rename_i v hv; exact OFin.of_some hkp.1 hv
      · exact hi.av.1
    · split
      · rename_i v hv; exact OFin.of_some hkp.2 hv
      · exact hi.av.2
  have houter : SOFin (mkCtx s inputs).outerNodeSize := fin_size_of_max (fin_size_oo_clamp hkp hmin hmax) hpbs
  have hinner : SOFin (mkCtx s inputs).innerNodeSize := fin_size_of_sub houter (fin_sumAxes hinset)
  have hauto : SOFin (mkCtx s inputs).autoFitContainerSize :=
    fin_size_of_sub (fin_size_of_max (fin_size_oo_clamp (fin_orOpt (fin_orOpt houter hmax) hmin) hmin hmax) hpbs)
      (fin_sumAxes hinset)
  exact ⟨hpad, hbor, hpbs, hmin, hmax, hpref, hgut, hinset, hags, houter, hinner, hauto⟩

/-! ### the item layer -/

theorem fin_item_new {node so : Nat} {c r : Line Int} {cs : Style ER} {pa pj : AlignItems} (hs : StyleFin cs) :
    GItemFin (GItem.new node c r cs pa pj so) :=
  { size := hs.size, minSize := hs.minSize, maxSize := hs.maxSize, aspectRatio := hs.aspectRatio, padding := hs.padding,
    border := hs.border, margin := hs.margin, baseline := trivial, baselineShim := fin_zero,
    availableSpaceCache := fun _ e => (by cases e), minContentContributionCache := fin_size_none,
    minimumContributionCache := fin_size_none, maxContentContributionCache := fin_size_none, yPosition := fin_zero,
    height := fin_zero }

theorem fin_item_availableSpace {it : GItem ER} {ax : Ax} {ts : List (GridTrack ER)} {p : Option ER} {e : Estimate}
    (hts : TracksFin ts) (hp : OFin p) : SOFin (it.availableSpace ax ts p e) := by
  unfold GItem.availableSpace
  refine fin_osset fin_size_none (fin_allSome_sum fun o ho => ?_)
  obtain ⟨t, ht, rfl⟩ := List.mem_map.mp ho
  have htf := hts t (spannedTracks_sub it _ ts t ht)
  exact fin_omap_add (fin_estimate htf hp) htf.contentAlignmentAdjustment

theorem fin_marginsAxisSums {it : GItem ER} {w : Option ER} (hit : GItemFin it) (hw : OFin w) :
    SFin (it.marginsAxisSums w) := by
  unfold GItem.marginsAxisSums
  exact fin_sumAxes ⟨fin_LPA_resolveOrZero hit.margin.l (show OFin (some (0 : ER)) from fin_zero),
    fin_LPA_resolveOrZero hit.margin.r (show OFin (some (0 : ER)) from fin_zero),
    fin_add (fin_LPA_resolveOrZero hit.margin.t hw) hit.baselineShim, fin_LPA_resolveOrZero hit.margin.b hw⟩

theorem fin_orElse {o a : Option ER} {c : Prop} [Decidable c] (ho : OFin o) (ha : OFin a) :
    OFin (match (generalizing := false) o with | some w => some w | none => if c then a else none) := by
  cases o
  · exact fin_oite ha trivial
  · exact ho

theorem fin_knownDimensions {it : GItem ER} {inner area : Size (Option ER)} (hit : GItemFin it) (hin : SOFin inner)
    (ha : SOFin area) : SOFin (it.knownDimensions inner area) := by
  have hm := fin_marginsAxisSums hit hin.1
  have hpad := fin_rectLPOrZeroSize hit.padding ha
  have hbor := fin_rectLPOrZeroSize hit.border ha
  have hpbs := fin_sumAxes (fin_rect_add hpad hbor)
  have hadj : SFin (if it.boxSizing == .contentBox then
      ((Resolve.rectLPOrZeroSize it.padding area).add (Resolve.rectLPOrZeroSize it.border area)).sumAxes
      else Size.zero) := fin_site hpbs fin_size_zero
  have hinh := fin_resolveSize hit.size ha hit.aspectRatio hadj
  have hmin := fin_resolveSize hit.minSize ha hit.aspectRatio hadj
  have hmax := fin_resolveSize hit.maxSize ha hit.aspectRatio hadj
  have hamm := fin_size_of_sub ha hm
  unfold GItem.knownDimensions
  extract_lets margins ar padding border pbSize adj inherentSize minSize maxSize amm width s1 height s2
  have hw : OFin width := by
    unfold width
    split
    · rename_i w hw'; exact OFin.of_some hinh.1 hw'
    · exact fin_oite hamm.1 trivial
  have hs1 : SOFin s1 := fin_maybeApplyAspectRatio ⟨hw, hinh.2⟩ hit.aspectRatio
  have hh : OFin height := by
    unfold height
    split
    · rename_i w hw'; exact OFin.of_some hs1.2 hw'
    · exact fin_oite hamm.2 trivial
  have hs2 : SOFin s2 := fin_maybeApplyAspectRatio ⟨hs1.1, hh⟩ hit.aspectRatio
  exact fin_size_oo_clamp hs2 hmin hmax

theorem fin_contributionInput {it : GItem ER} {ax : Ax} {av inner : Size (Option ER)} {ind : AvailableSpace ER}
    (hit : GItemFin it) (hav : SOFin av) (hin : SOFin inner) (hind : AvFin ind) :
    InFin (it.contributionInput ax av inner ind) := by
  unfold GItem.contributionInput
  dsimp only
  refine ⟨fin_knownDimensions hit hin hav, hin, ⟨?_, ?_⟩⟩
  · dsimp only
    split
    · rename_i v hv; exact OFin.of_some hav.1 hv
    · exact hind
  · dsimp only
    split
    · rename_i v hv; exact OFin.of_some hav.2 hv
    · exact hind

theorem FinG_minContentContribution {it : GItem ER} {ax : Ax} {av inner : Size (Option ER)} (hit : GItemFin it)
    (hav : SOFin av) (hin : SOFin inner) : FinG IsFin (it.minContentContribution ax av inner) := by
  unfold GItem.minContentContribution
  exact FinG_bind (FinG_call (fin_contributionInput hit hav hin trivial)) fun out ho => FinG_pure (fin_sget ho.size)

theorem FinG_maxContentContribution {it : GItem ER} {ax : Ax} {av inner : Size (Option ER)} (hit : GItemFin it)
    (hav : SOFin av) (hin : SOFin inner) : FinG IsFin (it.maxContentContribution ax av inner) := by
  unfold GItem.maxContentContribution
  exact FinG_bind (FinG_call (fin_contributionInput hit hav hin trivial)) fun out ho => FinG_pure (fin_sget ho.size)

theorem FinG_minContentContributionCached {it : GItem ER} {ax : Ax} {av inner : Size (Option ER)} (hit : GItemFin it)
    (hav : SOFin av) (hin : SOFin inner) :
    FinG (fun r => IsFin r.1 ∧ GItemFin r.2) (it.minContentContributionCached ax av inner) := by
  unfold GItem.minContentContributionCached
  split
  · rename_i v hv
    exact FinG_pure ⟨OFin.of_some (fin_osget hit.minContentContributionCache) hv, hit⟩
  · exact FinG_bind (FinG_minContentContribution hit hav hin) fun v hv =>
      FinG_pure ⟨hv, { hit with minContentContributionCache := fin_osset hit.minContentContributionCache hv }⟩

theorem FinG_maxContentContributionCached {it : GItem ER} {ax : Ax} {av inner : Size (Option ER)} (hit : GItemFin it)
    (hav : SOFin av) (hin : SOFin inner) :
    FinG (fun r => IsFin r.1 ∧ GItemFin r.2) (it.maxContentContributionCached ax av inner) := by
  unfold GItem.maxContentContributionCached
  split
  · rename_i v hv
    exact FinG_pure ⟨OFin.of_some (fin_osget hit.maxContentContributionCache) hv, hit⟩
  · exact FinG_bind (FinG_maxContentContribution hit hav hin) fun v hv =>
      FinG_pure ⟨hv, { hit with maxContentContributionCache := fin_osset hit.maxContentContributionCache hv }⟩

/-! ### step 7 -/

theorem fin_reresolvePercentTracks {cb : ER} {ts : List (GridTrack ER)} (hcb : IsFin cb) (h : TracksFin ts) :
    TracksFin (reresolvePercentTracks cb ts) := by
  intro t' ht'
  unfold reresolvePercentTracks at ht'
  obtain ⟨t, ht, rfl⟩ := List.mem_map.mp ht'
  have hf := h t ht
  have hb := fin_fo_clamp hf.baseSize (fin_min_resolvedPercentageSize hf.minFn hcb)
    (fin_max_resolvedPercentageSize hf.maxFn hcb)
  exact { hf with baseSize := hb }

theorem fin_clearCaches {ax : Ax} {items : List (GItem ER)} (h : GItemsFin items) : GItemsFin (clearCaches ax items) := by
  intro it' hit'
  unfold clearCaches at hit'
  obtain ⟨it, hit, rfl⟩ := List.mem_map.mp hit'
  have hf := h it hit
  exact { hf with availableSpaceCache := fun _ e => (by cases e),
                  minContentContributionCache := fin_osset hf.minContentContributionCache trivial,
                  maxContentContributionCache := fin_osset hf.maxContentContributionCache trivial,
                  minimumContributionCache := fin_osset hf.minimumContributionCache trivial }

theorem FinG_minContentChanged {ax : Ax} {ts : List (GridTrack ER)} {inner : Size (Option ER)} (hts : TracksFin ts)
    (hin : SOFin inner) : ∀ (items : List (GItem ER)), GItemsFin items →
      FinG (fun r => GItemsFin r.2) (minContentChanged ax ts inner items)
  | [], _ => by
    unfold minContentChanged
    exact FinG_pure fun _ h => absurd h (List.not_mem_nil)
  | it :: rest, h => by
    have hit := h it (List.mem_cons_self ..)
    have hrest : GItemsFin rest := fun x hx => h x (List.mem_cons_of_mem _ hx)
    have hcons : ∀ (a : GItem ER) (l : List (GItem ER)), GItemFin a → GItemsFin l → GItemsFin (a :: l) := by
      intro a l ha hl x hx
      rcases List.mem_cons.mp hx with rfl | hx
      · exact ha
      · exact hl x hx
    unfold minContentChanged
    split
    · exact FinG_bind (FinG_minContentChanged hts hin rest hrest) fun ⟨b, rest'⟩ hr => FinG_pure (hcons _ _ hit hr)
    · have hav := fin_item_availableSpace (it := it) (ax := ax) (e := .baseSize) hts (fin_osget (ax := ax.other) hin)
      refine FinG_bind (FinG_minContentContribution hit hav hin) fun newMin hn => ?_
      have hit' : GItemFin { it with
          availableSpaceCache := some (it.availableSpace ax ts (sget inner ax.other) .baseSize),
          minContentContributionCache := sset it.minContentContributionCache ax (some newMin),
          maxContentContributionCache := sset it.maxContentContributionCache ax none,
          minimumContributionCache := sset it.minimumContributionCache ax none } :=
        { hit with availableSpaceCache := fun s e => (by cases e; exact hav),
                   minContentContributionCache := fin_osset hit.minContentContributionCache hn,
                   maxContentContributionCache := fin_osset hit.maxContentContributionCache trivial,
                   minimumContributionCache := fin_osset hit.minimumContributionCache trivial }
      extract_lets hasChanged it2
      clear_value hasChanged
      split
      · exact FinG_pure (Q := fun (r : Bool × List (GItem ER)) => GItemsFin r.2) (hcons _ _ hit' hrest)
      · exact FinG_bind (FinG_minContentChanged hts hin rest hrest) fun ⟨b, rest'⟩ hr =>
          FinG_pure (Q := fun (r : Bool × List (GItem ER)) => GItemsFin r.2) (hcons _ _ hit' hr)

theorem FinG_step7Prep {ax : Ax} {r0 : Bool} {ts : List (GridTrack ER)} {inner : Size (Option ER)}
    {items : List (GItem ER)} (hts : TracksFin ts) (hin : SOFin inner) (h : GItemsFin items) :
    FinG (fun r => GItemsFin r.2) (step7Prep ax r0 ts inner items) := by
  unfold step7Prep
  split
  · exact FinG_minContentChanged hts hin items h
  · exact FinG_pure (fin_clearCaches h)

/-! ### the two statements about the parts not walked here -/

structure RunArgsFin (a : RunArgs ER) : Prop where
  axisMinSize : OFin a.axisMinSize
  axisMaxSize : OFin a.axisMaxSize
  availableGridSpace : SAvFin a.availableGridSpace
  innerNodeSize : SOFin a.innerNodeSize
  /-- the alignment of the OTHER axis is not `space-between`: then the gutter adjustment is finite whatever the length of
  the other axis' track vector (for `space-between` it is finite iff that vector does not have exactly 4 entries) -/
  nsb : a.otherAxisAlignment ≠ .spaceBetween

structure StFin (st : RunState ER) : Prop where
  axisTracks : TracksFin st.axisTracks
  otherAxisTracks : TracksFin st.otherAxisTracks
  items : GItemsFin st.items

/-- one run of `track_sizing_algorithm` from finite arguments, tracks and items: finite queries, finite tracks and items -/
def SizingFin : Prop :=
  ∀ (a : RunArgs ER) (st : RunState ER), RunArgsFin a → StFin st → FinG StFin (trackSizingAlgorithmM a st)

/-- `initialize_grid_tracks` from finite track sizing functions and a finite gap: finite tracks -/
def InitTracksFin : Prop :=
  ∀ (counts : TrackCounts) (template : List (TrackDef ER)) (autoTracks : List (TrackFn ER)) (gap : LP ER)
    (occ : Nat → Bool) (ts : List (GridTrack ER)), (∀ d ∈ template, TrackDefFin d) → (∀ f ∈ autoTracks, TrackFnFin f) →
    LPFin gap → initializeGridTracks counts template autoTracks gap occ = Except.ok ts → TracksFin ts

/-! ### assembly -/

theorem FinG_step7Mid (hT : SizingFin) {av : Size (AvailableSpace ER)} {colArgs rowArgs : RunArgs ER}
    {inner : Size (Option ER)} {cols rows : List (GridTrack ER)} {rerun : Bool} {items : List (GItem ER)}
    (hca : RunArgsFin colArgs) (hra : RunArgsFin rowArgs) (hin : SOFin inner) (hcols : TracksFin cols)
    (hrows : TracksFin rows) (hitems : GItemsFin items) :
    FinG (fun r => TracksFin r.1 ∧ TracksFin r.2.1 ∧ GItemsFin r.2.2)
      (step7Mid av colArgs rowArgs inner cols rows rerun items) := by
  unfold step7Mid
  split
  · refine FinG_bind (hT _ _ ⟨hca.axisMinSize, hca.axisMaxSize, hca.availableGridSpace, hin, hca.nsb⟩ ⟨hcols, hrows, hitems⟩) fun st h1 => ?_
    refine FinG_bind (FinG_step7Prep h1.axisTracks hin h1.items) fun ⟨rr, items1⟩ h2 => ?_
    dsimp only
    split
    · refine FinG_bind (hT { rowArgs with innerNodeSize := inner } { axisTracks := st.otherAxisTracks, otherAxisTracks := st.axisTracks, items := items1 }
        ⟨hra.axisMinSize, hra.axisMaxSize, hra.availableGridSpace, hin, hra.nsb⟩ ⟨h1.otherAxisTracks, h1.axisTracks, h2⟩)
        fun st2 h3 => ?_
      exact FinG_pure ⟨h3.otherAxisTracks, h3.axisTracks, h3.items⟩
    · exact FinG_pure ⟨h1.axisTracks, h1.otherAxisTracks, h2⟩
  · exact FinG_pure ⟨hcols, hrows, hitems⟩

theorem FinG_gridStep7 (hT : SizingFin) {c : Ctx ER} {cs : List (GridChildStyle ER)} {av : Size (AvailableSpace ER)}
    {colArgs rowArgs : RunArgs ER} {inner : Size (Option ER)} {bb cb : Size ER} {cc rc : GridPlacement.TrackCounts}
    {cols rows : List (GridTrack ER)} {items : List (GItem ER)} (hctx : CtxFin c) (hcs : ∀ s ∈ cs, StyleFin s.base)
    (hca : RunArgsFin colArgs) (hra : RunArgsFin rowArgs) (hin : SOFin inner) (hbb : SFin bb) (hcb : SFin cb)
    (hcols : TracksFin cols) (hrows : TracksFin rows) (hitems : GItemsFin items) :
    FinG OutFin (gridStep7 c cs av colArgs rowArgs inner bb cb cc rc cols rows items) := by
  have hc1 : TracksFin (if !c.availableGridSpace.width.isDefinite then reresolvePercentTracks cb.width cols
      else cols) := by
    split
    · exact fin_reresolvePercentTracks hcb.1 hcols
    · exact hcols
  have hr1 : TracksFin (if !c.availableGridSpace.height.isDefinite then reresolvePercentTracks cb.height rows
      else rows) := by
    split
    · exact fin_reresolvePercentTracks hcb.2 hrows
    · exact hrows
  unfold gridStep7
  refine FinG_bind (FinG_step7Prep hr1 hin hitems) fun ⟨rerun, items1⟩ h1 => ?_
  refine FinG_bind (FinG_step7Mid hT hca hra hin hc1 hr1 h1) fun ⟨cols2, rows2, items2⟩ h2 => ?_
  exact FinG_gridTail hctx.tail hcs hbb hcb h2.1 h2.2.1
    (fun it hit => ⟨(h2.2.2 it hit).baseline, (h2.2.2 it hit).baselineShim⟩)

def SetupFin (su : Setup ER) : Prop := TracksFin su.columns ∧ TracksFin su.rows ∧ GItemsFin su.items

theorem fin_borderBox {c : Ctx ER} {kd : Size (Option ER)} {colSum rowSum : ER} (hc : CtxFin c) (hkd : SOFin kd)
    (h1 : IsFin colSum) (h2 : IsFin rowSum) :
    SFin (⟨Num.fmax (MaybeMath.fo_clamp ((kd.orOpt c.preferredSize).width.getD
        (colSum + c.contentBoxInset.horizontalAxisSum)) c.minSize.width c.maxSize.width) c.paddingBorderSize.width,
      Num.fmax (MaybeMath.fo_clamp ((kd.orOpt c.preferredSize).height.getD
        (rowSum + c.contentBoxInset.verticalAxisSum)) c.minSize.height c.maxSize.height) c.paddingBorderSize.height⟩ :
      Size ER) :=
  ⟨fin_fmax (fin_fo_clamp (fin_getD (fin_orOpt hkd hc.preferredSize).1 (fin_add h1 (fin_hsum hc.contentBoxInset)))
      hc.minSize.1 hc.maxSize.1) hc.paddingBorderSize.1,
   fin_fmax (fin_fo_clamp (fin_getD (fin_orOpt hkd hc.preferredSize).2 (fin_add h2 (fin_vsum hc.contentBoxInset)))
      hc.minSize.2 hc.maxSize.2) hc.paddingBorderSize.2⟩

theorem fin_contentBox {c : Ctx ER} {bb : Size ER} (hc : CtxFin c) (hbb : SFin bb) :
    SFin (⟨Num.fmax 0 (bb.width - c.contentBoxInset.horizontalAxisSum),
      Num.fmax 0 (bb.height - c.contentBoxInset.verticalAxisSum)⟩ : Size ER) :=
  ⟨fin_fmax fin_zero (fin_sub hbb.1 (fin_hsum hc.contentBoxInset)),
   fin_fmax fin_zero (fin_sub hbb.2 (fin_vsum hc.contentBoxInset))⟩

theorem FinG_gridMain (hT : SizingFin) {style : GridStyle ER} {cs : List (GridChildStyle ER)} {inputs : LayoutInput ER}
    {su : Setup ER} (hs : StyleFin style.base) (hcs : ∀ s ∈ cs, StyleFin s.base) (hi : InFin inputs)
    (hnsb : (mkCtx style.base inputs).alignContent ≠ .spaceBetween ∧
      (mkCtx style.base inputs).justifyContent ≠ .spaceBetween)
    (hsu : SetupFin su) : FinG OutFin (gridMain style cs inputs su) := by
  have hctx := fin_mkCtx hs hi
  have hca : ∀ b, RunArgsFin (colArgsOf (mkCtx style.base inputs) b) := fun b =>
    ⟨hctx.minSize.1, hctx.maxSize.1, hctx.availableGridSpace, hctx.innerNodeSize, hnsb.1⟩
  have hra : ∀ inner, SOFin inner → RunArgsFin (rowArgsOf (mkCtx style.base inputs) inner) := fun inner hin =>
    ⟨hctx.minSize.2, hctx.maxSize.2, hctx.availableGridSpace, hin, hnsb.2⟩
  unfold gridMain
  refine FinG_bind (hT _ _ (hca _) ⟨hsu.1, hsu.2.1, hsu.2.2⟩) fun st1 h1 => ?_
  have hsum1 := fin_sumBase h1.axisTracks
  have hin1 : SOFin ({ (mkCtx style.base inputs).innerNodeSize with
      width := (mkCtx style.base inputs).innerNodeSize.width.or
        (some (GridTracks.sumF (st1.axisTracks.map (·.baseSize)))) } : Size (Option ER)) :=
    ⟨fin_or hctx.innerNodeSize.1 hsum1, hctx.innerNodeSize.2⟩
  have hitems1 : GItemsFin (st1.items.map fun it => { it with availableSpaceCache := none }) := by
    intro it' hit'
    obtain ⟨it, hit, rfl⟩ := List.mem_map.mp hit'
    exact { h1.items it hit with availableSpaceCache := fun _ e => (by cases e) }
  refine FinG_bind (hT _ _ (hra _ hin1) ⟨h1.otherAxisTracks, h1.axisTracks, hitems1⟩) fun st2 h2 => ?_
  have hsum2 := fin_sumBase h2.axisTracks
  have hbb := fin_borderBox hctx hi.kd hsum1 hsum2
  have hcb := fin_contentBox hctx hbb
  split
  · exact FinG_pure (fin_fromOuterSize hbb)
  · exact FinG_gridStep7 hT hctx hcs (hca _) (hra _ hin1) ⟨hin1.1, fin_or hin1.2 hsum2⟩ hbb hcb h2.otherAxisTracks
      h2.axisTracks h2.items

/-! ### the setup (steps 2–5) -/

theorem fin_determineCrossings {items : List (GItem ER)} {cols rows : List (GridTrack ER)} (h : GItemsFin items) :
    GItemsFin (determineCrossings items cols rows) := by
  intro it' hit'
  unfold determineCrossings at hit'
  obtain ⟨it, hit, rfl⟩ := List.mem_map.mp hit'
  exact { h it hit with }

theorem fin_itemsOf {c : Ctx ER} {cs : List (GridChildStyle ER)} {placed : GridPlacement.State}
    (hcs : ∀ s ∈ cs, StyleFin s.base) (hd : StyleFin (Style.default : Style ER)) : GItemsFin (itemsOf c cs placed) := by
  intro it' hit'
  unfold itemsOf at hit'
  obtain ⟨p, hp, rfl⟩ := List.mem_map.mp hit'
  refine fin_item_new ?_
  cases hg : cs[p.index]? with
  | none => exact hd
  | some s => exact hcs s (List.mem_of_getElem? hg)

variable [NumCast ER]

theorem FinG_gridSetupK (hI : InitTracksFin) {Q : β → Prop} {style : GridStyle ER} {cs : List (GridChildStyle ER)}
    {inputs : LayoutInput ER} {k : Setup ER → GM ER β} (hs : StyleFin style.base)
    (htr : ∀ d ∈ style.gridTemplateRows, TrackDefFin d)
    (htc : ∀ d ∈ style.gridTemplateColumns, TrackDefFin d) (har : ∀ f ∈ style.gridAutoRows, TrackFnFin f)
    (hac : ∀ f ∈ style.gridAutoColumns, TrackFnFin f) (hcs : ∀ s ∈ cs, StyleFin s.base)
    (hd : StyleFin (Style.default : Style ER)) (hk : ∀ su, SetupFin su → FinG Q (k su)) :
    FinG Q (gridSetupK style cs inputs k) := by
  unfold gridSetupK gridSetupA
  refine FinG_bind (Q := fun _ => True) (FinG_ofExcept fun _ _ => trivial) fun _ _ => ?_
  refine FinG_bind (Q := fun _ => True) (FinG_ofExcept fun _ _ => trivial) fun _ _ => ?_
  refine FinG_bind (Q := fun _ => True) (FinG_ofOutcome fun _ _ => trivial) fun ⟨_, _⟩ _ => ?_
  refine FinG_bind (Q := fun _ => True) (FinG_ofOutcome fun _ _ => trivial) fun _ _ => ?_
  refine FinG_bind (Q := fun _ => True) (FinG_ofOutcome fun _ _ => trivial) fun placed _ => ?_
  unfold gridSetupB
  refine FinG_bind (Q := TracksFin) (FinG_ofExcept fun ts e => hI _ _ _ _ _ ts htc hac hs.gap.1 e) fun cols hcols => ?_
  refine FinG_bind (Q := TracksFin) (FinG_ofExcept fun ts e => hI _ _ _ _ _ ts htr har hs.gap.2 e) fun rows hrows => ?_
  refine FinG_bind (Q := GItemsFin) (FinG_ofOutcome fun items' e => ?_) fun items' hitems => ?_
  · intro y hy
    obtain ⟨x, hx, e'⟩ := GridLift.resolveItemTrackIndexes_item _ items' _ _ e y hy
    rw [e'.1]
    exact { fin_itemsOf hcs hd x hx with }
  · exact hk _ ⟨hcols, hrows, fin_determineCrossings hitems⟩

end C03Fin
