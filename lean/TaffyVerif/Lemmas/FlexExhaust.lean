/-
  Abstract form of the freeze loop ("growing" orientation) and the proof that it exhausts flexibility.

  An abstract item has a base size `b`, a weight `w ≥ 0`, a clamp `K` and the dynamic fields `frozen`, `c` (current
  target).  One pass hands the remaining space `R = W − Σ frozen c − Σ unfrozen b` out in proportion to the weights
  (`t = b + R·w/Σw`), clamps, and freezes in the direction of the total violation.  `Lemmas/FlexRefine.lean` shows
  that the model's loop is this loop, directly when growing and mirrored (`x ↦ −x`) when shrinking.

  Proof idea: `Ψ(λ) = Σ frozen c + Σ unfrozen K(b + λ·w)` is monotone in `λ`; a pass evaluates it at `λ = R/Σw`;
  the sign of the total violation tells on which side of the solution of `Ψ(λ) = W` that `λ` lies, the items frozen
  in that pass stay where they are on that side, so `Ψ` never changes between a lower point `Λ` (`Ψ(Λ) < W`) and an
  upper point (`W < Ψ`), and an upper point exists as soon as an item has been frozen at its far bound.
-/
import TaffyVerif.Lemmas.FlexSum

namespace FlexLine

/-- what the proof needs to know about `x ↦ clamp(x)` -/
structure Clamp (K : Rat → Rat) : Prop where
  mono : ∀ x y, x ≤ y → K x ≤ K y
  idem : ∀ x, K (K x) = K x
  /-- clamped down at `x` ⇒ constant from `x` on -/
  up : ∀ x, K x < x → ∀ y, x ≤ y → K y = K x
  /-- clamped up at `x` ⇒ constant up to `x` -/
  down : ∀ x, x < K x → ∀ y, y ≤ x → K y = K x

structure AItem where
  b : Rat
  w : Rat
  K : Rat → Rat
  frozen : Bool
  c : Rat

def aLin (as : List AItem) : Rat := lsum (as.map fun a => if a.frozen then a.c else a.b)
def aSw (as : List AItem) : Rat := lsum (as.map fun a => if a.frozen then 0 else a.w)

/-- unclamped target of an unfrozen item in this pass -/
def aTarget (as : List AItem) (W : Rat) (a : AItem) : Rat :=
  if 0 < aSw as ∧ W - aLin as ≠ 0 then a.b + (W - aLin as) * (a.w / aSw as) else a.c

def aViol (as : List AItem) (W : Rat) (a : AItem) : Rat := a.K (aTarget as W a) - aTarget as W a

def aTotal (as : List AItem) (W : Rat) : Rat := lsum (as.map fun a => if a.frozen then 0 else aViol as W a)

def aFreeze (tot v : Rat) : Bool := if 0 < tot then decide (0 < v) else if tot < 0 then decide (v < 0) else true

def aStep (as : List AItem) (W : Rat) (a : AItem) : AItem :=
  if a.frozen then a
  else { a with c := a.K (aTarget as W a), frozen := aFreeze (aTotal as W) (aViol as W a) }

def aIter (W : Rat) (as : List AItem) : List AItem := as.map (aStep as W)

def aLoop (W : Rat) : Nat → List AItem → Option (List AItem)
  | fuel, as =>
    if as.all (·.frozen) then some as
    else match fuel with
      | 0 => none
      | fuel + 1 => aLoop W fuel (aIter W as)

def aPsi (as : List AItem) (lam : Rat) : Rat :=
  lsum (as.map fun a => if a.frozen then a.c else a.K (a.b + lam * a.w))

/-- the item sits at the far bound of its clamp -/
def AtTop (a : AItem) : Prop := ∃ x, a.K x < x ∧ a.c = a.K x

/-- static well-formedness -/
def AOK (a : AItem) : Prop := 0 ≤ a.w ∧ Clamp a.K

theorem aStep_static (as : List AItem) (W : Rat) (a : AItem) :
    (aStep as W a).b = a.b ∧ (aStep as W a).w = a.w ∧ (aStep as W a).K = a.K := by
  unfold aStep; split <;> simp

theorem aPsi_mono (as : List AItem) (hok : ∀ a ∈ as, AOK a) (x y : Rat) (h : x ≤ y) : aPsi as x ≤ aPsi as y := by
  unfold aPsi
  apply lsum_map_le
  intro a ha
  obtain ⟨hw, hK⟩ := hok a ha
  split
  · exact le_refl _
  · apply hK.mono
    have := mul_le_mul_of_nonneg_right h hw
    linarith

/-- in range of the lower point `lo` and the optional upper point `up` -/
def InRange (lo : Rat) (up : Option Rat) (lam : Rat) : Prop := lo ≤ lam ∧ ∀ u, up = some u → lam ≤ u

/-- the loop invariant -/
structure AInv (W : Rat) (as : List AItem) : Prop where
  ok : ∀ a ∈ as, AOK a
  bounds : ∃ (lo : Rat) (up : Option Rat), 0 ≤ lo ∧ aPsi as lo < W ∧ (∀ u, up = some u → W < aPsi as u) ∧
    (∀ a ∈ as, a.frozen = true → ∀ lam, InRange lo up lam → a.c = a.K (a.b + lam * a.w)) ∧
    (up = none → ∀ a ∈ as, a.frozen = true → 0 < a.w → AtTop a)
  base_le : ∀ a ∈ as, a.frozen = false → a.b ≤ a.K a.b
  stale : ∀ a ∈ as, a.frozen = false → a.w = 0 → a.c = a.K a.b

/-- terminal state reached through a pass with zero total violation -/
def ADone (W : Rat) (as : List AItem) : Prop := as.all (·.frozen) = true ∧ lsum (as.map (·.c)) = W

theorem aLin_le_aPsi (as : List AItem) (hok : ∀ a ∈ as, AOK a) (hb : ∀ a ∈ as, a.frozen = false → a.b ≤ a.K a.b)
    (lam : Rat) (hl : 0 ≤ lam) : aLin as ≤ aPsi as lam := by
  unfold aLin aPsi
  apply lsum_map_le
  intro a ha
  obtain ⟨hw, hK⟩ := hok a ha
  by_cases hf : a.frozen = true
  · simp [hf]
  · have hf' : a.frozen = false := by simpa using hf
    simp only [hf', Bool.false_eq_true, if_false]
    have h1 := hb a ha hf'
    have h2 : a.K a.b ≤ a.K (a.b + lam * a.w) := hK.mono _ _ (by have := mul_nonneg hl hw; linarith)
    linarith

/-- the remaining space is strictly positive as long as the invariant holds -/
theorem AInv.rem_pos {W : Rat} {as : List AItem} (h : AInv W as) : 0 < W - aLin as := by
  obtain ⟨lo, up, hlo, hpsi, _, _, _⟩ := h.bounds
  have := aLin_le_aPsi as h.ok h.base_le lo hlo
  linarith

/-- with a distribution, the total violation is `Ψ(R/Σw) − W` -/
theorem aTotal_eq (as : List AItem) (W : Rat) (hS : 0 < aSw as) (hR : W - aLin as ≠ 0) :
    aTotal as W = aPsi as ((W - aLin as) / aSw as) - W := by
  have hT : ∀ a, aTarget as W a = a.b + (W - aLin as) / aSw as * a.w := by
    intro a; unfold aTarget; rw [if_pos ⟨hS, hR⟩]; ring
  have e1 : aTotal as W =
      lsum (as.map fun a => (if a.frozen then a.c else a.K (a.b + (W - aLin as) / aSw as * a.w)) -
        ((if a.frozen then a.c else a.b) + (W - aLin as) / aSw as * (if a.frozen then 0 else a.w))) := by
    unfold aTotal
    apply lsum_map_congr
    intro a _
    unfold aViol
    rw [hT a]
    split <;> ring
  rw [e1, lsum_map_sub, lsum_map_add, lsum_map_mul_left]
  have hS' : aSw as ≠ 0 := ne_of_gt hS
  show aPsi as _ - (aLin as + (W - aLin as) / aSw as * aSw as) = _
  rw [div_mul_cancel₀ _ hS']
  ring

theorem aTarget_dist (as : List AItem) (W : Rat) (hS : 0 < aSw as) (hR : W - aLin as ≠ 0) (a : AItem) :
    aTarget as W a = a.b + (W - aLin as) / aSw as * a.w := by
  unfold aTarget; rw [if_pos ⟨hS, hR⟩]; ring

theorem aPsi_iter_eq (as : List AItem) (W lam : Rat)
    (h : ∀ a ∈ as, a.frozen = false → (aStep as W a).frozen = true →
      (aStep as W a).c = a.K (a.b + lam * a.w)) : aPsi (aIter W as) lam = aPsi as lam := by
  unfold aPsi aIter
  rw [List.map_map]
  apply lsum_map_congr
  intro a ha
  simp only [Function.comp]
  by_cases hf : a.frozen = true
  · simp [aStep, hf]
  · have hf' : a.frozen = false := by simpa using hf
    obtain ⟨hb, hw, hK⟩ := aStep_static as W a
    by_cases hn : (aStep as W a).frozen = true
    · rw [if_pos hn, h a ha hf' hn]; simp [hf']
    · rw [if_neg hn, hb, hw, hK]; simp [hf']

theorem mem_aIter {as : List AItem} {W : Rat} {a' : AItem} (h : a' ∈ aIter W as) :
    ∃ a ∈ as, a' = aStep as W a := by
  unfold aIter at h
  rw [List.mem_map] at h
  obtain ⟨a, ha, rfl⟩ := h
  exact ⟨a, ha, rfl⟩

theorem aStep_of_frozen (as : List AItem) (W : Rat) (a : AItem) (h : a.frozen = true) : aStep as W a = a := by
  unfold aStep; simp [h]

theorem aStep_of_unfrozen (as : List AItem) (W : Rat) (a : AItem) (h : a.frozen = false) :
    aStep as W a = { a with c := a.K (aTarget as W a), frozen := aFreeze (aTotal as W) (aViol as W a) } := by
  unfold aStep; simp [h]

theorem aok_iter {as : List AItem} {W : Rat} (hok : ∀ a ∈ as, AOK a) : ∀ a ∈ aIter W as, AOK a := by
  intro a' ha'
  obtain ⟨a, ha, rfl⟩ := mem_aIter ha'
  obtain ⟨_, hw, hK⟩ := aStep_static as W a
  unfold AOK
  rw [hw, hK]
  exact hok a ha

/-- no weight left: nothing is distributed, every remaining item keeps `K b` and is frozen -/
theorem ainv_step_keep {W : Rat} {as : List AItem} (h : AInv W as) (hS : ¬ 0 < aSw as) : AInv W (aIter W as) := by
  have hS0 : aSw as = 0 := by
    have : 0 ≤ aSw as := by
      unfold aSw
      apply lsum_map_nonneg
      intro a ha
      split
      · exact le_refl _
      · exact (h.ok a ha).1
    linarith
  have hw0 : ∀ a ∈ as, a.frozen = false → a.w = 0 := by
    intro a ha hf
    have := lsum_map_eq_zero (fun a : AItem => if a.frozen then 0 else a.w) as (by
      intro a ha
      show 0 ≤ (if a.frozen then (0 : Rat) else a.w)
      split
      · exact le_refl _
      · exact (h.ok a ha).1) hS0 a ha
    simpa [hf] using this
  have hT : ∀ a, aTarget as W a = a.c := by
    intro a; unfold aTarget; rw [if_neg (fun hc => hS hc.1)]
  have hV : ∀ a ∈ as, a.frozen = false → aViol as W a = 0 := by
    intro a ha hf
    unfold aViol
    rw [hT a, h.stale a ha hf (hw0 a ha hf), (h.ok a ha).2.idem]
    ring
  have hTot : aTotal as W = 0 := by
    unfold aTotal
    have := lsum_map_congr (fun a : AItem => if a.frozen then 0 else aViol as W a) (fun _ => (0 : Rat)) as (by
      intro a ha
      by_cases hf : a.frozen = true
      · simp [hf]
      · have hf' : a.frozen = false := by simpa using hf
        simp [hf', hV a ha hf'])
    rw [this]
    have h0 := lsum_map_mul_left 0 (fun _ : AItem => (0 : Rat)) as
    simp only [mul_zero, zero_mul] at h0
    exact h0
  -- the new item of an unfrozen one
  have hnew : ∀ a ∈ as, a.frozen = false →
      aStep as W a = { a with c := a.K a.b, frozen := true } := by
    intro a ha hf
    rw [aStep_of_unfrozen as W a hf, hT a, h.stale a ha hf (hw0 a ha hf), (h.ok a ha).2.idem, hTot]
    simp [aFreeze]
  have hpsi : ∀ lam, aPsi (aIter W as) lam = aPsi as lam := by
    intro lam
    apply aPsi_iter_eq
    intro a ha hf _
    rw [hnew a ha hf, hw0 a ha hf]
    simp
  obtain ⟨lo, up, hlo, hlt, hup, hcons, htop⟩ := h.bounds
  refine ⟨aok_iter h.ok, ⟨lo, up, hlo, by rw [hpsi]; exact hlt, fun u hu => by rw [hpsi]; exact hup u hu, ?_, ?_⟩, ?_, ?_⟩
  · intro a' ha' hf' lam hr
    obtain ⟨a, ha, rfl⟩ := mem_aIter ha'
    by_cases hf : a.frozen = true
    · rw [aStep_of_frozen as W a hf]; exact hcons a ha hf lam hr
    · have hf0 : a.frozen = false := by simpa using hf
      rw [hnew a ha hf0, hw0 a ha hf0]; simp
  · intro hn a' ha' hf' hw'
    obtain ⟨a, ha, rfl⟩ := mem_aIter ha'
    by_cases hf : a.frozen = true
    · rw [aStep_of_frozen as W a hf] at hw' ⊢; exact htop hn a ha hf hw'
    · have hf0 : a.frozen = false := by simpa using hf
      rw [hnew a ha hf0] at hw'
      simp only at hw'
      rw [hw0 a ha hf0] at hw'
      exact absurd hw' (lt_irrefl 0)
  · intro a' ha' hf'
    obtain ⟨a, ha, rfl⟩ := mem_aIter ha'
    by_cases hf : a.frozen = true
    · rw [aStep_of_frozen as W a hf] at hf'; rw [hf] at hf'; exact absurd hf' (by simp)
    · have hf0 : a.frozen = false := by simpa using hf
      rw [hnew a ha hf0] at hf'; simp at hf'
  · intro a' ha' hf'
    obtain ⟨a, ha, rfl⟩ := mem_aIter ha'
    by_cases hf : a.frozen = true
    · rw [aStep_of_frozen as W a hf] at hf'; rw [hf] at hf'; exact absurd hf' (by simp)
    · have hf0 : a.frozen = false := by simpa using hf
      rw [hnew a ha hf0] at hf'; simp at hf'

/-- a pass that distributes space: either the total violation is zero and the line is exactly filled, or the
    invariant carries over with one of the two bounds moved to `R/Σw` -/
theorem ainv_step_dist {W : Rat} {as : List AItem} (h : AInv W as) (hS : 0 < aSw as) :
    ADone W (aIter W as) ∨ AInv W (aIter W as) := by
  have hRpos := h.rem_pos
  have hR : W - aLin as ≠ 0 := ne_of_gt hRpos
  have hTot := aTotal_eq as W hS hR
  have hT := aTarget_dist as W hS hR
  -- abbreviations
  generalize hlk : (W - aLin as) / aSw as = lk at hTot hT
  have hlk0 : 0 ≤ lk := by rw [← hlk]; exact div_nonneg (le_of_lt hRpos) (le_of_lt hS)
  have hnewc : ∀ a ∈ as, a.frozen = false → (aStep as W a).c = a.K (a.b + lk * a.w) := by
    intro a _ hf; rw [aStep_of_unfrozen as W a hf, hT a]
  have hnewf : ∀ a ∈ as, a.frozen = false →
      (aStep as W a).frozen = aFreeze (aTotal as W) (a.K (a.b + lk * a.w) - (a.b + lk * a.w)) := by
    intro a _ hf; rw [aStep_of_unfrozen as W a hf]; unfold aViol; rw [hT a]
  obtain ⟨lo, up, hlo, hlt, hup, hcons, htop⟩ := h.bounds
  have hbase : ∀ a' ∈ aIter W as, a'.frozen = false → a'.b ≤ a'.K a'.b := by
    intro a' ha' hf'
    obtain ⟨a, ha, rfl⟩ := mem_aIter ha'
    obtain ⟨hb, _, hK⟩ := aStep_static as W a
    rw [hb, hK]
    by_cases hf : a.frozen = true
    · rw [aStep_of_frozen as W a hf] at hf'; rw [hf] at hf'; exact absurd hf' (by simp)
    · exact h.base_le a ha (by simpa using hf)
  have hstale : ∀ a' ∈ aIter W as, a'.frozen = false → a'.w = 0 → a'.c = a'.K a'.b := by
    intro a' ha' hf' hw'
    obtain ⟨a, ha, rfl⟩ := mem_aIter ha'
    obtain ⟨hb, hw, hK⟩ := aStep_static as W a
    rw [hb, hK]
    rw [hw] at hw'
    by_cases hf : a.frozen = true
    · rw [aStep_of_frozen as W a hf] at hf'; rw [hf] at hf'; exact absurd hf' (by simp)
    · have hf0 : a.frozen = false := by simpa using hf
      rw [hnewc a ha hf0, hw']; simp
  rcases lt_trichotomy (aTotal as W) 0 with hneg | hzero | hpos
  · -- forward: the items that hit their far bound are frozen; the lower point moves up to lk
    right
    have hpsik : aPsi as lk < W := by linarith
    have hfz : ∀ a ∈ as, a.frozen = false → (aStep as W a).frozen = true →
        a.K (a.b + lk * a.w) < a.b + lk * a.w := by
      intro a ha hf hn
      rw [hnewf a ha hf] at hn
      unfold aFreeze at hn
      rw [if_neg (not_lt.2 (le_of_lt hneg)), if_pos hneg] at hn
      have := of_decide_eq_true hn
      linarith
    have hconsNew : ∀ a ∈ as, a.frozen = false → (aStep as W a).frozen = true → ∀ lam, lk ≤ lam →
        (aStep as W a).c = a.K (a.b + lam * a.w) := by
      intro a ha hf hn lam hl
      rw [hnewc a ha hf]
      have hw := (h.ok a ha).1
      exact ((h.ok a ha).2.up _ (hfz a ha hf hn) _ (by have := mul_le_mul_of_nonneg_right hl hw; linarith)).symm
    have hlku : ∀ u, up = some u → lk ≤ u := by
      intro u hu
      by_contra hc
      have := aPsi_mono as h.ok u lk (le_of_lt (not_le.1 hc))
      have := hup u hu
      linarith
    refine ⟨aok_iter h.ok, ⟨max lo lk, up, le_trans hlo (le_max_left _ _), ?_, ?_, ?_, ?_⟩, hbase, hstale⟩
    · rw [aPsi_iter_eq as W (max lo lk) (fun a ha hf hn => hconsNew a ha hf hn _ (le_max_right _ _))]
      rcases max_choice lo lk with hm | hm <;> rw [hm] <;> assumption
    · intro u hu
      rw [aPsi_iter_eq as W u (fun a ha hf hn => hconsNew a ha hf hn _ (hlku u hu))]
      exact hup u hu
    · intro a' ha' hf' lam hr
      obtain ⟨a, ha, rfl⟩ := mem_aIter ha'
      by_cases hf : a.frozen = true
      · rw [aStep_of_frozen as W a hf]
        exact hcons a ha hf lam ⟨le_trans (le_max_left _ _) hr.1, hr.2⟩
      · have hf0 : a.frozen = false := by simpa using hf
        obtain ⟨hb, hw, hK⟩ := aStep_static as W a
        rw [hb, hw, hK]
        exact hconsNew a ha hf0 hf' lam (le_trans (le_max_right _ _) hr.1)
    · intro hn a' ha' hf' hw'
      obtain ⟨a, ha, rfl⟩ := mem_aIter ha'
      by_cases hf : a.frozen = true
      · rw [aStep_of_frozen as W a hf] at hw' ⊢; exact htop hn a ha hf hw'
      · have hf0 : a.frozen = false := by simpa using hf
        obtain ⟨hb, hw, hK⟩ := aStep_static as W a
        refine ⟨a.b + lk * a.w, ?_, ?_⟩
        · rw [hK]; exact hfz a ha hf0 hf'
        · rw [hK]; exact hnewc a ha hf0
  · -- exactly filled
    left
    constructor
    · rw [List.all_eq_true]
      intro a' ha'
      obtain ⟨a, ha, rfl⟩ := mem_aIter ha'
      by_cases hf : a.frozen = true
      · rw [aStep_of_frozen as W a hf]; exact hf
      · have hf0 : a.frozen = false := by simpa using hf
        rw [hnewf a ha hf0, hzero]; simp [aFreeze]
    · have : lsum ((aIter W as).map (·.c)) = aPsi as lk := by
        unfold aIter aPsi
        rw [List.map_map]
        apply lsum_map_congr
        intro a ha
        simp only [Function.comp]
        by_cases hf : a.frozen = true
        · rw [aStep_of_frozen as W a hf]; simp [hf]
        · have hf0 : a.frozen = false := by simpa using hf
          rw [hnewc a ha hf0]; simp [hf0]
      rw [this]; linarith
  · -- backward: the items pushed up by their near bound are frozen; an upper point at (or below) lk appears
    right
    have hpsik : W < aPsi as lk := by linarith
    have hfz : ∀ a ∈ as, a.frozen = false → (aStep as W a).frozen = true →
        a.b + lk * a.w < a.K (a.b + lk * a.w) := by
      intro a ha hf hn
      rw [hnewf a ha hf] at hn
      unfold aFreeze at hn
      rw [if_pos hpos] at hn
      have := of_decide_eq_true hn
      linarith
    have hconsNew : ∀ a ∈ as, a.frozen = false → (aStep as W a).frozen = true → ∀ lam, lam ≤ lk →
        (aStep as W a).c = a.K (a.b + lam * a.w) := by
      intro a ha hf hn lam hl
      rw [hnewc a ha hf]
      have hw := (h.ok a ha).1
      exact ((h.ok a ha).2.down _ (hfz a ha hf hn) _ (by have := mul_le_mul_of_nonneg_right hl hw; linarith)).symm
    have hlolk : lo ≤ lk := by
      by_contra hc
      have := aPsi_mono as h.ok lk lo (le_of_lt (not_le.1 hc))
      linarith
    -- the new upper point
    obtain ⟨mu, hmulk, hmuup, hmupsi⟩ : ∃ mu, mu ≤ lk ∧ (∀ u, up = some u → mu ≤ u) ∧ W < aPsi as mu := by
      cases hu : up with
      | none => exact ⟨lk, le_refl _, fun u hu' => by simp at hu', hpsik⟩
      | some u =>
        by_cases hle : lk ≤ u
        · exact ⟨lk, le_refl _, fun u' hu' => by cases hu'; exact hle, hpsik⟩
        · exact ⟨u, le_of_lt (not_le.1 hle), fun u' hu' => by cases hu'; exact le_refl _, hup u hu⟩
    refine ⟨aok_iter h.ok, ⟨lo, some mu, hlo, ?_, ?_, ?_, ?_⟩, hbase, hstale⟩
    · rw [aPsi_iter_eq as W lo (fun a ha hf hn => hconsNew a ha hf hn _ hlolk)]
      exact hlt
    · intro u hu
      cases hu
      rw [aPsi_iter_eq as W mu (fun a ha hf hn => hconsNew a ha hf hn _ hmulk)]
      exact hmupsi
    · intro a' ha' hf' lam hr
      obtain ⟨a, ha, rfl⟩ := mem_aIter ha'
      have hlam : lam ≤ mu := hr.2 mu rfl
      by_cases hf : a.frozen = true
      · rw [aStep_of_frozen as W a hf]
        exact hcons a ha hf lam ⟨hr.1, fun u hu => le_trans hlam (hmuup u hu)⟩
      · have hf0 : a.frozen = false := by simpa using hf
        obtain ⟨hb, hw, hK⟩ := aStep_static as W a
        rw [hb, hw, hK]
        exact hconsNew a ha hf0 hf' lam (le_trans hlam hmulk)
    · intro hn; simp at hn

theorem ainv_step {W : Rat} {as : List AItem} (h : AInv W as) : ADone W (aIter W as) ∨ AInv W (aIter W as) := by
  by_cases hS : 0 < aSw as
  · exact ainv_step_dist h hS
  · exact Or.inr (ainv_step_keep h hS)

/-- on exit: exactly filled, or every item with a positive weight sits at its far bound -/
theorem aLoop_exhausted (W : Rat) : ∀ (fuel : Nat) (as r : List AItem), AInv W as → aLoop W fuel as = some r →
    lsum (r.map (·.c)) = W ∨ ∀ a ∈ r, 0 < a.w → AtTop a := by
  intro fuel
  induction fuel with
  | zero =>
    intro as r h hr
    unfold aLoop at hr
    by_cases hall : as.all (·.frozen) = true
    · simp only [hall, if_true, Option.some.injEq] at hr
      subst hr
      right
      obtain ⟨lo, up, _, hlt, hup, _, htop⟩ := h.bounds
      have hconst : ∀ lam, aPsi as lam = lsum (as.map (·.c)) := by
        intro lam
        unfold aPsi
        apply lsum_map_congr
        intro a ha
        have hfa : a.frozen = true := List.all_eq_true.1 hall a ha
        simp [hfa]
      cases hu : up with
      | none =>
        intro a ha hw
        exact htop hu a ha (by simpa using List.all_eq_true.1 hall a ha) hw
      | some u =>
        have := hup u hu
        rw [hconst] at this hlt
        linarith
    · simp [hall] at hr
  | succ n ih =>
    intro as r h hr
    unfold aLoop at hr
    by_cases hall : as.all (·.frozen) = true
    · simp only [hall, if_true, Option.some.injEq] at hr
      subst hr
      right
      obtain ⟨lo, up, _, hlt, hup, _, htop⟩ := h.bounds
      have hconst : ∀ lam, aPsi as lam = lsum (as.map (·.c)) := by
        intro lam
        unfold aPsi
        apply lsum_map_congr
        intro a ha
        have hfa : a.frozen = true := List.all_eq_true.1 hall a ha
        simp [hfa]
      cases hu : up with
      | none =>
        intro a ha hw
        exact htop hu a ha (by simpa using List.all_eq_true.1 hall a ha) hw
      | some u =>
        have := hup u hu
        rw [hconst] at this hlt
        linarith
    · simp only [hall, Bool.false_eq_true, if_false] at hr
      rcases ainv_step h with hd | hi
      · -- done: the next call returns immediately
        unfold aLoop at hr
        rw [if_pos hd.1] at hr
        simp only [Option.some.injEq] at hr
        subst hr
        exact Or.inl hd.2
      · exact ih _ r hi hr

/-- the state after step 2 ("size inflexible items") satisfies the invariant with `lo = 0` and no upper point -/
theorem ainv_init (W : Rat) (as : List AItem) (hok : ∀ a ∈ as, AOK a)
    (h1 : ∀ a ∈ as, a.c = a.K a.b)
    (h2 : ∀ a ∈ as, a.frozen = true → a.w = 0 ∨ a.K a.b < a.b)
    (h3 : ∀ a ∈ as, a.frozen = false → a.b ≤ a.K a.b)
    (hlt : lsum (as.map (·.c)) < W) : AInv W as := by
  have hcons : ∀ a ∈ as, a.frozen = true → ∀ lam, 0 ≤ lam → a.c = a.K (a.b + lam * a.w) := by
    intro a ha hf lam hl
    rcases h2 a ha hf with hw | hlt'
    · rw [hw, mul_zero, add_zero]; exact h1 a ha
    · rw [h1 a ha]
      exact ((hok a ha).2.up _ hlt' _ (by have := mul_nonneg hl (hok a ha).1; linarith)).symm
  refine ⟨hok, ⟨0, none, le_refl _, ?_, fun u hu => by simp at hu, ?_, ?_⟩, h3, fun a ha _ _ => h1 a ha⟩
  · have : aPsi as 0 = lsum (as.map (·.c)) := by
      unfold aPsi
      apply lsum_map_congr
      intro a ha
      split
      · rfl
      · rw [zero_mul, add_zero]; exact (h1 a ha).symm
    rw [this]; exact hlt
  · intro a ha hf lam hr
    exact hcons a ha hf lam hr.1
  · intro _ a ha hf hw
    rcases h2 a ha hf with hw0 | hlt'
    · rw [hw0] at hw; exact absurd hw (lt_irrefl 0)
    · exact ⟨a.b, hlt', h1 a ha⟩

end FlexLine
