/-
  C07 lifted to the flexbox program, part 6: what `flexibility_exhausted` needs of the program.

    * `rfl_outer`            on exit of `resolve_flexible_lengths` every outer target size is target + margins
    * `itemWF_fbFinish`      the item `determine_flex_base_size` produces satisfies C07's `ItemWF` — PROVIDED the child's
                             padding + border is ≥ 0 and its max main size (if any) is not below padding + border.
                             Without the second condition `ItemWF.hyp` is false of the program: the hypothetical main size
                             is floored at padding + border, the clamp of the freeze loop is not
                             (`Props/C07Flex.lean`, `flex_program_atMax_needs_max_ge_padding_border`)
    * `Post_determineFlexBaseSize_fb`   every item is `fbFinish` of its generated item
    * the hypothetical-cross and baseline stages keep the main-axis projection (`Post_hypStage_M`)
-/
import TaffyVerif.Lemmas.LiftFlexC07
import TaffyVerif.Lemmas.AbsPos

set_option linter.unusedSectionVars false
set_option linter.unusedVariables false

namespace Lift
open FlexModel EvalFlex FlexLine FlexStages AbsPosLemmas
open EvalBlock (Post Post_bind Post_true)
open AbsPos (Dir.mainStart Dir.mainEnd)

/-! ### outer target size = target size + margins -/

def OuterOK (c : FlexItemM Rat) : Prop := c.frozen = true → c.outerTargetMain = c.targetMain + c.marginSum

theorem outerOK_initFreeze (a b d : Bool) (c : FlexItemM Rat) (h : c.frozen = false) : OuterOK (initFreeze a b d c) := by
  unfold initFreeze OuterOK FlexItemM.marginSum
  simp only
  split
  · intro _; rfl
  · intro hf; rw [h] at hf; cases hf

theorem outerOK_mStep (k : RflCtx Rat) (items : List (FlexItemM Rat)) (c : FlexItemM Rat) (h : OuterOK c) :
    OuterOK (mStep k items c) := by
  by_cases hf : c.frozen = true
  · have e : mStep k items c = c := by
      unfold mStep; simp only [hf, if_true]
    rw [e]; exact h
  · have hf' : c.frozen = false := by simpa using hf
    intro _
    exact mStep_outer k items c hf'

theorem outerOK_loop (k : RflCtx Rat) : ∀ (fuel : Nat) (items r : List (FlexItemM Rat)),
    loop k fuel items = some r → (∀ c ∈ items, OuterOK c) → ∀ c ∈ r, OuterOK c
  | 0, items, r, h, hi => by
    unfold loop at h
    split at h
    · cases h; exact hi
    · cases h
  | fuel + 1, items, r, h, hi => by
    unfold loop at h
    split at h
    · cases h; exact hi
    · refine outerOK_loop k fuel _ r h ?_
      rw [iter_eq_map]
      intro c hc
      obtain ⟨c0, h0, rfl⟩ := List.mem_map.1 hc
      exact outerOK_mStep k items c0 (hi c0 h0)

/-- **on exit of `resolve_flexible_lengths`** (all items frozen) every outer target size is target size + margins -/
theorem rfl_outer (items : List (FlexItemM Rat)) (inner : Option Rat) (gap : Rat) (fuel : Nat) (r : List (FlexItemM Rat))
    (h : resolveFlexibleLengths items inner gap fuel = some r) (hu : ∀ c ∈ items, c.frozen = false)
    (hall : r.all (·.frozen) = true) : ∀ c ∈ r, c.outerTargetMain = c.targetMain + c.marginSum := by
  have hok : ∀ c ∈ r, OuterOK c := by
    unfold resolveFlexibleLengths at h
    simp only at h
    have e : ∀ a b d, ∀ c ∈ items.map (initFreeze a b d), OuterOK c := by
      intro a b d c hc
      obtain ⟨c0, h0, rfl⟩ := List.mem_map.1 hc
      exact outerOK_initFreeze a b d c0 (hu c0 h0)
    split at h
    · cases h; exact e _ _ _
    · exact outerOK_loop _ _ _ r h (e _ _ _)
  intro c hc
  exact hok c hc (List.all_eq_true.1 hall c hc)

/-! ### list bookkeeping -/

theorem forall₂_of_map_eq {β γ δ : Type} (f : β → δ) (g : γ → δ) : ∀ (l1 : List β) (l2 : List γ),
    l1.map f = l2.map g → List.Forall₂ (fun a b => f a = g b) l1 l2
  | [], [], _ => List.Forall₂.nil
  | [], _ :: _, h => by simp at h
  | _ :: _, [], h => by simp at h
  | a :: l1, b :: l2, h => by
    simp only [List.map_cons, List.cons.injEq] at h
    exact List.Forall₂.cons h.1 (forall₂_of_map_eq f g l1 l2 h.2)

theorem forall₂_mono {β γ : Type} {R S : β → γ → Prop} (h : ∀ a b, R a b → S a b) : ∀ {l1 : List β} {l2 : List γ},
    List.Forall₂ R l1 l2 → List.Forall₂ S l1 l2 := by
  intro l1 l2 hr
  induction hr with
  | nil => exact List.Forall₂.nil
  | cons hab _ ih => exact List.Forall₂.cons (h _ _ hab) ih

theorem forall₂_and {β γ : Type} {R S : β → γ → Prop} : ∀ {l1 : List β} {l2 : List γ},
    List.Forall₂ R l1 l2 → List.Forall₂ S l1 l2 → List.Forall₂ (fun a b => R a b ∧ S a b) l1 l2 := by
  intro l1 l2 hr
  induction hr with
  | nil => intro _; exact List.Forall₂.nil
  | cons hab _ ih =>
    intro hs
    cases hs with
    | cons hs1 hs2 => exact List.Forall₂.cons ⟨hab, hs1⟩ (ih hs2)

theorem forall₂_trans {β γ δ : Type} {R : β → γ → Prop} {S : γ → δ → Prop} : ∀ {l1 : List β} {l2 : List γ} {l3 : List δ},
    List.Forall₂ R l1 l2 → List.Forall₂ S l2 l3 → List.Forall₂ (fun a c => ∃ b, R a b ∧ S b c) l1 l3 := by
  intro l1 l2 l3 hr
  induction hr generalizing l3 with
  | nil => intro hs; cases hs; exact List.Forall₂.nil
  | cons hab _ ih =>
    intro hs
    cases hs with
    | cons hs1 hs2 => exact List.Forall₂.cons ⟨_, hab, hs1⟩ (ih hs2)

theorem forall₂_flip {β γ : Type} {R : β → γ → Prop} : ∀ {l1 : List β} {l2 : List γ},
    List.Forall₂ R l1 l2 → List.Forall₂ (fun b a => R a b) l2 l1 := by
  intro l1 l2 hr
  induction hr with
  | nil => exact List.Forall₂.nil
  | cons hab _ ih => exact List.Forall₂.cons hab ih

theorem forall₂_mem_left {β γ : Type} {R : β → γ → Prop} : ∀ {l1 : List β} {l2 : List γ},
    List.Forall₂ R l1 l2 → ∀ a ∈ l1, ∃ b ∈ l2, R a b := by
  intro l1 l2 hr
  induction hr with
  | nil => intro a ha; cases ha
  | cons hab _ ih =>
    intro a ha
    rcases List.mem_cons.1 ha with e | e
    · subst e; exact ⟨_, List.mem_cons_self, hab⟩
    · obtain ⟨b, hb, hr⟩ := ih a e
      exact ⟨b, List.mem_cons_of_mem _ hb, hr⟩

theorem forall₂_length {β γ : Type} {R : β → γ → Prop} : ∀ {l1 : List β} {l2 : List γ},
    List.Forall₂ R l1 l2 → l1.length = l2.length := by
  intro l1 l2 hr
  induction hr with
  | nil => rfl
  | cons _ _ ih => simp only [List.length_cons, ih]

theorem lsum_forall₂ {β γ : Type} (F : β → Rat) (G : γ → Rat) : ∀ {l1 : List β} {l2 : List γ},
    List.Forall₂ (fun a b => F a = G b) l1 l2 → lsum (l1.map F) = lsum (l2.map G) := by
  intro l1 l2 hr
  induction hr with
  | nil => rfl
  | cons hab _ ih => simp only [List.map_cons, lsum, hab, ih]

/-! ### the item `determine_flex_base_size` produces -/

/-- padding + border along the main axis, as `determine_flex_base_size` sums it -/
def pbMain (dir : FlexDirection) (c : FlexItem Rat) : Rat := c.padding.mainAxisSum dir + c.border.mainAxisSum dir

theorem pbMain_eq (dir : FlexDirection) (c : FlexItem Rat) :
    (c.padding.add c.border).sumAxes.main dir = pbMain dir c := by
  unfold pbMain Rect.add Rect.sumAxes Size.main Rect.mainAxisSum Rect.horizontalAxisSum Rect.verticalAxisSum
  split <;> simp only <;> ring

theorem clamp_floor_eq (b mn pb : Rat) (mx : Option Rat) (hb : pb ≤ b) (hpb : 0 ≤ pb)
    (hmx : ∀ u, mx = some u → pb ≤ u) :
    MaybeMath.fo_clamp b (some (Num.fmax mn pb)) mx = clampQ mn mx b := by
  cases mx with
  | none =>
    rw [clampQ_none]
    simp only [MaybeMath.fo_clamp, fmax_eq]
    have : (0 : Rat) ≤ b := le_trans hpb hb
    simp only [max_def]
    split_ifs <;> linarith
  | some u =>
    rw [clampQ_some]
    have hu := hmx u rfl
    simp only [MaybeMath.fo_clamp, fmax_eq, fmin_eq]
    simp only [max_def, min_def]
    split_ifs <;> linarith

/-- **C07's `ItemWF` for the program's items** -/
theorem itemWF_fbFinish (k : AlgoConstants Rat) (c : FlexItem Rat) (fb mc : Rat)
    (hfr : c.frozen = false) (hg : 0 ≤ c.flexGrow) (hs : 0 ≤ c.flexShrink)
    (hpb : 0 ≤ pbMain k.dir c) (hmx : ∀ u, c.maxSize.main k.dir = some u → pbMain k.dir c ≤ u) :
    ItemWF (toM k.dir (fbFinish k c fb mc)) where
  unfrozen := hfr
  grow := hg
  shrink := hs
  inner := by
    show 0 ≤ Num.fmax fb (c.padding.mainAxisSum k.dir + c.border.mainAxisSum k.dir) - c.padding.mainAxisSum k.dir -
      c.border.mainAxisSum k.dir
    rw [fmax_eq]
    have := le_max_right fb (c.padding.mainAxisSum k.dir + c.border.mainAxisSum k.dir)
    linarith
  hyp := by
    show (setMain c.hypotheticalInnerSize k.dir _).main k.dir = _
    rw [main_setMain, clampMain_eq]
    simp only [toM, fbFinish]
    rw [pbMain_eq]
    refine clamp_floor_eq _ _ _ _ ?_ hpb hmx
    rw [fmax_eq]
    exact le_max_right _ _
  outer := by
    show (setMain c.hypotheticalOuterSize k.dir _).main k.dir = (setMain c.hypotheticalInnerSize k.dir _).main k.dir + _
    rw [main_setMain, main_setMain]
    simp only [FlexItemM.marginSum, toM, fbFinish, mainAxisSum_eq]

theorem Post_determineFlexBaseSize_fb (k : AlgoConstants Rat) (av : Size (AvailableSpace Rat)) (so : Nat → Style Rat) :
    ∀ items : List (FlexItem Rat),
    Post (fun r => List.Forall₂ (fun it c => ∃ fb mc, it = fbFinish k c fb mc) r items)
      (determineFlexBaseSize k av so items)
  | [] => List.Forall₂.nil
  | c :: rest => by
    unfold determineFlexBaseSize
    refine Post_bind _ _ (Q := fun c' => ∃ fb mc, c' = fbFinish k c fb mc) ?_ fun c' hc' => ?_
    · rw [flexBaseSizeItem_eq]
      refine Post_bind _ _ (Post_true _) fun fb _ => ?_
      refine Post_bind _ _ (Post_true _) fun mc _ => ?_
      exact ⟨fb, mc, rfl⟩
    · refine Post_bind _ _ (Post_determineFlexBaseSize_fb k av so rest) fun r hr => ?_
      exact List.Forall₂.cons hc' hr

/-! ### the hypothetical-cross and baseline stages keep the main-axis projection -/

theorem toM_hcFinish (k : AlgoConstants Rat) (c : FlexItem Rat) (v : Rat) : toM k.dir (hcFinish k c v) = toM k.dir c := by
  simp only [toM, hcFinish, main_setCross]

theorem Post_hypotheticalCrossItems_M (k : AlgoConstants Rat) (av : Size (AvailableSpace Rat)) :
    ∀ items : List (FlexItem Rat),
    Post (fun r => r.map (toM k.dir) = items.map (toM k.dir) ∧ iidx r = iidx items) (hypotheticalCrossItems k av items)
  | [] => ⟨rfl, rfl⟩
  | c :: rest => by
    unfold hypotheticalCrossItems
    refine Post_bind _ _ (Q := fun c' => toM k.dir c' = toM k.dir c ∧ c'.nodeIdx = c.nodeIdx) ?_ fun c' hc' => ?_
    · rw [hypotheticalCrossItem_eq]
      refine Post_bind _ _ (Post_true _) fun cc _ => ?_
      exact ⟨toM_hcFinish k c cc, rfl⟩
    · refine Post_bind _ _ (Post_hypotheticalCrossItems_M k av rest) fun r hr => ?_
      exact ⟨by simp only [List.map_cons, hc'.1, hr.1], by simp only [iidx_cons, hc'.2, hr.2]⟩

theorem Post_determineHypotheticalCrossSize_M (k : AlgoConstants Rat) (av : Size (AvailableSpace Rat)) :
    ∀ lines : List (FlexLineS Rat),
    Post (fun r => mshape k.dir r = mshape k.dir lines) (determineHypotheticalCrossSize k av lines)
  | [] => rfl
  | line :: rest => by
    unfold determineHypotheticalCrossSize
    refine Post_bind _ _ (Post_hypotheticalCrossItems_M k av line.items) fun items hi => ?_
    refine Post_bind _ _ (Post_determineHypotheticalCrossSize_M k av rest) fun r hr => ?_
    show mshape k.dir (_ :: r) = mshape k.dir (line :: rest)
    simp only [mshape, List.map_cons] at hr ⊢
    rw [hi.1, hr]

theorem Post_baselineItems_M (dir : FlexDirection) (k : AlgoConstants Rat) (ns : Size (Option Rat))
    (av : Size (AvailableSpace Rat)) : ∀ items : List (FlexItem Rat),
    Post (fun r => r.map (toM dir) = items.map (toM dir)) (baselineItems k ns av items)
  | [] => rfl
  | c :: rest => by
    rw [baselineItems_cons]
    split
    · refine Post_bind _ _ (Post_baselineItems_M dir k ns av rest) fun r hr => ?_
      show (c :: r).map (toM dir) = _
      simp only [List.map_cons, hr]
    · refine Post_bind _ _ (Post_true _) fun out _ => ?_
      refine Post_bind _ _ (Post_baselineItems_M dir k ns av rest) fun r hr => ?_
      show (blFinish c out :: r).map (toM dir) = _
      simp only [List.map_cons, hr]
      rfl

theorem Post_baselineLines_M (dir : FlexDirection) (k : AlgoConstants Rat) (ns : Size (Option Rat))
    (av : Size (AvailableSpace Rat)) : ∀ lines : List (FlexLineS Rat),
    Post (fun r => mshape dir r = mshape dir lines) (baselineLines k ns av lines)
  | [] => rfl
  | line :: rest => by
    unfold baselineLines
    simp only
    refine Post_bind _ _ (Q := fun l' : FlexLineS Rat => l'.items.map (toM dir) = line.items.map (toM dir)) ?_
      fun l' hl' => ?_
    · split
      · exact rfl
      · exact Post_bind _ _ (Post_baselineItems_M dir k ns av line.items) fun r hr => hr
    · refine Post_bind _ _ (Post_baselineLines_M dir k ns av rest) fun r hr => ?_
      show mshape dir (l' :: r) = mshape dir (line :: rest)
      simp only [mshape, List.map_cons] at hr ⊢
      rw [hl', hr]

theorem Post_calculateChildrenBaseLines_M (dir : FlexDirection) (k : AlgoConstants Rat) (ns : Size (Option Rat))
    (av : Size (AvailableSpace Rat)) (lines : List (FlexLineS Rat)) :
    Post (fun r => mshape dir r = mshape dir lines) (calculateChildrenBaseLines k ns av lines) := by
  unfold calculateChildrenBaseLines
  split
  · exact rfl
  · exact Post_baselineLines_M dir k ns av lines

/-- steps 6, 7 and the baselines on the projection: only step 6 (`resolve_flexible_lengths`) changes it -/
theorem Post_hypStage_M (inputs : LayoutInput Rat) (av : Size (AvailableSpace Rat))
    (r : List (FlexLineS Rat) × AlgoConstants Rat) :
    Post (fun r' => mshape r.2.dir r'.1 = mshape r.2.dir (r.1.map (resolveFlexibleLengthsLine r.2)) ∧ r'.2 = r.2)
      (hypStage inputs av r) := by
  unfold hypStage
  refine Post_bind _ _ (Post_determineHypotheticalCrossSize_M r.2 av _) fun l1 h1 => ?_
  refine Post_bind _ _ (Post_calculateChildrenBaseLines_M r.2.dir r.2 inputs.knownDimensions av l1) fun l2 h2 => ?_
  exact ⟨h2.trans h1, rfl⟩

end Lift
