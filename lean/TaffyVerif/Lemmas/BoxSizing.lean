/-
  C12 — core facts about `toBorderBox`: projections, and the one arithmetic fact every site uses:
  on an eligible style, `resolve(size) + adjustment` of the content-box node is `resolve(size')` of its border-box
  description, whose own adjustment is zero (padding/border are lengths, so they resolve to the same numbers in every
  context).
-/
import TaffyVerif.Model.BoxSizing

namespace C12L
open BoxSizingModel

variable {s : Style Rat} {m : Bool}

/-! ### what eligibility gives -/

theorem _root_.BoxSizingModel.Eligible.unpack (h : Eligible s) :
    s.boxSizing = .contentBox ∧ s.aspectRatio = none ∧ rectIsLength s.padding = true ∧ rectIsLength s.border = true
      ∧ sizeNoPercent s.size = true ∧ sizeNoPercent s.minSize = true ∧ sizeNoPercent s.maxSize = true
      ∧ dimNoPercent s.flexBasis = true := by
  unfold Eligible eligibleB at h
  simp only [Bool.and_eq_true] at h
  obtain ⟨⟨⟨⟨⟨⟨⟨h1, h2⟩, h3⟩, h4⟩, h5⟩, h6⟩, h7⟩, h8⟩ := h
  refine ⟨?_, ?_, h3, h4, h5, h6, h7, h8⟩
  · cases hb : s.boxSizing with
    | contentBox => rfl
    | borderBox => rw [hb] at h1; exact absurd h1 (by decide)
  · cases ha : s.aspectRatio with
    | none => rfl
    | some r => rw [ha] at h2; exact Bool.noConfusion h2

theorem _root_.BoxSizingModel.Eligible.boxSizing (h : Eligible s) : s.boxSizing = .contentBox := h.unpack.1
theorem _root_.BoxSizingModel.Eligible.aspectRatio (h : Eligible s) : s.aspectRatio = none := h.unpack.2.1
theorem _root_.BoxSizingModel.Eligible.padding (h : Eligible s) : rectIsLength s.padding = true := h.unpack.2.2.1
theorem _root_.BoxSizingModel.Eligible.border (h : Eligible s) : rectIsLength s.border = true := h.unpack.2.2.2.1
theorem _root_.BoxSizingModel.Eligible.size (h : Eligible s) : sizeNoPercent s.size = true := h.unpack.2.2.2.2.1
theorem _root_.BoxSizingModel.Eligible.minSize (h : Eligible s) : sizeNoPercent s.minSize = true := h.unpack.2.2.2.2.2.1
theorem _root_.BoxSizingModel.Eligible.maxSize (h : Eligible s) : sizeNoPercent s.maxSize = true := h.unpack.2.2.2.2.2.2.1
theorem _root_.BoxSizingModel.Eligible.flexBasis (h : Eligible s) : dimNoPercent s.flexBasis = true := h.unpack.2.2.2.2.2.2.2

/-! ### projections of `toBorderBox` (everything but five fields is untouched) -/

theorem tbb_boxSizing : (toBorderBox m s).boxSizing = .borderBox := rfl
theorem tbb_size : (toBorderBox m s).size = bumpSize s.size (pbSum s) := rfl
theorem tbb_minSize : (toBorderBox m s).minSize = bumpSize s.minSize (pbSum s) := rfl
theorem tbb_maxSize : (toBorderBox m s).maxSize = bumpSize s.maxSize (pbSum s) := rfl
theorem tbb_flexBasis :
    (toBorderBox m s).flexBasis = bumpDim s.flexBasis (if m then (pbSum s).width else (pbSum s).height) := rfl
theorem tbb_display : (toBorderBox m s).display = s.display := rfl
theorem tbb_itemIsTable : (toBorderBox m s).itemIsTable = s.itemIsTable := rfl
theorem tbb_itemIsReplaced : (toBorderBox m s).itemIsReplaced = s.itemIsReplaced := rfl
theorem tbb_overflow : (toBorderBox m s).overflow = s.overflow := rfl
theorem tbb_scrollbarWidth : (toBorderBox m s).scrollbarWidth = s.scrollbarWidth := rfl
theorem tbb_position : (toBorderBox m s).position = s.position := rfl
theorem tbb_inset : (toBorderBox m s).inset = s.inset := rfl
theorem tbb_aspectRatio : (toBorderBox m s).aspectRatio = s.aspectRatio := rfl
theorem tbb_margin : (toBorderBox m s).margin = s.margin := rfl
theorem tbb_padding : (toBorderBox m s).padding = s.padding := rfl
theorem tbb_border : (toBorderBox m s).border = s.border := rfl
theorem tbb_alignItems : (toBorderBox m s).alignItems = s.alignItems := rfl
theorem tbb_alignSelf : (toBorderBox m s).alignSelf = s.alignSelf := rfl
theorem tbb_justifyItems : (toBorderBox m s).justifyItems = s.justifyItems := rfl
theorem tbb_justifySelf : (toBorderBox m s).justifySelf = s.justifySelf := rfl
theorem tbb_alignContent : (toBorderBox m s).alignContent = s.alignContent := rfl
theorem tbb_justifyContent : (toBorderBox m s).justifyContent = s.justifyContent := rfl
theorem tbb_gap : (toBorderBox m s).gap = s.gap := rfl
theorem tbb_textAlign : (toBorderBox m s).textAlign = s.textAlign := rfl
theorem tbb_flexDirection : (toBorderBox m s).flexDirection = s.flexDirection := rfl
theorem tbb_flexWrap : (toBorderBox m s).flexWrap = s.flexWrap := rfl
theorem tbb_flexGrow : (toBorderBox m s).flexGrow = s.flexGrow := rfl
theorem tbb_flexShrink : (toBorderBox m s).flexShrink = s.flexShrink := rfl
theorem tbb_isHidden : (toBorderBox m s).isHidden = s.isHidden := rfl
theorem tbb_isBlock : (toBorderBox m s).isBlock = s.isBlock := rfl

theorem beq_cb_cb : (BoxSizing.contentBox == BoxSizing.contentBox) = true := rfl
theorem beq_bb_cb : (BoxSizing.borderBox == BoxSizing.contentBox) = false := rfl

/-! ### padding and border of an eligible style resolve to the same numbers in every context -/

theorem lp_resolve_len (x : LP Rat) (hx : lpIsLength x = true) (c : Option Rat) : x.resolveOrZero c = lpLen x := by
  cases x with
  | length v => rfl
  | percent f => exact Bool.noConfusion hx

theorem rect_resolve (r : Rect (LP Rat)) (hr : rectIsLength r = true) (c : Option Rat) :
    Resolve.rectLPOrZero r c = rectLen r := by
  unfold rectIsLength at hr
  simp only [Bool.and_eq_true] at hr
  obtain ⟨⟨⟨h1, h2⟩, h3⟩, h4⟩ := hr
  simp only [Resolve.rectLPOrZero, rectLen, lp_resolve_len _ h1, lp_resolve_len _ h2, lp_resolve_len _ h3,
    lp_resolve_len _ h4]

theorem rect_resolve_size (r : Rect (LP Rat)) (hr : rectIsLength r = true) (c : Size (Option Rat)) :
    Resolve.rectLPOrZeroSize r c = rectLen r := by
  unfold rectIsLength at hr
  simp only [Bool.and_eq_true] at hr
  obtain ⟨⟨⟨h1, h2⟩, h3⟩, h4⟩ := hr
  simp only [Resolve.rectLPOrZeroSize, rectLen, lp_resolve_len _ h1, lp_resolve_len _ h2, lp_resolve_len _ h3,
    lp_resolve_len _ h4]

theorem padding_resolve (h : Eligible s) (c : Option Rat) : Resolve.rectLPOrZero s.padding c = rectLen s.padding :=
  rect_resolve _ h.padding c
theorem border_resolve (h : Eligible s) (c : Option Rat) : Resolve.rectLPOrZero s.border c = rectLen s.border :=
  rect_resolve _ h.border c
theorem padding_resolve_size (h : Eligible s) (c : Size (Option Rat)) :
    Resolve.rectLPOrZeroSize s.padding c = rectLen s.padding := rect_resolve_size _ h.padding c
theorem border_resolve_size (h : Eligible s) (c : Size (Option Rat)) :
    Resolve.rectLPOrZeroSize s.border c = rectLen s.border := rect_resolve_size _ h.border c

/-- folding rule: the resolved `(padding + border).sum_axes()` is `pbSum` -/
theorem pbSum_fold (s : Style Rat) : ((rectLen s.padding).add (rectLen s.border)).sumAxes = pbSum s := rfl

/-- `pb_sum` as written in flexbox.rs l.176 (`padding.sum_axes() + border.sum_axes()`): the other association -/
theorem pbSum_fold' (s : Style Rat) : (rectLen s.padding).sumAxes.add (rectLen s.border).sumAxes = pbSum s := by
  simp only [pbSum, Size.add, Rect.sumAxes, Rect.add, Rect.horizontalAxisSum, Rect.verticalAxisSum, Size.mk.injEq]
  constructor <;> simp only [Rat.add_left_comm, Rat.add_comm]

/-! ### the arithmetic fact -/

theorem bumpDim_resolve (d : Dimension Rat) (hd : dimNoPercent d = true) (p : Rat) (c : Option Rat) :
    (bumpDim d p).maybeResolve c = MaybeMath.of_add (d.maybeResolve c) p := by
  cases d with
  | length v => rfl
  | auto => rfl
  | percent f => exact Bool.noConfusion hd

theorem bumpSize_resolve (d : Size (Dimension Rat)) (hd : sizeNoPercent d = true) (p : Size Rat)
    (ctx : Size (Option Rat)) :
    Resolve.sizeMaybe (bumpSize d p) ctx = (Resolve.sizeMaybe d ctx).of_add p := by
  unfold sizeNoPercent at hd
  simp only [Bool.and_eq_true] at hd
  simp only [Resolve.sizeMaybe, bumpSize, Size.of_add, bumpDim_resolve _ hd.1, bumpDim_resolve _ hd.2]

theorem bumpDim_isAuto (d : Dimension Rat) (p : Rat) : (bumpDim d p).isAuto = d.isAuto := by
  cases d <;> rfl

theorem of_add_zero (x : Size (Option Rat)) : x.of_add Size.zero = x := by
  obtain ⟨w, h⟩ := x
  cases w <;> cases h <;>
    simp only [Size.of_add, MaybeMath.of_add, Size.zero, Option.map, Rat.add_zero]

theorem opt_of_add_zero (x : Option Rat) : MaybeMath.of_add x 0 = x := by
  cases x <;> simp only [MaybeMath.of_add, Option.map, Rat.add_zero]

theorem aspect_none (x : Size (Option Rat)) : x.maybeApplyAspectRatio none = x := rfl

theorem size_resolve (h : Eligible s) (ctx : Size (Option Rat)) :
    Resolve.sizeMaybe (bumpSize s.size (pbSum s)) ctx = (Resolve.sizeMaybe s.size ctx).of_add (pbSum s) :=
  bumpSize_resolve _ h.size _ _
theorem minSize_resolve (h : Eligible s) (ctx : Size (Option Rat)) :
    Resolve.sizeMaybe (bumpSize s.minSize (pbSum s)) ctx = (Resolve.sizeMaybe s.minSize ctx).of_add (pbSum s) :=
  bumpSize_resolve _ h.minSize _ _
theorem maxSize_resolve (h : Eligible s) (ctx : Size (Option Rat)) :
    Resolve.sizeMaybe (bumpSize s.maxSize (pbSum s)) ctx = (Resolve.sizeMaybe s.maxSize ctx).of_add (pbSum s) :=
  bumpSize_resolve _ h.maxSize _ _

/-- the `box_sizing_adjustment` of a style, padding/border resolved against `c` (leaf.rs l.28–33 and every copy) -/
def adjustment (t : Style Rat) (c : Option Rat) : Size Rat :=
  if t.boxSizing == .contentBox then
    ((Resolve.rectLPOrZero t.padding c).add (Resolve.rectLPOrZero t.border c)).sumAxes
  else Size.zero

theorem adjustment_eligible (h : Eligible s) (c : Option Rat) : adjustment s c = pbSum s := by
  simp only [adjustment, h.boxSizing, beq_cb_cb, if_true, padding_resolve h, border_resolve h, pbSum_fold]

theorem adjustment_toBorderBox (s : Style Rat) (m : Bool) (c : Option Rat) : adjustment (toBorderBox m s) c = Size.zero := rfl

/-- **the core arithmetic fact**, for any of the three size properties: `prop` selects size / min-size / max-size.
`resolve(size).maybe_add(adjustment)` of the content-box style = `resolve(size')` of the border-box style (whose
adjustment is zero), in every resolution context `ctx` (for the size) and `c` (for padding/border). -/
theorem core_size (h : Eligible s) (m : Bool) (ctx : Size (Option Rat)) (c : Option Rat) :
    (Resolve.sizeMaybe s.size ctx).of_add (adjustment s c) = Resolve.sizeMaybe (toBorderBox m s).size ctx
    ∧ (Resolve.sizeMaybe s.minSize ctx).of_add (adjustment s c) = Resolve.sizeMaybe (toBorderBox m s).minSize ctx
    ∧ (Resolve.sizeMaybe s.maxSize ctx).of_add (adjustment s c) = Resolve.sizeMaybe (toBorderBox m s).maxSize ctx
    ∧ adjustment (toBorderBox m s) c = Size.zero := by
  simp only [adjustment_eligible h, tbb_size, tbb_minSize, tbb_maxSize, size_resolve h, minSize_resolve h,
    maxSize_resolve h, adjustment_toBorderBox, and_self]

/-- the full site expression `maybe_resolve → maybe_apply_aspect_ratio → maybe_add(adjustment)` is invariant -/
theorem core_site (h : Eligible s) (m : Bool) (ctx : Size (Option Rat)) (c : Option Rat) :
    ((Resolve.sizeMaybe s.size ctx).maybeApplyAspectRatio s.aspectRatio).of_add (adjustment s c)
      = ((Resolve.sizeMaybe (toBorderBox m s).size ctx).maybeApplyAspectRatio (toBorderBox m s).aspectRatio).of_add
          (adjustment (toBorderBox m s) c) := by
  simp only [adjustment_eligible h, tbb_size, tbb_aspectRatio, h.aspectRatio, aspect_none, size_resolve h,
    adjustment_toBorderBox, of_add_zero]

/-- `flex_basis().maybe_resolve(main).maybe_add(adjustment.main(dir))` (flexbox.rs l.688–700) -/
theorem core_flexBasis (h : Eligible s) (m : Bool) (c c' : Option Rat) :
    MaybeMath.of_add (s.flexBasis.maybeResolve c) (if m then (adjustment s c').width else (adjustment s c').height)
      = MaybeMath.of_add ((toBorderBox m s).flexBasis.maybeResolve c)
          (if m then (adjustment (toBorderBox m s) c').width else (adjustment (toBorderBox m s) c').height) := by
  simp only [adjustment_eligible h, tbb_flexBasis, bumpDim_resolve _ h.flexBasis, adjustment_toBorderBox, Size.zero,
    ite_self, opt_of_add_zero]

end C12L
