/-
  The grid program: number of child calls (`C16.callsLe`) and the coverage flags of `EvalMemo.Covers`.

  Calls per run: ≤ 11 per grid item (in-flow child) — inline axis: first run 2 contribution calls + 1 baseline call,
  step 7: 1 re-measurement resp. cleared caches, re-run: what the caches leave + 1 baseline call, together ≤ 6;
  block axis: together ≤ 4; final layout 1 —, 1 per absolutely positioned box, 1 per `display:none` child.
  So ≤ `11·n` for `n` children.  The bound does not depend on the number of tracks or batches: every contribution query
  goes through the item's per-axis cache (`GridItem::*_contribution_cached`), which track sizing never clears.

  Coverage: in PerformLayout mode a run that does not panic ends with the positioning loop over the grid items and the
  hidden/absolute loop, each a sequence of `perform_child_layout(j); set_unrounded_layout(j)` pairs, and together they
  visit every child.  A panicking run (`computeGridLayoutE` = `.error`) stops where the panic occurs.
-/
import TaffyVerif.Lemmas.EvalGridAgree

set_option linter.unusedSectionVars false
set_option linter.unusedVariables false

namespace EvalGrid
open GridModel GridTracks EvalBlock EvalMemo
variable {α : Type} [Num α]

/-! ### counting the children -/

/-- `display:none` or absolutely positioned -/
def isHidAbs (cs : GridChildStyle α) : Bool := cs.base.isHidden || cs.base.position == .absolute

theorem isFlow_eq (cs : GridChildStyle α) : isFlow cs = !isHidAbs cs := by
  unfold isFlow isHidAbs
  cases cs.base.isHidden <;> cases cs.base.position <;> rfl

theorem hidAbsIdxFrom_cons (cs : GridChildStyle α) (rest : List (GridChildStyle α)) (index : Nat) :
    hidAbsIdxFrom (cs :: rest) index =
      if isHidAbs cs then index :: hidAbsIdxFrom rest (index + 1) else hidAbsIdxFrom rest (index + 1) := rfl

theorem count_children : ∀ (l : List (GridChildStyle α)) (n : Nat),
    (((GridPlacement.enumFrom n l).filter fun ic => !ic.2.base.isHidden && ic.2.base.position != .absolute).map
      (fun ic => (ic.1, (⟨ic.2.gridRow, ic.2.gridColumn⟩ : GridPlacement.Child)))).length +
      (hidAbsIdxFrom l n).length = l.length
  | [], _ => rfl
  | cs :: rest, n => by
    have ih := count_children rest (n + 1)
    have e : (!cs.base.isHidden && cs.base.position != .absolute) = !isHidAbs cs := isFlow_eq cs
    simp only [GridPlacement.enumFrom, List.filter_cons, hidAbsIdxFrom_cons, e]
    cases isHidAbs cs
    · simp only [Bool.not_false, if_true, List.map_cons, List.length_cons, Bool.false_eq_true, if_false] at ih ⊢
      omega
    · simp only [Bool.not_true, Bool.false_eq_true, if_false, if_true, List.length_cons] at ih ⊢
      omega

/-- every child is a grid item, or absolutely positioned, or `display:none` -/
theorem inFlow_add_hidAbs (childStyles : List (GridChildStyle α)) :
    (inFlowOf childStyles).length + (hidAbsIdxFrom childStyles 0).length = childStyles.length :=
  count_children childStyles 0

theorem mem_hidAbsIdxFrom : ∀ (l : List (GridChildStyle α)) (n i : Nat),
    i ∈ hidAbsIdxFrom l n ↔ ∃ j cs, i = n + j ∧ l[j]? = some cs ∧ isHidAbs cs = true
  | [], n, i => by simp [hidAbsIdxFrom]
  | s :: rest, n, i => by
    have ih := mem_hidAbsIdxFrom rest (n + 1) i
    have step : (∃ j s', i = n + 1 + j ∧ rest[j]? = some s' ∧ isHidAbs s' = true) ↔
        ∃ j s', i = n + (j + 1) ∧ (s :: rest)[j + 1]? = some s' ∧ isHidAbs s' = true := by
      constructor
      · rintro ⟨j, s', h1, h2, h3⟩; exact ⟨j, s', by omega, by simpa using h2, h3⟩
      · rintro ⟨j, s', h1, h2, h3⟩; exact ⟨j, s', by omega, by simpa using h2, h3⟩
    rw [hidAbsIdxFrom_cons]
    by_cases hs : isHidAbs s = true
    · rw [if_pos hs, List.mem_cons, ih, step]
      constructor
      · rintro (h | ⟨j, s', h1, h2, h3⟩)
        · exact ⟨0, s, by omega, rfl, hs⟩
        · exact ⟨j + 1, s', h1, h2, h3⟩
      · rintro ⟨j, s', h1, h2, h3⟩
        cases j with
        | zero => exact Or.inl (by omega)
        | succ j => exact Or.inr ⟨j, s', h1, h2, h3⟩
    · rw [if_neg hs, ih, step]
      constructor
      · rintro ⟨j, s', h1, h2, h3⟩; exact ⟨j + 1, s', h1, h2, h3⟩
      · rintro ⟨j, s', h1, h2, h3⟩
        cases j with
        | zero =>
          simp only [List.getElem?_cons_zero, Option.some.injEq] at h2
          subst h2
          exact absurd h3 hs
        | succ j => exact ⟨j, s', h1, h2, h3⟩

/-! ### call counts -/
section calls
open C16
variable [NumCast α]

theorem GCalls_gridTail (c : Ctx α) (childStyles : List (GridChildStyle α)) (bb cb : Size α)
    (cc rc : GridPlacement.TrackCounts) (columns rows : List (GridTrack α)) (items : List (GItem α)) :
    GCalls (items.length + (hidAbsIdxFrom childStyles 0).length)
      (gridTail c childStyles bb cb cc rc columns rows items) := by
  have hl := GLays_gridTail (fun _ _ => True) c childStyles bb cb cc rc columns rows items
    (fun _ _ _ => trivial) (fun _ _ _ _ _ => trivial) (fun _ _ _ _ _ => trivial)
  have := LaysE_callsLe _ _ _ hl
  simp only [List.length_append, List.length_map, (List.mergeSort_perm _ _).length_eq] at this
  exact this

/-- per run: at most 11 calls per grid item, one per absolutely positioned box, one per `display:none` child
(panicking runs included) -/
theorem GCalls_computeGridLayoutE (style : GridStyle α) (childStyles : List (GridChildStyle α)) (inputs : LayoutInput α) :
    GCalls (11 * (inFlowOf childStyles).length + (hidAbsIdxFrom childStyles 0).length)
      (computeGridLayoutE style childStyles inputs) := by
  rcases computeGridLayoutE_cases style inputs with ⟨_, o, h⟩ | h
  · rw [h]; exact GCalls_pure _ _
  · rw [h]
    rcases gridSetupK_cases style childStyles inputs with ⟨e, he⟩ | ⟨su, hperm, hk⟩
    · rw [he]; exact GCalls_throw _ _
    · rw [hk]
      have hlen : su.items.length = (inFlowOf childStyles).length := by
        have := hperm.length_eq; simpa using this
      rw [← hlen]
      exact K_gridMain (fun m q => GCalls m q) closed_GCalls style childStyles inputs su _
        (fun _ m o => GCalls_pure m o)
        (fun _ bb cb columns' rows' items' hf => by
          rw [← hf.length]; exact GCalls_gridTail _ childStyles bb cb _ _ columns' rows' items')

theorem callsLe_computeGridLayout_fine (style : GridStyle α) (childStyles : List (GridChildStyle α))
    (inputs : LayoutInput α) :
    callsLe (11 * (inFlowOf childStyles).length + (hidAbsIdxFrom childStyles 0).length)
      (computeGridLayout style childStyles inputs) := by
  unfold computeGridLayout
  have := callsLe_bind' _ (fun r : Except String (LayoutOutput α) => match r with
    | .ok out => (pure out : ProgM α (LayoutOutput α))
    | .error _ => pure LayoutOutput.hidden) _ 0 (GCalls_computeGridLayoutE style childStyles inputs)
    fun r => by cases r <;> trivial
  exact this

/-- per run, `compute_grid_layout` calls its children at most `11 · n` times in total -/
theorem callsLe_computeGridLayout (style : GridStyle α) (childStyles : List (GridChildStyle α)) (inputs : LayoutInput α) :
    callsLe (11 * childStyles.length) (computeGridLayout style childStyles inputs) := by
  have := inFlow_add_hidAbs childStyles
  exact callsLe_mono _ _ _ (by omega) (callsLe_computeGridLayout_fine style childStyles inputs)

end calls

/-! ### coverage flags -/
section flags
variable [NumCast α]

theorem GTrack_gridTail (c : Ctx α) (childStyles : List (GridChildStyle α)) (bb cb : Size α)
    (cc rc : GridPlacement.TrackCounts) (columns rows : List (GridTrack α)) (items : List (GItem α))
    (own strict : Nat → Bool) :
    GTrack own strict (gridTail c childStyles bb cb cc rc columns rows items) (fun _ o s =>
      (∀ it ∈ items, G o s it.node) ∧ ∀ j ∈ hidAbsIdxFrom childStyles 0, G o s j) := by
  have hl := GLays_gridTail (fun _ _ => True) c childStyles bb cb cc rc columns rows items
    (fun _ _ _ => trivial) (fun _ _ _ _ _ => trivial) (fun _ _ _ _ _ => trivial)
  refine Track_mono _ _ _ ?_ own strict (LaysE_Track _ _ _ own strict hl)
  intro r o s hr b hb
  obtain ⟨_, h2⟩ := hr b hb
  refine ⟨fun it hit => h2 _ (List.mem_append_left _ (List.mem_map_of_mem ?_)),
    fun j hj => h2 _ (List.mem_append_right _ hj)⟩
  exact (List.mergeSort_perm _ _).mem_iff.2 hit

/-- in PerformLayout mode, at the end of every run of `compute_grid_layout` that does not panic every child's last call
was a PerformLayout call and its layout has been written since (grid items, absolutely positioned and `display:none`
children alike) -/
theorem GTrack_computeGridLayoutE (style : GridStyle α) (childStyles : List (GridChildStyle α)) (inputs : LayoutInput α)
    (hm : inputs.runMode = .performLayout) (own strict : Nat → Bool) :
    GTrack own strict (computeGridLayoutE style childStyles inputs)
      (fun _ o s => ∀ i, i < childStyles.length → G o s i) := by
  rcases computeGridLayoutE_cases style inputs with ⟨hc, _⟩ | h
  · rw [hm] at hc; cases hc
  · rw [h]
    rcases gridSetupK_cases style childStyles inputs with ⟨e, he⟩ | ⟨su, hperm, hk⟩
    · rw [he]; exact GTrack_throw _ _ _ _
    · rw [hk]
      refine K_gridMain (fun _ q => ∀ own strict, GTrack own strict q
          (fun _ o s => ∀ i, i < childStyles.length → G o s i)) (closed_GTrack _) style childStyles inputs su 0
        (fun hc => by rw [hm] at hc; cases hc) ?_ own strict
      intro _ bb cb columns' rows' items' hf own' strict'
      refine GTrack_mono _ _ _ ?_ own' strict' (GTrack_gridTail _ childStyles bb cb _ _ columns' rows' items' own' strict')
      intro _ o s ⟨h1, h2⟩ i hi
      have hget : childStyles[i]? = some childStyles[i] := List.getElem?_eq_getElem hi
      by_cases hf' : isFlow childStyles[i] = true
      · -- a grid item
        have hm1 : i ∈ su.items.map (·.node) :=
          hperm.mem_iff.2 ((mem_inFlowOf childStyles i).2 ⟨_, hget, hf'⟩)
        have hm2 : i ∈ items'.map (·.node) := hf.nodes.mem_iff.2 hm1
        obtain ⟨it, hit, e⟩ := List.mem_map.1 hm2
        rw [← e]; exact h1 it hit
      · refine h2 i ((mem_hidAbsIdxFrom childStyles 0 i).2 ⟨i, _, by omega, hget, ?_⟩)
        rw [isFlow_eq] at hf'
        simpa using hf'

/-- no run of the program panics -/
def NoPanic {β : Type} (p : GM α β) : Prop := Post (fun r => ∃ b, r = .ok b) (run p)

theorem Track_and_Post {β : Type} (p : ProgM α β) (P : β → Prop) (Q : β → (Nat → Bool) → (Nat → Bool) → Prop) :
    ∀ (own strict : Nat → Bool), Track own strict p Q → Post P p → Track own strict p (fun r o s => P r ∧ Q r o s) := by
  induction p with
  | pure b => intro _ _ h1 h2; exact ⟨h2, h1⟩
  | call i inp k ih => intro own strict h1 h2 o; exact ih o _ _ (h1 o) (h2 o)
  | setLayout i l k ih => intro own strict h1 h2; exact ih () _ _ h1 h2

/-- **coverage, for the non-panicking case**: if no run of `compute_grid_layout` on these styles and this input panics,
the program `Covers` all its children -/
theorem grid_covers_of_noPanic (style : GridStyle α) (childStyles : List (GridChildStyle α)) (inp : LayoutInput α)
    (hm : inp.runMode = .performLayout) (hnp : NoPanic (computeGridLayoutE style childStyles inp)) :
    Covers childStyles.length (fun _ => false) (fun _ => false) (computeGridLayout style childStyles inp) := by
  rw [Covers_iff_Track]
  unfold computeGridLayout
  refine Track_bind _ _ _ _ _ _ (Track_and_Post _ _ _ _ _ (GTrack_computeGridLayoutE style childStyles inp hm _ _) hnp) ?_
  intro r o s ⟨⟨b, hb⟩, hr⟩
  subst hb
  intro i hi
  exact ⟨(hr b rfl i hi).2, (hr b rfl i hi).1⟩

end flags

end EvalGrid
