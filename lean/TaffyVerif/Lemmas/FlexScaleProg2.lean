/-
  C04 for flexbox, part 5: determine_hypothetical_cross_size, calculate_children_base_lines, the final layout pass and the
  absolute pass, as interaction programs, commute with scaling (no side condition).
-/
import TaffyVerif.Lemmas.FlexScaleProg

set_option linter.unusedSectionVars false
set_option linter.unusedVariables false
set_option linter.unusedSimpArgs false

namespace C04
open Scalable FlexModel FlexStages BlockModel

variable {k : Rat}

/-! ### determine_hypothetical_cross_size -/

theorem hcPaddingBorder_scale (k : Rat) (c : AlgoConstants Rat) (child : FlexItem Rat) :
    hcPaddingBorder (scale k c) (scale k child) = scale k (hcPaddingBorder c child) := by
  simp only [hcPaddingBorder, scale_simp]

theorem hcDefinite_scale (hk : 0 < k) (c : AlgoConstants Rat) (child : FlexItem Rat) :
    hcDefinite (scale k c) (scale k child) = scale k (hcDefinite c child) := by
  simp only [hcDefinite, hcPaddingBorder_scale, scale_simp, hk]

theorem hcAvailCross_scale (hk : 0 < k) (c : AlgoConstants Rat) (av : Size (AvailableSpace Rat)) (child : FlexItem Rat) :
    hcAvailCross (scale k c) (scale k av) (scale k child) = scale k (hcAvailCross c av child) := by
  simp only [hcAvailCross, hcPaddingBorder_scale, scale_simp, hk]

theorem hcKnown_scale (hk : 0 < k) (c : AlgoConstants Rat) (child : FlexItem Rat) :
    hcKnown (scale k c) (scale k child) = scale k (hcKnown c child) := by
  simp only [hcKnown, hcDefinite_scale hk, scale_size_mk, fxk_isRow, fxi_targetSize, scale_size_width,
    scale_size_height]
  cases c.isRow <;> rfl

theorem hcAvail_scale (hk : 0 < k) (c : AlgoConstants Rat) (av : Size (AvailableSpace Rat)) (child : FlexItem Rat) :
    hcAvail (scale k c) (scale k av) (scale k child) = scale k (hcAvail c av child) := by
  simp only [hcAvail, hcAvailCross_scale hk, scale_size_mk, fxk_isRow, fxk_dir, fxk_containerSize, Size.main_scale]
  cases c.isRow <;> rfl

theorem hcMeasured_scale (hk : 0 < k) (c : AlgoConstants Rat) (child : FlexItem Rat) (m : Rat) :
    hcMeasured (scale k c) (scale k child) (scale k m) = scale k (hcMeasured c child m) := by
  simp only [hcMeasured, hcPaddingBorder_scale, scale_simp, hk]

theorem hcFinish_scale (k : Rat) (c : AlgoConstants Rat) (child : FlexItem Rat) (v : Rat) :
    hcFinish (scale k c) (scale k child) (scale k v) = scale k (hcFinish c child v) := by
  simp only [hcFinish, scale_fxi_mk, scale_simp]

theorem hypotheticalCrossItem_scale (hk : 0 < k) (c : AlgoConstants Rat) (av : Size (AvailableSpace Rat))
    (child : FlexItem Rat) :
    hypotheticalCrossItem (scale k c) (scale k av) (scale k child) = scaleProg k (hypotheticalCrossItem c av child) := by
  rw [hypotheticalCrossItem_eq, hypotheticalCrossItem_eq, hcDefinite_scale hk, hcKnown_scale hk, hcAvail_scale hk,
    fxi_nodeIdx, fxk_dir, fxk_nodeInnerSize]
  apply bind_scale_of
  · cases hcDefinite c child with
    | some v => rfl
    | none =>
      apply bind_scale_of
      · exact measureChildSize_scale hk _ _ _ _ _ _ _
      · intro m
        rw [hcMeasured_scale hk]
        rfl
  · intro v
    rw [hcFinish_scale]
    rfl

theorem hypotheticalCrossItems_scale (hk : 0 < k) (c : AlgoConstants Rat) (av : Size (AvailableSpace Rat)) :
    ∀ (items : List (FlexItem Rat)),
      hypotheticalCrossItems (scale k c) (scale k av) (scale k items) =
        scaleProg k (hypotheticalCrossItems c av items)
  | [] => rfl
  | child :: rest => by
    rw [scale_cons]
    unfold hypotheticalCrossItems
    apply bind_scale_of
    · exact hypotheticalCrossItem_scale hk c av child
    · intro c'
      apply bind_scale_of
      · exact hypotheticalCrossItems_scale hk c av rest
      · intro r'
        rfl

theorem determineHypotheticalCrossSize_scale (hk : 0 < k) (c : AlgoConstants Rat) (av : Size (AvailableSpace Rat)) :
    ∀ (lines : List (FlexLineS Rat)),
      determineHypotheticalCrossSize (scale k c) (scale k av) (scale k lines) =
        scaleProg k (determineHypotheticalCrossSize c av lines)
  | [] => rfl
  | line :: rest => by
    rw [scale_cons]
    unfold determineHypotheticalCrossSize
    rw [fxl_items]
    apply bind_scale_of
    · exact hypotheticalCrossItems_scale hk c av line.items
    · intro items
      apply bind_scale_of
      · exact determineHypotheticalCrossSize_scale hk c av rest
      · intro r'
        rfl

/-! ### calculate_children_base_lines -/

theorem blKnown_scale (k : Rat) (c : AlgoConstants Rat) (child : FlexItem Rat) :
    blKnown (scale k c) (scale k child) = scale k (blKnown c child) := by
  simp only [blKnown, fxk_isRow, fxi_targetSize, fxi_hypotheticalInnerSize, scale_size_mk, scale_size_width,
    scale_size_height]
  cases c.isRow <;> rfl

theorem blAvail_scale (k : Rat) (c : AlgoConstants Rat) (ns : Size (Option Rat)) (av : Size (AvailableSpace Rat)) :
    blAvail (scale k c) (scale k ns) (scale k av) = scale k (blAvail c ns av) := by
  simp only [blAvail, fxk_isRow, fxk_containerSize, scale_size_mk, scale_size_width, scale_size_height,
    AvailableSpace.maybeSet_scale]
  cases c.isRow <;> rfl

theorem blFinish_scale (k : Rat) (child : FlexItem Rat) (out : LayoutOutput Rat) :
    blFinish (scale k child) (scale k out) = scale k (blFinish child out) := by
  simp only [blFinish, scale_fxi_mk, scale_simp]

theorem baselineItems_scale (hk : 0 < k) (c : AlgoConstants Rat) (ns : Size (Option Rat))
    (av : Size (AvailableSpace Rat)) : ∀ (items : List (FlexItem Rat)),
      baselineItems (scale k c) (scale k ns) (scale k av) (scale k items) =
        scaleProg k (baselineItems c ns av items)
  | [] => rfl
  | child :: rest => by
    rw [scale_cons, baselineItems_cons, baselineItems_cons, fxi_alignSelf, fxi_nodeIdx, blKnown_scale, blAvail_scale,
      fxk_nodeInnerSize]
    by_cases h : (child.alignSelf != AlignItems.baseline) = true
    · rw [if_pos h, if_pos h]
      apply bind_scale_of
      · exact baselineItems_scale hk c ns av rest
      · intro r'
        rfl
    · rw [if_neg h, if_neg h]
      apply bind_scale_of
      · exact performChildLayout_scale hk _ _ _ _ _ _
      · intro out
        apply bind_scale_of
        · exact baselineItems_scale hk c ns av rest
        · intro r'
          rw [blFinish_scale]
          rfl

theorem filter_baseline_length_scale (k : Rat) (items : List (FlexItem Rat)) :
    ((scale k items).filter fun c => c.alignSelf == AlignItems.baseline).length =
      (items.filter fun c => c.alignSelf == AlignItems.baseline).length := by
  rw [filter_scale k (fun c : FlexItem Rat => c.alignSelf == AlignItems.baseline) (fun _ => rfl), length_scale]

theorem baselineLines_scale (hk : 0 < k) (c : AlgoConstants Rat) (ns : Size (Option Rat))
    (av : Size (AvailableSpace Rat)) : ∀ (lines : List (FlexLineS Rat)),
      baselineLines (scale k c) (scale k ns) (scale k av) (scale k lines) =
        scaleProg k (baselineLines c ns av lines)
  | [] => rfl
  | line :: rest => by
    rw [scale_cons]
    unfold baselineLines
    simp only [fxl_items, filter_baseline_length_scale]
    apply bind_scale_of
    · split
      · rfl
      · apply bind_scale_of
        · exact baselineItems_scale hk c ns av line.items
        · intro items
          rfl
    · intro line'
      apply bind_scale_of
      · exact baselineLines_scale hk c ns av rest
      · intro r'
        rfl

theorem calculateChildrenBaseLines_scale (hk : 0 < k) (c : AlgoConstants Rat) (ns : Size (Option Rat))
    (av : Size (AvailableSpace Rat)) (lines : List (FlexLineS Rat)) :
    calculateChildrenBaseLines (scale k c) (scale k ns) (scale k av) (scale k lines) =
      scaleProg k (calculateChildrenBaseLines c ns av lines) := by
  unfold calculateChildrenBaseLines
  rw [fxk_isRow]
  split
  · rfl
  · exact baselineLines_scale hk c ns av lines

/-! ### the final layout pass -/

theorem cfKnown_scale (k : Rat) (item : FlexItem Rat) : cfKnown (scale k item) = scale k (cfKnown item) := by
  simp only [cfKnown, scale_simp]
theorem cfAvail_scale (k : Rat) (c : AlgoConstants Rat) : cfAvail (scale k c) = scale k (cfAvail c) := by
  simp only [cfAvail, scale_simp]

theorem insetOffset_scale (k : Rat) (s e : Option Rat) :
    ((scale k s).or ((scale k e).map fun pos => -pos)).getD 0 = scale k ((s.or (e.map fun pos => -pos)).getD 0) := by
  cases s <;> cases e <;>
    simp only [scale_some, scale_none, Option.map_some, Option.map_none, Option.some_or, Option.none_or,
      Option.getD_some, Option.getD_none, neg_scale, scale_zero]

theorem cfLocation_scale (k : Rat) (c : AlgoConstants Rat) (item : FlexItem Rat) (tom toc loc : Rat) :
    cfLocation (scale k c) (scale k item) (scale k tom) (scale k toc) (scale k loc) =
      scale k (cfLocation c item tom toc loc) := by
  simp only [cfLocation, fxk_dir, fxi_offsetMain, fxi_offsetCross, fxi_margin, fxi_inset, Dir.mainStart_scale,
    Dir.mainEnd_scale, Dir.crossStart_scale, Dir.crossEnd_scale, insetOffset_scale, add_scale]
  split <;> rfl

theorem cfBaseline_scale (k : Rat) (c : AlgoConstants Rat) (item : FlexItem Rat) (tom toc : Rat) (out : LayoutOutput Rat) :
    cfBaseline (scale k c) (scale k item) (scale k tom) (scale k toc) (scale k out) =
      scale k (cfBaseline c item tom toc out) := by
  simp only [cfBaseline, scale_simp]

theorem cfLayout_scale (k : Rat) (item : FlexItem Rat) (loc : Point Rat) (out : LayoutOutput Rat) :
    cfLayout (scale k item) (scale k loc) (scale k out) = scale k (cfLayout item loc out) := by
  simp only [cfLayout, scale_l_mk, scale_simp]

theorem cfResult_scale (hk : 0 < k) (c : AlgoConstants Rat) (item : FlexItem Rat) (tom toc loc : Rat) (cs : Size Rat)
    (out : LayoutOutput Rat) :
    cfResult (scale k c) (scale k item) (scale k tom) (scale k toc) (scale k loc) (scale k cs) (scale k out) =
      scale k (cfResult c item tom toc loc cs out) := by
  simp only [cfResult, cfBaseline_scale, cfLocation_scale, contentSizeContribution_scale hk, scale_pair, scale_fxi_mk,
    scale_simp, hk]

theorem calculateFlexItem_scale (hk : 0 < k) (c : AlgoConstants Rat) (item : FlexItem Rat) (tom toc loc : Rat)
    (cs : Size Rat) :
    calculateFlexItem (scale k c) (scale k item) (scale k tom) (scale k toc) (scale k loc) (scale k cs) =
      scaleProg k (calculateFlexItem c item tom toc loc cs) := by
  rw [calculateFlexItem_eq, calculateFlexItem_eq, cfKnown_scale, cfAvail_scale, fxi_nodeIdx, fxk_nodeInnerSize]
  apply bind_scale_of
  · exact performChildLayout_scale hk _ _ _ _ _ _
  · intro out
    rw [cfLocation_scale, cfLayout_scale]
    apply bind_scale_of
    · exact setUnroundedLayout_scale k _ _
    · intro u
      rw [cfResult_scale hk]
      rfl

theorem layoutItems_scale (hk : 0 < k) (c : AlgoConstants Rat) (toc loc : Rat) :
    ∀ (items : List (FlexItem Rat)) (tom : Rat) (cs : Size Rat),
      layoutItems (scale k c) (scale k toc) (scale k loc) (scale k items) (scale k tom) (scale k cs) =
        scaleProg k (layoutItems c toc loc items tom cs)
  | [], _, _ => rfl
  | item :: rest, tom, cs => by
    rw [scale_cons]
    unfold layoutItems
    apply bind_scale_of
    · exact calculateFlexItem_scale hk c item tom toc loc cs
    · intro r
      obtain ⟨item', tom', cs'⟩ := r
      simp only [scale_pair]
      apply bind_scale_of
      · exact layoutItems_scale hk c toc loc rest tom' cs'
      · intro r2
        obtain ⟨rest', cs''⟩ := r2
        rfl

theorem calculateLayoutLine_scale (hk : 0 < k) (c : AlgoConstants Rat) (line : FlexLineS Rat) (toc : Rat)
    (cs : Size Rat) :
    calculateLayoutLine (scale k c) (scale k line) (scale k toc) (scale k cs) =
      scaleProg k (calculateLayoutLine c line toc cs) := by
  unfold calculateLayoutLine
  simp only [fxk_dir, fxk_contentBoxInset, fxl_offsetCross, fxl_items, fxl_crossSize, Dir.mainStart_scale]
  apply bind_scale_of
  · split
    · rw [reverse_scale]
      apply bind_scale_of
      · exact layoutItems_scale hk c toc _ _ _ cs
      · intro r
        obtain ⟨its, cs'⟩ := r
        simp only [scale_pair, reverse_scale]
        rfl
    · exact layoutItems_scale hk c toc _ _ _ cs
  · intro r
    obtain ⟨items, cs'⟩ := r
    simp only [scale_pair, add_scale, scale_fxl_mk]
    rfl

theorem layoutLines_scale (hk : 0 < k) (c : AlgoConstants Rat) :
    ∀ (lines : List (FlexLineS Rat)) (toc : Rat) (cs : Size Rat),
      layoutLines (scale k c) (scale k lines) (scale k toc) (scale k cs) = scaleProg k (layoutLines c lines toc cs)
  | [], _, _ => rfl
  | line :: rest, toc, cs => by
    rw [scale_cons]
    unfold layoutLines
    apply bind_scale_of
    · exact calculateLayoutLine_scale hk c line toc cs
    · intro r
      obtain ⟨line', toc', cs'⟩ := r
      simp only [scale_pair]
      apply bind_scale_of
      · exact layoutLines_scale hk c rest toc' cs'
      · intro r2
        obtain ⟨rest', cs''⟩ := r2
        rfl

theorem finalLayoutPass_scale (hk : 0 < k) (c : AlgoConstants Rat) (lines : List (FlexLineS Rat)) :
    finalLayoutPass (scale k c) (scale k lines) = scaleProg k (finalLayoutPass c lines) := by
  unfold finalLayoutPass
  simp only [fxk_dir, fxk_contentBoxInset, fxk_isWrapReverse, fxk_border, fxk_scrollbarGutter, Dir.crossStart_scale]
  have hl : ∀ (ls : List (FlexLineS Rat)) (t : Rat),
      layoutLines (scale k c) (scale k ls) (scale k t) Size.zero = scaleProg k (layoutLines c ls t Size.zero) := by
    intro ls t
    have := layoutLines_scale hk c ls t Size.zero
    rwa [scale_size_zero] at this
  apply bind_scale_of
  · split
    · rw [reverse_scale]
      apply bind_scale_of
      · exact hl _ _
      · intro r
        obtain ⟨ls, cs'⟩ := r
        simp only [scale_pair, reverse_scale]
        rfl
    · exact hl _ _
  · intro r
    obtain ⟨ls, cs'⟩ := r
    simp only [scale_pair, scale_simp]
    rfl

/-! ### the absolute pass -/

theorem abInput_scale (hk : 0 < k) (c : AlgoConstants Rat) (order : Nat) (cs : Style Rat) :
    abInput (scale k c) order (scale k cs) = scale k (abInput c order cs) := by
  simp only [abInput, absArgs_scale, flexResolve_scale hk, style_aspectRatio, flexKnown_scale hk,
    flexChildInput_scale hk]

theorem abFinalSize_scale (hk : 0 < k) (c : AlgoConstants Rat) (order : Nat) (cs : Style Rat) (out : LayoutOutput Rat) :
    abFinalSize (scale k c) order (scale k cs) (scale k out) = scale k (abFinalSize c order cs out) := by
  simp only [abFinalSize, absArgs_scale, flexResolve_scale hk, style_aspectRatio, flexKnown_scale hk, lo_size,
    flexFinalSize_scale hk]

theorem abMargin_scale (hk : 0 < k) (c : AlgoConstants Rat) (order : Nat) (cs : Style Rat) (out : LayoutOutput Rat) :
    abMargin (scale k c) order (scale k cs) (scale k out) = scale k (abMargin c order cs out) := by
  simp only [abMargin, absArgs_scale, flexResolve_scale hk, abFinalSize_scale hk, flexResolvedMargin_scale hk]

theorem abLocation_scale (hk : 0 < k) (c : AlgoConstants Rat) (order : Nat) (cs : Style Rat) (out : LayoutOutput Rat) :
    abLocation (scale k c) order (scale k cs) (scale k out) = scale k (abLocation c order cs out) := by
  simp only [abLocation, absArgs_scale, flexResolve_scale hk, abFinalSize_scale hk, abMargin_scale hk,
    flexLocation_scale hk]

theorem abLayout_scale (hk : 0 < k) (c : AlgoConstants Rat) (order : Nat) (cs : Style Rat) (out : LayoutOutput Rat) :
    abLayout (scale k c) order (scale k cs) (scale k out) = scale k (abLayout c order cs out) := by
  simp only [abLayout, absArgs_scale, flexResolve_scale hk, abFinalSize_scale hk, abMargin_scale hk,
    abLocation_scale hk, scale_l_mk, scale_simp]

theorem abW_scale (hk : 0 < k) (c : AlgoConstants Rat) (order : Nat) (cs : Style Rat) (out : LayoutOutput Rat) :
    abW (scale k c) order (scale k cs) (scale k out) = scale k (abW c order cs out) := by
  simp only [abW, abFinalSize_scale hk, style_overflow]
  cases cs.overflow.x <;> simp only [scale_simp, hk]

theorem abH_scale (hk : 0 < k) (c : AlgoConstants Rat) (order : Nat) (cs : Style Rat) (out : LayoutOutput Rat) :
    abH (scale k c) order (scale k cs) (scale k out) = scale k (abH c order cs out) := by
  simp only [abH, abFinalSize_scale hk, style_overflow]
  cases cs.overflow.y <;> simp only [scale_simp, hk]

theorem flexAbsItem_scale (hk : 0 < k) (c : AlgoConstants Rat) (order : Nat) (cs : Style Rat) (acc : Size Rat) :
    FlexModel.absItem (scale k c) order (scale k cs) (scale k acc) = scaleProg k (FlexModel.absItem c order cs acc) := by
  rw [FlexStages.absItem_eq, FlexStages.absItem_eq, abInput_scale hk]
  apply bind_scale_of
  · exact computeChildLayout_scale hk _ _
  · intro out
    rw [abLayout_scale hk, abW_scale hk, abH_scale hk, abLocation_scale hk]
    apply bind_scale_of
    · exact setUnroundedLayout_scale k _ _
    · intro u
      simp only [fgt_scale_zero hk]
      split
      · simp only [scale_simp, hk]
        rw [← scale_size_mk, Size.f32Max_scale hk]
        rfl
      · rfl

theorem flexAbsLoop_scale (hk : 0 < k) (c : AlgoConstants Rat) : ∀ (l : List (Style Rat)) (order : Nat) (acc : Size Rat),
    FlexModel.absLoop (scale k c) (scale k l) order (scale k acc) = scaleProg k (FlexModel.absLoop c l order acc)
  | [], _, _ => rfl
  | cs :: rest, order, acc => by
    rw [scale_cons]
    unfold FlexModel.absLoop
    rw [style_isHidden, style_position]
    split
    · exact flexAbsLoop_scale hk c rest _ acc
    · apply bind_scale_of
      · exact flexAbsItem_scale hk c order cs acc
      · intro acc'
        exact flexAbsLoop_scale hk c rest _ acc'

end C04
