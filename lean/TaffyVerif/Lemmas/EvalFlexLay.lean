/-
  The laying-out stages of the flexbox program (final layout pass, absolutely positioned children): each is a fixed
  sequence — independent of the children's answers — of
      `perform_child_layout(j)` ; `set_unrounded_layout(j, …)`
  pairs (`Lays J p`, `J` the list of children visited, in order).  From `Lays` follow `C05.PHZ` (when all `j ∈ J` generate
  boxes), `C16.callsLe J.length`, and the coverage flags (`EvalBlock.Track`: every `j ∈ J` ends with both flags set, no
  other child loses them).
-/
import TaffyVerif.Lemmas.EvalFlex

set_option linter.unusedSectionVars false
set_option linter.unusedVariables false

namespace EvalFlex
open FlexModel EvalBlock
variable {α : Type} [Num α]

/-- `p` = for `j` in `J`: PerformLayout call to child `j`, then `setLayout j`; then return -/
def Lays {β : Type} : List Nat → ProgM α β → Prop
  | [], p => ∃ b, p = .pure b
  | j :: J, p => ∃ (inp : LayoutInput α) (lay : LayoutOutput α → Layout α) (k : LayoutOutput α → ProgM α β),
      inp.runMode = .performLayout ∧
      p = .call j inp (fun o => .setLayout j (lay o) fun _ => k o) ∧ ∀ o, Lays J (k o)

theorem Lays_pure {β : Type} (b : β) : Lays [] (pure b : ProgM α β) := ⟨b, rfl⟩

theorem Lays_bind {β γ : Type} (f : β → ProgM α γ) (J' : List Nat) (hf : ∀ x, Lays J' (f x)) :
    ∀ (J : List Nat) (p : ProgM α β), Lays J p → Lays (J ++ J') (p >>= f)
  | [], p, ⟨b, hb⟩ => by subst hb; exact hf b
  | j :: J, p, ⟨inp, lay, k, hm, hp, hk⟩ => by
    subst hp
    exact ⟨inp, lay, fun o => k o >>= f, hm, rfl, fun o => Lays_bind f J' hf J (k o) (hk o)⟩

/-- a pure post-processing of the result -/
theorem Lays_map {β γ : Type} (g : β → γ) (J : List Nat) (p : ProgM α β) (h : Lays J p) :
    Lays J (p >>= fun x => pure (g x)) := by
  have := Lays_bind (fun x => (pure (g x) : ProgM α γ)) [] (fun x => Lays_pure _) J p h
  rwa [List.append_nil] at this

/-- every visited child generates a box -/
def Vis (cs : List (Style α)) (i : Nat) : Prop := ∀ s, cs[i]? = some s → s.display ≠ .none

theorem Lays_PHZ {β : Type} (cs : List (Style α)) : ∀ (J : List Nat) (p : ProgM α β), Lays J p →
    (∀ j ∈ J, Vis cs j) → C05.PHZ cs p
  | [], p, ⟨b, hb⟩, _ => by subst hb; trivial
  | j :: J, p, ⟨inp, lay, k, hm, hp, hk⟩, hv => by
    subst hp
    intro o
    exact ⟨fun s hs hd => absurd hd (hv j List.mem_cons_self s hs),
      fun _ => Lays_PHZ cs J (k o) (hk o) fun j' hj' => hv j' (List.mem_cons_of_mem _ hj')⟩

theorem Lays_callsLe {β : Type} : ∀ (J : List Nat) (p : ProgM α β), Lays J p → C16.callsLe J.length p
  | [], p, ⟨b, hb⟩ => by subst hb; trivial
  | j :: J, p, ⟨inp, lay, k, hm, hp, hk⟩ => by
    subst hp
    exact ⟨J.length, rfl, fun o => Lays_callsLe J (k o) (hk o)⟩

theorem Lays_Track {β : Type} : ∀ (J : List Nat) (p : ProgM α β) (own strict : Nat → Bool), Lays J p →
    Track own strict p (fun _ o s => (∀ i, G own strict i → G o s i) ∧ ∀ j ∈ J, G o s j)
  | [], p, own, strict, ⟨b, hb⟩ => by
    subst hb
    exact ⟨fun _ h => h, fun _ h => by simp at h⟩
  | j :: J, p, own, strict, ⟨inp, lay, k, hm, hp, hk⟩ => by
    subst hp
    refine Track_callPL_set own strict j inp hm lay k _ fun out => ?_
    refine Track_mono _ _ _ ?_ _ _ (Lays_Track J (k out) _ _ (hk out))
    intro _ o s ⟨h2, h3⟩
    refine ⟨fun i hi => h2 i (G_upd_true own strict _ i (Or.inl hi)), fun j' hj' => ?_⟩
    rcases List.mem_cons.1 hj' with e | e
    · subst e; exact h2 _ (G_upd_true own strict _ _ (Or.inr rfl))
    · exact h3 j' e

/-! ### the final layout pass -/

/-- one flex item: `perform_child_layout`, then `set_unrounded_layout`, on the item's own index -/
theorem Lays_calculateFlexItem (k : AlgoConstants α) (item : FlexItem α) (a b c : α) (d : Size α) :
    Lays [item.nodeIdx] (calculateFlexItem k item a b c d) :=
  ⟨_, _, _, rfl, rfl, fun _ => ⟨_, rfl⟩⟩

theorem Lays_layoutItems (k : AlgoConstants α) (b c : α) : ∀ (items : List (FlexItem α)) (a : α) (d : Size α),
    Lays (iidx items) (layoutItems k b c items a d)
  | [], _, _ => Lays_pure _
  | item :: rest, a, d => by
    unfold layoutItems
    refine Lays_bind _ (iidx rest) (fun r => ?_) [item.nodeIdx] _ (Lays_calculateFlexItem k item a b c d)
    exact Lays_map _ _ _ (Lays_layoutItems k b c rest _ _)

/-- the visiting order of a line does not depend on the children's answers or on the offsets -/
theorem Lays_calculateLayoutLine (k : AlgoConstants α) (line : FlexLineS α) :
    ∃ J, J.Perm (iidx line.items) ∧ ∀ (toc : α) (d : Size α), Lays J (calculateLayoutLine k line toc d) := by
  by_cases hr : k.dir.isReverse = true
  · refine ⟨iidx line.items.reverse, ?_, fun toc d => ?_⟩
    · simp only [iidx, List.map_reverse]; exact List.reverse_perm _
    · unfold calculateLayoutLine
      simp only [hr, if_true]
      exact Lays_map _ _ _ (Lays_map _ _ _ (Lays_layoutItems k _ _ _ _ _))
  · refine ⟨iidx line.items, List.Perm.refl _, fun toc d => ?_⟩
    unfold calculateLayoutLine
    simp only [hr]
    exact Lays_map _ _ _ (Lays_layoutItems k _ _ _ _ _)

theorem Lays_layoutLines (k : AlgoConstants α) : ∀ (lines : List (FlexLineS α)),
    ∃ J, J.Perm (idxs lines) ∧ ∀ (toc : α) (d : Size α), Lays J (layoutLines k lines toc d)
  | [] => ⟨[], List.Perm.refl _, fun _ _ => Lays_pure _⟩
  | line :: rest => by
    obtain ⟨J1, hp1, h1⟩ := Lays_calculateLayoutLine k line
    obtain ⟨J2, hp2, h2⟩ := Lays_layoutLines k rest
    refine ⟨J1 ++ J2, ?_, fun toc d => ?_⟩
    · rw [idxs_cons]; exact List.Perm.append hp1 hp2
    · unfold layoutLines
      refine Lays_bind _ J2 (fun x => ?_) _ _ (h1 toc d)
      exact Lays_map _ _ _ (h2 _ _)

theorem idxs_reverse_perm (lines : List (FlexLineS α)) : (idxs lines.reverse).Perm (idxs lines) := by
  simp only [idxs, shape_reverse]
  exact List.Perm.flatten (List.reverse_perm _)

/-- **final_layout_pass** lays out exactly the items of the lines, each once -/
theorem Lays_finalLayoutPass (k : AlgoConstants α) (lines : List (FlexLineS α)) :
    ∃ J, J.Perm (idxs lines) ∧ Lays J (finalLayoutPass k lines) := by
  unfold finalLayoutPass
  simp only
  by_cases hr : k.isWrapReverse = true
  · obtain ⟨J, hp, h⟩ := Lays_layoutLines k lines.reverse
    refine ⟨J, hp.trans (idxs_reverse_perm lines), ?_⟩
    simp only [hr, if_true]
    exact Lays_map _ _ _ (Lays_map _ _ _ (h _ _))
  · obtain ⟨J, hp, h⟩ := Lays_layoutLines k lines
    refine ⟨J, hp, ?_⟩
    simp only [hr]
    exact Lays_map _ _ _ (h _ _)

/-! ### absolutely positioned children -/

/-- is the child laid out by `perform_absolute_layout_on_absolute_children`? -/
def isAbsV (s : Style α) : Bool := !(s.isHidden || s.position != .absolute)

theorem Lays_call_set {β : Type} (j : Nat) (inp : LayoutInput α) (lay : LayoutOutput α → Layout α)
    (K : LayoutOutput α → ProgM α β) (J : List Nat) (hm : inp.runMode = .performLayout) (h : ∀ out, Lays J (K out)) :
    Lays (j :: J) (ProgM.computeChildLayout j inp >>= fun out => ProgM.setUnroundedLayout j (lay out) >>= fun _ => K out) :=
  ⟨inp, lay, K, hm, rfl, h⟩

theorem Lays_ite {β : Type} {c : Prop} [Decidable c] (J : List Nat) (p q : ProgM α β) (hp : Lays J p) (hq : Lays J q) :
    Lays J (if c then p else q) := by
  split <;> assumption

theorem Lays_absItem (k : AlgoConstants α) (order : Nat) (s : Style α) (acc : Size α) :
    Lays [order] (absItem k order s acc) := by
  unfold absItem
  simp only
  refine Lays_call_set _ _ _ _ _ rfl fun out => ?_
  exact Lays_ite _ _ _ (Lays_pure _) (Lays_pure _)

/-- the indices (from `order` on) of the absolutely positioned boxes among the children -/
def absIdxFrom : List (Style α) → Nat → List Nat
  | [], _ => []
  | s :: rest, order => if isAbsV s then order :: absIdxFrom rest (order + 1) else absIdxFrom rest (order + 1)

theorem absLoop_cons (k : AlgoConstants α) (s : Style α) (rest : List (Style α)) (order : Nat) (acc : Size α) :
    absLoop k (s :: rest) order acc =
      if isAbsV s then absItem k order s acc >>= fun acc' => absLoop k rest (order + 1) acc'
      else absLoop k rest (order + 1) acc := by
  simp only [absLoop, isAbsV]
  by_cases h : (s.isHidden || s.position != .absolute) = true
  · simp only [h, if_true, Bool.not_true, Bool.false_eq_true, if_false]
  · simp only [Bool.not_eq_true] at h
    simp only [h, Bool.not_false, if_true, Bool.false_eq_true, if_false]

theorem Lays_absLoop (k : AlgoConstants α) : ∀ (l : List (Style α)) (order : Nat) (acc : Size α),
    Lays (absIdxFrom l order) (absLoop k l order acc)
  | [], _, _ => Lays_pure _
  | s :: rest, order, acc => by
    rw [absLoop_cons, absIdxFrom]
    split
    · exact Lays_bind _ _ (fun acc' => Lays_absLoop k rest (order + 1) acc') [order] _ (Lays_absItem k order s acc)
    · exact Lays_absLoop k rest (order + 1) acc

theorem mem_absIdxFrom : ∀ (l : List (Style α)) (order i : Nat),
    i ∈ absIdxFrom l order ↔ ∃ j s, i = order + j ∧ l[j]? = some s ∧ isAbsV s = true
  | [], order, i => by simp [absIdxFrom]
  | s :: rest, order, i => by
    have ih := mem_absIdxFrom rest (order + 1) i
    have step : (∃ j s', i = order + 1 + j ∧ rest[j]? = some s' ∧ isAbsV s' = true) ↔
        ∃ j s', i = order + (j + 1) ∧ (s :: rest)[j + 1]? = some s' ∧ isAbsV s' = true := by
      constructor
      · rintro ⟨j, s', h1, h2, h3⟩; exact ⟨j, s', by omega, by simpa using h2, h3⟩
      · rintro ⟨j, s', h1, h2, h3⟩; exact ⟨j, s', by omega, by simpa using h2, h3⟩
    rw [absIdxFrom]
    by_cases hs : isAbsV s = true
    · rw [if_pos hs, List.mem_cons, ih, step]
      constructor
      · rintro (h | ⟨j, s', h1, h2, h3⟩)
        · exact ⟨0, s, by omega, rfl, hs⟩
        · exact ⟨j + 1, s', h1, h2, h3⟩
      · rintro ⟨j, s', h1, h2, h3⟩
        cases j with
        | zero => exact Or.inl (by omega)
        | succ j => exact Or.inr ⟨j, s', h1, h2, h3⟩
    · rw [if_neg hs, ih, step]
      constructor
      · rintro ⟨j, s', h1, h2, h3⟩; exact ⟨j + 1, s', h1, h2, h3⟩
      · rintro ⟨j, s', h1, h2, h3⟩
        cases j with
        | zero =>
          simp only [List.getElem?_cons_zero, Option.some.injEq] at h2
          subst h2
          exact absurd h3 hs
        | succ j => exact ⟨j, s', h1, h2, h3⟩

theorem mem_absIdx (cs : List (Style α)) (i : Nat) :
    i ∈ absIdxFrom cs 0 ↔ ∃ s, cs[i]? = some s ∧ isAbsV s = true := by
  rw [mem_absIdxFrom]
  constructor
  · rintro ⟨j, s, h1, h2, h3⟩; exact ⟨s, by rw [h1, Nat.zero_add]; exact h2, h3⟩
  · rintro ⟨s, h2, h3⟩; exact ⟨i, s, by omega, h2, h3⟩

theorem absIdxFrom_length : ∀ (l : List (Style α)) (order : Nat), (absIdxFrom l order).length = nAbsV l
  | [], _ => rfl
  | s :: rest, order => by
    rw [absIdxFrom, nAbsV]
    by_cases h : (s.isHidden || s.position != .absolute) = true
    · simp only [isAbsV, h, Bool.not_true, Bool.false_eq_true, if_false, if_true, absIdxFrom_length rest]; omega
    · simp only [Bool.not_eq_true] at h
      simp only [isAbsV, h, Bool.not_false, if_true, Bool.false_eq_true, if_false, List.length_cons,
        absIdxFrom_length rest]
      omega

theorem isItem_vis (s : Style α) (h : isItem s = true) : s.display ≠ .none := by
  simp only [isItem, Bool.not_eq_true', Bool.or_eq_false_iff] at h
  exact (isHidden_false_iff s).1 h.2

theorem isAbsV_vis (s : Style α) (h : isAbsV s = true) : s.display ≠ .none := by
  simp only [isAbsV, Bool.not_eq_true', Bool.or_eq_false_iff] at h
  exact (isHidden_false_iff s).1 h.1

/-- every child is a flex item, an absolutely positioned box or `display:none` -/
theorem child_trichotomy (s : Style α) : isItem s = true ∨ isAbsV s = true ∨ s.isHidden = true := by
  simp only [isItem, isAbsV, pos_beq, pos_bne]
  cases s.isHidden <;> by_cases hp : s.position = .absolute <;> simp [hp]

end EvalFlex
