/-
  C04 for grid, part 8: steps 7 (the `min_content_contribution` re-check), 8 and 9 of `compute_grid_layout`:
  item positioning, the hidden/absolute loop, the container baseline, the output.
-/
import TaffyVerif.Lemmas.GridScaleProg1

set_option linter.unusedSectionVars false
set_option linter.unusedVariables false
set_option linter.unusedSimpArgs false

namespace C04
open Scalable GridModel GridTracks GridStages

variable {k : Rat}

/-! ### step 7 -/

theorem hasChangedB_scale (hk : 0 < k) (cache : Option Rat) (v : Rat) :
    GridRel.hasChangedB (scale k cache) (scale k v) = GridRel.hasChangedB cache v := by
  cases cache with
  | none => rfl
  | some old =>
    show (!Num.feq (scale k v) (scale k old)) = _
    rw [feq_scale hk]
    rfl

theorem changedUpd_scale (k : Rat) (ax : Ax) (av : Size (Option Rat)) (v : Rat) (it : GItem Rat) :
    GridRel.changedUpd ax (scale k av) (scale k v) (scale k it) = scale k (GridRel.changedUpd ax av v it) := by
  cases it
  cases ax <;> rfl

theorem minContentChanged_sim (hk : 0 < k) (ax : Ax) (ots : List (GridTrack Rat)) (ins : Size (Option Rat)) :
    ∀ (items : List (GItem Rat)),
      GSim k (Sc k) (minContentChanged ax (scale k ots) (scale k ins) (scale k items))
        (minContentChanged ax ots ins items)
  | [] => GSim.pure rfl
  | it :: rest => by
    show GSim k _ (minContentChanged ax (scale k ots) (scale k ins) (scale k it :: scale k rest)) _
    rw [GridRel.minContentChanged_cons, GridRel.minContentChanged_cons, gi_crossesIntrinsicColumn]
    refine GSim.ite ?_ ?_
    · refine GSim.bind (minContentChanged_sim hk ax ots ins rest) fun r' r hr => ?_
      rw [show r' = scale k r from hr]
      exact GSim.pure rfl
    · have hav : (scale k it).availableSpace ax (scale k ots) (sget (scale k ins) ax.other) Estimate.baseSize =
          scale k (it.availableSpace ax ots (sget ins ax.other) Estimate.baseSize) := by
        rw [sget_scale, gi_availableSpace]
      rw [hav]
      refine GSim.bind (minContentContribution_sim hk it ax _ ins) fun v' v hv => ?_
      rw [show v' = scale k v from hv, gi_minContentContributionCache, sget_scale, hasChangedB_scale hk,
        changedUpd_scale]
      refine GSim.ite ?_ ?_
      · exact GSim.pure rfl
      · refine GSim.bind (minContentChanged_sim hk ax ots ins rest) fun r' r hr => ?_
        rw [show r' = scale k r from hr]
        exact GSim.pure rfl

theorem clearCaches_scale (k : Rat) (ax : Ax) (items : List (GItem Rat)) :
    clearCaches ax (scale k items) = scale k (clearCaches ax items) := by
  unfold clearCaches
  refine map_scale_list k items _ _ fun it => ?_
  cases it
  cases ax <;> rfl

/-! ### `align_and_position_item` -/

theorem gridResolve_gscale (hk : 0 < k) (a : AbsPos.GridArgs Rat) (st : Style Rat) :
    AbsPos.gridResolve (scale k a) (gscale k st) = scale k (AbsPos.gridResolve a st) := by
  rw [← gridResolve_scale hk]

theorem scrollbarSize_gscale (k : Rat) (st : Style Rat) : AbsPos.scrollbarSize (gscale k st) = scale k (AbsPos.scrollbarSize st) := by
  have : AbsPos.scrollbarSize (gscale k st) = AbsPos.scrollbarSize (scale k st) := rfl
  rw [this]
  simp only [AbsPos.scrollbarSize, scale_simp]

theorem GSim.setLayout' (i : Nat) {l' l : Layout Rat} (h : l' = scale k l) :
    GSim k (fun _ _ => True) (GM.setLayout i l') (GM.setLayout i l) := by
  rw [h]; exact GSim.setLayout i l

/-- results `(contribution, y, height)` -/
theorem alignAndPositionItem_sim (hk : 0 < k) (node : Nat) (cs : Style Rat) (order : Nat) (area : Rect Rat)
    (ji ai : Option AlignItems) (shim : Rat) :
    GSim k (Sc k) (alignAndPositionItem node (gscale k cs) order (scale k area) ji ai (scale k shim))
      (alignAndPositionItem node cs order area ji ai shim) := by
  unfold alignAndPositionItem
  have ha : AbsPos.GridArgs.mk (scale k area) ji ai (scale k shim) order =
      scale k (AbsPos.GridArgs.mk area ji ai shim order) := rfl
  simp only [ha, gridResolve_gscale hk, gstyle_position, gstyle_aspectRatio, gridKnown_scale hk,
    gridChildInput_scale hk]
  refine GSim.bind (GSim.call _ _) fun o' o ho => ?_
  rw [show o' = scale k o from ho]
  simp only [lo_size, lo_contentSize, gridFinalSize_scale hk, gstyle_justifySelf, gstyle_alignSelf, gstyle_overflow,
    scale_size_width, scale_size_height, gr_alignH, gr_alignV, gr_insetH, gr_insetV, gr_margin, gr_padding, gr_border,
    scale_rect_left, scale_rect_right, scale_rect_top, scale_rect_bottom, scrollbarSize_gscale]
  have hl : ∀ a b : Rat, (Line.mk (scale k a) (scale k b) : Line Rat) = scale k (Line.mk a b) := fun _ _ => rfl
  have hlo : ∀ a b : Option Rat, (Line.mk (scale k a) (scale k b) : Line (Option Rat)) = scale k (Line.mk a b) :=
    fun _ _ => rfl
  simp only [hl, hlo, alignItemWithinArea_scale_zero hk, alignItemWithinArea_scale hk, scale_fst, scale_snd,
    scale_line_start, scale_line_end]
  refine GSim.bind (GSim.setLayout' node ?_) fun _ _ _ => ?_
  · simp only [scale_l_mk, scale_point_mk, scale_rect_mk, scale_fst, scale_snd, scale_line_start, scale_line_end]
  · refine GSim.pure ?_
    simp only [Sc, scale_pair, ← contentSizeContribution_scale hk, scale_point_mk]

end C04
