/-
  Helper lemmas about Model/GridPlacement.lean, part 8 (towards `placement_total`): the occupancy matrix under a size
  bound.  `Bd m K`: well-formed, all counts non-negative, negative implicit tracks and implicit end line ≤ K in both axes.
  * an area that starts at or after the implicit end line of either axis is reported unoccupied
    ("out of bounds cells are considered unoccupied") — the reason the searches stop;
  * `mark_area_as` neither panics nor overflows and moves the bound to `max K (end of the area)`;
  * `last_of_type` neither panics nor overflows and returns a line inside the implicit grid.
-/
import TaffyVerif.Lemmas.GridPlacementTotalWP

set_option linter.unusedSimpArgs false
set_option linter.unusedVariables false

namespace GridPlacement
open Outcome

structure Bd (m : Matrix) (K : Int) : Prop where
  wf : MatrixWF m
  cols : TB m.columns K
  rows : TB m.rows K

theorem Bd.ax {m : Matrix} {K : Int} (bd : Bd m K) (ax : Axis) : TB (m.trackCounts ax) K := by
  cases ax
  · exact bd.cols
  · exact bd.rows

theorem Bd.mono {m : Matrix} {K K' : Int} (bd : Bd m K) (h : K ≤ K') : Bd m K' :=
  ⟨bd.wf, bd.cols.mono h, bd.rows.mono h⟩

/-- both axes have at least one track (then the `grid` crate stores the real dimensions, not 0 × 0) -/
def Proper (m : Matrix) : Prop := 1 ≤ m.columns.total ∧ 1 ≤ m.rows.total

theorem MatrixWF.dims_le {m : Matrix} (wf : MatrixWF m) :
    m.inner.rows ≤ m.rows.total.toNat ∧ m.inner.cols ≤ m.columns.total.toNat := by
  rcases wf.2 with h | ⟨_, h1, h2⟩
  · omega
  · omega

theorem MatrixWF.dims_eq {m : Matrix} (wf : MatrixWF m) (pr : Proper m) :
    m.inner.rows = m.rows.total.toNat ∧ m.inner.cols = m.columns.total.toNat := by
  obtain ⟨p1, p2⟩ := pr
  rcases wf.2 with h | ⟨h, _, _⟩
  · exact h
  · omega

/-! ### out-of-range areas are free -/

theorem cellFree_of_ge {g : Grid} {x y : Int} (h : g.rows ≤ x.toNat ∨ g.cols ≤ y.toNat) :
    Matrix.cellFree g x y = true := by
  unfold Matrix.cellFree Grid.get
  have : ¬ (0 ≤ x ∧ 0 ≤ y ∧ x.toNat < g.rows ∧ y.toNat < g.cols) := by omega
  simp only [this, ↓reduceIte]

theorem trackArea_free_beyond {m : Matrix} (wf : MatrixWF m) (ax : Axis) (pr sr : Line Int)
    (h : (m.trackCounts ax).total ≤ pr.start ∨ (m.trackCounts ax.other).total ≤ sr.start) :
    m.trackAreaIsUnoccupied ax pr sr = true := by
  obtain ⟨d1, d2⟩ := wf.dims_le
  unfold Matrix.trackAreaIsUnoccupied
  simp only [List.all_eq_true]
  intro x hx y hy
  have hx' := mem_rangeI.1 hx
  have hy' := mem_rangeI.1 hy
  apply cellFree_of_ge
  cases ax <;> simp only [rowOf, colOf, Matrix.trackCounts, Axis.other] at h hx' hy' <;> omega

/-- `line_area_is_unoccupied` under the bound: no failure, and `true` for an area beyond the end of either axis -/
theorem wp_lineArea {m : Matrix} {K : Int} (bd : Bd m K) (hK : K ≤ 16000) (ax : Axis) {p s : Line Int}
    (hp : AB p) (hs : AB s) :
    WP (m.lineAreaIsUnoccupied ax p s) (fun b =>
      ((m.trackCounts ax).explicit + (m.trackCounts ax).positiveImplicit ≤ p.start ∨
       (m.trackCounts ax.other).explicit + (m.trackCounts ax.other).positiveImplicit ≤ s.start) → b = true) := by
  unfold Matrix.lineAreaIsUnoccupied
  refine wp_bind_ok (wp_ozRange (bd.ax ax) hK hp) ?_
  rintro _ - rfl
  refine wp_bind_ok (wp_ozRange (bd.ax ax.other) hK hs) ?_
  rintro _ - rfl
  refine wp_pure ?_
  intro h
  apply trackArea_free_beyond bd.wf
  unfold TrackCounts.total
  dsimp only
  omega

/-! ### "does not overflow" for the structural parts -/

class NO {α : Type} (x : Outcome α) : Prop where
  out : x ≠ .overflow

instance {α : Type} (a : α) : NO (Outcome.ok a) := ⟨by simp⟩
instance {α : Type} (a : α) : NO (pure a : Outcome α) := ⟨by simp⟩
instance {α : Type} (m : String) : NO (Outcome.panic m : Outcome α) := ⟨by simp⟩
instance {α : Type} : NO (Outcome.outOfFuel : Outcome α) := ⟨by simp⟩

theorem no_bind_ok {α β : Type} {x : Outcome α} {f : α → Outcome β} (hx : NO x) (hf : ∀ a, x = .ok a → NO (f a)) :
    NO (x >>= f) := by
  constructor
  have := hx.out
  cases x with
  | ok a => exact (hf a rfl).out
  | panic m => simp [Outcome.bind]
  | overflow => exact absurd rfl this
  | outOfFuel => simp [Outcome.bind]

theorem no_bind' {α β : Type} {x : Outcome α} {f : α → Outcome β} (hx : NO x) (hf : ∀ a, NO (f a)) : NO (x >>= f) :=
  no_bind_ok hx fun a _ => hf a

theorem no_bind {α β : Type} {x : Outcome α} {f : α → Outcome β} (hx : NO x) (hf : ∀ a, NO (f a)) : NO (x.bind f) :=
  no_bind' hx hf

theorem no_of_wp {α : Type} {x : Outcome α} {P : α → Prop} (h : WP x P) : NO x := ⟨h.no_overflow⟩

theorem no_bind_wp {α β : Type} {x : Outcome α} {f : α → Outcome β} {Q : α → Prop} (hx : WP x Q)
    (hf : ∀ a, x = .ok a → Q a → NO (f a)) : NO (x >>= f) := by
  refine no_bind_ok (no_of_wp hx) ?_
  intro a ha
  refine hf a ha ?_
  rw [ha] at hx; exact hx

macro "no_step" : tactic => `(tactic| first
  | infer_instance | assumption | (apply no_bind') | (apply no_bind) | (intro _) | split)
macro "no_tac" : tactic => `(tactic| repeat' no_step)

instance (v : List Cell) (c : Nat) : NO (Grid.fromVec v c) := by unfold Grid.fromVec; dsimp only; no_tac
instance (g : Grid) (r c : Int) (v : Cell) : NO (g.set r c v) := by unfold Grid.set; no_tac

instance (g : Grid) (row : Nat) (cols : List Nat) : NO (Matrix.copyRow g row cols) := by
  induction cols with
  | nil => unfold Matrix.copyRow; no_tac
  | cons c cs ih => unfold Matrix.copyRow; no_tac

instance (g : Grid) (oc : Nat) (n p : Int) (rows : List Nat) : NO (Matrix.copyRows g oc n p rows) := by
  induction rows with
  | nil => unfold Matrix.copyRows; no_tac
  | cons c cs ih => unfold Matrix.copyRows; no_tac

instance (g : Grid) (x : Int) (v : Cell) (ys : List Int) : NO (Matrix.markRow g x v ys) := by
  induction ys generalizing g with
  | nil => unfold Matrix.markRow; no_tac
  | cons c cs ih => unfold Matrix.markRow; no_tac

instance (g : Grid) (cols : List Int) (v : Cell) (xs : List Int) : NO (Matrix.markRows g cols v xs) := by
  induction xs generalizing g with
  | nil => unfold Matrix.markRows; no_tac
  | cons c cs ih => unfold Matrix.markRows; no_tac

theorem wp_usize_mul {a b : Int} (ha0 : 0 ≤ a) (ha : a ≤ 100000) (hb0 : 0 ≤ b) (hb : b ≤ 100000) :
    WP (usize (a * b)) (fun y => y = a * b) := by
  have h1 : 0 ≤ a * b := Int.mul_nonneg ha0 hb0
  have h2 : a * b ≤ 100000 * 100000 := Int.mul_le_mul ha hb hb0 (by omega)
  exact wp_usize h1 (by omega)

/-! ### `expand_to_fit_range` and `mark_area_as` -/

theorem expand_no {m : Matrix} {K : Int} (bd : Bd m K) (hK : K ≤ 16000) {rr cr : Line Int}
    (r0 : 0 ≤ rr.start) (r1 : rr.start ≤ rr.«end») (r2 : rr.«end» ≤ 32767)
    (c0 : 0 ≤ cr.start) (c1 : cr.start ≤ cr.«end») (c2 : cr.«end» ≤ 32767) :
    NO (m.expandToFitRange rr cr) := by
  obtain ⟨wf, ⟨x1, x2, x3, x4, x5⟩, ⟨y1, y2, y3, y4, y5⟩⟩ := bd
  unfold Matrix.expandToFitRange
  have e1 : min rr.start 0 = 0 := by omega
  have e2 : min cr.start 0 = 0 := by omega
  simp only [e1, e2]
  refine no_bind_wp (wp_len ⟨y1, y2, y3, y4, y5⟩ hK) ?_; rintro _ - rfl
  refine no_bind_wp (wp_i16 (by omega) (by omega)) ?_; rintro _ - rfl
  refine no_bind_wp (wp_i16 (by omega) (by omega)) ?_; rintro _ - rfl
  refine no_bind_wp (wp_len ⟨x1, x2, x3, x4, x5⟩ hK) ?_; rintro _ - rfl
  refine no_bind_wp (wp_i16 (by omega) (by omega)) ?_; rintro _ - rfl
  refine no_bind_wp (wp_i16 (by omega) (by omega)) ?_; rintro _ - rfl
  refine no_bind_wp (wp_i16 (by omega) (by omega)) ?_; rintro _ - rfl
  refine no_bind_wp (wp_usize (by omega) (by omega)) ?_; rintro _ - rfl
  refine no_bind_wp (wp_usize (by omega) (by omega)) ?_; rintro _ - rfl
  refine no_bind_wp (wp_i16 (by omega) (by omega)) ?_; rintro _ - rfl
  refine no_bind_wp (wp_usize (by omega) (by omega)) ?_; rintro _ - rfl
  refine no_bind_wp (wp_usize (by omega) (by omega)) ?_; rintro _ - rfl
  refine no_bind_wp (wp_usize_mul (by omega) (by omega) (by omega) (by omega)) ?_; rintro _ - -
  refine no_bind_wp (wp_usize (by omega) (by omega)) ?_; rintro _ - rfl
  refine no_bind_wp (wp_usize_mul (by omega) (by omega) (by omega) (by omega)) ?_; rintro _ - -
  refine no_bind_ok inferInstance ?_; intro body _
  refine no_bind_wp (wp_usize (by omega) (by omega)) ?_; rintro _ - rfl
  refine no_bind_wp (wp_usize_mul (by omega) (by omega) (by omega) (by omega)) ?_; rintro _ - -
  refine no_bind_ok inferInstance ?_; intro inner _
  refine no_bind_wp (wp_u16 (by omega) (by omega)) ?_; rintro _ - rfl
  refine no_bind_wp (wp_u16 (by omega) (by omega)) ?_; rintro _ - rfl
  refine no_bind_wp (wp_u16 (by omega) (by omega)) ?_; rintro _ - rfl
  refine no_bind_wp (wp_u16 (by omega) (by omega)) ?_; rintro _ - rfl
  refine no_bind_wp (wp_u16 (by omega) (by omega)) ?_; rintro _ - rfl
  refine no_bind_wp (wp_u16 (by omega) (by omega)) ?_; rintro _ - rfl
  refine no_bind_wp (wp_u16 (by omega) (by omega)) ?_; rintro _ - rfl
  refine no_bind_wp (wp_u16 (by omega) (by omega)) ?_; rintro _ - rfl
  infer_instance

theorem wp_isAreaInRange {m : Matrix} {K : Int} (bd : Bd m K) (hK : K ≤ 16000) (cr rr : Line Int) :
    WP (m.isAreaInRange .horizontal cr rr) (fun _ => True) := by
  unfold Matrix.isAreaInRange
  have tc := bd.cols
  have tr := bd.rows
  simp only [Matrix.trackCounts, Axis.other]
  split
  · exact wp_pure trivial
  · refine wp_bind_ok (wp_len tc hK) ?_; rintro _ - rfl
    obtain ⟨x1, x2, x3, x4, x5⟩ := tc
    obtain ⟨y1, y2, y3, y4, y5⟩ := tr
    refine wp_bind_ok (wp_i16 (by omega) (by omega)) ?_; rintro _ - rfl
    split
    · exact wp_pure trivial
    · split
      · exact wp_pure trivial
      · refine wp_bind_ok (wp_len ⟨y1, y2, y3, y4, y5⟩ hK) ?_; rintro _ - rfl
        refine wp_bind_ok (wp_i16 (by omega) (by omega)) ?_; rintro _ - rfl
        split <;> exact wp_pure trivial

/-- the implicit end lines after `mark_area_as`: the old one, or the end of the marked area if that is larger -/
theorem markAreaAs_end {m m' : Matrix} {ax : Axis} {p s : Line Int} {v : Cell}
    (h : m.markAreaAs ax p s v = .ok m') :
    m'.columns.explicit + m'.columns.positiveImplicit ≤
      max (m.columns.explicit + m.columns.positiveImplicit) (colOf ax p s).«end» ∧
    m'.rows.explicit + m'.rows.positiveImplicit ≤
      max (m.rows.explicit + m.rows.positiveImplicit) (rowOf ax p s).«end» := by
  obtain ⟨m1, cr, rr, hcr, hrr, hcase, _, hc, hr⟩ := markAreaAs_spec h
  rw [hc, hr]
  rcases hcase with ⟨rfl, _⟩ | ⟨cr0, rr0, hcr0, hrr0, _, he⟩
  · omega
  · obtain ⟨rl, cl, body, hrl, hcl, z1, z2, _, _, er, ec⟩ := expand_spec he
    obtain ⟨c1, c2⟩ := ozRange_eq_ok hcr0
    obtain ⟨r1, r2⟩ := ozRange_eq_ok hrr0
    simp only [len_eq_ok] at hrl hcl
    rw [er, ec]
    dsimp only
    omega

theorem markAreaAs_no {m : Matrix} {K : Int} (bd : Bd m K) (hK : K ≤ 16000) {ax : Axis} {p s : Line Int} (v : Cell)
    (hc : -m.columns.negativeImplicit ≤ (colOf ax p s).start) (hc1 : (colOf ax p s).start ≤ (colOf ax p s).«end»)
    (hcb : AB (colOf ax p s))
    (hr : -m.rows.negativeImplicit ≤ (rowOf ax p s).start) (hr1 : (rowOf ax p s).start ≤ (rowOf ax p s).«end»)
    (hrb : AB (rowOf ax p s)) :
    NO (m.markAreaAs ax p s v) := by
  have tc := bd.cols
  have tr := bd.rows
  obtain ⟨cb1, cb2, cb3, cb4⟩ := hcb
  obtain ⟨rb1, rb2, rb3, rb4⟩ := hrb
  unfold Matrix.markAreaAs
  dsimp only
  refine no_bind_wp (wp_ozRange tc hK ⟨cb1, cb2, cb3, cb4⟩) ?_; rintro _ hcr rfl
  refine no_bind_wp (wp_ozRange tr hK ⟨rb1, rb2, rb3, rb4⟩) ?_; rintro _ hrr rfl
  refine no_bind_wp (wp_isAreaInRange bd hK _ _) ?_; rintro inRange hin -
  cases inRange
  · simp only [Bool.not_false, ↓reduceIte]
    apply no_bind_ok
    · have hexp : NO (m.expandToFitRange
          ⟨(rowOf ax p s).start + m.rows.negativeImplicit, (rowOf ax p s).«end» + m.rows.negativeImplicit⟩
          ⟨(colOf ax p s).start + m.columns.negativeImplicit, (colOf ax p s).«end» + m.columns.negativeImplicit⟩) := by
        have := tc.negK
        have := tr.negK
        apply expand_no bd hK <;> dsimp only <;> omega
      apply no_bind_ok hexp; intro m' he
      obtain ⟨rl, cl, body, hrl, hcl, _, _, _, _, er, ec⟩ := expand_spec he
      have l1 := len_eq_ok.1 hrl
      have l2 := len_eq_ok.1 hcl
      dsimp only at l1 l2 er ec
      obtain ⟨x1, x2, x3, x4, x5⟩ := tc
      obtain ⟨y1, y2, y3, y4, y5⟩ := tr
      have tc' : TB m'.columns 16000 := by
        rw [ec]; constructor <;> dsimp only <;> omega
      have tr' : TB m'.rows 16000 := by
        rw [er]; constructor <;> dsimp only <;> omega
      refine no_bind_wp (wp_ozRange tc' (by omega) ⟨cb1, cb2, cb3, cb4⟩) ?_; rintro _ - -
      refine no_bind_wp (wp_ozRange tr' (by omega) ⟨rb1, rb2, rb3, rb4⟩) ?_; rintro _ - -
      infer_instance
    · intro ⟨m1, cr', rr'⟩ _
      dsimp only
      no_tac
  · simp only [Bool.not_true, Bool.false_eq_true, ↓reduceIte, pure_eq, bind_eq, ok_bind]
    no_tac

/-- **`mark_area_as` under the bound**: for a non-empty-or-empty area `start ≤ end` that does not start before the
implicit grid and whose lines are small, it returns a matrix that is again bounded, by the larger of the old bound and
the area's end lines; track counts only grow at the positive end. -/
theorem wp_markAreaAs {m : Matrix} {K : Int} (bd : Bd m K) (hK : K ≤ 16000) {ax : Axis} {p s : Line Int} {v : Cell}
    (hv : v ≠ .unoccupied)
    (hc : -m.columns.negativeImplicit ≤ (colOf ax p s).start) (hc1 : (colOf ax p s).start ≤ (colOf ax p s).«end»)
    (hcb : AB (colOf ax p s))
    (hr : -m.rows.negativeImplicit ≤ (rowOf ax p s).start) (hr1 : (rowOf ax p s).start ≤ (rowOf ax p s).«end»)
    (hrb : AB (rowOf ax p s)) :
    WP (m.markAreaAs ax p s v) (fun m' =>
      Bd m' (max K (max (colOf ax p s).«end» (rowOf ax p s).«end»)) ∧
      Grows m.columns m'.columns ∧ Grows m.rows m'.rows) := by
  refine wp_of_np (markAreaAs_np v bd.wf hc hr) (markAreaAs_no bd hK v hc hc1 hcb hr hr1 hrb).out ?_
  intro m' h
  obtain ⟨wf', _, _⟩ := markAreaAs_cells hv bd.wf h
  obtain ⟨gc, gr, _, _⟩ := markAreaAs_counts h
  obtain ⟨e1, e2⟩ := markAreaAs_end h
  obtain ⟨x1, x2, x3, x4, x5⟩ := bd.cols
  obtain ⟨y1, y2, y3, y4, y5⟩ := bd.rows
  obtain ⟨g1, g2, g3⟩ := gc
  obtain ⟨g4, g5, g6⟩ := gr
  refine ⟨⟨wf', ?_, ?_⟩, ⟨g1, g2, g3⟩, ⟨g4, g5, g6⟩⟩
  · constructor <;> omega
  · constructor <;> omega

/-! ### `last_of_type` -/

theorem rposition_lt {α : Type} (p : α → Bool) : ∀ (l : List α) (i : Nat), rposition p l = some i → i < l.length := by
  intro l
  induction l with
  | nil => intro i h; simp [rposition] at h
  | cons x xs ih =>
    intro i h
    simp only [rposition] at h
    split at h
    · rename_i j hj
      simp only [Option.some.injEq] at h
      have := ih j hj
      simp only [List.length_cons]; omega
    · split at h
      · simp only [Option.some.injEq] at h
        simp only [List.length_cons]; omega
      · cases h

theorem wp_lastTail {t : TrackCounts} {K : Int} (tb : TB t K) (hK : K ≤ 16000) (kind : Cell) (cells : List Cell)
    (hlen : (cells.length : Int) = t.negativeImplicit + t.explicit + t.positiveImplicit) :
    WP (match rposition (fun c => c == kind) cells with
        | none => pure none
        | some idx => do
          let iu ← u16 (idx : Int)
          let l ← t.trackToPrevOzLine iu
          pure (some l) : Outcome (Option Int))
      (fun o => ∀ l, o = some l → -t.negativeImplicit ≤ l ∧ l < t.explicit + t.positiveImplicit) := by
  split
  · refine wp_pure ?_
    intro l hl; cases hl
  · rename_i idx hidx
    have hlt := rposition_lt _ _ _ hidx
    obtain ⟨x1, x2, x3, x4, x5⟩ := tb
    refine wp_bind_ok (wp_u16 (by omega) (by omega)) ?_
    rintro _ - rfl
    refine wp_bind_ok (wp_trackToPrevOzLine ⟨x1, x2, x3, x4, x5⟩ hK (by omega) (by omega)) ?_
    rintro _ - rfl
    refine wp_pure ?_
    intro l hl
    simp only [Option.some.injEq] at hl
    subst hl
    omega

/-- `last_of_type` for a track of the other axis that exists: no failure, and the line found lies in the implicit grid
of the searched axis -/
theorem wp_lastOfType {m : Matrix} {K : Int} (bd : Bd m K) (hK : K ≤ 16000) (pr : Proper m) (ax : Axis)
    (startAt : Int) (kind : Cell)
    (h1 : -(m.trackCounts ax.other).negativeImplicit ≤ startAt)
    (h2 : startAt < (m.trackCounts ax.other).explicit + (m.trackCounts ax.other).positiveImplicit) :
    WP (m.lastOfType ax startAt kind) (fun o => ∀ l, o = some l →
      -(m.trackCounts ax).negativeImplicit ≤ l ∧
      l < (m.trackCounts ax).explicit + (m.trackCounts ax).positiveImplicit) := by
  obtain ⟨d1, d2⟩ := bd.wf.dims_eq pr
  have to := bd.ax ax.other
  have ta := bd.ax ax
  unfold TrackCounts.total at d1 d2
  cases ax
  all_goals
    simp only [Matrix.trackCounts, Axis.other] at h1 h2 to ta ⊢
    have ta' := ta
    obtain ⟨x1, x2, x3, x4, x5⟩ := ta
    obtain ⟨y1, y2, y3, y4, y5⟩ := to
    unfold Matrix.lastOfType
    simp only [Matrix.trackCounts, Axis.other]
    refine wp_bind_ok (wp_ozLineToNextTrack ⟨y1, y2, y3, y4, y5⟩ hK (by omega) (by omega)) ?_
    rintro _ - rfl
  · refine wp_bind_ok (Q := fun cells => (cells.length : Int) =
      m.columns.negativeImplicit + m.columns.explicit + m.columns.positiveImplicit) ?_ ?_
    · unfold Grid.iterRow
      rw [if_pos (by omega)]
      refine wp_ok ?_
      simp only [List.length_map, List.length_range]
      omega
    · intro cells _ hlen
      exact wp_lastTail ta' hK kind cells hlen
  · refine wp_bind_ok (Q := fun cells => (cells.length : Int) =
      m.rows.negativeImplicit + m.rows.explicit + m.rows.positiveImplicit) ?_ ?_
    · unfold Grid.iterCol
      rw [if_pos (by omega)]
      refine wp_ok ?_
      simp only [List.length_map, List.length_range]
      omega
    · intro cells _ hlen
      exact wp_lastTail ta' hK kind cells hlen

end GridPlacement
