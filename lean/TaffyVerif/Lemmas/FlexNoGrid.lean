/-
  Trees on which the evaluator never runs the grid algorithm: there the evaluator does not depend on the `grid`
  component of `Eval.Algs` (`eval_algs_congr_grid`).  Counterpart of Lemmas/EvalBlockOnly.lean (`BlockOnly`) for trees
  of block containers, flexbox containers and leaves.
-/
import TaffyVerif.Lemmas.EvalBlockOnly

set_option linter.unusedSectionVars false

namespace FlexTrees
open Eval Gen.Facts EvalBlock
variable {α : Type} [Num α] {C : Type}

mutual
/-- under dispatch `sel`, no node outside `display:none`-dispatched subtrees is dispatched to grid -/
def NoG (sel : Display → Bool → Option Callee) : STree α → Prop
  | .node s _ kids =>
    sel s.display (!kids.isEmpty) = some .hidden ∨ (sel s.display (!kids.isEmpty) ≠ some .grid ∧ NoGList sel kids)
def NoGList (sel : Display → Bool → Option Callee) : List (STree α) → Prop
  | [] => True
  | t :: ts => NoG sel t ∧ NoGList sel ts
end

mutual
/-- **NoGrid**: every node that is not inside a `display:none` subtree is `display:none`, or childless (a leaf, whatever
its `display`), or a `display:block` or `display:flex` container.  I.e. the tree has no grid container with children
outside hidden subtrees. -/
def NoGrid : STree α → Prop
  | .node s _ kids => s.display = .none ∨ ((kids = [] ∨ s.display = .block ∨ s.display = .flex) ∧ NoGridList kids)
def NoGridList : List (STree α) → Prop
  | [] => True
  | t :: ts => NoGrid t ∧ NoGridList ts
end

theorem NoGList_get (sel : Display → Bool → Option Callee) : ∀ (kids : List (STree α)) (i : Nat) (t : STree α),
    NoGList sel kids → kids[i]? = some t → NoG sel t
  | [], _, _, _, h => by simp at h
  | a :: as, 0, t, hn, h => by
    simp only [List.getElem?_cons_zero, Option.some.injEq] at h
    subst h
    exact hn.1
  | a :: as, i + 1, t, hn, h => by
    simp only [List.getElem?_cons_succ] at h
    exact NoGList_get sel as i t hn.2 h

/-- **eval_algs_congr_grid**: on a tree that is never dispatched to grid, two choices of algorithms with the same leaf,
block and flexbox algorithms give the same evaluator (same outputs, same states) -/
theorem eval_algs_congr_grid (ci : CacheImpl α C) (sel : Display → Bool → Option Callee) (a1 a2 : Algs α)
    (hl : a1.leaf = a2.leaf) (hb : a1.block = a2.block) (hf : a1.flex = a2.flex) :
    ∀ (fuel : Nat) (t : STree α) (ns : NS α C) (inp : LayoutInput α), NoG sel t →
      evalNodeWith ci sel a1 fuel t ns inp = evalNodeWith ci sel a2 fuel t ns inp := by
  intro fuel
  induction fuel with
  | zero => intro t ns inp _; rw [eval_zero, eval_zero]
  | succ fuel ih =>
    intro t ns inp hn
    cases t with
    | node s ctx kids =>
      rw [eval_succ, eval_succ]
      have hc : computeOf ci sel a1 (evalNodeWith ci sel a1 fuel) s ctx kids ns inp =
          computeOf ci sel a2 (evalNodeWith ci sel a2 fuel) s ctx kids ns inp := by
        unfold computeOf
        simp only [NoG] at hn
        cases hsel : sel s.display (!kids.isEmpty) with
        | none => rfl
        | some c =>
          have hkids : c ≠ .hidden → evalChildOf (evalNodeWith ci sel a1 fuel) kids =
              evalChildOf (evalNodeWith ci sel a2 fuel) kids := by
            intro hc
            rcases hn with hn | ⟨_, hk⟩
            · rw [hsel] at hn; cases hn; exact absurd rfl hc
            · exact evalChildOf_congr' _ _ kids (fun i t ht k cin => ih t k cin (NoGList_get sel kids i t hk ht))
          cases c with
          | hidden => rfl
          | leaf => simp only [hl]
          | block => simp only [hb, hkids (by decide)]
          | flex => simp only [hf, hkids (by decide)]
          | grid =>
            rcases hn with hn | ⟨hn, _⟩
            · rw [hsel] at hn; cases hn
            · exact absurd hsel hn
      rw [hc]

mutual
/-- with `TaffyTree`'s own (documented = extracted) dispatch, `NoGrid` trees are never dispatched to grid -/
theorem NoGrid_NoG (sel : Display → Bool → Option Callee)
    (hsel : ∀ d b, sel d b = some (match d with
      | .none => Callee.hidden
      | .block => if b then Callee.block else Callee.leaf
      | .flex => if b then Callee.flex else Callee.leaf
      | .grid => if b then Callee.grid else Callee.leaf)) :
    ∀ t : STree α, NoGrid t → NoG sel t
  | .node s ctx kids, h => by
    simp only [NoGrid] at h
    simp only [NoG]
    rcases h with h | ⟨h, hk⟩
    · left; rw [hsel, h]
    · right
      refine ⟨?_, NoGridList_NoG sel hsel kids hk⟩
      rw [hsel]
      rcases h with h | h | h
      · subst h; cases s.display <;> simp
      · rw [h]; cases kids <;> simp
      · rw [h]; cases kids <;> simp
theorem NoGridList_NoG (sel : Display → Bool → Option Callee)
    (hsel : ∀ d b, sel d b = some (match d with
      | .none => Callee.hidden
      | .block => if b then Callee.block else Callee.leaf
      | .flex => if b then Callee.flex else Callee.leaf
      | .grid => if b then Callee.grid else Callee.leaf)) :
    ∀ ts : List (STree α), NoGridList ts → NoGList sel ts
  | [], _ => trivial
  | t :: ts, h => ⟨NoGrid_NoG sel hsel t h.1, NoGridList_NoG sel hsel ts h.2⟩
end

/-! ### `NoGrid` is kept by subtree replacement; `BlockOnly` trees are `NoGrid` -/

theorem NoGridList_get : ∀ (kids : List (STree α)) (i : Nat) (t : STree α),
    NoGridList kids → kids[i]? = some t → NoGrid t
  | [], _, _, _, h => by simp at h
  | a :: as, 0, t, hn, h => by
    simp only [List.getElem?_cons_zero, Option.some.injEq] at h
    subst h
    exact hn.1
  | a :: as, i + 1, t, hn, h => by
    simp only [List.getElem?_cons_succ] at h
    exact NoGridList_get as i t hn.2 h

theorem NoGridList_set : ∀ (kids : List (STree α)) (i : Nat) (x : STree α),
    NoGridList kids → NoGrid x → NoGridList (kids.set i x)
  | [], _, _, _, _ => by simp only [List.set_nil, NoGridList]
  | a :: as, 0, x, hn, hx => by
    simp only [List.set_cons_zero, NoGridList]
    exact ⟨hx, hn.2⟩
  | a :: as, i + 1, x, hn, hx => by
    simp only [List.set_cons_succ, NoGridList]
    exact ⟨hn.1, NoGridList_set as i x hn.2 hx⟩

theorem NoGrid_replaceAt : ∀ (p : List Nat) (t r : STree α), NoGrid t → NoGrid r → NoGrid (replaceAt t p r)
  | [], _, r, _, hr => by simpa only [replaceAt] using hr
  | i :: p, .node s c kids, r, ht, hr => by
    simp only [replaceAt]
    cases hk : kids[i]? with
    | none => exact ht
    | some k =>
      simp only [NoGrid] at ht ⊢
      rcases ht with hd | ⟨h1, h2⟩
      · exact Or.inl hd
      · refine Or.inr ⟨?_, NoGridList_set kids i _ h2 (NoGrid_replaceAt p k r (NoGridList_get kids i k h2 hk) hr)⟩
        rcases h1 with h1 | h1
        · subst h1; simp at hk
        · exact Or.inr h1

mutual
theorem BlockOnly_NoGrid : ∀ t : STree α, BlockOnly t → NoGrid t
  | .node s c kids, h => by
    simp only [BlockOnly] at h
    simp only [NoGrid]
    rcases h with h | ⟨h, hk⟩
    · exact Or.inl h
    · refine Or.inr ⟨?_, BlockOnlyList_NoGridList kids hk⟩
      rcases h with h | h
      · exact Or.inl h
      · exact Or.inr (Or.inl h)
theorem BlockOnlyList_NoGridList : ∀ ts : List (STree α), BlockOnlyList ts → NoGridList ts
  | [], _ => trivial
  | t :: ts, h => ⟨BlockOnly_NoGrid t h.1, BlockOnlyList_NoGridList ts h.2⟩
end

end FlexTrees
