/-
  Lemmas about the tree-level evaluator `Eval.evalNodeWith` (Model/Eval.lean) used by C01 / C16 / C17:
  unfolding equations, the cache-free output function `outFresh`, soundness of a cache implementation with respect to
  it, the generic "outputs are transparent" theorem, edits.
-/
import TaffyVerif.Model.Eval

set_option linter.unusedSectionVars false

namespace EvalMemo
open Eval Gen.Facts
variable {α : Type} [Num α]

/-! ### unfolding `evalNodeWith` -/

/-- what the dispatch of a node selects -/
inductive Body (α : Type) where
  | hidden
  | prog (p : ProgM α (LayoutOutput α))
  | leaf
  | stuck

def bodyOf (sel : Display → Bool → Option Callee) (algs : Algs α) (style : Style α) (kids : List (STree α))
    (inp : LayoutInput α) : Body α :=
  match sel style.display (!kids.isEmpty) with
  | some .hidden => .hidden
  | some .block => .prog (algs.block style (kids.map STree.style) inp)
  | some .flex => .prog (algs.flex style (kids.map STree.style) inp)
  | some .grid => .prog (algs.grid style (kids.map STree.style) inp)
  | some .leaf => .leaf
  | none => .stuck

section
variable {C : Type} (ci : CacheImpl α C)

/-- the `evalChild` closure of `evalNodeWith` -/
def evalChildOf (sel : Display → Bool → Option Callee) (algs : Algs α) (fuel : Nat) (kids : List (STree α)) :
    Nat → LayoutInput α → List (NS α C) → LayoutOutput α × List (NS α C) := fun i cin ks =>
  match kids[i]?, ks[i]? with
  | some t, some k =>
    let r := evalNodeWith ci sel algs fuel t k cin
    (r.1, ks.set i r.2)
  | _, _ => (LayoutOutput.hidden, ks)

theorem evalNodeWith_zero (sel : Display → Bool → Option Callee) (algs : Algs α) (t : STree α) (ns : NS α C)
    (inp : LayoutInput α) : evalNodeWith ci sel algs 0 t ns inp = (LayoutOutput.hidden, ns) := by
  unfold evalNodeWith; rfl

theorem evalNodeWith_succ (sel : Display → Bool → Option Callee) (algs : Algs α) (fuel : Nat)
    (style : Style α) (ctx : Option (MeasureSpec α)) (kids : List (STree α)) (c : C) (l : Layout α)
    (nk : List (NS α C)) (inp : LayoutInput α) :
    evalNodeWith ci sel algs (fuel + 1) (.node style ctx kids) (.mk c l nk) inp =
      if inp.runMode == .performHiddenLayout then (LayoutOutput.hidden, hiddenLayout ci (.mk c l nk))
      else match ci.get c inp with
        | some out => (out, .mk c l nk)
        | none =>
          match bodyOf sel algs style kids inp with
          | .hidden =>
            (LayoutOutput.hidden,
              .mk (ci.store (ci.clear c) inp LayoutOutput.hidden) (Layout.withOrder 0) (hiddenLayoutList ci nk))
          | .prog p =>
            let r := runProg (evalChildOf ci sel algs fuel kids) p nk
            (r.1, .mk (ci.store c inp r.1) l r.2)
          | .leaf =>
            (algs.leaf inp style (measureOf ctx), .mk (ci.store c inp (algs.leaf inp style (measureOf ctx))) l nk)
          | .stuck => (LayoutOutput.hidden, .mk (ci.store c inp LayoutOutput.hidden) l nk) := by
  simp only [evalNodeWith, bodyOf, NS.cache]
  cases hm : (inp.runMode == RunMode.performHiddenLayout) with
  | true => rfl
  | false =>
    cases hg : ci.get c inp with
    | some out => rfl
    | none =>
      cases sel style.display (!kids.isEmpty) with
      | none => rfl
      | some cal => cases cal <;> rfl

end

/-! ### the cache-free output as a pure function -/

/-- run a program against an oracle for the children's answers (no state) -/
def interp {β : Type} (ans : Nat → LayoutInput α → LayoutOutput α) : ProgM α β → β
  | .pure b => b
  | .call i inp k => interp ans (k (ans i inp))
  | .setLayout _ _ k => interp ans (k ())

/-- the cache-free output of node `t` for input `inp` -/
def outFresh (sel : Display → Bool → Option Callee) (algs : Algs α) : Nat → STree α → LayoutInput α → LayoutOutput α
  | 0, _, _ => LayoutOutput.hidden
  | fuel + 1, .node style ctx kids, inp =>
    if inp.runMode == .performHiddenLayout then LayoutOutput.hidden
    else
      match bodyOf sel algs style kids inp with
      | .hidden => LayoutOutput.hidden
      | .prog p =>
        interp (fun i cin => match kids[i]? with
          | some t => outFresh sel algs fuel t cin
          | none => LayoutOutput.hidden) p
      | .leaf => algs.leaf inp style (measureOf ctx)
      | .stuck => LayoutOutput.hidden

/-- the children's answers used by `outFresh` -/
def ansOf (sel : Display → Bool → Option Callee) (algs : Algs α) (fuel : Nat) (kids : List (STree α)) :
    Nat → LayoutInput α → LayoutOutput α := fun i cin =>
  match kids[i]? with
  | some t => outFresh sel algs fuel t cin
  | none => LayoutOutput.hidden

theorem outFresh_succ (sel : Display → Bool → Option Callee) (algs : Algs α) (fuel : Nat)
    (style : Style α) (ctx : Option (MeasureSpec α)) (kids : List (STree α)) (inp : LayoutInput α) :
    outFresh sel algs (fuel + 1) (.node style ctx kids) inp =
      if inp.runMode == .performHiddenLayout then LayoutOutput.hidden
      else match bodyOf sel algs style kids inp with
        | .hidden => LayoutOutput.hidden
        | .prog p => interp (ansOf sel algs fuel kids) p
        | .leaf => algs.leaf inp style (measureOf ctx)
        | .stuck => LayoutOutput.hidden := rfl

theorem interp_congr {β : Type} (f g : Nat → LayoutInput α → LayoutOutput α) (h : ∀ i c, f i c = g i c)
    (p : ProgM α β) : interp f p = interp g p := by
  induction p with
  | pure b => rfl
  | call i inp k ih => simp only [interp]; rw [h]; exact ih _
  | setLayout i l k ih => simp only [interp]; exact ih _

theorem depth_le_of_getElem : ∀ (kids : List (STree α)) (i : Nat) (t : STree α), kids[i]? = some t →
    STree.depth t ≤ STree.depthList kids
  | [], _, _, h => by simp at h
  | a :: as, 0, t, h => by
    simp only [List.getElem?_cons_zero, Option.some.injEq] at h
    subst h
    simp only [STree.depthList]; omega
  | a :: as, i + 1, t, h => by
    simp only [List.getElem?_cons_succ] at h
    have := depth_le_of_getElem as i t h
    simp only [STree.depthList]; omega

/-- **outFresh_fuel_mono**: above the depth of the tree the value does not depend on the fuel -/
theorem outFresh_fuel_indep (sel : Display → Bool → Option Callee) (algs : Algs α) :
    ∀ (f1 f2 : Nat) (t : STree α) (inp : LayoutInput α), STree.depth t ≤ f1 → STree.depth t ≤ f2 →
      outFresh sel algs f1 t inp = outFresh sel algs f2 t inp := by
  intro f1
  induction f1 with
  | zero => intro f2 t inp h1 _; cases t; simp [STree.depth] at h1
  | succ f1 ih =>
    intro f2 t inp h1 h2
    cases f2 with
    | zero => cases t; simp [STree.depth] at h2
    | succ f2 =>
      cases t with
      | node style ctx kids =>
        simp only [STree.depth] at h1 h2
        simp only [outFresh_succ]
        have : ∀ i c, ansOf sel algs f1 kids i c = ansOf sel algs f2 kids i c := by
          intro i c
          simp only [ansOf]
          cases hk : kids[i]? with
          | none => rfl
          | some t =>
            have := depth_le_of_getElem kids i t hk
            exact ih f2 t c (by omega) (by omega)
        split
        · rfl
        · cases bodyOf sel algs style kids inp with
          | prog p => exact interp_congr _ _ this p
          | _ => rfl

/-- the fuel-free cache-free output -/
def outF (sel : Display → Bool → Option Callee) (algs : Algs α) (t : STree α) (inp : LayoutInput α) : LayoutOutput α :=
  outFresh sel algs (STree.depth t) t inp

theorem outFresh_eq_outF (sel : Display → Bool → Option Callee) (algs : Algs α) (fuel : Nat) (t : STree α)
    (inp : LayoutInput α) (h : STree.depth t ≤ fuel) : outFresh sel algs fuel t inp = outF sel algs t inp :=
  outFresh_fuel_indep sel algs fuel _ t inp h (Nat.le_refl _)

/-! ### caches that are sound with respect to a function -/

/-- `V c f`: every answer the cache `c` can give agrees with `f`; closed under the cache operations -/
structure CacheSound {C : Type} (ci : CacheImpl α C) (V : C → (LayoutInput α → LayoutOutput α) → Prop) : Prop where
  get : ∀ c f i o, V c f → ci.get c i = some o → o = f i
  store : ∀ c f i, V c f → V (ci.store c i (f i)) f
  clear : ∀ c f, V (ci.clear c) f
  empty : ∀ f, V ci.empty f

section
variable {C : Type} (V : C → (LayoutInput α → LayoutOutput α) → Prop)
variable (sel : Display → Bool → Option Callee) (algs : Algs α)

mutual
/-- the state `ns` has the shape of `t` and every cache in it is valid for the cache-free output of its subtree -/
def Valid : STree α → NS α C → Prop
  | .node style ctx kids, .mk c _ nk => V c (outF sel algs (.node style ctx kids)) ∧ ValidList kids nk
def ValidList : List (STree α) → List (NS α C) → Prop
  | [], [] => True
  | t :: ts, k :: ks => Valid t k ∧ ValidList ts ks
  | [], _ :: _ => False
  | _ :: _, [] => False
end

theorem Valid_mk (style : Style α) (ctx : Option (MeasureSpec α)) (kids : List (STree α)) (c : C) (l : Layout α)
    (nk : List (NS α C)) :
    Valid V sel algs (.node style ctx kids) (.mk c l nk) ↔
      (V c (outF sel algs (.node style ctx kids)) ∧ ValidList V sel algs kids nk) := by
  simp only [Valid]

theorem ValidList_get : ∀ (kids : List (STree α)) (ks : List (NS α C)) (i : Nat) (t : STree α),
    ValidList V sel algs kids ks → kids[i]? = some t → ∃ k, ks[i]? = some k ∧ Valid V sel algs t k
  | [], _, _, _, _, h => by simp at h
  | _ :: _, [], _, _, hv, _ => by simp [ValidList] at hv
  | a :: as, b :: bs, 0, t, hv, h => by
    simp only [List.getElem?_cons_zero, Option.some.injEq] at h
    subst h
    simp only [ValidList] at hv
    exact ⟨b, rfl, hv.1⟩
  | a :: as, b :: bs, i + 1, t, hv, h => by
    simp only [List.getElem?_cons_succ] at h
    simp only [ValidList] at hv
    simpa using ValidList_get as bs i t hv.2 h

theorem ValidList_set : ∀ (kids : List (STree α)) (ks : List (NS α C)) (i : Nat) (t : STree α) (k' : NS α C),
    ValidList V sel algs kids ks → kids[i]? = some t → Valid V sel algs t k' →
      ValidList V sel algs kids (ks.set i k')
  | [], _, _, _, _, _, h, _ => by simp at h
  | _ :: _, [], _, _, _, hv, _, _ => by simp [ValidList] at hv
  | a :: as, b :: bs, 0, t, k', hv, h, hk => by
    simp only [List.getElem?_cons_zero, Option.some.injEq] at h
    subst h
    simp only [ValidList] at hv
    simp only [List.set_cons_zero, ValidList]
    exact ⟨hk, hv.2⟩
  | a :: as, b :: bs, i + 1, t, k', hv, h, hk => by
    simp only [List.getElem?_cons_succ] at h
    simp only [ValidList] at hv
    simp only [List.set_cons_succ, ValidList]
    exact ⟨hv.1, ValidList_set as bs i t k' hv.2 h hk⟩

theorem Valid_layout_irrel (t : STree α) (c : C) (l l' : Layout α) (nk : List (NS α C))
    (h : Valid V sel algs t (.mk c l nk)) : Valid V sel algs t (.mk c l' nk) := by
  cases t with
  | node style ctx kids => simpa only [Valid] using h

theorem ValidList_setLayoutAt (kids : List (STree α)) (ks : List (NS α C)) (i : Nat) (l : Layout α)
    (hv : ValidList V sel algs kids ks) : ValidList V sel algs kids (setLayoutAt ks i l) := by
  unfold setLayoutAt
  cases hk : ks[i]? with
  | none => exact hv
  | some k =>
    cases k with
    | mk c l0 nk =>
      simp only
      cases ht : kids[i]? with
      | none =>
        -- impossible index for `kids` means `set` is out of range as well; but we do not need that: use shape
        have : ks.set i (NS.mk c l nk) = ks.set i (NS.mk c l nk) := rfl
        -- derive a contradiction from the shapes
        exfalso
        have hlen : ∀ (a : List (STree α)) (b : List (NS α C)), ValidList V sel algs a b → a.length = b.length := by
          intro a
          induction a with
          | nil => intro b hb; cases b with
            | nil => rfl
            | cons _ _ => simp [ValidList] at hb
          | cons x xs ih => intro b hb; cases b with
            | nil => simp [ValidList] at hb
            | cons y ys => simp only [ValidList] at hb; simp [ih ys hb.2]
        have h1 := hlen kids ks hv
        have h2 : i < ks.length := by
          rcases Nat.lt_or_ge i ks.length with h | h
          · exact h
          · simp [List.getElem?_eq_none h] at hk
        have h3 : kids.length ≤ i := by
          rcases Nat.lt_or_ge i kids.length with h | h
          · simp [List.getElem?_eq_getElem h] at ht
          · exact h
        omega
      | some t =>
        obtain ⟨k2, hk2, hvk⟩ := ValidList_get V sel algs kids ks i t hv ht
        rw [hk] at hk2
        cases hk2
        exact ValidList_set V sel algs kids ks i t _ hv ht (Valid_layout_irrel V sel algs t c l0 l nk hvk)

variable {V} (ci : CacheImpl α C) (hs : CacheSound ci V)
include hs

mutual
theorem Valid_hidden : ∀ (t : STree α) (ns : NS α C), Valid V sel algs t ns → Valid V sel algs t (hiddenLayout ci ns)
  | .node style ctx kids, .mk c l nk, h => by
    simp only [Valid] at h
    simp only [hiddenLayout, Valid]
    exact ⟨hs.clear _ _, ValidList_hidden kids nk h.2⟩
theorem ValidList_hidden : ∀ (kids : List (STree α)) (ks : List (NS α C)), ValidList V sel algs kids ks →
    ValidList V sel algs kids (hiddenLayoutList ci ks)
  | [], [], _ => by simp [hiddenLayoutList, ValidList]
  | t :: ts, k :: ks, h => by
    simp only [ValidList] at h
    simp only [hiddenLayoutList, ValidList]
    exact ⟨Valid_hidden t k h.1, ValidList_hidden ts ks h.2⟩
  | [], _ :: _, h => by simp [ValidList] at h
  | _ :: _, [], h => by simp [ValidList] at h
end

mutual
theorem Valid_init : ∀ (t : STree α), Valid V sel algs t (NS.init ci t)
  | .node style ctx kids => by
    simp only [NS.init, Valid]
    exact ⟨hs.empty _, ValidList_init kids⟩
theorem ValidList_init : ∀ (kids : List (STree α)), ValidList V sel algs kids (NS.initList ci kids)
  | [] => by simp [NS.initList, ValidList]
  | t :: ts => by
    simp only [NS.initList, ValidList]
    exact ⟨Valid_init t, ValidList_init ts⟩
end

/-- running a program against valid children: the result is `interp` of the children's cache-free answers, and the
children stay valid -/
theorem runProg_valid {β : Type} (kids : List (STree α))
    (evalChild : Nat → LayoutInput α → List (NS α C) → LayoutOutput α × List (NS α C))
    (ans : Nat → LayoutInput α → LayoutOutput α)
    (hc : ∀ i cin ks, ValidList V sel algs kids ks →
      (evalChild i cin ks).1 = ans i cin ∧ ValidList V sel algs kids (evalChild i cin ks).2)
    (p : ProgM α β) : ∀ ks, ValidList V sel algs kids ks →
      (runProg evalChild p ks).1 = interp ans p ∧ ValidList V sel algs kids (runProg evalChild p ks).2 := by
  induction p with
  | pure b => intro ks hv; exact ⟨rfl, hv⟩
  | call i inp k ih =>
    intro ks hv
    obtain ⟨h1, h2⟩ := hc i inp ks hv
    simp only [runProg, interp]
    rw [h1]
    exact ih _ _ h2
  | setLayout i l k ih =>
    intro ks hv
    simp only [runProg, interp]
    exact ih _ _ (ValidList_setLayoutAt V sel algs kids ks i l hv)

/-- **generic transparency of outputs**: with a cache that is sound for the cache-free output, the evaluator returns
the cache-free output and keeps the state valid -/
theorem eval_valid : ∀ (fuel : Nat) (t : STree α) (ns : NS α C) (inp : LayoutInput α), STree.depth t ≤ fuel →
    Valid V sel algs t ns →
      (evalNodeWith ci sel algs fuel t ns inp).1 = outFresh sel algs fuel t inp ∧
      Valid V sel algs t (evalNodeWith ci sel algs fuel t ns inp).2 := by
  intro fuel
  induction fuel with
  | zero => intro t ns inp hd _; cases t; simp [STree.depth] at hd
  | succ fuel ih =>
    intro t ns inp hd hv
    cases t with
    | node style ctx kids =>
      cases ns with
      | mk c l nk =>
        have hout : outFresh sel algs (fuel + 1) (.node style ctx kids) = outF sel algs (.node style ctx kids) := by
          funext x; exact outFresh_eq_outF sel algs _ _ x hd
        simp only [STree.depth] at hd
        rw [evalNodeWith_succ, outFresh_succ]
        cases hm : (inp.runMode == RunMode.performHiddenLayout) with
        | true => exact ⟨rfl, Valid_hidden sel algs ci hs _ _ hv⟩
        | false =>
          simp only [Bool.false_eq_true, if_false]
          have hv' := hv
          simp only [Valid] at hv'
          obtain ⟨hvc, hvk⟩ := hv'
          cases hg : ci.get c inp with
          | some out =>
            simp only
            refine ⟨?_, hv⟩
            have := hs.get c _ inp out hvc hg
            rw [this, ← hout, outFresh_succ, hm]
            simp only [Bool.false_eq_true, if_false]
          | none =>
            simp only
            -- the value computed by the body is the cache-free one
            have hval : ∀ (o : LayoutOutput α),
                o = outF sel algs (.node style ctx kids) inp → V (ci.store c inp o) (outF sel algs (.node style ctx kids)) := by
              intro o ho; rw [ho]; exact hs.store c _ inp hvc
            have hbody : outF sel algs (.node style ctx kids) inp =
                (match bodyOf sel algs style kids inp with
                  | .hidden => LayoutOutput.hidden
                  | .prog p => interp (ansOf sel algs fuel kids) p
                  | .leaf => algs.leaf inp style (measureOf ctx)
                  | .stuck => LayoutOutput.hidden) := by
              rw [← hout, outFresh_succ, hm]
              simp only [Bool.false_eq_true, if_false]
            cases hb : bodyOf sel algs style kids inp with
            | hidden =>
              rw [hb] at hbody
              simp only at hbody ⊢
              refine ⟨trivial, ?_⟩
              simp only [Valid]
              refine ⟨?_, ValidList_hidden sel algs ci hs kids nk hvk⟩
              rw [← hbody]
              exact hs.store _ _ inp (hs.clear c _)
            | leaf =>
              rw [hb] at hbody
              simp only at hbody ⊢
              refine ⟨trivial, ?_⟩
              simp only [Valid]
              exact ⟨hval _ hbody.symm, hvk⟩
            | stuck =>
              rw [hb] at hbody
              simp only at hbody ⊢
              refine ⟨trivial, ?_⟩
              simp only [Valid]
              exact ⟨hval _ hbody.symm, hvk⟩
            | prog p =>
              rw [hb] at hbody
              simp only at hbody ⊢
              have hc : ∀ i cin ks, ValidList V sel algs kids ks →
                  (evalChildOf ci sel algs fuel kids i cin ks).1 = ansOf sel algs fuel kids i cin ∧
                  ValidList V sel algs kids (evalChildOf ci sel algs fuel kids i cin ks).2 := by
                intro i cin ks hvl
                simp only [evalChildOf, ansOf]
                cases hk : kids[i]? with
                | none => exact ⟨rfl, hvl⟩
                | some t =>
                  obtain ⟨k, hk2, hvt⟩ := ValidList_get V sel algs kids ks i t hvl hk
                  rw [hk2]
                  simp only
                  have hdt := depth_le_of_getElem kids i t hk
                  obtain ⟨e1, e2⟩ := ih t k cin (by omega) hvt
                  exact ⟨e1, ValidList_set V sel algs kids ks i t _ hvl hk e2⟩
              obtain ⟨r1, r2⟩ := runProg_valid sel algs ci hs kids _ _ hc p nk hvk
              refine ⟨r1, ?_⟩
              simp only [Valid]
              refine ⟨hval _ ?_, r2⟩
              rw [r1, hbody]

end

/-! ### shape -/
section
variable {C : Type}

mutual
/-- the state has the same shape (child counts, recursively) as the tree -/
def Shape : STree α → NS α C → Prop
  | .node _ _ kids, .mk _ _ nk => ShapeList kids nk
def ShapeList : List (STree α) → List (NS α C) → Prop
  | [], [] => True
  | t :: ts, k :: ks => Shape t k ∧ ShapeList ts ks
  | [], _ :: _ => False
  | _ :: _, [] => False
end

variable (V : C → (LayoutInput α → LayoutOutput α) → Prop)
variable (sel : Display → Bool → Option Callee) (algs : Algs α)

mutual
theorem Valid_shape : ∀ (t : STree α) (ns : NS α C), Valid V sel algs t ns → Shape t ns
  | .node _ _ kids, .mk _ _ nk, h => by
    simp only [Valid] at h
    simp only [Shape]
    exact ValidList_shape kids nk h.2
theorem ValidList_shape : ∀ (kids : List (STree α)) (ks : List (NS α C)), ValidList V sel algs kids ks → ShapeList kids ks
  | [], [], _ => by simp [ShapeList]
  | t :: ts, k :: ks, h => by
    simp only [ValidList] at h
    simp only [ShapeList]
    exact ⟨Valid_shape t k h.1, ValidList_shape ts ks h.2⟩
  | [], _ :: _, h => by simp [ValidList] at h
  | _ :: _, [], h => by simp [ValidList] at h
end

mutual
theorem Shape_valid_true : ∀ (t : STree α) (ns : NS α C), Shape t ns → Valid (fun _ _ => True) sel algs t ns
  | .node _ _ kids, .mk _ _ nk, h => by
    simp only [Shape] at h
    simp only [Valid]
    exact ⟨trivial, ShapeList_valid_true kids nk h⟩
theorem ShapeList_valid_true : ∀ (kids : List (STree α)) (ks : List (NS α C)), ShapeList kids ks →
    ValidList (fun _ _ => True) sel algs kids ks
  | [], [], _ => by simp [ValidList]
  | t :: ts, k :: ks, h => by
    simp only [ShapeList] at h
    simp only [ValidList]
    exact ⟨Shape_valid_true t k h.1, ShapeList_valid_true ts ks h.2⟩
  | [], _ :: _, h => by simp [ShapeList] at h
  | _ :: _, [], h => by simp [ShapeList] at h
end
end

/-! ### the two sound instances -/

theorem noCache_sound : CacheSound (noCache (α := α)) (fun _ _ => True) where
  get := by intro c f i o _ h; simp [noCache] at h
  store := by intros; trivial
  clear := by intros; trivial
  empty := by intros; trivial

/-- validity of an exact memo: every entry is the value of the function at its key -/
def memoV (c : List (LayoutInput α × LayoutOutput α)) (f : LayoutInput α → LayoutOutput α) : Prop :=
  ∀ e ∈ c, e.2 = f e.1

theorem exactMemo_sound [DecidableEq α] : CacheSound (exactMemo (α := α)) memoV where
  get := by
    intro c f i o hv h
    simp only [exactMemo, Option.map_eq_some_iff] at h
    obtain ⟨e, he, ho⟩ := h
    have hmem := List.mem_of_find?_eq_some he
    have hp := List.find?_some he
    simp only [decide_eq_true_eq] at hp
    rw [← ho, ← hp]
    exact hv e hmem
  store := by
    intro c f i hv
    simp only [exactMemo]
    split
    · exact hv
    · intro e he
      simp only [List.mem_cons] at he
      rcases he with h | h
      · rw [h]
      · exact hv e h
  clear := by intro c f e he; simp [exactMemo] at he
  empty := by intro f e he; simp [exactMemo] at he

/-! ### edits -/

/-- apply `f` to the subtree at path `p` (a path that leaves the tree changes nothing) -/
def treeModifyAt (f : STree α → STree α) : List Nat → STree α → STree α
  | [], t => f t
  | i :: p, .node s c kids =>
    .node s c (match kids[i]? with
      | some k => kids.set i (treeModifyAt f p k)
      | none => kids)

/-- apply `g` to the state of the node at path `p` and clear the cache of every proper ancestor on the way
(`mark_dirty` from that node upwards) -/
def stateModifyAt {C : Type} (ci : CacheImpl α C) (g : NS α C → NS α C) : List Nat → NS α C → NS α C
  | [], ns => g ns
  | i :: p, .mk c l nk =>
    .mk (ci.clear c) l (match nk[i]? with
      | some k => nk.set i (stateModifyAt ci g p k)
      | none => nk)

/-- insert at index `i` (past the end: append) -/
def insertAt {β : Type} (x : β) : Nat → List β → List β
  | 0, l => x :: l
  | _ + 1, [] => [x]
  | n + 1, a :: l => a :: insertAt x n l

section
variable {C : Type} (V : C → (LayoutInput α → LayoutOutput α) → Prop)
variable (sel : Display → Bool → Option Callee) (algs : Algs α)

theorem ValidList_length : ∀ (a : List (STree α)) (b : List (NS α C)), ValidList V sel algs a b → a.length = b.length
  | [], [], _ => rfl
  | _ :: as, _ :: bs, h => by
    simp only [ValidList] at h
    simp [ValidList_length as bs h.2]
  | [], _ :: _, h => by simp [ValidList] at h
  | _ :: _, [], h => by simp [ValidList] at h

theorem ValidList_set2 : ∀ (kids : List (STree α)) (ks : List (NS α C)) (i : Nat) (t' : STree α) (k' : NS α C),
    ValidList V sel algs kids ks → Valid V sel algs t' k' → ValidList V sel algs (kids.set i t') (ks.set i k')
  | [], [], _, _, _, _, _ => by simp [ValidList]
  | _ :: _, [], _, _, _, hv, _ => by simp [ValidList] at hv
  | [], _ :: _, _, _, _, hv, _ => by simp [ValidList] at hv
  | a :: as, b :: bs, 0, t', k', hv, hk => by
    simp only [ValidList] at hv
    simp only [List.set_cons_zero, ValidList]
    exact ⟨hk, hv.2⟩
  | a :: as, b :: bs, i + 1, t', k', hv, hk => by
    simp only [ValidList] at hv
    simp only [List.set_cons_succ, ValidList]
    exact ⟨hv.1, ValidList_set2 as bs i t' k' hv.2 hk⟩

theorem ValidList_get_none (kids : List (STree α)) (ks : List (NS α C)) (i : Nat)
    (hv : ValidList V sel algs kids ks) (h : kids[i]? = none) : ks[i]? = none := by
  have := ValidList_length V sel algs kids ks hv
  rw [List.getElem?_eq_none_iff] at h ⊢
  omega

theorem ValidList_insertAt (t' : STree α) (k' : NS α C) (hk : Valid V sel algs t' k') :
    ∀ (i : Nat) (kids : List (STree α)) (ks : List (NS α C)), ValidList V sel algs kids ks →
      ValidList V sel algs (insertAt t' i kids) (insertAt k' i ks)
  | 0, kids, ks, hv => by simp only [insertAt, ValidList]; exact ⟨hk, hv⟩
  | _ + 1, [], [], _ => by simp only [insertAt, ValidList]; exact ⟨hk, trivial⟩
  | _ + 1, _ :: _, [], hv => by simp [ValidList] at hv
  | _ + 1, [], _ :: _, hv => by simp [ValidList] at hv
  | i + 1, a :: as, b :: bs, hv => by
    simp only [ValidList] at hv
    simp only [insertAt, ValidList]
    exact ⟨hv.1, ValidList_insertAt t' k' hk i as bs hv.2⟩

theorem ValidList_eraseIdx : ∀ (i : Nat) (kids : List (STree α)) (ks : List (NS α C)), ValidList V sel algs kids ks →
    ValidList V sel algs (kids.eraseIdx i) (ks.eraseIdx i)
  | _, [], [], _ => by simp [ValidList]
  | _, _ :: _, [], hv => by simp [ValidList] at hv
  | _, [], _ :: _, hv => by simp [ValidList] at hv
  | 0, a :: as, b :: bs, hv => by
    simp only [ValidList] at hv
    simp only [List.eraseIdx_cons_zero]
    exact hv.2
  | i + 1, a :: as, b :: bs, hv => by
    simp only [ValidList] at hv
    simp only [List.eraseIdx_cons_succ, ValidList]
    exact ⟨hv.1, ValidList_eraseIdx i as bs hv.2⟩

variable {V} (ci : CacheImpl α C) (hs : CacheSound ci V)
include hs

/-- **edits preserve validity**: if the local modification `(f, g)` of a (subtree, state) pair preserves validity, then
so does performing it at any path while clearing the caches of all proper ancestors.  Caches off the path belong to
unchanged subtrees; caches on the path are empty. -/
theorem modify_valid (f : STree α → STree α) (g : NS α C → NS α C)
    (hfg : ∀ t k, Valid V sel algs t k → Valid V sel algs (f t) (g k)) :
    ∀ (p : List Nat) (t : STree α) (ns : NS α C), Valid V sel algs t ns →
      Valid V sel algs (treeModifyAt f p t) (stateModifyAt ci g p ns)
  | [], t, ns, hv => by simp only [treeModifyAt, stateModifyAt]; exact hfg t ns hv
  | i :: p, .node s c kids, .mk cc l nk, hv => by
    simp only [Valid] at hv
    simp only [treeModifyAt, stateModifyAt, Valid]
    refine ⟨hs.clear _ _, ?_⟩
    cases hk : kids[i]? with
    | none =>
      rw [ValidList_get_none V sel algs kids nk i hv.2 hk]
      exact hv.2
    | some k =>
      obtain ⟨k2, hk2, hvk⟩ := ValidList_get V sel algs kids nk i k hv.2 hk
      rw [hk2]
      exact ValidList_set2 V sel algs kids nk i _ _ hv.2 (modify_valid f g hfg p k k2 hvk)

end

/-- the structural mutations of `TaffyTree`, addressed by the path of the node they act on -/
inductive Edit (α : Type) where
  /-- `set_style` / `set_node_context` on the node at `p` -/
  | setStyle (p : List Nat) (s : Style α) (ctx : Option (MeasureSpec α))
  /-- `add_child` / `insert_child_at_index` of a freshly built subtree under the node at `p` -/
  | insertChild (p : List Nat) (i : Nat) (sub : STree α)
  /-- `remove_child(_at_index)` under the node at `p` (with the repair of defect #6: the parent is marked dirty) -/
  | removeChild (p : List Nat) (i : Nat)
  /-- replace the whole subtree at `p` by a freshly built one -/
  | replace (p : List Nat) (sub : STree α)

namespace Edit
variable {C : Type} (ci : CacheImpl α C)

def path : Edit α → List Nat
  | setStyle p _ _ => p
  | insertChild p _ _ => p
  | removeChild p _ => p
  | replace p _ => p

def onTree : Edit α → STree α → STree α
  | setStyle _ s ctx, .node _ _ kids => .node s ctx kids
  | insertChild _ i sub, .node s c kids => .node s c (insertAt sub i kids)
  | removeChild _ i, .node s c kids => .node s c (kids.eraseIdx i)
  | replace _ sub, _ => sub

def onState : Edit α → NS α C → NS α C
  | setStyle _ _ _, .mk c l nk => .mk (ci.clear c) l nk
  | insertChild _ i sub, .mk c l nk => .mk (ci.clear c) l (insertAt (NS.init ci sub) i nk)
  | removeChild _ i, .mk c l nk => .mk (ci.clear c) l (nk.eraseIdx i)
  | replace _ sub, _ => NS.init ci sub

/-- the tree after the edit -/
def applyTree (e : Edit α) (t : STree α) : STree α := treeModifyAt e.onTree e.path t
/-- the state after the edit and the `mark_dirty` it triggers -/
def applyState (e : Edit α) (ns : NS α C) : NS α C := stateModifyAt ci (e.onState ci) e.path ns

end Edit

section
variable {C : Type} {V : C → (LayoutInput α → LayoutOutput α) → Prop}
variable (sel : Display → Bool → Option Callee) (algs : Algs α) (ci : CacheImpl α C) (hs : CacheSound ci V)
include hs

theorem Edit.local_valid (e : Edit α) (t : STree α) (k : NS α C) (hv : Valid V sel algs t k) :
    Valid V sel algs (e.onTree t) (e.onState ci k) := by
  cases t with
  | node s c kids =>
    cases k with
    | mk cc l nk =>
      simp only [Valid] at hv
      cases e with
      | setStyle p s' ctx' =>
        simp only [Edit.onTree, Edit.onState, Valid]
        exact ⟨hs.clear _ _, hv.2⟩
      | insertChild p i sub =>
        simp only [Edit.onTree, Edit.onState, Valid]
        exact ⟨hs.clear _ _, ValidList_insertAt V sel algs sub _ (Valid_init sel algs ci hs sub) i kids nk hv.2⟩
      | removeChild p i =>
        simp only [Edit.onTree, Edit.onState, Valid]
        exact ⟨hs.clear _ _, ValidList_eraseIdx V sel algs i kids nk hv.2⟩
      | replace p sub =>
        simp only [Edit.onTree, Edit.onState]
        exact Valid_init sel algs ci hs sub

theorem Edit.apply_valid (e : Edit α) (t : STree α) (ns : NS α C) (hv : Valid V sel algs t ns) :
    Valid V sel algs (e.applyTree t) (e.applyState ci ns) :=
  modify_valid sel algs ci hs _ _ (fun t k h => Edit.local_valid sel algs ci hs e t k h) e.path t ns hv

end

/-! ### histories -/

/-- one step of a history: an edit, then a layout pass with input `inp` (fuel = depth of the edited tree + `extra`) -/
structure Step (α : Type) where
  edit : Edit α
  inp : LayoutInput α
  extra : Nat

section
variable {C : Type} (ci : CacheImpl α C) (sel : Display → Bool → Option Callee) (algs : Algs α)

def runStep (s : STree α × NS α C) (st : Step α) : STree α × NS α C :=
  let t' := st.edit.applyTree s.1
  (t', (evalNodeWith ci sel algs (STree.depth t' + st.extra) t' (st.edit.applyState ci s.2) st.inp).2)

def runHistory (s : STree α × NS α C) (h : List (Step α)) : STree α × NS α C := h.foldl (runStep ci sel algs) s

variable {V : C → (LayoutInput α → LayoutOutput α) → Prop} (hs : CacheSound ci V)
include hs

theorem runHistory_valid (h : List (Step α)) : ∀ (s : STree α × NS α C), Valid V sel algs s.1 s.2 →
    Valid V sel algs (runHistory ci sel algs s h).1 (runHistory ci sel algs s h).2 := by
  induction h with
  | nil => intro s hv; exact hv
  | cons st rest ih =>
    intro s hv
    simp only [runHistory, List.foldl_cons]
    apply ih
    simp only [runStep]
    exact (eval_valid sel algs ci hs _ _ _ st.inp (Nat.le_add_right _ _)
      (Edit.apply_valid sel algs ci hs st.edit s.1 s.2 hv)).2

end

end EvalMemo
