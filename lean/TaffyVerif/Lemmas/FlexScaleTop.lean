/-
  C04 for flexbox, part 7: the stages composed.

    afterMain_scale              steps 6 to the end: homogeneous, for every state
    prefixProg_scale             steps 1–5 + `determine_container_main_size`: homogeneous
    computePreliminary_scale     `compute_preliminary`
    computeFlexboxLayout_scale   `compute_flexbox_layout`: the program of the scaled container is the scaled program
  No side condition anywhere.
-/
import TaffyVerif.Lemmas.FlexScaleMain

set_option linter.unusedSectionVars false
set_option linter.unusedVariables false
set_option linter.unusedSimpArgs false

namespace C04
open Scalable FlexModel FlexStages BlockModel

variable {k : Rat}

/-! ### steps 6 to the end -/

theorem tailStage_scale (hk : 0 < k) (c : AlgoConstants Rat) (cs : List (Style Rat)) (total : Rat)
    (lines : List (FlexLineS Rat)) :
    tailStage (scale k c) (cs.map (scale k)) (scale k total) (scale k lines) =
      scaleProg k (tailStage c cs total lines) := by
  unfold tailStage
  dsimp only
  rw [alignFlexLinesPerAlignContent_scale hk]
  apply bind_scale_of
  · exact finalLayoutPass_scale hk c _
  · intro r
    obtain ⟨ls, ics⟩ := r
    simp only [scale_pair]
    apply bind_scale_of
    · have := flexAbsLoop_scale hk c cs 0 Size.zero
      rwa [scale_size_zero] at this
    · intro acs
      apply bind_scale_of
      · exact hiddenLoop_scale hk cs 0
      · intro u
        rw [finalOutput_scale k hk]
        rfl

theorem afterCalls_scale (hk : 0 < k) (c : AlgoConstants Rat) (cs : List (Style Rat)) (inp : LayoutInput Rat)
    (lines : List (FlexLineS Rat)) :
    afterCalls (scale k c) (cs.map (scale k)) (scale k inp) (scale k lines) =
      scaleProg k (afterCalls c cs inp lines) := by
  unfold afterCalls
  dsimp only
  rw [li_knownDimensions, li_runMode, crossLines_scale hk, determineContainerCrossSize_scale hk]
  split
  · simp only [scale_snd, fxk_containerSize, LayoutOutput.fromOuterSize_scale]
    rfl
  · simp only [scale_snd, scale_fst]
    exact tailStage_scale hk _ cs _ _

theorem afterMain_scale (hk : 0 < k) (cs : List (Style Rat)) (inp : LayoutInput Rat) (av : Size (AvailableSpace Rat))
    (r : List (FlexLineS Rat) × AlgoConstants Rat) :
    afterMain (cs.map (scale k)) (scale k inp) (scale k av) (scale k r) = scaleProg k (afterMain cs inp av r) := by
  unfold afterMain
  simp only [scale_fst, scale_snd, li_knownDimensions]
  rw [map_scale_comm k (resolveFlexibleLengthsLine r.2) (resolveFlexibleLengthsLine (scale k r.2))
    (fun l => resolveFlexibleLengthsLine_scale hk r.2 l)]
  apply bind_scale_of
  · exact determineHypotheticalCrossSize_scale hk r.2 av _
  · intro l1
    apply bind_scale_of
    · exact calculateChildrenBaseLines_scale hk r.2 inp.knownDimensions av l1
    · intro l2
      exact afterCalls_scale hk r.2 cs inp l2

/-! ### determine_container_main_size / mainStage -/

theorem mainFinish_scale (hk : 0 < k) (c : AlgoConstants Rat) (oms : Rat) :
    mainFinish (scale k c) (scale k oms) = scale k (mainFinish c oms) := by
  have hz : ∀ x : Rat, Num.fmax (scale k x) 0 = scale k (Num.fmax x 0) := fun x => fmax_scale_zero hk x
  simp only [mainFinish, scale_fxk_mk, fxk_dir, fxk_isRow, fxk_isColumn, fxk_isWrap, fxk_isWrapReverse, fxk_minSize,
    fxk_maxSize, fxk_margin, fxk_border, fxk_contentBoxInset, fxk_scrollbarGutter, fxk_gap, fxk_alignItems,
    fxk_alignContent, fxk_justifyContent, fxk_nodeOuterSize, fxk_nodeInnerSize, fxk_containerSize,
    fxk_innerContainerSize, Size.main_scale, Rect.mainAxisSum_scale, Dir.pMain_scale, fo_clamp_scale hk, sub_scale,
    fmax_scale hk, hz, setMain_scale, setMain_scale_some]

/-- the intrinsic arm of `mainOuter` -/
def mainIntrinsic (c : AlgoConstants Rat) (av : Size (AvailableSpace Rat)) (lines : List (FlexLineS Rat)) :
    ProgM Rat (List (FlexLineS Rat) × Rat) := do
  let (lines', mainSize) ← intrinsicLines c av (c.contentBoxInset.mainAxisSum c.dir) lines 0
  pure (lines', mainSize + c.contentBoxInset.mainAxisSum c.dir)

/-- `mainOuter` is either pure (with a homogeneous value) or the intrinsic arm, on both sides alike -/
theorem mainOuter_cases (hk : 0 < k) (c : AlgoConstants Rat) (av : Size (AvailableSpace Rat))
    (lines : List (FlexLineS Rat)) :
    (∃ v : Rat, mainOuter c av lines = pure (lines, v) ∧
      mainOuter (scale k c) (scale k av) (scale k lines) = pure (scale k lines, scale k v)) ∨
    (mainOuter c av lines = mainIntrinsic c av lines ∧
      mainOuter (scale k c) (scale k av) (scale k lines) = mainIntrinsic (scale k c) (scale k av) (scale k lines)) := by
  unfold mainOuter
  simp only [fxk_nodeOuterSize, fxk_dir, fxk_isWrap, fxk_contentBoxInset, Size.main_scale, Rect.mainAxisSum_scale,
    length_scale, longestLineLength_scale hk]
  cases ho : c.nodeOuterSize.main c.dir with
  | some v => exact Or.inl ⟨v, rfl, rfl⟩
  | none =>
    cases ha : av.main c.dir with
    | definite a =>
      refine Or.inl ⟨_, rfl, ?_⟩
      simp only [scale_none, scale_definite, add_scale, fmax_scale hk, ite_scale]
    | minContent =>
      by_cases hw : c.isWrap = true
      · refine Or.inl ⟨longestLineLength c lines + c.contentBoxInset.mainAxisSum c.dir, ?_, ?_⟩
        · simp only [hw, if_true]
        · simp only [scale_none, scale_minContent, hw, if_true, add_scale]
      · refine Or.inr ⟨?_, ?_⟩
        · simp only [hw]
          rfl
        · simp only [scale_none, scale_minContent, hw]
          unfold mainIntrinsic
          simp only [fxk_contentBoxInset, fxk_dir, Rect.mainAxisSum_scale]
          rfl
    | maxContent =>
      refine Or.inr ⟨rfl, ?_⟩
      simp only [scale_none, scale_maxContent]
      unfold mainIntrinsic
      simp only [fxk_contentBoxInset, fxk_dir, Rect.mainAxisSum_scale]

theorem mainIntrinsic_scale (hk : 0 < k) (c : AlgoConstants Rat) (av : Size (AvailableSpace Rat))
    (lines : List (FlexLineS Rat)) :
    mainIntrinsic (scale k c) (scale k av) (scale k lines) = scaleProg k (mainIntrinsic c av lines) := by
  unfold mainIntrinsic
  simp only [fxk_contentBoxInset, fxk_dir, Rect.mainAxisSum_scale]
  apply bind_scale_of
  · have := intrinsicLines_scale hk c av (c.contentBoxInset.mainAxisSum c.dir) lines 0
    rwa [scale_zero] at this
  · intro r
    obtain ⟨l, m⟩ := r
    show ProgM.pure ((scale k (l, m)).1, (scale k (l, m)).2 + _) = ProgM.pure (scale k (l, m + _))
    rw [scale_pair, scale_pair, add_scale]

theorem mainOuter_scale (hk : 0 < k) (c : AlgoConstants Rat) (av : Size (AvailableSpace Rat))
    (lines : List (FlexLineS Rat)) :
    mainOuter (scale k c) (scale k av) (scale k lines) = scaleProg k (mainOuter c av lines) := by
  rcases mainOuter_cases hk c av lines with ⟨v, h1, h2⟩ | ⟨h1, h2⟩
  · rw [h1, h2]; rfl
  · rw [h1, h2]
    exact mainIntrinsic_scale hk c av lines

/-- **determineContainerMainSize_scale**: `determine_container_main_size`, every arm -/
theorem determineContainerMainSize_scale (hk : 0 < k) (c : AlgoConstants Rat) (av : Size (AvailableSpace Rat))
    (lines : List (FlexLineS Rat)) :
    determineContainerMainSize (scale k c) (scale k av) (scale k lines) =
      scaleProg k (determineContainerMainSize c av lines) := by
  rw [determineContainerMainSize_eq, determineContainerMainSize_eq]
  apply bind_scale_of
  · exact mainOuter_scale hk c av lines
  · intro r
    rw [scale_fst, scale_snd, mainFinish_scale hk]
    rfl

/-- `mainStage` is either pure (main size known) or `determine_container_main_size` + patch, on both sides alike -/
theorem mainStage_cases (k : Rat) (style : Style Rat) (c : AlgoConstants Rat) (av : Size (AvailableSpace Rat))
    (lines : List (FlexLineS Rat)) :
    (∃ v : Rat, c.nodeInnerSize.main c.dir = some v ∧ mainStage style c av lines = pure (lines, mainKnown c v) ∧
      mainStage (scale k style) (scale k c) (scale k av) (scale k lines) =
        pure (scale k lines, mainKnown (scale k c) (scale k v))) ∨
    (c.nodeInnerSize.main c.dir = none ∧
      mainStage style c av lines =
        (determineContainerMainSize c av lines >>= fun r => pure (r.1, mainPatch style r.2)) ∧
      mainStage (scale k style) (scale k c) (scale k av) (scale k lines) =
        (determineContainerMainSize (scale k c) (scale k av) (scale k lines) >>=
          fun r => pure (r.1, mainPatch (scale k style) r.2))) := by
  unfold mainStage
  simp only [fxk_nodeInnerSize, fxk_dir, Size.main_scale]
  cases hi : c.nodeInnerSize.main c.dir with
  | some v => exact Or.inl ⟨v, rfl, rfl, rfl⟩
  | none => exact Or.inr ⟨rfl, rfl, rfl⟩

theorem mainStage_scale (hk : 0 < k) (style : Style Rat) (c : AlgoConstants Rat) (av : Size (AvailableSpace Rat))
    (lines : List (FlexLineS Rat)) :
    mainStage (scale k style) (scale k c) (scale k av) (scale k lines) = scaleProg k (mainStage style c av lines) := by
  rcases mainStage_cases k style c av lines with ⟨v, _, h1, h2⟩ | ⟨_, h1, h2⟩
  · rw [h1, h2, mainKnown_scale]
    rfl
  · rw [h1, h2]
    apply bind_scale_of
    · exact determineContainerMainSize_scale hk c av lines
    · intro r
      rw [scale_fst, scale_snd, mainPatch_scale]
      rfl

/-! ### the prefix -/

theorem prelimConsts_scale (hk : 0 < k) (style : Style Rat) (inp : LayoutInput Rat) :
    prelimConsts (scale k style) (scale k inp) = scale k (prelimConsts style inp) := by
  unfold prelimConsts
  rw [li_knownDimensions, li_parentSize, computeConstants_scale hk]

theorem prelimAvail_scale (hk : 0 < k) (style : Style Rat) (inp : LayoutInput Rat) :
    prelimAvail (scale k style) (scale k inp) = scale k (prelimAvail style inp) := by
  unfold prelimAvail
  rw [prelimConsts_scale hk, li_knownDimensions, li_availableSpace, determineAvailableSpace_scale hk]

theorem baseProg_scale (hk : 0 < k) (style : Style Rat) (cs : List (Style Rat)) (inp : LayoutInput Rat) :
    determineFlexBaseSize (prelimConsts (scale k style) (scale k inp)) (prelimAvail (scale k style) (scale k inp))
        (styleOf (cs.map (scale k))) (generateAnonymousFlexItems (prelimConsts (scale k style) (scale k inp))
          (cs.map (scale k))) =
      scaleProg k (determineFlexBaseSize (prelimConsts style inp) (prelimAvail style inp) (styleOf cs)
        (generateAnonymousFlexItems (prelimConsts style inp) cs)) := by
  rw [prelimConsts_scale hk, prelimAvail_scale hk]
  unfold generateAnonymousFlexItems
  have := flexGenerateItemsFrom_scale hk (prelimConsts style inp) cs 0
  rw [scale_list] at this
  rw [this]
  exact determineFlexBaseSize_scale hk _ _ cs _ (generateItemsFrom_cff _ cs 0)

/-- **prefixProg_scale**: steps 1–5 and the main-size determination -/
theorem prefixProg_scale (hk : 0 < k) (style : Style Rat) (cs : List (Style Rat)) (inp : LayoutInput Rat) :
    prefixProg (scale k style) (cs.map (scale k)) (scale k inp) = scaleProg k (prefixProg style cs inp) := by
  unfold prefixProg
  apply bind_scale_of
  · exact baseProg_scale hk style cs inp
  · intro items
    rw [prelimConsts_scale hk, prelimAvail_scale hk, collectFlexLines_scale hk]
    exact mainStage_scale hk style _ _ _

theorem computePreliminary_scale (hk : 0 < k) (style : Style Rat) (cs : List (Style Rat)) (inp : LayoutInput Rat) :
    computePreliminary (scale k style) (cs.map (scale k)) (scale k inp) =
      scaleProg k (computePreliminary style cs inp) := by
  rw [computePreliminary_split, computePreliminary_split, prelimAvail_scale hk]
  apply bind_scale_of
  · exact prefixProg_scale hk style cs inp
  · intro r
    exact afterMain_scale hk cs inp _ r

/-! ### compute_flexbox_layout -/

/-- the input `compute_flexbox_layout` hands to `compute_preliminary` -/
def flexInput (style : Style Rat) (inp : LayoutInput Rat) : LayoutInput Rat :=
  { inp with knownDimensions := FlexModel.styledBasedKnownDimensions style inp }

theorem flexInput_scale (hk : 0 < k) (style : Style Rat) (inp : LayoutInput Rat) :
    flexInput (scale k style) (scale k inp) = scale k (flexInput style inp) := by
  unfold flexInput
  rw [flexStyledBasedKnownDimensions_scale hk]
  rfl

/-- `compute_flexbox_layout` is the short-circuit or `compute_preliminary` on `flexInput`, on both sides alike -/
theorem computeFlexboxLayout_cases (hk : 0 < k) (style : Style Rat) (cs : List (Style Rat)) (inp : LayoutInput Rat) :
    (∃ w h : Rat, computeFlexboxLayout style cs inp = pure (LayoutOutput.fromOuterSize ⟨w, h⟩) ∧
      computeFlexboxLayout (scale k style) (cs.map (scale k)) (scale k inp) =
        pure (LayoutOutput.fromOuterSize ⟨scale k w, scale k h⟩)) ∨
    (computeFlexboxLayout style cs inp = computePreliminary style cs (flexInput style inp) ∧
      computeFlexboxLayout (scale k style) (cs.map (scale k)) (scale k inp) =
        computePreliminary (scale k style) (cs.map (scale k)) (flexInput (scale k style) (scale k inp))) := by
  unfold computeFlexboxLayout flexInput
  dsimp only
  rw [flexStyledBasedKnownDimensions_scale hk, li_runMode]
  generalize FlexModel.styledBasedKnownDimensions style inp = kd
  obtain ⟨w, h⟩ := kd
  cases inp.runMode <;> cases w <;> cases h <;>
    first
      | exact Or.inr ⟨rfl, rfl⟩
      | exact Or.inl ⟨_, _, rfl, rfl⟩

/-- **computeFlexboxLayout_scale**: the whole flexbox program is homogeneous -/
theorem computeFlexboxLayout_scale (hk : 0 < k) (style : Style Rat) (cs : List (Style Rat)) (inp : LayoutInput Rat) :
    computeFlexboxLayout (scale k style) (cs.map (scale k)) (scale k inp) =
      scaleProg k (computeFlexboxLayout style cs inp) := by
  rcases computeFlexboxLayout_cases hk style cs inp with ⟨w, h', h1, h2⟩ | ⟨h1, h2⟩
  · rw [h1, h2, LayoutOutput.fromOuterSize_scale_mk]
    rfl
  · rw [h1, h2, flexInput_scale hk]
    exact computePreliminary_scale hk style cs _

end C04
