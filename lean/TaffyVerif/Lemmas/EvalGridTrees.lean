/-
  The grid algorithm as the evaluator's `Algs.grid` (`GridModel.gridAlg`, Model/GridEval.lean), and tree classes for the
  evaluator with ALL algorithms concrete (leaf, block, flexbox, grid):
    * `Fan b`      (at most `b` children per node outside `display:none` subtrees) → `C16.AlgsCallsAtMost (11·b)` for the
                   bounded stand-ins, which agree with the concrete algorithms on such trees;
    * `GridCalm`   (no grid container outside `display:none` subtrees ever panics) → `EvalMemo.PLCovers` for the stand-in
                   that equals `gridAlg` wherever it cannot panic.
-/
import TaffyVerif.Lemmas.EvalGridFlags
import TaffyVerif.Lemmas.EvalFlexTrees

set_option linter.unusedSectionVars false
set_option linter.unusedVariables false

namespace EvalGrid
open Eval EvalMemo Gen.Facts EvalBlock EvalFlex GridModel
variable {α : Type} [Num α] [FlexLine.NumX α] [GridTracks.NumCast α]

/-- the concrete grid algorithm -/
abbrev gridAlg : CAlg α := GridModel.gridAlg

theorem map_base_ofStyle (cs : List (Style α)) : (cs.map GridChildStyle.ofStyle).map (·.base) = cs := by
  simp only [List.map_map]
  exact List.map_id' _

theorem AgreeG_of_AgreeH : ∀ (xs ys : List (Style α)), C05.AgreeH xs ys →
    AgreeG (xs.map GridChildStyle.ofStyle) (ys.map GridChildStyle.ofStyle)
  | [], [], _ => trivial
  | [], _ :: _, h => by simp only [C05.AgreeH] at h
  | _ :: _, [], h => by simp only [C05.AgreeH] at h
  | x :: xs, y :: ys, h => by
    simp only [C05.AgreeH] at h
    refine ⟨?_, AgreeG_of_AgreeH xs ys h.2⟩
    rcases h.1 with e | ⟨hx, hy⟩
    · exact Or.inl (by rw [e])
    · exact Or.inr ⟨(isHidden_iff x).2 hx, (isHidden_iff y).2 hy⟩

theorem PHZ_gridAlg (style : Style α) (cs : List (Style α)) (inp : LayoutInput α) : C05.PHZ cs (gridAlg style cs inp) := by
  have := PHZ_computeGridLayout (GridStyle.ofStyle style) (cs.map GridChildStyle.ofStyle) inp
  rwa [map_base_ofStyle] at this

theorem gridAlg_agree (style : Style α) (xs ys : List (Style α)) (inp : LayoutInput α) (h : C05.AgreeH xs ys) :
    gridAlg style xs inp = gridAlg style ys inp :=
  computeGridLayout_agree _ _ _ inp (AgreeG_of_AgreeH xs ys h)

theorem callsLe_gridAlg (style : Style α) (cs : List (Style α)) (inp : LayoutInput α) :
    C16.callsLe (11 * cs.length) (gridAlg style cs inp) := by
  have := callsLe_computeGridLayout (GridStyle.ofStyle style) (cs.map GridChildStyle.ofStyle) inp
  rwa [List.length_map] at this

/-- the grid container with these child styles never panics, whatever its input and whatever its children answer -/
def GridNoPanic (style : Style α) (cs : List (Style α)) : Prop :=
  ∀ inp : LayoutInput α, NoPanic (computeGridLayoutE (GridStyle.ofStyle style) (cs.map GridChildStyle.ofStyle) inp)

theorem gridAlg_covers (style : Style α) (cs : List (Style α)) (inp : LayoutInput α)
    (hm : inp.runMode = .performLayout)
    (hnp : NoPanic (computeGridLayoutE (GridStyle.ofStyle style) (cs.map GridChildStyle.ofStyle) inp)) :
    Covers cs.length (fun _ => false) (fun _ => false) (gridAlg style cs inp) := by
  have := grid_covers_of_noPanic (GridStyle.ofStyle style) (cs.map GridChildStyle.ofStyle) inp hm hnp
  rwa [List.length_map] at this

/-! ### bounded fan-out: `AlgsCallsAtMost` -/

/-- the grid algorithm on child lists of length ≤ `b`, idle beyond -/
def boundedGrid (b : Nat) : CAlg α :=
  fun style cs inp => if cs.length ≤ b then gridAlg style cs inp else .pure LayoutOutput.hidden

/-- concrete leaf, bounded block, bounded flexbox, bounded grid -/
def algsFanG (b : Nat) : Algs α where
  leaf := EvalConcrete.leafAlg
  block := boundedBlock b
  flex := boundedFlex b
  grid := boundedGrid b

theorem algsFanG_callsAtMost (b : Nat) : C16.AlgsCallsAtMost (11 * b) (algsFanG b : Algs α) := by
  intro style cs inp
  refine ⟨?_, ?_, ?_⟩
  · show C16.callsLe (11 * b) (boundedBlock b style cs inp)
    unfold boundedBlock
    split
    · exact C16.callsLe_mono _ _ _ (by omega) (callsLe_computeBlockLayout style cs inp)
    · trivial
  · show C16.callsLe (11 * b) (boundedFlex b style cs inp)
    unfold boundedFlex
    split
    · exact C16.callsLe_mono _ _ _ (by omega) (callsLe_computeFlexboxLayout style cs inp)
    · trivial
  · show C16.callsLe (11 * b) (boundedGrid b style cs inp)
    unfold boundedGrid
    split
    · exact C16.callsLe_mono _ _ _ (by omega) (callsLe_gridAlg style cs inp)
    · trivial

mutual
/-- **Fan b**: outside `display:none` subtrees every node has at most `b` children (any `display`) -/
def Fan (b : Nat) : STree α → Prop
  | .node s _ kids => s.display = .none ∨ (kids.length ≤ b ∧ FanList b kids)
def FanList (b : Nat) : List (STree α) → Prop
  | [] => True
  | t :: ts => Fan b t ∧ FanList b ts
end

mutual
theorem Fan_agree (b : Nat) (sel : Display → Bool → Option Callee) (hsel : DocSel sel) :
    ∀ t : STree α, Fan b t → AgreeOn sel (EvalConcrete.algs flexAlg gridAlg) (algsFanG b) t
  | .node s ctx kids, h => by
    simp only [Fan] at h
    simp only [AgreeOn]
    rcases h with hd | ⟨hl, hks⟩
    · refine ⟨fun inp => ?_, fun _ => rfl, fun hn => ?_⟩
      · rw [bodyOf_doc sel hsel, bodyOf_doc sel hsel, hd]
      · rw [hsel, hd] at hn
        exact absurd rfl hn
    · refine ⟨fun inp => ?_, fun _ => rfl, fun _ => FanList_agree b sel hsel kids hks⟩
      rw [bodyOf_doc sel hsel, bodyOf_doc sel hsel]
      cases kids with
      | nil => cases s.display <;> rfl
      | cons k ks =>
        have hl' : ((k :: ks).map STree.style).length ≤ b := by simpa using hl
        cases s.display with
        | none => rfl
        | block => simp only [EvalConcrete.algs, algsFanG, boundedBlock, hl', if_true]
        | flex => simp only [EvalConcrete.algs, algsFanG, boundedFlex, hl', if_true]
        | grid => simp only [EvalConcrete.algs, algsFanG, boundedGrid, hl', if_true]
theorem FanList_agree (b : Nat) (sel : Display → Bool → Option Callee) (hsel : DocSel sel) :
    ∀ ts : List (STree α), FanList b ts → AgreeOnList sel (EvalConcrete.algs flexAlg gridAlg) (algsFanG b) ts
  | [], _ => trivial
  | t :: ts, h => ⟨Fan_agree b sel hsel t h.1, FanList_agree b sel hsel ts h.2⟩
end

/-! ### `PLCovers`: grid containers that do not panic -/

open Classical in
/-- the grid algorithm wherever it cannot panic (for this style, these child styles, this input); a covering stand-in
elsewhere -/
noncomputable def gridCov : CAlg α :=
  fun style cs inp =>
    if NoPanic (computeGridLayoutE (GridStyle.ofStyle style) (cs.map GridChildStyle.ofStyle) inp) then
      gridAlg style cs inp
    else coverAlg style cs inp

theorem gridCov_covers (style : Style α) (cs : List (Style α)) (inp : LayoutInput α)
    (hm : inp.runMode = .performLayout) :
    Covers cs.length (fun _ => false) (fun _ => false) (gridCov style cs inp) := by
  unfold gridCov
  split
  · rename_i h
    exact gridAlg_covers style cs inp hm h
  · exact coverAlg_covers style cs inp

/-- concrete leaf, block, flexbox; grid wherever it does not panic -/
noncomputable def algsCovG : Algs α := EvalConcrete.algs flexAlg gridCov

theorem algsCovG_PLCovers : PLCovers (algsCovG : Algs α) :=
  fun style cs inp hm => ⟨block_covers style cs inp hm, flex_covers style cs inp hm, gridCov_covers style cs inp hm⟩

mutual
/-- **GridCalm**: no grid container with children outside `display:none` subtrees can panic (the Rust: checked
arithmetic on grid coordinates in a debug build, the `assert!`s of `into_track_vec_index`, slice indexing) -/
def GridCalm : STree α → Prop
  | .node s _ kids =>
    s.display = .none ∨
      ((s.display = .grid → kids ≠ [] → GridNoPanic s (kids.map STree.style)) ∧ GridCalmList kids)
def GridCalmList : List (STree α) → Prop
  | [] => True
  | t :: ts => GridCalm t ∧ GridCalmList ts
end

mutual
theorem GridCalm_agree (sel : Display → Bool → Option Callee) (hsel : DocSel sel) :
    ∀ t : STree α, GridCalm t → AgreeOn sel (EvalConcrete.algs flexAlg gridAlg) (algsCovG) t
  | .node s ctx kids, h => by
    simp only [GridCalm] at h
    simp only [AgreeOn]
    rcases h with hd | ⟨hg, hks⟩
    · refine ⟨fun inp => ?_, fun _ => rfl, fun hn => ?_⟩
      · rw [bodyOf_doc sel hsel, bodyOf_doc sel hsel, hd]
      · rw [hsel, hd] at hn
        exact absurd rfl hn
    · refine ⟨fun inp => ?_, fun _ => rfl, fun _ => GridCalmList_agree sel hsel kids hks⟩
      rw [bodyOf_doc sel hsel, bodyOf_doc sel hsel]
      cases kids with
      | nil => cases s.display <;> rfl
      | cons k ks =>
        cases hd : s.display with
        | none => rfl
        | block => rfl
        | flex => rfl
        | grid =>
          have := hg hd (by simp) inp
          simp only [EvalConcrete.algs, algsCovG, gridCov, this, if_true]
theorem GridCalmList_agree (sel : Display → Bool → Option Callee) (hsel : DocSel sel) :
    ∀ ts : List (STree α), GridCalmList ts → AgreeOnList sel (EvalConcrete.algs flexAlg gridAlg) (algsCovG) ts
  | [], _ => trivial
  | t :: ts, h => ⟨GridCalm_agree sel hsel t h.1, GridCalmList_agree sel hsel ts h.2⟩
end

mutual
/-- a `NoGrid` tree is `GridCalm` -/
theorem NoGrid_GridCalm : ∀ t : STree α, NoGrid t → GridCalm t
  | .node s ctx kids, h => by
    simp only [NoGrid] at h
    simp only [GridCalm]
    rcases h with h | ⟨h, hk⟩
    · exact Or.inl h
    · refine Or.inr ⟨fun hg hne => ?_, NoGridList_GridCalmList kids hk⟩
      rcases h with h | h | h
      · exact absurd h hne
      · rw [hg] at h; cases h
      · rw [hg] at h; cases h
theorem NoGridList_GridCalmList : ∀ ts : List (STree α), NoGridList ts → GridCalmList ts
  | [], _ => trivial
  | t :: ts, h => ⟨NoGrid_GridCalm t h.1, NoGridList_GridCalmList ts h.2⟩
end

/-- every tree of the history (the start tree and the tree after each edit) is `GridCalm` -/
def GridCalmHist : STree α → List (Step α) → Prop
  | t, [] => GridCalm t
  | t, st :: rest => GridCalm t ∧ GridCalmHist (st.edit.applyTree t) rest

theorem GridCalmHist_agree (sel : Display → Bool → Option Callee) (hsel : DocSel sel) :
    ∀ (h : List (Step α)) (t : STree α), GridCalmHist t h →
      AgreeHist sel (EvalConcrete.algs flexAlg gridAlg) (algsCovG) t h
  | [], t, hb => GridCalm_agree sel hsel t hb
  | st :: rest, t, hb => ⟨GridCalm_agree sel hsel t hb.1, GridCalmHist_agree sel hsel rest _ hb.2⟩

end EvalGrid
