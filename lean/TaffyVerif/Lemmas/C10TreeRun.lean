/-
  C10, tree-level theorem — part 9: running the block program under the evaluator's interpreter `Eval.runProg`
  (children = recursive evaluation, state = the children's state trees).  The closure evaluating a child is abstract
  (`EvalChild`: its output is a pure function `ans`, it touches only the addressed child, and a `Good` call followed by
  `set_unrounded_layout` of a layout of the reported width leaves the child `OK`).  Phase by phase (`run_flowLoop`,
  `run_absLoop`, frame lemmas for the hidden loop) to **`run_block_PL`**: after a `PerformLayout` run of
  `compute_block_layout`, every in-flow child carries the layout the pure walk assigns to it and is `OK`, every
  absolutely positioned child is `OK`.
-/
import TaffyVerif.Lemmas.C10TreeOut

set_option linter.unusedSectionVars false

namespace C10Thm
open MarginCollapse BlockModel C10Tree C10Conv EvalMemo EvalBlock Eval

abbrev St := NS Rat Unit
abbrev EC := Nat → LayoutInput Rat → List St → LayoutOutput Rat × List St

theorem runProg_bind {β γ : Type} (ec : EC) (p : ProgM Rat β) (f : β → ProgM Rat γ) : ∀ ks : List St,
    Eval.runProg ec (p >>= f) ks = Eval.runProg ec (f (Eval.runProg ec p ks).1) (Eval.runProg ec p ks).2 := by
  rw [EvalBlock.bind_eq]
  induction p with
  | pure b => intro ks; rfl
  | call i inp k ih => intro ks; simp only [ProgM.bind, Eval.runProg]; exact ih _ _
  | setLayout i l k ih => intro ks; simp only [ProgM.bind, Eval.runProg]; exact ih _ _

theorem setLayoutAt_ne (ks : List St) (i j : Nat) (l : Layout Rat) (h : j ≠ i) :
    (setLayoutAt ks i l)[j]? = ks[j]? := by
  unfold setLayoutAt
  cases hk : ks[i]? with
  | none => rfl
  | some k =>
    cases k with
    | mk c l0 nk =>
      simp only
      rw [List.getElem?_set_ne (Ne.symm h)]

def relayout (l : Layout Rat) : St → St
  | .mk c _ nk => .mk c l nk

theorem setLayoutAt_eq (ks : List St) (i : Nat) (l : Layout Rat) (k : St) (h : ks[i]? = some k) :
    (setLayoutAt ks i l)[i]? = some (relayout l k) := by
  unfold setLayoutAt
  rw [h]
  cases k with
  | mk c l0 nk =>
    simp only [relayout]
    have hlt : i < ks.length := by
      rcases Nat.lt_or_ge i ks.length with h' | h'
      · exact h'
      · simp [List.getElem?_eq_none h'] at h
    simp [List.getElem?_set_self hlt]

/-- what the phase lemmas need from the closure that evaluates a child -/
structure EvalChild (K : List (STree Rat)) (ec : EC) (ans : Nat → LayoutInput Rat → LayoutOutput Rat)
    (Good : Nat → LayoutInput Rat → Prop) (OK : Nat → St → Prop) : Prop where
  out : ∀ i inp ks, ShapeList K ks → (ec i inp ks).1 = ans i inp
  shape : ∀ i inp ks, ShapeList K ks → ShapeList K (ec i inp ks).2
  frame : ∀ i inp ks j, j ≠ i → (ec i inp ks).2[j]? = ks[j]?
  ok : ∀ i inp ks l, ShapeList K ks → Good i inp → l.size.width = (ans i inp).size.width →
    ∃ k', (setLayoutAt (ec i inp ks).2 i l)[i]? = some k' ∧ k'.layout = l ∧ OK i k'

section
variable {K : List (STree Rat)} {ec : EC} {ans : Nat → LayoutInput Rat → LayoutOutput Rat}
  {Good : Nat → LayoutInput Rat → Prop} {OK : Nat → St → Prop} (hE : EvalChild K ec ans Good OK)
include hE

theorem run_interp {β : Type} (p : ProgM Rat β) : ∀ ks, ShapeList K ks →
    (Eval.runProg ec p ks).1 = interp ans p ∧ ShapeList K (Eval.runProg ec p ks).2 := by
  induction p with
  | pure b => intro ks h; exact ⟨rfl, h⟩
  | call i inp k ih =>
    intro ks h
    simp only [Eval.runProg, interp]
    rw [hE.out i inp ks h]
    exact ih _ _ (hE.shape i inp ks h)
  | setLayout i l k ih =>
    intro ks h
    simp only [Eval.runProg, interp]
    exact ih _ _ (EvalMemo.ShapeList_setLayoutAt K ks i l h)

/-- all children the program addresses (along every path) satisfy `A` -/
def Addr {β : Type} (A : Nat → Prop) : ProgM Rat β → Prop
  | .pure _ => True
  | .call i _ k => A i ∧ ∀ o, Addr A (k o)
  | .setLayout i _ k => A i ∧ Addr A (k ())

omit hE in
theorem Addr_bind {β γ : Type} (A : Nat → Prop) (p : ProgM Rat β) (f : β → ProgM Rat γ)
    (hp : Addr A p) (hf : ∀ b, Addr A (f b)) : Addr A (p >>= f) := by
  rw [EvalBlock.bind_eq]
  induction p with
  | pure b => exact hf b
  | call i inp k ih => exact ⟨hp.1, fun o => ih o (hp.2 o)⟩
  | setLayout i l k ih => exact ⟨hp.1, ih () hp.2⟩

theorem run_frame {β : Type} (A : Nat → Prop) (p : ProgM Rat β) (hp : Addr A p) : ∀ (ks : List St) (j : Nat),
    ¬ A j → (Eval.runProg ec p ks).2[j]? = ks[j]? := by
  induction p with
  | pure b => intro ks j _; rfl
  | call i inp k ih =>
    intro ks j hj
    simp only [Eval.runProg]
    rw [ih _ (hp.2 _) _ j hj]
    exact hE.frame i inp ks j (fun e => hj (e ▸ hp.1))
  | setLayout i l k ih =>
    intro ks j hj
    simp only [Eval.runProg]
    rw [ih _ hp.2 _ j hj]
    exact setLayoutAt_ne ks i j l (fun e => hj (e ▸ hp.1))


/-- the final-pass query of every in-flow child of the list is `Good` -/
def GoodFlow (Good : Nat → LayoutInput Rat → Prop) (c : FlowCtx Rat) (inner : Size (Option Rat)) :
    Nat → List (Style Rat) → Prop
  | _, [] => True
  | idx, s :: rest =>
    (s.isHidden = false → (s.position == Position.absolute) = false →
      ∀ o, Good idx (itemInput c (generateItem idx o s inner))) ∧ GoodFlow Good c inner (idx + 1) rest

omit hE in
theorem walk_sets_ge (c : FlowCtx Rat) (inner : Size (Option Rat)) (ans : Nat → LayoutInput Rat → LayoutOutput Rat) :
    ∀ (cs : List (Style Rat)) (idx order : Nat) (st : FlowState Rat) (j : Nat) (l : Layout Rat),
      (j, l) ∈ (walk c inner ans cs idx order st).2.2 → idx ≤ j := by
  intro cs
  induction cs with
  | nil => intro idx order st j l h; simp [walk] at h
  | cons s rest ih =>
    intro idx order st j l h
    by_cases hh : s.isHidden = true
    · simp only [walk, hh, if_true] at h
      have := ih _ _ _ _ _ h; omega
    · have hh' : s.isHidden = false := by simpa using hh
      by_cases hab : (s.position == Position.absolute) = true
      · simp only [walk, hh', hab, Bool.false_eq_true, if_false, if_true] at h
        have := ih _ _ _ _ _ h; omega
      · have hab' : (s.position == Position.absolute) = false := by simpa using hab
        simp only [walk, hh', hab', Bool.false_eq_true, if_false, List.mem_cons, Prod.mk.injEq] at h
        rcases h with h | h
        · omega
        · have := ih _ _ _ _ _ h; omega

theorem run_flowLoop (c : FlowCtx Rat) (inner : Size (Option Rat)) :
    ∀ (cs : List (Style Rat)) (idx order : Nat) (st : FlowState Rat) (ks : List St),
      ShapeList K ks → GoodFlow Good c inner idx cs →
      (Eval.runProg ec (flowLoop c (generateItemsFrom inner cs idx order) st) ks).1
        = ((walk c inner ans cs idx order st).1, (walk c inner ans cs idx order st).2.1) ∧
      ShapeList K (Eval.runProg ec (flowLoop c (generateItemsFrom inner cs idx order) st) ks).2 ∧
      (∀ j, j < idx → (Eval.runProg ec (flowLoop c (generateItemsFrom inner cs idx order) st) ks).2[j]? = ks[j]?) ∧
      (∀ j l, (j, l) ∈ (walk c inner ans cs idx order st).2.2 →
        ∃ k', (Eval.runProg ec (flowLoop c (generateItemsFrom inner cs idx order) st) ks).2[j]? = some k' ∧
          k'.layout = l ∧ OK j k') := by
  intro cs
  induction cs with
  | nil =>
    intro idx order st ks hs _
    exact ⟨rfl, hs, fun _ _ => rfl, fun j l h => by simp [walk] at h⟩
  | cons s rest ih =>
    intro idx order st ks hs hg
    simp only [GoodFlow] at hg
    by_cases hh : s.isHidden = true
    · simp only [generateItemsFrom, walk, hh, if_true]
      obtain ⟨i1, i2, i3, i4⟩ := ih (idx + 1) order st ks hs hg.2
      exact ⟨i1, i2, fun j hj => i3 j (by omega), i4⟩
    · have hh' : s.isHidden = false := by simpa using hh
      simp only [generateItemsFrom, hh', Bool.false_eq_true, if_false]
      by_cases hab : (s.position == Position.absolute) = true
      · have hp : (generateItem idx order s inner).position = .absolute := by
          have : (generateItem idx order s inner).position = s.position := rfl
          rw [this]; cases hs' : s.position with
          | absolute => rfl
          | relative => rw [hs'] at hab; exact absurd hab (by decide)
        obtain ⟨i1, i2, i3, i4⟩ := ih (idx + 1) (order + 1) st ks hs hg.2
        rw [flowLoop_cons_abs c _ _ st hp, runProg_bind]
        simp only [walk, hh', hab, Bool.false_eq_true, if_false, if_true, Eval.runProg, i1]
        exact ⟨trivial, i2, fun j hj => i3 j (by omega), i4⟩
      · have hab' : (s.position == Position.absolute) = false := by simpa using hab
        have hp : (generateItem idx order s inner).position ≠ .absolute := by
          have : (generateItem idx order s inner).position = s.position := rfl
          rw [this]; intro hs'; rw [hs'] at hab'; exact absurd hab' (by decide)
        rw [flowLoop_cons_flow c _ _ st hp]
        have hidx : (generateItem idx order s inner).nodeIdx = idx := rfl
        simp only [Eval.runProg, walk, hh', hab', Bool.false_eq_true, if_false, hidx]
        have hout := hE.out idx (itemInput c (generateItem idx order s inner)) ks hs
        have hshape := hE.shape idx (itemInput c (generateItem idx order s inner)) ks hs
        rw [hout]
        generalize hO : ans idx (itemInput c (generateItem idx order s inner)) = out at *
        have hgood := hg.1 hh' hab' order
        obtain ⟨k', hk1, hk2, hk3⟩ := hE.ok idx _ ks (placeItem c st (generateItem idx order s inner) out).layout hs hgood
          (by rw [hO]; rfl)
        have hs1 := EvalMemo.ShapeList_setLayoutAt K _ idx
          (placeItem c st (generateItem idx order s inner) out).layout hshape
        obtain ⟨i1, i2, i3, i4⟩ := ih (idx + 1) (order + 1) (placeItem c st (generateItem idx order s inner) out).st _
          hs1 hg.2
        rw [runProg_bind]
        simp only [Eval.runProg, i1]
        refine ⟨trivial, i2, ?_, ?_⟩
        · intro j hj
          rw [i3 j (by omega), setLayoutAt_ne _ _ _ _ (by omega), hE.frame _ _ _ _ (by omega)]
        · intro j l hmem
          simp only [List.mem_cons, Prod.mk.injEq] at hmem
          rcases hmem with ⟨rfl, rfl⟩ | hmem
          · rw [i3 j (by omega)]
            exact ⟨k', hk1, hk2, hk3⟩
          · exact i4 j l hmem


omit hE in
/-- one absolutely positioned item: one `perform_child_layout` (content sizing, margins not collapsible), then
`set_unrounded_layout` of a layout whose width is the child's width clamped by the item's min / max width -/
theorem absItem_shape' (item : BlockItem Rat) (cs : Style Rat) (a : Size Rat) (o : Point Rat) (acc : Size Rat) :
    ∃ (inp : LayoutInput Rat) (lay : LayoutOutput Rat → Layout Rat) (res : LayoutOutput Rat → Size Rat),
      inp.runMode = .performLayout ∧ inp.verticalMarginsAreCollapsible = ⟨false, false⟩ ∧
      (∀ out, (lay out).size.width = MaybeMath.fo_clamp (inp.knownDimensions.width.getD out.size.width)
        ((((resolveStyleSize cs.minSize ⟨some a.width, some a.height⟩ cs.aspectRatio
            (boxSizingAdjustment cs ((Resolve.rectLPOrZero cs.padding (some a.width)).add
              (Resolve.rectLPOrZero cs.border (some a.width))).sumAxes)).orOpt
          ⟨some ((Resolve.rectLPOrZero cs.padding (some a.width)).add
              (Resolve.rectLPOrZero cs.border (some a.width))).sumAxes.width,
           some ((Resolve.rectLPOrZero cs.padding (some a.width)).add
              (Resolve.rectLPOrZero cs.border (some a.width))).sumAxes.height⟩).of_max
          ((Resolve.rectLPOrZero cs.padding (some a.width)).add
              (Resolve.rectLPOrZero cs.border (some a.width))).sumAxes).width)
        (resolveStyleSize cs.maxSize ⟨some a.width, some a.height⟩ cs.aspectRatio
            (boxSizingAdjustment cs ((Resolve.rectLPOrZero cs.padding (some a.width)).add
              (Resolve.rectLPOrZero cs.border (some a.width))).sumAxes)).width) ∧
      absItem item cs a o acc =
        .call item.nodeIdx inp fun out => .setLayout item.nodeIdx (lay out) fun _ => .pure (res out) :=
  ⟨_, _, _, rfl, rfl, fun _ => rfl, rfl⟩


omit hE in
theorem absClamp_px (cs : Style Rat) (hp : Px cs) (ctx : Size (Option Rat)) (aw : Option Rat) (x : Rat) :
    MaybeMath.fo_clamp x
      ((((resolveStyleSize cs.minSize ctx cs.aspectRatio
          (boxSizingAdjustment cs ((Resolve.rectLPOrZero cs.padding aw).add (Resolve.rectLPOrZero cs.border aw)).sumAxes)).orOpt
        ⟨some ((Resolve.rectLPOrZero cs.padding aw).add (Resolve.rectLPOrZero cs.border aw)).sumAxes.width,
         some ((Resolve.rectLPOrZero cs.padding aw).add (Resolve.rectLPOrZero cs.border aw)).sumAxes.height⟩).of_max
        ((Resolve.rectLPOrZero cs.padding aw).add (Resolve.rectLPOrZero cs.border aw)).sumAxes).width)
      (resolveStyleSize cs.maxSize ctx cs.aspectRatio
          (boxSizingAdjustment cs ((Resolve.rectLPOrZero cs.padding aw).add (Resolve.rectLPOrZero cs.border aw)).sumAxes)).width
      = max x (pbW cs) := by
  have e2 := resolveStyleSize_px cs.minSize (by rw [hp.minW]; rfl) hp.minH ctx cs hp
  have e3 := resolveStyleSize_px cs.maxSize (by rw [hp.maxW]; rfl) (by rw [hp.maxH]; rfl) ctx cs hp
  simp only [e2, e3, pbSize_px cs hp, hp.minW, hp.maxW, dimO_auto, Size.orOpt, Size.of_max, MaybeMath.of_max,
    Option.none_or, Option.map_some, MaybeMath.fo_clamp, rat_fmax, max_self]

/-- what the abs pass needs to know about an absolutely positioned child -/
structure AbsOK (Good : Nat → LayoutInput Rat → Prop) (ans : Nat → LayoutInput Rat → LayoutOutput Rat) (i : Nat)
    (cs : Style Rat) : Prop where
  px : Px cs
  good : ∀ inp : LayoutInput Rat, inp.runMode = .performLayout →
    inp.verticalMarginsAreCollapsible = ⟨false, false⟩ → Good i inp
  wide : ∀ inp : LayoutInput Rat, inp.runMode = .performLayout →
    (∀ kw, inp.knownDimensions.width = some kw → (ans i inp).size.width = max kw (pbW cs)) ∧
    pbW cs ≤ (ans i inp).size.width

theorem run_absLoop (styleOf : Nat → Option (Style Rat)) (a : Size Rat) (o : Point Rat)
    (habs : ∀ i cs, styleOf i = some cs → cs.isHidden = false → cs.position = .absolute → AbsOK Good ans i cs) :
    ∀ (items : List (BlockItem Rat)) (acc : Size Rat) (ks : List St), ShapeList K ks →
      ShapeList K (Eval.runProg ec (absLoop styleOf a o items acc) ks).2 ∧
      (∀ j, (∃ k', ks[j]? = some k' ∧ OK j k') →
        ∃ k', (Eval.runProg ec (absLoop styleOf a o items acc) ks).2[j]? = some k' ∧ OK j k') ∧
      (∀ it ∈ items, ∀ cs, absTaken styleOf it = some cs →
        ∃ k', (Eval.runProg ec (absLoop styleOf a o items acc) ks).2[it.nodeIdx]? = some k' ∧ OK it.nodeIdx k') := by
  intro items
  induction items with
  | nil =>
    intro acc ks hs
    exact ⟨hs, fun j h => h, fun it hit => by simp at hit⟩
  | cons item rest ih =>
    intro acc ks hs
    cases ht : absTaken styleOf item with
    | none =>
      rw [absLoop_cons_skip _ a o item rest acc ht]
      obtain ⟨i1, i2, i3⟩ := ih acc ks hs
      refine ⟨i1, i2, ?_⟩
      intro it hit cs hcs
      rcases List.mem_cons.1 hit with rfl | hit
      · rw [ht] at hcs; cases hcs
      · exact i3 it hit cs hcs
    | some cs =>
      rw [absLoop_cons_take _ a o item rest acc cs ht]
      obtain ⟨_, hso, hvis, hpos⟩ := absTaken_some _ item cs ht
      have hok := habs item.nodeIdx cs hso hvis hpos
      obtain ⟨inp, lay, res, hm, hv, hw, he⟩ := absItem_shape' item cs a o acc
      rw [he, runProg_bind]
      simp only [Eval.runProg]
      have hout := hE.out item.nodeIdx inp ks hs
      have hshape := hE.shape item.nodeIdx inp ks hs
      have hwid : (lay (ec item.nodeIdx inp ks).1).size.width = (ans item.nodeIdx inp).size.width := by
        rw [hw, absClamp_px cs hok.px, hout]
        obtain ⟨w1, w2⟩ := hok.wide inp hm
        cases hk : inp.knownDimensions.width with
        | none => simp only [Option.getD_none]; exact max_eq_left w2
        | some kw =>
          simp only [Option.getD_some]
          rw [w1 kw hk]
      obtain ⟨k', hk1, _, hk3⟩ := hE.ok item.nodeIdx inp ks (lay (ec item.nodeIdx inp ks).1) hs
        (hok.good inp hm hv) hwid
      have hs1 := EvalMemo.ShapeList_setLayoutAt K _ item.nodeIdx (lay (ec item.nodeIdx inp ks).1) hshape
      obtain ⟨i1, i2, i3⟩ := ih (res (ec item.nodeIdx inp ks).1) _ hs1
      have hpres : ∀ j, (∃ k', ks[j]? = some k' ∧ OK j k') →
          ∃ k', (setLayoutAt (ec item.nodeIdx inp ks).2 item.nodeIdx (lay (ec item.nodeIdx inp ks).1))[j]? = some k'
            ∧ OK j k' := by
        intro j hj
        by_cases hji : j = item.nodeIdx
        · subst hji; exact ⟨k', hk1, hk3⟩
        · rw [setLayoutAt_ne _ _ _ _ hji, hE.frame _ _ _ _ hji]; exact hj
      refine ⟨i1, fun j hj => i2 j (hpres j hj), ?_⟩
      intro it hit cs' hcs'
      rcases List.mem_cons.1 hit with rfl | hit
      · exact i2 _ ⟨k', hk1, hk3⟩
      · exact i3 it hit cs' hcs'


omit hE in
theorem Addr_absLoop (styleOf : Nat → Option (Style Rat)) (a : Size Rat) (o : Point Rat) :
    ∀ (items : List (BlockItem Rat)) (acc : Size Rat),
      Addr (fun i => ∃ cs, styleOf i = some cs ∧ cs.isHidden = false ∧ cs.position = .absolute)
        (absLoop styleOf a o items acc) := by
  intro items
  induction items with
  | nil => intro acc; trivial
  | cons item rest ih =>
    intro acc
    cases ht : absTaken styleOf item with
    | none => rw [absLoop_cons_skip _ a o item rest acc ht]; exact ih acc
    | some cs =>
      rw [absLoop_cons_take _ a o item rest acc cs ht]
      obtain ⟨_, hso, hvis, hpos⟩ := absTaken_some _ item cs ht
      obtain ⟨inp, lay, res, _, he⟩ := absItem_shape item cs a o acc
      rw [he]
      refine Addr_bind _ _ _ ?_ (fun b => ih b)
      exact ⟨⟨cs, hso, hvis, hpos⟩, fun _ => ⟨⟨cs, hso, hvis, hpos⟩, trivial⟩⟩

omit hE in
theorem Addr_hiddenLoop (cs : List (Style Rat)) : ∀ (l : List (Style Rat)) (order : Nat),
    (∀ j s, l[j]? = some s → cs[order + j]? = some s) →
    Addr (fun i => ∃ s, cs[i]? = some s ∧ s.isHidden = true) (hiddenLoop l order) := by
  intro l
  induction l with
  | nil => intro order _; trivial
  | cons s rest ih =>
    intro order h
    have hrest : ∀ j s', rest[j]? = some s' → cs[order + 1 + j]? = some s' := by
      intro j s' hj
      have := h (j + 1) s' (by simpa using hj)
      have e : order + 1 + j = order + (j + 1) := by omega
      rw [e]; exact this
    by_cases hh : s.isHidden = true
    · rw [hiddenLoop_cons_hidden s rest order hh]
      have h0 := h 0 s rfl
      exact ⟨⟨s, h0, hh⟩, fun _ => ⟨⟨s, h0, hh⟩, ih (order + 1) hrest⟩⟩
    · rw [hiddenLoop_cons_visible s rest order (by simpa using hh)]
      exact ih (order + 1) hrest

omit hE in
theorem walk_sets_style (c : FlowCtx Rat) (inner : Size (Option Rat)) (ans : Nat → LayoutInput Rat → LayoutOutput Rat) :
    ∀ (cs : List (Style Rat)) (idx order : Nat) (st : FlowState Rat) (j : Nat) (l : Layout Rat),
      (j, l) ∈ (walk c inner ans cs idx order st).2.2 →
      ∃ s, cs[j - idx]? = some s ∧ idx ≤ j ∧ s.isHidden = false ∧ (s.position == Position.absolute) = false := by
  intro cs
  induction cs with
  | nil => intro idx order st j l h; simp [walk] at h
  | cons s rest ih =>
    intro idx order st j l h
    have step : ∀ order' st', (j, l) ∈ (walk c inner ans rest (idx + 1) order' st').2.2 →
        ∃ s', (s :: rest)[j - idx]? = some s' ∧ idx ≤ j ∧ s'.isHidden = false ∧
          (s'.position == Position.absolute) = false := by
      intro order' st' h'
      obtain ⟨s', h1, h2, h3, h4⟩ := ih _ _ _ _ _ h'
      refine ⟨s', ?_, by omega, h3, h4⟩
      have e : j - idx = (j - (idx + 1)) + 1 := by omega
      rw [e, List.getElem?_cons_succ]; exact h1
    by_cases hh : s.isHidden = true
    · simp only [walk, hh, if_true] at h
      exact step _ _ h
    · have hh' : s.isHidden = false := by simpa using hh
      by_cases hab : (s.position == Position.absolute) = true
      · simp only [walk, hh', hab, Bool.false_eq_true, if_false, if_true] at h
        exact step _ _ h
      · have hab' : (s.position == Position.absolute) = false := by simpa using hab
        simp only [walk, hh', hab', Bool.false_eq_true, if_false, List.mem_cons, Prod.mk.injEq] at h
        rcases h with ⟨rfl, _⟩ | h
        · exact ⟨s, by simp, Nat.le_refl _, hh', hab'⟩
        · exact step _ _ h

omit hE in
/-- the walk keeps an item for every child that generates a box, with the child's index and position -/
theorem walk_items_complete (c : FlowCtx Rat) (inner : Size (Option Rat))
    (ans : Nat → LayoutInput Rat → LayoutOutput Rat) :
    ∀ (cs : List (Style Rat)) (idx order : Nat) (st : FlowState Rat) (i : Nat) (s : Style Rat),
      cs[i]? = some s → s.isHidden = false →
      ∃ it ∈ (walk c inner ans cs idx order st).1, it.nodeIdx = idx + i ∧ it.position = s.position := by
  intro cs
  induction cs with
  | nil => intro idx order st i s h; simp at h
  | cons a rest ih =>
    intro idx order st i s h hs
    cases i with
    | zero =>
      simp only [List.getElem?_cons_zero, Option.some.injEq] at h
      subst h
      by_cases hab : (a.position == Position.absolute) = true
      · simp only [walk, hs, hab, Bool.false_eq_true, if_false, if_true]
        exact ⟨_, List.mem_cons_self, rfl, rfl⟩
      · have hab' : (a.position == Position.absolute) = false := by simpa using hab
        simp only [walk, hs, hab', Bool.false_eq_true, if_false]
        exact ⟨_, List.mem_cons_self, rfl, rfl⟩
    | succ i =>
      simp only [List.getElem?_cons_succ] at h
      by_cases hh : a.isHidden = true
      · simp only [walk, hh, if_true]
        obtain ⟨it, h1, h2, h3⟩ := ih (idx + 1) order st i s h hs
        exact ⟨it, h1, by omega, h3⟩
      · have hh' : a.isHidden = false := by simpa using hh
        by_cases hab : (a.position == Position.absolute) = true
        · simp only [walk, hh', hab, Bool.false_eq_true, if_false, if_true]
          obtain ⟨it, h1, h2, h3⟩ := ih (idx + 1) (order + 1) st i s h hs
          exact ⟨it, List.mem_cons_of_mem _ h1, by omega, h3⟩
        · have hab' : (a.position == Position.absolute) = false := by simpa using hab
          simp only [walk, hh', hab', Bool.false_eq_true, if_false]
          obtain ⟨it, h1, h2, h3⟩ := ih (idx + 1) (order + 1) _ i s h hs
          exact ⟨it, List.mem_cons_of_mem _ h1, by omega, h3⟩


/-- **the final state** of a `PerformLayout` run of `compute_block_layout` under the evaluator: every in-flow child
carries the layout the pure walk assigns to it and is `OK`; every absolutely positioned child that generates a box is
`OK`; the shape is kept -/
theorem run_block_PL (s : Style Rat) (inp : LayoutInput Rat) (hm : inp.runMode = .performLayout) (ks : List St)
    (hs : ShapeList K ks)
    (hflow : ∀ c inner, GoodFlow Good c inner 0 (K.map STree.style))
    (habs : ∀ i cs, (K.map STree.style)[i]? = some cs → cs.isHidden = false → cs.position = .absolute →
      AbsOK Good ans i cs) :
    let w := blockW ans s (K.map STree.style) inp
    let ic := innerCtx s (innerInputs s inp)
    let c := flowCtxOf s ic w
    let r := walk c ic.containerContentBoxSize ans (K.map STree.style) 0 0 c.initState
    let R := Eval.runProg ec (computeBlockLayout s (K.map STree.style) inp) ks
    R.1 = interp ans (computeBlockLayout s (K.map STree.style) inp) ∧
    ShapeList K R.2 ∧
    (∀ j l, (j, l) ∈ r.2.2 → ∃ k', R.2[j]? = some k' ∧ k'.layout = l ∧ OK j k') ∧
    (∀ j cs, (K.map STree.style)[j]? = some cs → cs.isHidden = false → cs.position = .absolute →
      ∃ k', R.2[j]? = some k' ∧ OK j k') := by
  intro w ic c r R
  obtain ⟨o1, o2⟩ := run_interp hE (computeBlockLayout s (K.map STree.style) inp) ks hs
  refine ⟨o1, o2, ?_⟩
  -- cut the program into its phases
  have hm' : (innerInputs s inp).runMode = .performLayout := hm
  have hnot : ((innerInputs s inp).runMode == RunMode.computeSize) = false := by rw [hm']; rfl
  have hR : R = Eval.runProg ec (computeBlockLayout s (K.map STree.style) inp) ks := rfl
  rw [computeBlockLayout_PL s _ inp hm, computeInner_eq, runProg_bind] at hR
  obtain ⟨p1, p2⟩ := run_interp hE (containerWidthProg ic (generateItemList (K.map STree.style) ic.containerContentBoxSize)
    (innerInputs s inp)) ks hs
  have hw : (Eval.runProg ec (containerWidthProg ic (generateItemList (K.map STree.style) ic.containerContentBoxSize)
    (innerInputs s inp)) ks).1 = w := p1
  rw [hw] at hR
  generalize hks1 : (Eval.runProg ec (containerWidthProg ic (generateItemList (K.map STree.style)
    ic.containerContentBoxSize) (innerInputs s inp)) ks).2 = ks1 at hR p2
  have hafter : innerAfterWidth s (K.map STree.style) (innerInputs s inp) w =
      (performFinalLayoutOnInFlowChildren c (generateItemList (K.map STree.style) ic.containerContentBoxSize)
        >>= innerTail s (K.map STree.style) (innerInputs s inp) w) := by
    unfold innerAfterWidth
    simp only [hm']
    rfl
  rw [hafter, runProg_bind, performFinal_eq, runProg_bind, generateItemList] at hR
  obtain ⟨f1, f2, _, f4⟩ := run_flowLoop hE c ic.containerContentBoxSize (K.map STree.style) 0 0 c.initState ks1 p2
    (hflow c ic.containerContentBoxSize)
  rw [f1] at hR
  generalize hks2 : (Eval.runProg ec (flowLoop c (generateItemsFrom ic.containerContentBoxSize (K.map STree.style) 0 0)
    c.initState) ks1).2 = ks2 at hR f2 f4
  simp only [Eval.runProg] at hR
  unfold innerTail at hR
  simp only [hnot, Bool.false_eq_true, if_false] at hR
  rw [runProg_bind, runProg_bind] at hR
  simp only [Eval.runProg] at hR
  generalize hA : (finalOuterSize (innerCtx s (innerInputs s inp)) (innerInputs s inp) w
      ((walk c ic.containerContentBoxSize ans (List.map STree.style K) 0 0 c.initState).1,
        flowResult c (walk c ic.containerContentBoxSize ans (List.map STree.style K) 0 0 c.initState).2.1)).sub
      ((Resolve.rectLPOrZero s.border (some w)).add (innerCtx s (innerInputs s inp)).scrollbarGutter).sumAxes = area at hR
  generalize hO : (Point.mk
      ((Resolve.rectLPOrZero s.border (some w)).add (innerCtx s (innerInputs s inp)).scrollbarGutter).left
      ((Resolve.rectLPOrZero s.border (some w)).add (innerCtx s (innerInputs s inp)).scrollbarGutter).top : Point Rat)
      = off at hR
  obtain ⟨a1, a2, a3⟩ := run_absLoop hE (fun i => (K.map STree.style)[i]?) area off habs
    (walk c ic.containerContentBoxSize ans (K.map STree.style) 0 0 c.initState).1 Size.zero ks2 f2
  have hframe3 := run_frame hE _ _ (Addr_absLoop (fun i => (K.map STree.style)[i]?) area off
    (walk c ic.containerContentBoxSize ans (K.map STree.style) 0 0 c.initState).1 Size.zero) ks2
  generalize hks3 : (Eval.runProg ec (absLoop (fun i => (K.map STree.style)[i]?) area off
    (walk c ic.containerContentBoxSize ans (K.map STree.style) 0 0 c.initState).1 Size.zero) ks2).2 = ks3
    at hR a1 a2 a3 hframe3
  have hframe4 := run_frame hE _ _ (Addr_hiddenLoop (K.map STree.style) (K.map STree.style) 0
    (fun j s' hj => by rw [Nat.zero_add]; exact hj)) ks3
  have hR2 : R.2 = (Eval.runProg ec (hiddenLoop (K.map STree.style) 0) ks3).2 := by rw [hR]
  rw [hR2]
  constructor
  · intro j l hjl
    obtain ⟨k', hk1, hk2, hk3⟩ := f4 j l hjl
    obtain ⟨s', hs1, _, hs3, hs4⟩ := walk_sets_style c ic.containerContentBoxSize ans _ 0 0 c.initState j l hjl
    simp only [Nat.sub_zero] at hs1
    refine ⟨k', ?_, hk2, hk3⟩
    rw [hframe4 j, hframe3 j, hk1]
    · rintro ⟨cs, hcs, _, hpos⟩
      rw [hs1] at hcs; cases hcs
      rw [hpos] at hs4; exact absurd hs4 (by decide)
    · rintro ⟨cs, hcs, hhid⟩
      rw [hs1] at hcs; cases hcs
      rw [hs3] at hhid; cases hhid
  · intro j cs hj hvis hpos
    obtain ⟨it, hit, hidx, hitpos⟩ := walk_items_complete c ic.containerContentBoxSize ans (K.map STree.style) 0 0
      c.initState j cs hj hvis
    rw [Nat.zero_add] at hidx
    have htaken : absTaken (fun i => (K.map STree.style)[i]?) it = some cs := by
      unfold absTaken
      rw [hitpos, hpos, if_pos rfl, hidx]
      simp only [hj, hvis, pos_bne, hpos, ne_eq, not_true_eq_false, decide_false, Bool.or_self, Bool.false_eq_true,
        if_false]
    obtain ⟨k', hk1, hk2⟩ := a3 it hit cs htaken
    rw [hidx] at hk1 hk2
    refine ⟨k', ?_, hk2⟩
    rw [hframe4 j, hk1]
    rintro ⟨cs', hcs', hhid⟩
    rw [hj] at hcs'; cases hcs'
    rw [hvis] at hhid; cases hhid

end
end C10Thm
