/-
  Helper lemmas for Props/C11.lean (ℚ instance of the abs-pos model).
-/
import Mathlib.Tactic.Linarith
import Mathlib.Tactic.Ring
import TaffyVerif.Model.AbsPosSpec

namespace AbsPosLemmas
open AbsPos MaybeMath

/-! ### ℚ arithmetic of the `Num` helpers -/

theorem fmax_eq (a b : Rat) : Num.fmax a b = max a b := by
  show (if a ≤ b then b else a) = max a b
  rw [max_def]

theorem fmin_eq (a b : Rat) : Num.fmin a b = min a b := by
  show (if a ≤ b then a else b) = min a b
  rw [min_def]

theorem fo_clamp_idem (x : Rat) (mn mx : Option Rat) : fo_clamp (fo_clamp x mn mx) mn mx = fo_clamp x mn mx := by
  cases mn <;> cases mx <;> simp only [fo_clamp, fmax_eq, fmin_eq]
  · simp
  · rename_i mn; simp
  · rename_i mn mx
    rcases le_total (min x mx) mn with h | h
    · rw [max_eq_right h]
      rcases le_total mn mx with h2 | h2
      · rw [min_eq_left h2, max_self]
      · rw [min_eq_right h2, max_eq_right h2]
    · rw [max_eq_left h, min_eq_left (min_le_right _ _), max_eq_left h]

theorem oo_clamp_some (x : Rat) (mn mx : Option Rat) : oo_clamp (some x) mn mx = some (fo_clamp x mn mx) := by
  cases mn <;> cases mx <;> rfl

theorem oo_clamp_none (mn mx : Option Rat) : oo_clamp (none : Option Rat) mn mx = none := by
  cases mn <;> cases mx <;> rfl


theorem min_floor_lemma (x : Option Rat) (pb : Rat) : ∃ m, of_max (x.or (some pb)) pb = some m ∧ pb ≤ m := by
  cases x with
  | none => exact ⟨max pb pb, by simp [of_max, fmax_eq], le_max_right _ _⟩
  | some v => exact ⟨max v pb, by simp [of_max, fmax_eq], le_max_right _ _⟩

theorem countF_one : (countF 1 : Rat) = 1 := by
  show ((1 : Nat) : Rat) = 1
  norm_num

theorem countF_two : (countF 2 : Rat) = 2 := by
  show ((2 : Nat) : Rat) = 2
  norm_num

theorem two_eq : (Num.two : Rat) = 2 := by
  show (1 : Rat) + 1 = 2
  norm_num

/-! ### block copy, stage by stage (`r` is any resolution record, `fs`/`rm` any final size / margins) -/

section block
variable (a : BlockArgs Rat) (r : BlockResolved Rat) (fs : Size Rat) (rm : Rect Rat)

theorem blockLocation_x_start {l : Rat} (h : r.left = some l) :
    (blockLocation a r fs rm).x = l + rm.left + a.areaOffset.x := by
  simp [blockLocation, h, of_add]

theorem blockLocation_y_start {l : Rat} (h : r.top = some l) :
    (blockLocation a r fs rm).y = l + rm.top + a.areaOffset.y := by
  simp [blockLocation, h, of_add]

theorem blockLocation_x_end {e : Rat} (h : r.left = none) (h2 : r.right = some e) :
    (blockLocation a r fs rm).x = a.areaSize.width - fs.width - e - rm.right + a.areaOffset.x := by
  simp [blockLocation, h, h2, of_add]

theorem blockLocation_y_end {e : Rat} (h : r.top = none) (h2 : r.bottom = some e) :
    (blockLocation a r fs rm).y = a.areaSize.height - fs.height - e - rm.bottom + a.areaOffset.y := by
  simp [blockLocation, h, h2, of_add]

/-- margins that are not auto are reported as resolved -/
theorem blockResolvedMargin_left {m : Rat} (h : r.margin.left = some m) : (blockResolvedMargin a r fs).left = m := by
  simp [blockResolvedMargin, h]
theorem blockResolvedMargin_right {m : Rat} (h : r.margin.right = some m) : (blockResolvedMargin a r fs).right = m := by
  simp [blockResolvedMargin, h]
theorem blockResolvedMargin_top {m : Rat} (h : r.margin.top = some m) : (blockResolvedMargin a r fs).top = m := by
  simp [blockResolvedMargin, h]
theorem blockResolvedMargin_bottom {m : Rat} (h : r.margin.bottom = some m) : (blockResolvedMargin a r fs).bottom = m := by
  simp [blockResolvedMargin, h]


/-! single auto margin -/

theorem blockResolvedMargin_left_auto {l e me : Rat} (hl : r.left = some l) (he : r.right = some e)
    (hms : r.margin.left = none) (hme : r.margin.right = some me) :
    (blockResolvedMargin a r fs).left = a.areaSize.width - e - l - fs.width - (0 + me) := by
  simp [blockResolvedMargin, blockAutoMarginSize, autoCount, hl, he, hms, hme, countF_one, Rect.horizontalAxisSum]

theorem blockResolvedMargin_right_auto {l e ms : Rat} (hl : r.left = some l) (he : r.right = some e)
    (hms : r.margin.left = some ms) (hme : r.margin.right = none) :
    (blockResolvedMargin a r fs).right = a.areaSize.width - e - l - fs.width - (ms + 0) := by
  simp [blockResolvedMargin, blockAutoMarginSize, autoCount, hl, he, hms, hme, countF_one, Rect.horizontalAxisSum]

theorem blockResolvedMargin_top_auto {l e me : Rat} (hl : r.top = some l) (he : r.bottom = some e)
    (hms : r.margin.top = none) (hme : r.margin.bottom = some me) :
    (blockResolvedMargin a r fs).top = a.areaSize.height - e - l - fs.height - (0 + me) := by
  simp [blockResolvedMargin, blockAutoMarginSize, autoCount, hl, he, hms, hme, countF_one, Rect.verticalAxisSum]

theorem blockResolvedMargin_bottom_auto {l e ms : Rat} (hl : r.top = some l) (he : r.bottom = some e)
    (hms : r.margin.top = some ms) (hme : r.margin.bottom = none) :
    (blockResolvedMargin a r fs).bottom = a.areaSize.height - e - l - fs.height - (ms + 0) := by
  simp [blockResolvedMargin, blockAutoMarginSize, autoCount, hl, he, hms, hme, countF_one, Rect.verticalAxisSum]

/-! two auto margins: what block.rs really does -/

theorem blockResolvedMargin_x_two_auto {l e sz : Rat} (hl : r.left = some l) (he : r.right = some e)
    (hms : r.margin.left = none) (hme : r.margin.right = none) (hsz : r.styleSize.width = some sz) :
    let free := a.areaSize.width - e - l - fs.width - (0 + 0)
    (blockResolvedMargin a r fs).left = (if free ≤ sz then 0 else free / 2) ∧
    (blockResolvedMargin a r fs).right = (if free ≤ sz then 0 else free / 2) := by
  simp [blockResolvedMargin, blockAutoMarginSize, autoCount, hl, he, hms, hme, hsz, countF_two, Rect.horizontalAxisSum,
    Num.fge, Num.fle]

theorem blockResolvedMargin_y_two_auto {l e sz : Rat} (hl : r.top = some l) (he : r.bottom = some e)
    (hms : r.margin.top = none) (hme : r.margin.bottom = none) (hsz : r.styleSize.height = some sz) :
    let free := a.areaSize.height - e - l - fs.height - (0 + 0)
    (blockResolvedMargin a r fs).top = (if free ≤ sz then 0 else free / 2) ∧
    (blockResolvedMargin a r fs).bottom = (if free ≤ sz then 0 else free / 2) := by
  simp [blockResolvedMargin, blockAutoMarginSize, autoCount, hl, he, hms, hme, hsz, countF_two, Rect.verticalAxisSum,
    Num.fge, Num.fle]

/-! stretch: the known width when the style's width is auto and both insets are set -/

theorem size_apply_aspect_none (s : Size (Option Rat)) : Size.maybeApplyAspectRatio s none = s := rfl

theorem blockFillWidth_stretch {l e ml mr : Rat} (kd : Size (Option Rat)) (hk : kd.width = none)
    (hl : r.left = some l) (he : r.right = some e) (hml : r.margin.left = some ml) (hmr : r.margin.right = some mr) :
    (blockFillWidth a r none kd).width =
      some (fo_clamp (max (a.areaSize.width - ml - mr - l - e) 0) r.minSize.width r.maxSize.width) := by
  simp [blockFillWidth, hk, hl, he, hml, hmr, fo_sub, size_apply_aspect_none, Size.oo_clamp, oo_clamp_some, fmax_eq]

theorem blockFillWidth_height (kd : Size (Option Rat)) (hk : kd.height = none) :
    (blockFillWidth a r none kd).height = none := by
  unfold blockFillWidth
  split
  · simp [size_apply_aspect_none, Size.oo_clamp, hk, oo_clamp_none]
  · exact hk

theorem blockFillHeight_stretch {l e ml mr : Rat} (kd : Size (Option Rat)) (hk : kd.height = none)
    (hl : r.top = some l) (he : r.bottom = some e) (hml : r.margin.top = some ml) (hmr : r.margin.bottom = some mr) :
    (blockFillHeight a r none kd).height =
      some (fo_clamp (max (a.areaSize.height - ml - mr - l - e) 0) r.minSize.height r.maxSize.height) := by
  simp [blockFillHeight, hk, hl, he, hml, hmr, fo_sub, size_apply_aspect_none, Size.oo_clamp, oo_clamp_some, fmax_eq]

/-- the height stage leaves an already clamped width alone -/
theorem blockFillHeight_width {x : Rat} (kd : Size (Option Rat))
    (hk : kd.width = some (fo_clamp x r.minSize.width r.maxSize.width)) :
    (blockFillHeight a r none kd).width = some (fo_clamp x r.minSize.width r.maxSize.width) := by
  unfold blockFillHeight
  split
  · simp [size_apply_aspect_none, Size.oo_clamp, hk, oo_clamp_some, fo_clamp_idem]
  · exact hk

theorem blockFinalSize_width {x : Rat} (kd : Size (Option Rat)) (m : Size Rat)
    (hk : kd.width = some (fo_clamp x r.minSize.width r.maxSize.width)) :
    (blockFinalSize r kd m).width = fo_clamp x r.minSize.width r.maxSize.width := by
  simp [blockFinalSize, Size.fo_clamp, Size.unwrapOr, hk, fo_clamp_idem]

theorem blockFinalSize_height {x : Rat} (kd : Size (Option Rat)) (m : Size Rat)
    (hk : kd.height = some (fo_clamp x r.minSize.height r.maxSize.height)) :
    (blockFinalSize r kd m).height = fo_clamp x r.minSize.height r.maxSize.height := by
  simp [blockFinalSize, Size.fo_clamp, Size.unwrapOr, hk, fo_clamp_idem]

end block


/-! ### flex copy -/

section flex
variable (a : FlexArgs Rat) (r : FlexResolved Rat) (fs : Size Rat) (rm : Rect Rat)

theorem flexLocation_x_start {l : Rat} (h : r.left = some l) :
    (flexLocation a r fs rm).x = l + a.border.left + rm.left := by
  unfold flexLocation
  cases hrow : a.dir.isRow <;>
    simp [flexOffsetMain, flexOffsetCross, Dir.mainStart, Dir.crossStart, hrow, h]

theorem flexLocation_y_start {t : Rat} (h : r.top = some t) :
    (flexLocation a r fs rm).y = t + a.border.top + rm.top := by
  unfold flexLocation
  cases hrow : a.dir.isRow <;>
    simp [flexOffsetMain, flexOffsetCross, Dir.mainStart, Dir.crossStart, hrow, h]

theorem flexLocation_x_end {e : Rat} (h : r.left = none) (h2 : r.right = some e) :
    (flexLocation a r fs rm).x =
      a.containerSize.width - a.border.right - a.scrollbarGutter.x - fs.width - e - rm.right := by
  unfold flexLocation
  cases hrow : a.dir.isRow <;>
    simp [flexOffsetMain, flexOffsetCross, Dir.mainEnd, Dir.crossEnd, Dir.pMain, Dir.pCross, Size.main, Size.cross,
      hrow, h, h2]

theorem flexLocation_y_end {e : Rat} (h : r.top = none) (h2 : r.bottom = some e) :
    (flexLocation a r fs rm).y =
      a.containerSize.height - a.border.bottom - a.scrollbarGutter.y - fs.height - e - rm.bottom := by
  unfold flexLocation
  cases hrow : a.dir.isRow <;>
    simp [flexOffsetMain, flexOffsetCross, Dir.mainEnd, Dir.crossEnd, Dir.pMain, Dir.pCross, Size.main, Size.cross,
      hrow, h, h2]

theorem flexResolvedMargin_left {m : Rat} (h : r.margin.left = some m) : (flexResolvedMargin a r fs).left = m := by
  simp [flexResolvedMargin, h]
theorem flexResolvedMargin_right {m : Rat} (h : r.margin.right = some m) : (flexResolvedMargin a r fs).right = m := by
  simp [flexResolvedMargin, h]
theorem flexResolvedMargin_top {m : Rat} (h : r.margin.top = some m) : (flexResolvedMargin a r fs).top = m := by
  simp [flexResolvedMargin, h]
theorem flexResolvedMargin_bottom {m : Rat} (h : r.margin.bottom = some m) : (flexResolvedMargin a r fs).bottom = m := by
  simp [flexResolvedMargin, h]

theorem flexFillWidth_stretch {l e ml mr : Rat} (kd : Size (Option Rat)) (hk : kd.width = none)
    (hl : r.left = some l) (he : r.right = some e) (hml : r.margin.left = some ml) (hmr : r.margin.right = some mr) :
    (flexFillWidth a r none kd).width =
      some (fo_clamp (max ((flexInsetRelativeSize a).width - ml - mr - l - e) 0) r.minSize.width r.maxSize.width) := by
  simp [flexFillWidth, hk, hl, he, hml, hmr, fo_sub, size_apply_aspect_none, Size.oo_clamp, oo_clamp_some, fmax_eq]

theorem flexFillWidth_height (kd : Size (Option Rat)) (hk : kd.height = none) :
    (flexFillWidth a r none kd).height = none := by
  unfold flexFillWidth
  split
  · simp [size_apply_aspect_none, Size.oo_clamp, hk, oo_clamp_none]
  · exact hk

theorem flexFillHeight_stretch {l e ml mr : Rat} (kd : Size (Option Rat)) (hk : kd.height = none)
    (hl : r.top = some l) (he : r.bottom = some e) (hml : r.margin.top = some ml) (hmr : r.margin.bottom = some mr) :
    (flexFillHeight a r none kd).height =
      some (fo_clamp (max ((flexInsetRelativeSize a).height - ml - mr - l - e) 0) r.minSize.height r.maxSize.height) := by
  simp [flexFillHeight, hk, hl, he, hml, hmr, fo_sub, size_apply_aspect_none, Size.oo_clamp, oo_clamp_some, fmax_eq]

theorem flexFillHeight_width {x : Rat} (kd : Size (Option Rat))
    (hk : kd.width = some (fo_clamp x r.minSize.width r.maxSize.width)) :
    (flexFillHeight a r none kd).width = some (fo_clamp x r.minSize.width r.maxSize.width) := by
  unfold flexFillHeight
  split
  · simp [size_apply_aspect_none, Size.oo_clamp, hk, oo_clamp_some, fo_clamp_idem]
  · exact hk

theorem flexFinalSize_width {x : Rat} (kd : Size (Option Rat)) (m : Size Rat)
    (hk : kd.width = some (fo_clamp x r.minSize.width r.maxSize.width)) :
    (flexFinalSize r kd m).width = fo_clamp x r.minSize.width r.maxSize.width := by
  simp [flexFinalSize, Size.fo_clamp, Size.unwrapOr, hk, fo_clamp_idem]

theorem flexFinalSize_height {x : Rat} (kd : Size (Option Rat)) (m : Size Rat)
    (hk : kd.height = some (fo_clamp x r.minSize.height r.maxSize.height)) :
    (flexFinalSize r kd m).height = fo_clamp x r.minSize.height r.maxSize.height := by
  simp [flexFinalSize, Size.fo_clamp, Size.unwrapOr, hk, fo_clamp_idem]

end flex

/-! ### grid copy -/

section grid

theorem pos_aa : (Position.absolute == Position.absolute) = true := rfl
theorem pos_ar : (Position.absolute == Position.relative) = false := rfl
theorem pos_naa : (Position.absolute != Position.absolute) = false := rfl

/-- `align_item_within_area` for an absolutely positioned item with a start inset and non-auto margins -/
theorem alignItemWithinArea_start (area : Line Rat) (al : AlignItems) (size : Rat) (inset : Line (Option Rat))
    (margin : Line (Option Rat)) (shim s ms me : Rat) (hs : inset.start = some s) (hms : margin.start = some ms)
    (hme : margin.«end» = some me) :
    alignItemWithinArea area al size .absolute inset margin shim = (area.start + (s + (ms + shim)), ⟨ms + shim, me⟩) := by
  simp [alignItemWithinArea, hs, hms, hme, pos_aa, pos_ar]

/-- … with the start inset auto and the end inset set -/
theorem alignItemWithinArea_end (area : Line Rat) (al : AlignItems) (size : Rat) (inset : Line (Option Rat))
    (margin : Line (Option Rat)) (shim e ms me : Rat) (hs : inset.start = none) (he : inset.«end» = some e)
    (hms : margin.start = some ms) (hme : margin.«end» = some me) :
    alignItemWithinArea area al size .absolute inset margin shim =
      (area.start + (max (area.«end» - area.start) 0 - e - size - me), ⟨ms + shim, me⟩) := by
  simp [alignItemWithinArea, hs, he, hms, hme, fmax_eq, pos_aa, pos_ar]

variable (r : GridResolved Rat)

theorem gridKnown_width_stretch {l e : Rat} (hi : r.inherentSize.width = none) (hl : r.insetH.start = some l)
    (he : r.insetH.«end» = some e) :
    (gridKnown r .absolute none).width =
      some (fo_clamp (max (r.areaMinusMargins.width - l - e) 0) r.minSize.width r.maxSize.width) := by
  simp [gridKnown, gridWidth, hi, hl, he, size_apply_aspect_none, Size.oo_clamp, oo_clamp_some, fmax_eq, pos_aa]

theorem gridKnown_height_stretch {t b : Rat} (hi : r.inherentSize.height = none) (ht : r.insetV.start = some t)
    (hb : r.insetV.«end» = some b) :
    (gridKnown r .absolute none).height =
      some (fo_clamp (max (r.areaMinusMargins.height - t - b) 0) r.minSize.height r.maxSize.height) := by
  simp [gridKnown, gridHeight, hi, ht, hb, size_apply_aspect_none, Size.oo_clamp, oo_clamp_some, fmax_eq, pos_aa]

theorem gridFinalSize_width {x : Rat} (kd : Size (Option Rat)) (m : Size Rat)
    (hk : kd.width = some (fo_clamp x r.minSize.width r.maxSize.width)) :
    (gridFinalSize r kd m).width = fo_clamp x r.minSize.width r.maxSize.width := by
  simp [gridFinalSize, Size.fo_clamp, Size.unwrapOr, hk, fo_clamp_idem]

theorem gridFinalSize_height {x : Rat} (kd : Size (Option Rat)) (m : Size Rat)
    (hk : kd.height = some (fo_clamp x r.minSize.height r.maxSize.height)) :
    (gridFinalSize r kd m).height = fo_clamp x r.minSize.height r.maxSize.height := by
  simp [gridFinalSize, Size.fo_clamp, Size.unwrapOr, hk, fo_clamp_idem]

end grid


/-! ### the monitor's decidable predicates (Model/AbsPosSpec.lean) follow from the equations -/

section spec
open Spec

theorem lpa_auto_of_maybeResolve_none {x : LPA Rat} {w : Rat} (h : x.maybeResolve (some w) = none) : x = .auto := by
  cases x <;> simp [LPA.maybeResolve] at h ⊢

theorem lpa_auto_of_resolveToOption_none {x : LPA Rat} {w : Rat} (h : x.resolveToOption w = none) : x = .auto := by
  cases x <;> simp [LPA.resolveToOption] at h ⊢

theorem of_add_none {x : Option Rat} {b : Rat} (h : of_add x b = none) : x = none := by
  cases x <;> simp [of_add] at h ⊢

theorem close_zero_of_eq {a b : Rat} (h : a = b) : close 0 a b = true := by
  subst h
  simp [close, Num.fle, Num.abs]

theorem startOk_of (f : AxisFacts Rat) (o : AxisObs Rat)
    (h : ∀ s ms me, f.insetStart = some s → f.mStart = some ms → f.mEnd = some me → o.loc - o.mStart = f.extStart + s) :
    startOk 0 f o = true := by
  unfold startOk
  split
  · next s ms me h1 h2 h3 => exact close_zero_of_eq (h s ms me h1 h2 h3)
  · rfl

theorem endOk_of (g : Bool) (f : AxisFacts Rat) (o : AxisObs Rat)
    (h : ∀ e ms me, f.insetStart = none → f.insetEnd = some e → f.mStart = some ms → f.mEnd = some me →
      (g = true → f.extStart ≤ f.extEnd) → f.extEnd - e = o.loc + o.size + o.mEnd) :
    endOk g 0 f o = true := by
  unfold endOk
  split
  · next e ms me h0 h1 h2 h3 =>
    split
    · rfl
    · next hc =>
      refine close_zero_of_eq (h e ms me h0 h1 h2 h3 ?_)
      intro hg
      simp [hg, Num.flt] at hc
      exact hc
  · rfl

theorem stretchOk_of (f : AxisFacts Rat) (o : AxisObs Rat)
    (h : ∀ s e ms me, f.insetStart = some s → f.insetEnd = some e → f.mStart = some ms → f.mEnd = some me →
      f.styleSize = none → f.aspectNone = true →
      o.size = fo_clamp (max (f.extEnd - f.extStart - ms - me - s - e) 0) f.minSize f.maxSize) :
    stretchOk 0 f o = true := by
  unfold stretchOk
  split
  · next s e ms me h1 h2 h3 h4 h5 h6 =>
    rw [fmax_eq]
    exact close_zero_of_eq (h s e ms me h1 h2 h3 h4 h5 h6)
  · rfl

theorem autoMarginOk_of (f : AxisFacts Rat) (o : AxisObs Rat)
    (h1 : ∀ s e me, f.insetStart = some s → f.insetEnd = some e → f.mStart = none → f.mEnd = some me →
      o.mStart = f.extEnd - f.extStart - s - e - o.size - me)
    (h2 : ∀ s e ms, f.insetStart = some s → f.insetEnd = some e → f.mStart = some ms → f.mEnd = none →
      o.mEnd = f.extEnd - f.extStart - s - e - o.size - ms) :
    autoMarginOk 0 f o = true := by
  unfold autoMarginOk
  split
  · next s e me a b c d => exact close_zero_of_eq (h1 s e me a b c d)
  · next s e ms a b c d => exact close_zero_of_eq (h2 s e ms a b c d)
  · rfl

theorem splitPartialOk_of (f : AxisFacts Rat) (o : AxisObs Rat)
    (h : ∀ s e sz, f.insetStart = some s → f.insetEnd = some e → f.mStart = none → f.mEnd = none → f.styleSize = some sz →
      let free := f.extEnd - f.extStart - s - e - o.size
      o.mStart = (if free ≤ sz then 0 else free / 2) ∧ o.mEnd = (if free ≤ sz then 0 else free / 2)) :
    splitPartialOk 0 f o = true := by
  unfold splitPartialOk
  split
  · next s e sz a b c d g =>
    obtain ⟨k1, k2⟩ := h s e sz a b c d g
    simp only [Num.flt, two_eq]
    split
    · next hlt =>
      have hlt' : ¬ (f.extEnd - f.extStart - s - e - o.size ≤ sz) := by
        simp at hlt; intro hh; linarith
      simp only [hlt', if_false] at k1 k2
      simp [close_zero_of_eq k1, close_zero_of_eq k2]
    · next hge =>
      have hge' : f.extEnd - f.extStart - s - e - o.size ≤ sz := by
        simp at hge; linarith
      simp only [hge', if_true] at k1 k2
      simp [close_zero_of_eq k1, close_zero_of_eq k2]
  · rfl

end spec

end AbsPosLemmas
