/-
  The `ItemBatcher` loop, `resolve_intrinsic_track_sizes` and `expand_flexible_tracks` as interaction programs
  (Model/GridSizing.lean) against their pure counterparts (Model/FrSize.lean).
-/
import TaffyVerif.Lemmas.GridLiftSteps

set_option linter.unusedSectionVars false
set_option linter.unusedVariables false

namespace GridLift
open GridModel GridTracks EvalGrid EvalBlock
variable {α : Type} [Num α]

/-! ### well-formed items -/

/-- the item's track-vector indexes in axis `ax` are even, and the number of tracks between them is its span -/
def ItemOK (ax : Ax) (it : GItem α) : Prop :=
  Even2 ax it ∧ (it.placementIndexes ax).end / 2 - (it.placementIndexes ax).start / 2 = it.span ax

theorem ItemOK.core {ax : Ax} {a b : GItem α} (h : core b = core a) (ha : ItemOK ax a) : ItemOK ax b := by
  unfold ItemOK
  rw [placementIndexes_core ax h, span_core ax h]
  exact ⟨ha.1.core h, ha.2⟩

theorem absI_span (ax : Ax) (w : Option α) (it : GItem α) (h : ItemOK ax it) : (absI ax w it).span = it.span ax := h.2

theorem ExtL.getElem?_rev {ax : Ax} {a b : List (GItem α)} (h : ExtL ax a b) (i : Nat) (y : GItem α)
    (hy : b[i]? = some y) : ∃ x, a[i]? = some x ∧ ExtI ax x y := by
  induction h generalizing i with
  | nil => simp at hy
  | cons e _ ih =>
    cases i with
    | zero => simp at hy; subst hy; exact ⟨_, by simp, e⟩
    | succ j => simpa using ih j (by simpa using hy)

theorem findIdx?_extL {ax : Ax} (p q : GItem α → Bool) {a b : List (GItem α)} (h : ExtL ax a b)
    (hpq : ∀ x y, x ∈ a → ExtI ax x y → p x = q y) : a.findIdx? p = b.findIdx? q := by
  induction h with
  | nil => rfl
  | cons e _ ih =>
    rw [List.findIdx?_cons, List.findIdx?_cons, hpq _ _ List.mem_cons_self e,
      ih fun x y hx => hpq x y (List.mem_cons_of_mem _ hx)]

/-! ### one batch -/

theorem batchStepM_spec (s : Sizer α) (avail : AvailableSpace α) (axisInner : Option α) (ffs : α) (isFlex : Bool)
    (span : Nat) (batch : List (GItem α)) (tracks : List (GridTrack α)) (he : ∀ it ∈ batch, Even2 s.axis it) :
    GPost (fun r => ExtL s.axis batch r.1 ∧ ∀ F, ExtL s.axis r.1 F →
        r.2 = (if (!isFlex && span == 1) = true then
            flushSpanOne ((F.map (absI s.axis s.innerNodeSize.width)).foldl (sizeSpanOneItem avail axisInner) tracks)
          else sizeBatchGeneral avail axisInner isFlex ffs (F.map (absI s.axis s.innerNodeSize.width)) tracks))
      (if (!isFlex && span == 1) = true then do
          let (batch, tracks) ← forItemsM (fun it ts => sizeSpanOneItemM s avail axisInner it ts) batch tracks
          pure (batch, flushSpanOne tracks)
        else sizeBatchGeneralM s avail axisInner isFlex ffs batch tracks) := by
  split
  · refine GPost_bind _ _ _ _ (forItemsM_spec s.axis s.innerNodeSize.width _
      (fun I ts => sizeSpanOneItem avail axisInner ts I)
      (fun it ts hev => sizeSpanOneItemM_spec s avail axisInner it ts hev) batch tracks he) fun ⟨b1, t1⟩ h1 => ?_
    simp only [] at h1 ⊢
    refine GPost_pure _ _ ⟨h1.1, fun F hF => ?_⟩
    rw [h1.2 F hF]
  · exact sizeBatchGeneralM_spec s avail axisInner isFlex ffs batch tracks he

/-! ### the batcher loop -/

theorem batchLoopM_spec (s : Sizer α) (avail : AvailableSpace α) (axisInner : Option α) (ffs : α) :
    ∀ (fuel : Nat) (items : List (GItem α)) (offset : Nat) (tracks : List (GridTrack α)),
      (∀ it ∈ items, ItemOK s.axis it) → LI s.axis items offset →
      GPost (fun r => ExtL s.axis items r.1 ∧ ∀ F, ExtL s.axis r.1 F →
          r.2 = batchLoop fuel avail axisInner ffs (F.map (absI s.axis s.innerNodeSize.width)) offset tracks)
        (batchLoopM s avail axisInner ffs fuel items offset tracks)
  | 0, items, offset, tracks, _, _ => GPost_pure _ _ ⟨ExtL.refl _ _, fun F hF => rfl⟩
  | fuel + 1, items, offset, tracks, hok, hli => by
    unfold batchLoopM
    cases hget : items[offset]? with
    | none =>
      refine GPost_pure _ _ ⟨ExtL.refl _ _, fun F hF => ?_⟩
      unfold batchLoop
      have : (F.map (absI s.axis s.innerNodeSize.width))[offset]? = none := by
        rw [List.getElem?_map, hF.getElem?_none offset hget]; rfl
      rw [this]
    | some item =>
      simp only []
      obtain ⟨hlt, _⟩ := List.getElem?_eq_some_iff.1 hget
      -- the pure side's view of the item at `offset`, for any later state `F` of a list extending `items`
      have pureHead : ∀ F, ExtL s.axis items F →
          ∃ itemF, (F.map (absI s.axis s.innerNodeSize.width))[offset]? =
              some (absI s.axis s.innerNodeSize.width itemF) ∧
            (absI s.axis s.innerNodeSize.width itemF).span = item.span s.axis ∧
            (absI s.axis s.innerNodeSize.width itemF).crossesFlexible = item.crossesFlexibleTrack s.axis := by
        intro F hF
        obtain ⟨y, hy, e⟩ := hF.getElem? offset item hget
        refine ⟨y, by rw [List.getElem?_map, hy]; rfl, ?_, ?_⟩
        · rw [absI_span _ _ _ ((hok item (List.mem_of_getElem? hget)).core e.1), span_core s.axis e.1]
        · exact crossesFlex_core s.axis e.1
      have pureFind : ∀ F, ExtL s.axis items F →
          ((F.map (absI s.axis s.innerNodeSize.width)).findIdx? fun I =>
            I.crossesFlexible || decide (I.span > item.span s.axis)) =
          items.findIdx? fun it => it.crossesFlexibleTrack s.axis || decide (it.span s.axis > item.span s.axis) := by
        intro F hF
        rw [List.findIdx?_map]
        refine (findIdx?_extL _ _ hF fun x y hx e => ?_).symm
        show _ = ((absI s.axis s.innerNodeSize.width y).crossesFlexible ||
          decide ((absI s.axis s.innerNodeSize.width y).span > item.span s.axis))
        rw [absI_span _ _ _ ((hok x hx).core e.1), span_core s.axis e.1]
        show _ = (y.crossesFlexibleTrack s.axis || _)
        rw [crossesFlex_core s.axis e.1]
      cases hF : item.crossesFlexibleTrack s.axis with
      | true =>
        simp only [if_true]
        have e := take_mid_drop items offset items.length (Nat.le_of_lt hlt)
        have hB : ∀ it ∈ (items.drop offset).take (items.length - offset), Even2 s.axis it := fun it hit =>
          (hok it (List.mem_of_mem_drop (List.mem_of_mem_take hit))).1
        refine GPost_bind _ _ _ _ (batchStepM_spec s avail axisInner ffs true (item.span s.axis) _ tracks hB)
          fun ⟨b, t⟩ hb => ?_
        simp only [] at hb ⊢
        have hall : ExtL s.axis items (items.take offset ++ b ++ items.drop items.length) := by
          have := (ExtL.append (ExtL.append (ExtL.refl s.axis (items.take offset)) hb.1)
            (ExtL.refl s.axis (items.drop items.length)))
          rwa [e] at this
        refine GPost_pure _ _ ⟨hall, fun F hFF => ?_⟩
        have hiF := hall.trans hFF
        obtain ⟨itemF, h1, h2, h3⟩ := pureHead F hiF
        unfold batchLoop
        rw [h1]
        simp only [h2, h3, hF, if_true]
        obtain ⟨_, sB, _⟩ := hFF.split3
        have hlenA : (items.take offset).length = offset := by rw [List.length_take]; omega
        have hlenB : b.length = items.length - offset := by
          rw [hb.1.length, List.length_take, List.length_drop]; omega
        rw [hlenA, hlenB] at sB
        have hFlen : F.length = items.length := hiF.length
        rw [hb.2 _ sB, List.length_map, hFlen, List.map_take, List.map_drop]
      | false =>
        simp only [Bool.false_eq_true, if_false]
        generalize hn : (items.findIdx? fun it => it.crossesFlexibleTrack s.axis ||
          decide (it.span s.axis > item.span s.axis)).getD items.length = next
        obtain ⟨n1, n2, n3, n4⟩ := next_facts s.axis items offset item hget hF hli next hn.symm
        have e := take_mid_drop items offset next (Nat.le_of_lt n1)
        have hB : ∀ it ∈ (items.drop offset).take (next - offset), Even2 s.axis it := fun it hit =>
          (hok it (List.mem_of_mem_drop (List.mem_of_mem_take hit))).1
        refine GPost_bind _ _ _ _ (batchStepM_spec s avail axisInner ffs false (item.span s.axis) _ tracks hB)
          fun ⟨b, t⟩ hb => ?_
        simp only [] at hb ⊢
        have hall : ExtL s.axis items (items.take offset ++ b ++ items.drop next) := by
          have := (ExtL.append (ExtL.append (ExtL.refl s.axis (items.take offset)) hb.1)
            (ExtL.refl s.axis (items.drop next)))
          rwa [e] at this
        have hok' : ∀ it ∈ items.take offset ++ b ++ items.drop next, ItemOK s.axis it :=
          hall.forall_core _ (fun x y h hx => hx.core h) hok
        have hli' : LI s.axis (items.take offset ++ b ++ items.drop next) next := by
          intro cur hcur hFc i it hi hit
          obtain ⟨cur0, hc0, ec⟩ := hall.getElem?_rev next cur hcur
          obtain ⟨it0, hi0, ei⟩ := hall.getElem?_rev i it hit
          have a1 := n3 i it0 hi hi0
          have a2 := n4 cur0 hc0 (by rw [← crossesFlex_core s.axis ec.1]; exact hFc)
          rw [crossesFlex_core s.axis ei.1, span_core s.axis ei.1, span_core s.axis ec.1]
          exact ⟨a1.1, by omega⟩
        refine GPost_mono _ _ _ ?_ (batchLoopM_spec s avail axisInner ffs fuel _ next t hok' hli')
        intro r ⟨hr1, hr2⟩
        refine ⟨hall.trans hr1, fun F hFF => ?_⟩
        have hi'F := hr1.trans hFF
        have hiF := hall.trans hi'F
        obtain ⟨itemF, h1, h2, h3⟩ := pureHead F hiF
        unfold batchLoop
        rw [h1]
        simp only [h2, h3, hF, Bool.false_eq_true, if_false]
        rw [pureFind F hiF, List.length_map, hiF.length, hn]
        obtain ⟨_, sB, _⟩ := hi'F.split3
        have hlenA : (items.take offset).length = offset := by rw [List.length_take]; omega
        have hlenB : b.length = next - offset := by
          rw [hb.1.length, List.length_take, List.length_drop]; omega
        rw [hlenA, hlenB] at sB
        rw [hr2 F hFF, hb.2 _ sB, List.map_take, List.map_drop]

end GridLift
