/-
  C04 — the simp set collecting the scaling-equivariance lemmas (`simp only [scale_simp, …]`).
-/
import Lean.Meta.Tactic.Simp.RegisterCommand

/-- equivariance of the layout model's functions under `Scalable.scale` -/
register_simp_attr scale_simp
