/-
  Two choices of algorithms that select the same program / leaf result at every node of a tree give the same evaluator
  on that tree (`eval_agree`) and the same `QuietRun` trace condition (`QuietRun_agree`).  Used to transfer
  evaluator-level theorems whose hypotheses quantify over ALL child-style lists to classes of trees on which the
  concrete block algorithm meets them.
-/
import TaffyVerif.Lemmas.EvalQuiet

set_option linter.unusedSectionVars false

namespace EvalBlock
open Eval EvalMemo Gen.Facts
variable {α : Type} [Num α]

mutual
/-- at every node of the tree that is reached by a non-hidden dispatch, `a1` and `a2` select the same body -/
def AgreeOn (sel : Display → Bool → Option Callee) (a1 a2 : Algs α) : STree α → Prop
  | .node s ctx kids =>
    (∀ inp, bodyOf sel a1 s kids inp = bodyOf sel a2 s kids inp) ∧
    (∀ inp, a1.leaf inp s (measureOf ctx) = a2.leaf inp s (measureOf ctx)) ∧
    (sel s.display (!kids.isEmpty) ≠ some .hidden → AgreeOnList sel a1 a2 kids)
def AgreeOnList (sel : Display → Bool → Option Callee) (a1 a2 : Algs α) : List (STree α) → Prop
  | [] => True
  | t :: ts => AgreeOn sel a1 a2 t ∧ AgreeOnList sel a1 a2 ts
end

theorem AgreeOnList_get (sel : Display → Bool → Option Callee) (a1 a2 : Algs α) :
    ∀ (kids : List (STree α)) (i : Nat) (t : STree α), AgreeOnList sel a1 a2 kids → kids[i]? = some t →
      AgreeOn sel a1 a2 t
  | [], _, _, _, h => by simp at h
  | a :: as, 0, t, hn, h => by
    simp only [List.getElem?_cons_zero, Option.some.injEq] at h
    subst h
    exact hn.1
  | a :: as, i + 1, t, hn, h => by
    simp only [List.getElem?_cons_succ] at h
    exact AgreeOnList_get sel a1 a2 as i t hn.2 h

theorem bodyOf_prog_not_hidden (sel : Display → Bool → Option Callee) (a : Algs α) (s : Style α) (kids : List (STree α))
    (inp : LayoutInput α) (p : ProgM α (LayoutOutput α)) (h : bodyOf sel a s kids inp = .prog p) :
    sel s.display (!kids.isEmpty) ≠ some .hidden := by
  intro hs
  simp only [bodyOf, hs] at h
  cases h

section
variable {C : Type}

theorem evalChildOf_agree (ci : CacheImpl α C) (sel : Display → Bool → Option Callee) (a1 a2 : Algs α) (fuel : Nat)
    (kids : List (STree α))
    (h : ∀ (i : Nat) (t : STree α), kids[i]? = some t → ∀ k cin,
      evalNodeWith ci sel a1 fuel t k cin = evalNodeWith ci sel a2 fuel t k cin) :
    evalChildOf ci sel a1 fuel kids = evalChildOf ci sel a2 fuel kids := by
  funext i cin ks
  simp only [evalChildOf]
  cases hk : kids[i]? with
  | none => rfl
  | some t =>
    cases hk2 : ks[i]? with
    | none => rfl
    | some k => simp only [h i t hk k cin]

/-- **eval_agree**: algorithms that agree on the tree give the same evaluator on the tree -/
theorem eval_agree (ci : CacheImpl α C) (sel : Display → Bool → Option Callee) (a1 a2 : Algs α) :
    ∀ (fuel : Nat) (t : STree α) (ns : NS α C) (inp : LayoutInput α), AgreeOn sel a1 a2 t →
      evalNodeWith ci sel a1 fuel t ns inp = evalNodeWith ci sel a2 fuel t ns inp := by
  intro fuel
  induction fuel with
  | zero => intro t ns inp _; rw [evalNodeWith_zero, evalNodeWith_zero]
  | succ fuel ih =>
    intro t ns inp hn
    cases t with
    | node s ctx kids =>
      cases ns with
      | mk c l nk =>
        simp only [AgreeOn] at hn
        rw [evalNodeWith_succ, evalNodeWith_succ, hn.1 inp, hn.2.1 inp]
        cases hb : bodyOf sel a2 s kids inp with
        | hidden => rfl
        | leaf => rfl
        | stuck => rfl
        | prog p =>
          have hk := hn.2.2 (bodyOf_prog_not_hidden sel a2 s kids inp p hb)
          rw [evalChildOf_agree ci sel a1 a2 fuel kids
            (fun i t ht k cin => ih t k cin (AgreeOnList_get sel a1 a2 kids i t hk ht))]

end

theorem progAll_congr {C β : Type} (e : Nat → LayoutInput α → List (NS α C) → LayoutOutput α × List (NS α C))
    (Q1 Q2 : Nat → LayoutInput α → List (NS α C) → Prop) (h : ∀ i cin ks, Q1 i cin ks ↔ Q2 i cin ks) (p : ProgM α β) :
    ∀ ks, progAll e Q1 p ks ↔ progAll e Q2 p ks := by
  induction p with
  | pure b => intro ks; simp only [progAll]
  | call i inp k ih => intro ks; simp only [progAll, h i inp ks, ih]
  | setLayout i l k ih => intro ks; simp only [progAll, ih]

/-- **QuietRun_agree**: the trace condition `QuietRun` is the same for algorithms that agree on the tree -/
theorem QuietRun_agree [DecidableEq α] (sel : Display → Bool → Option Callee) (a1 a2 : Algs α) :
    ∀ (fuel : Nat) (t : STree α) (ns : NS α (MemoT α)) (inp : LayoutInput α), AgreeOn sel a1 a2 t →
      (QuietRun sel a1 fuel t ns inp ↔ QuietRun sel a2 fuel t ns inp) := by
  intro fuel
  induction fuel with
  | zero => intro t ns inp _; simp only [QuietRun]
  | succ fuel ih =>
    intro t ns inp hn
    cases t with
    | node s ctx kids =>
      cases ns with
      | mk c l nk =>
        simp only [AgreeOn] at hn
        simp only [QuietRun, hn.1 inp]
        split
        · exact Iff.rfl
        · split
          · exact Iff.rfl
          · cases hb : bodyOf sel a2 s kids inp with
            | hidden => exact Iff.rfl
            | leaf => exact Iff.rfl
            | stuck => exact Iff.rfl
            | prog p =>
              have hk := hn.2.2 (bodyOf_prog_not_hidden sel a2 s kids inp p hb)
              simp only
              rw [evalChildOf_agree exactMemo sel a1 a2 fuel kids
                (fun i t ht k cin => eval_agree exactMemo sel a1 a2 fuel t k cin (AgreeOnList_get sel a1 a2 kids i t hk ht))]
              apply progAll_congr
              intro i cin ks
              cases hi : kids[i]? with
              | none => exact Iff.rfl
              | some t =>
                cases hki : ks[i]? with
                | none => exact Iff.rfl
                | some k => exact ih t k cin (AgreeOnList_get sel a1 a2 kids i t hk hi)

/-! ### histories of (edit, pass) steps -/

/-- `a1` and `a2` agree on every tree of the history: the start tree and the tree after each edit -/
def AgreeHist (sel : Display → Bool → Option Callee) (a1 a2 : Algs α) : STree α → List (Step α) → Prop
  | t, [] => AgreeOn sel a1 a2 t
  | t, st :: rest => AgreeOn sel a1 a2 t ∧ AgreeHist sel a1 a2 (st.edit.applyTree t) rest

theorem AgreeHist_head (sel : Display → Bool → Option Callee) (a1 a2 : Algs α) (t : STree α) (h : List (Step α))
    (ha : AgreeHist sel a1 a2 t h) : AgreeOn sel a1 a2 t := by
  cases h with
  | nil => exact ha
  | cons st rest => exact ha.1

section
variable {C : Type}

theorem runStep_agree (ci : CacheImpl α C) (sel : Display → Bool → Option Callee) (a1 a2 : Algs α)
    (s : STree α × NS α C) (st : Step α) (ha : AgreeOn sel a1 a2 (st.edit.applyTree s.1)) :
    runStep ci sel a1 s st = runStep ci sel a2 s st := by
  simp only [runStep, eval_agree ci sel a1 a2 _ _ _ _ ha]

/-- **runHistory_agree**: algorithms that agree on every tree of the history give the same final (tree, state) -/
theorem runHistory_agree (ci : CacheImpl α C) (sel : Display → Bool → Option Callee) (a1 a2 : Algs α)
    (h : List (Step α)) : ∀ (s : STree α × NS α C), AgreeHist sel a1 a2 s.1 h →
      runHistory ci sel a1 s h = runHistory ci sel a2 s h := by
  induction h with
  | nil => intro s _; rfl
  | cons st rest ih =>
    intro s ha
    have h1 := AgreeHist_head sel a1 a2 _ rest ha.2
    simp only [runHistory, List.foldl_cons]
    rw [runStep_agree ci sel a1 a2 s st h1]
    exact ih _ (by simpa only [runStep] using ha.2)

/-- the final tree of the history is one of the trees the algorithms agree on -/
theorem AgreeHist_final (ci : CacheImpl α C) (sel : Display → Bool → Option Callee) (a1 a2 a : Algs α)
    (h : List (Step α)) : ∀ (s : STree α × NS α C), AgreeHist sel a1 a2 s.1 h →
      AgreeOn sel a1 a2 (runHistory ci sel a s h).1 := by
  induction h with
  | nil => intro s ha; exact ha
  | cons st rest ih =>
    intro s ha
    simp only [runHistory, List.foldl_cons]
    exact ih _ (by simpa only [runStep] using ha.2)

end

/-- **QuietHistory_agree** -/
theorem QuietHistory_agree [DecidableEq α] (sel : Display → Bool → Option Callee) (a1 a2 : Algs α)
    (h : List (Step α)) : ∀ (s : STree α × NS α (MemoT α)), AgreeHist sel a1 a2 s.1 h →
      (QuietHistory sel a1 s h ↔ QuietHistory sel a2 s h) := by
  induction h with
  | nil => intro s _; simp only [QuietHistory]
  | cons st rest ih =>
    intro s ha
    have h1 := AgreeHist_head sel a1 a2 _ rest ha.2
    simp only [QuietHistory]
    rw [QuietRun_agree sel a1 a2 _ _ _ _ h1, runStep_agree exactMemo sel a1 a2 s st h1]
    rw [ih _ (by simpa only [runStep] using ha.2)]

end EvalBlock
