/-
  C03 (finiteness) — the simp set collecting the "finiteness typing" lemmas (`simp [fin_simp, …]`): each lemma says that an
  operation of the model maps finite (`ER.fin _`) arguments to a finite result.
-/
import Lean.Meta.Tactic.Simp.RegisterCommand

/-- finiteness typing of the layout model's functions at the extended-number instance `ER` -/
register_simp_attr fin_simp
