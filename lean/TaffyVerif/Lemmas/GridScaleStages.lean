/-
  C04 for grid: the stages of `compute_grid_layout` (Lemmas/GridBoxStages.lean) with the two functions that contain
  absolute constants taken as PARAMETERS:
      ceg   = `compute_explicit_grid_size_in_axis`   (explicit_grid.rs: a repetition that takes no space counts as 1px)
      ts    = `track_sizing_algorithm`               (track_sizing.rs: THRESHOLD = 0.01 and 0.000001)
  `gridAlgG computeExplicitGridSizeInAxis trackSizingAlgorithmM = gridAlg` (`gridAlgG_eq`).  Everything else in
  `compute_grid_layout` is homogeneous for ANY pair of related parameters (Lemmas/GridScaleTop.lean).
-/
import TaffyVerif.Lemmas.GridBoxStages
import TaffyVerif.Model.GridEval

set_option linter.unusedSectionVars false

namespace GridScale
open GridModel GridTracks GridStages
variable {α : Type} [Num α] [NumCast α]

/-- the type of `compute_explicit_grid_size_in_axis` -/
abbrev CEG (α : Type) := Dimension α → Dimension α → LP α → List (TrackDef α) → Option α → Except GErr Nat
/-- the type of `track_sizing_algorithm` -/
abbrev TS (α : Type) := RunArgs α → RunState α → GM α (RunState α)

def gridSetupKG {β : Type} (ceg : CEG α) (style : GridStyle α) (childStyles : List (GridChildStyle α)) (c : Ctx α)
    (k : Setup α → GM α β) : GM α β := do
  let s := style.base
  let explicitColCount ← GM.ofExcept (ceg s.size.width s.maxSize.width s.gap.width
    style.gridTemplateColumns c.autoFitContainerSize.width)
  let explicitRowCount ← GM.ofExcept (ceg s.size.height s.maxSize.height s.gap.height
    style.gridTemplateRows c.autoFitContainerSize.height)
  let (estColCounts, estRowCounts) ←
    GM.ofOutcome (GridPlacement.computeGridSizeEstimate explicitColCount explicitRowCount (boxChildren childStyles))
  let matrix0 ← GM.ofOutcome (GridPlacement.Matrix.withTrackCounts estColCounts estRowCounts)
  let placed ← GM.ofOutcome (GridPlacement.placeGridItems GridPlacement.defaultFuel matrix0
    (inFlowChildren childStyles) style.gridAutoFlow)
  let matrix := placed.matrix
  let parentAlignItems := c.alignItems.getD .stretch
  let parentJustifyItems := c.justifyItems.getD .stretch
  let items : List (GItem α) := placed.items.reverse.map (mkItem childStyles parentAlignItems parentJustifyItems)
  let finalColCounts := matrix.columns
  let finalRowCounts := matrix.rows
  let columns ← GM.ofExcept (initializeGridTracks (toNatCounts finalColCounts) style.gridTemplateColumns
    style.gridAutoColumns s.gap.width (columnIsOccupied matrix))
  let rows ← GM.ofExcept (initializeGridTracks (toNatCounts finalRowCounts) style.gridTemplateRows
    style.gridAutoRows s.gap.height (rowIsOccupied matrix))
  let items ← GM.ofOutcome (resolveItemTrackIndexes items finalColCounts finalRowCounts)
  let items := determineCrossings items columns rows
  k { items, columns, rows, colCounts := finalColCounts, rowCounts := finalRowCounts }

def gridRerunRowsG (ts : TS α) (c : Ctx α) (availableSpace : Size (AvailableSpace α)) (innerNodeSize : Size (Option α))
    (st : RunState α) : GM α (List (GridTrack α) × List (GridTrack α) × List (GItem α)) := do
  let columns := st.axisTracks
  let rows := st.otherAxisTracks
  let items := st.items
  let hasPercentageRow := rows.any (·.usesPercentage)
  let parentHeightIndefinite := !availableSpace.height.isDefinite
  let rerunRowSizing0 := parentHeightIndefinite && hasPercentageRow
  let (rerunRowSizing, items) ← (
    if !rerunRowSizing0 then minContentChanged .blk columns innerNodeSize items
    else pure (true, clearCaches .blk items) : GM α (Bool × List (GItem α)))
  if rerunRowSizing then do
    let st ← ts { rowArgs c innerNodeSize with innerNodeSize }
      { axisTracks := rows, otherAxisTracks := columns, items }
    pure (st.otherAxisTracks, st.axisTracks, st.items)
  else pure (columns, rows, items)

def gridRerunBodyG (ts : TS α) (c : Ctx α) (availableSpace : Size (AvailableSpace α)) (hasBaselineAlignedItem : Bool)
    (innerNodeSize : Size (Option α)) (rerunColumnSizing : Bool)
    (columns rows : List (GridTrack α)) (items : List (GItem α)) :
    GM α (List (GridTrack α) × List (GridTrack α) × List (GItem α)) :=
  if rerunColumnSizing then do
    let st ← ts { colArgs c hasBaselineAlignedItem with innerNodeSize, est := .baseSize }
      { axisTracks := columns, otherAxisTracks := rows, items }
    gridRerunRowsG ts c availableSpace innerNodeSize st
  else pure (columns, rows, items)

def gridRerunKG {β : Type} (ts : TS α) (c : Ctx α) (availableSpace : Size (AvailableSpace α))
    (hasBaselineAlignedItem : Bool) (containerContentBox : Size α) (innerNodeSize : Size (Option α))
    (columns rows : List (GridTrack α)) (items : List (GItem α))
    (k : List (GridTrack α) × List (GridTrack α) × List (GItem α) → GM α β) : GM α β := do
  let columns :=
    if !c.availableGridSpace.width.isDefinite then reresolvePercentTracks containerContentBox.width columns else columns
  let rows :=
    if !c.availableGridSpace.height.isDefinite then reresolvePercentTracks containerContentBox.height rows else rows
  let hasPercentageColumn := columns.any (·.usesPercentage)
  let parentWidthIndefinite := !availableSpace.width.isDefinite
  let rerunColumnSizing0 := parentWidthIndefinite && hasPercentageColumn
  let (rerunColumnSizing, items) ← (
    if !rerunColumnSizing0 then minContentChanged .inl rows innerNodeSize items
    else pure (true, clearCaches .inl items) : GM α (Bool × List (GItem α)))
  gridRerunBodyG ts c availableSpace hasBaselineAlignedItem innerNodeSize rerunColumnSizing columns rows items >>= k

def gridAfterSizingG (ts : TS α) (c : Ctx α) (childStyles : List (GridChildStyle α)) (inputs : LayoutInput α)
    (hasBaselineAlignedItem : Bool) (colCounts rowCounts : GridPlacement.TrackCounts) (innerNodeSize0 : Size (Option α))
    (initialColumnSum : α) (st : RunState α) : GM α (LayoutOutput α) :=
  let rows := st.axisTracks
  let columns := st.otherAxisTracks
  let items := st.items
  let initialRowSum : α := sumF (rows.map (·.baseSize))
  let innerNodeSize : Size (Option α) :=
    { innerNodeSize0 with height := innerNodeSize0.height.or (some initialRowSum) }
  let containerBorderBox := containerBorderBoxOf c inputs.knownDimensions initialColumnSum initialRowSum
  let containerContentBox := containerContentBoxOf c containerBorderBox
  if inputs.runMode == .computeSize then pure (LayoutOutput.fromOuterSize containerBorderBox) else
  gridRerunKG ts c inputs.availableSpace hasBaselineAlignedItem containerContentBox innerNodeSize columns rows items
    (gridFinish c childStyles containerBorderBox containerContentBox colCounts rowCounts)

def gridSizingG (ts : TS α) (c : Ctx α) (childStyles : List (GridChildStyle α)) (inputs : LayoutInput α)
    (su : Setup α) : GM α (LayoutOutput α) := do
  let hasBaselineAlignedItem := su.items.any fun it => it.alignSelf == .baseline
  let st ← ts (colArgs c hasBaselineAlignedItem)
    { axisTracks := su.columns, otherAxisTracks := su.rows, items := su.items }
  let columns := st.axisTracks
  let rows := st.otherAxisTracks
  let items := st.items
  let initialColumnSum : α := sumF (columns.map (·.baseSize))
  let innerNodeSize : Size (Option α) :=
    { c.innerNodeSize with width := c.innerNodeSize.width.or (some initialColumnSum) }
  let items := items.map fun it => { it with availableSpaceCache := none }
  let st ← ts (rowArgs c innerNodeSize) { axisTracks := rows, otherAxisTracks := columns, items }
  gridAfterSizingG ts c childStyles inputs hasBaselineAlignedItem su.colCounts su.rowCounts innerNodeSize
    initialColumnSum st

def computeGridLayoutEG (ceg : CEG α) (ts : TS α) (style : GridStyle α) (childStyles : List (GridChildStyle α))
    (inputs : LayoutInput α) : GM α (LayoutOutput α) :=
  match inputs.runMode, (mkCtx style.base inputs).outerNodeSize.width,
      (mkCtx style.base inputs).outerNodeSize.height with
  | .computeSize, some width, some height => pure (LayoutOutput.fromOuterSize ⟨width, height⟩)
  | _, _, _ =>
    gridSetupKG ceg style childStyles (mkCtx style.base inputs)
      (gridSizingG ts (mkCtx style.base inputs) childStyles inputs)

/-- `compute_grid_layout` with the two constant-carrying functions as parameters -/
def gridAlgG (ceg : CEG α) (ts : TS α) (s : Style α) (cs : List (Style α)) (inp : LayoutInput α) :
    ProgM α (LayoutOutput α) := do
  match ← (computeGridLayoutEG ceg ts (GridStyle.ofStyle s) (cs.map GridChildStyle.ofStyle) inp).run with
  | .ok out => pure out
  | .error _ => pure LayoutOutput.hidden

theorem computeGridLayoutEG_eq (style : GridStyle α) (childStyles : List (GridChildStyle α)) (inputs : LayoutInput α) :
    computeGridLayoutEG computeExplicitGridSizeInAxis trackSizingAlgorithmM style childStyles inputs =
      computeGridLayoutE style childStyles inputs := by
  rw [computeGridLayoutE_eq]
  rfl

/-- **gridAlgG_eq** -/
theorem gridAlgG_eq :
    (gridAlgG computeExplicitGridSizeInAxis trackSizingAlgorithmM :
      Style α → List (Style α) → LayoutInput α → ProgM α (LayoutOutput α)) = gridAlg := by
  funext s cs inp
  unfold gridAlgG gridAlg computeGridLayout
  rw [computeGridLayoutEG_eq]
  rfl

end GridScale
