/-
  C04 for grid, part 17: `resolve_intrinsic_track_sizes`, `expand_flexible_tracks` and the whole
  `track_sizing_algorithm`, with the thresholds as parameters: scaling lengths and thresholds scales the run.
-/
import TaffyVerif.Lemmas.GridScaleSz1

set_option linter.unusedSectionVars false
set_option linter.unusedVariables false
set_option linter.unusedSimpArgs false

namespace C04
open Scalable GridModel GridTracks GridStages GridTheta GridRel GridScale

variable {k : Rat}

theorem forItemsM_sim (f' f : GItem Rat → List (GridTrack Rat) → GM Rat (GItem Rat × List (GridTrack Rat)))
    (hf : ∀ it ts, GSim k (Sc k) (f' (scale k it) (scale k ts)) (f it ts)) :
    ∀ (items : List (GItem Rat)) (ts : List (GridTrack Rat)),
      GSim k (Sc k) (forItemsM f' (scale k items) (scale k ts)) (forItemsM f items ts)
  | [], ts => GSim.pure rfl
  | it :: rest, ts => by
    show GSim k _ (forItemsM f' (scale k it :: scale k rest) (scale k ts)) _
    unfold forItemsM
    refine GSim.bind (hf it ts) fun r' r hr => ?_
    rw [show r' = scale k r from hr]
    obtain ⟨a, ts1⟩ := r
    simp only [scale_pair]
    refine GSim.bind (forItemsM_sim f' f hf rest ts1) fun q' q hq => ?_
    rw [show q' = scale k q from hq]
    exact GSim.pure rfl

theorem distBaseT_scale (hk : 0 < k) (θd θi : Rat) (axis : Ax) (a b : Bool) (it : GItem Rat) (sp : Rat)
    {aff' aff : GridTrack Rat → Bool} {lim' lim : GridTrack Rat → Ext Rat}
    (haff : ∀ t, aff' (scale k t) = aff t) (hlim : ∀ t, lim' (scale k t) = scale k (lim t)) (ty : ContributionType)
    (ts : List (GridTrack Rat)) :
    distBaseT (scale k θd) (scale k θi) axis a b (scale k it) (scale k sp) aff' lim' ty (scale k ts) =
      scale k (distBaseT θd θi axis a b it sp aff lim ty ts) := by
  unfold distBaseT
  rw [flt_zero_scale hk, gi_trackRange]
  split
  · exact onRange_scale k ts _ _ _ _ fun sl => distributeItemSpaceToBaseSizeT_scale hk θd θi a b sp sl haff hlim ty
  · rfl

theorem distGrowthT_scale (hk : 0 < k) (θd : Rat) (axis : Ax) (axisInner : Option Rat) (it : GItem Rat) (sp : Rat)
    {aff' aff : GridTrack Rat → Bool} (haff : ∀ t, aff' (scale k t) = aff t) (ts : List (GridTrack Rat)) :
    distGrowthT (scale k θd) axis (scale k axisInner) (scale k it) (scale k sp) aff' (scale k ts) =
      scale k (distGrowthT θd axis axisInner it sp aff ts) := by
  unfold distGrowthT
  rw [flt_zero_scale hk, gi_trackRange]
  split
  · exact onRange_scale k ts _ _ _ _ fun sl => distributeItemSpaceToGrowthLimitT_scale hk θd sp sl haff axisInner
  · rfl

theorem minLimit_scale (hk : 0 < k) (axis : Ax) (axisInner : Option Rat) (it : GItem Rat) (t : GridTrack Rat) :
    minLimit axis (scale k axisInner) (scale k it) (scale k t) = scale k (minLimit axis axisInner it t) := by
  unfold minLimit
  rw [gi_scroll]
  split
  · exact gt_fitContentLimitedGrowthLimit hk t axisInner
  · rfl

theorem gStep1T_sim (hk : 0 < k) (θd θi : Rat) (s : Sizer Rat) (avail : AvailableSpace Rat) (axisInner : Option Rat)
    (a b : Bool) (it : GItem Rat) (ts : List (GridTrack Rat)) :
    GSim k (Sc k)
      (gStep1T (scale k θd) (scale k θi) (scale k s) (scale k avail) (scale k axisInner) a b (scale k it) (scale k ts))
      (gStep1T θd θi s avail axisInner a b it ts) := by
  unfold gStep1T
  rw [sz_axis, gi_crossesIntrinsicTrack]
  refine GSim.ite ?_ ?_
  · exact GSim.pure rfl
  · refine GSim.bind (minimumSpaceM_sim hk s avail it ts _ _ (fun x => gi_spannedTrackLimit k x _ _ _))
      fun r' r hr => ?_
    rw [show r' = scale k r from hr]
    refine GSim.pure ?_
    simp only [Sc, scale_pair, scale_fst, scale_snd]
    rw [distBaseT_scale hk θd θi s.axis a b r.2 r.1
      (fun t => by rw [gt_minFn, mint_definiteValue, isNone_scale]) (fun t => minLimit_scale hk s.axis axisInner r.2 t)]

theorem gStep2T_sim (hk : 0 < k) (θd θi : Rat) (s : Sizer Rat) (axisInner : Option Rat) (a b : Bool) (it : GItem Rat)
    (ts : List (GridTrack Rat)) :
    GSim k (Sc k) (gStep2T (scale k θd) (scale k θi) (scale k s) (scale k axisInner) a b (scale k it) (scale k ts))
      (gStep2T θd θi s axisInner a b it ts) := by
  unfold gStep2T
  rw [sz_axis]
  refine GSim.bind (sizer_minContentContribution_sim hk s it) fun r' r hr => ?_
  rw [show r' = scale k r from hr]
  refine GSim.pure ?_
  simp only [Sc, scale_pair, scale_fst, scale_snd]
  rw [distBaseT_scale hk θd θi s.axis a b r.2 r.1 (fun t => by rw [gt_minFn, mint_isMinOrMaxContent])
    (fun t => minLimit_scale hk s.axis axisInner r.2 t)]

theorem gStep3T_sim (hk : 0 < k) (θd θi : Rat) (s : Sizer Rat) (axisInner : Option Rat) (a b : Bool) (it : GItem Rat)
    (ts : List (GridTrack Rat)) :
    GSim k (Sc k) (gStep3T (scale k θd) (scale k θi) (scale k s) (scale k axisInner) a b (scale k it) (scale k ts))
      (gStep3T θd θi s axisInner a b it ts) := by
  unfold gStep3T
  rw [sz_axis]
  refine GSim.bind (sizer_maxContentContribution_sim hk s it) fun r' r hr => ?_
  rw [show r' = scale k r from hr]
  simp only [scale_fst, scale_snd, gi_spannedTracks, gi_spannedTrackLimit, fo_min_scale hk,
    any_scale_list k _ (fun t : GridTrack Rat => t.minFn.isMaxContent) (fun t : GridTrack Rat => t.minFn.isMaxContent)
      (fun t => by rw [gt_minFn, mint_isMaxContent])]
  refine GSim.ite ?_ ?_
  · refine GSim.pure ?_
    simp only [Sc, scale_pair]
    rw [distBaseT_scale hk θd θi s.axis a b r.2 _ (lim' := fun _ => Ext.inf) (lim := fun _ => Ext.inf)
      (fun t => by rw [gt_minFn, mint_isMaxContent]) (fun _ => rfl)]
  · refine GSim.pure ?_
    simp only [Sc, scale_pair]
    rw [distBaseT_scale hk θd θi s.axis a b r.2 _
      (fun t => by rw [gt_minFn, gt_maxFn, mint_isAuto, maxt_isMinContent])
      (fun t => gt_fitContentLimitedGrowthLimit hk t axisInner)]

theorem gStep3bT_sim (hk : 0 < k) (θd θi : Rat) (s : Sizer Rat) (a b : Bool) (it : GItem Rat)
    (ts : List (GridTrack Rat)) :
    GSim k (Sc k) (gStep3bT (scale k θd) (scale k θi) (scale k s) a b (scale k it) (scale k ts))
      (gStep3bT θd θi s a b it ts) := by
  unfold gStep3bT
  rw [sz_axis]
  refine GSim.bind (sizer_maxContentContribution_sim hk s it) fun r' r hr => ?_
  rw [show r' = scale k r from hr]
  refine GSim.pure ?_
  simp only [Sc, scale_pair, scale_fst, scale_snd]
  rw [distBaseT_scale hk θd θi s.axis a b r.2 r.1 (fun t => by rw [gt_minFn, mint_isMaxContent]) (fun _ => rfl)]

theorem gStep5T_sim (hk : 0 < k) (θd : Rat) (s : Sizer Rat) (axisInner : Option Rat) (it : GItem Rat)
    (ts : List (GridTrack Rat)) :
    GSim k (Sc k) (gStep5T (scale k θd) (scale k s) (scale k axisInner) (scale k it) (scale k ts))
      (gStep5T θd s axisInner it ts) := by
  unfold gStep5T
  rw [sz_axis]
  refine GSim.bind (sizer_minContentContribution_sim hk s it) fun r' r hr => ?_
  rw [show r' = scale k r from hr]
  refine GSim.pure ?_
  simp only [Sc, scale_pair, scale_fst, scale_snd]
  rw [distGrowthT_scale hk θd s.axis axisInner r.2 r.1 (fun t => by rw [gt_maxFn, maxt_hasDefiniteValue])]

theorem gStep6T_sim (hk : 0 < k) (θd : Rat) (s : Sizer Rat) (axisInner : Option Rat) (it : GItem Rat)
    (ts : List (GridTrack Rat)) :
    GSim k (Sc k) (gStep6T (scale k θd) (scale k s) (scale k axisInner) (scale k it) (scale k ts))
      (gStep6T θd s axisInner it ts) := by
  unfold gStep6T
  rw [sz_axis]
  refine GSim.bind (sizer_maxContentContribution_sim hk s it) fun r' r hr => ?_
  rw [show r' = scale k r from hr]
  refine GSim.pure ?_
  simp only [Sc, scale_pair, scale_fst, scale_snd]
  rw [distGrowthT_scale hk θd s.axis axisInner r.2 r.1
    (fun t => by rw [gt_maxFn, maxt_isMaxContentAlike, maxt_usesPercentage, isNone_scale])]

theorem sizeBatchGeneralT_sim (hk : 0 < k) (θd θi : Rat) (s : Sizer Rat) (avail : AvailableSpace Rat)
    (axisInner : Option Rat) (isFlex : Bool) (ffs : Rat) (batch : List (GItem Rat)) (tracks : List (GridTrack Rat)) :
    GSim k (Sc k)
      (sizeBatchGeneralT (scale k θd) (scale k θi) (scale k s) (scale k avail) (scale k axisInner) isFlex ffs
        (scale k batch) (scale k tracks))
      (sizeBatchGeneralT θd θi s avail axisInner isFlex ffs batch tracks) := by
  unfold sizeBatchGeneralT
  refine GSim.bind (forItemsM_sim _ _ (fun it ts => gStep1T_sim hk θd θi s avail axisInner _ _ it ts) batch tracks)
    fun r1' r1 h1 => ?_
  rw [show r1' = scale k r1 from h1, scale_fst, scale_snd, flushPlannedBaseSizeIncreases_scale]
  refine GSim.bind (forItemsM_sim _ _ (fun it ts => gStep2T_sim hk θd θi s axisInner _ _ it ts) r1.1 _)
    fun r2' r2 h2 => ?_
  rw [show r2' = scale k r2 from h2, scale_fst, scale_snd, flushPlannedBaseSizeIncreases_scale]
  refine GSim.bind (Q := Sc k) ?_ fun r3' r3 h3 => ?_
  · cases avail with
    | maxContent =>
      refine GSim.bind (forItemsM_sim _ _ (fun it ts => gStep3T_sim hk θd θi s axisInner _ _ it ts) r2.1 _)
        fun r' r hr => ?_
      rw [show r' = scale k r from hr]
      exact GSim.pure (by simp only [Sc, scale_pair, scale_fst, scale_snd, flushPlannedBaseSizeIncreases_scale])
    | minContent => exact GSim.pure rfl
    | definite v => exact GSim.pure rfl
  rw [show r3' = scale k r3 from h3, scale_fst, scale_snd]
  refine GSim.bind (forItemsM_sim _ _ (fun it ts => gStep3bT_sim hk θd θi s _ _ it ts) r3.1 r3.2) fun r4' r4 h4 => ?_
  rw [show r4' = scale k r4 from h4, scale_fst, scale_snd, flushPlannedBaseSizeIncreases_scale,
    raiseGrowthLimits_scale hk]
  refine GSim.ite ?_ ?_
  · exact GSim.pure rfl
  refine GSim.bind (forItemsM_sim _ _ (fun it ts => gStep5T_sim hk θd s axisInner it ts) r4.1 _) fun r5' r5 h5 => ?_
  rw [show r5' = scale k r5 from h5, scale_fst, scale_snd, flushPlannedGrowthLimitIncreases_scale hk]
  refine GSim.bind (forItemsM_sim _ _ (fun it ts => gStep6T_sim hk θd s axisInner it ts) r5.1 _) fun r6' r6 h6 => ?_
  rw [show r6' = scale k r6 from h6]
  exact GSim.pure (by simp only [Sc, scale_pair, scale_fst, scale_snd, flushPlannedGrowthLimitIncreases_scale hk])

theorem batchWorkT_sim (hk : 0 < k) (θd θi : Rat) (s : Sizer Rat) (avail : AvailableSpace Rat) (axisInner : Option Rat)
    (ffs : Rat) (item : GItem Rat) (batch : List (GItem Rat)) (tracks : List (GridTrack Rat)) :
    GSim k (Sc k)
      (batchWorkT (scale k θd) (scale k θi) (scale k s) (scale k avail) (scale k axisInner) ffs (scale k item)
        (scale k batch) (scale k tracks))
      (batchWorkT θd θi s avail axisInner ffs item batch tracks) := by
  unfold batchWorkT
  rw [sz_axis, gi_crossesFlexibleTrack, gi_span]
  refine GSim.ite ?_ ?_
  · refine GSim.bind (forItemsM_sim _ _ (fun it ts => sizeSpanOneItemM_sim hk s avail axisInner it ts) batch tracks)
      fun r' r hr => ?_
    rw [show r' = scale k r from hr]
    exact GSim.pure (by simp only [Sc, scale_pair, scale_fst, scale_snd, flushSpanOne_scale hk])
  · exact sizeBatchGeneralT_sim hk θd θi s avail axisInner _ ffs batch tracks

theorem batchNext_scale (k : Rat) (axis : Ax) (items : List (GItem Rat)) (item : GItem Rat) :
    batchNext axis (scale k items) (scale k item) = batchNext axis items item := by
  unfold batchNext
  rw [gi_crossesFlexibleTrack, length_scale_list, gi_span]
  have hf : (scale k items).findIdx? (fun it => it.crossesFlexibleTrack axis || decide (it.span axis > item.span axis)) =
      items.findIdx? (fun it => it.crossesFlexibleTrack axis || decide (it.span axis > item.span axis)) := by
    rw [scale_list]
    induction items with
    | nil => rfl
    | cons a l ih => simp only [List.map_cons, List.findIdx?_cons, gi_crossesFlexibleTrack, gi_span, ih]
  rw [hf]

theorem batchLoopT_sim (hk : 0 < k) (θd θi : Rat) (s : Sizer Rat) (avail : AvailableSpace Rat) (axisInner : Option Rat)
    (ffs : Rat) : ∀ (fuel : Nat) (items : List (GItem Rat)) (offset : Nat) (tracks : List (GridTrack Rat)),
      GSim k (Sc k)
        (batchLoopT (scale k θd) (scale k θi) (scale k s) (scale k avail) (scale k axisInner) ffs fuel (scale k items)
          offset (scale k tracks))
        (batchLoopT θd θi s avail axisInner ffs fuel items offset tracks)
  | 0, items, offset, tracks => by
    unfold batchLoopT
    exact GSim.pure rfl
  | fuel + 1, items, offset, tracks => by
    unfold batchLoopT
    rw [getElem?_scale_list]
    cases items[offset]? with
    | none => exact GSim.pure rfl
    | some item =>
      simp only [scale_some, sz_axis, batchNext_scale, gi_crossesFlexibleTrack]
      have hb : ((scale k items).drop offset).take (batchNext s.axis items item - offset) =
          scale k ((items.drop offset).take (batchNext s.axis items item - offset)) := by
        simp only [scale_list, List.map_drop, List.map_take]
      rw [hb]
      refine GSim.bind (batchWorkT_sim hk θd θi s avail axisInner ffs item _ tracks) fun r' r hr => ?_
      rw [show r' = scale k r from hr, scale_fst, scale_snd]
      have hc : (scale k items).take offset ++ scale k r.1 ++ (scale k items).drop (batchNext s.axis items item) =
          scale k (items.take offset ++ r.1 ++ items.drop (batchNext s.axis items item)) := by
        simp only [scale_list, List.map_append, List.map_take, List.map_drop]
      rw [hc]
      refine GSim.ite ?_ ?_
      · exact GSim.pure rfl
      · exact batchLoopT_sim hk θd θi s avail axisInner ffs fuel _ _ r.2

theorem itemLe_scale (k : Rat) (axis : Ax) (a b : GItem Rat) :
    GridModel.itemLe axis (scale k a) (scale k b) = GridModel.itemLe axis a b := by
  unfold GridModel.itemLe
  simp only [gi_crossesFlexibleTrack, gi_span, gi_placement]

theorem resolveIntrinsicTrackSizesT_sim (hk : 0 < k) (θd θi : Rat) (s : Sizer Rat) (tracks : List (GridTrack Rat))
    (items : List (GItem Rat)) (avail : AvailableSpace Rat) :
    GSim k (Sc k)
      (resolveIntrinsicTrackSizesT (scale k θd) (scale k θi) (scale k s) (scale k tracks) (scale k items) (scale k avail))
      (resolveIntrinsicTrackSizesT θd θi s tracks items avail) := by
  unfold resolveIntrinsicTrackSizesT
  dsimp only
  rw [sz_axis, mergeSort_scale k items _ (itemLe_scale k s.axis), length_scale_list, sz_innerNodeSize, sget_scale,
    gsumF_map_inv k tracks (fun t => t.flexFactor) (fun t => t.flexFactor) (gt_flexFactor k)]
  refine GSim.bind (batchLoopT_sim hk θd θi s avail _ _ _ _ 0 tracks) fun r' r hr => ?_
  rw [show r' = scale k r from hr]
  obtain ⟨its, trs⟩ := r
  refine GSim.pure ?_
  show (scale k its, _) = (scale k its, scale k _)
  congr 1
  refine map_scale_list k trs _ _ fun t => ?_
  rw [gt_growthLimit]
  cases hg : t.growthLimit with
  | inf =>
    simp only [ext_inf]
    cases t
    simp only at hg
    subst hg
    rfl
  | fin g => rfl

end C04
