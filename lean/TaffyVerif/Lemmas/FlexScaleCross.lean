/-
  C04 for flexbox, part 3: steps 6, 8–16 of `compute_preliminary` (pure: flexible lengths, line cross sizes,
  align-content stretch, used cross sizes, free-space distribution, cross-axis auto margins, container cross size,
  align-content) and the output commute with scaling; no side condition.
-/
import TaffyVerif.Lemmas.FlexScalePure

set_option linter.unusedSectionVars false
set_option linter.unusedVariables false
set_option linter.unusedSimpArgs false

namespace C04
open Scalable FlexModel FlexStages BlockModel
open FlexLine (sumF sumAxisGaps)

variable {k : Rat}

theorem styleOf_scale (k : Rat) (cs : List (Style Rat)) (i : Nat) :
    styleOf (cs.map (scale k)) i = scale k (styleOf cs i) := by
  unfold styleOf
  rw [List.getElem?_map]
  cases cs[i]? with
  | some s => rfl
  | none =>
    show Style.default = scale k Style.default
    show Style.default = ({ (Style.default : Style Rat) with
      scrollbarWidth := scale k (Style.default : Style Rat).scrollbarWidth
      inset := scale k (Style.default : Style Rat).inset
      size := scale k (Style.default : Style Rat).size
      minSize := scale k (Style.default : Style Rat).minSize
      maxSize := scale k (Style.default : Style Rat).maxSize
      margin := scale k (Style.default : Style Rat).margin
      padding := scale k (Style.default : Style Rat).padding
      border := scale k (Style.default : Style Rat).border
      gap := scale k (Style.default : Style Rat).gap
      flexBasis := scale k (Style.default : Style Rat).flexBasis } : Style Rat)
    simp only [Style.default, scale_simp]

/-! ### step 6 -/

theorem resolveFlexibleLengthsLine_scale (hk : 0 < k) (c : AlgoConstants Rat) (line : FlexLineS Rat) :
    resolveFlexibleLengthsLine (scale k c) (scale k line) = scale k (resolveFlexibleLengthsLine c line) := by
  unfold resolveFlexibleLengthsLine
  simp only [fxl_items, fxk_dir, fxk_nodeInnerSize, fxk_gap, Size.main_scale]
  rw [map_scale_comm k (toM c.dir) (toM c.dir) (fun x => toM_scale k c.dir x), length_scale,
    resolveFlexibleLengths_scale hk]
  cases FlexLine.resolveFlexibleLengths (List.map (toM c.dir) line.items) (c.nodeInnerSize.main c.dir)
      (c.gap.main c.dir) ((List.map (toM c.dir) line.items).length + 1) with
  | none => rfl
  | some ms =>
    simp only [scale_some]
    rw [zipBack_scale]
    rfl

/-! ### step 8 -/

theorem maxBaseline_scale (hk : 0 < k) (items : List (FlexItem Rat)) :
    maxBaseline (scale k items) = scale k (maxBaseline items) := by
  unfold maxBaseline
  have h : ∀ (l : List (FlexItem Rat)) (a : Rat),
      List.foldl (fun acc (c : FlexItem Rat) => Num.fmax acc c.baseline) (scale k a) (scale k l) =
        scale k (List.foldl (fun acc (c : FlexItem Rat) => Num.fmax acc c.baseline) a l) := by
    intro l
    induction l with
    | nil => intro a; rfl
    | cons x xs ih =>
      intro a
      simp only [scale_cons, List.foldl_cons, fxi_baseline, fmax_scale hk, ih]
  have := h items 0
  rwa [scale_zero] at this

theorem mapHead_scale {β : Type} [Scalable β] (k : Rat) (f f' : β → β) (h : ∀ x, f' (scale k x) = scale k (f x))
    (l : List β) : mapHead f' (scale k l) = scale k (mapHead f l) := by
  cases l with
  | nil => rfl
  | cons a l => simp only [scale_cons, mapHead, h]

theorem lineCross_foldl_scale (hk : 0 < k) (dir : FlexDirection) (mb : Rat) :
    ∀ (l : List (FlexItem Rat)) (a : Rat),
      List.foldl (fun acc (child : FlexItem Rat) =>
          Num.fmax acc (if child.alignSelf == .baseline && !AbsPos.Dir.crossStart child.marginIsAuto dir
              && !AbsPos.Dir.crossEnd child.marginIsAuto dir then
            scale k mb - child.baseline + child.hypotheticalOuterSize.cross dir
          else child.hypotheticalOuterSize.cross dir)) (scale k a) (scale k l) =
        scale k (List.foldl (fun acc (child : FlexItem Rat) =>
          Num.fmax acc (if child.alignSelf == .baseline && !AbsPos.Dir.crossStart child.marginIsAuto dir
              && !AbsPos.Dir.crossEnd child.marginIsAuto dir then
            mb - child.baseline + child.hypotheticalOuterSize.cross dir
          else child.hypotheticalOuterSize.cross dir)) a l)
  | [], _ => rfl
  | x :: xs, a => by
    simp only [scale_cons, List.foldl_cons, fxi_alignSelf, fxi_marginIsAuto, fxi_baseline, fxi_hypotheticalOuterSize,
      Size.cross_scale, sub_scale, add_scale, ite_scale, fmax_scale hk]
    exact lineCross_foldl_scale hk dir mb xs _

theorem of_max_zero_getD_scale (hk : 0 < k) (o : Option Rat) :
    (MaybeMath.of_max (scale k o) 0).getD 0 = scale k ((MaybeMath.of_max o 0).getD 0) := by
  have := of_max_scale hk o 0
  rw [scale_zero] at this
  rw [this, getD_scale_zero]

theorem calculateCrossSize_scale (hk : 0 < k) (c : AlgoConstants Rat) (ns : Size (Option Rat))
    (lines : List (FlexLineS Rat)) :
    calculateCrossSize (scale k c) (scale k ns) (scale k lines) = scale k (calculateCrossSize c ns lines) := by
  unfold calculateCrossSize
  simp only [fxk_dir, fxk_isWrap, fxk_contentBoxInset, fxk_minSize, fxk_maxSize, Size.cross_scale, isSome_scale,
    Rect.crossAxisSum_scale]
  by_cases h1 : (!c.isWrap && (ns.cross c.dir).isSome) = true
  · rw [if_pos h1, if_pos h1]
    apply mapHead_scale
    intro l
    simp only [scale_fxl_mk, fxl_items, fxl_offsetCross, oo_clamp_scale hk, of_sub_scale hk,
      of_max_zero_getD_scale hk]
  · rw [if_neg h1, if_neg h1]
    have hm : (scale k lines).map (fun line : FlexLineS Rat =>
        { line with crossSize := line.items.foldl (fun acc (child : FlexItem Rat) =>
          Num.fmax acc (if child.alignSelf == AlignItems.baseline && !AbsPos.Dir.crossStart child.marginIsAuto c.dir
              && !AbsPos.Dir.crossEnd child.marginIsAuto c.dir then
            maxBaseline line.items - child.baseline + child.hypotheticalOuterSize.cross c.dir
          else child.hypotheticalOuterSize.cross c.dir)) 0 }) =
        scale k (lines.map (fun line : FlexLineS Rat =>
        { line with crossSize := line.items.foldl (fun acc (child : FlexItem Rat) =>
          Num.fmax acc (if child.alignSelf == AlignItems.baseline && !AbsPos.Dir.crossStart child.marginIsAuto c.dir
              && !AbsPos.Dir.crossEnd child.marginIsAuto c.dir then
            maxBaseline line.items - child.baseline + child.hypotheticalOuterSize.cross c.dir
          else child.hypotheticalOuterSize.cross c.dir)) 0 })) := by
      apply map_scale_comm
      intro line
      have := lineCross_foldl_scale hk c.dir (maxBaseline line.items) line.items 0
      rw [scale_zero] at this
      simp only [scale_fxl_mk, fxl_items, fxl_offsetCross, maxBaseline_scale hk, this]
    rw [hm]
    by_cases h2 : (!c.isWrap) = true
    · rw [if_pos h2, if_pos h2]
      apply mapHead_scale
      intro l
      simp only [scale_fxl_mk, fxl_items, fxl_offsetCross, fxl_crossSize, scale_simp, hk]
    · rw [if_neg h2, if_neg h2]

/-! ### step 9 -/

theorem map_crossSize_scale (k : Rat) (lines : List (FlexLineS Rat)) :
    (scale k lines).map (·.crossSize) = scale k (lines.map (·.crossSize)) :=
  map_scale_comm k (fun l : FlexLineS Rat => l.crossSize) (fun l : FlexLineS Rat => l.crossSize) (fun _ => rfl) lines

theorem handleAlignContentStretch_scale (hk : 0 < k) (c : AlgoConstants Rat) (ns : Size (Option Rat))
    (lines : List (FlexLineS Rat)) :
    handleAlignContentStretch (scale k c) (scale k ns) (scale k lines) =
      scale k (handleAlignContentStretch c ns lines) := by
  unfold handleAlignContentStretch
  simp only [fxk_dir, fxk_alignContent, fxk_contentBoxInset, fxk_minSize, fxk_maxSize, fxk_gap, Size.cross_scale,
    Rect.crossAxisSum_scale, length_scale, map_crossSize_scale, sumF_scale, sumAxisGaps_scale, add_scale, or_scale,
    oo_clamp_scale hk, of_sub_scale hk]
  rw [of_max_zero_getD_scale hk, flt_scale hk]
  by_cases h1 : (c.alignContent == AlignContent.stretch) = true
  · rw [if_pos h1, if_pos h1]
    split
    · rw [sub_scale, div_scale]
      apply map_scale_comm
      intro l
      simp only [scale_fxl_mk, fxl_items, fxl_offsetCross, fxl_crossSize, add_scale]
    · rfl
  · rw [if_neg h1, if_neg h1]

/-! ### step 11 -/

theorem usedCrossItem_scale (hk : 0 < k) (c : AlgoConstants Rat) (lcs : Rat) (cs : Style Rat) (child : FlexItem Rat) :
    usedCrossItem (scale k c) (scale k lcs) (scale k cs) (scale k child) = scale k (usedCrossItem c lcs cs child) := by
  simp only [usedCrossItem, scale_fxi_mk, scale_simp, hk]

theorem determineUsedCrossSize_scale (hk : 0 < k) (c : AlgoConstants Rat) (cs : List (Style Rat))
    (lines : List (FlexLineS Rat)) :
    determineUsedCrossSize (scale k c) (styleOf (cs.map (scale k))) (scale k lines) =
      scale k (determineUsedCrossSize c (styleOf cs) lines) := by
  unfold determineUsedCrossSize
  apply map_scale_comm
  intro line
  simp only [scale_fxl_mk, fxl_items, fxl_crossSize, fxl_offsetCross]
  congr 1
  apply map_scale_comm
  intro child
  rw [fxi_nodeIdx, styleOf_scale, usedCrossItem_scale hk]

/-! ### step 12 -/

theorem distributeLine_scale (hk : 0 < k) (c : AlgoConstants Rat) (line : FlexLineS Rat) :
    distributeLine (scale k c) (scale k line) = scale k (distributeLine c line) := by
  unfold distributeLine
  simp only [fxl_items, fxk_dir, fxk_innerContainerSize, fxk_gap, fxk_justifyContent, Size.main_scale]
  rw [map_scale_comm k (toM c.dir) (toM c.dir) (fun x => toM_scale k c.dir x),
    distributeRemainingFreeSpace_scale hk, zipBack_scale]
  rfl

/-! ### step 13 -/

theorem alignFlexItemsAlongCrossAxis_scale (hk : 0 < k) (c : AlgoConstants Rat) (child : FlexItem Rat) (free mb : Rat) :
    alignFlexItemsAlongCrossAxis (scale k c) (scale k child) (scale k free) (scale k mb) =
      scale k (alignFlexItemsAlongCrossAxis c child free mb) := by
  unfold alignFlexItemsAlongCrossAxis
  rw [fxi_alignSelf, fxk_isWrapReverse, fxk_isRow, fxi_baseline]
  cases child.alignSelf <;> simp only [scale_simp, hk]

theorem crossAutoMarginItem_scale (hk : 0 < k) (c : AlgoConstants Rat) (lcs mb : Rat) (child : FlexItem Rat) :
    crossAutoMarginItem (scale k c) (scale k lcs) (scale k mb) (scale k child) =
      scale k (crossAutoMarginItem c lcs mb child) := by
  unfold crossAutoMarginItem
  simp only [fxk_dir, fxi_outerTargetSize, fxi_marginIsAuto, Size.cross_scale, sub_scale, fxi_margin]
  by_cases h1 : (AbsPos.Dir.crossStart child.marginIsAuto c.dir && AbsPos.Dir.crossEnd child.marginIsAuto c.dir) = true
  · rw [if_pos h1, if_pos h1]
    simp only [scale_fxi_mk, scale_simp]
  · rw [if_neg h1, if_neg h1]
    by_cases h2 : AbsPos.Dir.crossStart child.marginIsAuto c.dir = true
    · rw [if_pos h2, if_pos h2]
      simp only [scale_fxi_mk, scale_simp]
    · rw [if_neg h2, if_neg h2]
      by_cases h3 : AbsPos.Dir.crossEnd child.marginIsAuto c.dir = true
      · rw [if_pos h3, if_pos h3]
        simp only [scale_fxi_mk, scale_simp]
      · rw [if_neg h3, if_neg h3, alignFlexItemsAlongCrossAxis_scale hk]
        simp only [scale_fxi_mk, scale_simp]

theorem resolveCrossAxisAutoMargins_scale (hk : 0 < k) (c : AlgoConstants Rat) (lines : List (FlexLineS Rat)) :
    resolveCrossAxisAutoMargins (scale k c) (scale k lines) = scale k (resolveCrossAxisAutoMargins c lines) := by
  unfold resolveCrossAxisAutoMargins
  apply map_scale_comm
  intro line
  simp only [scale_fxl_mk, fxl_items, fxl_crossSize, fxl_offsetCross, maxBaseline_scale hk]
  congr 1
  apply map_scale_comm
  intro child
  exact crossAutoMarginItem_scale hk c _ _ child

theorem crossLines_scale (hk : 0 < k) (c : AlgoConstants Rat) (kd : Size (Option Rat)) (cs : List (Style Rat))
    (lines : List (FlexLineS Rat)) :
    crossLines (scale k c) (scale k kd) (styleOf (cs.map (scale k))) (scale k lines) =
      scale k (crossLines c kd (styleOf cs) lines) := by
  unfold crossLines
  dsimp only
  rw [calculateCrossSize_scale hk, handleAlignContentStretch_scale hk, determineUsedCrossSize_scale hk,
    map_scale_comm k (distributeLine c) (distributeLine (scale k c)) (fun l => distributeLine_scale hk c l),
    resolveCrossAxisAutoMargins_scale hk]

/-! ### step 15 -/

theorem determineContainerCrossSize_scale (hk : 0 < k) (c : AlgoConstants Rat) (ns : Size (Option Rat))
    (lines : List (FlexLineS Rat)) :
    determineContainerCrossSize (scale k c) (scale k ns) (scale k lines) =
      scale k (determineContainerCrossSize c ns lines) := by
  unfold determineContainerCrossSize
  simp only [fxk_dir, fxk_contentBoxInset, fxk_minSize, fxk_maxSize, fxk_gap, fxk_scrollbarGutter, fxk_containerSize,
    fxk_innerContainerSize, Size.cross_scale, Rect.crossAxisSum_scale, length_scale, map_crossSize_scale, sumF_scale,
    sumAxisGaps_scale, scale_pair, scale_fxk_mk, scale_simp, hk]

/-! ### step 16 -/

theorem alignForward_scale (k : Rat) (f f' : Bool → Rat) (h : ∀ b, f' b = scale k (f b)) (lines : List (FlexLineS Rat)) :
    alignForward f' (scale k lines) = scale k (alignForward f lines) := by
  cases lines with
  | nil => rfl
  | cons l rest =>
    simp only [scale_cons, alignForward, h, scale_fxl_mk, fxl_items, fxl_crossSize]
    congr 1
    apply map_scale_comm
    intro x
    simp only [scale_fxl_mk, fxl_items, fxl_crossSize]

theorem alignFlexLinesPerAlignContent_scale (hk : 0 < k) (c : AlgoConstants Rat) (total : Rat)
    (lines : List (FlexLineS Rat)) :
    alignFlexLinesPerAlignContent (scale k c) (scale k total) (scale k lines) =
      scale k (alignFlexLinesPerAlignContent c total lines) := by
  unfold alignFlexLinesPerAlignContent
  simp only [fxk_dir, fxk_gap, fxk_innerContainerSize, fxk_alignContent, fxk_isWrapReverse, Size.cross_scale,
    length_scale, sumAxisGaps_scale, sub_scale, applyAlignmentFallback_scale hk]
  by_cases h : c.isWrapReverse = true
  · rw [if_pos h, if_pos h, reverse_scale,
      alignForward_scale k _ _ (fun b => computeAlignmentOffset_scale hk _ _ _ _ _ b), reverse_scale]
  · rw [if_neg h, if_neg h, alignForward_scale k _ _ (fun b => computeAlignmentOffset_scale hk _ _ _ _ _ b)]

/-! ### the output -/

theorem firstVerticalBaseline_scale (k : Rat) (c : AlgoConstants Rat) (lines : List (FlexLineS Rat)) :
    firstVerticalBaseline (scale k c) (scale k lines) = scale k (firstVerticalBaseline c lines) := by
  cases lines with
  | nil => rfl
  | cons line rest =>
    simp only [scale_cons, firstVerticalBaseline, fxl_items, fxk_isColumn, fxk_isRow]
    have hf : List.find? (fun (item : FlexItem Rat) => c.isColumn || item.alignSelf == AlignItems.baseline)
        (scale k line.items) =
        scale k (List.find? (fun (item : FlexItem Rat) => c.isColumn || item.alignSelf == AlignItems.baseline)
          line.items) := by
      rw [scale_list, List.find?_map, scale_option]
      rfl
    have hh : (scale k line.items).head? = scale k line.items.head? := by
      rw [scale_list, List.head?_map]; rfl
    rw [hf, hh, or_scale]
    cases (List.find? (fun (item : FlexItem Rat) => c.isColumn || item.alignSelf == AlignItems.baseline)
      line.items).or line.items.head? with
    | none => rfl
    | some child =>
      simp only [scale_some, Option.map_some, fxi_offsetCross, fxi_offsetMain, fxi_baseline, ite_scale, add_scale]

theorem finalOutput_scale (k : Rat) (hk : 0 < k) (c : AlgoConstants Rat) (lines : List (FlexLineS Rat)) (ics acs : Size Rat) :
    finalOutput (scale k c) (scale k lines) (scale k ics) (scale k acs) = scale k (finalOutput c lines ics acs) := by
  unfold finalOutput
  rw [firstVerticalBaseline_scale, fxk_containerSize, Size.f32Max_scale hk]
  have : (⟨none, scale k (firstVerticalBaseline c lines)⟩ : Point (Option Rat)) =
      scale k (⟨none, firstVerticalBaseline c lines⟩ : Point (Option Rat)) := rfl
  rw [this, LayoutOutput.fromSizesAndBaselines_scale]

theorem absArgs_scale (k : Rat) (c : AlgoConstants Rat) (order : Nat) :
    absArgs (scale k c) order = scale k (absArgs c order) := by
  simp only [absArgs, scale_fa_mk, scale_simp]

end C04
