/-
  C10, tree-level theorem — part 1: the conversion "style tree + preorder layouts → specification tree" of
  Drv/C10Tree.lean restated over an arbitrary number type (`toRat : α → Option Rat`; the driver's instance is
  `α := Float32` with the bit decoder, the theorem's instance is `α := Rat` with `some`), the total form of that
  conversion for trees of the family, and the family predicate.

  Nothing here mentions Float32.
-/
import TaffyVerif.Spec.MarginCollapse
import TaffyVerif.Model.Prog

namespace C10Conv
open MarginCollapse

/-! ## the driver's conversion, verbatim, over `α` -/
section generic
variable {α : Type} [Num α] (toRat : α → Option Rat)

def lenPx : LPA α → Option Rat
  | .length v => toRat v
  | _ => none
def lpPx : LP α → Option Rat
  | .length v => toRat v
  | _ => none
/-- `auto` → `none`, a length → `some` -/
def dimPx : Dimension α → Option (Option Rat)
  | .auto => some none
  | .length v => (toRat v).map some
  | .percent _ => none

def isAuto : LPA α → Bool
  | .auto => true
  | _ => false

abbrev R := Except String

def need {β : Type} (what : String) (o : Option β) : R β :=
  match o with
  | some b => .ok b
  | none => .error what

/-- the box of one node: style (with the family's restrictions checked), content, layout -/
def boxOf (s : Style α) (ctx : Option (MeasureSpec α)) (leaf : Bool) (l : Layout α) : R Box := do
  if s.boxSizing != .borderBox then throw "box-sizing"
  if s.overflow.x != .visible || s.overflow.y != .visible then throw "overflow"
  if s.aspectRatio.isSome then throw "aspect-ratio"
  if s.itemIsTable then throw "table"
  if s.position == .relative && !(isAuto s.inset.left && isAuto s.inset.right && isAuto s.inset.top && isAuto s.inset.bottom) then
    throw "relative-inset"
  if !(isAuto s.maxSize.width && isAuto s.maxSize.height && isAuto s.minSize.width) then throw "min-max"
  let height ← need "height" (dimPx toRat s.size.height)
  let width ← need "width" (dimPx toRat s.size.width)
  let minH ← need "min-height" (dimPx toRat s.minSize.height)
  let content ← match ctx with
    | none => pure 0
    | some (.fixed _ h) => if leaf then need "content" (toRat h) else throw "content-on-container"
    | some (.wrap _ _) => throw "wrapping-content"
  pure {
    kind := if s.display == .flex || s.display == .grid then .other else .block
    hidden := s.display == .none
    absolute := s.position == .absolute
    marginTop := ← need "margin" (lenPx toRat s.margin.top)
    marginBottom := ← need "margin" (lenPx toRat s.margin.bottom)
    marginLeft := ← need "margin" (lenPx toRat s.margin.left)
    marginRight := ← need "margin" (lenPx toRat s.margin.right)
    paddingTop := ← need "padding" (lpPx toRat s.padding.top)
    paddingBottom := ← need "padding" (lpPx toRat s.padding.bottom)
    paddingLeft := ← need "padding" (lpPx toRat s.padding.left)
    paddingRight := ← need "padding" (lpPx toRat s.padding.right)
    borderTop := ← need "border" (lpPx toRat s.border.top)
    borderBottom := ← need "border" (lpPx toRat s.border.bottom)
    borderLeft := ← need "border" (lpPx toRat s.border.left)
    borderRight := ← need "border" (lpPx toRat s.border.right)
    width := width
    height := height
    minHeight := minH.getD 0
    content := content
    x := ← need "layout" (toRat l.location.x)
    y := ← need "layout" (toRat l.location.y)
    w := ← need "layout" (toRat l.size.width)
    h := ← need "layout" (toRat l.size.height) }

def hasInFlow (kids : List Tree) : Bool := kids.any fun c => c.box.inFlow

mutual
/-- zip the style tree with the preorder layouts.  `root`: the node is the root (may be a flex/grid wrapper) -/
def build (root : Bool) : STree α → List (Layout α) → R (Tree × List (Layout α))
  | .node s ctx kids, ls => do
    match ls with
    | [] => throw "layouts"
    | l :: ls =>
      let b ← boxOf toRat s ctx kids.isEmpty l
      if b.kind == .other && !root then throw "flex-or-grid-below-root"
      let (ks, ls) ← buildKids kids ls
      -- (A) `min-height` on a box with in-flow children; (B) `height: 0` around children that all collapse through
      if !b.hidden && b.minHeight != 0 && hasInFlow ks then throw "A:min-height-with-in-flow-children"
      if !b.hidden && b.height == some 0 && hasInFlow ks && collapsesThrough (.node b ks) then throw "B:height-0-around-collapsed-children"
      pure (.node b ks, ls)
def buildKids : List (STree α) → List (Layout α) → R (List Tree × List (Layout α))
  | [], ls => pure ([], ls)
  | c :: rest, ls => do
    let (t, ls) ← build false c ls
    let (ts, ls) ← buildKids rest ls
    pure (t :: ts, ls)
end

end generic

end C10Conv
