/-
  C04 — the tree level: the cache-free evaluator (`Eval.evalNodeWith Eval.noCache`) commutes with scaling whenever the
  layout algorithms it dispatches to do (`AlgsHomogeneous`).  Induction on the fuel and on the interaction program.
-/
import TaffyVerif.Lemmas.ScaleMath
import TaffyVerif.Lemmas.EvalUnfold

set_option linter.unusedSectionVars false
set_option linter.unusedVariables false
set_option linter.unusedSimpArgs false

namespace C04
open Scalable Eval

variable {k : Rat}

/-! ### interaction programs -/

section prog
variable {β γ : Type} [Scalable β] [Scalable γ]

@[scale_simp] theorem scaleProg_pure (k : Rat) (b : β) : scaleProg k (ProgM.pure b : ProgM Rat β) = .pure (scale k b) := rfl
theorem scaleProg_call (k : Rat) (i : Nat) (inp : LayoutInput Rat) (c : LayoutOutput Rat → ProgM Rat β) :
    scaleProg k (ProgM.call i inp c) = .call i (scale k inp) (fun o => scaleProg k (c (scale k⁻¹ o))) := rfl
theorem scaleProg_setLayout (k : Rat) (i : Nat) (l : Layout Rat) (c : Unit → ProgM Rat β) :
    scaleProg k (ProgM.setLayout i l c) = .setLayout i (scale k l) (fun u => scaleProg k (c u)) := rfl
theorem scale_prog (k : Rat) (p : ProgM Rat β) : scale k p = scaleProg k p := rfl

/-- `pure` of the monad instance -/
theorem scaleProg_pure' (k : Rat) (b : β) : scaleProg k (pure b : ProgM Rat β) = pure (scale k b) := rfl

/-- the scaled program of a `bind`: if the continuation commutes with scaling, so does the whole -/
theorem bind_scaleProg (k : Rat) (p : ProgM Rat β) (f : β → ProgM Rat γ) (g : β → ProgM Rat γ)
    (h : ∀ b, g (scale k b) = scaleProg k (f b)) :
    ProgM.bind (scaleProg k p) g = scaleProg k (ProgM.bind p f) := by
  induction p with
  | pure b => exact h b
  | call i inp c ih =>
    simp only [scaleProg, ProgM.bind]
    congr 1
    funext o
    exact ih _
  | setLayout i l c ih =>
    simp only [scaleProg, ProgM.bind]
    congr 1
    funext u
    exact ih _

theorem bind_scaleProg' (k : Rat) (p : ProgM Rat β) (f : β → ProgM Rat γ) (g : β → ProgM Rat γ)
    (h : ∀ b, g (scale k b) = scaleProg k (f b)) :
    (scaleProg k p >>= g) = scaleProg k (p >>= f) := bind_scaleProg k p f g h

/-- `bind` of two programs that commute with scaling -/
theorem bind_scale_of (k : Rat) (p' p : ProgM Rat β) (g f : β → ProgM Rat γ) (hp : p' = scaleProg k p)
    (h : ∀ b, g (scale k b) = scaleProg k (f b)) : (p' >>= g) = scaleProg k (p >>= f) := by
  rw [hp]
  exact bind_scaleProg k p f g h

/-- a `call` whose continuation commutes with scaling -/
theorem call_scaleProg (hk : 0 < k) (i : Nat) (inp : LayoutInput Rat) (c c' : LayoutOutput Rat → ProgM Rat β)
    (h : ∀ o, c' (scale k o) = scaleProg k (c o)) :
    ProgM.call i (scale k inp) c' = scaleProg k (ProgM.call i inp c) := by
  rw [scaleProg_call]
  congr 1
  funext o
  rw [← h, scale_inv_cancel hk]

theorem setLayout_scaleProg (k : Rat) (i : Nat) (l : Layout Rat) (c c' : Unit → ProgM Rat β)
    (h : ∀ u, c' u = scaleProg k (c u)) :
    ProgM.setLayout i (scale k l) c' = scaleProg k (ProgM.setLayout i l c) := by
  rw [scaleProg_setLayout]
  congr 1
  funext u
  exact h u

end prog

theorem computeChildLayout_scale (hk : 0 < k) (i : Nat) (inp : LayoutInput Rat) :
    ProgM.computeChildLayout i (scale k inp) = scaleProg k (ProgM.computeChildLayout i inp) :=
  call_scaleProg hk i inp _ _ (fun _ => rfl)

theorem setUnroundedLayout_scale (k : Rat) (i : Nat) (l : Layout Rat) :
    ProgM.setUnroundedLayout i (scale k l) = scaleProg k (ProgM.setUnroundedLayout i l) :=
  setLayout_scaleProg k i l _ _ (fun _ => rfl)

theorem performChildLayout_scale (hk : 0 < k) (i : Nat) (kd ps : Size (Option Rat)) (av : Size (AvailableSpace Rat))
    (sm : SizingMode) (v : Line Bool) :
    ProgM.performChildLayout i (scale k kd) (scale k ps) (scale k av) sm v =
      scaleProg k (ProgM.performChildLayout i kd ps av sm v) :=
  computeChildLayout_scale hk i ⟨.performLayout, sm, .both, kd, ps, av, v⟩

theorem measureChildSize_scale (hk : 0 < k) (i : Nat) (kd ps : Size (Option Rat)) (av : Size (AvailableSpace Rat))
    (sm : SizingMode) (horizontal : Bool) (v : Line Bool) :
    ProgM.measureChildSize i (scale k kd) (scale k ps) (scale k av) sm horizontal v =
      scaleProg k (ProgM.measureChildSize i kd ps av sm horizontal v) := by
  unfold ProgM.measureChildSize
  have h := computeChildLayout_scale hk i
    ⟨.computeSize, sm, if horizontal then .horizontal else .vertical, kd, ps, av, v⟩
  rw [scale_li_mk] at h
  rw [h]
  apply bind_scaleProg'
  intro o
  cases horizontal <;> rfl

/-! ### trees and per-node data -/

theorem scaleTrees_eq_map (k : Rat) : ∀ ts : List (STree Rat), scaleTrees k ts = ts.map (scaleTree k)
  | [] => rfl
  | t :: ts => by simp only [scaleTrees, List.map_cons, scaleTrees_eq_map k ts]

theorem scale_tree_node (k : Rat) (s : Style Rat) (c : Option (MeasureSpec Rat)) (kids : List (STree Rat)) :
    scale k (STree.node s c kids) = STree.node (scale k s) (scale k c) (scale k kids) := by
  show scaleTree k _ = _
  rw [scaleTree, scaleTrees_eq_map]
  rfl

theorem scaleNSs_eq_map {C : Type} (k : Rat) : ∀ ns : List (NS Rat C), scaleNSs k ns = ns.map (scaleNS k)
  | [] => rfl
  | n :: ns => by simp only [scaleNSs, List.map_cons, scaleNSs_eq_map k ns]

theorem scale_ns_mk {C : Type} (k : Rat) (c : C) (l : Layout Rat) (kids : List (NS Rat C)) :
    scale k (NS.mk c l kids) = NS.mk c (scale k l) (scale k kids) := by
  show scaleNS k _ = _
  rw [scaleNS, scaleNSs_eq_map]
  rfl

theorem scale_tree_style (k : Rat) (t : STree Rat) : (scale k t).style = scale k t.style := by
  cases t; rw [scale_tree_node]; rfl

theorem map_style_scale (k : Rat) (kids : List (STree Rat)) :
    (scale k kids).map STree.style = (kids.map STree.style).map (scale k) := by
  simp only [scale_list, List.map_map]
  congr 1
  funext t
  exact scale_tree_style k t

theorem isEmpty_scale {β : Type} [Scalable β] (k : Rat) (l : List β) : (scale k l).isEmpty = l.isEmpty := by
  cases l <;> rfl

theorem getElem?_scale {β : Type} [Scalable β] (k : Rat) (l : List β) (i : Nat) :
    (scale k l)[i]? = scale k l[i]? := by
  simp only [scale_list, List.getElem?_map, scale_option]

theorem set_scale {β : Type} [Scalable β] (k : Rat) (l : List β) (i : Nat) (x : β) :
    (scale k l).set i (scale k x) = scale k (l.set i x) := by
  simp only [scale_list, List.map_set]

section ns
variable {C : Type} (ci : CacheImpl Rat C)

mutual
theorem hiddenLayout_scale (k : Rat) : ∀ ns : NS Rat C, hiddenLayout ci (scale k ns) = scale k (hiddenLayout ci ns)
  | .mk c l kids => by
    rw [scale_ns_mk, hiddenLayout, hiddenLayout, scale_ns_mk, scale_l_withOrder]
    congr 1
    exact hiddenLayoutList_scale k kids
theorem hiddenLayoutList_scale (k : Rat) :
    ∀ ks : List (NS Rat C), hiddenLayoutList ci (scale k ks) = scale k (hiddenLayoutList ci ks)
  | [] => rfl
  | n :: ns => by
    rw [scale_cons, hiddenLayoutList, hiddenLayoutList, scale_cons, hiddenLayout_scale k n, hiddenLayoutList_scale k ns]
end

mutual
theorem init_scale (k : Rat) : ∀ t : STree Rat, NS.init ci (scale k t) = scale k (NS.init ci t)
  | .node s c kids => by
    rw [scale_tree_node, NS.init, NS.init, scale_ns_mk, scale_l_new]
    congr 1
    exact initList_scale k kids
theorem initList_scale (k : Rat) : ∀ ts : List (STree Rat), NS.initList ci (scale k ts) = scale k (NS.initList ci ts)
  | [] => rfl
  | t :: ts => by
    rw [scale_cons, NS.initList, NS.initList, scale_cons, init_scale k t, initList_scale k ts]
end

theorem setLayoutAt_scale (k : Rat) (ks : List (NS Rat C)) (i : Nat) (l : Layout Rat) :
    setLayoutAt (scale k ks) i (scale k l) = scale k (setLayoutAt ks i l) := by
  unfold setLayoutAt
  rw [getElem?_scale]
  cases h : ks[i]? with
  | none => rfl
  | some n =>
    cases n with
    | mk c l0 kk =>
      simp only [scale_some, scale_ns_mk]
      rw [← scale_ns_mk, set_scale]

end ns

/-! ### the evaluator -/

/-- the recursive call commutes with scaling -/
def EvHom (k : Rat) (ev : STree Rat → NS Rat Unit → LayoutInput Rat → LayoutOutput Rat × NS Rat Unit) : Prop :=
  ∀ t n cin, ev (scale k t) (scale k n) (scale k cin) = scale k (ev t n cin)

theorem evalChildOf_scale (ev : STree Rat → NS Rat Unit → LayoutInput Rat → LayoutOutput Rat × NS Rat Unit)
    (hev : EvHom k ev) (kids : List (STree Rat)) (i : Nat) (cin : LayoutInput Rat) (ks : List (NS Rat Unit)) :
    evalChildOf ev (scale k kids) i (scale k cin) (scale k ks) = scale k (evalChildOf ev kids i cin ks) := by
  unfold evalChildOf
  rw [getElem?_scale, getElem?_scale]
  cases h1 : kids[i]? with
  | none => simp only [scale_simp]
  | some t =>
    cases h2 : ks[i]? with
    | none => simp only [scale_simp]
    | some n =>
      simp only [scale_some, hev t n cin, scale_pair, scale_fst, scale_snd, set_scale]

theorem runProg_scale {β : Type} [Scalable β] (hk : 0 < k)
    (ev : STree Rat → NS Rat Unit → LayoutInput Rat → LayoutOutput Rat × NS Rat Unit) (hev : EvHom k ev)
    (kids : List (STree Rat)) (p : ProgM Rat β) :
    ∀ ks : List (NS Rat Unit),
      runProg (evalChildOf ev (scale k kids)) (scaleProg k p) (scale k ks) =
        scale k (runProg (evalChildOf ev kids) p ks) := by
  induction p with
  | pure b => intro ks; rfl
  | call i cin c ih =>
    intro ks
    simp only [scaleProg, runProg, evalChildOf_scale ev hev, scale_fst, scale_snd, scale_cancel_inv hk]
    exact ih _ _
  | setLayout i l c ih =>
    intro ks
    simp only [scaleProg, runProg, setLayoutAt_scale]
    exact ih _ _

theorem runOn_scale (hk : 0 < k)
    (ev : STree Rat → NS Rat Unit → LayoutInput Rat → LayoutOutput Rat × NS Rat Unit) (hev : EvHom k ev)
    (kids : List (STree Rat)) (ns : NS Rat Unit) (p : ProgM Rat (LayoutOutput Rat)) :
    runOn (evalChildOf ev (scale k kids)) (scale k ns) (scaleProg k p) = scale k (runOn (evalChildOf ev kids) ns p) := by
  cases ns with
  | mk c l nk =>
    simp only [scale_ns_mk, runOn, runProg_scale hk ev hev, scale_pair, scale_fst, scale_snd]

/-- the layout algorithms commute with scaling by `k` -/
structure AlgsHomogeneous (algs : Algs Rat) (k : Rat) : Prop where
  leaf : ∀ (inp : LayoutInput Rat) (style : Style Rat) (m : Size (Option Rat) → Size (AvailableSpace Rat) → Size Rat),
    algs.leaf (scale k inp) (scale k style) (scaleMeasure k m) = scale k (algs.leaf inp style m)
  block : ∀ (style : Style Rat) (styles : List (Style Rat)) (inp : LayoutInput Rat),
    algs.block (scale k style) (styles.map (scale k)) (scale k inp) = scaleProg k (algs.block style styles inp)
  flex : ∀ (style : Style Rat) (styles : List (Style Rat)) (inp : LayoutInput Rat),
    algs.flex (scale k style) (styles.map (scale k)) (scale k inp) = scaleProg k (algs.flex style styles inp)
  grid : ∀ (style : Style Rat) (styles : List (Style Rat)) (inp : LayoutInput Rat),
    algs.grid (scale k style) (styles.map (scale k)) (scale k inp) = scaleProg k (algs.grid style styles inp)

theorem computeOf_scale (hk : 0 < k) (sel : Display → Bool → Option Gen.Facts.Callee) (algs : Algs Rat)
    (h : AlgsHomogeneous algs k)
    (ev : STree Rat → NS Rat Unit → LayoutInput Rat → LayoutOutput Rat × NS Rat Unit) (hev : EvHom k ev)
    (style : Style Rat) (ctx : Option (MeasureSpec Rat)) (kids : List (STree Rat)) (ns : NS Rat Unit)
    (inp : LayoutInput Rat) :
    computeOf noCache sel algs ev (scale k style) (scale k ctx) (scale k kids) (scale k ns) (scale k inp) =
      scale k (computeOf noCache sel algs ev style ctx kids ns inp) := by
  unfold computeOf
  rw [style_display, isEmpty_scale, map_style_scale]
  cases sel style.display (!kids.isEmpty) with
  | none => simp only [scale_simp]
  | some c =>
    cases c with
    | hidden => simp only [scale_simp, hiddenLayout_scale]
    | leaf => simp only [scale_pair, measureOf_scale hk, h.leaf]
    | block => simp only [h.block, runOn_scale hk ev hev]
    | flex => simp only [h.flex, runOn_scale hk ev hev]
    | grid => simp only [h.grid, runOn_scale hk ev hev]

theorem storeOf_scale (k : Rat) (inp : LayoutInput Rat) (r : LayoutOutput Rat × NS Rat Unit) :
    storeOf noCache (scale k inp) (scale k r) = scale k (storeOf noCache inp r) := by
  obtain ⟨o, ns⟩ := r
  cases ns with
  | mk c l nk => simp only [scale_pair, scale_ns_mk, storeOf_mk]

/-- **tree level**: the cache-free evaluator commutes with scaling, for every dispatch table, every fuel, every tree,
every state of the stored layouts and every input -/
theorem evalNodeWith_scale (hk : 0 < k) (sel : Display → Bool → Option Gen.Facts.Callee) (algs : Algs Rat)
    (h : AlgsHomogeneous algs k) :
    ∀ (fuel : Nat) (t : STree Rat) (ns : NS Rat Unit) (inp : LayoutInput Rat),
      evalNodeWith noCache sel algs fuel (scale k t) (scale k ns) (scale k inp) =
        scale k (evalNodeWith noCache sel algs fuel t ns inp) := by
  intro fuel
  induction fuel with
  | zero =>
    intro t ns inp
    simp only [eval_zero, scale_pair, scale_lo_hidden]
  | succ fuel ih =>
    intro t ns inp
    cases t with
    | node style ctx kids =>
      rw [scale_tree_node, eval_succ, eval_succ, li_runMode]
      split
      · simp only [scale_pair, scale_lo_hidden, hiddenLayout_scale]
      · have hg : ∀ (c : Unit) (i : LayoutInput Rat), (noCache : CacheImpl Rat Unit).get c i = none := fun _ _ => rfl
        simp only [hg]
        rw [computeOf_scale hk sel algs h _ ih, storeOf_scale]

end C04
