/-
  C03 (finiteness) — the loop bodies of the block model cut into stages, at `ER` (the same definitional re-bracketing
  as Lemmas/ScaleBlock.lean uses at `ER`; `placeItem_eq` / `absItem_eq` are proved by `rfl` after unfolding).
-/
import TaffyVerif.Model.ExtNum
import TaffyVerif.Model.Block

namespace C03Fin
open BlockModel

/-! #### the loop body `placeItem`, cut into stages (`placeItem_eq`) -/

/-- the resolved margin of an in-flow item (auto x-margins share the free space) -/
def piMargin (c : FlowCtx ER) (item : BlockItem ER) (out : LayoutOutput ER) : Rect ER :=
  let itemMargin := itemMargin c item
  let freeXSpace := Num.fmax 0 (c.containerInnerWidth - out.size.width - itemNonAutoXMarginSum c item)
  let autoMarginCount : Nat := (if itemMargin.left.isNone then 1 else 0) + (if itemMargin.right.isNone then 1 else 0)
  let xAxisAutoMarginSize : ER := if autoMarginCount > 0 then freeXSpace / Num.ofNat autoMarginCount else 0
  { left := itemMargin.left.getD xAxisAutoMarginSize, right := itemMargin.right.getD xAxisAutoMarginSize,
    top := (topMarginSet c item out).resolve, bottom := (bottomMarginSet c item out).resolve }

/-- `location.x` after text alignment -/
def piX (c : FlowCtx ER) (item : BlockItem ER) (out : LayoutOutput ER) (rm : Rect ER) : ER :=
  let x0 : ER := c.resolvedContentBoxInset.left + insetOffsetX c item + rm.left
  let itemOuterWidth := out.size.width + rm.horizontalAxisSum
  if Num.flt itemOuterWidth c.containerInnerWidth then
    match c.textAlign with
    | .auto => x0
    | .legacyLeft => x0
    | .legacyRight => x0 + (c.containerInnerWidth - itemOuterWidth)
    | .legacyCenter => x0 + (c.containerInnerWidth - itemOuterWidth) / Num.two
  else x0

def piLocation (c : FlowCtx ER) (st : FlowState ER) (item : BlockItem ER) (out : LayoutOutput ER) (rm : Rect ER) :
    Point ER :=
  ⟨piX c item out rm, st.committedYOffset + insetOffsetY item + yMarginOffset c st (topMarginSet c item out)⟩

def piLayout (item : BlockItem ER) (out : LayoutOutput ER) (rm : Rect ER) (loc : Point ER) : Layout ER :=
  { order := item.order, size := out.size, contentSize := out.contentSize,
    scrollbarSize :=
      ⟨if item.overflow.y == .scroll then item.scrollbarWidth else 0,
       if item.overflow.x == .scroll then item.scrollbarWidth else 0⟩,
    location := loc, padding := item.padding, border := item.border, margin := rm }

def piFirstSet (st : FlowState ER) (canCollapse : Bool) (topSet bottomSet : MarginSet ER) : MarginSet ER :=
  if st.isCollapsingWithFirstMarginSet then
    if canCollapse then (st.firstChildTopMarginSet.collapseWithSet topSet).collapseWithSet bottomSet
    else st.firstChildTopMarginSet.collapseWithSet topSet
  else st.firstChildTopMarginSet

def piState (c : FlowCtx ER) (st : FlowState ER) (item : BlockItem ER) (out : LayoutOutput ER) (loc : Point ER) :
    FlowState ER :=
  let topSet := topMarginSet c item out
  let bottomSet := bottomMarginSet c item out
  let ymo := yMarginOffset c st topSet
  let ics := st.inflowContentSize.f32Max (contentSizeContribution loc out.size out.contentSize item.overflow)
  let canCollapse := out.marginsCanCollapseThrough
  if canCollapse then
    { inflowContentSize := ics, committedYOffset := st.committedYOffset,
      yOffsetForAbsolute := st.committedYOffset + out.size.height + ymo,
      firstChildTopMarginSet := piFirstSet st canCollapse topSet bottomSet,
      activeCollapsibleMarginSet := (st.activeCollapsibleMarginSet.collapseWithSet topSet).collapseWithSet bottomSet,
      isCollapsingWithFirstMarginSet := st.isCollapsingWithFirstMarginSet && canCollapse }
  else
    { inflowContentSize := ics, committedYOffset := st.committedYOffset + (out.size.height + ymo),
      yOffsetForAbsolute := st.committedYOffset + (out.size.height + ymo) + bottomSet.resolve,
      firstChildTopMarginSet := piFirstSet st canCollapse topSet bottomSet,
      activeCollapsibleMarginSet := bottomSet,
      isCollapsingWithFirstMarginSet := st.isCollapsingWithFirstMarginSet && canCollapse }

theorem placeItem_eq (c : FlowCtx ER) (st : FlowState ER) (item : BlockItem ER) (out : LayoutOutput ER) :
    placeItem c st item out =
      { st := piState c st item out (piLocation c st item out (piMargin c item out)),
        item := { item with computedSize := out.size, canBeCollapsedThrough := out.marginsCanCollapseThrough,
                            staticPosition :=
                              ⟨c.resolvedContentBoxInset.left,
                               st.committedYOffset + st.activeCollapsibleMarginSet.resolve⟩ },
        layout := piLayout item out (piMargin c item out) (piLocation c st item out (piMargin c item out)) } := by
  unfold placeItem piState piLayout piLocation piX piMargin piFirstSet
  cases st.isCollapsingWithFirstMarginSet <;> cases out.marginsCanCollapseThrough <;> rfl

/-! ### perform_absolute_layout_on_absolute_children: the loop body `absItem`, cut into stages (`absItem_eq`) -/

/-- the child's style resolved against the area (block.rs l.602–634) -/
structure AiRes where
  margin : Rect (Option ER)
  padding : Rect ER
  border : Rect ER
  left : Option ER
  right : Option ER
  top : Option ER
  bottom : Option ER
  styleSize : Size (Option ER)
  minSize : Size (Option ER)
  maxSize : Size (Option ER)

def aiRes (cs : Style ER) (areaSize : Size ER) : AiRes :=
  let areaWidth := areaSize.width
  let areaHeight := areaSize.height
  let padding := Resolve.rectLPOrZero cs.padding (some areaWidth)
  let border := Resolve.rectLPOrZero cs.border (some areaWidth)
  let paddingBorderSum := (padding.add border).sumAxes
  let adj := boxSizingAdjustment cs paddingBorderSum
  let areaOpt : Size (Option ER) := ⟨some areaWidth, some areaHeight⟩
  { margin := ⟨cs.margin.left.resolveToOption areaWidth, cs.margin.right.resolveToOption areaWidth,
     cs.margin.top.resolveToOption areaWidth, cs.margin.bottom.resolveToOption areaWidth⟩,
    padding, border,
    left := cs.inset.left.maybeResolve (some areaWidth),
    right := cs.inset.right.maybeResolve (some areaWidth),
    top := cs.inset.top.maybeResolve (some areaHeight),
    bottom := cs.inset.bottom.maybeResolve (some areaHeight),
    styleSize := resolveStyleSize cs.size areaOpt cs.aspectRatio adj,
    minSize := ((resolveStyleSize cs.minSize areaOpt cs.aspectRatio adj).orOpt
      ⟨some paddingBorderSum.width, some paddingBorderSum.height⟩).of_max paddingBorderSum,
    maxSize := resolveStyleSize cs.maxSize areaOpt cs.aspectRatio adj }

def aiKd1 (r : AiRes) (areaWidth : ER) (ar : Option ER) (kd0 : Size (Option ER)) : Size (Option ER) :=
    match kd0.width, r.left, r.right with
    | none, some l, some rr =>
      let newWidthRaw := MaybeMath.fo_sub (MaybeMath.fo_sub areaWidth r.margin.left) r.margin.right - l - rr
      ((⟨some (Num.fmax newWidthRaw 0), kd0.height⟩ : Size (Option ER)).maybeApplyAspectRatio ar).oo_clamp
        r.minSize r.maxSize
    | _, _, _ => kd0

def aiKd2 (r : AiRes) (areaHeight : ER) (ar : Option ER) (kd1 : Size (Option ER)) : Size (Option ER) :=
    match kd1.height, r.top, r.bottom with
    | none, some t, some b =>
      let newHeightRaw := MaybeMath.fo_sub (MaybeMath.fo_sub areaHeight r.margin.top) r.margin.bottom - t - b
      ((⟨kd1.width, some (Num.fmax newHeightRaw 0)⟩ : Size (Option ER)).maybeApplyAspectRatio ar).oo_clamp
        r.minSize r.maxSize
    | _, _, _ => kd1

def aiKd (cs : Style ER) (areaSize : Size ER) : Size (Option ER) :=
  let r := aiRes cs areaSize
  aiKd2 r areaSize.height cs.aspectRatio (aiKd1 r areaSize.width cs.aspectRatio (r.styleSize.oo_clamp r.minSize r.maxSize))

def aiFinal (r : AiRes) (kd2 : Size (Option ER)) (measured : Size ER) : Size ER :=
  (kd2.unwrapOr measured).fo_clamp r.minSize r.maxSize

def aiAuto (count : Nat) (ss : Option ER) (free : ER) : ER :=
  if count == 2 && (match ss with | none => true | some w => Num.fge w free) then 0
  else if count > 0 then free / Num.ofNat count else 0

def aiMargin (r : AiRes) (areaSize finalSize : Size ER) : Rect ER :=
  let nonAutoMargin : Rect ER :=
    { left := if r.left.isSome then r.margin.left.getD 0 else 0,
      right := if r.right.isSome then r.margin.right.getD 0 else 0,
      top := if r.top.isSome then r.margin.top.getD 0 else 0,
      bottom := if r.bottom.isSome then r.margin.bottom.getD 0 else 0 }
  let spaceX : ER := match r.right with
    | some rr => areaSize.width - rr - r.left.getD 0
    | none => finalSize.width
  let spaceY : ER := match r.bottom with
    | some b => areaSize.height - b - r.top.getD 0
    | none => finalSize.height
  let freeW := spaceX - finalSize.width - nonAutoMargin.horizontalAxisSum
  let freeH := spaceY - finalSize.height - nonAutoMargin.verticalAxisSum
  let countW : Nat := (if r.margin.left.isNone then 1 else 0) + (if r.margin.right.isNone then 1 else 0)
  let autoW : ER := aiAuto countW r.styleSize.width freeW
  let countH : Nat := (if r.margin.top.isNone then 1 else 0) + (if r.margin.bottom.isNone then 1 else 0)
  let autoH : ER := aiAuto countH r.styleSize.height freeH
  { left := r.margin.left.getD autoW, right := r.margin.right.getD autoW,
    top := r.margin.top.getD autoH, bottom := r.margin.bottom.getD autoH }

def aiLoc (r : AiRes) (static : Point ER) (areaSize : Size ER) (areaOffset : Point ER) (finalSize : Size ER)
    (rm : Rect ER) : Point ER :=
  ⟨(MaybeMath.of_add ((r.left.map fun l => l + rm.left).or
        (r.right.map fun rr => areaSize.width - finalSize.width - rr - rm.right)) areaOffset.x).getD
      (static.x + rm.left),
   (MaybeMath.of_add ((r.top.map fun t => t + rm.top).or
        (r.bottom.map fun b => areaSize.height - finalSize.height - b - rm.bottom)) areaOffset.y).getD
      (static.y + rm.top)⟩

def aiLayout (item : BlockItem ER) (cs : Style ER) (areaSize : Size ER) (areaOffset : Point ER)
    (out : LayoutOutput ER) : Layout ER :=
  let r := aiRes cs areaSize
  let finalSize := aiFinal r (aiKd cs areaSize) out.size
  let rm := aiMargin r areaSize finalSize
  { order := item.order, size := finalSize, contentSize := out.contentSize,
    scrollbarSize := ⟨if item.overflow.y == .scroll then item.scrollbarWidth else 0,
     if item.overflow.x == .scroll then item.scrollbarWidth else 0⟩,
    location := aiLoc r item.staticPosition areaSize areaOffset finalSize rm,
    padding := r.padding, border := r.border, margin := rm }

theorem absItem_eq (item : BlockItem ER) (cs : Style ER) (areaSize : Size ER) (areaOffset : Point ER) (acc : Size ER) :
    absItem item cs areaSize areaOffset acc =
      (do
        let out ← ProgM.performChildLayout item.nodeIdx (aiKd cs areaSize) ⟨some areaSize.width, some areaSize.height⟩
          ⟨.definite (MaybeMath.fo_clamp areaSize.width (aiRes cs areaSize).minSize.width (aiRes cs areaSize).maxSize.width),
           .definite (MaybeMath.fo_clamp areaSize.height (aiRes cs areaSize).minSize.height (aiRes cs areaSize).maxSize.height)⟩
          .contentSize ⟨false, false⟩
        let l := aiLayout item cs areaSize areaOffset out
        ProgM.setUnroundedLayout item.nodeIdx l
        pure (acc.f32Max (contentSizeContribution l.location l.size out.contentSize item.overflow))) := by
  unfold absItem aiLayout aiLoc aiMargin aiAuto aiFinal aiKd aiKd2 aiKd1 aiRes
  unfold BlockModel.absItem.match_1 BlockModel.absItem.match_5 BlockModel.contentWidthLoop.match_1 aiKd1.match_1
    aiAuto.match_1 aiMargin.match_1
  rfl

end C03Fin
