/-
  C12 for grid (Model/Grid.lean, GridItem.lean): every content-box/border-box conversion site, inside the WHOLE program.

  The container's own style is read by `mkCtx` (min/max/preferred size with the adjustment) and by
  `compute_explicit_grid_size_in_axis` (only whether `size` / `max_size` are definite).  A child's style is read by
  `GridItem::new…` (raw copies of `box_sizing`, `size`, `min_size`, `max_size`, padding, border, aspect ratio), then
      `GridItem::known_dimensions`          size / min / max with the adjustment
      `GridItem::minimum_contribution`      size / min with the adjustment; the cap of compressible replaced items
                                            (size / max-size with the adjustment: the REPAIRED site, grid_item.rs l.517–522)
      `align_and_position_item`             (`AbsPos.gridResolve`) for in-flow and absolutely positioned children
  and by the display/position filters and the placement (`grid_row`, `grid_column`: untouched by the rewriting).
-/
import TaffyVerif.Lemmas.GridBoxTop2
import TaffyVerif.Lemmas.BoxSizingAbs
import TaffyVerif.Lemmas.BoxSizingBlock
import TaffyVerif.Model.GridEval

set_option linter.unusedSectionVars false

namespace C12L
open BoxSizingModel GridModel GridTracks GridRel GridStages

/-! ### the item readers at `Rat` -/

theorem itemElig_unpack {it : GItem Rat} (h : itemElig it = true) :
    it.boxSizing = .contentBox ∧ it.aspectRatio = none ∧ rectIsLength it.padding = true ∧
    rectIsLength it.border = true ∧ sizeNoPercent it.size = true ∧ sizeNoPercent it.minSize = true ∧
    sizeNoPercent it.maxSize = true := by
  unfold itemElig at h
  simp only [Bool.and_eq_true] at h
  obtain ⟨⟨⟨⟨⟨⟨h1, h2⟩, h3⟩, h4⟩, h5⟩, h6⟩, h7⟩ := h
  refine ⟨?_, ?_, h3, h4, h5, h6, h7⟩
  · cases hb : it.boxSizing with
    | contentBox => rfl
    | borderBox => rw [hb] at h1; exact absurd h1 (by decide)
  · cases ha : it.aspectRatio with
    | none => rfl
    | some r => rw [ha] at h2; exact Bool.noConfusion h2

theorem adj_elig {it : GItem Rat} (h : itemElig it = true) (ctx : Size (Option Rat)) :
    ((Resolve.rectLPOrZeroSize it.padding ctx).add (Resolve.rectLPOrZeroSize it.border ctx)).sumAxes = itemPb it := by
  obtain ⟨_, _, hp, hb, _⟩ := itemElig_unpack h
  rw [rect_resolve_size _ hp, rect_resolve_size _ hb]
  rfl

theorem resolveSize_bump {it : GItem Rat} (d : Size (Dimension Rat)) (hd : sizeNoPercent d = true)
    (ctx : Size (Option Rat)) :
    GItem.resolveSize (bumpSize d (itemPb it)) ctx none Size.zero = GItem.resolveSize d ctx none (itemPb it) := by
  unfold GItem.resolveSize
  rw [bumpSize_resolve _ hd, aspect_none, aspect_none, of_add_zero]

theorem bump_marginsAxisSums (it : GItem Rat) (o : Option Rat) :
    (bumpItem it).marginsAxisSums o = it.marginsAxisSums o := rfl
theorem bump_margin (it : GItem Rat) : (bumpItem it).margin = it.margin := rfl
theorem bump_justifySelf (it : GItem Rat) : (bumpItem it).justifySelf = it.justifySelf := rfl
theorem bump_alignSelf (it : GItem Rat) : (bumpItem it).alignSelf = it.alignSelf := rfl
theorem bump_aspectRatio (it : GItem Rat) : (bumpItem it).aspectRatio = it.aspectRatio := rfl
theorem bump_padding (it : GItem Rat) : (bumpItem it).padding = it.padding := rfl
theorem bump_border (it : GItem Rat) : (bumpItem it).border = it.border := rfl
theorem bump_boxSizing (it : GItem Rat) : (bumpItem it).boxSizing = .borderBox := rfl
theorem bump_size (it : GItem Rat) : (bumpItem it).size = bumpSize it.size (itemPb it) := rfl
theorem bump_minSize (it : GItem Rat) : (bumpItem it).minSize = bumpSize it.minSize (itemPb it) := rfl
theorem bump_maxSize (it : GItem Rat) : (bumpItem it).maxSize = bumpSize it.maxSize (itemPb it) := rfl

theorem knownDimensions_bump {it : GItem Rat} (h : itemElig it = true) (ins gas : Size (Option Rat)) :
    (bumpItem it).knownDimensions ins gas = it.knownDimensions ins gas := by
  obtain ⟨h1, h2, _, _, h5, h6, h7⟩ := itemElig_unpack h
  unfold GItem.knownDimensions
  simp only [bump_marginsAxisSums, bump_margin, bump_justifySelf, bump_alignSelf, bump_aspectRatio, bump_padding,
    bump_border, bump_boxSizing, bump_size, bump_minSize, bump_maxSize, h1, h2, beq_cb_cb, beq_bb_cb, if_true,
    Bool.false_eq_true, if_false, adj_elig h, resolveSize_bump _ h5, resolveSize_bump _ h6, resolveSize_bump _ h7]
  rfl

theorem mcAdj_elig {it : GItem Rat} (h : itemElig it = true) (ins : Size (Option Rat)) : mcAdj it ins = itemPb it := by
  obtain ⟨h1, _⟩ := itemElig_unpack h
  unfold mcAdj
  simp only [h1, beq_cb_cb, if_true, adj_elig h]

theorem mcFromStyle_bump {it : GItem Rat} (h : itemElig it = true) (ax : Ax) (ins : Size (Option Rat)) :
    mcFromStyle (bumpItem it) ax ins = mcFromStyle it ax ins := by
  obtain ⟨h1, h2, _, _, h5, h6, h7⟩ := itemElig_unpack h
  unfold mcFromStyle
  rw [mcAdj_elig h]
  show ((sget (GItem.resolveSize (bumpSize it.size (itemPb it)) ins it.aspectRatio Size.zero) ax).or
    (sget (GItem.resolveSize (bumpSize it.minSize (itemPb it)) ins it.aspectRatio Size.zero) ax)).or _ = _
  rw [h2, resolveSize_bump _ h5, resolveSize_bump _ h6]
  rfl

theorem sget_bumpSize (d : Size (Dimension Rat)) (p : Size Rat) (ax : Ax) :
    sget (bumpSize d p) ax = bumpDim (sget d ax) (sget p ax) := by
  cases ax <;> rfl

theorem sget_noPercent {d : Size (Dimension Rat)} (hd : sizeNoPercent d = true) (ax : Ax) :
    dimNoPercent (sget d ax) = true := by
  unfold sizeNoPercent at hd
  simp only [Bool.and_eq_true] at hd
  cases ax
  · exact hd.1
  · exact hd.2

theorem sget_zero (ax : Ax) : sget (Size.zero : Size Rat) ax = 0 := by cases ax <;> rfl

/-- the repaired site: the cap of a compressible replaced item -/
theorem mcCap_bump {it it2 : GItem Rat} (h : itemElig it = true) (hs : StaticEq it2 it) (ax : Ax)
    (ins : Size (Option Rat)) (mc : Rat) :
    mcCap (bumpItem it2).size (bumpItem it2).maxSize (mcAdj (bumpItem it) ins) ax mc =
      mcCap it2.size it2.maxSize (mcAdj it ins) ax mc := by
  obtain ⟨_, _, _, _, h5, _, h7⟩ := itemElig_unpack h
  obtain ⟨_, _, e3, _, e5, e6, e7, _⟩ := hs
  have hpb : itemPb it2 = itemPb it := by unfold itemPb; rw [e6, e7]
  rw [mcAdj_elig h]
  show mcCap (bumpSize it2.size (itemPb it2)) (bumpSize it2.maxSize (itemPb it2)) Size.zero ax mc = _
  rw [hpb, e3, e5]
  unfold mcCap
  simp only [sget_bumpSize, bumpDim_resolve _ (sget_noPercent h5 ax), bumpDim_resolve _ (sget_noPercent h7 ax),
    sget_zero, opt_of_add_zero]

theorem static_elig {a b : GItem Rat} (hs : StaticEq a b) : itemElig a = itemElig b := by
  obtain ⟨_, e2, e3, e4, e5, e6, e7, e8⟩ := hs
  unfold itemElig
  rw [e2, e3, e4, e5, e6, e7, e8]

/-- **the two readers do not see the rewriting** (for every switched subset `P`) -/
theorem readers_rat (P : Nat → Bool) : Readers (α := Rat) P where
  known := fun it ins gas => by
    rcases phi_cases P it with h | ⟨he, h⟩ <;> rw [h]
    exact knownDimensions_bump he ins gas
  fromStyle := fun it ax ins => by
    rcases phi_cases P it with h | ⟨he, h⟩ <;> rw [h]
    exact mcFromStyle_bump he ax ins
  cap := fun it it2 ax ins mc hs => by
    have hc : (P it2.node && itemElig it2) = (P it.node && itemElig it) := by rw [hs.1, static_elig hs]
    unfold phi
    rw [hc]
    split
    · rename_i hcond
      simp only [Bool.and_eq_true] at hcond
      exact mcCap_bump hcond.2 hs ax ins mc
    · rfl

/-! ### the container's own style -/

variable {s : Style Rat} {m : Bool}

theorem gridResolveSize_tbb (_h : Eligible s) (d : Size (Dimension Rat)) (hd : sizeNoPercent d = true)
    (ctx : Size (Option Rat)) :
    GItem.resolveSize (bumpSize d (pbSum s)) ctx none Size.zero = GItem.resolveSize d ctx none (pbSum s) := by
  unfold GItem.resolveSize
  rw [bumpSize_resolve _ hd, aspect_none, aspect_none, of_add_zero]

theorem mkCtx_tbb (h : Eligible s) (inp : LayoutInput Rat) : mkCtx (toBorderBox m s) inp = mkCtx s inp := by
  unfold mkCtx
  simp only [tbb_aspectRatio, tbb_padding, tbb_border, tbb_boxSizing, tbb_size, tbb_minSize, tbb_maxSize, tbb_overflow,
    tbb_scrollbarWidth, tbb_alignItems, tbb_alignContent, tbb_justifyContent, tbb_justifyItems, h.boxSizing,
    h.aspectRatio, beq_cb_cb, beq_bb_cb, if_true, Bool.false_eq_true, if_false, padding_resolve h, border_resolve h,
    pbSum_fold, gridResolveSize_tbb h _ h.size, gridResolveSize_tbb h _ h.minSize, gridResolveSize_tbb h _ h.maxSize]
  rfl

theorem bumpDim_isSome (d : Dimension Rat) (hd : dimNoPercent d = true) (p : Rat) (c : Option Rat) :
    ((bumpDim d p).maybeResolve c).isSome = (d.maybeResolve c).isSome := by
  cases d with
  | length v => rfl
  | auto => rfl
  | percent f => exact Bool.noConfusion hd

theorem numRepetitions_bump [NumCast Rat] (size maxSize : Dimension Rat) (hs : dimNoPercent size = true)
    (hm : dimNoPercent maxSize = true) (p q : Rat) (gap : LP Rat) (tpl : List (TrackDef Rat))
    (rep : List (TrackFn Rat)) (n : Nat) (inner : Option Rat) :
    numRepetitions (bumpDim size p) (bumpDim maxSize q) gap tpl rep n inner =
      numRepetitions size maxSize gap tpl rep n inner := by
  unfold numRepetitions
  simp only [bumpDim_isSome _ hs, bumpDim_isSome _ hm]

theorem computeExplicit_bump (size maxSize : Dimension Rat) (hs : dimNoPercent size = true)
    (hm : dimNoPercent maxSize = true) (p q : Rat) (gap : LP Rat) (tpl : List (TrackDef Rat)) (inner : Option Rat) :
    computeExplicitGridSizeInAxis (bumpDim size p) (bumpDim maxSize q) gap tpl inner =
      computeExplicitGridSizeInAxis size maxSize gap tpl inner := by
  unfold computeExplicitGridSizeInAxis
  simp only [numRepetitions_bump _ _ hs hm]

theorem gridSetupK_tbb {β : Type} (h : Eligible s) (cs : List (GridChildStyle Rat)) (c : Ctx Rat)
    (k : Setup Rat → GM Rat β) :
    gridSetupK (GridStyle.ofStyle (toBorderBox m s)) cs c k = gridSetupK (GridStyle.ofStyle s) cs c k := by
  have hs := h.size
  have hm := h.maxSize
  unfold sizeNoPercent at hs hm
  simp only [Bool.and_eq_true] at hs hm
  unfold gridSetupK
  show (GM.ofExcept (computeExplicitGridSizeInAxis (bumpDim s.size.width _) (bumpDim s.maxSize.width _) s.gap.width
    s.grid.templateColumns _) >>= fun ec => GM.ofExcept (computeExplicitGridSizeInAxis (bumpDim s.size.height _)
    (bumpDim s.maxSize.height _) s.gap.height s.grid.templateRows _) >>= _) = _
  rw [computeExplicit_bump _ _ hs.1 hm.1, computeExplicit_bump _ _ hs.2 hm.2]
  rfl

/-- **grid container site**: the container's own style switched -/
theorem gridContainerE_site (h : Eligible s) (m : Bool) (cs : List (GridChildStyle Rat)) (inp : LayoutInput Rat) :
    computeGridLayoutE (GridStyle.ofStyle s) cs inp = computeGridLayoutE (GridStyle.ofStyle (toBorderBox m s)) cs inp := by
  rw [computeGridLayoutE_eq, computeGridLayoutE_eq]
  have e : ∀ t : Style Rat, (GridStyle.ofStyle t).base = t := fun _ => rfl
  rw [e, e, mkCtx_tbb h, gridSetupK_tbb h]

theorem gridContainer_site (h : Eligible s) (m : Bool) (cs : List (Style Rat)) (inp : LayoutInput Rat) :
    gridAlg s cs inp = gridAlg (toBorderBox m s) cs inp := by
  unfold gridAlg computeGridLayout
  rw [gridContainerE_site h m]

/-! ### child styles -/

theorem GRel.refl_eq {β : Type} (p : GM Rat β) : GRel (World.eq : World Rat) Eq p p := by
  show PRel _ _ p.run p.run
  generalize p.run = q
  induction q with
  | pure r =>
    refine PRel.pure _ _ ?_
    cases r <;> rfl
  | call i inp k ih =>
    refine PRel.call i inp _ _ (fun h => h) fun oA oB ho => ?_
    have e : oA = oB := ho
    subst e
    exact ih oA
  | setLayout i l k ih => exact PRel.setLayout i l l _ _ rfl (ih ())

theorem alignAndPositionItem_tbb (h : Eligible s) (i order : Nat) (area : Rect Rat) (ji ai : Option AlignItems)
    (shim : Rat) :
    alignAndPositionItem i (toBorderBox m s) order area ji ai shim = alignAndPositionItem i s order area ji ai shim := by
  unfold alignAndPositionItem
  simp only [gridResolve_tbb h, tbb_position, tbb_aspectRatio, tbb_justifySelf, tbb_alignSelf, tbb_overflow,
    absScrollbarSize_tbb]

theorem itemNew_tbb (_h : Eligible s) (i : Nat) (col row : Line Int) (ai ji : AlignItems) :
    GItem.new i col row (toBorderBox m s) ai ji i = bumpItem (GItem.new i col row s ai ji i) := rfl

theorem itemNew_elig (h : Eligible s) (i : Nat) (col row : Line Int) (ai ji : AlignItems) :
    itemElig (GItem.new i col row s ai ji i) = true := by
  obtain ⟨h1, h2, h3, h4, h5, h6, h7, _⟩ := h.unpack
  unfold itemElig
  show ((match s.boxSizing with | .contentBox => true | .borderBox => false) && s.aspectRatio.isNone &&
    rectIsLength s.padding && rectIsLength s.border && sizeNoPercent s.size && sizeNoPercent s.minSize &&
    sizeNoPercent s.maxSize) = true
  rw [h1, h2, h3, h4, h5, h6, h7]
  rfl

/-- one child, seen with its own style or with its border-box description -/
theorem childOK_rel (P : Nat → Bool) (i : Nat) {a b : Style Rat} (h : StyleRel m a b)
    (hP : P i = (a.boxSizing == .contentBox && b.boxSizing == .borderBox)) :
    ChildOK (World.eq : World Rat) P Eq i (GridChildStyle.ofStyle a) (GridChildStyle.ofStyle b) := by
  rcases h with h | ⟨he, h⟩
  · subst h
    have hPf : P i = false := by
      rw [hP]
      cases b.boxSizing <;> rfl
    refine ⟨rfl, rfl, fun _ h => h, fun _ _ _ _ _ _ => rfl, fun _ _ => ⟨fun h => h, rfl, rfl, fun col row ai ji => ?_⟩,
      fun _ _ c bb rows cols cc rc order acc acc' hacc => ?_⟩
    · unfold phi
      show _ = if (P i && _) = true then _ else _
      rw [hPf]
      rfl
    · rw [show acc = acc' from hacc]
      exact GRelW.of_GRel (GRel.refl_eq _)
  · subst h
    have hPt : P i = true := by
      rw [hP, he.boxSizing]
      rfl
    refine ⟨rfl, rfl, fun _ h => h, fun _ order area ji ai shim => alignAndPositionItem_tbb he i order area ji ai shim,
      fun _ _ => ⟨fun h => h, rfl, rfl, fun col row ai ji => ?_⟩,
      fun _ _ c bb rows cols cc rc order acc acc' hacc => ?_⟩
    · show GItem.new i col row (toBorderBox m a) ai ji i = phi P (GItem.new i col row a ai ji i)
      unfold phi
      show _ = if (P i && _) = true then _ else _
      rw [hPt, itemNew_elig he]
      rfl
    · rw [show acc = acc' from hacc]
      have : absStep c bb rows cols cc rc (GridChildStyle.ofStyle (toBorderBox m a)) i order acc' =
          absStep c bb rows cols cc rc (GridChildStyle.ofStyle a) i order acc' := by
        unfold absStep
        show (GM.ofOutcome (absTrackIndexes a.grid.column cc) >>= fun colIdx =>
          GM.ofOutcome (absTrackIndexes a.grid.row rc) >>= _) = _
        simp only [GridChildStyle.ofStyle, alignAndPositionItem_tbb he]
      rw [this]
      exact GRelW.of_GRel (GRel.refl_eq _)

/-- the switched subset, read off the two lists -/
def swP (cs cs' : List (Style Rat)) (i : Nat) : Bool :=
  match cs[i]?, cs'[i]? with
  | some a, some b => a.boxSizing == .contentBox && b.boxSizing == .borderBox
  | _, _ => false

theorem childrenOK_rel (P : Nat → Bool) : ∀ (as bs : List (Style Rat)) (n : Nat), StylesRel m as bs →
    (∀ j a b, as[j]? = some a → bs[j]? = some b → P (n + j) = (a.boxSizing == .contentBox && b.boxSizing == .borderBox)) →
    ChildrenOK (World.eq : World Rat) P Eq n (as.map GridChildStyle.ofStyle) (bs.map GridChildStyle.ofStyle)
  | [], [], _, _, _ => trivial
  | [], _ :: _, _, h, _ => by simp only [StylesRel] at h
  | _ :: _, [], _, h, _ => by simp only [StylesRel] at h
  | a :: as, b :: bs, n, h, hP => by
    simp only [StylesRel] at h
    simp only [List.map_cons, ChildrenOK]
    refine ⟨childOK_rel P n h.1 (by simpa using hP 0 a b rfl rfl), childrenOK_rel P as bs (n + 1) h.2 ?_⟩
    intro j a' b' ha hb
    have := hP (j + 1) a' b' (by simpa using ha) (by simpa using hb)
    rw [← this]
    congr 1
    omega

theorem boxChildren_rel : ∀ (as bs : List (Style Rat)), StylesRel m as bs →
    boxChildren (bs.map GridChildStyle.ofStyle) = boxChildren (as.map GridChildStyle.ofStyle)
  | [], [], _ => rfl
  | [], _ :: _, h => by simp only [StylesRel] at h
  | _ :: _, [], h => by simp only [StylesRel] at h
  | a :: as, b :: bs, h => by
    simp only [StylesRel] at h
    have ih := boxChildren_rel as bs h.2
    have hh : (GridChildStyle.ofStyle b).base.isHidden = (GridChildStyle.ofStyle a).base.isHidden :=
      isHidden_rel ⟨m, h.1⟩
    have hg : (GridChildStyle.ofStyle b).gridRow = (GridChildStyle.ofStyle a).gridRow ∧
        (GridChildStyle.ofStyle b).gridColumn = (GridChildStyle.ofStyle a).gridColumn ∧
        (GridChildStyle.ofStyle b).base.position = (GridChildStyle.ofStyle a).base.position := by
      rcases h.1 with e | ⟨_, e⟩ <;> subst e <;> exact ⟨rfl, rfl, rfl⟩
    rw [List.map_cons, List.map_cons, boxChildren_cons, boxChildren_cons, hh, hg.1, hg.2.1, hg.2.2, ih]

/-- **grid item site**: any subset of eligible child styles switched -/
theorem gridItems_site (s : Style Rat) (cs cs' : List (Style Rat)) (hr : StylesRel m cs cs') (inp : LayoutInput Rat) :
    gridAlg s cs inp = gridAlg s cs' inp := by
  unfold gridAlg computeGridLayout
  have hrel := computeGridLayoutE_rel (World.eq_good (α := Rat)) (readers_rat (swP cs cs')) (GridStyle.ofStyle s)
    (cs.map GridChildStyle.ofStyle) (cs'.map GridChildStyle.ofStyle) inp
    (childrenOK_rel (swP cs cs') cs cs' 0 hr (fun j a b ha hb => by
      unfold swP
      rw [Nat.zero_add, ha, hb]))
    (fun ec er => by rw [boxChildren_rel cs cs' hr]) (fun h => h) (fun h => h)
  rw [GRel.to_eq hrel]

/-- `compute_grid_layout` is blind to the rewriting, as the tree theorem needs it -/
theorem grid_containerBlind : ContainerBlind (gridAlg (α := Rat)) where
  own _ cs inp m h := gridContainer_site h m cs inp
  items s cs cs' inp h := gridItems_site s cs cs' h inp

end C12L
