/-
  Absence of panics, continued: the batcher loop, `resolve_intrinsic_track_sizes`, `expand_flexible_tracks`,
  `resolve_item_baselines`, one run of `track_sizing_algorithm`, and step 7.
-/
import TaffyVerif.Lemmas.EvalGridSafe

set_option linter.unusedSectionVars false
set_option linter.unusedVariables false

namespace EvalGrid
open GridModel GridTracks EvalBlock
variable {α : Type} [Num α]

theorem GSafe_batchStep (s : Sizer α) (avail : AvailableSpace α) (axisInner : Option α) (ffs : α) (isFlex : Bool)
    (span : Nat) (batch : List (GItem α)) (tracks : List (GridTrack α)) (hall : AllR s.axis tracks.length batch) :
    GSafe (fun r => r.1.map frame = batch.map frame ∧ r.2.length = tracks.length)
      (if (!isFlex && span == 1) = true then do
          let (batch, tracks) ← forItemsM (fun it ts => sizeSpanOneItemM s avail axisInner it ts) batch tracks
          pure (batch, flushSpanOne tracks)
        else sizeBatchGeneralM s avail axisInner isFlex ffs batch tracks) := by
  split
  · refine GSafe_bind _ _ _ _ (GSafe_forItemsM s.axis tracks.length _ (fun it ts hr hl => ?_) batch tracks hall rfl)
      fun ⟨b1, t1⟩ ⟨f1, l1⟩ => ?_
    · have := GSafe_sizeSpanOneItemM s avail axisInner it ts (hl ▸ hr)
      rwa [hl] at this
    · exact GSafe_pure _ _ ⟨f1, by rw [flushSpanOne_length]; exact l1⟩
  · exact GSafe_sizeBatchGeneralM s avail axisInner isFlex ffs batch tracks hall

theorem mem_take_drop {β : Type} (l : List β) (o n : Nat) (x : β) (h : x ∈ (l.drop o).take n) : x ∈ l :=
  List.mem_of_mem_drop (List.mem_of_mem_take h)

theorem GSafe_batchLoopM (s : Sizer α) (avail : AvailableSpace α) (axisInner : Option α) (ffs : α) :
    ∀ (fuel : Nat) (items : List (GItem α)) (offset : Nat) (tracks : List (GridTrack α)),
      AllR s.axis tracks.length items →
      GSafe (fun r => FSub items r.1 ∧ r.2.length = tracks.length)
        (batchLoopM s avail axisInner ffs fuel items offset tracks)
  | 0, items, offset, tracks, _ => GSafe_pure _ _ ⟨FSub.refl _, rfl⟩
  | fuel + 1, items, offset, tracks, hall => by
    unfold batchLoopM
    cases hget : items[offset]? with
    | none => exact GSafe_pure _ _ ⟨FSub.refl _, rfl⟩
    | some item =>
      simp only []
      -- whatever `next` is, the batch consists of items of the list
      generalize (if item.crossesFlexibleTrack s.axis = true then items.length
        else (List.findIdx? (fun it => it.crossesFlexibleTrack s.axis || decide (it.span s.axis > item.span s.axis))
          items).getD items.length) = next
      have hb : AllR s.axis tracks.length ((items.drop offset).take (next - offset)) :=
        fun x hx => hall x (mem_take_drop _ _ _ _ hx)
      refine GSafe_bind _ _ _ _ (GSafe_batchStep s avail axisInner ffs (item.crossesFlexibleTrack s.axis)
        (item.span s.axis) _ tracks hb) fun ⟨b, t⟩ ⟨f1, l1⟩ => ?_
      simp only [] at f1 l1 ⊢
      have hsub : FSub items (items.take offset ++ b ++ items.drop next) := by
        refine FSub.append (FSub.append (FSub.of_sublist_mem fun x hx => List.mem_of_mem_take hx) ?_)
          (FSub.of_sublist_mem fun x hx => List.mem_of_mem_drop hx)
        exact (FSub.of_sublist_mem fun x hx => mem_take_drop _ _ _ _ hx).trans (FSub.of_mapFrame f1)
      split
      · exact GSafe_pure _ _ ⟨hsub, l1⟩
      · have := GSafe_batchLoopM s avail axisInner ffs fuel (items.take offset ++ b ++ items.drop next) next t
          (l1 ▸ hall.sub hsub)
        refine GSafe_mono _ _ _ ?_ this
        intro r ⟨h1, h2⟩
        exact ⟨hsub.trans h1, h2.trans l1⟩

theorem GSafe_resolveIntrinsicTrackSizesM (s : Sizer α) (tracks : List (GridTrack α)) (items : List (GItem α))
    (avail : AvailableSpace α) (hall : AllR s.axis tracks.length items) :
    GSafe (fun r => FSub items r.1 ∧ r.2.length = tracks.length) (resolveIntrinsicTrackSizesM s tracks items avail) := by
  unfold resolveIntrinsicTrackSizesM
  simp only []
  have hperm := List.mergeSort_perm items (itemLe s.axis)
  refine GSafe_bind _ _ _ _ (GSafe_batchLoopM s avail _ _ _ _ 0 tracks (hall.sub (FSub.of_perm hperm)))
    fun ⟨b, t⟩ ⟨f1, l1⟩ => ?_
  exact GSafe_pure _ _ ⟨(FSub.of_perm hperm).trans f1, by simp only [List.length_map]; exact l1⟩

theorem GSafe_flexItemFractions (ax : Ax) (inner : Size (Option α)) (tracks : List (GridTrack α)) :
    ∀ items : List (GItem α), GSafe (fun r => r.1.map frame = items.map frame) (flexItemFractions ax inner tracks items)
  | [] => GSafe_pure _ _ rfl
  | it :: rest => by
    unfold flexItemFractions
    split
    · refine GSafe_bind _ _ _ _ (GSafe_maxContentContributionCached ax it Size.none inner) fun ⟨mc, it'⟩ h1 => ?_
      simp only [] at h1 ⊢
      refine GSafe_bind _ _ _ _ (GSafe_flexItemFractions ax inner tracks rest) fun ⟨rest', frs⟩ h2 => ?_
      simp only [] at h2 ⊢
      exact GSafe_pure _ _ (by simp only [List.map_cons, h1, h2])
    · refine GSafe_bind _ _ _ _ (GSafe_flexItemFractions ax inner tracks rest) fun ⟨rest', frs⟩ h2 => ?_
      simp only [] at h2 ⊢
      exact GSafe_pure _ _ (by simp only [List.map_cons, h2])

theorem GSafe_expandFlexibleTracksM (ax : Ax) (tracks : List (GridTrack α)) (items : List (GItem α))
    (mn mx : Option α) (av : AvailableSpace α) (inner : Size (Option α)) :
    GSafe (fun r => r.1.map frame = items.map frame ∧ r.2.length = tracks.length)
      (expandFlexibleTracksM ax tracks items mn mx av inner) := by
  unfold expandFlexibleTracksM
  refine GSafe_bind (fun r => r.1.map frame = items.map frame) _ _ _ ?_ fun ⟨b, t⟩ h1 =>
    GSafe_pure _ _ ⟨h1, List.length_map _⟩
  split
  · exact GSafe_pure _ _ rfl
  · exact GSafe_pure _ _ rfl
  · simp only []
    refine GSafe_bind _ _ _ _ (GSafe_flexItemFractions ax inner tracks items) fun ⟨b, t⟩ h1 => ?_
    exact GSafe_pure _ _ h1

theorem GSafe_measureRowBaselines (inner : Size (Option α)) : ∀ items : List (GItem α),
    GSafe (fun r => r.map frame = items.map frame) (measureRowBaselines inner items)
  | [] => GSafe_pure _ _ rfl
  | it :: rest => by
    unfold measureRowBaselines
    refine GSafe_bind (fun _ => True) _ _ _ (GSafe_call _ _ _ fun _ => trivial) fun out _ => ?_
    simp only []
    refine GSafe_bind _ _ _ _ (GSafe_measureRowBaselines inner rest) fun rest' h2 => ?_
    refine GSafe_pure _ _ ?_
    simp only [List.map_cons, h2]
    rfl

theorem GSafe_baselineRows (ax' : Ax) (inner : Size (Option α)) : ∀ (fuel : Nat) (items : List (GItem α)),
    GSafe (fun r => r.map frame = items.map frame) (baselineRows ax' inner fuel items)
  | 0, items => GSafe_pure _ _ rfl
  | _ + 1, [] => GSafe_pure _ _ rfl
  | fuel + 1, first :: tl => by
    rw [baselineRows_succ_cons, ← cutRow_append ax' first tl]
    generalize cutRow ax' first tl = pr
    obtain ⟨row, remaining⟩ := pr
    unfold baselineRowsStep
    simp only []
    split
    · refine GSafe_bind _ _ _ _ (GSafe_baselineRows ax' inner fuel remaining) fun rest' h2 => ?_
      exact GSafe_pure _ _ (by simp only [List.map_append, h2])
    · refine GSafe_bind _ _ _ _ (GSafe_measureRowBaselines inner row) fun row' h1 => ?_
      refine GSafe_bind _ _ _ _ (GSafe_baselineRows ax' inner fuel remaining) fun rest' h2 => ?_
      refine GSafe_pure _ _ ?_
      rw [List.map_append, List.map_append, h2, ← h1, List.map_map]
      congr 1

theorem GSafe_resolveItemBaselines (ax' : Ax) (items : List (GItem α)) (inner : Size (Option α)) :
    GSafe (fun r => FSub items r) (resolveItemBaselines ax' items inner) := by
  unfold resolveItemBaselines
  simp only []
  have hperm := List.mergeSort_perm items
    (fun a b => decide ((a.placement ax'.other).start ≤ (b.placement ax'.other).start))
  exact GSafe_mono _ _ _ (fun r h => (FSub.of_perm hperm).trans (FSub.of_mapFrame h))
    (GSafe_baselineRows ax' inner _ _)

/-- what a run of the track sizing algorithm keeps: the items' frames (up to order), the lengths of both track vectors -/
def RunQ (st : RunState α) (r : RunState α) : Prop :=
  FSub st.items r.items ∧ r.axisTracks.length = st.axisTracks.length ∧
    r.otherAxisTracks.length = st.otherAxisTracks.length

/-- **one run of the track sizing algorithm never panics**, provided every item's track range in the run's axis is
non-empty and inside the axis' track vector -/
theorem GSafe_trackSizingAlgorithmM (a : RunArgs α) (st : RunState α)
    (hall : AllR a.axis st.axisTracks.length st.items) : GSafe (RunQ st) (trackSizingAlgorithmM a st) := by
  unfold trackSizingAlgorithmM
  simp only []
  refine GSafe_bind (fun r => FSub st.items r) _ _ _ ?_ fun items1 h1 => ?_
  · split
    · exact GSafe_resolveItemBaselines a.axis st.items a.innerNodeSize
    · exact GSafe_pure _ _ (FSub.refl _)
  have hl0 := initializeTrackSizes_length st.axisTracks (sget a.innerNodeSize a.axis)
  split
  · exact GSafe_pure _ _ ⟨h1, hl0, rfl⟩
  · refine GSafe_bind _ _ _ _ (GSafe_resolveIntrinsicTrackSizesM
      { otherAxisTracks := _, est := a.est, axis := a.axis, innerNodeSize := a.innerNodeSize } _ items1 _
      (by rw [hl0]; exact hall.sub h1)) fun ⟨items2, t2⟩ ⟨h2, l2⟩ => ?_
    simp only [] at h2 l2 ⊢
    refine GSafe_bind _ _ _ _ (GSafe_expandFlexibleTracksM a.axis _ items2 _ _ _ _) fun ⟨items3, t3⟩ ⟨h3, l3⟩ => ?_
    simp only [] at h3 l3 ⊢
    refine GSafe_pure _ _ ⟨h1.trans (h2.trans (FSub.of_mapFrame h3)), ?_, setGutterAdjustment_length _ _⟩
    have e : t3.length = st.axisTracks.length := by
      rw [l3, maximiseTracks_length, l2, hl0]
    show (if (a.axisAlignment == AlignContent.stretch) = true then _ else t3).length = _
    split
    · rw [stretchAutoTracks_length]; exact e
    · exact e

/-! ### step 7 -/

theorem GSafe_minContentChanged (ax : Ax) (tracks : List (GridTrack α)) (inner : Size (Option α)) :
    ∀ items : List (GItem α), GSafe (fun r => r.2.map frame = items.map frame) (minContentChanged ax tracks inner items)
  | [] => GSafe_pure _ _ rfl
  | it :: rest => by
    unfold minContentChanged
    split
    · refine GSafe_bind _ _ _ _ (GSafe_minContentChanged ax tracks inner rest) fun ⟨b, rest'⟩ h2 => ?_
      simp only [] at h2 ⊢
      exact GSafe_pure _ _ (by simp only [List.map_cons, h2])
    · simp only []
      unfold GItem.minContentContribution
      refine GSafe_bind (fun _ => True) _ _ _ ?_ fun newMin _ => ?_
      · exact GSafe_bind (fun _ => True) _ _ _ (GSafe_call _ _ _ fun _ => trivial) fun o _ => GSafe_pure _ _ trivial
      have tailCase : ∀ (hc : Bool) (it' : GItem α), frame it' = frame it →
          GSafe (fun r => r.2.map frame = (it :: rest).map frame)
            (if hc = true then (pure (true, it' :: rest) : GM α (Bool × List (GItem α))) else
              minContentChanged ax tracks inner rest >>= fun x => pure (x.1, it' :: x.2)) := by
        intro hc it' hf
        cases hc with
        | true => exact GSafe_pure _ _ (by simp only [List.map_cons, hf])
        | false =>
          simp only [Bool.false_eq_true, if_false]
          refine GSafe_bind _ _ _ _ (GSafe_minContentChanged ax tracks inner rest) fun x h2 => ?_
          exact GSafe_pure _ _ (by simp only [List.map_cons, hf, h2])
      split <;> exact tailCase _ _ rfl

theorem GSafe_step7Prep (ax : Ax) (rerun0 : Bool) (tracks : List (GridTrack α)) (inner : Size (Option α))
    (items : List (GItem α)) :
    GSafe (fun r => r.2.map frame = items.map frame) (step7Prep ax rerun0 tracks inner items) := by
  unfold step7Prep
  split
  · exact GSafe_minContentChanged ax tracks inner items
  · exact GSafe_pure _ _ (UpdL_clearCaches ax items).1.1

/-- what step 7 keeps -/
def MidQ (columns rows : List (GridTrack α)) (items : List (GItem α))
    (r : List (GridTrack α) × List (GridTrack α) × List (GItem α)) : Prop :=
  r.1.length = columns.length ∧ r.2.1.length = rows.length ∧ FSub items r.2.2

theorem GSafe_step7Mid (availableSpace : Size (AvailableSpace α)) (colArgs rowArgs : RunArgs α)
    (inner : Size (Option α)) (columns rows : List (GridTrack α)) (rerun : Bool) (items : List (GItem α))
    (hcol : colArgs.axis = .inl) (hrow : rowArgs.axis = .blk)
    (hc : AllR .inl columns.length items) (hr : AllR .blk rows.length items) :
    GSafe (MidQ columns rows items) (step7Mid availableSpace colArgs rowArgs inner columns rows rerun items) := by
  unfold step7Mid
  split
  · have h3 := GSafe_trackSizingAlgorithmM { colArgs with innerNodeSize := inner, est := .baseSize }
      { axisTracks := columns, otherAxisTracks := rows, items } (by show AllR colArgs.axis _ _; rw [hcol]; exact hc)
    refine GSafe_bind _ _ _ _ h3 fun st ⟨f1, l1, l1'⟩ => ?_
    simp only [] at f1 l1 l1' ⊢
    refine GSafe_bind _ _ _ _ (GSafe_step7Prep .blk _ st.axisTracks inner st.items) fun ⟨rr, items5⟩ f5 => ?_
    simp only [] at f5 ⊢
    have f5' : FSub items items5 := f1.trans (FSub.of_mapFrame f5)
    split
    · have h6 := GSafe_trackSizingAlgorithmM { rowArgs with innerNodeSize := inner }
        { axisTracks := st.otherAxisTracks, otherAxisTracks := st.axisTracks, items := items5 }
        (by show AllR rowArgs.axis _ _; rw [hrow]; exact (l1' ▸ hr).sub f5')
      refine GSafe_bind _ _ _ _ h6 fun st' ⟨f6, l6, l6'⟩ => ?_
      simp only [] at f6 l6 l6' ⊢
      exact GSafe_pure _ _ ⟨l6'.trans l1, l6.trans l1', f5'.trans f6⟩
    · exact GSafe_pure _ _ ⟨l1, l1', f5'⟩
  · exact GSafe_pure _ _ ⟨rfl, rfl, FSub.refl _⟩

end EvalGrid
