/-
  Helper lemmas for Props/C10.lean: projections of `BlockModel.placeItem`, the `Linked` view of `flowTrace`,
  `runProg` of a bind, and the tie between the loop program `flowLoop` and its pure unfolding `flowTrace`.
-/
import TaffyVerif.Model.Block
import Mathlib.Tactic.Linarith
import Mathlib.Tactic.Ring

set_option linter.unusedSectionVars false

namespace BlockModel

section General
variable {α : Type} [Num α]

/-! ### projections of one loop iteration -/

theorem placeItem_y (c : FlowCtx α) (st : FlowState α) (item : BlockItem α) (out : LayoutOutput α) :
    (placeItem c st item out).layout.location.y
      = st.committedYOffset + insetOffsetY item + yMarginOffset c st (topMarginSet c item out) := by
  rfl

theorem placeItem_size (c : FlowCtx α) (st : FlowState α) (item : BlockItem α) (out : LayoutOutput α) :
    (placeItem c st item out).layout.size = out.size := rfl

theorem placeItem_collapsed (c : FlowCtx α) (st : FlowState α) (item : BlockItem α) (out : LayoutOutput α)
    (h : out.marginsCanCollapseThrough = true) :
    (placeItem c st item out).st.committedYOffset = st.committedYOffset ∧
    (placeItem c st item out).st.activeCollapsibleMarginSet
      = (st.activeCollapsibleMarginSet.collapseWithSet (topMarginSet c item out)).collapseWithSet
          (bottomMarginSet c item out) ∧
    (placeItem c st item out).st.isCollapsingWithFirstMarginSet = st.isCollapsingWithFirstMarginSet := by
  refine ⟨?_, ?_, ?_⟩
  · simp [placeItem, h]
  · simp [placeItem, h]
  · cases hf : st.isCollapsingWithFirstMarginSet <;> simp [placeItem, h, hf]

theorem placeItem_solid (c : FlowCtx α) (st : FlowState α) (item : BlockItem α) (out : LayoutOutput α)
    (h : out.marginsCanCollapseThrough = false) :
    (placeItem c st item out).st.committedYOffset
      = st.committedYOffset + (out.size.height + yMarginOffset c st (topMarginSet c item out)) ∧
    (placeItem c st item out).st.activeCollapsibleMarginSet = bottomMarginSet c item out ∧
    (placeItem c st item out).st.isCollapsingWithFirstMarginSet = false := by
  refine ⟨?_, ?_, ?_⟩
  · simp [placeItem, h]
  · simp [placeItem, h]
  · cases hf : st.isCollapsingWithFirstMarginSet <;> simp [placeItem, h, hf]

/-! ### `flowTrace` as a linked list of steps -/

/-- every step starts in the state in which the previous one ended and is `placeItem` of its own data -/
def Linked (c : FlowCtx α) : FlowState α → List (FlowStep α) → Prop
  | _, [] => True
  | st, s :: rest => s.before = st ∧ s.placed = placeItem c st s.item s.out ∧ Linked c s.placed.st rest

/-- the loop state after a list of steps -/
def endState (st : FlowState α) : List (FlowStep α) → FlowState α
  | [] => st
  | s :: rest => endState s.placed.st rest

theorem flowTrace_linked (c : FlowCtx α) :
    ∀ (items : List (BlockItem α)) (st : FlowState α) (outs : List (LayoutOutput α)),
      Linked c st (flowTrace c items st outs) := by
  intro items
  induction items with
  | nil => intro st outs; simp [flowTrace, Linked]
  | cons item rest ih =>
    intro st outs
    unfold flowTrace
    split
    · exact ih st outs
    · cases outs with
      | nil => simp [Linked]
      | cons out outs' => exact ⟨rfl, rfl, ih _ _⟩

theorem flowFinal_eq_endState (c : FlowCtx α) :
    ∀ (items : List (BlockItem α)) (st : FlowState α) (outs : List (LayoutOutput α)),
      flowFinal c items st outs = endState st (flowTrace c items st outs) := by
  intro items
  induction items with
  | nil => intro st outs; simp [flowFinal, flowTrace, endState]
  | cons item rest ih =>
    intro st outs
    unfold flowFinal flowTrace
    split
    · exact ih st outs
    · cases outs with
      | nil => simp [endState]
      | cons out outs' => simp only [endState]; exact ih _ _

theorem linked_append (c : FlowCtx α) :
    ∀ (l1 l2 : List (FlowStep α)) (st : FlowState α),
      Linked c st (l1 ++ l2) → Linked c st l1 ∧ Linked c (endState st l1) l2 := by
  intro l1
  induction l1 with
  | nil => intro l2 st h; exact ⟨trivial, h⟩
  | cons s rest ih =>
    intro l2 st h
    obtain ⟨h1, h2, h3⟩ := h
    obtain ⟨h4, h5⟩ := ih l2 _ h3
    exact ⟨⟨h1, h2, h4⟩, h5⟩

/-- an invariant that holds initially and is preserved by every step of a linked list holds before every step and at
the end -/
theorem linked_inv (c : FlowCtx α) (Inv : FlowState α → Prop) :
    ∀ (l : List (FlowStep α)) (st : FlowState α), Linked c st l → Inv st →
      (∀ s ∈ l, Inv s.before → Inv s.placed.st) → (∀ s ∈ l, Inv s.before) ∧ Inv (endState st l) := by
  intro l
  induction l with
  | nil => intro st _ h0 _; exact ⟨by simp, h0⟩
  | cons s rest ih =>
    intro st hl h0 hstep
    obtain ⟨h1, _, h3⟩ := hl
    have hb : Inv s.before := h1 ▸ h0
    have hs : Inv s.placed.st := hstep s (by simp) hb
    obtain ⟨h4, h5⟩ := ih _ h3 hs (fun t ht => hstep t (by simp [ht]))
    refine ⟨?_, h5⟩
    intro t ht
    rcases List.mem_cons.mp ht with rfl | ht
    · exact hb
    · exact h4 t ht

/-! ### running programs -/

@[simp] theorem bind_eq {β γ : Type} (x : ProgM α β) (f : β → ProgM α γ) : x >>= f = ProgM.bind x f := rfl
@[simp] theorem pure_eq {β : Type} (b : β) : (pure b : ProgM α β) = ProgM.pure b := rfl

theorem runProg_bind {σ β γ : Type} (orc : σ → Nat → LayoutInput α → LayoutOutput α × σ) (x : ProgM α β)
    (f : β → ProgM α γ) :
    ∀ s : σ, runProg orc (ProgM.bind x f) s =
      ((runProg orc (f (runProg orc x s).1) (runProg orc x s).2.1).1,
       (runProg orc (f (runProg orc x s).1) (runProg orc x s).2.1).2.1,
       (runProg orc x s).2.2 ++ (runProg orc (f (runProg orc x s).1) (runProg orc x s).2.1).2.2) := by
  induction x with
  | pure b => intro s; simp [ProgM.bind, runProg]
  | call c i k ih => intro s; simp only [ProgM.bind, runProg]; exact ih _ _
  | setLayout c l k ih => intro s; simp only [ProgM.bind, runProg]; rw [ih]; simp

/-- every possible result of the program satisfies `P`, whatever the children answer -/
def AllResults {β : Type} (P : β → Prop) : ProgM α β → Prop
  | .pure b => P b
  | .call _ _ k => ∀ o, AllResults P (k o)
  | .setLayout _ _ k => AllResults P (k ())

theorem allResults_run {σ β : Type} (orc : σ → Nat → LayoutInput α → LayoutOutput α × σ) (P : β → Prop)
    (p : ProgM α β) : AllResults P p → ∀ s, P (runProg orc p s).1 := by
  induction p with
  | pure b => intro h s; exact h
  | call c i k ih => intro h s; simp only [runProg]; exact ih _ (h _) _
  | setLayout c l k ih => intro h s; simp only [runProg]; exact ih _ h _

theorem allResults_bind {β γ : Type} (P : γ → Prop) (x : ProgM α β) (f : β → ProgM α γ)
    (h : ∀ b, AllResults P (f b)) : AllResults P (ProgM.bind x f) := by
  induction x with
  | pure b => exact h b
  | call c i k ih => intro o; exact ih o
  | setLayout c l k ih => exact ih ()

/-! ### the loop program is its pure unfolding -/

/-- the layouts a list of steps sets, as `(child, layout)` pairs -/
def stepSets (l : List (FlowStep α)) : List (Nat × Layout α) := l.map fun t => (t.item.nodeIdx, t.placed.layout)

def inFlowCount (items : List (BlockItem α)) : Nat := (items.filter fun it => !(it.position == .absolute)).length

theorem flowLoop_is_flowTrace {σ : Type} (orc : σ → Nat → LayoutInput α → LayoutOutput α × σ) (c : FlowCtx α) :
    ∀ (items : List (BlockItem α)) (st : FlowState α) (s : σ), ∃ outs : List (LayoutOutput α),
      outs.length = inFlowCount items ∧
      (runProg orc (flowLoop c items st) s).2.2 = stepSets (flowTrace c items st outs) ∧
      (runProg orc (flowLoop c items st) s).1.2 = flowFinal c items st outs := by
  intro items
  induction items with
  | nil => intro st s; exact ⟨[], by simp [inFlowCount, flowLoop, runProg, flowTrace, flowFinal, stepSets]⟩
  | cons item rest ih =>
    intro st s
    by_cases habs : (item.position == Position.absolute) = true
    · obtain ⟨outs, h1, h2, h3⟩ := ih st s
      refine ⟨outs, ?_, ?_, ?_⟩
      · simp [inFlowCount, habs] at h1 ⊢; exact h1
      · simp [flowLoop, flowTrace, habs, runProg_bind, runProg] at h2 ⊢; exact h2
      · simp [flowLoop, flowFinal, habs, runProg_bind, runProg] at h3 ⊢; exact h3
    · obtain ⟨outs, h1, h2, h3⟩ := ih (placeItem c st item (orc s item.nodeIdx (itemInput c item)).1).st
        (orc s item.nodeIdx (itemInput c item)).2
      refine ⟨(orc s item.nodeIdx (itemInput c item)).1 :: outs, ?_, ?_, ?_⟩
      · simp [inFlowCount, habs] at h1 ⊢; exact h1
      · simp [flowLoop, flowTrace, habs, runProg_bind, runProg, ProgM.computeChildLayout, ProgM.setUnroundedLayout,
          ProgM.bind, stepSets] at h2 ⊢
        exact h2
      · simp [flowLoop, flowFinal, habs, runProg_bind, runProg, ProgM.computeChildLayout, ProgM.setUnroundedLayout,
          ProgM.bind] at h3 ⊢
        exact h3

theorem linked_mem (c : FlowCtx α) :
    ∀ (l : List (FlowStep α)) (st : FlowState α), Linked c st l → ∀ t ∈ l, t.placed = placeItem c t.before t.item t.out := by
  intro l
  induction l with
  | nil => intro st _ t ht; simp at ht
  | cons s rest ih =>
    intro st hl t ht
    obtain ⟨h1, h2, h3⟩ := hl
    rcases List.mem_cons.mp ht with rfl | ht
    · rw [h1]; exact h2
    · exact ih _ h3 t ht

/-- the active margin set after a run of collapsed-through boxes: everything is united into it -/
def collapsedThrough (c : FlowCtx α) (acc : MarginSet α) : List (FlowStep α) → MarginSet α
  | [] => acc
  | m :: rest =>
    collapsedThrough c ((acc.collapseWithSet (topMarginSet c m.item m.out)).collapseWithSet
      (bottomMarginSet c m.item m.out)) rest

theorem endState_collapsed (c : FlowCtx α) :
    ∀ (mid : List (FlowStep α)) (st : FlowState α), Linked c st mid →
      (∀ m ∈ mid, m.out.marginsCanCollapseThrough = true) →
      (endState st mid).committedYOffset = st.committedYOffset ∧
      (endState st mid).activeCollapsibleMarginSet = collapsedThrough c st.activeCollapsibleMarginSet mid ∧
      (endState st mid).isCollapsingWithFirstMarginSet = st.isCollapsingWithFirstMarginSet := by
  intro mid
  induction mid with
  | nil => intro st _ _; exact ⟨rfl, rfl, rfl⟩
  | cons m rest ih =>
    intro st hl hall
    obtain ⟨h1, h2, h3⟩ := hl
    have hm := hall m (by simp)
    obtain ⟨e1, e2, e3⟩ := ih _ h3 (fun t ht => hall t (by simp [ht]))
    obtain ⟨p1, p2, p3⟩ := placeItem_collapsed c st m.item m.out hm
    simp only [endState, collapsedThrough]
    rw [h2] at e1 e2 e3 ⊢
    exact ⟨e1.trans p1, by rw [e2, p2], e3.trans p3⟩

/-! ### the whole algorithm sets the `flowTrace` layouts first -/

theorem contentWidthLoop_no_sets {σ : Type} (orc : σ → Nat → LayoutInput α → LayoutOutput α × σ) (av : AvailableSpace α) :
    ∀ (items : List (BlockItem α)) (acc : α) (s : σ), (runProg orc (contentWidthLoop av items acc) s).2.2 = [] := by
  intro items
  induction items with
  | nil => intro acc s; simp [contentWidthLoop, runProg]
  | cons item rest ih =>
    intro acc s
    unfold contentWidthLoop
    split
    · exact ih _ _
    · simp only [bind_eq, pure_eq]
      rw [runProg_bind]
      simp only [ih, List.append_nil]
      split
      · simp [runProg]
      · simp [ProgM.performChildLayout, ProgM.computeChildLayout, ProgM.bind, runProg]

theorem containerWidthProg_spec {σ : Type} (orc : σ → Nat → LayoutInput α → LayoutOutput α × σ) (ic : InnerCtx α)
    (items : List (BlockItem α)) (inputs : LayoutInput α) (s : σ) :
    (runProg orc (containerWidthProg ic items inputs) s).2.2 = [] ∧
    ∀ w', inputs.knownDimensions.width = some w' → (runProg orc (containerWidthProg ic items inputs) s).1 = w' := by
  unfold containerWidthProg
  split
  · rename_i w hw
    refine ⟨by simp [runProg], ?_⟩
    intro w' h; rw [hw] at h; simp [runProg]; exact Option.some.inj h
  · rename_i hw
    refine ⟨?_, fun w' h => by rw [hw] at h; cases h⟩
    simp only [bind_eq, pure_eq]
    rw [runProg_bind]
    simp [contentWidthLoop_no_sets, runProg]

/-- In a `PerformLayout` run of `compute_inner` against any oracle, the layouts set start with exactly the layouts of
`flowTrace` (for the `FlowCtx` of the container's outer width `w`, the generated items and the oracle's answers); what
follows (`tail`) are the layouts of the absolutely positioned and the hidden children. -/
theorem computeInner_sets {σ : Type} (orc : σ → Nat → LayoutInput α → LayoutOutput α × σ) (style : Style α)
    (childStyles : List (Style α)) (inputs : LayoutInput α) (s : σ) (hmode : inputs.runMode = .performLayout) :
    ∃ (w : α) (outs : List (LayoutOutput α)) (tail : List (Nat × Layout α)),
      (∀ w', inputs.knownDimensions.width = some w' → w = w') ∧
      outs.length = inFlowCount (generateItemList childStyles (innerCtx style inputs).containerContentBoxSize) ∧
      (runProg orc (computeInner style childStyles inputs) s).2.2
        = stepSets (flowTrace (flowCtxOf style (innerCtx style inputs) w)
            (generateItemList childStyles (innerCtx style inputs).containerContentBoxSize)
            (flowCtxOf style (innerCtx style inputs) w).initState outs) ++ tail := by
  obtain ⟨hw0, hw1⟩ := containerWidthProg_spec orc (innerCtx style inputs)
    (generateItemList childStyles (innerCtx style inputs).containerContentBoxSize) inputs s
  unfold computeInner
  simp only [bind_eq, pure_eq]
  rw [runProg_bind]
  rw [hw0]
  generalize (runProg orc (containerWidthProg (innerCtx style inputs)
    (generateItemList childStyles (innerCtx style inputs).containerContentBoxSize) inputs) s) = r0 at hw1 ⊢
  refine ⟨r0.1, ?_⟩
  simp only [hmode]
  obtain ⟨outs, ho1, ho2, _⟩ := flowLoop_is_flowTrace orc (flowCtxOf style (innerCtx style inputs) r0.1)
    (generateItemList childStyles (innerCtx style inputs).containerContentBoxSize)
    (flowCtxOf style (innerCtx style inputs) r0.1).initState r0.2.1
  rw [runProg_bind]
  refine ⟨outs, ?tail, hw1, ho1, ?h⟩
  case h =>
    simp only [performFinalLayoutOnInFlowChildren, bind_eq, pure_eq, runProg_bind, runProg, List.append_nil,
      List.nil_append, ho2]
    rfl

theorem computeBlockLayout_sets {σ : Type} (orc : σ → Nat → LayoutInput α → LayoutOutput α × σ) (style : Style α)
    (childStyles : List (Style α)) (inputs : LayoutInput α) (s : σ) (hmode : inputs.runMode = .performLayout) :
    ∃ (w : α) (outs : List (LayoutOutput α)) (tail : List (Nat × Layout α)),
      (∀ w', (styledBasedKnownDimensions style inputs).width = some w' → w = w') ∧
      outs.length = inFlowCount (generateItemList childStyles
        (innerCtx style { inputs with knownDimensions := styledBasedKnownDimensions style inputs }).containerContentBoxSize) ∧
      (runProg orc (computeBlockLayout style childStyles inputs) s).2.2
        = stepSets (flowTrace
            (flowCtxOf style (innerCtx style { inputs with knownDimensions := styledBasedKnownDimensions style inputs }) w)
            (generateItemList childStyles
              (innerCtx style { inputs with knownDimensions := styledBasedKnownDimensions style inputs }).containerContentBoxSize)
            (flowCtxOf style (innerCtx style { inputs with knownDimensions := styledBasedKnownDimensions style inputs })
              w).initState outs) ++ tail := by
  unfold computeBlockLayout
  simp only []
  split
  · rename_i h _ _; rw [hmode] at h; cases h
  · exact computeInner_sets orc style childStyles
      { inputs with knownDimensions := styledBasedKnownDimensions style inputs } s hmode

end General

/-! ### arithmetic at `Rat` -/

theorem rat_fmax (a b : Rat) : Num.fmax a b = max a b := by
  show (if a ≤ b then b else a) = max a b
  rw [max_def]
theorem rat_fmin (a b : Rat) : Num.fmin a b = min a b := by
  show (if a ≤ b then a else b) = min a b
  rw [min_def]
theorem rat_fge (a b : Rat) : Num.fge a b = decide (b ≤ a) := rfl
theorem rat_feq (a b : Rat) : Num.feq a b = decide (a = b) := rfl
theorem rat_fgt (a b : Rat) : Num.fgt a b = decide (b < a) := rfl

/-- a margin set without negative members -/
def NonNegSet (s : MarginSet Rat) : Prop := 0 ≤ s.positive ∧ s.negative = 0

theorem nonNegSet_zero : NonNegSet (MarginSet.zero : MarginSet Rat) := ⟨le_refl _, rfl⟩

theorem nonNegSet_collapseWithMargin (s : MarginSet Rat) (m : Rat) (hs : NonNegSet s) (hm : 0 ≤ m) :
    NonNegSet (s.collapseWithMargin m) := by
  unfold MarginSet.collapseWithMargin
  simp only [rat_fge, hm, decide_true, if_true, rat_fmax]
  exact ⟨le_max_of_le_left hs.1, hs.2⟩

theorem nonNegSet_collapseWithSet (s o : MarginSet Rat) (hs : NonNegSet s) (ho : NonNegSet o) :
    NonNegSet (s.collapseWithSet o) := by
  unfold MarginSet.collapseWithSet
  simp only [rat_fmax, rat_fmin]
  refine ⟨le_max_of_le_left hs.1, ?_⟩
  show min s.negative o.negative = 0
  rw [hs.2, ho.2]; simp

theorem resolve_nonNeg (s : MarginSet Rat) (hs : NonNegSet s) : 0 ≤ s.resolve := by
  unfold MarginSet.resolve; rw [hs.2]; simpa using hs.1

theorem resolve_mono (s o : MarginSet Rat) (hs : NonNegSet s) (ho : NonNegSet o) :
    s.resolve ≤ (s.collapseWithSet o).resolve := by
  unfold MarginSet.resolve MarginSet.collapseWithSet
  simp only [rat_fmax, rat_fmin]
  rw [hs.2, ho.2]
  simp

/-- both margin sets of a step are free of negative members -/
structure StepNonNeg (c : FlowCtx Rat) (t : FlowStep Rat) : Prop where
  top : NonNegSet (topMarginSet c t.item t.out)
  bottom : NonNegSet (bottomMarginSet c t.item t.out)

/-- a child that reports that margins can collapse through it has height 0 -/
def CollapseSound (out : LayoutOutput Rat) : Prop := out.marginsCanCollapseThrough = true → out.size.height = 0

/-- `location.y` without the relative inset offset -/
def flowY (t : FlowStep Rat) : Rat := t.placed.layout.location.y - insetOffsetY t.item

theorem active_nonNeg_step (c : FlowCtx Rat) (t : FlowStep Rat) (hp : t.placed = placeItem c t.before t.item t.out)
    (hn : StepNonNeg c t) (hact : NonNegSet t.before.activeCollapsibleMarginSet) :
    NonNegSet t.placed.st.activeCollapsibleMarginSet := by
  rw [hp]
  cases hct : t.out.marginsCanCollapseThrough with
  | true =>
    rw [(placeItem_collapsed c _ _ _ hct).2.1]
    exact nonNegSet_collapseWithSet _ _ (nonNegSet_collapseWithSet _ _ hact hn.top) hn.bottom
  | false =>
    rw [(placeItem_solid c _ _ _ hct).2.1]
    exact hn.bottom

theorem yMarginOffset_nonNeg (c : FlowCtx Rat) (st : FlowState Rat) (s : MarginSet Rat)
    (hact : NonNegSet st.activeCollapsibleMarginSet) (hs : NonNegSet s) : 0 ≤ yMarginOffset c st s := by
  unfold yMarginOffset
  split
  · exact le_refl _
  · exact resolve_nonNeg _ (nonNegSet_collapseWithSet _ _ hact hs)

/-- two consecutive steps, non-negative margins, the first one collapse-sound: no overlap, document order -/
theorem no_overlap_two (c : FlowCtx Rat) (st : FlowState Rat) (a b : FlowStep Rat) (hl : Linked c st [a, b])
    (hact : NonNegSet st.activeCollapsibleMarginSet) (ha : StepNonNeg c a) (hb : StepNonNeg c b)
    (hcs : CollapseSound a.out) : flowY a + a.out.size.height ≤ flowY b := by
  obtain ⟨ha1, ha2, hb1, hb2, _⟩ := hl
  subst ha1
  unfold flowY
  rw [hb2, ha2, placeItem_y, placeItem_y]
  cases hct : a.out.marginsCanCollapseThrough with
  | true =>
    obtain ⟨p1, p2, p3⟩ := placeItem_collapsed c a.before a.item a.out hct
    rw [p1, hcs hct]
    have hmono : yMarginOffset c a.before (topMarginSet c a.item a.out)
        ≤ yMarginOffset c (placeItem c a.before a.item a.out).st (topMarginSet c b.item b.out) := by
      unfold yMarginOffset
      rw [p3, p2]
      split
      · exact le_refl _
      · have h1 := nonNegSet_collapseWithSet _ _ hact ha.top
        have h2 := nonNegSet_collapseWithSet _ _ h1 ha.bottom
        exact le_trans (resolve_mono _ _ h1 ha.bottom) (resolve_mono _ _ h2 hb.top)
    linarith
  | false =>
    obtain ⟨p1, p2, p3⟩ := placeItem_solid c a.before a.item a.out hct
    rw [p1]
    have h0 : 0 ≤ yMarginOffset c (placeItem c a.before a.item a.out).st (topMarginSet c b.item b.out) :=
      yMarginOffset_nonNeg _ _ _ (by rw [p2]; exact ha.bottom) hb.top
    linarith

/-- `a` not collapsed through, then collapsed-through boxes `mid`, then `b`: the distance from `a`'s bottom edge to `b`'s
top edge is the collapsed margin of everything in between -/
theorem gap_through (c : FlowCtx Rat) (st : FlowState Rat) (a b : FlowStep Rat) (mid : List (FlowStep Rat))
    (hl : Linked c st (a :: (mid ++ [b]))) (ha : a.out.marginsCanCollapseThrough = false)
    (hmid : ∀ m ∈ mid, m.out.marginsCanCollapseThrough = true) :
    flowY b - (flowY a + a.out.size.height)
      = ((collapsedThrough c (bottomMarginSet c a.item a.out) mid).collapseWithSet
          (topMarginSet c b.item b.out)).resolve := by
  obtain ⟨ha1, ha2, hrest⟩ := hl
  obtain ⟨hm, hb⟩ := linked_append c mid [b] _ hrest
  obtain ⟨hb1, hb2, _⟩ := hb
  obtain ⟨e1, e2, e3⟩ := endState_collapsed c mid _ hm hmid
  subst ha1
  obtain ⟨p1, p2, p3⟩ := placeItem_solid c a.before a.item a.out ha
  unfold flowY
  rw [hb2, placeItem_y]
  have hy : yMarginOffset c (endState a.placed.st mid) (topMarginSet c b.item b.out)
      = ((collapsedThrough c (bottomMarginSet c a.item a.out) mid).collapseWithSet
          (topMarginSet c b.item b.out)).resolve := by
    unfold yMarginOffset
    rw [e3, e2, ha2, p3, p2]
    simp
  rw [hy, e1]
  conv => lhs; rw [ha2]
  rw [placeItem_y, p1]
  ring

/-! ### every result of the block program is collapse-sound -/

theorem collapseSound_fromOuterSize (sz : Size Rat) : CollapseSound (LayoutOutput.fromOuterSize sz) := by
  intro h; simp [LayoutOutput.fromOuterSize, LayoutOutput.fromSizes, LayoutOutput.fromSizesAndBaselines] at h

theorem collapseSound_innerOutput (style : Style Rat) (ps : Size (Option Rat)) (ic : InnerCtx Rat) (items : List (BlockItem Rat))
    (fo ics acs : Size Rat) (f l : MarginSet Rat) : CollapseSound (innerOutput style ps ic items fo ics acs f l) := by
  intro h
  simp only [innerOutput, Bool.and_eq_true, rat_feq, decide_eq_true_eq] at h
  exact h.2

theorem computeInner_allResults (style : Style Rat) (childStyles : List (Style Rat)) (inputs : LayoutInput Rat) :
    AllResults CollapseSound (computeInner style childStyles inputs) := by
  unfold computeInner
  simp only [bind_eq, pure_eq]
  apply allResults_bind
  intro w
  split
  · exact collapseSound_fromOuterSize _
  · simp only [performFinalLayoutOnInFlowChildren, bind_eq, pure_eq]
    apply allResults_bind
    intro r
    split
    · exact collapseSound_fromOuterSize _
    · apply allResults_bind
      intro a
      apply allResults_bind
      intro _
      exact collapseSound_innerOutput _ _ _ _ _ _ _ _ _

theorem computeBlockLayout_allResults (style : Style Rat) (childStyles : List (Style Rat)) (inputs : LayoutInput Rat) :
    AllResults CollapseSound (computeBlockLayout style childStyles inputs) := by
  unfold computeBlockLayout
  simp only []
  split
  · exact collapseSound_fromOuterSize _
  · exact computeInner_allResults _ _ _

end BlockModel
