/-
  The per-item loop bodies of Model/Flex.lean that talk to a child, cut into named pure pieces (the arguments of the child
  query, the computation on the answer).  Every `…_eq` is `rfl`: nothing is re-modelled.

    flexBaseSizeItem        = fb*        (determine_flex_base_size, one item)
    intrinsicItem           = in*        (determine_container_main_size, intrinsic arm, one item)
    hypotheticalCrossItem   = hc*        (determine_hypothetical_cross_size, one item)
    baselineItems           = bl*        (calculate_children_base_lines, one item)
    calculateFlexItem       = cf*        (calculate_flex_item)
    absItem                 = ab*        (perform_absolute_layout_on_absolute_children, one child)
-/
import TaffyVerif.Model.Flex

set_option linter.unusedSectionVars false

namespace FlexStages
open FlexModel
open AbsPos (Dir.mainStart Dir.mainEnd Dir.crossStart Dir.crossEnd Dir.pMain Dir.pCross)
variable {α : Type} [Num α]

/-! ### determine_flex_base_size -/

/-- the cross-axis available space for child sizing -/
def fbCrossAvail (k : AlgoConstants α) (availableSpace : Size (AvailableSpace α)) (child : FlexItem α) :
    AvailableSpace α :=
  let dir := k.dir
  let crossAxisParentSize := k.nodeInnerSize.cross dir
  let crossAxisMarginSum := k.margin.crossAxisSum dir
  let childMinCross := MaybeMath.of_add (child.minSize.cross dir) crossAxisMarginSum
  let childMaxCross := MaybeMath.of_add (child.maxSize.cross dir) crossAxisMarginSum
  match availableSpace.cross dir with
  | .definite val => .definite (MaybeMath.fo_clamp (crossAxisParentSize.getD val) childMinCross childMaxCross)
  | .minContent => (match childMinCross with | some mn => .definite mn | none => .minContent)
  | .maxContent => (match childMaxCross with | some mx => .definite mx | none => .maxContent)

def fbKnown (k : AlgoConstants α) (availableSpace : Size (AvailableSpace α)) (child : FlexItem α) : Size (Option α) :=
  childKnownDimensions k.dir child (fbCrossAvail k availableSpace child)

def fbParent (k : AlgoConstants α) : Size (Option α) := fromCross k.dir (k.nodeInnerSize.cross k.dir)

/-- the flex-basis box-sizing adjustment (main axis) -/
def fbAdjust (k : AlgoConstants α) (cs : Style α) : α :=
  (if cs.boxSizing == .contentBox then
    let padding := Resolve.rectLPOrZero cs.padding (k.nodeInnerSize.main k.dir)
    let border := Resolve.rectLPOrZero cs.border (k.nodeInnerSize.main k.dir)
    (padding.add border).sumAxes
  else Size.zero).main k.dir

/-- `flex_basis.or(main_size)`: the definite flex basis, if any -/
def fbDefinite (k : AlgoConstants α) (cs : Style α) (child : FlexItem α) : Option α :=
  (MaybeMath.of_add (cs.flexBasis.maybeResolve (k.nodeInnerSize.main k.dir)) (fbAdjust k cs)).or
    (child.size.main k.dir)

/-- available space of the max-content (or min-content) flex-basis query -/
def fbAvailBasis (k : AlgoConstants α) (availableSpace : Size (AvailableSpace α)) (child : FlexItem α) :
    Size (AvailableSpace α) :=
  let mainAv : AvailableSpace α :=
    match availableSpace.main k.dir with | .minContent => .minContent | _ => .maxContent
  setCross (setMain ⟨.maxContent, .maxContent⟩ k.dir mainAv) k.dir (fbCrossAvail k availableSpace child)

/-- available space of the min-content query -/
def fbAvailMin (k : AlgoConstants α) (availableSpace : Size (AvailableSpace α)) (child : FlexItem α) :
    Size (AvailableSpace α) :=
  setCross ⟨.minContent, .minContent⟩ k.dir (fbCrossAvail k availableSpace child)

/-- everything after the two queries -/
def fbFinish (k : AlgoConstants α) (child : FlexItem α) (flexBasis minContentMainSize : α) : FlexItem α :=
  let dir := k.dir
  let paddingBorderSum := child.padding.mainAxisSum dir + child.border.mainAxisSum dir
  let flexBasis := Num.fmax flexBasis paddingBorderSum
  let innerFlexBasis := flexBasis - child.padding.mainAxisSum dir - child.border.mainAxisSum dir
  let paddingBorderAxesSums : Size α := (child.padding.add child.border).sumAxes
  let autoMin : Size (Option α) :=
    ⟨child.overflow.x.maybeIntoAutomaticMinSize, child.overflow.y.maybeIntoAutomaticMinSize⟩
  let styleMinMainSize : Option α := (child.minSize.orOpt autoMin).main dir
  let clampedMinContentSize :=
    MaybeMath.fo_min (MaybeMath.fo_min minContentMainSize (child.size.main dir)) (child.maxSize.main dir)
  let contentMin := Num.fmax clampedMinContentSize (paddingBorderAxesSums.main dir)
  let resolvedMinimumMainSize := styleMinMainSize.getD contentMin
  let hypotheticalInnerMinMain := Num.fmax resolvedMinimumMainSize (paddingBorderAxesSums.main dir)
  let hypotheticalInnerSize :=
    MaybeMath.fo_clamp flexBasis (some hypotheticalInnerMinMain) (child.maxSize.main dir)
  let hypotheticalOuterSize := hypotheticalInnerSize + child.margin.mainAxisSum dir
  { child with
    flexBasis, innerFlexBasis, resolvedMinimumMainSize,
    hypotheticalInnerSize := setMain child.hypotheticalInnerSize dir hypotheticalInnerSize,
    hypotheticalOuterSize := setMain child.hypotheticalOuterSize dir hypotheticalOuterSize }

theorem flexBaseSizeItem_eq (k : AlgoConstants α) (availableSpace : Size (AvailableSpace α)) (cs : Style α)
    (child : FlexItem α) :
    flexBaseSizeItem k availableSpace cs child =
      ((match fbDefinite k cs child with
        | some fb => (pure fb : ProgM α α)
        | none => ProgM.measureChildSize child.nodeIdx (fbKnown k availableSpace child) (fbParent k)
            (fbAvailBasis k availableSpace child) .contentSize k.dir.isRow ⟨false, false⟩) >>= fun flexBasis =>
       ProgM.measureChildSize child.nodeIdx (fbKnown k availableSpace child) (fbParent k)
          (fbAvailMin k availableSpace child) .contentSize k.dir.isRow ⟨false, false⟩ >>= fun minContent =>
       pure (fbFinish k child flexBasis minContent)) := rfl

/-! ### determine_container_main_size: the intrinsic arm -/

def inClampingBasis (k : AlgoConstants α) (item : FlexItem α) : Option α :=
  MaybeMath.oo_max (some item.flexBasis) (item.size.main k.dir)
def inBasisMin (k : AlgoConstants α) (item : FlexItem α) : Option α :=
  if Num.feq item.flexShrink 0 then inClampingBasis k item else none
def inBasisMax (k : AlgoConstants α) (item : FlexItem α) : Option α :=
  if Num.feq item.flexGrow 0 then inClampingBasis k item else none
def inMinMain (k : AlgoConstants α) (item : FlexItem α) : α :=
  Num.fmax (((MaybeMath.oo_max (item.minSize.main k.dir) (inBasisMin k item)).or (inBasisMin k item)).getD
    item.resolvedMinimumMainSize) item.resolvedMinimumMainSize
/-- `none` = `f32::INFINITY` -/
def inMaxMain (k : AlgoConstants α) (item : FlexItem α) : Option α :=
  (MaybeMath.oo_min (item.maxSize.main k.dir) (inBasisMax k item)).or (inBasisMax k item)
def inMaxLeMin (k : AlgoConstants α) (item : FlexItem α) : Bool :=
  match inMaxMain k item with | some mx => Num.fle mx (inMinMain k item) | none => false
def inArm1 (k : AlgoConstants α) (item : FlexItem α) : Option α :=
  match item.size.main k.dir, inMaxMain k item with
  | some pref, some mx =>
    if Num.fle mx (inMinMain k item) || Num.fle mx pref then
      some (Num.fmax (Num.fmin pref mx) (inMinMain k item) + item.margin.mainAxisSum k.dir)
    else none
  | _, _ => none

def inCrossAvail (k : AlgoConstants α) (availableSpace : Size (AvailableSpace α)) (item : FlexItem α) :
    AvailableSpace α :=
  let dir := k.dir
  let crossAxisParentSize := k.nodeInnerSize.cross dir
  let crossAxisMarginSum := k.margin.crossAxisSum dir
  let childMinCross := MaybeMath.of_add (item.minSize.cross dir) crossAxisMarginSum
  let childMaxCross := MaybeMath.of_add (item.maxSize.cross dir) crossAxisMarginSum
  let crossAv0 : AvailableSpace α := match availableSpace.cross dir with
    | .definite val => .definite (crossAxisParentSize.getD val)
    | x => x
  MaybeMath.ao_clamp crossAv0 childMinCross childMaxCross

def inContentRow (k : AlgoConstants α) (inset : α) (item : FlexItem α) (m : α) : α :=
  Num.fmax (MaybeMath.fo_clamp (m + item.margin.mainAxisSum k.dir) (item.minSize.main k.dir) (item.maxSize.main k.dir))
    inset
def inContentCol (k : AlgoConstants α) (inset : α) (item : FlexItem α) (m : α) : α :=
  Num.fmax (MaybeMath.fo_clamp (Num.fmax (m + item.margin.mainAxisSum k.dir) item.flexBasis) (item.minSize.main k.dir)
    (item.maxSize.main k.dir)) inset

/-- `content_flex_fraction` from the content contribution -/
def inFraction (item : FlexItem α) (contentContribution : α) : α :=
  let diff := contentContribution - item.flexBasis
  if Num.fgt diff 0 then diff / Num.fmax 1 item.flexGrow
  else if Num.flt diff 0 then
    if Num.fgt (Num.fmax 1 item.flexShrink * item.innerFlexBasis) 0 then
      diff / (Num.fmax 1 item.flexShrink * item.innerFlexBasis)
    else 0
  else 0

def inFinish (item : FlexItem α) (contentContribution : α) : FlexItem α :=
  { item with contentFlexFraction := inFraction item contentContribution }

/-- the content contribution of one item (the child query, if one is needed) -/
def inContribution (k : AlgoConstants α) (availableSpace : Size (AvailableSpace α)) (inset : α) (item : FlexItem α) :
    ProgM α α :=
  match inArm1 k item with
  | some v => (pure v : ProgM α α)
  | none =>
    if inMaxLeMin k item then pure (inMinMain k item + item.margin.mainAxisSum k.dir)
    else if item.isScrollContainer then pure (item.flexBasis + item.margin.mainAxisSum k.dir)
    else
      ProgM.measureChildSize item.nodeIdx (childKnownDimensions k.dir item (inCrossAvail k availableSpace item))
        k.nodeInnerSize (setCross availableSpace k.dir (inCrossAvail k availableSpace item)) .inherentSize
        k.dir.isRow ⟨false, false⟩ >>= fun m =>
      if k.isRow then pure (inContentRow k inset item m) else pure (inContentCol k inset item m)

theorem intrinsicItem_eq (k : AlgoConstants α) (availableSpace : Size (AvailableSpace α)) (inset : α)
    (item : FlexItem α) :
    intrinsicItem k availableSpace inset item =
      (inContribution k availableSpace inset item >>= fun contentContribution =>
        pure (inFinish item contentContribution)) := rfl

/-! ### determine_container_main_size -/

/-- the outer main size before clamping (and the lines, whose items' targets the intrinsic arm sets) -/
def mainOuter (k : AlgoConstants α) (availableSpace : Size (AvailableSpace α)) (lines : List (FlexLineS α)) :
    ProgM α (List (FlexLineS α) × α) :=
  match k.nodeOuterSize.main k.dir with
  | some v => (pure (lines, v) : ProgM α (List (FlexLineS α) × α))
  | none =>
    match availableSpace.main k.dir with
    | .definite mainAxisAvailableSpace =>
      pure (lines,
        if lines.length > 1 then
          Num.fmax (longestLineLength k lines + k.contentBoxInset.mainAxisSum k.dir) mainAxisAvailableSpace
        else longestLineLength k lines + k.contentBoxInset.mainAxisSum k.dir)
    | .minContent =>
      if k.isWrap then pure (lines, longestLineLength k lines + k.contentBoxInset.mainAxisSum k.dir)
      else do
        let (lines', mainSize) ← intrinsicLines k availableSpace (k.contentBoxInset.mainAxisSum k.dir) lines 0
        pure (lines', mainSize + k.contentBoxInset.mainAxisSum k.dir)
    | .maxContent => do
      let (lines', mainSize) ← intrinsicLines k availableSpace (k.contentBoxInset.mainAxisSum k.dir) lines 0
      pure (lines', mainSize + k.contentBoxInset.mainAxisSum k.dir)

/-- clamp the outer main size and write the container sizes -/
def mainFinish (k : AlgoConstants α) (outerMainSize : α) : AlgoConstants α :=
  let dir := k.dir
  let mainContentBoxInset := k.contentBoxInset.mainAxisSum dir
  let outerMainSize :=
    Num.fmax (MaybeMath.fo_clamp outerMainSize (k.minSize.main dir) (k.maxSize.main dir))
      (mainContentBoxInset - Dir.pMain k.scrollbarGutter dir)
  let innerMainSize := Num.fmax (outerMainSize - mainContentBoxInset) 0
  { k with containerSize := setMain k.containerSize dir outerMainSize,
           innerContainerSize := setMain k.innerContainerSize dir innerMainSize,
           nodeInnerSize := setMain k.nodeInnerSize dir (some innerMainSize) }

theorem determineContainerMainSize_eq (k : AlgoConstants α) (availableSpace : Size (AvailableSpace α))
    (lines : List (FlexLineS α)) :
    determineContainerMainSize k availableSpace lines =
      (mainOuter k availableSpace lines >>= fun r => pure (r.1, mainFinish k r.2)) := rfl

/-! ### determine_hypothetical_cross_size -/

def hcPaddingBorder (k : AlgoConstants α) (child : FlexItem α) : α := (child.padding.add child.border).crossAxisSum k.dir
def hcDefinite (k : AlgoConstants α) (child : FlexItem α) : Option α :=
  MaybeMath.of_max (MaybeMath.oo_clamp (child.size.cross k.dir) (child.minSize.cross k.dir) (child.maxSize.cross k.dir))
    (hcPaddingBorder k child)
def hcAvailCross (k : AlgoConstants α) (availableSpace : Size (AvailableSpace α)) (child : FlexItem α) :
    AvailableSpace α :=
  MaybeMath.af_max (MaybeMath.ao_clamp (availableSpace.cross k.dir) (child.minSize.cross k.dir)
    (child.maxSize.cross k.dir)) (hcPaddingBorder k child)
def hcKnown (k : AlgoConstants α) (child : FlexItem α) : Size (Option α) :=
  ⟨if k.isRow then some child.targetSize.width else hcDefinite k child,
   if k.isRow then hcDefinite k child else some child.targetSize.height⟩
def hcAvail (k : AlgoConstants α) (availableSpace : Size (AvailableSpace α)) (child : FlexItem α) :
    Size (AvailableSpace α) :=
  ⟨if k.isRow then .definite (k.containerSize.main k.dir) else hcAvailCross k availableSpace child,
   if k.isRow then hcAvailCross k availableSpace child else .definite (k.containerSize.main k.dir)⟩
def hcMeasured (k : AlgoConstants α) (child : FlexItem α) (m : α) : α :=
  Num.fmax (MaybeMath.fo_clamp m (child.minSize.cross k.dir) (child.maxSize.cross k.dir)) (hcPaddingBorder k child)
def hcFinish (k : AlgoConstants α) (child : FlexItem α) (childInnerCross : α) : FlexItem α :=
  { child with
    hypotheticalInnerSize := setCross child.hypotheticalInnerSize k.dir childInnerCross,
    hypotheticalOuterSize := setCross child.hypotheticalOuterSize k.dir (childInnerCross + child.margin.crossAxisSum k.dir) }

theorem hypotheticalCrossItem_eq (k : AlgoConstants α) (availableSpace : Size (AvailableSpace α)) (child : FlexItem α) :
    hypotheticalCrossItem k availableSpace child =
      ((match hcDefinite k child with
        | some v => (pure v : ProgM α α)
        | none =>
          ProgM.measureChildSize child.nodeIdx (hcKnown k child) k.nodeInnerSize (hcAvail k availableSpace child)
            .contentSize (!k.dir.isRow) ⟨false, false⟩ >>= fun m => pure (hcMeasured k child m)) >>=
        fun childInnerCross => pure (hcFinish k child childInnerCross)) := rfl

/-! ### calculate_children_base_lines -/

def blKnown (k : AlgoConstants α) (child : FlexItem α) : Size (Option α) :=
  ⟨if k.isRow then some child.targetSize.width else some child.hypotheticalInnerSize.width,
   if k.isRow then some child.hypotheticalInnerSize.height else some child.targetSize.height⟩
def blAvail (k : AlgoConstants α) (nodeSize : Size (Option α)) (availableSpace : Size (AvailableSpace α)) :
    Size (AvailableSpace α) :=
  ⟨if k.isRow then .definite k.containerSize.width else availableSpace.width.maybeSet nodeSize.width,
   if k.isRow then availableSpace.height.maybeSet nodeSize.height else .definite k.containerSize.height⟩
def blFinish (child : FlexItem α) (out : LayoutOutput α) : FlexItem α :=
  { child with baseline := out.firstBaselines.y.getD out.size.height + child.margin.top }

theorem baselineItems_cons (k : AlgoConstants α) (nodeSize : Size (Option α)) (availableSpace : Size (AvailableSpace α))
    (child : FlexItem α) (rest : List (FlexItem α)) :
    baselineItems k nodeSize availableSpace (child :: rest) =
      if child.alignSelf != .baseline then
        baselineItems k nodeSize availableSpace rest >>= fun rest' => pure (child :: rest')
      else
        ProgM.performChildLayout child.nodeIdx (blKnown k child) k.nodeInnerSize (blAvail k nodeSize availableSpace)
          .contentSize ⟨false, false⟩ >>= fun out =>
        baselineItems k nodeSize availableSpace rest >>= fun rest' => pure (blFinish child out :: rest') := rfl

/-! ### calculate_flex_item -/

def cfKnown (item : FlexItem α) : Size (Option α) := ⟨some item.targetSize.width, some item.targetSize.height⟩
def cfAvail (k : AlgoConstants α) : Size (AvailableSpace α) :=
  ⟨.definite k.containerSize.width, .definite k.containerSize.height⟩
def cfLocation (k : AlgoConstants α) (item : FlexItem α) (totalOffsetMain totalOffsetCross lineOffsetCross : α) :
    Point α :=
  let direction := k.dir
  let offsetMain := totalOffsetMain + item.offsetMain + Dir.mainStart item.margin direction
    + (((Dir.mainStart item.inset direction).or ((Dir.mainEnd item.inset direction).map fun pos => -pos)).getD 0)
  let offsetCross := totalOffsetCross + item.offsetCross + lineOffsetCross + Dir.crossStart item.margin direction
    + (((Dir.crossStart item.inset direction).or ((Dir.crossEnd item.inset direction).map fun pos => -pos)).getD 0)
  if direction.isRow then ⟨offsetMain, offsetCross⟩ else ⟨offsetCross, offsetMain⟩
def cfBaseline (k : AlgoConstants α) (item : FlexItem α) (totalOffsetMain totalOffsetCross : α)
    (out : LayoutOutput α) : α :=
  let direction := k.dir
  let innerBaseline := out.firstBaselines.y.getD out.size.height
  if direction.isRow then (totalOffsetCross + item.offsetCross + Dir.crossStart item.margin direction) + innerBaseline
  else (totalOffsetMain + item.offsetMain + Dir.mainStart item.margin direction) + innerBaseline
def cfLayout (item : FlexItem α) (location : Point α) (out : LayoutOutput α) : Layout α :=
  { order := item.order, size := out.size, contentSize := out.contentSize,
    scrollbarSize :=
      ⟨if item.overflow.y == .scroll then item.scrollbarWidth else 0,
       if item.overflow.x == .scroll then item.scrollbarWidth else 0⟩,
    location, padding := item.padding, border := item.border, margin := item.margin }
def cfResult (k : AlgoConstants α) (item : FlexItem α) (totalOffsetMain totalOffsetCross lineOffsetCross : α)
    (totalContentSize : Size α) (out : LayoutOutput α) : FlexItem α × α × Size α :=
  ({ item with baseline := cfBaseline k item totalOffsetMain totalOffsetCross out },
   totalOffsetMain + (item.offsetMain + item.margin.mainAxisSum k.dir + out.size.main k.dir),
   totalContentSize.f32Max (BlockModel.contentSizeContribution
     (cfLocation k item totalOffsetMain totalOffsetCross lineOffsetCross) out.size out.contentSize item.overflow))

theorem calculateFlexItem_eq (k : AlgoConstants α) (item : FlexItem α)
    (totalOffsetMain totalOffsetCross lineOffsetCross : α) (totalContentSize : Size α) :
    calculateFlexItem k item totalOffsetMain totalOffsetCross lineOffsetCross totalContentSize =
      (ProgM.performChildLayout item.nodeIdx (cfKnown item) k.nodeInnerSize (cfAvail k) .contentSize ⟨false, false⟩ >>=
        fun out =>
        ProgM.setUnroundedLayout item.nodeIdx
          (cfLayout item (cfLocation k item totalOffsetMain totalOffsetCross lineOffsetCross) out) >>= fun _ =>
        pure (cfResult k item totalOffsetMain totalOffsetCross lineOffsetCross totalContentSize out)) := rfl

/-! ### perform_absolute_layout_on_absolute_children -/

def abInput (k : AlgoConstants α) (order : Nat) (cs : Style α) : LayoutInput α :=
  let a := absArgs k order
  let r := AbsPos.flexResolve a cs
  AbsPos.flexChildInput a r (AbsPos.flexKnown a r cs.aspectRatio)
def abFinalSize (k : AlgoConstants α) (order : Nat) (cs : Style α) (out : LayoutOutput α) : Size α :=
  let a := absArgs k order
  let r := AbsPos.flexResolve a cs
  AbsPos.flexFinalSize r (AbsPos.flexKnown a r cs.aspectRatio) out.size
def abMargin (k : AlgoConstants α) (order : Nat) (cs : Style α) (out : LayoutOutput α) : Rect α :=
  AbsPos.flexResolvedMargin (absArgs k order) (AbsPos.flexResolve (absArgs k order) cs) (abFinalSize k order cs out)
def abLocation (k : AlgoConstants α) (order : Nat) (cs : Style α) (out : LayoutOutput α) : Point α :=
  AbsPos.flexLocation (absArgs k order) (AbsPos.flexResolve (absArgs k order) cs) (abFinalSize k order cs out)
    (abMargin k order cs out)
def abLayout (k : AlgoConstants α) (order : Nat) (cs : Style α) (out : LayoutOutput α) : Layout α :=
  { order, size := abFinalSize k order cs out, contentSize := out.contentSize,
    scrollbarSize := AbsPos.scrollbarSize cs, location := abLocation k order cs out,
    padding := (AbsPos.flexResolve (absArgs k order) cs).padding,
    border := (AbsPos.flexResolve (absArgs k order) cs).border, margin := abMargin k order cs out }
def abW (k : AlgoConstants α) (order : Nat) (cs : Style α) (out : LayoutOutput α) : α :=
  match cs.overflow.x with
  | .visible => Num.fmax (abFinalSize k order cs out).width out.contentSize.width
  | _ => (abFinalSize k order cs out).width
def abH (k : AlgoConstants α) (order : Nat) (cs : Style α) (out : LayoutOutput α) : α :=
  match cs.overflow.y with
  | .visible => Num.fmax (abFinalSize k order cs out).height out.contentSize.height
  | _ => (abFinalSize k order cs out).height
def abAcc (k : AlgoConstants α) (order : Nat) (cs : Style α) (acc : Size α) (out : LayoutOutput α) : Size α :=
  if Num.fgt (abW k order cs out) 0 && Num.fgt (abH k order cs out) 0 then
    acc.f32Max ⟨(abLocation k order cs out).x + abW k order cs out, (abLocation k order cs out).y + abH k order cs out⟩
  else acc

theorem absItem_eq (k : AlgoConstants α) (order : Nat) (cs : Style α) (acc : Size α) :
    absItem k order cs acc =
      (ProgM.computeChildLayout order (abInput k order cs) >>= fun out =>
        ProgM.setUnroundedLayout order (abLayout k order cs out) >>= fun _ =>
        if Num.fgt (abW k order cs out) 0 && Num.fgt (abH k order cs out) 0 then
          pure (acc.f32Max ⟨(abLocation k order cs out).x + abW k order cs out,
            (abLocation k order cs out).y + abH k order cs out⟩)
        else pure acc) := rfl

end FlexStages
