/-
  C06 for flexbox, part 4: `FlexModel.computeFlexboxLayout` under `C06.AgreeA` — child-style lists that agree except at
  absolutely positioned children give programs that are `C06.AbsEquiv` (equal up to the calls/`setLayout`s addressed to
  those children and up to `content_size`).
-/
import TaffyVerif.Lemmas.FlexAbsTail

set_option linter.unusedSectionVars false

namespace FlexAbs
open FlexModel FlexStages C06
variable {α : Type} [Num α]

/-! ### item generation -/

/-- `generate_anonymous_flex_items` filters the absolutely positioned children out: the item lists are EQUAL -/
theorem generateItemsFrom_agree (k : AlgoConstants α) : ∀ (xs ys : List (Style α)) (idx : Nat), AgreeA xs ys →
    generateItemsFrom k xs idx = generateItemsFrom k ys idx
  | [], [], _, _ => rfl
  | [], _ :: _, _, h => by simp only [AgreeA] at h
  | _ :: _, [], _, h => by simp only [AgreeA] at h
  | x :: xs, y :: ys, idx, h => by
    simp only [AgreeA] at h
    have ih := generateItemsFrom_agree k xs ys (idx + 1) h.2
    rcases h.1 with ⟨hx, hy⟩ | ⟨_, hxy⟩
    · have e1 : (x.position == .absolute) = true := by rw [hx.1]; rfl
      have e2 : (y.position == .absolute) = true := by rw [hy.1]; rfl
      simp only [generateItemsFrom, e1, e2, Bool.true_or, if_true, ih]
    · subst hxy
      simp only [generateItemsFrom, ih]

theorem mem_generateItemsFrom (k : AlgoConstants α) : ∀ (l : List (Style α)) (idx : Nat) (it : FlexItem α),
    it ∈ generateItemsFrom k l idx → ∃ j x, l[j]? = some x ∧ it.nodeIdx = idx + j ∧ x.position ≠ .absolute
  | [], _, _, h => by simp [generateItemsFrom] at h
  | cs :: rest, idx, it, h => by
    have step : it ∈ generateItemsFrom k rest (idx + 1) →
        ∃ j x, (cs :: rest)[j]? = some x ∧ it.nodeIdx = idx + j ∧ x.position ≠ .absolute := by
      intro h'
      obtain ⟨j, x, hj, hi, hp⟩ := mem_generateItemsFrom k rest (idx + 1) it h'
      exact ⟨j + 1, x, by simpa using hj, by rw [hi]; omega, hp⟩
    unfold generateItemsFrom at h
    split at h
    · exact step h
    · rename_i hc
      rcases List.mem_cons.1 h with e | e
      · subst e
        refine ⟨0, cs, by simp, rfl, ?_⟩
        intro hp
        apply hc
        rw [hp]; rfl
      · exact step e

theorem generate_ok (k : AlgoConstants α) (xs : List (Style α)) :
    ItemsOK (NA (absIdx xs)) (generateAnonymousFlexItems k xs) := by
  intro it hit
  obtain ⟨j, x, hj, hi, hp⟩ := mem_generateItemsFrom k xs 0 it hit
  rintro ⟨x', hx', hv⟩
  rw [hi, Nat.zero_add, hj] at hx'
  cases hx'
  exact hp hv.1

/-- the styles of the non-absolutely-positioned children are the same on both sides -/
theorem styleOf_agree (xs ys : List (Style α)) (h : AgreeA xs ys) (i : Nat) (hn : ¬ absIdx xs i) :
    styleOf xs i = styleOf ys i := by
  obtain ⟨hl, hi⟩ := (AgreeA_iff xs ys).1 h
  unfold styleOf
  cases hx : xs[i]? with
  | none =>
    have : ys[i]? = none := by
      rw [List.getElem?_eq_none_iff] at hx ⊢
      omega
    rw [this]
  | some x =>
    have hlt : i < ys.length := by
      have := (List.getElem?_eq_some_iff.1 hx).1
      omega
    have hy : ys[i]? = some ys[i] := List.getElem?_eq_getElem hlt
    rcases hi i x ys[i] hx hy with ⟨hv, _⟩ | ⟨_, e⟩
    · exact absurd ⟨x, hx, hv⟩ hn
    · rw [hy, e]

/-- the same indices are absolutely positioned on both sides -/
theorem absVis_idx (xs ys : List (Style α)) (h : AgreeA xs ys) (j : Nat) (y : Style α) (hy : ys[j]? = some y)
    (hv : absVis y) : absIdx xs j := by
  obtain ⟨hl, hi⟩ := (AgreeA_iff xs ys).1 h
  have hlt : j < xs.length := by
    have := (List.getElem?_eq_some_iff.1 hy).1
    omega
  have hx : xs[j]? = some xs[j] := List.getElem?_eq_getElem hlt
  rcases hi j xs[j] y hx hy with ⟨hvx, _⟩ | ⟨hnx, e⟩
  · exact ⟨_, hx, hvx⟩
  · rw [e] at hnx; exact absurd hv hnx

/-! ### composition -/

open EvalBlock (OnlyAbs_equiv hiddenLoop_equiv)

theorem tailStage_equiv (k : AlgoConstants α) (xs ys : List (Style α)) (total : α) (lines : List (FlexLineS α))
    (h : AgreeA xs ys) (hl : LinesOK (NA (absIdx xs)) lines) :
    AbsEquiv (absIdx xs) OutEqv (tailStage k xs total lines) (tailStage k ys total lines) := by
  unfold tailStage
  refine AbsEquiv.bind (finalLayoutPass_equiv (absIdx xs) k _ (alignFlexLinesPerAlignContent_ok _ k total lines hl))
    fun a b hab => ?_
  obtain ⟨a1, a2⟩ := a
  obtain ⟨b1, b2⟩ := b
  dsimp only at hab
  subst hab
  dsimp only
  refine AbsEquiv.bind (Q := fun _ _ => True) (OnlyAbs_equiv _ _ _
    (absLoop_onlyAbs _ k xs 0 _ fun j x hj hv => ⟨x, by simpa using hj, hv⟩)
    (absLoop_onlyAbs _ k ys 0 _ fun j y hj hv => by
      rw [Nat.zero_add]; exact absVis_idx xs ys h j y hj hv)) fun acsA acsB _ => ?_
  refine AbsEquiv.bind (Q := fun _ _ => True) (hiddenLoop_equiv _ xs ys 0 h ?_) fun _ _ _ => ?_
  · intro j x hj hx ⟨x', hj', hv⟩
    rw [Nat.zero_add, hj] at hj'
    cases hj'
    exact hv.2 ((EvalBlock.isHidden_iff x).1 hx)
  · exact AbsEquiv.pure _ _ ⟨rfl, rfl, rfl, rfl, rfl⟩

theorem afterCalls_equiv (k : AlgoConstants α) (xs ys : List (Style α)) (inputs : LayoutInput α)
    (lines : List (FlexLineS α)) (h : AgreeA xs ys) (hl : LinesOK (NA (absIdx xs)) lines) :
    AbsEquiv (absIdx xs) OutEqv (afterCalls k xs inputs lines) (afterCalls k ys inputs lines) := by
  unfold afterCalls
  dsimp only
  rw [← crossLines_congr (NA (absIdx xs)) k inputs.knownDimensions (styleOf xs) (styleOf ys)
    (fun i hi => styleOf_agree xs ys h i hi) lines hl]
  split
  · exact AbsEquiv.pure _ _ (OutEqv.refl _)
  · exact tailStage_equiv _ xs ys _ _ h (crossLines_ok _ k _ _ lines hl)

variable [FlexLine.NumX α]

theorem afterMain_equiv (xs ys : List (Style α)) (inputs : LayoutInput α) (av : Size (AvailableSpace α))
    (r : List (FlexLineS α) × AlgoConstants α) (h : AgreeA xs ys) (hl : LinesOK (NA (absIdx xs)) r.1) :
    AbsEquiv (absIdx xs) OutEqv (afterMain xs inputs av r) (afterMain ys inputs av r) := by
  unfold afterMain
  refine SelfEq.bindE (determineHypotheticalCrossSize_self (absIdx xs) r.2 av _
    (hl.map _ fun x hx => resolveFlexibleLengthsLine_ok _ r.2 x hx)) fun l1 h1 => ?_
  refine SelfEq.bindE (calculateChildrenBaseLines_self (absIdx xs) r.2 _ av l1 h1) fun l2 h2 => ?_
  exact afterCalls_equiv r.2 xs ys inputs l2 h h2

theorem afterBase_equiv (style : Style α) (xs ys : List (Style α)) (inputs : LayoutInput α)
    (items : List (FlexItem α)) (h : AgreeA xs ys) (hi : ItemsOK (NA (absIdx xs)) items) :
    AbsEquiv (absIdx xs) OutEqv (afterBase style xs inputs items) (afterBase style ys inputs items) := by
  unfold afterBase
  dsimp only
  refine SelfEq.bindE (mainStage_self (absIdx xs) style _ _ _ (collectFlexLines_ok _ _ _ items hi)) fun r hr => ?_
  exact afterMain_equiv xs ys inputs _ r h hr

theorem computePreliminary_equiv (style : Style α) (xs ys : List (Style α)) (inputs : LayoutInput α)
    (h : AgreeA xs ys) :
    AbsEquiv (absIdx xs) OutEqv (computePreliminary style xs inputs) (computePreliminary style ys inputs) := by
  rw [computePreliminary_eq, computePreliminary_eq]
  have hg : generateAnonymousFlexItems (prelimConsts style inputs) ys =
      generateAnonymousFlexItems (prelimConsts style inputs) xs :=
    (generateItemsFrom_agree _ xs ys 0 h).symm
  have hok := generate_ok (prelimConsts style inputs) xs
  rw [hg, ← determineFlexBaseSize_congr _ _ (styleOf xs) (styleOf ys) _
    fun it hit => styleOf_agree xs ys h _ (hok it hit)]
  refine SelfEq.bindE (determineFlexBaseSize_self (absIdx xs) _ _ _ _ hok) fun items hi => ?_
  exact afterBase_equiv style xs ys inputs items h hi

/-- **computeFlexboxLayout_equiv** -/
theorem computeFlexboxLayout_equiv (style : Style α) (xs ys : List (Style α)) (inputs : LayoutInput α)
    (h : AgreeA xs ys) :
    AbsEquiv (absIdx xs) OutEqv (computeFlexboxLayout style xs inputs) (computeFlexboxLayout style ys inputs) := by
  unfold computeFlexboxLayout
  dsimp only
  split
  · exact AbsEquiv.pure _ _ (OutEqv.refl _)
  · exact computePreliminary_equiv style xs ys _ h

end FlexAbs
