/-
  The laying-out stage of the grid program (`gridTail`: steps 8, 9: item positioning and the hidden/absolute loop).

  `LaysE ok J p`: the program `p : ProgM α (Except String β)` is a fixed sequence — independent of the children's answers —
  of   `perform_child_layout(j)` ; `set_unrounded_layout(j, l)` with `ok j l`   pairs for `j` in `J`, in order, that may
  stop early with a panic (`.error`) at any pair boundary.
-/
import TaffyVerif.Lemmas.EvalGridStages

set_option linter.unusedSectionVars false
set_option linter.unusedVariables false

namespace EvalGrid
open GridModel GridTracks EvalBlock
variable {α : Type} [Num α]

def LaysE {β : Type} (ok : Nat → Layout α → Prop) : List Nat → ProgM α (Except String β) → Prop
  | [], p => ∃ r, p = .pure r
  | j :: J, p => (∃ e, p = .pure (.error e)) ∨
      ∃ (inp : LayoutInput α) (lay : LayoutOutput α → Layout α) (k : LayoutOutput α → ProgM α (Except String β)),
        inp.runMode = .performLayout ∧ (∀ o, ok j (lay o)) ∧
        p = .call j inp (fun o => .setLayout j (lay o) fun _ => k o) ∧ ∀ o, LaysE ok J (k o)

/-- `LaysE` of a `GM` program -/
abbrev GLays {β : Type} (ok : Nat → Layout α → Prop) (J : List Nat) (p : GM α β) : Prop := LaysE ok J (run p)

theorem LaysE_error {β : Type} (ok : Nat → Layout α → Prop) (e : String) :
    ∀ J, LaysE ok J (.pure (.error e) : ProgM α (Except String β))
  | [] => ⟨_, rfl⟩
  | _ :: _ => Or.inl ⟨e, rfl⟩

theorem GLays_pure {β : Type} (ok : Nat → Layout α → Prop) (b : β) : GLays ok [] (pure b : GM α β) := ⟨_, rfl⟩
theorem GLays_throw {β : Type} (ok : Nat → Layout α → Prop) (J : List Nat) (e : String) :
    GLays ok J (throw e : GM α β) := LaysE_error ok e J

theorem LaysE_bind {β γ : Type} (ok : Nat → Layout α → Prop) (f : Except String β → ProgM α (Except String γ))
    (J' : List Nat) (hf : ∀ x, LaysE ok J' (f (.ok x))) (he : ∀ e, f (.error e) = .pure (.error e)) :
    ∀ (J : List Nat) (p : ProgM α (Except String β)), LaysE ok J p → LaysE ok (J ++ J') (p >>= f)
  | [], p, ⟨r, hr⟩ => by
    subst hr
    cases r with
    | ok x => exact hf x
    | error e => show LaysE ok J' (f (.error e)); rw [he]; exact LaysE_error ok e J'
  | j :: J, p, h => by
    rcases h with ⟨e, hp⟩ | ⟨inp, lay, k, hm, hok, hp, hk⟩
    · subst hp
      show LaysE ok (j :: (J ++ J')) (f (.error e))
      rw [he]; exact Or.inl ⟨e, rfl⟩
    · subst hp
      exact Or.inr ⟨inp, lay, fun o => k o >>= f, hm, hok, rfl, fun o => LaysE_bind ok f J' hf he J (k o) (hk o)⟩

theorem GLays_bind {β γ : Type} (ok : Nat → Layout α → Prop) (J J' : List Nat) (p : GM α β) (f : β → GM α γ)
    (hp : GLays ok J p) (hf : ∀ x, GLays ok J' (f x)) : GLays ok (J ++ J') (p >>= f) := by
  unfold GLays
  rw [run_bind]
  exact LaysE_bind ok (fun r => match r with
    | .ok a => run (f a)
    | .error e => pure (.error e)) J' hf (fun _ => rfl) J _ hp

/-- a pure-or-panic step before -/
theorem GLays_bind_nil {β γ : Type} (ok : Nat → Layout α → Prop) (J : List Nat) (p : GM α β) (f : β → GM α γ)
    (hp : GLays ok [] p) (hf : ∀ x, GLays ok J (f x)) : GLays ok J (p >>= f) :=
  GLays_bind ok [] J p f hp hf

/-- a pure post-processing after -/
theorem GLays_bind_pure {β γ : Type} (ok : Nat → Layout α → Prop) (J : List Nat) (p : GM α β) (f : β → GM α γ)
    (hp : GLays ok J p) (hf : ∀ x, GLays ok [] (f x)) : GLays ok J (p >>= f) := by
  have := GLays_bind ok J [] p f hp hf
  rwa [List.append_nil] at this

theorem GLays_ite {β : Type} {c : Prop} [Decidable c] (ok : Nat → Layout α → Prop) (J : List Nat) (p q : GM α β)
    (hp : GLays ok J p) (hq : GLays ok J q) : GLays ok J (if c then p else q) := by
  split <;> assumption

/-- `perform_child_layout(j)` then `set_unrounded_layout(j, lay)` -/
theorem GLays_call_set {β : Type} (ok : Nat → Layout α → Prop) (j : Nat) (inp : LayoutInput α)
    (lay : LayoutOutput α → Layout α) (K : LayoutOutput α → GM α β) (J : List Nat) (hm : inp.runMode = .performLayout)
    (hok : ∀ o, ok j (lay o)) (hK : ∀ o, GLays ok J (K o)) :
    GLays ok (j :: J) (GM.call j inp >>= fun out => GM.setLayout j (lay out) >>= fun _ => K out) := by
  refine Or.inr ⟨inp, lay, fun o => run (K o), hm, hok, ?_, fun o => hK o⟩
  rw [run_bind, run_call]
  show ProgM.call j inp _ = _
  congr 1

theorem GLays_ofOutcome {β : Type} (ok : Nat → Layout α → Prop) (x : GridPlacement.Outcome β) :
    GLays ok [] (GM.ofOutcome x : GM α β) := by
  cases x <;> exact ⟨_, rfl⟩

/-! ### what follows from `LaysE` -/

theorem LaysE_PHZ {β : Type} (cs : List (Style α)) (ok : Nat → Layout α → Prop)
    (hok : ∀ j l, ok j l → ∀ s, cs[j]? = some s → s.display = .none → C05.zeroFields l) :
    ∀ (J : List Nat) (p : ProgM α (Except String β)), LaysE ok J p → C05.PHZ cs p
  | [], p, ⟨r, hr⟩ => by subst hr; trivial
  | j :: J, p, h => by
    rcases h with ⟨e, hp⟩ | ⟨inp, lay, k, hm, hl, hp, hk⟩
    · subst hp; trivial
    · subst hp
      intro o
      exact ⟨hok j _ (hl o), fun _ => LaysE_PHZ cs ok hok J (k o) (hk o)⟩

theorem LaysE_callsLe {β : Type} (ok : Nat → Layout α → Prop) :
    ∀ (J : List Nat) (p : ProgM α (Except String β)), LaysE ok J p → C16.callsLe J.length p
  | [], p, ⟨r, hr⟩ => by subst hr; trivial
  | j :: J, p, h => by
    rcases h with ⟨e, hp⟩ | ⟨inp, lay, k, hm, hl, hp, hk⟩
    · subst hp; trivial
    · subst hp
      exact ⟨J.length, rfl, fun o => LaysE_callsLe ok J (k o) (hk o)⟩

/-- every visited child ends with both flags set, no other child loses them (non-panicking runs) -/
theorem LaysE_Track {β : Type} (ok : Nat → Layout α → Prop) :
    ∀ (J : List Nat) (p : ProgM α (Except String β)) (own strict : Nat → Bool), LaysE ok J p →
      Track own strict p (fun r o s => ∀ b, r = .ok b → (∀ i, G own strict i → G o s i) ∧ ∀ j ∈ J, G o s j)
  | [], p, own, strict, ⟨r, hr⟩ => by
    subst hr
    intro b _
    exact ⟨fun _ h => h, fun _ h => by simp at h⟩
  | j :: J, p, own, strict, h => by
    rcases h with ⟨e, hp⟩ | ⟨inp, lay, k, hm, hl, hp, hk⟩
    · subst hp
      intro b hb; cases hb
    · subst hp
      refine Track_callPL_set own strict j inp hm lay k _ fun out => ?_
      refine Track_mono _ _ _ ?_ _ _ (LaysE_Track ok J (k out) _ _ (hk out))
      intro r o s hr b hb
      obtain ⟨h2, h3⟩ := hr b hb
      refine ⟨fun i hi => h2 i (G_upd_true own strict _ i (Or.inl hi)), fun j' hj' => ?_⟩
      rcases List.mem_cons.1 hj' with e | e
      · subst e; exact h2 _ (G_upd_true own strict _ _ (Or.inr rfl))
      · exact h3 j' e

/-! ### `align_and_position_item`, the positioning loop, the hidden/absolute loop -/
section lay
variable [NumCast α]

/-- `align_and_position_item` is one PerformLayout call to the child followed by `set_unrounded_layout` on it -/
theorem alignAndPositionItem_shape (node : Nat) (cs : Style α) (order : Nat) (area : Rect α)
    (ji ai : Option AlignItems) (shim : α) :
    ∃ (inp : LayoutInput α) (lay : LayoutOutput α → Layout α) (K : LayoutOutput α → Size α × α × α),
      inp.runMode = .performLayout ∧
      run (alignAndPositionItem node cs order area ji ai shim) =
        .call node inp (fun o => .setLayout node (lay o) fun _ => .pure (.ok (K o))) :=
  ⟨_, _, _, rfl, rfl⟩

theorem GLays_alignAndPositionItem (ok : Nat → Layout α → Prop) (node : Nat) (cs : Style α) (order : Nat)
    (area : Rect α) (ji ai : Option AlignItems) (shim : α) (hok : ∀ l, ok node l) :
    GLays ok [node] (alignAndPositionItem node cs order area ji ai shim) := by
  obtain ⟨inp, lay, K, hm, hp⟩ := alignAndPositionItem_shape node cs order area ji ai shim
  exact Or.inr ⟨inp, lay, fun o => .pure (.ok (K o)), hm, fun o => hok _, hp, fun o => ⟨_, rfl⟩⟩

theorem GLays_trackOffset (ok : Nat → Layout α → Prop) (tracks : List (GridTrack α)) (i : Nat) :
    GLays ok [] (trackOffset tracks i) := by
  unfold trackOffset
  split <;> exact ⟨_, rfl⟩

theorem GLays_optOffset (ok : Nat → Layout α → Prop) (tracks : List (GridTrack α)) (i : Option Int) (d : α) :
    GLays ok [] (optOffset tracks i d) := by
  unfold optOffset
  split
  · exact ⟨_, rfl⟩
  · exact GLays_trackOffset ok tracks _

theorem GLays_positionItems (ok : Nat → Layout α → Prop) (childStyles : List (GridChildStyle α))
    (rows columns : List (GridTrack α)) (ji ai : Option AlignItems) :
    ∀ (items : List (GItem α)) (index : Nat) (acc : Size α), (∀ it ∈ items, ∀ l, ok it.node l) →
      GLays ok (items.map (·.node)) (positionItems childStyles rows columns ji ai items index acc)
  | [], _, _, _ => GLays_pure ok _
  | it :: rest, index, acc, hok => by
    unfold positionItems
    refine GLays_bind_nil ok _ _ _ (GLays_trackOffset ok _ _) fun top => ?_
    refine GLays_bind_nil ok _ _ _ (GLays_trackOffset ok _ _) fun bottom => ?_
    refine GLays_bind_nil ok _ _ _ (GLays_trackOffset ok _ _) fun left => ?_
    refine GLays_bind_nil ok _ _ _ (GLays_trackOffset ok _ _) fun right => ?_
    simp only []
    split
    · exact GLays_throw ok _ _
    · rename_i cs _
      rw [List.map_cons]
      refine GLays_bind ok [it.node] _ _ _ (GLays_alignAndPositionItem ok _ _ _ _ _ _ _
        (hok it List.mem_cons_self)) fun ⟨contribution, y, height⟩ => ?_
      simp only []
      refine GLays_bind_pure ok _ _ _ (GLays_positionItems ok childStyles rows columns ji ai rest _ _
        fun it' h' => hok it' (List.mem_cons_of_mem _ h')) fun ⟨rest', acc'⟩ => GLays_pure ok _

/-- the children visited by the hidden/absolute loop: `display:none` children and absolutely positioned boxes -/
def hidAbsIdxFrom : List (GridChildStyle α) → Nat → List Nat
  | [], _ => []
  | cs :: rest, index =>
    if cs.base.isHidden || cs.base.position == .absolute then index :: hidAbsIdxFrom rest (index + 1)
    else hidAbsIdxFrom rest (index + 1)

theorem GLays_hiddenAbsLoop (ok : Nat → Layout α → Prop) (c : Ctx α) (bb : Size α) (rows columns : List (GridTrack α))
    (cc rc : GridPlacement.TrackCounts) :
    ∀ (l : List (GridChildStyle α)) (index order : Nat) (acc : Size α),
      (∀ j cs, l[j]? = some cs → cs.base.isHidden = true → ∀ o, ok (index + j) (Layout.withOrder o)) →
      (∀ j cs, l[j]? = some cs → cs.base.isHidden = false → ∀ x, ok (index + j) x) →
      GLays ok (hidAbsIdxFrom l index) (hiddenAbsLoop c bb rows columns cc rc l index order acc)
  | [], _, _, _, _, _ => GLays_pure ok _
  | cs :: rest, index, order, acc, hh, hv => by
    have hh' : ∀ j cs', rest[j]? = some cs' → cs'.base.isHidden = true → ∀ o, ok (index + 1 + j) (Layout.withOrder o) := by
      intro j cs' hj hc o
      have := hh (j + 1) cs' (by simpa using hj) hc o
      rwa [show index + (j + 1) = index + 1 + j by omega] at this
    have hv' : ∀ j cs', rest[j]? = some cs' → cs'.base.isHidden = false → ∀ x, ok (index + 1 + j) x := by
      intro j cs' hj hc x
      have := hv (j + 1) cs' (by simpa using hj) hc x
      rwa [show index + (j + 1) = index + 1 + j by omega] at this
    unfold hiddenAbsLoop hidAbsIdxFrom
    by_cases h1 : cs.base.isHidden = true
    · simp only [h1, if_true, Bool.true_or]
      exact GLays_call_set ok index _ (fun _ => Layout.withOrder order)
        (fun _ => hiddenAbsLoop c bb rows columns cc rc rest (index + 1) (order + 1) acc) _ rfl
        (fun _ => by have := hh 0 cs rfl h1 order; simpa using this)
        fun _ => GLays_hiddenAbsLoop ok c bb rows columns cc rc rest _ _ _ hh' hv'
    · have h1' : cs.base.isHidden = false := by simpa using h1
      simp only [h1', Bool.false_eq_true, if_false, Bool.false_or]
      split
      · refine GLays_bind_nil ok _ _ _ (GLays_ofOutcome ok _) fun colIdx => ?_
        refine GLays_bind_nil ok _ _ _ (GLays_ofOutcome ok _) fun rowIdx => ?_
        refine GLays_bind_nil ok _ _ _ (GLays_optOffset ok _ _ _) fun top => ?_
        refine GLays_bind_nil ok _ _ _ (GLays_optOffset ok _ _ _) fun bottom => ?_
        refine GLays_bind_nil ok _ _ _ (GLays_optOffset ok _ _ _) fun left => ?_
        refine GLays_bind_nil ok _ _ _ (GLays_optOffset ok _ _ _) fun right => ?_
        refine GLays_bind ok [index] _ _ _ (GLays_alignAndPositionItem ok _ _ _ _ _ _ _
          (fun x => by have := hv 0 cs rfl h1' x; simpa using this)) fun ⟨contribution, _, _⟩ => ?_
        exact GLays_hiddenAbsLoop ok c bb rows columns cc rc rest _ _ _ hh' hv'
      · exact GLays_hiddenAbsLoop ok c bb rows columns cc rc rest _ _ _ hh' hv'

/-- **steps 8–9**: the grid items in source order, then the `display:none` and absolutely positioned children in child
order: each a PerformLayout call followed by `set_unrounded_layout` -/
theorem GLays_gridTail (ok : Nat → Layout α → Prop) (c : Ctx α) (childStyles : List (GridChildStyle α))
    (bb cb : Size α) (cc rc : GridPlacement.TrackCounts) (columns rows : List (GridTrack α)) (items : List (GItem α))
    (hitems : ∀ it ∈ items, ∀ l, ok it.node l)
    (hh : ∀ j cs, childStyles[j]? = some cs → cs.base.isHidden = true → ∀ o, ok j (Layout.withOrder o))
    (hv : ∀ j cs, childStyles[j]? = some cs → cs.base.isHidden = false → ∀ x, ok j x) :
    GLays ok ((items.mergeSort fun a b => decide (a.sourceOrder ≤ b.sourceOrder)).map (·.node) ++
      hidAbsIdxFrom childStyles 0) (gridTail c childStyles bb cb cc rc columns rows items) := by
  unfold gridTail
  simp only []
  refine GLays_bind ok _ _ _ _ (GLays_positionItems ok childStyles _ _ _ _ _ 0 Size.zero ?_) fun ⟨items', ics⟩ => ?_
  · intro it hit
    exact hitems it ((List.mergeSort_perm _ _).mem_iff.1 hit)
  simp only []
  refine GLays_bind_pure ok _ _ _ (GLays_hiddenAbsLoop ok c bb _ _ cc rc childStyles 0 _ _ ?_ ?_) fun _ => ?_
  · intro j cs hj hc o
    rw [Nat.zero_add]; exact hh j cs hj hc o
  · intro j cs hj hc x
    rw [Nat.zero_add]; exact hv j cs hj hc x
  · split <;> exact GLays_pure ok _

end lay

end EvalGrid
