/-
  C03 (finiteness at `ER`) — the grid program, part 8: 11.5 `resolve_intrinsic_track_sizes` (`IntrinsicFin`): the
  `IntrisicSizeMeasurer` queries (`minimum_contribution` included), the span-1 fast path, the general path of a batch, the
  `ItemBatcher` loop.
-/
import TaffyVerif.Lemmas.FiniteGrid7

set_option linter.unusedSectionVars false
set_option linter.unusedVariables false

namespace C03Fin
open GridModel GridTracks EvalGrid

structure SizerFin (s : Sizer ER) : Prop where
  other : TracksFin s.otherAxisTracks
  inner : SOFin s.innerNodeSize

abbrev VI (r : ER × GItem ER) : Prop := IsFin r.1 ∧ GItemFin r.2
abbrev IT (r : GItem ER × List (GridTrack ER)) : Prop := GItemFin r.1 ∧ TracksFin r.2
abbrev ITs (r : List (GItem ER) × List (GridTrack ER)) : Prop := GItemsFin r.1 ∧ TracksFin r.2

theorem fin_availableSpaceCached {it : GItem ER} {ax : Ax} {ts : List (GridTrack ER)} {p : Option ER} {e : Estimate}
    (hit : GItemFin it) (hts : TracksFin ts) (hp : OFin p) :
    SOFin (it.availableSpaceCached ax ts p e).1 ∧ GItemFin (it.availableSpaceCached ax ts p e).2 := by
  unfold GItem.availableSpaceCached
  split
  · rename_i a ha
    exact ⟨hit.availableSpaceCache a ha, hit⟩
  · have hav := fin_item_availableSpace (it := it) (ax := ax) (e := e) hts hp
    exact ⟨hav, { hit with availableSpaceCache := fun s e => (by cases e; exact hav) }⟩

theorem fin_spannedFixedTrackLimit {it : GItem ER} {ax : Ax} {ts : List (GridTrack ER)} {p : Option ER}
    (hts : TracksFin ts) (hp : OFin p) : OFin (it.spannedFixedTrackLimit ax ts p) := by
  unfold GItem.spannedFixedTrackLimit
  refine fin_allSome_sum fun o ho => ?_
  obtain ⟨t, ht, rfl⟩ := List.mem_map.mp ho
  exact fin_max_definiteValue (hts t (spannedTracks_sub it _ ts t ht)).maxFn hp

theorem fin_spannedTrackLimit {it : GItem ER} {ax : Ax} {ts : List (GridTrack ER)} {p : Option ER}
    (hts : TracksFin ts) (hp : OFin p) : OFin (it.spannedTrackLimit ax ts p) := by
  unfold GItem.spannedTrackLimit
  refine fin_allSome_sum fun o ho => ?_
  obtain ⟨t, ht, rfl⟩ := List.mem_map.mp ho
  exact fin_max_definiteLimit (hts t (spannedTracks_sub it _ ts t ht)).maxFn hp

/-- `GridItem::minimum_contribution` -/
theorem FinG_minimumContribution {it : GItem ER} {ax : Ax} {ts : List (GridTrack ER)} {kd inner : Size (Option ER)}
    (hit : GItemFin it) (hts : TracksFin ts) (hkd : SOFin kd) (hin : SOFin inner) :
    FinG VI (it.minimumContribution ax ts kd inner) := by
  have hpad := fin_rectLPOrZeroSize hit.padding hin
  have hbor := fin_rectLPOrZeroSize hit.border hin
  have hpbs := fin_sumAxes (fin_rect_add hpad hbor)
  have hadj : SFin (if it.boxSizing == .contentBox then
      ((Resolve.rectLPOrZeroSize it.padding inner).add (Resolve.rectLPOrZeroSize it.border inner)).sumAxes
      else Size.zero) := fin_site hpbs fin_size_zero
  unfold GItem.minimumContribution
  extract_lets padding border pbSize adj fromStyle
  have hfs : OFin fromStyle :=
    fin_or (fin_or (fin_osget (fin_resolveSize hit.size hin hit.aspectRatio hadj))
      (fin_osget (fin_resolveSize hit.minSize hin hit.aspectRatio hadj))) fin_autoMin
  refine FinG_bind (Q := VI) ?_ fun ⟨size, it'⟩ hr => ?_
  rotate_left
  · exact FinG_pure ⟨fin_fo_min hr.1 (fin_spannedFixedTrackLimit hts (fin_osget hin)), hr.2⟩
  clear_value fromStyle
  split
  · exact FinG_pure ⟨hfs, hit⟩
  · split
    · refine FinG_bind (FinG_minContentContributionCached hit hkd hin) fun ⟨mc, it2⟩ h2 => ?_
      dsimp only
      split
      · exact FinG_pure ⟨fin_fo_min (fin_fo_min h2.1 (fin_of_add (fin_LPA_maybeResolve (fin_lpasget h2.2.size)
            (show OFin (some (0 : ER)) from fin_zero)) (fin_sget hadj)))
          (fin_of_add (fin_LPA_maybeResolve (fin_lpasget h2.2.maxSize) (show OFin (some (0 : ER)) from fin_zero))
            (fin_sget hadj)), h2.2⟩
      · exact FinG_pure h2
    · exact FinG_pure ⟨fin_zero, hit⟩

theorem FinG_minimumContributionCached {it : GItem ER} {ax : Ax} {ts : List (GridTrack ER)} {kd inner : Size (Option ER)}
    (hit : GItemFin it) (hts : TracksFin ts) (hkd : SOFin kd) (hin : SOFin inner) :
    FinG VI (it.minimumContributionCached ax ts kd inner) := by
  unfold GItem.minimumContributionCached
  split
  · rename_i v hv
    exact FinG_pure ⟨OFin.of_some (fin_osget hit.minimumContributionCache) hv, hit⟩
  · exact FinG_bind (FinG_minimumContribution hit hts hkd hin) fun ⟨v, it'⟩ h =>
      FinG_pure ⟨h.1, { h.2 with minimumContributionCache := fin_osset h.2.minimumContributionCache h.1 }⟩

theorem fin_sizerAvail {s : Sizer ER} {it : GItem ER} (hs : SizerFin s) (hit : GItemFin it) :
    SOFin (s.availableSpace it).1 ∧ GItemFin (s.availableSpace it).2 := by
  unfold Sizer.availableSpace
  exact fin_availableSpaceCached hit hs.other (fin_osget hs.inner)

theorem FinG_sizerMinContent {s : Sizer ER} {it : GItem ER} (hs : SizerFin s) (hit : GItemFin it) :
    FinG VI (s.minContentContribution it) := by
  unfold Sizer.minContentContribution
  have h := fin_sizerAvail hs hit
  revert h
  generalize s.availableSpace it = p
  obtain ⟨av, it'⟩ := p
  intro h
  dsimp only
  exact FinG_bind (FinG_minContentContributionCached h.2 h.1 hs.inner) fun ⟨c, it2⟩ h2 =>
    FinG_pure ⟨fin_add h2.1 (fin_sget (fin_marginsAxisSums h.2 hs.inner.1)), h2.2⟩

theorem FinG_sizerMaxContent {s : Sizer ER} {it : GItem ER} (hs : SizerFin s) (hit : GItemFin it) :
    FinG VI (s.maxContentContribution it) := by
  unfold Sizer.maxContentContribution
  have h := fin_sizerAvail hs hit
  revert h
  generalize s.availableSpace it = p
  obtain ⟨av, it'⟩ := p
  intro h
  dsimp only
  exact FinG_bind (FinG_maxContentContributionCached h.2 h.1 hs.inner) fun ⟨c, it2⟩ h2 =>
    FinG_pure ⟨fin_add h2.1 (fin_sget (fin_marginsAxisSums h.2 hs.inner.1)), h2.2⟩

theorem FinG_sizerMinimum {s : Sizer ER} {it : GItem ER} {ts : List (GridTrack ER)} (hs : SizerFin s)
    (hit : GItemFin it) (hts : TracksFin ts) : FinG VI (s.minimumContribution it ts) := by
  unfold Sizer.minimumContribution
  have h := fin_sizerAvail hs hit
  revert h
  generalize s.availableSpace it = p
  obtain ⟨av, it'⟩ := p
  intro h
  dsimp only
  exact FinG_bind (FinG_minimumContributionCached h.2 hts h.1 hs.inner) fun ⟨c, it2⟩ h2 =>
    FinG_pure ⟨fin_add h2.1 (fin_sget (fin_marginsAxisSums h.2 hs.inner.1)), h2.2⟩

theorem FinG_minimumSpaceM {s : Sizer ER} {avail : AvailableSpace ER} {it : GItem ER} {ts : List (GridTrack ER)}
    {limit : GItem ER → Option ER} (hs : SizerFin s) (hit : GItemFin it) (hts : TracksFin ts)
    (hlim : ∀ it', OFin (limit it')) : FinG VI (minimumSpaceM s avail it ts limit) := by
  unfold minimumSpaceM
  split
  · exact FinG_sizerMinimum hs hit hts
  · split
    · refine FinG_bind (FinG_sizerMinimum hs hit hts) fun ⟨a, it1⟩ h1 => ?_
      refine FinG_bind (FinG_sizerMinContent hs h1.2) fun ⟨b, it2⟩ h2 => ?_
      exact FinG_pure ⟨fin_fmax (fin_fo_min h2.1 (hlim it2)) h1.1, h2.2⟩
    · exact FinG_sizerMinimum hs hit hts

theorem tracks_set {ts : List (GridTrack ER)} {i : Nat} {t : GridTrack ER} (hts : TracksFin ts) (ht : TrackFin t) :
    TracksFin (ts.set i t) := by
  intro x hx
  rcases List.mem_or_eq_of_mem_set hx with hx | rfl
  · exact hts x hx
  · exact ht

/-- the span-1 fast path, one item -/
theorem FinG_sizeSpanOneItemM {s : Sizer ER} {avail : AvailableSpace ER} {axisInner : Option ER} {it : GItem ER}
    {ts : List (GridTrack ER)} (hs : SizerFin s) (hax : OFin axisInner) (hit : GItemFin it) (hts : TracksFin ts) :
    FinG IT (sizeSpanOneItemM s avail axisInner it ts) := by
  unfold sizeSpanOneItemM
  extract_lets trackIndex
  split
  · exact FinG_throw
  · rename_i track htr
    have htf := hts track (List.mem_of_getElem? htr)
    refine FinG_bind (Q := VI) ?_ fun ⟨nb, it1⟩ h1 => ?_
    · split
      · exact FinG_bind (FinG_sizerMinContent hs hit) fun ⟨c, it'⟩ h => FinG_pure ⟨fin_fmax htf.baseSize h.1, h.2⟩
      · split
        · exact FinG_bind (FinG_sizerMinContent hs hit) fun ⟨c, it'⟩ h => FinG_pure ⟨fin_fmax htf.baseSize h.1, h.2⟩
        · exact FinG_pure ⟨htf.baseSize, hit⟩
      · exact FinG_bind (FinG_sizerMaxContent hs hit) fun ⟨c, it'⟩ h => FinG_pure ⟨fin_fmax htf.baseSize h.1, h.2⟩
      · exact FinG_bind (FinG_minimumSpaceM hs hit hts fun _ => fin_max_definiteLimit htf.maxFn hax) fun ⟨c, it'⟩ h =>
          FinG_pure ⟨fin_fmax htf.baseSize h.1, h.2⟩
      · exact FinG_pure ⟨htf.baseSize, hit⟩
    · have htf1 : TrackFin { track with baseSize := nb } := { htf with baseSize := h1.1 }
      dsimp only
      refine FinG_bind (Q := fun (r : GridTrack ER × GItem ER) => TrackFin r.1 ∧ GItemFin r.2) ?_
        fun ⟨tr2, it2⟩ h2 => ?_
      · split
        · refine FinG_bind (Q := fun (r : GridTrack ER × GItem ER) => TrackFin r.1 ∧ GItemFin r.2) ?_
            fun ⟨tr', it'⟩ h' => ?_
          · split
            · exact FinG_bind (FinG_sizerMinContent hs h1.2) fun ⟨mc, it3⟩ h =>
                FinG_pure ⟨{ htf1 with growthLimitPlannedIncrease := fin_fmax htf1.growthLimitPlannedIncrease h.1 }, h.2⟩
            · exact FinG_pure ⟨htf1, h1.2⟩
          · refine FinG_bind (FinG_sizerMaxContent hs h'.2) fun ⟨xc, it3⟩ h3 => ?_
            have hg := fin_fmax h'.1.growthLimitPlannedIncrease (fin_ext_minF (fin_fitContentLimit h'.1 hax) h3.1)
            exact FinG_pure ⟨{ h'.1 with growthLimitPlannedIncrease := hg }, h3.2⟩
        · split
          · exact FinG_bind (FinG_sizerMaxContent hs h1.2) fun ⟨xc, it3⟩ h =>
              FinG_pure ⟨{ htf1 with growthLimitPlannedIncrease := fin_fmax htf1.growthLimitPlannedIncrease h.1 }, h.2⟩
          · split
            · exact FinG_bind (FinG_sizerMinContent hs h1.2) fun ⟨mc, it3⟩ h =>
                FinG_pure ⟨{ htf1 with growthLimitPlannedIncrease := fin_fmax htf1.growthLimitPlannedIncrease h.1 }, h.2⟩
            · exact FinG_pure ⟨htf1, h1.2⟩
      · exact FinG_pure ⟨h2.2, tracks_set hts h2.1⟩

theorem FinG_forItemsM {f : GItem ER → List (GridTrack ER) → GM ER (GItem ER × List (GridTrack ER))}
    (hf : ∀ it ts, GItemFin it → TracksFin ts → FinG IT (f it ts)) :
    ∀ (items : List (GItem ER)) (ts : List (GridTrack ER)), GItemsFin items → TracksFin ts →
      FinG ITs (forItemsM f items ts)
  | [], ts, _, hts => by
    unfold forItemsM
    exact FinG_pure ⟨fun _ h => absurd h List.not_mem_nil, hts⟩
  | it :: rest, ts, h, hts => by
    unfold forItemsM
    refine FinG_bind (hf it ts (h it (List.mem_cons_self ..)) hts) fun ⟨it', ts'⟩ h1 => ?_
    refine FinG_bind (FinG_forItemsM hf rest ts' (fun x hx => h x (List.mem_cons_of_mem _ hx)) h1.2)
      fun ⟨rest', ts''⟩ h2 => ?_
    exact FinG_pure ⟨gitems_cons h1.1 h2.1, h2.2⟩

/-- the general path of a batch -/
theorem FinG_sizeBatchGeneralM {s : Sizer ER} {avail : AvailableSpace ER} {axisInner : Option ER} {isFlex : Bool}
    {ffs : ER} {batch : List (GItem ER)} {ts : List (GridTrack ER)} (hs : SizerFin s) (hax : OFin axisInner)
    (hb : GItemsFin batch) (hts : TracksFin ts) : FinG ITs (sizeBatchGeneralM s avail axisInner isFlex ffs batch ts) := by
  unfold sizeBatchGeneralM
  extract_lets axis useFF
  -- 1.
  refine FinG_bind (FinG_forItemsM (fun it ts hit hts => ?_) batch ts hb hts) fun ⟨b1, t1⟩ h1 => ?_
  · split
    · exact FinG_pure ⟨hit, hts⟩
    · exact FinG_bind (FinG_minimumSpaceM hs hit hts fun _ => fin_spannedTrackLimit hts hax) fun ⟨sp, it'⟩ h =>
        FinG_pure ⟨h.2, fin_distBase h.1 hts (fin_minLimit hax)⟩
  -- 2.
  refine FinG_bind (FinG_forItemsM (fun it ts hit hts => ?_) _ _ h1.1 (fin_flushPlannedBaseSizeIncreases h1.2))
    fun ⟨b2, t2⟩ h2 => ?_
  · exact FinG_bind (FinG_sizerMinContent hs hit) fun ⟨sp, it'⟩ h =>
      FinG_pure ⟨h.2, fin_distBase h.1 hts (fin_minLimit hax)⟩
  -- 3.
  have ht2 := fin_flushPlannedBaseSizeIncreases h2.2
  refine FinG_bind (Q := ITs) ?_ fun ⟨b3, t3⟩ h3 => ?_
  · split
    · refine FinG_bind (FinG_forItemsM (fun it ts hit hts => ?_) _ _ h2.1 ht2) fun ⟨b, t⟩ h =>
        FinG_pure ⟨h.1, fin_flushPlannedBaseSizeIncreases h.2⟩
      refine FinG_bind (FinG_sizerMaxContent hs hit) fun ⟨mc, it'⟩ h => ?_
      dsimp only
      split
      · exact FinG_pure ⟨h.2, fin_distBase (fin_fo_min h.1 (fin_spannedTrackLimit hts hax)) hts fun _ _ => trivial⟩
      · exact FinG_pure ⟨h.2, fin_distBase (fin_fo_min h.1 (fin_spannedTrackLimit hts hax)) hts
          fun t ht => fin_fitContentLimitedGrowthLimit ht hax⟩
    · exact FinG_pure ⟨h2.1, ht2⟩
  -- max-content minimums, in all cases
  refine FinG_bind (FinG_forItemsM (fun it ts hit hts => ?_) _ _ h3.1 h3.2) fun ⟨b4, t4⟩ h4 => ?_
  · exact FinG_bind (FinG_sizerMaxContent hs hit) fun ⟨sp, it'⟩ h =>
      FinG_pure ⟨h.2, fin_distBase h.1 hts fun t ht => ht.growthLimit⟩
  -- 4.
  have ht4 := fin_raiseGrowthLimits (fin_flushPlannedBaseSizeIncreases h4.2)
  dsimp only
  split
  · exact FinG_pure ⟨h4.1, ht4⟩
  -- 5.
  refine FinG_bind (FinG_forItemsM (fun it ts hit hts => ?_) _ _ h4.1 ht4) fun ⟨b5, t5⟩ h5 => ?_
  · exact FinG_bind (FinG_sizerMinContent hs hit) fun ⟨sp, it'⟩ h => FinG_pure ⟨h.2, fin_distGrowth h.1 hts hax⟩
  -- 6.
  refine FinG_bind (FinG_forItemsM (fun it ts hit hts => ?_) _ _ h5.1 (fin_flushPlannedGrowthLimitIncreases h5.2))
    fun ⟨b6, t6⟩ h6 => ?_
  · exact FinG_bind (FinG_sizerMaxContent hs hit) fun ⟨sp, it'⟩ h => FinG_pure ⟨h.2, fin_distGrowth h.1 hts hax⟩
  exact FinG_pure ⟨h6.1, fin_flushPlannedGrowthLimitIncreases h6.2⟩

/-- the `ItemBatcher` loop -/
theorem FinG_batchLoopM {s : Sizer ER} {avail : AvailableSpace ER} {axisInner : Option ER} {ffs : ER} (hs : SizerFin s)
    (hax : OFin axisInner) : ∀ (fuel : Nat) (items : List (GItem ER)) (offset : Nat) (ts : List (GridTrack ER)),
      GItemsFin items → TracksFin ts → FinG ITs (batchLoopM s avail axisInner ffs fuel items offset ts)
  | 0, items, _, ts, hi, hts => by
    unfold batchLoopM
    exact FinG_pure ⟨hi, hts⟩
  | fuel + 1, items, offset, ts, hi, hts => by
    unfold batchLoopM
    split
    · exact FinG_pure ⟨hi, hts⟩
    · rename_i item hitem
      extract_lets axis span isFlex next batch
      have hbatch : GItemsFin batch := fun x hx => hi x (List.mem_of_mem_drop (List.mem_of_mem_take hx))
      refine FinG_bind (Q := ITs) ?_ fun ⟨b, t⟩ h1 => ?_
      · split
        · exact FinG_bind (FinG_forItemsM (fun it ts hit hts => FinG_sizeSpanOneItemM hs hax hit hts) batch ts hbatch hts)
            fun ⟨b, t⟩ h => FinG_pure ⟨h.1, fin_flushSpanOne h.2⟩
        · exact FinG_sizeBatchGeneralM hs hax hbatch hts
      · have hitems' : GItemsFin (items.take offset ++ b ++ items.drop next) :=
          gitems_append (gitems_append (fun x hx => hi x (List.mem_of_mem_take hx)) h1.1)
            (fun x hx => hi x (List.mem_of_mem_drop hx))
        dsimp only
        split
        · exact FinG_pure ⟨hitems', h1.2⟩
        · exact FinG_batchLoopM hs hax fuel _ _ _ hitems' h1.2

/-- **resolve_intrinsic_track_sizes** -/
theorem intrinsicFin : IntrinsicFin := by
  intro s ts items avail hother hinner hts hitems hav
  have hs : SizerFin s := ⟨hother, hinner⟩
  unfold resolveIntrinsicTrackSizesM
  extract_lets axis sorted axisInner ffs
  have hsorted : GItemsFin sorted := fun it hit => hitems it ((List.mergeSort_perm _ _).mem_iff.1 hit)
  refine FinG_bind (FinG_batchLoopM hs (fin_osget hinner) _ sorted 0 ts hsorted hts) fun ⟨items', ts'⟩ h => ?_
  refine FinG_pure ⟨h.1, tracks_map (fun t ht => ?_) h.2⟩
  split
  · exact { ht with growthLimit := ht.baseSize }
  · exact ht

end C03Fin
