/-
  C11 lifted to the grid program, part 1: what a (non-panicking) PerformLayout run of `GridModel.computeGridLayout` sets
  for an absolutely positioned child whose `grid-row`/`grid-column` are `auto / auto` (the grid area of such a child is
  the container's padding box, the case C11 speaks about; a child with definite grid lines is positioned against those
  lines instead).

    * `SetsQ ok`          every `set_unrounded_layout(j, l)` of the program directly follows a query `(j, inp)` to the same
                          child, and `ok j inp answer l` holds (for every answer)
    * `alignAndPositionItem_run`  alignment.rs `align_and_position_item` (as used by the program) sets `AbsPos.absGrid`
    * `hiddenAbsLoop_abs_auto`    the grid-area computation of the hidden/absolute loop for an `auto / auto` child
    * `KAbs`, `closed_KAbs`       the lifted property is closed under prefixing a measuring program (`EvalGrid.Closed`),
                                  so `EvalGrid.K_gridMain` carries it from `gridTail` to the whole program
    * `gridRun_abs`               the result
-/
import TaffyVerif.Lemmas.LiftRun
import TaffyVerif.Lemmas.EvalGridHidden

set_option linter.unusedSectionVars false
set_option linter.unusedVariables false

namespace Lift
open GridModel GridTracks EvalGrid
open EvalBlock (Post Post_bind)

/-! ### `SetsQ` -/

/-- every `setLayout j l` directly follows a `call j inp` (answer `o`) with `ok j inp o l`; the state is the last query
and its answer, if the previous effect was a query -/
def SetsQ {β : Type} (ok : Nat → LayoutInput Rat → LayoutOutput Rat → Layout Rat → Prop) :
    Option (Nat × LayoutInput Rat × LayoutOutput Rat) → ProgM Rat β → Prop
  | _, .pure _ => True
  | _, .call j inp k => ∀ o, SetsQ ok (some (j, inp, o)) (k o)
  | some (j, inp, o), .setLayout j' l k => j' = j ∧ ok j inp o l ∧ SetsQ ok none (k ())
  | none, .setLayout _ _ _ => False

variable {β γ : Type} {ok : Nat → LayoutInput Rat → LayoutOutput Rat → Layout Rat → Prop}

theorem SetsQ_any (p : ProgM Rat β) (h : SetsQ ok none p) : ∀ s, SetsQ ok s p := by
  intro s
  cases p with
  | pure b => trivial
  | call j inp k => exact h
  | setLayout j l k => exact h.elim

theorem SetsQ_bind (p : ProgM Rat β) (f : β → ProgM Rat γ) (hf : ∀ b, SetsQ ok none (f b)) :
    ∀ s, SetsQ ok s p → SetsQ ok s (p >>= f) := by
  rw [EvalBlock.bind_eq]
  induction p with
  | pure b => intro s _; exact SetsQ_any _ (hf b) s
  | call j inp k ih => intro s h o; exact ih o _ (h o)
  | setLayout j l k ih =>
    intro s h
    cases s with
    | none => exact h.elim
    | some t =>
      obtain ⟨j0, inp0, o0⟩ := t
      exact ⟨h.1, h.2.1, ih () none h.2.2⟩

/-- a program without `setLayout` -/
theorem SetsQ_measB {Q : Nat → β → Prop} (p : ProgM Rat β) : ∀ n s, MeasB Q n p → SetsQ ok s p := by
  induction p with
  | pure b => intro _ _ _; trivial
  | call j inp k ih => intro n s ⟨m, _, hk⟩ o; exact ih o m _ (hk o)
  | setLayout j l k ih => intro _ _ h; exact h.elim

/-- **runs**: every layout set is `ok` for the answer the child really gave to the query that preceded it -/
theorem SetsQ_run (orc : Orc) (p : ProgM Rat β) : ∀ s, SetsQ ok s p →
    ∀ x ∈ lays orc p, ∃ inp, ok x.1 inp (orc x.1 inp) x.2 ∨
      (∃ o, s = some (x.1, inp, o) ∧ ok x.1 inp o x.2) := by
  induction p with
  | pure b => intro s _ x hx; simp [lays_pure'] at hx
  | call j inp k ih =>
    intro s h x hx
    rw [lays_call] at hx
    obtain ⟨inp', h'⟩ := ih (orc j inp) _ (h (orc j inp)) x hx
    rcases h' with h' | ⟨o, ho, h'⟩
    · exact ⟨inp', Or.inl h'⟩
    · simp only [Option.some.injEq, Prod.mk.injEq] at ho
      obtain ⟨e1, e2, e3⟩ := ho
      subst e1 e2 e3
      exact ⟨inp, Or.inl h'⟩
  | setLayout j l k ih =>
    intro s h x hx
    cases s with
    | none => exact h.elim
    | some t =>
      obtain ⟨j0, inp0, o0⟩ := t
      obtain ⟨e, hok, hk⟩ := h
      subst e
      rw [lays_set, List.mem_cons] at hx
      rcases hx with hx | hx
      · subst hx
        exact ⟨inp0, Or.inr ⟨o0, rfl, hok⟩⟩
      · obtain ⟨inp', h'⟩ := ih () none hk x hx
        rcases h' with h' | ⟨o, ho, _⟩
        · exact ⟨inp', Or.inl h'⟩
        · cases ho

theorem SetsQ_run' (orc : Orc) (p : ProgM Rat β) (h : SetsQ ok none p) :
    ∀ x ∈ lays orc p, ∃ inp, ok x.1 inp (orc x.1 inp) x.2 := by
  intro x hx
  obtain ⟨inp, h'⟩ := SetsQ_run orc p none h x hx
  rcases h' with h' | ⟨o, ho, _⟩
  · exact ⟨inp, h'⟩
  · cases ho

/-! ### `GM` programs -/

abbrev GSetsQ (ok : Nat → LayoutInput Rat → LayoutOutput Rat → Layout Rat → Prop) (p : GM Rat β) : Prop :=
  SetsQ ok none (run p)

theorem GSetsQ_bind (p : GM Rat β) (f : β → GM Rat γ) (hp : GSetsQ ok p) (hf : ∀ a, GSetsQ ok (f a)) :
    GSetsQ ok (p >>= f) := by
  unfold GSetsQ
  rw [run_bind]
  refine SetsQ_bind _ _ (fun r => ?_) none hp
  cases r with
  | ok a => exact hf a
  | error e => trivial

/-- a step without effects (pure or panic) -/
theorem GSetsQ_noeff (p : GM Rat β) (h : ∃ r, run p = .pure r) : GSetsQ ok p := by
  obtain ⟨r, hr⟩ := h
  unfold GSetsQ
  rw [hr]
  trivial

theorem GSetsQ_pure (b : β) : GSetsQ ok (pure b : GM Rat β) := trivial
theorem GSetsQ_throw (e : String) : GSetsQ ok (throw e : GM Rat β) := trivial

theorem GSetsQ_trackOffset (tracks : List (GridTrack Rat)) (i : Nat) : GSetsQ ok (trackOffset tracks i) :=
  GSetsQ_noeff _ (GLays_trackOffset (fun _ _ => True) tracks i)

theorem GSetsQ_optOffset (tracks : List (GridTrack Rat)) (i : Option Int) (d : Rat) : GSetsQ ok (optOffset tracks i d) :=
  GSetsQ_noeff _ (GLays_optOffset (fun _ _ => True) tracks i d)

theorem GSetsQ_ofOutcome (x : GridPlacement.Outcome β) : GSetsQ ok (GM.ofOutcome x : GM Rat β) :=
  GSetsQ_noeff _ (GLays_ofOutcome (fun _ _ => True) x)

/-- `compute_child_layout(j)` then `set_unrounded_layout(j, …)` then the rest -/
theorem run_call_set (j : Nat) (inp : LayoutInput Rat) (lay : LayoutOutput Rat → Layout Rat)
    (K : LayoutOutput Rat → GM Rat β) :
    run (GM.call j inp >>= fun out => GM.setLayout j (lay out) >>= fun _ => K out) =
      .call j inp (fun o => .setLayout j (lay o) fun _ => run (K o)) := by
  rw [run_bind, run_call]
  show ProgM.call j inp _ = _
  congr 1

theorem GSetsQ_call_set (j : Nat) (inp : LayoutInput Rat) (lay : LayoutOutput Rat → Layout Rat)
    (K : LayoutOutput Rat → GM Rat β) (hok : ∀ o, ok j inp o (lay o)) (hK : ∀ o, GSetsQ ok (K o)) :
    GSetsQ ok (GM.call j inp >>= fun out => GM.setLayout j (lay out) >>= fun _ => K out) := by
  unfold GSetsQ
  rw [run_call_set]
  intro o
  exact ⟨rfl, hok o, hK o⟩

/-! ### `align_and_position_item` -/

/-- the query `align_and_position_item` sends -/
def gAbsInput (cs : Style Rat) (a : AbsPos.GridArgs Rat) : LayoutInput Rat :=
  AbsPos.gridChildInput (AbsPos.gridResolve a cs) (AbsPos.gridKnown (AbsPos.gridResolve a cs) cs.position cs.aspectRatio)

/-- **`align_and_position_item` sets `absGrid`** (for in-flow and absolutely positioned children alike) -/
theorem alignAndPositionItem_run (node : Nat) (cs : Style Rat) (order : Nat) (area : Rect Rat)
    (ji ai : Option AlignItems) (shim : Rat) :
    ∃ K : LayoutOutput Rat → Size Rat × Rat × Rat,
      run (alignAndPositionItem node cs order area ji ai shim) =
        .call node (gAbsInput cs ⟨area, ji, ai, shim, order⟩) (fun o =>
          .setLayout node (AbsPos.absGrid ⟨area, ji, ai, shim, order⟩ cs (fun _ => o)) fun _ => .pure (.ok (K o))) :=
  ⟨_, rfl⟩

theorem GSetsQ_alignAndPositionItem (node : Nat) (cs : Style Rat) (order : Nat) (area : Rect Rat)
    (ji ai : Option AlignItems) (shim : Rat)
    (h : ∀ o, ok node (gAbsInput cs ⟨area, ji, ai, shim, order⟩) o (AbsPos.absGrid ⟨area, ji, ai, shim, order⟩ cs (fun _ => o))) :
    GSetsQ ok (alignAndPositionItem node cs order area ji ai shim) := by
  obtain ⟨K, hK⟩ := alignAndPositionItem_run node cs order area ji ai shim
  unfold GSetsQ
  rw [hK]
  intro o
  exact ⟨rfl, h o, trivial⟩

theorem GSetsQ_positionItems (childStyles : List (GridChildStyle Rat)) (rows columns : List (GridTrack Rat))
    (ji ai : Option AlignItems) :
    ∀ (items : List (GItem Rat)) (index : Nat) (acc : Size Rat), (∀ it ∈ items, ∀ inp o l, ok it.node inp o l) →
      GSetsQ ok (positionItems childStyles rows columns ji ai items index acc)
  | [], _, _, _ => GSetsQ_pure _
  | it :: rest, index, acc, hok => by
    unfold positionItems
    refine GSetsQ_bind _ _ (GSetsQ_trackOffset _ _) fun top => ?_
    refine GSetsQ_bind _ _ (GSetsQ_trackOffset _ _) fun bottom => ?_
    refine GSetsQ_bind _ _ (GSetsQ_trackOffset _ _) fun left => ?_
    refine GSetsQ_bind _ _ (GSetsQ_trackOffset _ _) fun right => ?_
    simp only []
    split
    · exact GSetsQ_throw _
    · rename_i cs _
      refine GSetsQ_bind _ _ (GSetsQ_alignAndPositionItem _ _ _ _ _ _ _ fun o => hok it List.mem_cons_self _ _ _)
        fun ⟨contribution, y, height⟩ => ?_
      simp only []
      refine GSetsQ_bind _ _ (GSetsQ_positionItems childStyles rows columns ji ai rest _ _
        fun it' h' => hok it' (List.mem_cons_of_mem _ h')) fun ⟨rest', acc'⟩ => GSetsQ_pure _

/-! ### the hidden/absolute loop -/

/-- `grid-row: auto / auto; grid-column: auto / auto` -/
def AutoPlaced (cs : GridChildStyle Rat) : Prop :=
  cs.gridRow = ⟨.auto, .auto⟩ ∧ cs.gridColumn = ⟨.auto, .auto⟩

/-- the padding box (scrollbar gutter excluded) of a container with border box `bb` -/
def padBox (c : Ctx Rat) (bb : Size Rat) : Rect Rat :=
  { top := c.border.top, bottom := bb.height - c.border.bottom - c.scrollbarGutter.y,
    left := c.border.left, right := bb.width - c.border.right - c.scrollbarGutter.x }

theorem absTrackIndexes_auto (counts : GridPlacement.TrackCounts) :
    absTrackIndexes ⟨.auto, .auto⟩ counts = .ok ⟨none, none⟩ := rfl

/-- the loop body for a box-generating, absolutely positioned, `auto / auto` child: the grid area is the padding box -/
theorem hiddenAbsLoop_abs_auto (c : Ctx Rat) (bb : Size Rat) (rows columns : List (GridTrack Rat))
    (cc rc : GridPlacement.TrackCounts) (cs : GridChildStyle Rat) (rest : List (GridChildStyle Rat))
    (index order : Nat) (acc : Size Rat) (hv : cs.base.isHidden = false) (hp : cs.base.position = .absolute)
    (ha : AutoPlaced cs) :
    hiddenAbsLoop c bb rows columns cc rc (cs :: rest) index order acc =
      (alignAndPositionItem index cs.base order (padBox c bb) c.justifyItems c.alignItems 0 >>= fun r =>
        hiddenAbsLoop c bb rows columns cc rc rest (index + 1) (order + 1) (acc.f32Max r.1)) := by
  obtain ⟨h1, h2⟩ := ha
  conv_lhs => unfold hiddenAbsLoop
  simp only [hv, hp, h1, h2, absTrackIndexes_auto, Bool.false_eq_true, if_false]
  rfl

theorem GSetsQ_hiddenAbsLoop (c : Ctx Rat) (bb : Size Rat) (rows columns : List (GridTrack Rat))
    (cc rc : GridPlacement.TrackCounts) :
    ∀ (l : List (GridChildStyle Rat)) (index order : Nat) (acc : Size Rat),
      -- `display:none` children and absolutely positioned children with definite grid lines: anything goes
      (∀ j cs, l[j]? = some cs → (cs.base.isHidden = true ∨ ¬ AutoPlaced cs) → ∀ inp o x, ok (index + j) inp o x) →
      -- `auto / auto` absolutely positioned boxes: `absGrid` on the padding box
      (∀ j cs, l[j]? = some cs → cs.base.isHidden = false → cs.base.position = .absolute → AutoPlaced cs →
        ∀ ord o, ok (index + j) (gAbsInput cs.base ⟨padBox c bb, c.justifyItems, c.alignItems, 0, ord⟩) o
          (AbsPos.absGrid ⟨padBox c bb, c.justifyItems, c.alignItems, 0, ord⟩ cs.base (fun _ => o))) →
      GSetsQ ok (hiddenAbsLoop c bb rows columns cc rc l index order acc)
  | [], _, _, _, _, _ => GSetsQ_pure _
  | cs :: rest, index, order, acc, hh, hv => by
    have hh' : ∀ j cs', rest[j]? = some cs' → (cs'.base.isHidden = true ∨ ¬ AutoPlaced cs') →
        ∀ inp o x, ok (index + 1 + j) inp o x := by
      intro j cs' hj hc inp o x
      have := hh (j + 1) cs' (by simpa using hj) hc inp o x
      rwa [show index + (j + 1) = index + 1 + j by omega] at this
    have hv' : ∀ j cs', rest[j]? = some cs' → cs'.base.isHidden = false → cs'.base.position = .absolute →
        AutoPlaced cs' → ∀ ord o, ok (index + 1 + j) (gAbsInput cs'.base ⟨padBox c bb, c.justifyItems, c.alignItems, 0, ord⟩) o
          (AbsPos.absGrid ⟨padBox c bb, c.justifyItems, c.alignItems, 0, ord⟩ cs'.base (fun _ => o)) := by
      intro j cs' hj h1 h2 h3 ord o
      have := hv (j + 1) cs' (by simpa using hj) h1 h2 h3 ord o
      rwa [show index + (j + 1) = index + 1 + j by omega] at this
    have ih := fun order' acc' => GSetsQ_hiddenAbsLoop c bb rows columns cc rc rest (index + 1) order' acc' hh' hv'
    by_cases h1 : cs.base.isHidden = true
    · unfold hiddenAbsLoop
      simp only [h1, if_true]
      exact GSetsQ_call_set index _ (fun _ => Layout.withOrder order)
        (fun _ => hiddenAbsLoop c bb rows columns cc rc rest (index + 1) (order + 1) acc)
        (fun o => by
          have := fun inp => hh 0 cs rfl (Or.inl h1) inp o (Layout.withOrder order)
          simpa using this _)
        (fun _ => ih _ _)
    · have h1' : cs.base.isHidden = false := by simpa using h1
      by_cases h2 : cs.base.position = .absolute
      · by_cases h3 : AutoPlaced cs
        · rw [hiddenAbsLoop_abs_auto c bb rows columns cc rc cs rest index order acc h1' h2 h3]
          refine GSetsQ_bind _ _ (GSetsQ_alignAndPositionItem _ _ _ _ _ _ _ fun o => ?_) fun r => ih _ _
          have := hv 0 cs rfl h1' h2 h3 order o
          simpa using this
        · unfold hiddenAbsLoop
          simp only [h1', h2, Bool.false_eq_true, if_false]
          refine GSetsQ_bind _ _ (GSetsQ_ofOutcome _) fun colIdx => ?_
          refine GSetsQ_bind _ _ (GSetsQ_ofOutcome _) fun rowIdx => ?_
          refine GSetsQ_bind _ _ (GSetsQ_optOffset _ _ _) fun top => ?_
          refine GSetsQ_bind _ _ (GSetsQ_optOffset _ _ _) fun bottom => ?_
          refine GSetsQ_bind _ _ (GSetsQ_optOffset _ _ _) fun left => ?_
          refine GSetsQ_bind _ _ (GSetsQ_optOffset _ _ _) fun right => ?_
          refine GSetsQ_bind _ _ (GSetsQ_alignAndPositionItem _ _ _ _ _ _ _ fun o => ?_) fun ⟨contribution, _, _⟩ => ih _ _
          have := hh 0 cs rfl (Or.inr h3) (gAbsInput cs.base ⟨⟨left, right, top, bottom⟩, c.justifyItems, c.alignItems, 0, order⟩) o
            (AbsPos.absGrid ⟨⟨left, right, top, bottom⟩, c.justifyItems, c.alignItems, 0, order⟩ cs.base (fun _ => o))
          simpa using this
      · unfold hiddenAbsLoop
        have h2' : (cs.base.position == Position.absolute) = false := by
          rw [EvalBlock.pos_beq]; simpa using h2
        simp only [h1', h2', Bool.false_eq_true, if_false]
        exact ih _ _

/-! ### `gridTail` -/

/-- what the lifted theorem says of a layout `L` set for child `j` after the query `inp` answered `o`, in a container whose
border box is `bb`: for a box-generating, absolutely positioned, `auto / auto` child it is `absGrid` at `gridCallSite` -/
def OkG (style : GridStyle Rat) (childStyles : List (GridChildStyle Rat)) (ps : Size (Option Rat)) (bb : Size Rat)
    (j : Nat) (inp : LayoutInput Rat) (o : LayoutOutput Rat) (L : Layout Rat) : Prop :=
  ∀ cs, childStyles[j]? = some cs → cs.base.isHidden = false → cs.base.position = .absolute → AutoPlaced cs →
    ∃ ord, L = AbsPos.absGrid (AbsPos.gridCallSite style.base ps bb ord) cs.base (fun _ => o)

theorem GSetsQ_gridTail (style : GridStyle Rat) (childStyles : List (GridChildStyle Rat)) (inputs : LayoutInput Rat)
    (bb cb : Size Rat) (cc rc : GridPlacement.TrackCounts) (columns rows : List (GridTrack Rat)) (items : List (GItem Rat))
    (hitems : ∀ it ∈ items, ∀ cs, childStyles[it.node]? = some cs → isFlow cs = true) :
    GSetsQ (OkG style childStyles inputs.parentSize bb)
      (gridTail (mkCtx style.base inputs) childStyles bb cb cc rc columns rows items) := by
  unfold gridTail
  simp only []
  refine GSetsQ_bind _ _ (GSetsQ_positionItems childStyles _ _ _ _ _ 0 Size.zero ?_) fun ⟨items', ics⟩ => ?_
  · intro it hit inp o l cs hcs _ hp _
    have hf := hitems it ((List.mergeSort_perm _ _).mem_iff.1 hit) cs hcs
    simp only [isFlow, Bool.and_eq_true, EvalBlock.pos_bne, decide_eq_true_eq] at hf
    exact absurd hp hf.2
  simp only []
  refine GSetsQ_bind _ _ (GSetsQ_hiddenAbsLoop _ bb _ _ cc rc childStyles 0 _ _ ?_ ?_) fun _ => ?_
  · intro j cs hj hc inp o x cs' hj' hv hp ha
    rw [Nat.zero_add, hj] at hj'; cases hj'
    rcases hc with hc | hc
    · rw [hv] at hc; cases hc
    · exact absurd ha hc
  · intro j cs hj hv hp ha ord o cs' hj' _ _ _
    rw [Nat.zero_add, hj] at hj'; cases hj'
    exact ⟨ord, rfl⟩
  · split <;> exact GSetsQ_pure _

theorem GPost_true (p : GM Rat β) : GPost (fun _ => True) p := by
  unfold GPost
  induction (run p) with
  | pure b => intro _ _; trivial
  | call i inp k ih => intro o; exact ih o
  | setLayout i l k ih => exact ih ()

/-- the output of `gridTail` has the size `bb` -/
theorem GPost_gridTail_size (c : Ctx Rat) (childStyles : List (GridChildStyle Rat))
    (bb cb : Size Rat) (cc rc : GridPlacement.TrackCounts) (columns rows : List (GridTrack Rat)) (items : List (GItem Rat)) :
    GPost (fun out => out.size = bb) (gridTail c childStyles bb cb cc rc columns rows items) := by
  unfold gridTail
  simp only []
  refine GPost_bind _ _ _ _ (GPost_true _) fun ⟨items', ics⟩ _ => ?_
  simp only []
  refine GPost_bind _ _ _ _ (GPost_true _) fun _ _ => ?_
  split <;> exact GPost_pure _ _ rfl

/-! ### the property carried through the measuring stages -/

theorem lays_measB {Q : Nat → β → Prop} (orc : Orc) (p : ProgM Rat β) :
    ∀ n, MeasB Q n p → lays orc p = [] ∧ ∃ m, Q m (res orc p) := by
  induction p with
  | pure b => intro n h; exact ⟨rfl, n, h⟩
  | call i inp k ih => intro n ⟨m, _, hk⟩; exact ih _ m (hk _)
  | setLayout i l k ih => intro _ h; exact h.elim

/-- on every non-panicking run, every layout set for a box-generating, absolutely positioned, `auto / auto` child is
`absGrid` at `gridCallSite` for the size of the run's output -/
def KAbs (style : GridStyle Rat) (childStyles : List (GridChildStyle Rat)) (ps : Size (Option Rat)) (_ : Nat)
    (q : GM Rat (LayoutOutput Rat)) : Prop :=
  ∀ (orc : Orc) (out : LayoutOutput Rat), res orc (run q) = .ok out →
    ∀ x ∈ lays orc (run q), ∃ inp, OkG style childStyles ps out.size x.1 inp (orc x.1 inp) x.2

theorem closed_KAbs (style : GridStyle Rat) (childStyles : List (GridChildStyle Rat)) (ps : Size (Option Rat)) :
    Closed (KAbs style childStyles ps) where
  bind Q b p f hp hf := by
    intro orc out hres x hx
    rw [run_bind, res_bind] at hres
    rw [run_bind, lays_bind] at hx
    obtain ⟨h0, m, hm⟩ := lays_measB orc (run p) b hp
    rw [h0, List.nil_append] at hx
    cases hr : res orc (run p) with
    | error e =>
      rw [hr] at hres
      cases hres
    | ok a =>
      rw [hr] at hres hx hm
      exact hf m a (hm a rfl) orc out hres x hx
  mono _ _ _ _ hq := hq

theorem KAbs_gridTail (style : GridStyle Rat) (childStyles : List (GridChildStyle Rat)) (inputs : LayoutInput Rat)
    (bb cb : Size Rat) (cc rc : GridPlacement.TrackCounts) (columns rows : List (GridTrack Rat)) (items : List (GItem Rat))
    (hitems : ∀ it ∈ items, ∀ cs, childStyles[it.node]? = some cs → isFlow cs = true) (m : Nat) :
    KAbs style childStyles inputs.parentSize m
      (gridTail (mkCtx style.base inputs) childStyles bb cb cc rc columns rows items) := by
  intro orc out hres x hx
  have hsz : out.size = bb :=
    res_post orc _ (GPost_gridTail_size (mkCtx style.base inputs) childStyles bb cb cc rc columns rows items) out hres
  rw [hsz]
  exact SetsQ_run' orc _ (GSetsQ_gridTail style childStyles inputs bb cb cc rc columns rows items hitems) x hx

/-- **the grid program**: `KAbs` of `compute_grid_layout` (PerformLayout) -/
theorem KAbs_computeGridLayoutE (style : GridStyle Rat) (childStyles : List (GridChildStyle Rat))
    (inputs : LayoutInput Rat) (h : inputs.runMode = .performLayout) :
    KAbs style childStyles inputs.parentSize 0 (computeGridLayoutE style childStyles inputs) := by
  rcases computeGridLayoutE_cases style inputs with ⟨hc, _⟩ | hE
  · rw [h] at hc; cases hc
  · rw [hE]
    rcases gridSetupK_cases style childStyles inputs with ⟨e, he⟩ | ⟨su, hperm, hk⟩
    · rw [he]
      intro orc out hres
      cases hres
    · rw [hk]
      have hK := K_gridMain (KAbs style childStyles inputs.parentSize) (closed_KAbs style childStyles inputs.parentSize)
        style childStyles inputs su 0
        (fun hc => by rw [h] at hc; cases hc)
        (fun _ bb cb columns' rows' items' hf => KAbs_gridTail style childStyles inputs bb cb _ _ columns' rows' items'
          (fun it hit cs hcs => by
            have hm : it.node ∈ su.items.map (·.node) := hf.nodes.mem_iff.1 (List.mem_map_of_mem hit)
            obtain ⟨cs', h1, h2⟩ := (mem_inFlowOf childStyles it.node).1 (hperm.mem_iff.1 hm)
            rw [h1] at hcs; cases hcs
            exact h2) _)
      intro orc out hres x hx
      exact hK orc out hres x hx

/-- **gridRun_abs**: in a PerformLayout run of `compute_grid_layout` that does not panic (the model's `computeGridLayoutE`
returns `.ok out`), every layout set for a box-generating, absolutely positioned child with `grid-row`/`grid-column`
`auto / auto` is `absGrid` at `gridCallSite` for the run's output size, applied to the child's answer to the query the
program sends; and `out` is the program's output -/
theorem gridRun_abs (orc : Orc) (style : GridStyle Rat) (childStyles : List (GridChildStyle Rat)) (inp : LayoutInput Rat)
    (h : inp.runMode = .performLayout) (out : LayoutOutput Rat)
    (hok : res orc (run (computeGridLayoutE style childStyles inp)) = .ok out)
    (x : Nat × Layout Rat) (hx : x ∈ lays orc (computeGridLayout style childStyles inp))
    (cs : GridChildStyle Rat) (hcs : childStyles[x.1]? = some cs) (hvis : cs.base.isHidden = false)
    (habs : cs.base.position = .absolute) (ha : AutoPlaced cs) :
    res orc (computeGridLayout style childStyles inp) = out ∧
    ∃ (ord : Nat) (q : LayoutInput Rat),
      x.2 = AbsPos.absGrid (AbsPos.gridCallSite style.base inp.parentSize out.size ord) cs.base (fun _ => orc x.1 q) := by
  have hok' : res orc (computeGridLayoutE style childStyles inp).run = .ok out := hok
  constructor
  · unfold computeGridLayout
    rw [res_bind, hok']; rfl
  · unfold computeGridLayout at hx
    rw [lays_bind, hok'] at hx
    have hx'' : x ∈ lays orc (computeGridLayoutE style childStyles inp).run := by
      simpa [lays_pure] using hx
    have hx' : x ∈ lays orc (run (computeGridLayoutE style childStyles inp)) := hx''
    obtain ⟨q, hq⟩ := KAbs_computeGridLayoutE style childStyles inp h orc out hok x hx'
    obtain ⟨ord, hL⟩ := hq cs hcs hvis habs ha
    exact ⟨ord, q, hL⟩

end Lift
