/-
  C12 / C06 for grid: Model/GridSizing.lean respects the item transformation `phi P`, part 4: the general path of a
  batch (the six distribution steps, cut into named loop bodies, `rfl`), the batch loop, `resolve_intrinsic_track_sizes`.
-/
import TaffyVerif.Lemmas.GridBoxSizing3

set_option linter.unusedSectionVars false

namespace GridRel
open GridModel GridTracks
variable {α : Type} [Num α]

abbrev Step (α : Type) := GItem α → List (GridTrack α) → GM α (GItem α × List (GridTrack α))

/-- 1. For intrinsic minimums -/
def gStep1 (s : Sizer α) (avail : AvailableSpace α) (axisInner : Option α) (isFlex useFF : Bool) : Step α :=
  fun it ts =>
    if !it.crossesIntrinsicTrack s.axis then pure (it, ts) else do
      let (space, it) ← minimumSpaceM s avail it ts (fun it => it.spannedTrackLimit s.axis ts axisInner)
      pure (it, distBase s.axis isFlex useFF it space (fun t => (t.minFn.definiteValue axisInner).isNone)
        (minLimit s.axis axisInner it) .minimum ts)

/-- 2. For content-based minimums -/
def gStep2 (s : Sizer α) (axisInner : Option α) (isFlex useFF : Bool) : Step α :=
  fun it ts => do
    let (space, it) ← s.minContentContribution it
    pure (it, distBase s.axis isFlex useFF it space (fun t => t.minFn.isMinOrMaxContent)
      (minLimit s.axis axisInner it) .minimum ts)

/-- 3. For max-content minimums (max-content available space only) -/
def gStep3 (s : Sizer α) (axisInner : Option α) (isFlex useFF : Bool) : Step α :=
  fun it ts => do
    let (axisMaxContentSize, it) ← s.maxContentContribution it
    let limit := it.spannedTrackLimit s.axis ts axisInner
    let space := MaybeMath.fo_min axisMaxContentSize limit
    if (it.spannedTracks s.axis ts).any (fun t => t.minFn.isMaxContent) then
      pure (it, distBase s.axis isFlex useFF it space (fun t => t.minFn.isMaxContent) (fun _ => .inf) .maximum ts)
    else
      pure (it, distBase s.axis isFlex useFF it space (fun t => t.minFn.isAuto && !t.maxFn.isMinContent)
        (fun t => t.fitContentLimitedGrowthLimit axisInner) .maximum ts)

/-- "In all cases, continue to increase the base size of tracks with a min track sizing function of max-content" -/
def gStep3b (s : Sizer α) (isFlex useFF : Bool) : Step α :=
  fun it ts => do
    let (space, it) ← s.maxContentContribution it
    pure (it, distBase s.axis isFlex useFF it space (fun t => t.minFn.isMaxContent) (fun t => t.growthLimit)
      .maximum ts)

/-- 5. For intrinsic maximums -/
def gStep5 (s : Sizer α) (axisInner : Option α) : Step α :=
  fun it ts => do
    let (space, it) ← s.minContentContribution it
    pure (it, distGrowth s.axis axisInner it space (fun t => !t.maxFn.hasDefiniteValue axisInner) ts)

/-- 6. For max-content maximums -/
def gStep6 (s : Sizer α) (axisInner : Option α) : Step α :=
  fun it ts => do
    let (space, it) ← s.maxContentContribution it
    pure (it, distGrowth s.axis axisInner it space
      (fun t => t.maxFn.isMaxContentAlike || (t.maxFn.usesPercentage && axisInner.isNone)) ts)

theorem sizeBatchGeneralM_eq (s : Sizer α) (avail : AvailableSpace α) (axisInner : Option α) (isFlex : Bool)
    (flexFactorSum : α) (batch : List (GItem α)) (tracks : List (GridTrack α)) :
    sizeBatchGeneralM s avail axisInner isFlex flexFactorSum batch tracks =
      forItemsM (gStep1 s avail axisInner isFlex (isFlex && !Num.feq flexFactorSum 0)) batch tracks >>= fun r1 =>
      forItemsM (gStep2 s axisInner isFlex (isFlex && !Num.feq flexFactorSum 0)) r1.1
          (flushPlannedBaseSizeIncreases r1.2) >>= fun r2 =>
      (match avail with
        | .maxContent =>
          forItemsM (gStep3 s axisInner isFlex (isFlex && !Num.feq flexFactorSum 0)) r2.1
              (flushPlannedBaseSizeIncreases r2.2) >>= fun r =>
            pure (r.1, flushPlannedBaseSizeIncreases r.2)
        | _ => pure (r2.1, flushPlannedBaseSizeIncreases r2.2)) >>= fun r3 =>
      forItemsM (gStep3b s isFlex (isFlex && !Num.feq flexFactorSum 0)) r3.1 r3.2 >>= fun r4 =>
      if isFlex then pure (r4.1, raiseGrowthLimits (flushPlannedBaseSizeIncreases r4.2)) else
      forItemsM (gStep5 s axisInner) r4.1 (raiseGrowthLimits (flushPlannedBaseSizeIncreases r4.2)) >>= fun r5 =>
      forItemsM (gStep6 s axisInner) r5.1 (flushPlannedGrowthLimitIncreases r5.2 true) >>= fun r6 =>
      pure (r6.1, flushPlannedGrowthLimitIncreases r6.2 false) := by
  rfl

variable {w : World α} (hw : w.Reads) {P : Nat → Bool} (hR : Readers (α := α) P)

omit [Num α] in
theorem distBase_phi [Num α] (axis : Ax) (a b : Bool) (it : GItem α) (sp : α) (aff : GridTrack α → Bool)
    (lim : GridTrack α → Ext α) (ty : ContributionType) (ts : List (GridTrack α)) :
    distBase axis a b (phi P it) sp aff lim ty ts = distBase axis a b it sp aff lim ty ts := by
  unfold distBase
  rw [phi_trackRange]

theorem distGrowth_phi (axis : Ax) (axisInner : Option α) (it : GItem α) (sp : α) (aff : GridTrack α → Bool)
    (ts : List (GridTrack α)) :
    distGrowth axis axisInner (phi P it) sp aff ts = distGrowth axis axisInner it sp aff ts := by
  unfold distGrowth
  rw [phi_trackRange]

theorem minLimit_phi (axis : Ax) (axisInner : Option α) (it : GItem α) :
    minLimit axis axisInner (phi P it) = minLimit axis axisInner it := by
  unfold minLimit
  rw [phi_scroll]

include hw hR

theorem gStep1_rel (s : Sizer α) (avail : AvailableSpace α) (axisInner : Option α) (a b : Bool) (it : GItem α)
    (ts : List (GridTrack α)) (hn : ¬ w.abs it.node) :
    GRel w (RIT P it) (gStep1 s avail axisInner a b it ts) (gStep1 s avail axisInner a b (phi P it) ts) := by
  unfold gStep1
  rw [phi_crossesIntrinsicTrack]
  split
  · exact GRel.pure ⟨rfl, rfl, StaticEq.refl _⟩
  · refine GRel.bindX (minimumSpaceM_rel hw hR s avail it hn ts _ (fun x => phi_spannedTrackLimit P x _ _ _))
      fun v i2 hs => ?_
    dsimp only
    rw [distBase_phi, minLimit_phi]
    exact GRel.pure ⟨rfl, rfl, hs⟩

theorem gStep2_rel (s : Sizer α) (axisInner : Option α) (a b : Bool) (it : GItem α)
    (ts : List (GridTrack α)) (hn : ¬ w.abs it.node) :
    GRel w (RIT P it) (gStep2 s axisInner a b it ts) (gStep2 s axisInner a b (phi P it) ts) := by
  unfold gStep2
  refine GRel.bindX (sizer_minContentContribution_rel hw hR s it hn) fun v i2 hs => ?_
  dsimp only
  rw [distBase_phi, minLimit_phi]
  exact GRel.pure ⟨rfl, rfl, hs⟩

theorem gStep3_rel (s : Sizer α) (axisInner : Option α) (a b : Bool) (it : GItem α)
    (ts : List (GridTrack α)) (hn : ¬ w.abs it.node) :
    GRel w (RIT P it) (gStep3 s axisInner a b it ts) (gStep3 s axisInner a b (phi P it) ts) := by
  unfold gStep3
  refine GRel.bindX (sizer_maxContentContribution_rel hw hR s it hn) fun v i2 hs => ?_
  dsimp only
  rw [phi_spannedTracks, phi_spannedTrackLimit]
  split
  · rw [distBase_phi]
    exact GRel.pure ⟨rfl, rfl, hs⟩
  · rw [distBase_phi]
    exact GRel.pure ⟨rfl, rfl, hs⟩

theorem gStep3b_rel (s : Sizer α) (a b : Bool) (it : GItem α)
    (ts : List (GridTrack α)) (hn : ¬ w.abs it.node) :
    GRel w (RIT P it) (gStep3b s a b it ts) (gStep3b s a b (phi P it) ts) := by
  unfold gStep3b
  refine GRel.bindX (sizer_maxContentContribution_rel hw hR s it hn) fun v i2 hs => ?_
  dsimp only
  rw [distBase_phi]
  exact GRel.pure ⟨rfl, rfl, hs⟩

theorem gStep5_rel (s : Sizer α) (axisInner : Option α) (it : GItem α)
    (ts : List (GridTrack α)) (hn : ¬ w.abs it.node) :
    GRel w (RIT P it) (gStep5 s axisInner it ts) (gStep5 s axisInner (phi P it) ts) := by
  unfold gStep5
  refine GRel.bindX (sizer_minContentContribution_rel hw hR s it hn) fun v i2 hs => ?_
  dsimp only
  rw [distGrowth_phi]
  exact GRel.pure ⟨rfl, rfl, hs⟩

theorem gStep6_rel (s : Sizer α) (axisInner : Option α) (it : GItem α)
    (ts : List (GridTrack α)) (hn : ¬ w.abs it.node) :
    GRel w (RIT P it) (gStep6 s axisInner it ts) (gStep6 s axisInner (phi P it) ts) := by
  unfold gStep6
  refine GRel.bindX (sizer_maxContentContribution_rel hw hR s it hn) fun v i2 hs => ?_
  dsimp only
  rw [distGrowth_phi]
  exact GRel.pure ⟨rfl, rfl, hs⟩

theorem sizeBatchGeneralM_rel (s : Sizer α) (avail : AvailableSpace α) (axisInner : Option α) (isFlex : Bool)
    (ffs : α) (batch batch' : List (GItem α)) (tracks : List (GridTrack α)) (h : LR P (NA w) batch batch') :
    GRel w (RLT P (NA w)) (sizeBatchGeneralM s avail axisInner isFlex ffs batch tracks)
      (sizeBatchGeneralM s avail axisInner isFlex ffs batch' tracks) := by
  rw [sizeBatchGeneralM_eq, sizeBatchGeneralM_eq]
  refine GRel.bindLT (forItemsM_rel _ (fun it ts hn => gStep1_rel hw hR s avail axisInner _ _ it ts hn) _ _ _ h)
    fun l1 l1' t1 h1 => ?_
  refine GRel.bindLT (forItemsM_rel _ (fun it ts hn => gStep2_rel hw hR s axisInner _ _ it ts hn) _ _ _ h1)
    fun l2 l2' t2 h2 => ?_
  refine GRel.bindLT (P := P) (G := NA w) ?_ fun l3 l3' t3 h3 => ?_
  · cases avail with
    | maxContent =>
      refine GRel.bindLT (forItemsM_rel _ (fun it ts hn => gStep3_rel hw hR s axisInner _ _ it ts hn) _ _ _ h2)
        fun l l' t hl => ?_
      exact GRel.pure ⟨hl, rfl⟩
    | minContent => exact GRel.pure ⟨h2, rfl⟩
    | definite v => exact GRel.pure ⟨h2, rfl⟩
  refine GRel.bindLT (forItemsM_rel _ (fun it ts hn => gStep3b_rel hw hR s _ _ it ts hn) _ _ _ h3)
    fun l4 l4' t4 h4 => ?_
  dsimp only
  split
  · exact GRel.pure ⟨h4, rfl⟩
  refine GRel.bindLT (forItemsM_rel _ (fun it ts hn => gStep5_rel hw hR s axisInner it ts hn) _ _ _ h4)
    fun l5 l5' t5 h5 => ?_
  refine GRel.bindLT (forItemsM_rel _ (fun it ts hn => gStep6_rel hw hR s axisInner it ts hn) _ _ _ h5)
    fun l6 l6' t6 h6 => ?_
  exact GRel.pure ⟨h6, rfl⟩

end GridRel
