/-
  The per-item steps of `resolve_intrinsic_track_sizes` as an interaction program (Model/GridSizing.lean) against the pure
  steps of Model/FrSize.lean: on every run, the tracks a monadic step returns are the tracks the pure step computes from
  the abstraction (`absI`) of ANY later state of the item(s).
-/
import TaffyVerif.Lemmas.GridLiftItem

set_option linter.unusedSectionVars false
set_option linter.unusedVariables false

namespace GridLift
open GridModel GridTracks EvalGrid EvalBlock
variable {α : Type} [Num α]

/-! ### lists of items -/

/-- position-wise `ExtI` -/
inductive ExtL (ax : Ax) : List (GItem α) → List (GItem α) → Prop
  | nil : ExtL ax [] []
  | cons {a b : GItem α} {l l' : List (GItem α)} : ExtI ax a b → ExtL ax l l' → ExtL ax (a :: l) (b :: l')

theorem ExtL.refl (ax : Ax) : ∀ l : List (GItem α), ExtL ax l l
  | [] => .nil
  | a :: l => .cons (ExtI.refl ax a) (ExtL.refl ax l)

theorem ExtL.trans {ax : Ax} {a b c : List (GItem α)} (h1 : ExtL ax a b) (h2 : ExtL ax b c) : ExtL ax a c := by
  induction h1 generalizing c with
  | nil => cases h2; exact .nil
  | cons e _ ih =>
    cases h2 with
    | cons e' k' => exact .cons (e.trans e') (ih k')

theorem ExtL.length {ax : Ax} {a b : List (GItem α)} (h : ExtL ax a b) : b.length = a.length := by
  induction h with
  | nil => rfl
  | cons _ _ ih => simp only [List.length_cons, ih]

theorem ExtL.append {ax : Ax} {a a' b b' : List (GItem α)} (h1 : ExtL ax a a') (h2 : ExtL ax b b') :
    ExtL ax (a ++ b) (a' ++ b') := by
  induction h1 with
  | nil => simpa using h2
  | cons e _ ih => exact .cons e ih

theorem ExtL.take {ax : Ax} {a b : List (GItem α)} (h : ExtL ax a b) (n : Nat) : ExtL ax (a.take n) (b.take n) := by
  induction h generalizing n with
  | nil => simpa using ExtL.nil
  | cons e _ ih =>
    cases n with
    | zero => simpa using ExtL.nil
    | succ n => simpa using ExtL.cons e (ih n)

theorem ExtL.drop {ax : Ax} {a b : List (GItem α)} (h : ExtL ax a b) (n : Nat) : ExtL ax (a.drop n) (b.drop n) := by
  induction h generalizing n with
  | nil => simpa using ExtL.nil
  | cons e k ih =>
    cases n with
    | zero => simpa using ExtL.cons e k
    | succ n => simpa using ih n

theorem ExtL.getElem? {ax : Ax} {a b : List (GItem α)} (h : ExtL ax a b) (i : Nat) (x : GItem α)
    (hx : a[i]? = some x) : ∃ y, b[i]? = some y ∧ ExtI ax x y := by
  induction h generalizing i with
  | nil => simp at hx
  | cons e _ ih =>
    cases i with
    | zero => simp at hx; subst hx; exact ⟨_, by simp, e⟩
    | succ j => simpa using ih j (by simpa using hx)

theorem ExtL.getElem?_none {ax : Ax} {a b : List (GItem α)} (h : ExtL ax a b) (i : Nat) (hx : a[i]? = none) :
    b[i]? = none := by
  rw [List.getElem?_eq_none_iff] at hx ⊢
  rw [h.length]; exact hx

theorem ExtL.mem {ax : Ax} {a b : List (GItem α)} (h : ExtL ax a b) (y : GItem α) (hy : y ∈ b) :
    ∃ x, x ∈ a ∧ ExtI ax x y := by
  induction h with
  | nil => cases hy
  | cons e _ ih =>
    rcases List.mem_cons.1 hy with rfl | hy
    · exact ⟨_, List.mem_cons_self, e⟩
    · obtain ⟨x, hx, hxy⟩ := ih hy
      exact ⟨x, List.mem_cons_of_mem _ hx, hxy⟩

/-- an extension of `A ++ B ++ C` splits accordingly -/
theorem ExtL.split3 {ax : Ax} {A B C L : List (GItem α)} (h : ExtL ax (A ++ B ++ C) L) :
    ExtL ax A (L.take A.length) ∧ ExtL ax B ((L.drop A.length).take B.length) ∧
    ExtL ax C (L.drop (A.length + B.length)) := by
  have h1 := h.take A.length
  have h2 := (h.drop A.length).take B.length
  have h3 := h.drop (A.length + B.length)
  rw [List.append_assoc] at h1 h2 h3
  rw [List.take_left'] at h1
  rw [List.drop_left', List.take_left'] at h2
  rw [← List.append_assoc, List.drop_left' (by simp)] at h3
  exact ⟨h1, h2, h3⟩
  all_goals rfl

/-- a property of the core of an item carries over to extensions -/
theorem ExtL.forall_core {ax : Ax} {a b : List (GItem α)} (h : ExtL ax a b) (P : GItem α → Prop)
    (hP : ∀ x y, core y = core x → P x → P y) (ha : ∀ x ∈ a, P x) : ∀ y ∈ b, P y := by
  intro y hy
  obtain ⟨x, hx, e⟩ := h.mem y hy
  exact hP x y e.1 (ha x hx)

/-! ### track ranges -/

/-- the track-vector indexes of the item in axis `ax` are even (they are `2 · (line + negative implicit tracks)`) -/
def Even2 (ax : Ax) (it : GItem α) : Prop :=
  (it.placementIndexes ax).start % 2 = 0 ∧ (it.placementIndexes ax).end % 2 = 0

theorem Even2.core {ax : Ax} {a b : GItem α} (h : core b = core a) (ha : Even2 ax a) : Even2 ax b := by
  unfold Even2; rw [placementIndexes_core ax h]; exact ha

theorem absI_lo (ax : Ax) (w : Option α) (it : GItem α) (h : Even2 ax it) :
    (absI ax w it).lo = (it.trackRange ax).1 := by
  unfold Item.lo absI GItem.trackRange
  have := h.1
  simp only []
  omega

theorem absI_hi (ax : Ax) (w : Option α) (it : GItem α) (h : Even2 ax it) :
    (absI ax w it).hi = (it.trackRange ax).2 := by
  unfold Item.hi absI GItem.trackRange
  have := h.2
  simp only []
  omega

theorem absI_slice (ax : Ax) (w : Option α) (it : GItem α) (h : Even2 ax it) (ts : List (GridTrack α)) :
    sliceOf ts (absI ax w it).lo (absI ax w it).hi = it.spannedTracks ax ts := by
  rw [absI_lo ax w it h, absI_hi ax w it h]
  rfl

theorem absI_spannedTrackLimit (ax : Ax) (w : Option α) (it : GItem α) (h : Even2 ax it) (ts : List (GridTrack α))
    (inner : Option α) : spannedTrackLimit (absI ax w it) ts inner = it.spannedTrackLimit ax ts inner := by
  unfold spannedTrackLimit GItem.spannedTrackLimit
  rw [absI_slice ax w it h]

theorem absI_scroll (ax : Ax) (w : Option α) (it : GItem α) : (absI ax w it).scroll = it.scroll ax := rfl

theorem distBase_eq (ax : Ax) (w : Option α) (it : GItem α) (h : Even2 ax it) (isFlex useFF : Bool) (space : α)
    (aff : GridTrack α → Bool) (lim : GridTrack α → GridTracks.Ext α) (ty : ContributionType) (ts : List (GridTrack α)) :
    distBase ax isFlex useFF it space aff lim ty ts = batchDist isFlex useFF (absI ax w it) space aff lim ty ts := by
  unfold distBase batchDist
  rw [absI_lo ax w it h, absI_hi ax w it h]

theorem distGrowth_eq (ax : Ax) (w : Option α) (it : GItem α) (h : Even2 ax it) (inner : Option α) (space : α)
    (aff : GridTrack α → Bool) (ts : List (GridTrack α)) :
    distGrowth ax inner it space aff ts =
      (if Num.flt 0 space then
        onRange ts (absI ax w it).lo (absI ax w it).hi fun sl => distributeItemSpaceToGrowthLimit space sl aff inner
      else ts) := by
  unfold distGrowth
  rw [absI_lo ax w it h, absI_hi ax w it h]

theorem minLimit_eq (ax : Ax) (w : Option α) (inner : Option α) (it : GItem α) :
    minLimit ax inner it = minLimitFn inner (absI ax w it) := rfl

/-! ### `minimumSpaceM` -/

theorem minimumSpaceM_spec (s : Sizer α) (avail : AvailableSpace α) (it : GItem α) (ts : List (GridTrack α))
    (limit : GItem α → Option α) (hl : ∀ a b : GItem α, core b = core a → limit b = limit a) :
    GPost (fun r => ExtI s.axis it r.2 ∧ ∀ itF, ExtI s.axis r.2 itF →
        r.1 = minimumSpace (absI s.axis s.innerNodeSize.width itF) avail (limit it))
      (minimumSpaceM s avail it ts limit) := by
  unfold minimumSpaceM
  have hdef : GPost (fun r => ExtI s.axis it r.2 ∧ ∀ itF, ExtI s.axis r.2 itF →
      r.1 = (absI s.axis s.innerNodeSize.width itF).minimum) (s.minimumContribution it ts) := by
    refine GPost_mono _ _ _ ?_ (sizer_minimum_spec s it ts)
    intro r ⟨e, k⟩
    exact ⟨e, fun itF eF => (k.ext eF).toAbs.symm⟩
  cases avail with
  | definite a => exact hdef
  | minContent =>
    simp only []
    by_cases hsc : it.scroll s.axis = true
    · simp only [hsc, Bool.not_true, Bool.false_eq_true, if_false]
      refine GPost_mono _ _ _ ?_ hdef
      intro r ⟨e, k⟩
      refine ⟨e, fun itF eF => ?_⟩
      have : (absI s.axis s.innerNodeSize.width itF).scroll = true := by
        rw [absI_scroll, scroll_core s.axis (e.trans eF).1]; exact hsc
      simp only [minimumSpace, this, Bool.not_true, Bool.false_eq_true, if_false]
      exact k itF eF
    · simp only [hsc, Bool.not_false, if_true]
      refine GPost_bind _ _ _ _ (sizer_minimum_spec s it ts) fun ⟨a, it1⟩ h1 => ?_
      refine GPost_bind _ _ _ _ (sizer_minContent_spec s it1) fun ⟨b, it2⟩ h2 => ?_
      simp only [] at h1 h2 ⊢
      refine GPost_pure _ _ ⟨h1.1.trans h2.1, fun itF eF => ?_⟩
      have hs : (absI s.axis s.innerNodeSize.width itF).scroll = false := by
        rw [absI_scroll, scroll_core s.axis ((h1.1.trans h2.1).trans eF).1]; simpa using hsc
      simp only [minimumSpace, hs, Bool.not_false, if_true]
      rw [(h2.2.ext eF).toAbs, ((h1.2.ext h2.1).ext eF).toAbs, hl it it2 (h1.1.trans h2.1).1]
  | maxContent =>
    simp only []
    by_cases hsc : it.scroll s.axis = true
    · simp only [hsc, Bool.not_true, Bool.false_eq_true, if_false]
      refine GPost_mono _ _ _ ?_ hdef
      intro r ⟨e, k⟩
      refine ⟨e, fun itF eF => ?_⟩
      have : (absI s.axis s.innerNodeSize.width itF).scroll = true := by
        rw [absI_scroll, scroll_core s.axis (e.trans eF).1]; exact hsc
      simp only [minimumSpace, this, Bool.not_true, Bool.false_eq_true, if_false]
      exact k itF eF
    · simp only [hsc, Bool.not_false, if_true]
      refine GPost_bind _ _ _ _ (sizer_minimum_spec s it ts) fun ⟨a, it1⟩ h1 => ?_
      refine GPost_bind _ _ _ _ (sizer_minContent_spec s it1) fun ⟨b, it2⟩ h2 => ?_
      simp only [] at h1 h2 ⊢
      refine GPost_pure _ _ ⟨h1.1.trans h2.1, fun itF eF => ?_⟩
      have hs : (absI s.axis s.innerNodeSize.width itF).scroll = false := by
        rw [absI_scroll, scroll_core s.axis ((h1.1.trans h2.1).trans eF).1]; simpa using hsc
      simp only [minimumSpace, hs, Bool.not_false, if_true]
      rw [(h2.2.ext eF).toAbs, ((h1.2.ext h2.1).ext eF).toAbs, hl it it2 (h1.1.trans h2.1).1]

/-! ### the span-1 fast path -/

theorem modify_eq_set_of_getElem? {β : Type} (f : β → β) : ∀ (l : List β) (i : Nat) (x : β), l[i]? = some x →
    l.modify i f = l.set i (f x)
  | [], i, x, h => by simp at h
  | a :: l, 0, x, h => by simp at h; subst h; simp
  | a :: l, i + 1, x, h => by
    simp at h
    simp [modify_eq_set_of_getElem? f l i x h]

/-- the new base size of the span-1 path -/
def spanOneBase (avail : AvailableSpace α) (axisInner : Option α) (it : Item α) (track : GridTrack α) : α :=
  match track.minFn with
  | .minContent => Num.fmax track.baseSize it.minContent
  | .percent _ => if axisInner.isNone then Num.fmax track.baseSize it.minContent else track.baseSize
  | .maxContent => Num.fmax track.baseSize it.maxContent
  | .auto => Num.fmax track.baseSize (minimumSpace it avail (track.maxFn.definiteLimit axisInner))
  | .length _ => track.baseSize

/-- the growth-limit part of the span-1 path -/
def spanOneGrowth (axisInner : Option α) (it : Item α) (track : GridTrack α) : GridTrack α :=
  if track.maxFn.isFitContent then
    let p := if !it.scroll then Num.fmax track.growthLimitPlannedIncrease it.minContent
      else track.growthLimitPlannedIncrease
    let maxCC := (track.fitContentLimit axisInner).minF it.maxContent
    { track with growthLimitPlannedIncrease := Num.fmax p maxCC }
  else if track.maxFn.isMaxContentAlike || (track.maxFn.usesPercentage && axisInner.isNone) then
    { track with growthLimitPlannedIncrease := Num.fmax track.growthLimitPlannedIncrease it.maxContent }
  else if track.maxFn.isIntrinsic then
    { track with growthLimitPlannedIncrease := Num.fmax track.growthLimitPlannedIncrease it.minContent }
  else track

theorem sizeSpanOneTrack_eq (avail : AvailableSpace α) (axisInner : Option α) (it : Item α) (track : GridTrack α) :
    sizeSpanOneTrack avail axisInner it track =
      spanOneGrowth axisInner it { track with baseSize := spanOneBase avail axisInner it track } := rfl

theorem sizeSpanOneItemM_spec (s : Sizer α) (avail : AvailableSpace α) (axisInner : Option α) (it : GItem α)
    (ts : List (GridTrack α)) (he : Even2 s.axis it) :
    GPost (fun r => ExtI s.axis it r.1 ∧ ∀ itF, ExtI s.axis r.1 itF →
        r.2 = sizeSpanOneItem avail axisInner ts (absI s.axis s.innerNodeSize.width itF))
      (sizeSpanOneItemM s avail axisInner it ts) := by
  unfold sizeSpanOneItemM
  simp only []
  split
  · exact GPost_throw _ _
  · rename_i track htrack
    refine GPost_bind (fun r => ExtI s.axis it r.2 ∧ ∀ itF, ExtI s.axis r.2 itF →
      r.1 = spanOneBase avail axisInner (absI s.axis s.innerNodeSize.width itF) track) _ _ _ ?_ fun ⟨nb, it1⟩ h1 => ?_
    · split
      · rename_i hm
        refine GPost_bind _ _ _ _ (sizer_minContent_spec s it) fun ⟨c, it1⟩ h => ?_
        simp only [] at h ⊢
        refine GPost_pure _ _ ⟨h.1, fun itF eF => ?_⟩
        simp only [spanOneBase, hm, (h.2.ext eF).toAbs]
      · rename_i v hm
        split
        · rename_i hnone
          refine GPost_bind _ _ _ _ (sizer_minContent_spec s it) fun ⟨c, it1⟩ h => ?_
          simp only [] at h ⊢
          refine GPost_pure _ _ ⟨h.1, fun itF eF => ?_⟩
          simp only [spanOneBase, hm, hnone, if_true, (h.2.ext eF).toAbs]
        · rename_i hnone
          refine GPost_pure _ _ ⟨ExtI.refl _ _, fun itF eF => ?_⟩
          simp only [spanOneBase, hm, hnone, Bool.false_eq_true, if_false]
      · rename_i hm
        refine GPost_bind _ _ _ _ (sizer_maxContent_spec s it) fun ⟨c, it1⟩ h => ?_
        simp only [] at h ⊢
        refine GPost_pure _ _ ⟨h.1, fun itF eF => ?_⟩
        simp only [spanOneBase, hm, (h.2.ext eF).toAbs]
      · rename_i hm
        refine GPost_bind _ _ _ _ (minimumSpaceM_spec s avail it ts (fun _ => track.maxFn.definiteLimit axisInner)
          (fun _ _ _ => rfl)) fun ⟨c, it1⟩ h => ?_
        simp only [] at h ⊢
        refine GPost_pure _ _ ⟨h.1, fun itF eF => ?_⟩
        simp only [spanOneBase, hm, h.2 itF eF]
      · rename_i v hm
        refine GPost_pure _ _ ⟨ExtI.refl _ _, fun itF eF => ?_⟩
        simp only [spanOneBase, hm]
    · simp only [] at h1 ⊢
      refine GPost_bind (fun r => ExtI s.axis it1 r.2 ∧ ∀ itF, ExtI s.axis r.2 itF →
        r.1 = spanOneGrowth axisInner (absI s.axis s.innerNodeSize.width itF) { track with baseSize := nb })
        _ _ _ ?_ fun ⟨tr, it2⟩ h2 => ?_
      · split
        · rename_i hfc
          refine GPost_bind (fun r => ExtI s.axis it1 r.2 ∧ ∀ itF, ExtI s.axis r.2 itF →
            r.1 = { track with baseSize := nb, growthLimitPlannedIncrease :=
              (if !(absI s.axis s.innerNodeSize.width itF).scroll then
                Num.fmax track.growthLimitPlannedIncrease (absI s.axis s.innerNodeSize.width itF).minContent
              else track.growthLimitPlannedIncrease) }) _ _ _ ?_ fun ⟨tr, it2⟩ h2 => ?_
          · by_cases hsc : it1.scroll s.axis = true
            · simp only [hsc, Bool.not_true, Bool.false_eq_true, if_false]
              refine GPost_pure _ _ ⟨ExtI.refl _ _, fun itF eF => ?_⟩
              have : (absI s.axis s.innerNodeSize.width itF).scroll = true := by
                rw [absI_scroll, scroll_core s.axis eF.1]; exact hsc
              simp only [this, Bool.not_true, Bool.false_eq_true, if_false]
            · simp only [hsc, Bool.not_false, if_true]
              refine GPost_bind _ _ _ _ (sizer_minContent_spec s it1) fun ⟨c, it2⟩ h => ?_
              simp only [] at h ⊢
              refine GPost_pure _ _ ⟨h.1, fun itF eF => ?_⟩
              have hs : (absI s.axis s.innerNodeSize.width itF).scroll = false := by
                rw [absI_scroll, scroll_core s.axis (h.1.trans eF).1]; simpa using hsc
              simp only [hs, Bool.not_false, if_true, (h.2.ext eF).toAbs]
          · simp only [] at h2 ⊢
            refine GPost_bind _ _ _ _ (sizer_maxContent_spec s it2) fun ⟨c, it3⟩ h => ?_
            simp only [] at h ⊢
            refine GPost_pure _ _ ⟨h2.1.trans h.1, fun itF eF => ?_⟩
            simp only [spanOneGrowth, hfc, if_true, h2.2 itF (h.1.trans eF), (h.2.ext eF).toAbs]
            rfl
        · rename_i hfc
          split
          · rename_i hmc
            refine GPost_bind _ _ _ _ (sizer_maxContent_spec s it1) fun ⟨c, it2⟩ h => ?_
            simp only [] at h ⊢
            refine GPost_pure _ _ ⟨h.1, fun itF eF => ?_⟩
            simp only [spanOneGrowth, hfc, hmc, Bool.false_eq_true, if_true, if_false, (h.2.ext eF).toAbs]
          · rename_i hmc
            split
            · rename_i hin
              refine GPost_bind _ _ _ _ (sizer_minContent_spec s it1) fun ⟨c, it2⟩ h => ?_
              simp only [] at h ⊢
              refine GPost_pure _ _ ⟨h.1, fun itF eF => ?_⟩
              simp only [spanOneGrowth, hfc, hmc, hin, Bool.false_eq_true, if_true, if_false, (h.2.ext eF).toAbs]
            · rename_i hin
              refine GPost_pure _ _ ⟨ExtI.refl _ _, fun itF eF => ?_⟩
              simp only [spanOneGrowth, hfc, hmc, hin, Bool.false_eq_true, if_false]
      · simp only [] at h2 ⊢
        refine GPost_pure _ _ ⟨h1.1.trans h2.1, fun itF eF => ?_⟩
        have hcore : core itF = core it := ((h1.1.trans h2.1).trans eF).1
        have heF : Even2 s.axis itF := he.core hcore
        unfold sizeSpanOneItem
        rw [absI_lo _ _ _ heF, trackRange_core s.axis hcore]
        have hidx : (it.trackRange s.axis).1 = (it.placementIndexes s.axis).start + 1 := rfl
        rw [hidx, modify_eq_set_of_getElem? _ _ _ _ htrack, sizeSpanOneTrack_eq, h2.2 itF eF, ← h1.2 itF (h2.1.trans eF)]

/-! ### `forItemsM` -/

theorem forItemsM_spec (ax : Ax) (w : Option α)
    (f : GItem α → List (GridTrack α) → GM α (GItem α × List (GridTrack α)))
    (g : Item α → List (GridTrack α) → List (GridTrack α))
    (hf : ∀ it ts, Even2 ax it → GPost (fun r => ExtI ax it r.1 ∧ ∀ itF, ExtI ax r.1 itF →
      r.2 = g (absI ax w itF) ts) (f it ts)) :
    ∀ (items : List (GItem α)) (ts : List (GridTrack α)), (∀ it ∈ items, Even2 ax it) →
      GPost (fun r => ExtL ax items r.1 ∧ ∀ F, ExtL ax r.1 F →
        r.2 = (F.map (absI ax w)).foldl (fun ts it => g it ts) ts) (forItemsM f items ts)
  | [], ts, _ => by
    refine GPost_pure _ _ ⟨.nil, fun F hF => ?_⟩
    cases hF; rfl
  | it :: rest, ts, he => by
    simp only [forItemsM]
    refine GPost_bind _ _ _ _ (hf it ts (he it List.mem_cons_self)) fun ⟨it', ts'⟩ h1 => ?_
    simp only [] at h1 ⊢
    refine GPost_bind _ _ _ _ (forItemsM_spec ax w f g hf rest ts'
      (fun x hx => he x (List.mem_cons_of_mem _ hx))) fun ⟨rest', ts''⟩ h2 => ?_
    simp only [] at h2 ⊢
    refine GPost_pure _ _ ⟨.cons h1.1 h2.1, fun F hF => ?_⟩
    cases hF with
    | cons e k =>
      simp only [List.map_cons, List.foldl_cons]
      rw [h2.2 _ k, h1.2 _ e]

/-- the query-then-update shape of the batch steps -/
theorem query_then_spec {β : Type} (ax : Ax) (w : Option α) (it : GItem α) (q : GM α (β × GItem α))
    (K : GItem α → β → Prop) (hq : GPost (fun r => ExtI ax it r.2 ∧ K r.2 r.1) q)
    (hK : ∀ a b v, K a v → ExtI ax a b → K b v)
    (upd : β → GItem α → List (GridTrack α)) (g : Item α → List (GridTrack α))
    (hg : ∀ v it' itF, ExtI ax it it' → K itF v → ExtI ax it' itF → upd v it' = g (absI ax w itF)) :
    GPost (fun r => ExtI ax it r.1 ∧ ∀ itF, ExtI ax r.1 itF → r.2 = g (absI ax w itF))
      (q >>= fun r => (pure (r.2, upd r.1 r.2) : GM α (GItem α × List (GridTrack α)))) := by
  refine GPost_bind _ _ _ _ hq fun ⟨v, it'⟩ h => ?_
  simp only [] at h ⊢
  exact GPost_pure _ _ ⟨h.1, fun itF eF => hg v it' itF h.1 (hK _ _ _ h.2 eF) eF⟩

/-! ### the general path of a batch -/

theorem distBase_eq' (ax : Ax) (w : Option α) (it itF : GItem α) (h : Even2 ax it) (hc : core itF = core it)
    (isFlex useFF : Bool) (space : α) (aff : GridTrack α → Bool) (lim : GridTrack α → GridTracks.Ext α)
    (ty : ContributionType) (ts : List (GridTrack α)) :
    distBase ax isFlex useFF it space aff lim ty ts = batchDist isFlex useFF (absI ax w itF) space aff lim ty ts := by
  rw [← distBase_eq ax w itF (h.core hc)]
  unfold distBase
  rw [trackRange_core ax hc]

theorem distGrowth_eq' (ax : Ax) (w : Option α) (it itF : GItem α) (h : Even2 ax it) (hc : core itF = core it)
    (inner : Option α) (space : α) (aff : GridTrack α → Bool) (ts : List (GridTrack α)) :
    distGrowth ax inner it space aff ts =
      (if Num.flt 0 space then
        onRange ts (absI ax w itF).lo (absI ax w itF).hi fun sl => distributeItemSpaceToGrowthLimit space sl aff inner
      else ts) := by
  rw [← distGrowth_eq ax w itF (h.core hc)]
  unfold distGrowth
  rw [trackRange_core ax hc]

theorem minLimit_eq' (ax : Ax) (w : Option α) (inner : Option α) (it itF : GItem α) (hc : core itF = core it) :
    minLimit ax inner it = minLimitFn inner (absI ax w itF) := by
  rw [← minLimit_eq ax w inner itF]
  unfold minLimit
  rw [scroll_core ax hc]

theorem minimumSpace_limit (I : Item α) (avail : AvailableSpace α) (L : Option α) :
    minimumSpace I avail L = minimumSpace I avail (match avail with
      | .definite _ => none
      | _ => if !I.scroll then L else none) := by
  cases avail <;> cases hs : I.scroll <;> simp [minimumSpace, hs]

/-- the pure per-item functions of the six steps -/
def g1 (avail : AvailableSpace α) (axisInner : Option α) (isFlex useFF : Bool) (it : Item α)
    (ts : List (GridTrack α)) : List (GridTrack α) :=
  let space := minimumSpace it avail (match avail with
    | .definite _ => none
    | _ => if !it.scroll then spannedTrackLimit it ts axisInner else none)
  batchDist isFlex useFF it space (fun t => (t.minFn.definiteValue axisInner).isNone)
    (minLimitFn axisInner it) .minimum ts

def g3 (axisInner : Option α) (isFlex useFF : Bool) (it : Item α) (ts : List (GridTrack α)) : List (GridTrack α) :=
  let space := MaybeMath.fo_min it.maxContent (spannedTrackLimit it ts axisInner)
  if (sliceOf ts it.lo it.hi).any (fun t => t.minFn.isMaxContent) then
    batchDist isFlex useFF it space (fun t => t.minFn.isMaxContent) (fun _ => .inf) .maximum ts
  else
    batchDist isFlex useFF it space (fun t => t.minFn.isAuto && !t.maxFn.isMinContent)
      (fun t => t.fitContentLimitedGrowthLimit axisInner) .maximum ts

theorem batchStep1_eq (avail : AvailableSpace α) (axisInner : Option α) (isFlex useFF : Bool) (batch : List (Item α))
    (tracks : List (GridTrack α)) :
    batchStep1 avail axisInner isFlex useFF batch tracks =
      flushPlannedBaseSizeIncreases (batch.foldl (fun ts it =>
        if it.crossesIntrinsic then g1 avail axisInner isFlex useFF it ts else ts) tracks) := by
  unfold batchStep1 forBatch
  rw [List.foldl_filter]
  rfl

theorem batchStep3_eq (axisInner : Option α) (isFlex useFF : Bool) (batch : List (Item α))
    (tracks : List (GridTrack α)) :
    batchStep3 .maxContent axisInner isFlex useFF batch tracks =
      flushPlannedBaseSizeIncreases (batch.foldl (fun ts it => g3 axisInner isFlex useFF it ts) tracks) := rfl

theorem sizeBatchGeneralM_spec (s : Sizer α) (avail : AvailableSpace α) (axisInner : Option α) (isFlex : Bool)
    (ffs : α) (batch : List (GItem α)) (tracks : List (GridTrack α)) (he : ∀ it ∈ batch, Even2 s.axis it) :
    GPost (fun r => ExtL s.axis batch r.1 ∧ ∀ F, ExtL s.axis r.1 F →
        r.2 = sizeBatchGeneral avail axisInner isFlex ffs (F.map (absI s.axis s.innerNodeSize.width)) tracks)
      (sizeBatchGeneralM s avail axisInner isFlex ffs batch tracks) := by
  have hEv : ∀ {l : List (GItem α)}, ExtL s.axis batch l → ∀ it ∈ l, Even2 s.axis it := fun hl =>
    hl.forall_core _ (fun x y h hx => hx.core h) he
  unfold sizeBatchGeneralM
  simp only []
  generalize huse : (isFlex && !Num.feq ffs 0) = useFF
  -- 1.
  refine GPost_bind _ _ _ _ (forItemsM_spec s.axis s.innerNodeSize.width _
    (fun I ts => if I.crossesIntrinsic then g1 avail axisInner isFlex useFF I ts else ts) (fun it ts hev => ?_)
    batch tracks he) fun ⟨b1, t1⟩ h1 => ?_
  · by_cases hci : it.crossesIntrinsicTrack s.axis = true
    · simp only [hci, Bool.not_true, Bool.false_eq_true, if_false]
      refine GPost_bind _ _ _ _ (minimumSpaceM_spec s avail it ts (fun it => it.spannedTrackLimit s.axis ts axisInner)
        (fun a b h => spannedTrackLimit_core s.axis ts axisInner h)) fun ⟨space, it'⟩ h => ?_
      simp only [] at h ⊢
      refine GPost_pure _ _ ⟨h.1, fun itF eF => ?_⟩
      have hc : core itF = core it' := eF.1
      have hc0 : core itF = core it := (h.1.trans eF).1
      have hci' : (absI s.axis s.innerNodeSize.width itF).crossesIntrinsic = true := by
        show itF.crossesIntrinsicTrack s.axis = true
        rw [crossesIntr_core s.axis hc0]; exact hci
      simp only [hci', if_true, g1]
      rw [distBase_eq' s.axis s.innerNodeSize.width it' itF (hev.core h.1.1) hc, minLimit_eq' _ s.innerNodeSize.width _ _ _ hc,
        h.2 itF eF, minimumSpace_limit, ← spannedTrackLimit_core s.axis ts axisInner hc0,
        absI_spannedTrackLimit _ _ _ (hev.core hc0)]
    · simp only [hci, Bool.not_false, if_true]
      refine GPost_pure _ _ ⟨ExtI.refl _ _, fun itF eF => ?_⟩
      have hci' : (absI s.axis s.innerNodeSize.width itF).crossesIntrinsic = false := by
        show itF.crossesIntrinsicTrack s.axis = false
        rw [crossesIntr_core s.axis eF.1]; simpa using hci
      simp only [hci', Bool.false_eq_true, if_false]
  simp only [] at h1 ⊢
  -- 2.
  refine GPost_bind _ _ _ _ (forItemsM_spec s.axis s.innerNodeSize.width _
    (fun I ts => batchDist isFlex useFF I I.minContent (fun t => t.minFn.isMinOrMaxContent)
      (minLimitFn axisInner I) .minimum ts) (fun it ts hev => ?_)
    b1 _ (hEv h1.1)) fun ⟨b2, t2⟩ h2 => ?_
  · refine GPost_bind _ _ _ _ (sizer_minContent_spec s it) fun ⟨space, it'⟩ h => ?_
    simp only [] at h ⊢
    refine GPost_pure _ _ ⟨h.1, fun itF eF => ?_⟩
    rw [distBase_eq' s.axis s.innerNodeSize.width it' itF (hev.core h.1.1) eF.1,
      minLimit_eq' _ s.innerNodeSize.width _ _ _ eF.1, (h.2.ext eF).toAbs]
  simp only [] at h2 ⊢
  have e12 := h1.1.trans h2.1
  -- 3.
  refine GPost_bind (fun r => ExtL s.axis b2 r.1 ∧ ∀ F, ExtL s.axis r.1 F →
    r.2 = batchStep3 avail axisInner isFlex useFF (F.map (absI s.axis s.innerNodeSize.width))
      (flushPlannedBaseSizeIncreases t2)) _ _ _ ?_ fun ⟨b3, t3⟩ h3 => ?_
  · cases avail with
    | definite a => exact GPost_pure _ _ ⟨ExtL.refl _ _, fun F hF => rfl⟩
    | minContent => exact GPost_pure _ _ ⟨ExtL.refl _ _, fun F hF => rfl⟩
    | maxContent =>
      simp only []
      refine GPost_bind _ _ _ _ (forItemsM_spec s.axis s.innerNodeSize.width _
        (fun I ts => g3 axisInner isFlex useFF I ts) (fun it ts hev => ?_)
        b2 _ (hEv e12)) fun ⟨b3, t3⟩ h3 => ?_
      · refine GPost_bind _ _ _ _ (sizer_maxContent_spec s it) fun ⟨mc, it'⟩ h => ?_
        simp only [] at h ⊢
        have hev' : Even2 s.axis it' := hev.core h.1.1
        have key : ∀ itF, ExtI s.axis it' itF →
            (if ((it'.spannedTracks s.axis ts).any fun t => t.minFn.isMaxContent) = true then
              distBase s.axis isFlex useFF it' (MaybeMath.fo_min mc (it'.spannedTrackLimit s.axis ts axisInner))
                (fun t => t.minFn.isMaxContent) (fun _ => GridTracks.Ext.inf) .maximum ts
            else
              distBase s.axis isFlex useFF it' (MaybeMath.fo_min mc (it'.spannedTrackLimit s.axis ts axisInner))
                (fun t => t.minFn.isAuto && !t.maxFn.isMinContent)
                (fun t => t.fitContentLimitedGrowthLimit axisInner) .maximum ts) =
            g3 axisInner isFlex useFF (absI s.axis s.innerNodeSize.width itF) ts := by
          intro itF eF
          have hevF : Even2 s.axis itF := hev'.core eF.1
          unfold g3
          simp only []
          rw [absI_slice _ _ _ hevF, absI_spannedTrackLimit _ _ _ hevF, (h.2.ext eF).toAbs,
            spannedTracks_core s.axis ts eF.1, spannedTrackLimit_core s.axis ts axisInner eF.1,
            distBase_eq' s.axis s.innerNodeSize.width it' itF hev' eF.1,
            distBase_eq' s.axis s.innerNodeSize.width it' itF hev' eF.1]
        split
        · rename_i hany
          refine GPost_pure _ _ ⟨h.1, fun itF eF => ?_⟩
          rw [← key itF eF, if_pos hany]
        · rename_i hany
          refine GPost_pure _ _ ⟨h.1, fun itF eF => ?_⟩
          rw [← key itF eF, if_neg hany]
      · simp only [] at h3 ⊢
        refine GPost_pure _ _ ⟨h3.1, fun F hF => ?_⟩
        rw [batchStep3_eq, h3.2 F hF]
  simp only [] at h3 ⊢
  have e13 := e12.trans h3.1
  -- max-content minimums
  refine GPost_bind _ _ _ _ (forItemsM_spec s.axis s.innerNodeSize.width _
    (fun I ts => batchDist isFlex useFF I I.maxContent (fun t => t.minFn.isMaxContent)
      (fun t => t.growthLimit) .maximum ts) (fun it ts hev => ?_)
    b3 _ (hEv e13)) fun ⟨b4, t4⟩ h4 => ?_
  · refine GPost_bind _ _ _ _ (sizer_maxContent_spec s it) fun ⟨space, it'⟩ h => ?_
    simp only [] at h ⊢
    refine GPost_pure _ _ ⟨h.1, fun itF eF => ?_⟩
    rw [distBase_eq' s.axis s.innerNodeSize.width it' itF (hev.core h.1.1) eF.1, (h.2.ext eF).toAbs]
  simp only [] at h4 ⊢
  have e14 := e13.trans h4.1
  -- the pure result up to step 4, for any extension of `b4`
  have upto4 : ∀ F, ExtL s.axis b4 F →
      raiseGrowthLimits (flushPlannedBaseSizeIncreases t4) =
        raiseGrowthLimits (batchStep3b isFlex useFF (F.map (absI s.axis s.innerNodeSize.width))
          (batchStep3 avail axisInner isFlex useFF (F.map (absI s.axis s.innerNodeSize.width))
            (batchStep2 axisInner isFlex useFF (F.map (absI s.axis s.innerNodeSize.width))
              (batchStep1 avail axisInner isFlex useFF (F.map (absI s.axis s.innerNodeSize.width)) tracks)))) := by
    intro F hF
    rw [batchStep1_eq, ← h1.2 F ((h2.1.trans h3.1).trans (h4.1.trans hF))]
    have a2 : flushPlannedBaseSizeIncreases t2 = batchStep2 axisInner isFlex useFF
        (F.map (absI s.axis s.innerNodeSize.width)) (flushPlannedBaseSizeIncreases t1) := by
      rw [h2.2 F (h3.1.trans (h4.1.trans hF))]; rfl
    rw [← a2, ← h3.2 F (h4.1.trans hF)]
    rw [h4.2 F hF]; rfl
  by_cases hfl : isFlex = true
  · simp only [hfl, if_true]
    refine GPost_pure _ _ ⟨e14, fun F hF => ?_⟩
    subst hfl
    unfold sizeBatchGeneral
    simp only [huse, Bool.not_true, Bool.false_eq_true, if_false]
    rw [upto4 F hF]
  · simp only [hfl, Bool.false_eq_true, if_false]
    -- 5.
    refine GPost_bind _ _ _ _ (forItemsM_spec s.axis s.innerNodeSize.width _
      (fun I ts => if Num.flt 0 I.minContent then
          onRange ts I.lo I.hi fun sl => distributeItemSpaceToGrowthLimit I.minContent sl
            (fun t => !t.maxFn.hasDefiniteValue axisInner) axisInner
        else ts) (fun it ts hev => ?_)
      b4 _ (hEv e14)) fun ⟨b5, t5⟩ h5 => ?_
    · refine GPost_bind _ _ _ _ (sizer_minContent_spec s it) fun ⟨space, it'⟩ h => ?_
      simp only [] at h ⊢
      refine GPost_pure _ _ ⟨h.1, fun itF eF => ?_⟩
      rw [distGrowth_eq' s.axis s.innerNodeSize.width it' itF (hev.core h.1.1) eF.1, (h.2.ext eF).toAbs]
    simp only [] at h5 ⊢
    have e15 := e14.trans h5.1
    -- 6.
    refine GPost_bind _ _ _ _ (forItemsM_spec s.axis s.innerNodeSize.width _
      (fun I ts => if Num.flt 0 I.maxContent then
          onRange ts I.lo I.hi fun sl => distributeItemSpaceToGrowthLimit I.maxContent sl
            (fun t => t.maxFn.isMaxContentAlike || (t.maxFn.usesPercentage && axisInner.isNone)) axisInner
        else ts) (fun it ts hev => ?_)
      b5 _ (hEv e15)) fun ⟨b6, t6⟩ h6 => ?_
    · refine GPost_bind _ _ _ _ (sizer_maxContent_spec s it) fun ⟨space, it'⟩ h => ?_
      simp only [] at h ⊢
      refine GPost_pure _ _ ⟨h.1, fun itF eF => ?_⟩
      rw [distGrowth_eq' s.axis s.innerNodeSize.width it' itF (hev.core h.1.1) eF.1, (h.2.ext eF).toAbs]
    simp only [] at h6 ⊢
    refine GPost_pure _ _ ⟨e15.trans h6.1, fun F hF => ?_⟩
    have hfl' : isFlex = false := by simpa using hfl
    subst hfl'
    unfold sizeBatchGeneral
    simp only [huse, Bool.not_false, if_true]
    rw [h6.2 F hF, h5.2 F (h6.1.trans hF), upto4 F (h5.1.trans (h6.1.trans hF))]
    rfl

end GridLift
