/-
  C04 for grid, part 1: `Scalable` instances for the records of the grid model (generated boilerplate) and `gscale`.

  NOTE: `Scalable (Style Rat)` (Model/Scale.lean) scales `Style.grid` too (the instances for the track sizing functions
  and `GridExt` live there): `length` and `fit-content(px)` track sizing functions are scaled; percentages and `fr`
  factors are not.  `gscale k style` is an abbreviation of `scale k style` (kept for the grid lemma files).
-/
import TaffyVerif.Lemmas.ScaleAbs
import TaffyVerif.Lemmas.ScaleBlock
import TaffyVerif.Lemmas.GridScaleStages

set_option linter.unusedSectionVars false
set_option linter.unusedVariables false
set_option linter.unusedSimpArgs false

namespace C04
open Scalable GridModel GridTracks GridStages

@[scale_simp] theorem mint_length (k v : Rat) : scale k (MinTrack.length v) = .length (scale k v) := rfl
@[scale_simp] theorem mint_percent (k v : Rat) : scale k (MinTrack.percent v) = .percent v := rfl
@[scale_simp] theorem mint_auto (k : Rat) : scale k (MinTrack.auto : MinTrack Rat) = .auto := rfl
@[scale_simp] theorem mint_minContent (k : Rat) : scale k (MinTrack.minContent : MinTrack Rat) = .minContent := rfl
@[scale_simp] theorem mint_maxContent (k : Rat) : scale k (MinTrack.maxContent : MinTrack Rat) = .maxContent := rfl
@[scale_simp] theorem maxt_length (k v : Rat) : scale k (MaxTrack.length v) = .length (scale k v) := rfl
@[scale_simp] theorem maxt_percent (k v : Rat) : scale k (MaxTrack.percent v) = .percent v := rfl
@[scale_simp] theorem maxt_auto (k : Rat) : scale k (MaxTrack.auto : MaxTrack Rat) = .auto := rfl
@[scale_simp] theorem maxt_minContent (k : Rat) : scale k (MaxTrack.minContent : MaxTrack Rat) = .minContent := rfl
@[scale_simp] theorem maxt_maxContent (k : Rat) : scale k (MaxTrack.maxContent : MaxTrack Rat) = .maxContent := rfl
@[scale_simp] theorem maxt_fitContentPx (k v : Rat) : scale k (MaxTrack.fitContentPx v) = .fitContentPx (scale k v) := rfl
@[scale_simp] theorem maxt_fitContentPercent (k v : Rat) :
    scale k (MaxTrack.fitContentPercent v) = .fitContentPercent v := rfl
@[scale_simp] theorem maxt_fr (k v : Rat) : scale k (MaxTrack.fr v) = .fr v := rfl

@[scale_simp] theorem tfn_mk (k : Rat) (a : MinTrack Rat) (b : MaxTrack Rat) :
    scale k (TrackFn.mk a b) = ⟨scale k a, scale k b⟩ := rfl
@[scale_simp] theorem tfn_min (k : Rat) (f : TrackFn Rat) : (scale k f).min = scale k f.min := rfl
@[scale_simp] theorem tfn_max (k : Rat) (f : TrackFn Rat) : (scale k f).max = scale k f.max := rfl

@[scale_simp] theorem tdef_single (k : Rat) (f : TrackFn Rat) : scale k (TrackDef.single f) = .single (scale k f) := rfl
@[scale_simp] theorem tdef_rep (k : Rat) (r : Repetition) (fs : List (TrackFn Rat)) :
    scale k (TrackDef.rep r fs) = .rep r (scale k fs) := rfl

/-- scaling of a style INCLUDING its grid extension: since `Scalable (Style Rat)` scales `Style.grid`, this IS `scale`
(the name is kept as an abbreviation used by the grid lemma files) -/
@[reducible] def gscale (k : Rat) (s : Style Rat) : Style Rat := scale k s

theorem gscale_eq (k : Rat) (s : Style Rat) : gscale k s = scale k s := rfl

instance : Scalable (Ext Rat) :=
  ⟨fun k e => match e with
    | .fin x => .fin (scale k x)
    | .inf => .inf⟩
@[scale_simp] theorem ext_fin (k x : Rat) : scale k (Ext.fin x) = .fin (scale k x) := rfl
@[scale_simp] theorem ext_inf (k : Rat) : scale k (Ext.inf : Ext Rat) = .inf := rfl

instance : Scalable (GridTrack Rat) :=
  ⟨fun k x => ⟨x.kind, x.isCollapsed, scale k x.minFn, scale k x.maxFn, scale k x.offset, scale k x.baseSize, scale k x.growthLimit, scale k x.contentAlignmentAdjustment, scale k x.itemIncurredIncrease, scale k x.baseSizePlannedIncrease, scale k x.growthLimitPlannedIncrease, x.infinitelyGrowable⟩⟩

@[scale_simp] theorem gt_kind (k : Rat) (x : GridTrack Rat) : (scale k x).kind = x.kind := rfl
@[scale_simp] theorem gt_isCollapsed (k : Rat) (x : GridTrack Rat) : (scale k x).isCollapsed = x.isCollapsed := rfl
@[scale_simp] theorem gt_minFn (k : Rat) (x : GridTrack Rat) : (scale k x).minFn = scale k x.minFn := rfl
@[scale_simp] theorem gt_maxFn (k : Rat) (x : GridTrack Rat) : (scale k x).maxFn = scale k x.maxFn := rfl
@[scale_simp] theorem gt_offset (k : Rat) (x : GridTrack Rat) : (scale k x).offset = scale k x.offset := rfl
@[scale_simp] theorem gt_baseSize (k : Rat) (x : GridTrack Rat) : (scale k x).baseSize = scale k x.baseSize := rfl
@[scale_simp] theorem gt_growthLimit (k : Rat) (x : GridTrack Rat) : (scale k x).growthLimit = scale k x.growthLimit := rfl
@[scale_simp] theorem gt_contentAlignmentAdjustment (k : Rat) (x : GridTrack Rat) : (scale k x).contentAlignmentAdjustment = scale k x.contentAlignmentAdjustment := rfl
@[scale_simp] theorem gt_itemIncurredIncrease (k : Rat) (x : GridTrack Rat) : (scale k x).itemIncurredIncrease = scale k x.itemIncurredIncrease := rfl
@[scale_simp] theorem gt_baseSizePlannedIncrease (k : Rat) (x : GridTrack Rat) : (scale k x).baseSizePlannedIncrease = scale k x.baseSizePlannedIncrease := rfl
@[scale_simp] theorem gt_growthLimitPlannedIncrease (k : Rat) (x : GridTrack Rat) : (scale k x).growthLimitPlannedIncrease = scale k x.growthLimitPlannedIncrease := rfl
@[scale_simp] theorem gt_infinitelyGrowable (k : Rat) (x : GridTrack Rat) : (scale k x).infinitelyGrowable = x.infinitelyGrowable := rfl

instance : Scalable (GItem Rat) :=
  ⟨fun k x => ⟨x.node, x.sourceOrder, x.row, x.column, x.isCompressibleReplaced, x.overflow, x.boxSizing, scale k x.size, scale k x.minSize, scale k x.maxSize, x.aspectRatio, scale k x.padding, scale k x.border, scale k x.margin, x.alignSelf, x.justifySelf, scale k x.baseline, scale k x.baselineShim, x.rowIndexes, x.columnIndexes, x.crossesFlexibleRow, x.crossesFlexibleColumn, x.crossesIntrinsicRow, x.crossesIntrinsicColumn, scale k x.availableSpaceCache, scale k x.minContentContributionCache, scale k x.minimumContributionCache, scale k x.maxContentContributionCache, scale k x.yPosition, scale k x.height⟩⟩

@[scale_simp] theorem gi_node (k : Rat) (x : GItem Rat) : (scale k x).node = x.node := rfl
@[scale_simp] theorem gi_sourceOrder (k : Rat) (x : GItem Rat) : (scale k x).sourceOrder = x.sourceOrder := rfl
@[scale_simp] theorem gi_row (k : Rat) (x : GItem Rat) : (scale k x).row = x.row := rfl
@[scale_simp] theorem gi_column (k : Rat) (x : GItem Rat) : (scale k x).column = x.column := rfl
@[scale_simp] theorem gi_isCompressibleReplaced (k : Rat) (x : GItem Rat) : (scale k x).isCompressibleReplaced = x.isCompressibleReplaced := rfl
@[scale_simp] theorem gi_overflow (k : Rat) (x : GItem Rat) : (scale k x).overflow = x.overflow := rfl
@[scale_simp] theorem gi_boxSizing (k : Rat) (x : GItem Rat) : (scale k x).boxSizing = x.boxSizing := rfl
@[scale_simp] theorem gi_size (k : Rat) (x : GItem Rat) : (scale k x).size = scale k x.size := rfl
@[scale_simp] theorem gi_minSize (k : Rat) (x : GItem Rat) : (scale k x).minSize = scale k x.minSize := rfl
@[scale_simp] theorem gi_maxSize (k : Rat) (x : GItem Rat) : (scale k x).maxSize = scale k x.maxSize := rfl
@[scale_simp] theorem gi_aspectRatio (k : Rat) (x : GItem Rat) : (scale k x).aspectRatio = x.aspectRatio := rfl
@[scale_simp] theorem gi_padding (k : Rat) (x : GItem Rat) : (scale k x).padding = scale k x.padding := rfl
@[scale_simp] theorem gi_border (k : Rat) (x : GItem Rat) : (scale k x).border = scale k x.border := rfl
@[scale_simp] theorem gi_margin (k : Rat) (x : GItem Rat) : (scale k x).margin = scale k x.margin := rfl
@[scale_simp] theorem gi_alignSelf (k : Rat) (x : GItem Rat) : (scale k x).alignSelf = x.alignSelf := rfl
@[scale_simp] theorem gi_justifySelf (k : Rat) (x : GItem Rat) : (scale k x).justifySelf = x.justifySelf := rfl
@[scale_simp] theorem gi_baseline (k : Rat) (x : GItem Rat) : (scale k x).baseline = scale k x.baseline := rfl
@[scale_simp] theorem gi_baselineShim (k : Rat) (x : GItem Rat) : (scale k x).baselineShim = scale k x.baselineShim := rfl
@[scale_simp] theorem gi_rowIndexes (k : Rat) (x : GItem Rat) : (scale k x).rowIndexes = x.rowIndexes := rfl
@[scale_simp] theorem gi_columnIndexes (k : Rat) (x : GItem Rat) : (scale k x).columnIndexes = x.columnIndexes := rfl
@[scale_simp] theorem gi_crossesFlexibleRow (k : Rat) (x : GItem Rat) : (scale k x).crossesFlexibleRow = x.crossesFlexibleRow := rfl
@[scale_simp] theorem gi_crossesFlexibleColumn (k : Rat) (x : GItem Rat) : (scale k x).crossesFlexibleColumn = x.crossesFlexibleColumn := rfl
@[scale_simp] theorem gi_crossesIntrinsicRow (k : Rat) (x : GItem Rat) : (scale k x).crossesIntrinsicRow = x.crossesIntrinsicRow := rfl
@[scale_simp] theorem gi_crossesIntrinsicColumn (k : Rat) (x : GItem Rat) : (scale k x).crossesIntrinsicColumn = x.crossesIntrinsicColumn := rfl
@[scale_simp] theorem gi_availableSpaceCache (k : Rat) (x : GItem Rat) : (scale k x).availableSpaceCache = scale k x.availableSpaceCache := rfl
@[scale_simp] theorem gi_minContentContributionCache (k : Rat) (x : GItem Rat) : (scale k x).minContentContributionCache = scale k x.minContentContributionCache := rfl
@[scale_simp] theorem gi_minimumContributionCache (k : Rat) (x : GItem Rat) : (scale k x).minimumContributionCache = scale k x.minimumContributionCache := rfl
@[scale_simp] theorem gi_maxContentContributionCache (k : Rat) (x : GItem Rat) : (scale k x).maxContentContributionCache = scale k x.maxContentContributionCache := rfl
@[scale_simp] theorem gi_yPosition (k : Rat) (x : GItem Rat) : (scale k x).yPosition = scale k x.yPosition := rfl
@[scale_simp] theorem gi_height (k : Rat) (x : GItem Rat) : (scale k x).height = scale k x.height := rfl

instance : Scalable (Ctx Rat) :=
  ⟨fun k x => ⟨scale k x.padding, scale k x.border, scale k x.paddingBorderSize, scale k x.minSize, scale k x.maxSize, scale k x.preferredSize, scale k x.scrollbarGutter, scale k x.contentBoxInset, x.alignContent, x.justifyContent, x.alignItems, x.justifyItems, scale k x.availableGridSpace, scale k x.outerNodeSize, scale k x.innerNodeSize, scale k x.autoFitContainerSize⟩⟩

@[scale_simp] theorem cx_padding (k : Rat) (x : Ctx Rat) : (scale k x).padding = scale k x.padding := rfl
@[scale_simp] theorem cx_border (k : Rat) (x : Ctx Rat) : (scale k x).border = scale k x.border := rfl
@[scale_simp] theorem cx_paddingBorderSize (k : Rat) (x : Ctx Rat) : (scale k x).paddingBorderSize = scale k x.paddingBorderSize := rfl
@[scale_simp] theorem cx_minSize (k : Rat) (x : Ctx Rat) : (scale k x).minSize = scale k x.minSize := rfl
@[scale_simp] theorem cx_maxSize (k : Rat) (x : Ctx Rat) : (scale k x).maxSize = scale k x.maxSize := rfl
@[scale_simp] theorem cx_preferredSize (k : Rat) (x : Ctx Rat) : (scale k x).preferredSize = scale k x.preferredSize := rfl
@[scale_simp] theorem cx_scrollbarGutter (k : Rat) (x : Ctx Rat) : (scale k x).scrollbarGutter = scale k x.scrollbarGutter := rfl
@[scale_simp] theorem cx_contentBoxInset (k : Rat) (x : Ctx Rat) : (scale k x).contentBoxInset = scale k x.contentBoxInset := rfl
@[scale_simp] theorem cx_alignContent (k : Rat) (x : Ctx Rat) : (scale k x).alignContent = x.alignContent := rfl
@[scale_simp] theorem cx_justifyContent (k : Rat) (x : Ctx Rat) : (scale k x).justifyContent = x.justifyContent := rfl
@[scale_simp] theorem cx_alignItems (k : Rat) (x : Ctx Rat) : (scale k x).alignItems = x.alignItems := rfl
@[scale_simp] theorem cx_justifyItems (k : Rat) (x : Ctx Rat) : (scale k x).justifyItems = x.justifyItems := rfl
@[scale_simp] theorem cx_availableGridSpace (k : Rat) (x : Ctx Rat) : (scale k x).availableGridSpace = scale k x.availableGridSpace := rfl
@[scale_simp] theorem cx_outerNodeSize (k : Rat) (x : Ctx Rat) : (scale k x).outerNodeSize = scale k x.outerNodeSize := rfl
@[scale_simp] theorem cx_innerNodeSize (k : Rat) (x : Ctx Rat) : (scale k x).innerNodeSize = scale k x.innerNodeSize := rfl
@[scale_simp] theorem cx_autoFitContainerSize (k : Rat) (x : Ctx Rat) : (scale k x).autoFitContainerSize = scale k x.autoFitContainerSize := rfl

instance : Scalable (RunArgs Rat) :=
  ⟨fun k x => ⟨x.axis, scale k x.axisMinSize, scale k x.axisMaxSize, x.axisAlignment, x.otherAxisAlignment, scale k x.availableGridSpace, scale k x.innerNodeSize, x.est, x.hasBaselineAlignedItem⟩⟩

@[scale_simp] theorem ra_axis (k : Rat) (x : RunArgs Rat) : (scale k x).axis = x.axis := rfl
@[scale_simp] theorem ra_axisMinSize (k : Rat) (x : RunArgs Rat) : (scale k x).axisMinSize = scale k x.axisMinSize := rfl
@[scale_simp] theorem ra_axisMaxSize (k : Rat) (x : RunArgs Rat) : (scale k x).axisMaxSize = scale k x.axisMaxSize := rfl
@[scale_simp] theorem ra_axisAlignment (k : Rat) (x : RunArgs Rat) : (scale k x).axisAlignment = x.axisAlignment := rfl
@[scale_simp] theorem ra_otherAxisAlignment (k : Rat) (x : RunArgs Rat) : (scale k x).otherAxisAlignment = x.otherAxisAlignment := rfl
@[scale_simp] theorem ra_availableGridSpace (k : Rat) (x : RunArgs Rat) : (scale k x).availableGridSpace = scale k x.availableGridSpace := rfl
@[scale_simp] theorem ra_innerNodeSize (k : Rat) (x : RunArgs Rat) : (scale k x).innerNodeSize = scale k x.innerNodeSize := rfl
@[scale_simp] theorem ra_est (k : Rat) (x : RunArgs Rat) : (scale k x).est = x.est := rfl
@[scale_simp] theorem ra_hasBaselineAlignedItem (k : Rat) (x : RunArgs Rat) : (scale k x).hasBaselineAlignedItem = x.hasBaselineAlignedItem := rfl

instance : Scalable (RunState Rat) :=
  ⟨fun k x => ⟨scale k x.axisTracks, scale k x.otherAxisTracks, scale k x.items⟩⟩

@[scale_simp] theorem rs_axisTracks (k : Rat) (x : RunState Rat) : (scale k x).axisTracks = scale k x.axisTracks := rfl
@[scale_simp] theorem rs_otherAxisTracks (k : Rat) (x : RunState Rat) : (scale k x).otherAxisTracks = scale k x.otherAxisTracks := rfl
@[scale_simp] theorem rs_items (k : Rat) (x : RunState Rat) : (scale k x).items = scale k x.items := rfl

instance : Scalable (Setup Rat) :=
  ⟨fun k x => ⟨scale k x.items, scale k x.columns, scale k x.rows, x.colCounts, x.rowCounts⟩⟩

@[scale_simp] theorem su_items (k : Rat) (x : Setup Rat) : (scale k x).items = scale k x.items := rfl
@[scale_simp] theorem su_columns (k : Rat) (x : Setup Rat) : (scale k x).columns = scale k x.columns := rfl
@[scale_simp] theorem su_rows (k : Rat) (x : Setup Rat) : (scale k x).rows = scale k x.rows := rfl
@[scale_simp] theorem su_colCounts (k : Rat) (x : Setup Rat) : (scale k x).colCounts = x.colCounts := rfl
@[scale_simp] theorem su_rowCounts (k : Rat) (x : Setup Rat) : (scale k x).rowCounts = x.rowCounts := rfl

instance : Scalable (Sizer Rat) :=
  ⟨fun k x => ⟨scale k x.otherAxisTracks, x.est, x.axis, scale k x.innerNodeSize⟩⟩

@[scale_simp] theorem sz_otherAxisTracks (k : Rat) (x : Sizer Rat) : (scale k x).otherAxisTracks = scale k x.otherAxisTracks := rfl
@[scale_simp] theorem sz_est (k : Rat) (x : Sizer Rat) : (scale k x).est = x.est := rfl
@[scale_simp] theorem sz_axis (k : Rat) (x : Sizer Rat) : (scale k x).axis = x.axis := rfl
@[scale_simp] theorem sz_innerNodeSize (k : Rat) (x : Sizer Rat) : (scale k x).innerNodeSize = scale k x.innerNodeSize := rfl

instance : Scalable (GridStyle Rat) :=
  ⟨fun k g => ⟨gscale k g.base, scale k g.gridTemplateRows, scale k g.gridTemplateColumns, scale k g.gridAutoRows,
    scale k g.gridAutoColumns, g.gridAutoFlow⟩⟩
instance : Scalable (GridChildStyle Rat) := ⟨fun k g => ⟨gscale k g.base, g.gridRow, g.gridColumn⟩⟩

@[scale_simp] theorem gs_base (k : Rat) (g : GridStyle Rat) : (scale k g).base = gscale k g.base := rfl
@[scale_simp] theorem gs_rows (k : Rat) (g : GridStyle Rat) : (scale k g).gridTemplateRows = scale k g.gridTemplateRows := rfl
@[scale_simp] theorem gs_cols (k : Rat) (g : GridStyle Rat) :
    (scale k g).gridTemplateColumns = scale k g.gridTemplateColumns := rfl
@[scale_simp] theorem gs_autoRows (k : Rat) (g : GridStyle Rat) : (scale k g).gridAutoRows = scale k g.gridAutoRows := rfl
@[scale_simp] theorem gs_autoCols (k : Rat) (g : GridStyle Rat) :
    (scale k g).gridAutoColumns = scale k g.gridAutoColumns := rfl
@[scale_simp] theorem gs_flow (k : Rat) (g : GridStyle Rat) : (scale k g).gridAutoFlow = g.gridAutoFlow := rfl
@[scale_simp] theorem gcs_base (k : Rat) (g : GridChildStyle Rat) : (scale k g).base = gscale k g.base := rfl
@[scale_simp] theorem gcs_row (k : Rat) (g : GridChildStyle Rat) : (scale k g).gridRow = g.gridRow := rfl
@[scale_simp] theorem gcs_col (k : Rat) (g : GridChildStyle Rat) : (scale k g).gridColumn = g.gridColumn := rfl

theorem ofStyle_gscale (k : Rat) (s : Style Rat) : GridStyle.ofStyle (gscale k s) = scale k (GridStyle.ofStyle s) := rfl
theorem ofChildStyle_gscale (k : Rat) (s : Style Rat) :
    GridChildStyle.ofStyle (gscale k s) = scale k (GridChildStyle.ofStyle s) := rfl

/-! ### projections of `gscale` (as for `scale`, plus the grid extension) -/

@[scale_simp] theorem gstyle_display (k : Rat) (s : Style Rat) : (gscale k s).display = s.display := rfl
@[scale_simp] theorem gstyle_itemIsTable (k : Rat) (s : Style Rat) : (gscale k s).itemIsTable = s.itemIsTable := rfl
@[scale_simp] theorem gstyle_itemIsReplaced (k : Rat) (s : Style Rat) : (gscale k s).itemIsReplaced = s.itemIsReplaced := rfl
@[scale_simp] theorem gstyle_boxSizing (k : Rat) (s : Style Rat) : (gscale k s).boxSizing = s.boxSizing := rfl
@[scale_simp] theorem gstyle_overflow (k : Rat) (s : Style Rat) : (gscale k s).overflow = s.overflow := rfl
@[scale_simp] theorem gstyle_scrollbarWidth (k : Rat) (s : Style Rat) : (gscale k s).scrollbarWidth = scale k s.scrollbarWidth := rfl
@[scale_simp] theorem gstyle_position (k : Rat) (s : Style Rat) : (gscale k s).position = s.position := rfl
@[scale_simp] theorem gstyle_inset (k : Rat) (s : Style Rat) : (gscale k s).inset = scale k s.inset := rfl
@[scale_simp] theorem gstyle_size (k : Rat) (s : Style Rat) : (gscale k s).size = scale k s.size := rfl
@[scale_simp] theorem gstyle_minSize (k : Rat) (s : Style Rat) : (gscale k s).minSize = scale k s.minSize := rfl
@[scale_simp] theorem gstyle_maxSize (k : Rat) (s : Style Rat) : (gscale k s).maxSize = scale k s.maxSize := rfl
@[scale_simp] theorem gstyle_aspectRatio (k : Rat) (s : Style Rat) : (gscale k s).aspectRatio = s.aspectRatio := rfl
@[scale_simp] theorem gstyle_margin (k : Rat) (s : Style Rat) : (gscale k s).margin = scale k s.margin := rfl
@[scale_simp] theorem gstyle_padding (k : Rat) (s : Style Rat) : (gscale k s).padding = scale k s.padding := rfl
@[scale_simp] theorem gstyle_border (k : Rat) (s : Style Rat) : (gscale k s).border = scale k s.border := rfl
@[scale_simp] theorem gstyle_alignItems (k : Rat) (s : Style Rat) : (gscale k s).alignItems = s.alignItems := rfl
@[scale_simp] theorem gstyle_alignSelf (k : Rat) (s : Style Rat) : (gscale k s).alignSelf = s.alignSelf := rfl
@[scale_simp] theorem gstyle_justifyItems (k : Rat) (s : Style Rat) : (gscale k s).justifyItems = s.justifyItems := rfl
@[scale_simp] theorem gstyle_justifySelf (k : Rat) (s : Style Rat) : (gscale k s).justifySelf = s.justifySelf := rfl
@[scale_simp] theorem gstyle_alignContent (k : Rat) (s : Style Rat) : (gscale k s).alignContent = s.alignContent := rfl
@[scale_simp] theorem gstyle_justifyContent (k : Rat) (s : Style Rat) : (gscale k s).justifyContent = s.justifyContent := rfl
@[scale_simp] theorem gstyle_gap (k : Rat) (s : Style Rat) : (gscale k s).gap = scale k s.gap := rfl
@[scale_simp] theorem gstyle_flexBasis (k : Rat) (s : Style Rat) : (gscale k s).flexBasis = scale k s.flexBasis := rfl
@[scale_simp] theorem gstyle_isHidden (k : Rat) (s : Style Rat) : (gscale k s).isHidden = s.isHidden := rfl
@[scale_simp] theorem gstyle_grid (k : Rat) (s : Style Rat) : (gscale k s).grid = scale k s.grid := rfl

/-- `Except`: results scaled, panics unchanged -/
instance {β : Type} [Scalable β] : Scalable (Except String β) :=
  ⟨fun k r => match r with
    | .ok b => .ok (scale k b)
    | .error e => .error e⟩
@[scale_simp] theorem exc_ok {β : Type} [Scalable β] (k : Rat) (b : β) :
    scale k (Except.ok b : Except String β) = .ok (scale k b) := rfl
@[scale_simp] theorem exc_error {β : Type} [Scalable β] (k : Rat) (e : String) :
    scale k (Except.error e : Except String β) = .error e := rfl

end C04
