/-
  C04 for grid, part 18: `expand_flexible_tracks`, the whole `track_sizing_algorithm` and
  `compute_explicit_grid_size_in_axis` with their constants as parameters: JOINT homogeneity (lengths and constants).
-/
import TaffyVerif.Lemmas.GridScaleSz2
import TaffyVerif.Lemmas.GridScaleTop2
import TaffyVerif.Lemmas.GridScaleExpand

set_option linter.unusedSectionVars false
set_option linter.unusedVariables false
set_option linter.unusedSimpArgs false

namespace C04
open Scalable GridModel GridTracks GridStages GridTheta GridRel GridScale

variable {k : Rat}

/-- results `(items, fractions)` of `flexItemFractions` -/
theorem flexItemFractions_sim (hk : 0 < k) (axis : Ax) (ins : Size (Option Rat)) (tracks : List (GridTrack Rat)) :
    ∀ (items : List (GItem Rat)),
      GSim k (Sc k) (flexItemFractions axis (scale k ins) (scale k tracks) (scale k items))
        (flexItemFractions axis ins tracks items)
  | [] => GSim.pure rfl
  | it :: rest => by
    show GSim k _ (flexItemFractions axis (scale k ins) (scale k tracks) (scale k it :: scale k rest)) _
    unfold flexItemFractions
    rw [gi_crossesFlexibleTrack]
    refine GSim.ite ?_ ?_
    · have hs : (Size.none : Size (Option Rat)) = scale k Size.none := rfl
      rw [hs]
      refine GSim.bind (maxContentContributionCached_sim hk it axis Size.none ins) fun r' r hr => ?_
      rw [show r' = scale k r from hr]
      obtain ⟨mc, it2⟩ := r
      simp only [scale_pair, gi_spannedTracks, findSizeOfFr_scale hk]
      refine GSim.bind (flexItemFractions_sim hk axis ins tracks rest) fun q' q hq => ?_
      rw [show q' = scale k q from hq]
      exact GSim.pure rfl
    · refine GSim.bind (flexItemFractions_sim hk axis ins tracks rest) fun q' q hq => ?_
      rw [show q' = scale k q from hq]
      exact GSim.pure rfl

theorem maxByTotal_map_scale (hk : 0 < k) (l : List Rat) : (maxByTotal (scale k l)).getD 0 = scale k ((maxByTotal l).getD 0) := by
  rw [maxByTotal_scale hk, getD_scale_zero]

theorem efHypothetical_scale (hk : 0 < k) (tracks : List (GridTrack Rat)) (ff : Rat) :
    efHypothetical (scale k tracks) (scale k ff) = scale k (efHypothetical tracks ff) := by
  unfold efHypothetical
  refine gsumF_map_scale k tracks _ _ fun t => ?_
  obtain ⟨a0, a1, a2, a3, a4, a5, a6, a7, a8, a9, a10, a11⟩ := t
  cases a3 <;> simp only [scale_gt_mk, scale_simp, mul_scale', fmax_scale hk]

theorem efClamp_scale (hk : 0 < k) (tracks : List (GridTrack Rat)) (mn mx : Option Rat) (ff : Rat) :
    efClamp (scale k tracks) (scale k mn) (scale k mx) (scale k ff) = scale k (efClamp tracks mn mx ff) := by
  unfold efClamp
  dsimp only
  rw [efHypothetical_scale hk, getD_scale_zero, flt_scale hk, findSizeOfFr_scale hk]
  split
  · rfl
  · cases mx with
    | none => rfl
    | some m =>
      simp only [scale_some, flt_scale hk, findSizeOfFr_scale hk]
      split <;> rfl

theorem efApply_scale (hk : 0 < k) (tracks : List (GridTrack Rat)) (ff : Rat) :
    efApply (scale k tracks) (scale k ff) = scale k (efApply tracks ff) := by
  unfold efApply
  refine map_scale_list k tracks _ _ fun t => ?_
  obtain ⟨a0, a1, a2, a3, a4, a5, a6, a7, a8, a9, a10, a11⟩ := t
  cases a3 <;> simp only [scale_gt_mk, scale_simp, mul_scale', fmax_scale hk]

theorem efTrackMax_scale (hk : 0 < k) (tracks : List (GridTrack Rat)) :
    efTrackMax (scale k tracks) = scale k (efTrackMax tracks) := by
  unfold efTrackMax
  dsimp only
  rw [filter_scale_list k tracks (fun t : GridTrack Rat => t.maxFn.isFr) (fun t : GridTrack Rat => t.maxFn.isFr)
    (fun t => by rw [gt_maxFn, maxt_isFr]),
    map_scale_list k _ (fun t : GridTrack Rat =>
      if Num.flt 1 t.flexFactor = true then t.baseSize / t.flexFactor else t.baseSize)
      (fun t : GridTrack Rat => if Num.flt 1 t.flexFactor = true then t.baseSize / t.flexFactor else t.baseSize)
      (fun t => by
        rw [gt_flexFactor, gt_baseSize]
        split
        · rw [div_scale]
        · rfl), maxByTotal_map_scale hk]

theorem expandFlexibleTracksM_sim (hk : 0 < k) (axis : Ax) (tracks : List (GridTrack Rat)) (items : List (GItem Rat))
    (mn mx : Option Rat) (av : AvailableSpace Rat) (ins : Size (Option Rat)) :
    GSim k (Sc k)
      (expandFlexibleTracksM axis (scale k tracks) (scale k items) (scale k mn) (scale k mx) (scale k av) (scale k ins))
      (expandFlexibleTracksM axis tracks items mn mx av ins) := by
  rw [expandFlexibleTracksM_eq, expandFlexibleTracksM_eq]
  refine GSim.bind (Q := Sc k) ?_ fun r' r hr => ?_
  · cases av with
    | definite a =>
      refine GSim.pure ?_
      simp only [Sc, scale_pair]
      congr 1
      rw [map_scale_list k tracks (fun t : GridTrack Rat => t.baseSize) (fun t : GridTrack Rat => t.baseSize)
        (fun _ => rfl), gsumF_scale, sub_scale, fle_scale_zero hk, findSizeOfFr_scale hk]
      split
      · rw [scale_zero]
      · rfl
    | minContent =>
      refine GSim.pure ?_
      simp only [Sc, scale_pair, scale_zero]
    | maxContent =>
      refine GSim.bind (flexItemFractions_sim hk axis ins tracks items) fun q' q hq => ?_
      rw [show q' = scale k q from hq]
      refine GSim.pure ?_
      simp only [Sc, scale_pair, scale_fst, scale_snd, efTrackMax_scale hk, maxByTotal_map_scale hk, fmax_scale hk,
        efClamp_scale hk]
  · rw [show r' = scale k r from hr]
    refine GSim.pure ?_
    simp only [Sc, scale_pair, scale_fst, scale_snd, efApply_scale hk]

end C04
