/-
  Helper lemmas about Model/GridPlacement.lean, part 2: how `expand_to_fit_range` / `mark_area_as` change the track
  counts, and the resulting facts about recorded items (inside the reported tracks, style honoured, non-empty).
-/
import TaffyVerif.Lemmas.GridPlacementBasic

set_option linter.unusedSimpArgs false
set_option linter.unusedVariables false

namespace GridPlacement
open Outcome

theorem len_eq_ok {t : TrackCounts} {n : Int} :
    t.len = .ok n ↔ (n = t.negativeImplicit + t.explicit + t.positiveImplicit ∧
      0 ≤ t.negativeImplicit + t.explicit ∧ t.negativeImplicit + t.explicit ≤ 65535 ∧
      0 ≤ t.negativeImplicit + t.explicit + t.positiveImplicit ∧
      t.negativeImplicit + t.explicit + t.positiveImplicit ≤ 65535) := by
  simp only [TrackCounts.len, bind_eq, bind_eq_ok, u16_eq_ok]
  constructor
  · rintro ⟨a, ⟨rfl, h1, h2⟩, rfl, h3, h4⟩; omega
  · rintro ⟨rfl, h1, h2, h3, h4⟩; exact ⟨_, ⟨rfl, h1, h2⟩, rfl, h3, h4⟩

theorem ozLineToNextTrack_eq_ok {t : TrackCounts} {i r : Int} :
    t.ozLineToNextTrack i = .ok r ↔ (r = i + t.negativeImplicit ∧ -32768 ≤ t.negativeImplicit ∧
      t.negativeImplicit ≤ 32767 ∧ -32768 ≤ i + t.negativeImplicit ∧ i + t.negativeImplicit ≤ 32767) := by
  simp only [TrackCounts.ozLineToNextTrack, bind_eq, bind_eq_ok, i16_eq_ok]
  constructor
  · rintro ⟨a, ⟨rfl, h1, h2⟩, rfl, h3, h4⟩; omega
  · rintro ⟨rfl, h1, h2, h3, h4⟩; exact ⟨_, ⟨rfl, h1, h2⟩, rfl, h3, h4⟩

theorem ozRange_eq_ok {t : TrackCounts} {a r : Line Int} (h : t.ozLineRangeToTrackRange a = .ok r) :
    r.start = a.start + t.negativeImplicit ∧ r.«end» = a.«end» + t.negativeImplicit := by
  simp only [TrackCounts.ozLineRangeToTrackRange, bind_eq, bind_eq_ok, pure_eq, ozLineToNextTrack_eq_ok] at h
  obtain ⟨s, ⟨rfl, _⟩, e, ⟨rfl, _⟩, h⟩ := h
  cases h
  exact ⟨rfl, rfl⟩

/-- the second track-count record is the first one with possibly more positive implicit tracks -/
structure Grows (t t' : TrackCounts) : Prop where
  neg : t'.negativeImplicit = t.negativeImplicit
  exp : t'.explicit = t.explicit
  pos : t.positiveImplicit ≤ t'.positiveImplicit

theorem Grows.refl (t : TrackCounts) : Grows t t := ⟨rfl, rfl, Int.le_refl _⟩
theorem Grows.trans {a b c : TrackCounts} (h1 : Grows a b) (h2 : Grows b c) : Grows a c :=
  ⟨h2.neg.trans h1.neg, h2.exp.trans h1.exp, Int.le_trans h1.pos h2.pos⟩

/-- the line range lies inside the tracks counted by `t` -/
def InRangeAx (t : TrackCounts) (a : Line Int) : Prop :=
  -t.negativeImplicit ≤ a.start ∧ a.«end» ≤ t.explicit + t.positiveImplicit

theorem InRangeAx.mono {t t' : TrackCounts} {a : Line Int} (g : Grows t t') (h : InRangeAx t a) : InRangeAx t' a := by
  obtain ⟨h1, h2⟩ := h
  constructor
  · rw [g.neg]; exact h1
  · rw [g.exp]; have := g.pos; omega

/-- everything `expand_to_fit_range` does, when it returns normally: no negative growth was requested -/
theorem expand_spec {m m' : Matrix} {rr cr : Line Int} (h : m.expandToFitRange rr cr = .ok m') :
    ∃ (rl cl : Int) (body : List Cell), m.rows.len = .ok rl ∧ m.columns.len = .ok cl ∧
      0 ≤ rr.start ∧ 0 ≤ cr.start ∧
      Matrix.copyRows m.inner cl.toNat 0 (max (cr.«end» - cl) 0) (List.range rl.toNat) = .ok body ∧
      Grid.fromVec (body ++
        List.replicate (max (rr.«end» - rl) 0 * (cl + max (cr.«end» - cl) 0)).toNat Cell.unoccupied)
        (cl + max (cr.«end» - cl) 0).toNat = .ok m'.inner ∧
      m'.rows = ⟨m.rows.negativeImplicit, m.rows.explicit, m.rows.positiveImplicit + max (rr.«end» - rl) 0⟩ ∧
      m'.columns = ⟨m.columns.negativeImplicit, m.columns.explicit,
        m.columns.positiveImplicit + max (cr.«end» - cl) 0⟩ := by
  simp only [Matrix.expandToFitRange, bind_eq, bind_eq_ok, pure_eq, i16_eq_ok, u16_eq_ok, usize_eq_ok] at h
  obtain ⟨rl, hrl, rl16, ⟨q1, _, _⟩, dr, ⟨q2, _, _⟩, cl, hcl, cl16, ⟨q3, _, _⟩, dc, ⟨q4, _, _⟩,
    sr, ⟨q5, _, _⟩, sru, ⟨q6, _, _⟩, newRows, ⟨q7, _, _⟩, sc, ⟨q8, _, _⟩, scu, ⟨q9, _, _⟩,
    newCols, ⟨q10, _, _⟩, cap, _, nru, ⟨q12, hnr, _⟩, nneg, ⟨q13, _, _⟩, body, hbody,
    pru, ⟨q14, _, _⟩, npos, ⟨q15, _, _⟩, inner, hinner, rneg, ⟨q16, _, _⟩, rneg', ⟨q17, _, _⟩,
    rpos, ⟨q18, _, _⟩, rpos', ⟨q19, _, _⟩, cneg, ⟨q20, hnc, _⟩, cneg', ⟨q21, _, _⟩,
    cpos, ⟨q22, _, _⟩, cpos', ⟨q23, _, _⟩, h⟩ := h
  have e1 : min rr.start 0 = 0 := by omega
  have e2 : min cr.start 0 = 0 := by omega
  have f1 : rl16 = rl := q1
  have f2 : cl16 = cl := q3
  have f3 : newCols = cl + max (cr.«end» - cl) 0 := by rw [q10, q9, q8, q4, f2, e2]; omega
  have f4 : nneg = 0 := by rw [q13, q12, e1]; simp
  have f5 : npos = max (rr.«end» - rl) 0 * (cl + max (cr.«end» - cl) 0) := by rw [q15, q14, q2, f1, f3]
  have f6 : dc = cr.«end» - cl := by rw [q4, f2]
  have f7 : rpos' = m.rows.positiveImplicit + max (rr.«end» - rl) 0 := by rw [q19, q18, q2, f1]
  have f8 : cpos' = m.columns.positiveImplicit + max (cr.«end» - cl) 0 := by rw [q23, q22, q4, f2]
  have f9 : rneg' = m.rows.negativeImplicit := by rw [q17, q16, e1]; omega
  have f10 : cneg' = m.columns.negativeImplicit := by rw [q21, q20, e2]; omega
  simp only [Outcome.ok.injEq] at h
  rw [← h]
  refine ⟨rl, cl, body, hrl, hcl, by omega, by omega, ?_, ?_, ?_, ?_⟩
  · rw [e2, f6] at hbody; exact hbody
  · rw [f4, f5, f3] at hinner; simpa using hinner
  · rw [f7, f9]
  · rw [f8, f10]

theorem isAreaInRange_true {m : Matrix} {ax : Axis} {pr sr : Line Int} (h : m.isAreaInRange ax pr sr = .ok true) :
    ∃ pl sl, (m.trackCounts ax).len = .ok pl ∧ (m.trackCounts ax.other).len = .ok sl ∧
      0 ≤ pr.start ∧ pr.«end» ≤ pl ∧ 0 ≤ sr.start ∧ sr.«end» ≤ sl := by
  unfold Matrix.isAreaInRange at h
  split at h
  · cases h
  · rename_i h0
    simp only [bind_eq, bind_eq_ok, pure_eq, i16_eq_ok] at h
    obtain ⟨pl, hpl, pl16, ⟨q1, _, _⟩, h⟩ := h
    split at h
    · cases h
    · rename_i h1
      split at h
      · cases h
      · rename_i h2
        simp only [bind_eq, bind_eq_ok, pure_eq, i16_eq_ok] at h
        obtain ⟨sl, hsl, sl16, ⟨q2, _, _⟩, h⟩ := h
        split at h
        · cases h
        · rename_i h3
          exact ⟨pl, sl, hpl, hsl, by omega, by omega, by omega, by omega⟩

/-- `mark_area_as`, up to the marking itself: the matrix the cells are written into, and the ranges used -/
theorem markAreaAs_spec {m m' : Matrix} {ax : Axis} {p s : Line Int} {v : Cell}
    (h : m.markAreaAs ax p s v = .ok m') :
    ∃ (m1 : Matrix) (cr rr : Line Int),
      m1.columns.ozLineRangeToTrackRange (colOf ax p s) = .ok cr ∧
      m1.rows.ozLineRangeToTrackRange (rowOf ax p s) = .ok rr ∧
      ((m1 = m ∧ m.isAreaInRange .horizontal cr rr = .ok true) ∨
       (∃ cr0 rr0, m.columns.ozLineRangeToTrackRange (colOf ax p s) = .ok cr0 ∧
          m.rows.ozLineRangeToTrackRange (rowOf ax p s) = .ok rr0 ∧
          m.isAreaInRange .horizontal cr0 rr0 = .ok false ∧
          m.expandToFitRange rr0 cr0 = .ok m1)) ∧
      Matrix.markRows m1.inner (rangeI cr.start cr.«end») v (rangeI rr.start rr.«end») = .ok m'.inner ∧
      m'.columns = m1.columns ∧ m'.rows = m1.rows := by
  simp only [Matrix.markAreaAs, bind_eq, bind_eq_ok, pure_eq] at h
  obtain ⟨cr0, hcr0, rr0, hrr0, inRange, hin, ⟨m1, cr, rr⟩, h3, inner, h4, h5⟩ := h
  simp only [Outcome.ok.injEq] at h5
  rw [← h5]
  cases inRange
  · simp only [Bool.not_false, ↓reduceIte, bind_eq, bind_eq_ok, pure_eq] at h3
    obtain ⟨m1', he, cr', hcr', rr', hrr', h3⟩ := h3
    simp only [Outcome.ok.injEq, Prod.mk.injEq] at h3
    obtain ⟨q1, q2, q3⟩ := h3
    subst q1 q2 q3
    exact ⟨m1', cr', rr', hcr', hrr', .inr ⟨cr0, rr0, hcr0, hrr0, hin, he⟩, h4, rfl, rfl⟩
  · simp only [Bool.not_true, Bool.false_eq_true, ↓reduceIte, pure_eq, Outcome.ok.injEq, Prod.mk.injEq] at h3
    obtain ⟨q1, q2, q3⟩ := h3
    subst q1 q2 q3
    exact ⟨m, cr0, rr0, hcr0, hrr0, .inl ⟨rfl, hin⟩, h4, rfl, rfl⟩

/-- track counts only ever grow at the positive end, and the marked area lies inside the new counts -/
theorem markAreaAs_counts {m m' : Matrix} {ax : Axis} {p s : Line Int} {v : Cell}
    (h : m.markAreaAs ax p s v = .ok m') :
    Grows m.columns m'.columns ∧ Grows m.rows m'.rows ∧
    InRangeAx m'.columns (colOf ax p s) ∧ InRangeAx m'.rows (rowOf ax p s) := by
  obtain ⟨m1, cr, rr, hcr, hrr, hcase, _, hc, hr⟩ := markAreaAs_spec h
  rw [hc, hr]
  rcases hcase with ⟨rfl, hin⟩ | ⟨cr0, rr0, hcr0, hrr0, _, he⟩
  · obtain ⟨pl, sl, hpl, hsl, a1, a2, a3, a4⟩ := isAreaInRange_true hin
    obtain ⟨c1, c2⟩ := ozRange_eq_ok hcr
    obtain ⟨r1, r2⟩ := ozRange_eq_ok hrr
    simp only [Matrix.trackCounts, Axis.other, len_eq_ok] at hpl hsl
    refine ⟨Grows.refl _, Grows.refl _, ⟨by omega, by omega⟩, ⟨by omega, by omega⟩⟩
  · obtain ⟨rl, cl, body, hrl, hcl, z1, z2, _, _, er, ec⟩ := expand_spec he
    obtain ⟨c1, c2⟩ := ozRange_eq_ok hcr0
    obtain ⟨r1, r2⟩ := ozRange_eq_ok hrr0
    simp only [len_eq_ok] at hrl hcl
    rw [er, ec]
    refine ⟨⟨rfl, rfl, by dsimp only; omega⟩, ⟨rfl, rfl, by dsimp only; omega⟩, ?_, ?_⟩
    · constructor <;> dsimp only <;> omega
    · constructor <;> dsimp only <;> omega

/-! ### invariant B: every recorded item honours its style, is non-empty and inside the current tracks -/

/-- the item is what its child's style asks for (both axes), and belongs to a child of the list -/
def ItemHonoured (ec er : Int) (children : List (Nat × Child)) (it : Item) : Prop :=
  ∃ ch oc, FromChild ec er children oc ch ∧ oc.index = it.index ∧
    AxisOK oc.horizontal it.column ∧ AxisOK oc.vertical it.row

structure InvB (ec er : Int) (children : List (Nat × Child)) (m0 : Matrix) (st : State) : Prop where
  growsC : Grows m0.columns st.matrix.columns
  growsR : Grows m0.rows st.matrix.rows
  honoured : ∀ it ∈ st.items, ItemHonoured ec er children it
  inRange : ∀ it ∈ st.items, InRangeAx st.matrix.columns it.column ∧ InRangeAx st.matrix.rows it.row

theorem axisOK_colOf {c : OzChild} {ax : Axis} {p s : Line Int} (hp : AxisOK (c.get ax) p)
    (hs : AxisOK (c.get ax.other) s) : AxisOK c.horizontal (colOf ax p s) ∧ AxisOK c.vertical (rowOf ax p s) := by
  cases ax
  · exact ⟨hp, hs⟩
  · exact ⟨hs, hp⟩

theorem invB_final {fuel : Nat} {m : Matrix} {children : List (Nat × Child)} {flow : AutoFlow} {final : State}
    (h : placeGridItems fuel m children flow = .ok final) :
    InvB m.columns.explicit m.rows.explicit children m final := by
  refine place_induction (InvB m.columns.explicit m.rows.explicit children m) h
    ⟨Grows.refl _, Grows.refl _, (fun _ h => nomatch h), (fun _ h => nomatch h)⟩ ?_
  intro st st' c ch p s kind inv hfc hpl _ _ _ hrec
  obtain ⟨hit, hmark⟩ := recordGridPlacement_spec hrec
  obtain ⟨hgc, hgr, hic, hir⟩ := markAreaAs_counts hmark
  refine ⟨inv.growsC.trans hgc, inv.growsR.trans hgr, ?_, ?_⟩
  · intro it' hit'
    rw [hit] at hit'
    rcases List.mem_cons.1 hit' with rfl | hit'
    · obtain ⟨h1, h2⟩ := axisOK_colOf hpl.primary hpl.secondary
      exact ⟨ch, c, hfc, rfl, h1, h2⟩
    · exact inv.honoured it' hit'
  · intro it' hit'
    rw [hit] at hit'
    rcases List.mem_cons.1 hit' with rfl | hit'
    · exact ⟨hic, hir⟩
    · obtain ⟨h1, h2⟩ := inv.inRange it' hit'
      exact ⟨h1.mono hgc, h2.mono hgr⟩

end GridPlacement
