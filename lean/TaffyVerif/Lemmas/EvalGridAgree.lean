/-
  `computeGridLayout_agree`: for child-style lists that agree except where both styles are `display:none`, the two grid
  programs are EQUAL (C05, `HiddenBlind`).
-/
import TaffyVerif.Lemmas.EvalGridHidden

set_option linter.unusedSectionVars false
set_option linter.unusedVariables false

namespace EvalGrid
open GridModel GridTracks EvalBlock
variable {α : Type} [Num α]

/-- the child-style lists agree except where both children are `display:none` -/
def AgreeG : List (GridChildStyle α) → List (GridChildStyle α) → Prop
  | [], [] => True
  | x :: xs, y :: ys => (x = y ∨ (x.base.isHidden = true ∧ y.base.isHidden = true)) ∧ AgreeG xs ys
  | _, _ => False

theorem AgreeG_getElem : ∀ (xs ys : List (GridChildStyle α)), AgreeG xs ys → ∀ i : Nat,
    (xs[i]? = none ∧ ys[i]? = none) ∨
    ∃ x y : GridChildStyle α, xs[i]? = some x ∧ ys[i]? = some y ∧
      (x = y ∨ (x.base.isHidden = true ∧ y.base.isHidden = true))
  | [], [], _, i => Or.inl ⟨rfl, rfl⟩
  | [], _ :: _, h, _ => by simp only [AgreeG] at h
  | _ :: _, [], h, _ => by simp only [AgreeG] at h
  | x :: xs, y :: ys, h, 0 => Or.inr ⟨x, y, rfl, rfl, h.1⟩
  | x :: xs, y :: ys, h, Nat.succ i => by
    simpa only [List.getElem?_cons_succ] using AgreeG_getElem xs ys h.2 i

/-- a child that generates a box has the same style in both lists -/
theorem agree_vis {xs ys : List (GridChildStyle α)} (h : AgreeG xs ys) (i : Nat)
    (hv : ∀ cs, xs[i]? = some cs → cs.base.isHidden = false) : xs[i]? = ys[i]? := by
  rcases AgreeG_getElem xs ys h i with ⟨h1, h2⟩ | ⟨x, y, h1, h2, hxy⟩
  · rw [h1, h2]
  · rcases hxy with rfl | ⟨hx, _⟩
    · rw [h1, h2]
    · rw [hv x h1] at hx; cases hx

theorem boxChildrenOf_agree : ∀ (xs ys : List (GridChildStyle α)), AgreeG xs ys →
    boxChildrenOf xs = boxChildrenOf ys
  | [], [], _ => rfl
  | [], _ :: _, h => by simp only [AgreeG] at h
  | _ :: _, [], h => by simp only [AgreeG] at h
  | x :: xs, y :: ys, h => by
    have ih := boxChildrenOf_agree xs ys h.2
    rw [boxChildrenOf_cons, boxChildrenOf_cons]
    rcases h.1 with rfl | ⟨hx, hy⟩
    · rw [ih]
    · simp only [hx, hy, Bool.not_true, Bool.false_and, Bool.false_eq_true, if_false]
      exact ih

theorem inFlowFrom_agree : ∀ (xs ys : List (GridChildStyle α)) (n : Nat), AgreeG xs ys →
    ((GridPlacement.enumFrom n xs).filter fun ic => !ic.2.base.isHidden && ic.2.base.position != .absolute).map
        (fun ic => (ic.1, (⟨ic.2.gridRow, ic.2.gridColumn⟩ : GridPlacement.Child))) =
      ((GridPlacement.enumFrom n ys).filter fun ic => !ic.2.base.isHidden && ic.2.base.position != .absolute).map
        (fun ic => (ic.1, (⟨ic.2.gridRow, ic.2.gridColumn⟩ : GridPlacement.Child)))
  | [], [], _, _ => rfl
  | [], _ :: _, _, h => by simp only [AgreeG] at h
  | _ :: _, [], _, h => by simp only [AgreeG] at h
  | x :: xs, y :: ys, n, h => by
    have ih := inFlowFrom_agree xs ys (n + 1) h.2
    rcases h.1 with rfl | ⟨hx, hy⟩
    · simp only [GridPlacement.enumFrom, List.filter_cons]
      split
      · simp only [List.map_cons, ih]
      · exact ih
    · simp only [GridPlacement.enumFrom, List.filter_cons, hx, hy, Bool.not_true, Bool.false_and,
        Bool.false_eq_true, if_false]
      exact ih

theorem inFlowOf_agree (xs ys : List (GridChildStyle α)) (h : AgreeG xs ys) : inFlowOf xs = inFlowOf ys :=
  inFlowFrom_agree xs ys 0 h

section agree
variable [NumCast α]

theorem hiddenAbsLoop_agree (c : Ctx α) (bb : Size α) (rows columns : List (GridTrack α))
    (cc rc : GridPlacement.TrackCounts) : ∀ (xs ys : List (GridChildStyle α)) (index order : Nat) (acc : Size α),
    AgreeG xs ys → hiddenAbsLoop c bb rows columns cc rc xs index order acc =
      hiddenAbsLoop c bb rows columns cc rc ys index order acc
  | [], [], _, _, _, _ => rfl
  | [], _ :: _, _, _, _, h => by simp only [AgreeG] at h
  | _ :: _, [], _, _, _, h => by simp only [AgreeG] at h
  | x :: xs, y :: ys, index, order, acc, h => by
    have ih := fun o a => hiddenAbsLoop_agree c bb rows columns cc rc xs ys (index + 1) o a h.2
    rcases h.1 with rfl | ⟨hx, hy⟩
    · unfold hiddenAbsLoop
      simp only [ih]
    · unfold hiddenAbsLoop
      simp only [hx, hy, if_true, ih]

theorem positionItems_agree (xs ys : List (GridChildStyle α)) (h : AgreeG xs ys) (rows columns : List (GridTrack α))
    (ji ai : Option AlignItems) : ∀ (items : List (GItem α)) (index : Nat) (acc : Size α), NodesVis xs items →
    positionItems xs rows columns ji ai items index acc = positionItems ys rows columns ji ai items index acc
  | [], _, _, _ => rfl
  | it :: rest, index, acc, hv => by
    have ih := fun i a => positionItems_agree xs ys h rows columns ji ai rest i a
      fun it' h' => hv it' (List.mem_cons_of_mem _ h')
    unfold positionItems
    simp only [agree_vis h it.node (hv it List.mem_cons_self), ih]

theorem gridTail_agree (c : Ctx α) (xs ys : List (GridChildStyle α)) (h : AgreeG xs ys) (bb cb : Size α)
    (cc rc : GridPlacement.TrackCounts) (columns rows : List (GridTrack α)) (items : List (GItem α))
    (hv : NodesVis xs items) :
    gridTail c xs bb cb cc rc columns rows items = gridTail c ys bb cb cc rc columns rows items := by
  unfold gridTail
  simp only []
  rw [positionItems_agree xs ys h _ _ _ _ _ 0 Size.zero fun it hit =>
    hv it ((List.mergeSort_perm _ _).mem_iff.1 hit)]
  simp only [hiddenAbsLoop_agree c bb _ _ cc rc xs ys 0 _ _ h]

theorem gridStep7_agree (c : Ctx α) (xs ys : List (GridChildStyle α)) (h : AgreeG xs ys)
    (availableSpace : Size (AvailableSpace α)) (colArgs rowArgs : RunArgs α) (inner : Size (Option α)) (bb cb : Size α)
    (cc rc : GridPlacement.TrackCounts) (columns rows : List (GridTrack α)) (items : List (GItem α))
    (hcol : colArgs.axis = .inl) (hrow : rowArgs.axis = .blk) (hrb : rowArgs.hasBaselineAlignedItem = false)
    (hv : NodesVis xs items) :
    gridStep7 c xs availableSpace colArgs rowArgs inner bb cb cc rc columns rows items =
      gridStep7 c ys availableSpace colArgs rowArgs inner bb cb cc rc columns rows items := by
  unfold gridStep7
  simp only []
  refine gbind_congr _ _ _ _ (Op_GPost _ _ _ _ _ _ (LOp_step7Prep .inl _ _ inner items)) fun ⟨rerun, items3⟩ hu => ?_
  simp only [] at hu ⊢
  have hm := GMeas_step7Mid availableSpace colArgs rowArgs inner
    (if (!c.availableGridSpace.width.isDefinite) = true then reresolvePercentTracks cb.width columns else columns)
    (if (!c.availableGridSpace.height.isDefinite) = true then reresolvePercentTracks cb.height rows else rows)
    rerun items3 hcol hrow hrb 0 _ (Nat.le_refl _)
  refine gbind_congr _ _ _ _ (GMeas_GPost _ _ _ hm) fun ⟨columns', rows', items'⟩ ⟨_, hfp, _⟩ => ?_
  exact gridTail_agree c xs ys h bb cb cc rc columns' rows' items' (hv.fp (hu.fp.trans hfp))

theorem gridMain_agree (style : GridStyle α) (xs ys : List (GridChildStyle α)) (h : AgreeG xs ys)
    (inputs : LayoutInput α) (su : Setup α) (hv : NodesVis xs su.items) :
    gridMain style xs inputs su = gridMain style ys inputs su := by
  unfold gridMain
  simp only []
  refine gbind_congr _ _ _ _ (Op_GPost _ _ _ _ _ _ (POp_tsa_ax _ _ .inl rfl)) fun st hu1 => ?_
  simp only [] at hu1 ⊢
  obtain ⟨hu1', _⟩ := UpdL.of_map .inl (fun it : GItem α => { it with availableSpaceCache := none })
    same_clearAvail st.items
  refine gbind_congr _ _ _ _ (Op_GPost _ _ _ _ _ _ (POp_tsa_ax _ _ .blk rfl)) fun st2 hu2 => ?_
  simp only [] at hu2 ⊢
  split
  · rfl
  · exact gridStep7_agree _ xs ys h _ _ _ _ _ _ _ _ _ _ _ rfl rfl rfl
      (hv.fp (hu1.fp.trans (hu1'.fp.trans hu2.fp)))

theorem itemsOf_agree (c : Ctx α) (xs ys : List (GridChildStyle α)) (h : AgreeG xs ys) (placed : GridPlacement.State)
    (hp : (placed.items.map (·.index)).Perm ((inFlowOf xs).map (·.1))) : itemsOf c xs placed = itemsOf c ys placed := by
  unfold itemsOf
  apply List.map_congr_left
  intro p hpm
  have hm : p.index ∈ (inFlowOf xs).map (·.1) :=
    hp.mem_iff.1 (List.mem_map_of_mem (List.mem_reverse.1 hpm))
  obtain ⟨cs', h1, h2⟩ := (mem_inFlowOf xs p.index).1 hm
  have : xs[p.index]? = ys[p.index]? := agree_vis h p.index fun cs hcs => by
    rw [h1] at hcs; cases hcs
    simp only [isFlow, Bool.and_eq_true, Bool.not_eq_true'] at h2
    exact h2.1
  rw [this]

/-- **`compute_grid_layout` reads nothing of a `display:none` child's style but `display`** -/
theorem computeGridLayoutE_agree (style : GridStyle α) (xs ys : List (GridChildStyle α)) (inputs : LayoutInput α)
    (h : AgreeG xs ys) : computeGridLayoutE style xs inputs = computeGridLayoutE style ys inputs := by
  rcases computeGridLayoutE_cases style inputs with ⟨_, o, e⟩ | e
  · rw [e, e]
  · rw [e, e]
    unfold gridSetupK
    rw [← boxChildrenOf_agree xs ys h, ← inFlowOf_agree xs ys h]
    rcases gridSetupA_cases style (boxChildrenOf xs) (inFlowOf xs) inputs with
      ⟨e, he⟩ | ⟨placed, hperm, hk⟩
    · rw [he, he]
    · rw [hk, hk, ← itemsOf_agree _ xs ys h placed hperm]
      rcases gridSetupB_cases style (itemsOf (mkCtx style.base inputs) xs placed) placed with
        ⟨e, he⟩ | ⟨su, hn, _, _, hk2⟩
      · rw [he, he]
      · rw [hk2, hk2]
        refine gridMain_agree style xs ys h inputs su (nodesVis_of_perm xs su.items ?_)
        rw [hn, itemsOf_nodes, List.map_reverse]
        exact (List.reverse_perm _).trans hperm

theorem computeGridLayout_agree (style : GridStyle α) (xs ys : List (GridChildStyle α)) (inputs : LayoutInput α)
    (h : AgreeG xs ys) : computeGridLayout style xs inputs = computeGridLayout style ys inputs := by
  unfold computeGridLayout
  rw [computeGridLayoutE_agree style xs ys inputs h]

end agree

end EvalGrid
