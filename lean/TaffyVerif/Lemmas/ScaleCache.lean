/-
  C04 — the one modelled function that compares a length with a literal constant: `AvailableSpace::is_roughly_equal`
  (src/tree/cache.rs via Model/Cache.lean) compares `|a − b|` with `f32::EPSILON`.  It commutes with scaling only
  under a side condition; the negation is proved on a concrete witness.  (This is why the tree-level theorem is stated
  for the cache-free evaluator.)
-/
import TaffyVerif.Lemmas.ScaleMath
import TaffyVerif.Model.Cache
import Mathlib.Tactic.NormNum

set_option linter.unusedSectionVars false
set_option linter.unusedVariables false
set_option linter.unusedSimpArgs false

namespace C04
open Scalable CacheModel

theorem eps_def : (Num.eps : Rat) = 1 / 8388608 := rfl

theorem abs_nonneg' (a : Rat) : 0 ≤ Num.abs a := by
  simp only [abs_def]
  split <;> linarith

/-- `is_roughly_equal` commutes with scaling when the two values are equal, or differ by at least ε and are scaled
up, or differ by less than ε and are scaled down -/
theorem isRoughlyEqual_scale {k : Rat} (hk : 0 < k) (x y : Rat)
    (hside : x = y ∨ ((Num.eps : Rat) ≤ Num.abs (x - y) ∧ 1 ≤ k) ∨ (Num.abs (x - y) < (Num.eps : Rat) ∧ k ≤ 1)) :
    isRoughlyEqual (scale k (AvailableSpace.definite x)) (scale k (AvailableSpace.definite y)) =
      isRoughlyEqual (AvailableSpace.definite x) (AvailableSpace.definite y) := by
  simp only [scale_definite, isRoughlyEqual, sub_scale, abs_scale hk, flt_def]
  have h0 := abs_nonneg' (x - y)
  have he : (0 : Rat) < Num.eps := by rw [eps_def]; norm_num
  rcases hside with h | ⟨h1, h2⟩ | ⟨h1, h2⟩
  · subst h
    have hz : Num.abs (x - x) = (0 : Rat) := by simp [abs_def]
    simp only [hz, scale_zero]
  · have : (Num.eps : Rat) ≤ scale k (Num.abs (x - y)) := by
      rw [scale_rat]; nlinarith
    simp only [decide_eq_decide]
    constructor
    · intro h; linarith
    · intro h; linarith
  · have : scale k (Num.abs (x - y)) < (Num.eps : Rat) := by
      rw [scale_rat]; nlinarith
    simp only [decide_eq_decide]
    constructor
    · intro _; exact h1
    · intro _; exact this

/-- without the side condition it fails: `0` and `2⁻²⁴` are roughly equal, `4·0` and `4·2⁻²⁴ = 2⁻²²` are not -/
theorem isRoughlyEqual_not_homogeneous :
    isRoughlyEqual (scale 4 (AvailableSpace.definite (0 : Rat))) (scale 4 (AvailableSpace.definite (1 / 16777216 : Rat))) ≠
      isRoughlyEqual (AvailableSpace.definite (0 : Rat)) (AvailableSpace.definite (1 / 16777216 : Rat)) := by
  simp only [scale_definite, isRoughlyEqual, flt_def, abs_def, scale_rat, eps_def]
  norm_num

end C04
