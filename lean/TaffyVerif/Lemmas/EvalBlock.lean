/-
  The block algorithm (`BlockModel.computeBlockLayout`, Model/Block.lean) as an interaction program: its shape, phase by
  phase, and the program predicates of the evaluator-level theorems discharged for it:
    `C05.PHZ`, program equality under `C05.AgreeH`, `C16.callsLe`, and the flag tracking behind `EvalMemo.Covers`.
  (`C06.AbsEquiv` is in Lemmas/EvalBlockAbs.lean.)  The property-level statements are in Props/EvalBlock.lean.
-/
import TaffyVerif.Model.EvalConcrete
import TaffyVerif.Lemmas.EvalHidden
import TaffyVerif.Lemmas.EvalQuiet
import TaffyVerif.Lemmas.EvalCost

set_option linter.unusedSectionVars false

namespace EvalBlock
open BlockModel
variable {α : Type} [Num α]

/-! ### small facts about the enums -/

theorem pos_beq (p : Position) : (p == Position.absolute) = decide (p = .absolute) := by cases p <;> rfl
theorem pos_bne (p : Position) : (p != Position.absolute) = decide (p ≠ .absolute) := by cases p <;> rfl

theorem isHidden_iff (s : Style α) : s.isHidden = true ↔ s.display = .none := by
  unfold Style.isHidden
  cases s.display <;> decide

theorem isHidden_false_iff (s : Style α) : s.isHidden = false ↔ s.display ≠ .none := by
  unfold Style.isHidden
  cases s.display <;> decide

theorem bind_eq {β γ : Type} (p : ProgM α β) (f : β → ProgM α γ) : p >>= f = p.bind f := rfl
theorem pure_eq {β : Type} (b : β) : (pure b : ProgM α β) = .pure b := rfl

theorem pure_bind' {β γ : Type} (b : β) (f : β → ProgM α γ) : (ProgM.pure b : ProgM α β) >>= f = f b := rfl

/-- the input of `perform_child_layout` -/
def plInput (kd ps : Size (Option α)) (av : Size (AvailableSpace α)) (sm : SizingMode) (vm : Line Bool) :
    LayoutInput α :=
  { runMode := .performLayout, sizingMode := sm, axis := .both, knownDimensions := kd, parentSize := ps,
    availableSpace := av, verticalMarginsAreCollapsible := vm }

theorem performChildLayout_eq (i : Nat) (kd ps : Size (Option α)) (av : Size (AvailableSpace α)) (sm : SizingMode)
    (vm : Line Bool) : ProgM.performChildLayout i kd ps av sm vm = .call i (plInput kd ps av sm vm) .pure := rfl

/-! ### the shape of each phase -/

/-- the query of the content-width pass for one in-flow item of unknown width -/
def cwInput (av : AvailableSpace α) (item : BlockItem α) : LayoutInput α :=
  plInput (item.size.oo_clamp item.minSize item.maxSize) Size.none
    ⟨MaybeMath.af_sub av (Resolve.rectLPAOrZero item.margin av.intoOption).horizontalAxisSum, .minContent⟩
    .inherentSize ⟨true, true⟩

theorem contentWidthLoop_nil (av : AvailableSpace α) (acc : α) : contentWidthLoop av [] acc = .pure acc := rfl

theorem contentWidthLoop_cons_abs (av : AvailableSpace α) (item : BlockItem α) (rest : List (BlockItem α)) (acc : α)
    (h : item.position = .absolute) : contentWidthLoop av (item :: rest) acc = contentWidthLoop av rest acc := by
  simp only [contentWidthLoop, pos_beq, h, decide_true, if_true]

theorem contentWidthLoop_cons_known (av : AvailableSpace α) (item : BlockItem α) (rest : List (BlockItem α)) (acc w : α)
    (h : item.position ≠ .absolute) (hw : (item.size.oo_clamp item.minSize item.maxSize).width = some w) :
    contentWidthLoop av (item :: rest) acc =
      contentWidthLoop av rest (Num.fmax acc (Num.fmax w item.paddingBorderSum.width)) := by
  simp only [contentWidthLoop, pos_beq, h, decide_false, hw]
  rfl

theorem contentWidthLoop_cons_query (av : AvailableSpace α) (item : BlockItem α) (rest : List (BlockItem α)) (acc : α)
    (h : item.position ≠ .absolute) (hw : (item.size.oo_clamp item.minSize item.maxSize).width = none) :
    contentWidthLoop av (item :: rest) acc =
      .call item.nodeIdx (cwInput av item) fun out =>
        contentWidthLoop av rest (Num.fmax acc (Num.fmax
          (out.size.width + (Resolve.rectLPAOrZero item.margin av.intoOption).horizontalAxisSum)
          item.paddingBorderSum.width)) := by
  simp only [contentWidthLoop, pos_beq, h, decide_false, hw]
  rfl

theorem flowLoop_nil (c : FlowCtx α) (st : FlowState α) : flowLoop c [] st = .pure ([], st) := rfl

theorem flowLoop_cons_abs (c : FlowCtx α) (item : BlockItem α) (rest : List (BlockItem α)) (st : FlowState α)
    (h : item.position = .absolute) :
    flowLoop c (item :: rest) st =
      (flowLoop c rest st >>= fun r =>
        .pure ({ item with staticPosition := ⟨c.resolvedContentBoxInset.left, st.yOffsetForAbsolute⟩ } :: r.1, r.2)) := by
  simp only [flowLoop, pos_beq, h, decide_true, if_true]
  rfl

theorem flowLoop_cons_flow (c : FlowCtx α) (item : BlockItem α) (rest : List (BlockItem α)) (st : FlowState α)
    (h : item.position ≠ .absolute) :
    flowLoop c (item :: rest) st =
      .call item.nodeIdx (itemInput c item) fun out =>
        .setLayout item.nodeIdx (placeItem c st item out).layout fun _ =>
          (flowLoop c rest (placeItem c st item out).st >>= fun r =>
            .pure ((placeItem c st item out).item :: r.1, r.2)) := by
  simp only [flowLoop, pos_beq, h, decide_false]
  rfl

/-- the query the hidden-children loop sends to a `display:none` child (`perform_child_layout`, NOT hidden run mode) -/
def hiddenInput : LayoutInput α :=
  plInput Size.none Size.none ⟨.maxContent, .maxContent⟩ .inherentSize ⟨false, false⟩

theorem hiddenInput_mode : (hiddenInput : LayoutInput α).runMode = .performLayout := rfl

theorem hiddenLoop_nil (order : Nat) : hiddenLoop ([] : List (Style α)) order = .pure () := rfl

theorem hiddenLoop_cons_hidden (s : Style α) (rest : List (Style α)) (order : Nat) (h : s.isHidden = true) :
    hiddenLoop (s :: rest) order =
      .call order hiddenInput fun _ =>
        .setLayout order (Layout.withOrder order) fun _ => hiddenLoop rest (order + 1) := by
  simp only [hiddenLoop, h]
  rfl

theorem hiddenLoop_cons_visible (s : Style α) (rest : List (Style α)) (order : Nat) (h : s.isHidden = false) :
    hiddenLoop (s :: rest) order = hiddenLoop rest (order + 1) := by
  simp only [hiddenLoop, h]
  rfl

/-- one absolutely positioned item: one `perform_child_layout`, then `set_unrounded_layout`, on the item's own index -/
theorem absItem_shape (item : BlockItem α) (cs : Style α) (a : Size α) (o : Point α) (acc : Size α) :
    ∃ (inp : LayoutInput α) (lay : LayoutOutput α → Layout α) (res : LayoutOutput α → Size α),
      inp.runMode = .performLayout ∧
      absItem item cs a o acc =
        .call item.nodeIdx inp fun out => .setLayout item.nodeIdx (lay out) fun _ => .pure (res out) :=
  ⟨_, _, _, rfl, rfl⟩

/-- does the abs pass lay out this item? (`item.position == Absolute`, the child exists, generates a box and is
`position:absolute`) -/
def absTaken (styleOf : Nat → Option (Style α)) (item : BlockItem α) : Option (Style α) :=
  if item.position = .absolute then
    match styleOf item.nodeIdx with
    | none => none
    | some cs => if cs.isHidden || cs.position != .absolute then none else some cs
  else none

theorem absLoop_nil (styleOf : Nat → Option (Style α)) (a : Size α) (o : Point α) (acc : Size α) :
    absLoop styleOf a o [] acc = .pure acc := rfl

theorem absLoop_cons_skip (styleOf : Nat → Option (Style α)) (a : Size α) (o : Point α) (item : BlockItem α)
    (rest : List (BlockItem α)) (acc : Size α) (h : absTaken styleOf item = none) :
    absLoop styleOf a o (item :: rest) acc = absLoop styleOf a o rest acc := by
  unfold absTaken at h
  by_cases hp : item.position = .absolute
  · simp only [hp, if_true] at h
    simp only [absLoop, pos_beq, hp, decide_true, if_true]
    cases hs : styleOf item.nodeIdx with
    | none => rfl
    | some cs =>
      rw [hs] at h
      simp only at h ⊢
      by_cases hc : (cs.isHidden || cs.position != .absolute) = true
      · simp only [hc, if_true]
      · simp only [hc] at h
        cases h
  · simp only [absLoop, pos_beq, hp, decide_false]
    rfl

theorem absLoop_cons_take (styleOf : Nat → Option (Style α)) (a : Size α) (o : Point α) (item : BlockItem α)
    (rest : List (BlockItem α)) (acc : Size α) (cs : Style α) (h : absTaken styleOf item = some cs) :
    absLoop styleOf a o (item :: rest) acc = (absItem item cs a o acc >>= fun acc' => absLoop styleOf a o rest acc') := by
  unfold absTaken at h
  by_cases hp : item.position = .absolute
  · simp only [hp, if_true] at h
    simp only [absLoop, pos_beq, hp, decide_true, if_true]
    cases hs : styleOf item.nodeIdx with
    | none => rw [hs] at h; cases h
    | some cs' =>
      rw [hs] at h
      simp only at h ⊢
      by_cases hc : (cs'.isHidden || cs'.position != .absolute) = true
      · simp only [hc, if_true] at h
        cases h
      · simp only [hc] at h ⊢
        cases h
        rfl
  · simp only [hp, if_false] at h
    cases h

theorem absTaken_some (styleOf : Nat → Option (Style α)) (item : BlockItem α) (cs : Style α)
    (h : absTaken styleOf item = some cs) :
    item.position = .absolute ∧ styleOf item.nodeIdx = some cs ∧ cs.isHidden = false ∧ cs.position = .absolute := by
  unfold absTaken at h
  by_cases hp : item.position = .absolute
  · simp only [hp, if_true] at h
    cases hs : styleOf item.nodeIdx with
    | none => rw [hs] at h; cases h
    | some cs' =>
      rw [hs] at h
      simp only at h
      by_cases hc : (cs'.isHidden || cs'.position != .absolute) = true
      · simp only [hc, if_true] at h
        cases h
      · simp only [hc] at h
        cases h
        simp only [Bool.or_eq_true, not_or, Bool.not_eq_true, pos_bne, decide_eq_false_iff_not, Decidable.not_not] at hc
        exact ⟨hp, rfl, hc.1, hc.2⟩
  · simp only [hp, if_false] at h
    cases h

/-! ### `compute_inner` cut into its phases -/

/-- `container_outer_height` and the final outer size, from the result of the in-flow pass -/
def finalOuterSize (ic : InnerCtx α) (inputs : LayoutInput α) (w : α)
    (r : List (BlockItem α) × (Size α × α × MarginSet α × MarginSet α)) : Size α :=
  ⟨w, MaybeMath.fo_max
    (inputs.knownDimensions.height.getD (MaybeMath.fo_clamp r.2.2.1 ic.minSize.height ic.maxSize.height))
    (some ic.paddingBorderSize.height)⟩

/-- steps 4, 5, 7 of `compute_inner` (everything after the in-flow pass) -/
def innerTail (style : Style α) (childStyles : List (Style α)) (inputs : LayoutInput α) (w : α)
    (r : List (BlockItem α) × (Size α × α × MarginSet α × MarginSet α)) : ProgM α (LayoutOutput α) :=
  let ic := innerCtx style inputs
  let fos := finalOuterSize ic inputs w r
  if inputs.runMode == .computeSize then .pure (LayoutOutput.fromOuterSize fos)
  else
    let inset := (Resolve.rectLPOrZero style.border (some w)).add ic.scrollbarGutter
    (absLoop (fun i => childStyles[i]?) (fos.sub inset.sumAxes) ⟨inset.left, inset.top⟩ r.1 Size.zero) >>= fun acs =>
    (hiddenLoop childStyles 0) >>= fun _ =>
    .pure (innerOutput style inputs.parentSize ic r.1 fos r.2.1 acs r.2.2.2.1 r.2.2.2.2)

/-- everything after the container width is known -/
def innerAfterWidth (style : Style α) (childStyles : List (Style α)) (inputs : LayoutInput α) (w : α) :
    ProgM α (LayoutOutput α) :=
  let ic := innerCtx style inputs
  match inputs.runMode, inputs.knownDimensions.height with
  | .computeSize, some h => .pure (LayoutOutput.fromOuterSize ⟨w, h⟩)
  | _, _ =>
    performFinalLayoutOnInFlowChildren (flowCtxOf style ic w) (generateItemList childStyles ic.containerContentBoxSize)
      >>= innerTail style childStyles inputs w

theorem computeInner_eq (style : Style α) (childStyles : List (Style α)) (inputs : LayoutInput α) :
    computeInner style childStyles inputs =
      (containerWidthProg (innerCtx style inputs)
        (generateItemList childStyles (innerCtx style inputs).containerContentBoxSize) inputs
        >>= innerAfterWidth style childStyles inputs) := by
  unfold computeInner innerAfterWidth
  rfl

theorem performFinal_eq (c : FlowCtx α) (items : List (BlockItem α)) :
    performFinalLayoutOnInFlowChildren c items =
      (flowLoop c items c.initState >>= fun r => .pure (r.1, flowResult c r.2)) := rfl

theorem containerWidthProg_known (ic : InnerCtx α) (items : List (BlockItem α)) (inputs : LayoutInput α) (w : α)
    (h : inputs.knownDimensions.width = some w) : containerWidthProg ic items inputs = .pure w := by
  simp only [containerWidthProg, h]
  rfl

theorem containerWidthProg_unknown (ic : InnerCtx α) (items : List (BlockItem α)) (inputs : LayoutInput α)
    (h : inputs.knownDimensions.width = none) :
    containerWidthProg ic items inputs =
      (contentWidthLoop (MaybeMath.af_sub inputs.availableSpace.width ic.contentBoxInset.horizontalAxisSum) items 0
        >>= fun w => .pure (MaybeMath.fo_max
          (MaybeMath.fo_clamp (w + ic.contentBoxInset.horizontalAxisSum) ic.minSize.width ic.maxSize.width)
          (some ic.paddingBorderSize.width))) := by
  simp only [containerWidthProg, h]
  rfl

/-- `compute_block_layout` is either a pure early return or `compute_inner` on amended inputs -/
theorem computeBlockLayout_cases (style : Style α) (inputs : LayoutInput α) :
    (inputs.runMode = .computeSize ∧ ∃ o, ∀ cs : List (Style α), computeBlockLayout style cs inputs = .pure o) ∨
    (∃ inputs' : LayoutInput α, inputs'.runMode = inputs.runMode ∧
      ∀ cs : List (Style α), computeBlockLayout style cs inputs = computeInner style cs inputs') := by
  unfold computeBlockLayout
  simp only
  split
  · rename_i h _ _
    exact Or.inl ⟨h, _, fun _ => rfl⟩
  · exact Or.inr ⟨{ inputs with knownDimensions := styledBasedKnownDimensions style inputs }, rfl, fun _ => rfl⟩

/-! ### the item list -/

/-- the item generated for a child records the child's index and position -/
theorem mem_generateItemsFrom (inner : Size (Option α)) : ∀ (l : List (Style α)) (idx order : Nat) (it : BlockItem α),
    it ∈ generateItemsFrom inner l idx order →
    idx ≤ it.nodeIdx ∧ ∃ s, l[it.nodeIdx - idx]? = some s ∧ s.isHidden = false ∧ it.position = s.position
  | [], _, _, it, h => by simp [generateItemsFrom] at h
  | s :: rest, idx, order, it, h => by
    have step : ∀ order', it ∈ generateItemsFrom inner rest (idx + 1) order' →
        idx ≤ it.nodeIdx ∧ ∃ s', (s :: rest)[it.nodeIdx - idx]? = some s' ∧ s'.isHidden = false ∧
          it.position = s'.position := by
      intro order' h'
      obtain ⟨h1, s', h2, h3, h4⟩ := mem_generateItemsFrom inner rest (idx + 1) order' it h'
      refine ⟨by omega, s', ?_, h3, h4⟩
      have e : it.nodeIdx - idx = (it.nodeIdx - (idx + 1)) + 1 := by omega
      rw [e, List.getElem?_cons_succ]
      exact h2
    simp only [generateItemsFrom] at h
    by_cases hh : s.isHidden = true
    · simp only [hh, if_true] at h
      exact step _ h
    · simp only [hh] at h
      rcases List.mem_cons.1 h with h | h
      · subst h
        refine ⟨Nat.le_refl _, s, ?_, by simpa using hh, rfl⟩
        simp [generateItem]
      · exact step _ h

/-- every child that generates a box has an item -/
theorem generateItemsFrom_complete (inner : Size (Option α)) : ∀ (l : List (Style α)) (idx order i : Nat) (s : Style α),
    l[i]? = some s → s.isHidden = false →
    ∃ it, it ∈ generateItemsFrom inner l idx order ∧ it.nodeIdx = idx + i ∧ it.position = s.position
  | [], _, _, _, _, h, _ => by simp at h
  | a :: rest, idx, order, 0, s, h, hs => by
    simp only [List.getElem?_cons_zero, Option.some.injEq] at h
    subst h
    simp only [generateItemsFrom, hs]
    exact ⟨_, List.mem_cons_self, rfl, rfl⟩
  | a :: rest, idx, order, i + 1, s, h, hs => by
    simp only [List.getElem?_cons_succ] at h
    simp only [generateItemsFrom]
    by_cases ha : a.isHidden = true
    · simp only [ha, if_true]
      obtain ⟨it, h1, h2, h3⟩ := generateItemsFrom_complete inner rest (idx + 1) order i s h hs
      exact ⟨it, h1, by omega, h3⟩
    · simp only [ha]
      obtain ⟨it, h1, h2, h3⟩ := generateItemsFrom_complete inner rest (idx + 1) (order + 1) i s h hs
      exact ⟨it, List.mem_cons_of_mem _ h1, by omega, h3⟩

theorem mem_generateItemList (cs : List (Style α)) (inner : Size (Option α)) (it : BlockItem α)
    (h : it ∈ generateItemList cs inner) :
    ∃ s, cs[it.nodeIdx]? = some s ∧ s.isHidden = false ∧ it.position = s.position := by
  obtain ⟨_, s, h2, h3, h4⟩ := mem_generateItemsFrom inner cs 0 0 it h
  exact ⟨s, by simpa using h2, h3, h4⟩

theorem generateItemList_complete (cs : List (Style α)) (inner : Size (Option α)) (i : Nat) (s : Style α)
    (h : cs[i]? = some s) (hs : s.isHidden = false) :
    ∃ it, it ∈ generateItemList cs inner ∧ it.nodeIdx = i ∧ it.position = s.position := by
  obtain ⟨it, h1, h2, h3⟩ := generateItemsFrom_complete inner cs 0 0 i s h hs
  exact ⟨it, h1, by omega, h3⟩

/-- number of in-flow / absolutely positioned items / hidden children -/
def nIn : List (BlockItem α) → Nat
  | [] => 0
  | it :: r => (if it.position = .absolute then 0 else 1) + nIn r
def nAbs : List (BlockItem α) → Nat
  | [] => 0
  | it :: r => (if it.position = .absolute then 1 else 0) + nAbs r
def nHid : List (Style α) → Nat
  | [] => 0
  | s :: r => (if s.isHidden then 1 else 0) + nHid r

theorem nIn_add_nAbs : ∀ l : List (BlockItem α), nIn l + nAbs l = l.length
  | [] => rfl
  | it :: r => by
    have := nIn_add_nAbs r
    simp only [nIn, nAbs, List.length_cons]
    split <;> omega

theorem generateItemsFrom_length (inner : Size (Option α)) : ∀ (l : List (Style α)) (idx order : Nat),
    (generateItemsFrom inner l idx order).length + nHid l = l.length
  | [], _, _ => rfl
  | s :: rest, idx, order => by
    simp only [generateItemsFrom, nHid]
    by_cases hh : s.isHidden = true
    · simp only [hh, if_true, List.length_cons]
      have := generateItemsFrom_length inner rest (idx + 1) order
      omega
    · have := generateItemsFrom_length inner rest (idx + 1) (order + 1)
      simp only [hh, Bool.false_eq_true, if_false, List.length_cons]
      omega

/-- what the in-flow pass keeps of every item: index and position -/
def Skel (items items' : List (BlockItem α)) : Prop :=
  items'.map (·.nodeIdx) = items.map (·.nodeIdx) ∧ items'.map (·.position) = items.map (·.position)

theorem Skel.refl (items : List (BlockItem α)) : Skel items items := ⟨rfl, rfl⟩

theorem Skel.cons {a a' : BlockItem α} {l l' : List (BlockItem α)} (h1 : a'.nodeIdx = a.nodeIdx)
    (h2 : a'.position = a.position) (h : Skel l l') : Skel (a :: l) (a' :: l') := by
  simp only [Skel, List.map_cons, h1, h2, h.1, h.2, and_self]

theorem Skel.nAbs : ∀ (l l' : List (BlockItem α)), Skel l l' → nAbs l' = nAbs l
  | [], [], _ => rfl
  | [], _ :: _, h => by simp [Skel] at h
  | _ :: _, [], h => by simp [Skel] at h
  | a :: l, a' :: l', h => by
    simp only [Skel, List.map_cons, List.cons.injEq] at h
    simp only [EvalBlock.nAbs, h.2.1, Skel.nAbs l l' ⟨h.1.2, h.2.2⟩]

theorem Skel.mem : ∀ (l l' : List (BlockItem α)), Skel l l' → ∀ it ∈ l, ∃ it' ∈ l', it'.nodeIdx = it.nodeIdx ∧
    it'.position = it.position
  | [], _, _, _, h => by simp at h
  | _ :: _, [], h, _, _ => by simp [Skel] at h
  | a :: l, a' :: l', h, it, hm => by
    simp only [Skel, List.map_cons, List.cons.injEq] at h
    rcases List.mem_cons.1 hm with hm | hm
    · subst hm
      exact ⟨a', List.mem_cons_self, h.1.1, h.2.1⟩
    · obtain ⟨it', h1, h2⟩ := Skel.mem l l' ⟨h.1.2, h.2.2⟩ it hm
      exact ⟨it', List.mem_cons_of_mem _ h1, h2⟩

/-! ### postconditions -/

/-- every possible result of the program satisfies `P`, whatever the children answer -/
def Post {β : Type} (P : β → Prop) : ProgM α β → Prop
  | .pure b => P b
  | .call _ _ k => ∀ o, Post P (k o)
  | .setLayout _ _ k => Post P (k ())

theorem Post_bind {β γ : Type} {Q : β → Prop} {P : γ → Prop} (p : ProgM α β) (f : β → ProgM α γ)
    (hp : Post Q p) (hf : ∀ a, Q a → Post P (f a)) : Post P (p >>= f) := by
  rw [bind_eq]
  induction p with
  | pure b => exact hf b hp
  | call i inp k ih => intro o; exact ih o (hp o)
  | setLayout i l k ih => exact ih () hp

/-- the in-flow pass returns the items with unchanged indices and positions -/
theorem flowLoop_skel (c : FlowCtx α) : ∀ (items : List (BlockItem α)) (st : FlowState α),
    Post (fun r => Skel items r.1) (flowLoop c items st)
  | [], st => Skel.refl []
  | item :: rest, st => by
    by_cases h : item.position = .absolute
    · rw [flowLoop_cons_abs c item rest st h]
      exact Post_bind _ _ (flowLoop_skel c rest st) fun r hr => Skel.cons rfl rfl hr
    · rw [flowLoop_cons_flow c item rest st h]
      intro out
      exact Post_bind _ _ (flowLoop_skel c rest _) fun r hr => Skel.cons rfl rfl hr

theorem performFinal_skel (c : FlowCtx α) (items : List (BlockItem α)) :
    Post (fun r => Skel items r.1) (performFinalLayoutOnInFlowChildren c items) := by
  rw [performFinal_eq]
  exact Post_bind _ _ (flowLoop_skel c items _) fun r hr => hr

/-! ### `C05.PHZ`: layouts assigned to `display:none` children are all-zero -/
section phz
open C05

theorem PHZ_bind {β γ : Type} (cs : List (Style α)) (p : ProgM α β) (f : β → ProgM α γ)
    (hp : PHZ cs p) (hf : ∀ a, PHZ cs (f a)) : PHZ cs (p >>= f) := by
  rw [bind_eq]
  induction p with
  | pure b => exact hf b
  | call i inp k ih => intro o; exact ih o (hp o)
  | setLayout i l k ih => exact ⟨hp.1, fun u => ih u (hp.2 u)⟩

/-- the content-width pass assigns no layout at all -/
theorem PHZ_contentWidthLoop (cs : List (Style α)) (av : AvailableSpace α) : ∀ (items : List (BlockItem α)) (acc : α),
    PHZ cs (contentWidthLoop av items acc)
  | [], _ => trivial
  | item :: rest, acc => by
    by_cases h : item.position = .absolute
    · rw [contentWidthLoop_cons_abs av item rest acc h]
      exact PHZ_contentWidthLoop cs av rest acc
    · cases hw : (item.size.oo_clamp item.minSize item.maxSize).width with
      | some w =>
        rw [contentWidthLoop_cons_known av item rest acc w h hw]
        exact PHZ_contentWidthLoop cs av rest _
      | none =>
        rw [contentWidthLoop_cons_query av item rest acc h hw]
        intro o
        exact PHZ_contentWidthLoop cs av rest _

/-- every item addresses a child that generates a box -/
def ItemsVis (cs : List (Style α)) (items : List (BlockItem α)) : Prop :=
  ∀ it ∈ items, ∀ s, cs[it.nodeIdx]? = some s → s.display ≠ .none

theorem itemsVis_generateItemList (cs : List (Style α)) (inner : Size (Option α)) :
    ItemsVis cs (generateItemList cs inner) := by
  intro it hit s hs
  obtain ⟨s', h1, h2, _⟩ := mem_generateItemList cs inner it hit
  rw [h1] at hs
  cases hs
  exact (isHidden_false_iff _).1 h2

/-- the in-flow pass only addresses the items' children -/
theorem PHZ_flowLoop (cs : List (Style α)) (c : FlowCtx α) : ∀ (items : List (BlockItem α)) (st : FlowState α),
    ItemsVis cs items → PHZ cs (flowLoop c items st)
  | [], _, _ => trivial
  | item :: rest, st, hv => by
    have hr : ItemsVis cs rest := fun it hit => hv it (List.mem_cons_of_mem _ hit)
    by_cases h : item.position = .absolute
    · rw [flowLoop_cons_abs c item rest st h]
      exact PHZ_bind cs _ _ (PHZ_flowLoop cs c rest st hr) fun _ => trivial
    · rw [flowLoop_cons_flow c item rest st h]
      intro out
      refine ⟨fun s hs hd => absurd hd (hv item List.mem_cons_self s hs), fun _ => ?_⟩
      exact PHZ_bind cs _ _ (PHZ_flowLoop cs c rest _ hr) fun _ => trivial

/-- the abs pass re-checks `box_generation_mode` of the child it is about to lay out -/
theorem PHZ_absLoop (cs : List (Style α)) (a : Size α) (o : Point α) : ∀ (items : List (BlockItem α)) (acc : Size α),
    PHZ cs (absLoop (fun i => cs[i]?) a o items acc)
  | [], _ => trivial
  | item :: rest, acc => by
    cases ht : absTaken (fun i => cs[i]?) item with
    | none =>
      rw [absLoop_cons_skip _ a o item rest acc ht]
      exact PHZ_absLoop cs a o rest acc
    | some s =>
      rw [absLoop_cons_take _ a o item rest acc s ht]
      obtain ⟨_, hs, hh, _⟩ := absTaken_some _ item s ht
      obtain ⟨inp, lay, res, _, he⟩ := absItem_shape item s a o acc
      rw [he]
      refine PHZ_bind cs _ _ ?_ fun _ => PHZ_absLoop cs a o rest _
      intro out
      refine ⟨fun s' hs' hd => ?_, fun _ => trivial⟩
      rw [hs] at hs'
      cases hs'
      exact absurd hd ((isHidden_false_iff _).1 hh)

/-- the hidden-children loop assigns `Layout::with_order(order)` -/
theorem PHZ_hiddenLoop (cs : List (Style α)) : ∀ (l : List (Style α)) (order : Nat), PHZ cs (hiddenLoop l order)
  | [], _ => trivial
  | s :: rest, order => by
    by_cases h : s.isHidden = true
    · rw [hiddenLoop_cons_hidden s rest order h]
      exact fun _ => ⟨fun _ _ _ => zeroFields_withOrder order, fun _ => PHZ_hiddenLoop cs rest (order + 1)⟩
    · rw [hiddenLoop_cons_visible s rest order (by simpa using h)]
      exact PHZ_hiddenLoop cs rest (order + 1)

theorem PHZ_containerWidthProg (cs : List (Style α)) (ic : InnerCtx α) (items : List (BlockItem α))
    (inputs : LayoutInput α) : PHZ cs (containerWidthProg ic items inputs) := by
  cases h : inputs.knownDimensions.width with
  | some w => rw [containerWidthProg_known ic items inputs w h]; trivial
  | none =>
    rw [containerWidthProg_unknown ic items inputs h]
    exact PHZ_bind cs _ _ (PHZ_contentWidthLoop cs _ items 0) fun _ => trivial

theorem PHZ_innerTail (style : Style α) (cs : List (Style α)) (inputs : LayoutInput α) (w : α)
    (r : List (BlockItem α) × (Size α × α × MarginSet α × MarginSet α)) : PHZ cs (innerTail style cs inputs w r) := by
  unfold innerTail
  simp only
  split
  · trivial
  · exact PHZ_bind cs _ _ (PHZ_absLoop cs _ _ r.1 _) fun _ => PHZ_bind cs _ _ (PHZ_hiddenLoop cs cs 0) fun _ => trivial

theorem PHZ_innerAfterWidth (style : Style α) (cs : List (Style α)) (inputs : LayoutInput α) (w : α) :
    PHZ cs (innerAfterWidth style cs inputs w) := by
  unfold innerAfterWidth
  simp only
  split
  · trivial
  · rw [performFinal_eq]
    refine PHZ_bind cs _ _ (PHZ_bind cs _ _ (PHZ_flowLoop cs _ _ _ (itemsVis_generateItemList cs _)) fun _ => trivial)
      fun r => PHZ_innerTail style cs inputs w r

theorem PHZ_computeInner (style : Style α) (cs : List (Style α)) (inputs : LayoutInput α) :
    PHZ cs (computeInner style cs inputs) := by
  rw [computeInner_eq]
  exact PHZ_bind cs _ _ (PHZ_containerWidthProg cs _ _ inputs) fun w => PHZ_innerAfterWidth style cs inputs w

theorem PHZ_computeBlockLayout (style : Style α) (cs : List (Style α)) (inputs : LayoutInput α) :
    PHZ cs (computeBlockLayout style cs inputs) := by
  rcases computeBlockLayout_cases style inputs with ⟨_, o, h⟩ | ⟨inputs', _, h⟩
  · rw [h]; trivial
  · rw [h]; exact PHZ_computeInner style cs inputs'

/-! ### `C05.AgreeH`: the program does not read a `display:none` child's style beyond `display` -/

theorem AgreeH_getElem (xs ys : List (Style α)) (h : AgreeH xs ys) (i : Nat) :
    (xs[i]? = none ∧ ys[i]? = none) ∨
    (∃ x y, xs[i]? = some x ∧ ys[i]? = some y ∧ (x = y ∨ (x.display = .none ∧ y.display = .none))) := by
  obtain ⟨hl, hi⟩ := (AgreeH_iff xs ys).1 h
  by_cases hlt : i < xs.length
  · have hlt' : i < ys.length := hl ▸ hlt
    exact Or.inr ⟨xs[i], ys[i], List.getElem?_eq_getElem hlt, List.getElem?_eq_getElem hlt',
      hi i _ _ (List.getElem?_eq_getElem hlt) (List.getElem?_eq_getElem hlt')⟩
  · exact Or.inl ⟨List.getElem?_eq_none (by omega), List.getElem?_eq_none (by omega)⟩

theorem generateItemsFrom_agree (inner : Size (Option α)) : ∀ (xs ys : List (Style α)) (idx order : Nat),
    AgreeH xs ys → generateItemsFrom inner xs idx order = generateItemsFrom inner ys idx order
  | [], [], _, _, _ => rfl
  | [], _ :: _, _, _, h => by simp only [AgreeH] at h
  | _ :: _, [], _, _, h => by simp only [AgreeH] at h
  | x :: xs, y :: ys, idx, order, h => by
    simp only [AgreeH] at h
    rcases h.1 with hxy | ⟨hx, hy⟩
    · subst hxy
      simp only [generateItemsFrom, generateItemsFrom_agree inner xs ys _ _ h.2]
    · have hx' := (isHidden_iff x).2 hx
      have hy' := (isHidden_iff y).2 hy
      simp only [generateItemsFrom, hx', hy', if_true]
      exact generateItemsFrom_agree inner xs ys _ _ h.2

theorem absTaken_agree (xs ys : List (Style α)) (h : AgreeH xs ys) (item : BlockItem α) :
    absTaken (fun i => xs[i]?) item = absTaken (fun i => ys[i]?) item := by
  unfold absTaken
  split
  · rcases AgreeH_getElem xs ys h item.nodeIdx with ⟨h1, h2⟩ | ⟨x, y, h1, h2, hxy⟩
    · simp only [h1, h2]
    · simp only [h1, h2]
      rcases hxy with hxy | ⟨hx, hy⟩
      · rw [hxy]
      · simp only [(isHidden_iff x).2 hx, (isHidden_iff y).2 hy, Bool.true_or, if_true]
  · rfl

theorem absLoop_agree (xs ys : List (Style α)) (h : AgreeH xs ys) (a : Size α) (o : Point α) :
    ∀ (items : List (BlockItem α)) (acc : Size α),
      absLoop (fun i => xs[i]?) a o items acc = absLoop (fun i => ys[i]?) a o items acc
  | [], _ => rfl
  | item :: rest, acc => by
    have ht := absTaken_agree xs ys h item
    cases hx : absTaken (fun i => xs[i]?) item with
    | none =>
      rw [absLoop_cons_skip _ a o item rest acc hx, absLoop_cons_skip _ a o item rest acc (ht ▸ hx)]
      exact absLoop_agree xs ys h a o rest acc
    | some s =>
      rw [absLoop_cons_take _ a o item rest acc s hx, absLoop_cons_take _ a o item rest acc s (ht ▸ hx)]
      congr 1
      funext acc'
      exact absLoop_agree xs ys h a o rest acc'

theorem hiddenLoop_agree : ∀ (xs ys : List (Style α)) (order : Nat), AgreeH xs ys →
    hiddenLoop xs order = hiddenLoop ys order
  | [], [], _, _ => rfl
  | [], _ :: _, _, h => by simp only [AgreeH] at h
  | _ :: _, [], _, h => by simp only [AgreeH] at h
  | x :: xs, y :: ys, order, h => by
    simp only [AgreeH] at h
    have ih := hiddenLoop_agree xs ys (order + 1) h.2
    rcases h.1 with hxy | ⟨hx, hy⟩
    · subst hxy
      simp only [hiddenLoop, ih]
    · rw [hiddenLoop_cons_hidden x xs order ((isHidden_iff x).2 hx),
        hiddenLoop_cons_hidden y ys order ((isHidden_iff y).2 hy), ih]

theorem computeInner_agree (style : Style α) (xs ys : List (Style α)) (inputs : LayoutInput α) (h : AgreeH xs ys) :
    computeInner style xs inputs = computeInner style ys inputs := by
  have hg : ∀ inner, generateItemList xs inner = generateItemList ys inner :=
    fun inner => generateItemsFrom_agree inner xs ys 0 0 h
  have ht : innerTail style xs inputs = innerTail style ys inputs := by
    funext w r
    unfold innerTail
    simp only [absLoop_agree xs ys h, hiddenLoop_agree xs ys 0 h]
  have ha : innerAfterWidth style xs inputs = innerAfterWidth style ys inputs := by
    funext w
    unfold innerAfterWidth
    simp only [hg, ht]
  rw [computeInner_eq, computeInner_eq, hg, ha]

theorem computeBlockLayout_agree (style : Style α) (xs ys : List (Style α)) (inputs : LayoutInput α)
    (h : AgreeH xs ys) : computeBlockLayout style xs inputs = computeBlockLayout style ys inputs := by
  rcases computeBlockLayout_cases style inputs with ⟨_, o, e⟩ | ⟨inputs', _, e⟩
  · rw [e, e]
  · rw [e, e]; exact computeInner_agree style xs ys inputs' h

end phz

end EvalBlock
