/-
  C04 for grid, part 9: steps 8–9 of `compute_grid_layout` (`gridFinish`) commute with scaling — no side condition.
-/
import TaffyVerif.Lemmas.GridScaleProg2

set_option linter.unusedSectionVars false
set_option linter.unusedVariables false
set_option linter.unusedSimpArgs false

namespace C04
open Scalable GridModel GridTracks GridStages

variable {k : Rat}

theorem trackOffset_sim (ts : List (GridTrack Rat)) (i : Nat) :
    GSim k (Sc k) (trackOffset (scale k ts) i) (trackOffset ts i) := by
  unfold GridModel.trackOffset
  rw [scale_list, List.getElem?_map]
  cases ts[i]? with
  | none => exact GSim.throw _
  | some t => exact GSim.pure rfl

theorem optOffset_sim (ts : List (GridTrack Rat)) (i : Option Int) (d : Rat) :
    GSim k (Sc k) (optOffset (scale k ts) i (scale k d)) (optOffset ts i d) := by
  unfold GridModel.optOffset
  cases i with
  | none => exact GSim.pure rfl
  | some i => exact trackOffset_sim ts _

/-- the child styles of the scaled container -/
theorem getElem?_scale_list {β : Type} [Scalable β] (k : Rat) (l : List β) (i : Nat) :
    (scale k l)[i]? = scale k l[i]? := by
  rw [scale_list, List.getElem?_map]
  rfl

theorem positionItems_sim (hk : 0 < k) (cs : List (GridChildStyle Rat)) (rows columns : List (GridTrack Rat))
    (ji ai : Option AlignItems) :
    ∀ (items : List (GItem Rat)) (index : Nat) (acc : Size Rat),
      GSim k (Sc k) (positionItems (scale k cs) (scale k rows) (scale k columns) ji ai (scale k items) index (scale k acc))
        (positionItems cs rows columns ji ai items index acc)
  | [], _, acc => GSim.pure rfl
  | it :: rest, index, acc => by
    show GSim k _ (positionItems (scale k cs) (scale k rows) (scale k columns) ji ai (scale k it :: scale k rest) index
      (scale k acc)) _
    unfold positionItems
    simp only [gi_rowIndexes, gi_columnIndexes, gi_node, gi_baselineShim]
    refine GSim.bind (trackOffset_sim rows _) fun t' t ht => ?_
    rw [show t' = scale k t from ht]
    refine GSim.bind (trackOffset_sim rows _) fun b' b hb => ?_
    rw [show b' = scale k b from hb]
    refine GSim.bind (trackOffset_sim columns _) fun l' l hl => ?_
    rw [show l' = scale k l from hl]
    refine GSim.bind (trackOffset_sim columns _) fun r' r hr => ?_
    rw [show r' = scale k r from hr, getElem?_scale_list]
    cases cs[it.node]? with
    | none => exact GSim.throw _
    | some c =>
      show GSim k _ (alignAndPositionItem it.node (gscale k c.base) index _ ji ai (scale k it.baselineShim) >>= _) _
      have ha : ({ top := scale k t, bottom := scale k b, left := scale k l, right := scale k r } : Rect Rat) =
          scale k ({ top := t, bottom := b, left := l, right := r } : Rect Rat) := rfl
      rw [ha]
      refine GSim.bind (alignAndPositionItem_sim hk it.node c.base index _ ji ai it.baselineShim) fun q' q hq => ?_
      rw [show q' = scale k q from hq]
      obtain ⟨contribution, y, height⟩ := q
      simp only [scale_pair]
      rw [Size.f32Max_scale hk]
      refine GSim.bind (positionItems_sim hk cs rows columns ji ai rest (index + 1) _) fun z' z hz => ?_
      rw [show z' = scale k z from hz]
      exact GSim.pure rfl

theorem absStep_sim (hk : 0 < k) (c : Ctx Rat) (bb : Size Rat) (rows cols : List (GridTrack Rat))
    (cc rc : GridPlacement.TrackCounts) (cs : GridChildStyle Rat) (index order : Nat) (acc : Size Rat) :
    GSim k (Sc k)
      (GridRel.absStep (scale k c) (scale k bb) (scale k rows) (scale k cols) cc rc (scale k cs) index order (scale k acc))
      (GridRel.absStep c bb rows cols cc rc cs index order acc) := by
  unfold GridRel.absStep
  simp only [gcs_col, gcs_row, gcs_base, cx_border, cx_scrollbarGutter, cx_justifyItems, cx_alignItems,
    scale_rect_top, scale_rect_bottom, scale_rect_left, scale_rect_right, scale_size_height, scale_size_width,
    scale_point_x, scale_point_y, sub_scale]
  refine GSim.bind (GSim.ofOutcome _ fun _ => rfl) fun ci' ci hci => ?_
  subst hci
  refine GSim.bind (GSim.ofOutcome _ fun _ => rfl) fun ri' ri hri => ?_
  subst hri
  refine GSim.bind (optOffset_sim rows _ _) fun t' t ht => ?_
  rw [show t' = scale k t from ht]
  refine GSim.bind (optOffset_sim rows _ _) fun b' b hb => ?_
  rw [show b' = scale k b from hb]
  refine GSim.bind (optOffset_sim cols _ _) fun l' l hl => ?_
  rw [show l' = scale k l from hl]
  refine GSim.bind (optOffset_sim cols _ _) fun r' r hr => ?_
  rw [show r' = scale k r from hr]
  have ha : ({ top := scale k t, bottom := scale k b, left := scale k l, right := scale k r } : Rect Rat) =
      scale k ({ top := t, bottom := b, left := l, right := r } : Rect Rat) := rfl
  rw [ha]
  have hz := alignAndPositionItem_sim hk index cs.base order ⟨l, r, t, b⟩ c.justifyItems c.alignItems 0
  rw [scale_zero] at hz
  refine GSim.bind hz fun q' q hq => ?_
  rw [show q' = scale k q from hq]
  exact GSim.pure (by simp only [Sc, scale_fst, Size.f32Max_scale hk])

theorem hiddenStep_sim (index order : Nat) :
    GSim k (fun _ _ => True) (GridRel.hiddenStep index order : GM Rat Unit) (GridRel.hiddenStep index order) := by
  unfold GridRel.hiddenStep
  have hin : ∀ (i : LayoutInput Rat), i.knownDimensions = Size.none → i.parentSize = Size.none →
      i.availableSpace = ⟨.maxContent, .maxContent⟩ → scale k i = i := by
    intro i h1 h2 h3
    cases i
    simp only at h1 h2 h3
    subst h1 h2 h3
    rfl
  refine GSim.bind (Q := fun _ _ => True) ?_ fun _ _ _ => ?_
  · have := GSim.call (k := k) index
      { runMode := .performLayout, sizingMode := .inherentSize, axis := .both, knownDimensions := Size.none,
        parentSize := Size.none, availableSpace := ⟨.maxContent, .maxContent⟩,
        verticalMarginsAreCollapsible := ⟨false, false⟩ }
    rw [hin _ rfl rfl rfl] at this
    exact GSim.mono this fun _ _ _ => trivial
  · have := GSim.setLayout (k := k) index (Layout.withOrder order)
    rw [scale_l_withOrder] at this
    exact this

theorem hiddenAbsLoop_sim (hk : 0 < k) (c : Ctx Rat) (bb : Size Rat) (rows cols : List (GridTrack Rat))
    (cc rc : GridPlacement.TrackCounts) :
    ∀ (cs : List (GridChildStyle Rat)) (index order : Nat) (acc : Size Rat),
      GSim k (Sc k)
        (hiddenAbsLoop (scale k c) (scale k bb) (scale k rows) (scale k cols) cc rc (scale k cs) index order (scale k acc))
        (hiddenAbsLoop c bb rows cols cc rc cs index order acc)
  | [], _, _, acc => by
    show GSim k _ (hiddenAbsLoop _ _ _ _ cc rc [] _ _ _) _
    unfold hiddenAbsLoop
    exact GSim.pure rfl
  | a :: rest, index, order, acc => by
    show GSim k _ (hiddenAbsLoop _ _ _ _ cc rc (scale k a :: scale k rest) _ _ _) _
    rw [GridRel.hiddenAbsLoop_cons, GridRel.hiddenAbsLoop_cons, gcs_base, gstyle_isHidden, gstyle_position]
    refine GSim.ite ?_ (GSim.ite ?_ ?_)
    · exact GSim.bind (hiddenStep_sim index order) fun _ _ _ => hiddenAbsLoop_sim hk c bb rows cols cc rc rest _ _ acc
    · refine GSim.bind (absStep_sim hk c bb rows cols cc rc a index order acc) fun x' x hx => ?_
      rw [show x' = scale k x from hx]
      exact hiddenAbsLoop_sim hk c bb rows cols cc rc rest _ _ x
    · exact hiddenAbsLoop_sim hk c bb rows cols cc rc rest _ _ acc

theorem gridContainerBaseline_scale (k : Rat) (items : List (GItem Rat)) :
    gridContainerBaseline (scale k items) = scale k (gridContainerBaseline items) := by
  unfold gridContainerBaseline
  simp only []
  rw [mergeSort_scale k items _ (fun a b => by rw [gi_rowIndexes, gi_rowIndexes])]
  generalize items.mergeSort (fun a b => decide (a.rowIndexes.start ≤ b.rowIndexes.start)) = l
  cases l with
  | nil => simp only [scale_nil, scale_zero]
  | cons first tl =>
    show (match scale k first :: scale k tl with
      | [] => (0 : Rat)
      | f :: _ => _) = _
    simp only [gi_rowIndexes]
    have h1 : List.takeWhile (fun it => it.rowIndexes.start == first.rowIndexes.start) (scale k (first :: tl)) =
        scale k (List.takeWhile (fun it => it.rowIndexes.start == first.rowIndexes.start) (first :: tl)) := by
      generalize (first :: tl) = l
      induction l with
      | nil => rfl
      | cons x xs ih =>
        show List.takeWhile _ (scale k x :: scale k xs) = _
        simp only [List.takeWhile_cons, gi_rowIndexes]
        split
        · rw [ih]; rfl
        · rfl
    rw [h1]
    generalize List.takeWhile (fun it => it.rowIndexes.start == first.rowIndexes.start) (first :: tl) = fr
    have h2 : List.find? (fun it => it.alignSelf == AlignItems.baseline) (scale k fr) =
        scale k (List.find? (fun it => it.alignSelf == AlignItems.baseline) fr) := by
      induction fr with
      | nil => rfl
      | cons x xs ih =>
        show List.find? _ (scale k x :: scale k xs) = _
        simp only [List.find?_cons, gi_alignSelf]
        split
        · rfl
        · exact ih
    rw [h2]
    cases List.find? (fun it => it.alignSelf == AlignItems.baseline) fr with
    | none =>
      simp only [scale_none, Option.getD_none, gi_yPosition, gi_baseline, gi_height]
      cases first.baseline <;> simp only [scale_none, scale_some, Option.getD_none, Option.getD_some, add_scale]
    | some x =>
      simp only [scale_some, Option.getD_some, gi_yPosition, gi_baseline, gi_height]
      cases x.baseline <;> simp only [scale_none, scale_some, Option.getD_none, Option.getD_some, add_scale]

theorem fromOuterSize_scale (k : Rat) (s : Size Rat) :
    LayoutOutput.fromOuterSize (scale k s) = scale k (LayoutOutput.fromOuterSize s) := by
  simp only [LayoutOutput.fromOuterSize, LayoutOutput.fromSizes, LayoutOutput.fromSizesAndBaselines, scale_lo_mk,
    scale_size_mk, scale_point_mk, scale_zero, scale_none, scale_ms_zero]

theorem fromSizesAndBaselines_scale (k : Rat) (s cs : Size Rat) (b : Point (Option Rat)) :
    LayoutOutput.fromSizesAndBaselines (scale k s) (scale k cs) (scale k b) =
      scale k (LayoutOutput.fromSizesAndBaselines s cs b) := by
  simp only [LayoutOutput.fromSizesAndBaselines, scale_lo_mk, scale_ms_zero]

theorem gridFinish_sim (hk : 0 < k) (c : Ctx Rat) (cs : List (GridChildStyle Rat)) (bb ccb : Size Rat)
    (cc rc : GridPlacement.TrackCounts) (r : List (GridTrack Rat) × List (GridTrack Rat) × List (GItem Rat)) :
    GSim k (Sc k) (gridFinish (scale k c) (scale k cs) (scale k bb) (scale k ccb) cc rc (scale k r))
      (gridFinish c cs bb ccb cc rc r) := by
  unfold gridFinish
  simp only [scale_fst, scale_snd, cx_padding, cx_border, cx_justifyContent, cx_alignContent, cx_justifyItems,
    cx_alignItems, scale_size_width, scale_size_height, scale_rect_left, scale_rect_top, alignTracks_scale hk]
  rw [mergeSort_scale k r.2.2 _ (fun a b => by rw [gi_sourceOrder, gi_sourceOrder])]
  have h0 := positionItems_sim hk cs
    (alignTracks ccb.height c.padding.top c.border.top r.2.1 c.alignContent)
    (alignTracks ccb.width c.padding.left c.border.left r.1 c.justifyContent) c.justifyItems c.alignItems
    (r.2.2.mergeSort fun a b => decide (a.sourceOrder ≤ b.sourceOrder)) 0 Size.zero
  rw [scale_size_zero] at h0
  refine GSim.bind h0 fun q' q hq => ?_
  rw [show q' = scale k q from hq]
  obtain ⟨l, acc⟩ := q
  simp only [scale_pair, length_scale_list, isEmpty_scale_list]
  refine GSim.bind (hiddenAbsLoop_sim hk c bb _ _ cc rc cs 0 _ acc) fun x' x hx => ?_
  rw [show x' = scale k x from hx]
  refine GSim.ite ?_ ?_
  · exact GSim.pure (fromOuterSize_scale k bb)
  · refine GSim.pure ?_
    rw [gridContainerBaseline_scale]
    exact fromSizesAndBaselines_scale k bb x ⟨none, some (gridContainerBaseline l)⟩

end C04
