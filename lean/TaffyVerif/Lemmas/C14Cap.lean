/-
  The slot vector of `nodes` grows by at most one slot per operation (any state, any operation, panicking or not), so a
  history of fewer than 2^32 − 2 operations never finds the slot map full: the capacity side condition `Cap` of the C14
  simulation theorems is discharged by a bound on the length of the history.
  (Same case analysis as `Fresh.step_verStep`.)  No Mathlib.
-/
import TaffyVerif.Lemmas.Fresh

namespace C14Cap
open SlotMapModel TreeModel
variable {V : Type}

def LenStep (m m' : SlotMap V) : Prop := m'.slots.length ≤ m.slots.length + 1

theorem LenStep.refl (m : SlotMap V) : LenStep m m := Nat.le_succ _
theorem LenStep.of_eq {m m' : SlotMap V} (h : m' = m) : LenStep m m' := h ▸ LenStep.refl m

theorem lenStep_set (m : SlotMap V) (k : Key) (v : V) : LenStep m (m.set k v) := by
  unfold LenStep; rw [set_slots_length]; omega

theorem lenStep_insert {m m' : SlotMap V} {v : V} {k : Key} (h : m.insert v = some (m', k)) : LenStep m m' := by
  unfold SlotMap.insert at h
  split at h
  · simp only [Option.some.injEq, Prod.mk.injEq] at h
    obtain ⟨rfl, _⟩ := h
    simp [LenStep]
  · cases h
  · split at h
    · cases h
    · simp only [Option.some.injEq, Prod.mk.injEq] at h
      obtain ⟨rfl, _⟩ := h
      simp [LenStep]

theorem removeFromSlot_len (m : SlotMap V) (i vr : Nat) : (m.removeFromSlot i vr).slots.length = m.slots.length := by
  simp [SlotMap.removeFromSlot]

theorem lenStep_remove (m : SlotMap V) (k : Key) : LenStep m (m.remove k).1 := by
  unfold SlotMap.remove
  split
  · split
    · show (m.removeFromSlot _ _).slots.length ≤ _; rw [removeFromSlot_len]; omega
    · exact LenStep.refl m
  · exact LenStep.refl m

theorem drainFrom_len (n : Nat) : ∀ (m : SlotMap V) (cur : Nat), (m.drainFrom cur n).slots.length = m.slots.length := by
  induction n with
  | zero => intro m cur; rfl
  | succ n ih =>
    intro m cur
    simp only [SlotMap.drainFrom]
    split
    · rw [ih, removeFromSlot_len]
    · rw [ih]

theorem lenStep_clear (m : SlotMap V) : LenStep m m.clear := by
  unfold LenStep SlotMap.clear; rw [drainFrom_len]; omega

open Fresh in
theorem step_lenStep (t : Tree) (op : Op) : LenStep t.nodes (step t op).1.nodes := by
  cases op with
  | newLeaf =>
    simp only [step, newLeaf]
    cases h : t.nodes.insert ⟨false⟩ with
    | none => exact LenStep.refl _
    | some r =>
      obtain ⟨n', k⟩ := r
      have := lenStep_insert h
      simp only
      repeat' split
      all_goals exact this
  | newLeafWithContext x =>
    simp only [step, newLeafWithContext]
    cases h : t.nodes.insert ⟨true⟩ with
    | none => exact LenStep.refl _
    | some r =>
      obtain ⟨n', k⟩ := r
      have := lenStep_insert h
      simp only
      repeat' split
      all_goals exact this
  | newWithChildren cs =>
    simp only [step, newWithChildren]
    cases h : t.nodes.insert ⟨false⟩ with
    | none => exact LenStep.refl _
    | some r =>
      obtain ⟨n', k⟩ := r
      have := lenStep_insert h
      simp only
      repeat' split
      all_goals exact this
  | clear => exact lenStep_clear _
  | remove n =>
    simp only [step, remove]
    have hr : ∀ par, (retainInParent t par n).nodes = t.nodes := by
      intro par; unfold retainInParent; grind
    cases hp : t.parents.get n with
    | none => exact LenStep.refl _
    | some par =>
      simp only
      cases hmd : markDirtyOpt (retainInParent t par n) par with
      | false => simp only [hr, Bool.false_eq_true, ↓reduceIte]; exact LenStep.refl _
      | true =>
        simp only [↓reduceIte]
        cases hk : (retainInParent t par n).children.get n with
        | none => simp only [hr]; exact lenStep_remove _ _
        | some l =>
          simp only
          cases hsp : setParents (retainInParent t par n).parents none l with
          | mk pm b =>
            cases b with
            | false => simp only [hr]; exact LenStep.refl _
            | true => simp only [hr]; exact lenStep_remove _ _
  | setNodeContext n x =>
    simp only [step, setNodeContext]
    split
    · exact LenStep.refl _
    · cases x <;> simp only <;> split <;> exact lenStep_set _ _ _
  | getNodeContext n => exact LenStep.refl _
  | addChild p c => apply LenStep.of_eq; simp only [step]; unfold addChild; grind
  | insertChildAtIndex p i c => apply LenStep.of_eq; simp only [step]; unfold insertChildAtIndex; grind
  | setChildren p cs =>
    apply LenStep.of_eq
    simp only [step, setChildren]
    cases hk : t.children.get p with
    | none => rfl
    | some old =>
      simp only
      cases hsp : setParents t.parents none old with
      | mk pm b =>
        cases b with
        | false => rfl
        | true =>
          simp only
          have hl := reparentLoop_nodes p cs { t with parents := pm }
          cases hrl : reparentLoop { t with parents := pm } p cs with
          | mk tB b2 =>
            rw [hrl] at hl; simp only at hl
            cases b2 with
            | false => exact hl
            | true =>
              simp only
              split
              · exact hl
              · split <;> exact hl
  | removeChild p c => exact LenStep.of_eq (removeChild_nodes _ _ _)
  | removeChildAtIndex p i => exact LenStep.of_eq (removeChildAtIndex_nodes _ _ _)
  | removeChildrenRange p a b => apply LenStep.of_eq; simp only [step]; unfold removeChildrenRange; grind
  | replaceChildAtIndex p i c => apply LenStep.of_eq; simp only [step]; unfold replaceChildAtIndex; grind
  | childAtIndex p i => apply LenStep.of_eq; simp only [step]; unfold childAtIndex; grind
  | totalNodeCount => exact LenStep.refl _
  | childCount p => apply LenStep.of_eq; simp only [step]; unfold childCount; grind
  | children p => apply LenStep.of_eq; simp only [step]; unfold children; grind
  | parent n => apply LenStep.of_eq; simp only [step]; unfold parent; grind

/-- after `n` operations the slot vector has at most `n + 1` slots (the sentinel and one per operation) -/
theorem slots_le_length : ∀ (h : List Op), (runH h).nodes.slots.length ≤ h.length + 1
  | [] => by simp [runH, Tree.new, SlotMap.new]
  | op :: h => by
    have h1 : (step (runH h) op).1.nodes.slots.length ≤ (runH h).nodes.slots.length + 1 := step_lenStep (runH h) op
    have h2 := slots_le_length h
    simp only [runH, List.length_cons]
    omega

end C14Cap
