/-
  **The refinement**: one run of the track sizing *program* (`GridModel.trackSizingAlgorithmM`, Model/GridSizing.lean)
  computes, on every run (whatever the children answer), what the *pure* track sizing algorithm of Model/FrSize.lean
  computes from contribution data — the data being the contents of the items' contribution caches at the end of the run.

  One generalisation of the pure algorithm is needed (`trackSizing2`): `expand_flexible_tracks` reads the cached
  max-content contribution WITHOUT the item's margins, while `resolve_intrinsic_track_sizes` reads it WITH them, so step
  11.7 gets its own item list (`absX`).  With `itemsX = items` it is `GridTracks.trackSizingAlgorithm` (`rfl`).
-/
import TaffyVerif.Lemmas.GridLiftLoop

set_option linter.unusedSectionVars false
set_option linter.unusedVariables false

namespace GridLift
open GridModel GridTracks EvalGrid EvalBlock
variable {α : Type} [Num α]

/-! ### the sort keys -/

def leKey (fa fb : Bool) (sa sb : Nat) (pa pb : Int) : Bool :=
  match fa, fb with
  | false, true => true
  | true, false => false
  | _, _ => if sa < sb then true else if sa > sb then false else decide (pa ≤ pb)

theorem leKey_trans (fa fb fc : Bool) (sa sb sc : Nat) (pa pb pc : Int) (h1 : leKey fa fb sa sb pa pb = true)
    (h2 : leKey fb fc sb sc pb pc = true) : leKey fa fc sa sc pa pc = true := by
  unfold leKey at *
  cases fa <;> cases fb <;> cases fc <;> simp at h1 h2 ⊢ <;> omega

theorem leKey_total (fa fb : Bool) (sa sb : Nat) (pa pb : Int) :
    (leKey fa fb sa sb pa pb || leKey fb fa sb sa pb pa) = true := by
  unfold leKey
  cases fa <;> cases fb <;> simp <;> omega

theorem leKey_shift (fa fb : Bool) (sa sb : Nat) (pa pb n : Int) :
    leKey fa fb sa sb (pa + n) (pb + n) = leKey fa fb sa sb pa pb := by
  unfold leKey
  have : (pa + n ≤ pb + n) ↔ (pa ≤ pb) := by omega
  simp only [this]

theorem itemLeM_eq (ax : Ax) (a b : GItem α) : GridModel.itemLe ax a b =
    leKey (a.crossesFlexibleTrack ax) (b.crossesFlexibleTrack ax) (a.span ax) (b.span ax)
      (a.placement ax).start (b.placement ax).start := rfl

theorem itemLeP_eq (a b : Item α) : GridTracks.itemLe a b =
    leKey a.crossesFlexible b.crossesFlexible a.span b.span a.start b.start := by
  unfold GridTracks.itemLe leKey
  cases a.crossesFlexible <;> cases b.crossesFlexible <;> simp

/-! ### items that are consistent with the tracks of the sized axis -/

/-- what `resolve_item_track_indexes` and `determine_if_item_crosses_flexible_or_intrinsic_tracks` establish for axis `ax`
(`n` = number of negative implicit tracks, `T` = the axis' tracks) -/
structure GoodItem (ax : Ax) (n : Int) (T : List (GridTrack α)) (it : GItem α) : Prop where
  even : Even2 ax it
  span : (it.placementIndexes ax).end / 2 - (it.placementIndexes ax).start / 2 = it.span ax
  lt : (it.placementIndexes ax).start < (it.placementIndexes ax).end
  start : (((it.placementIndexes ax).start / 2 : Nat) : Int) = (it.placement ax).start + n
  flex : it.crossesFlexibleTrack ax = (it.spannedTracks ax T).any (·.isFlexible)
  intr : it.crossesIntrinsicTrack ax = (it.spannedTracks ax T).any (·.hasIntrinsicSizingFunction)

theorem GoodItem.ok {ax : Ax} {n : Int} {T : List (GridTrack α)} {it : GItem α} (h : GoodItem ax n T it) :
    ItemOK ax it := ⟨h.even, h.span⟩

theorem frame_of_core {a b : GItem α} (h : core a = core b) : frame a = frame b := by
  have : ∀ x : GItem α, frame x = frame (core x) := fun _ => rfl
  rw [this a, this b, h]

theorem placementIndexes_frame (ax : Ax) {a b : GItem α} (h : frame a = frame b) :
    a.placementIndexes ax = b.placementIndexes ax := by
  cases ax
  · exact (congrArg GItem.columnIndexes h : (frame a).columnIndexes = (frame b).columnIndexes)
  · exact (congrArg GItem.rowIndexes h : (frame a).rowIndexes = (frame b).rowIndexes)

theorem placement_frame (ax : Ax) {a b : GItem α} (h : frame a = frame b) : a.placement ax = b.placement ax := by
  cases ax
  · exact (congrArg GItem.column h : (frame a).column = (frame b).column)
  · exact (congrArg GItem.row h : (frame a).row = (frame b).row)

theorem crossesIntr_frame (ax : Ax) {a b : GItem α} (h : frame a = frame b) :
    a.crossesIntrinsicTrack ax = b.crossesIntrinsicTrack ax := by
  cases ax
  · exact (congrArg GItem.crossesIntrinsicColumn h : (frame a).crossesIntrinsicColumn = (frame b).crossesIntrinsicColumn)
  · exact (congrArg GItem.crossesIntrinsicRow h : (frame a).crossesIntrinsicRow = (frame b).crossesIntrinsicRow)

theorem GoodItem.frame {ax : Ax} {n : Int} {T : List (GridTrack α)} {a b : GItem α} (h : frame b = frame a)
    (ha : GoodItem ax n T a) : GoodItem ax n T b := by
  have e1 := placementIndexes_frame ax h
  have e2 := placement_frame ax h
  have e3 : b.span ax = a.span ax := span_of_frame h ax
  have e4 : b.crossesFlexibleTrack ax = a.crossesFlexibleTrack ax := flex_of_frame h ax
  have e5 := crossesIntr_frame ax h
  have e6 : b.spannedTracks ax T = a.spannedTracks ax T := by
    unfold GItem.spannedTracks GItem.trackRange; rw [e1]
  exact ⟨by unfold Even2; rw [e1]; exact ha.even, by rw [e1, e3]; exact ha.span, by rw [e1]; exact ha.lt,
    by rw [e1, e2]; exact ha.start, by rw [e4, e6]; exact ha.flex, by rw [e5, e6]; exact ha.intr⟩

theorem GoodItem.core {ax : Ax} {n : Int} {T : List (GridTrack α)} {a b : GItem α} (h : core b = core a)
    (ha : GoodItem ax n T a) : GoodItem ax n T b := ha.frame (frame_of_core h)

/-- the sizing functions of a track: all the crossing flags depend on -/
def fns (t : GridTrack α) : MinTrack α × MaxTrack α := (t.minFn, t.maxFn)

theorem any_slice_fns (p : GridTrack α → Bool) (hp : ∀ a b : GridTrack α, fns a = fns b → p a = p b)
    {T T' : List (GridTrack α)} (h : T'.map fns = T.map fns) (lo hi : Nat) :
    (sliceOf T' lo hi).any p = (sliceOf T lo hi).any p := by
  have : ∀ l l' : List (GridTrack α), l'.map fns = l.map fns → l'.any p = l.any p := by
    intro l
    induction l with
    | nil => intro l' h; cases l' with
      | nil => rfl
      | cons _ _ => simp at h
    | cons a l ih =>
      intro l' h
      cases l' with
      | nil => simp at h
      | cons b l' =>
        simp only [List.map_cons, List.cons.injEq] at h
        simp only [List.any_cons, hp b a h.1, ih l' h.2]
  apply this
  unfold sliceOf
  rw [List.map_take, List.map_take, List.map_drop, List.map_drop, h]

theorem isFlexible_fns (a b : GridTrack α) (h : fns a = fns b) : a.isFlexible = b.isFlexible := by
  have : a.maxFn = b.maxFn := congrArg Prod.snd h
  unfold GridTrack.isFlexible; rw [this]

theorem hasIntrinsic_fns (a b : GridTrack α) (h : fns a = fns b) :
    a.hasIntrinsicSizingFunction = b.hasIntrinsicSizingFunction := by
  have h1 : a.maxFn = b.maxFn := congrArg Prod.snd h
  have h2 : a.minFn = b.minFn := congrArg Prod.fst h
  unfold GridTrack.hasIntrinsicSizingFunction; rw [h1, h2]

theorem GoodItem.tracks {ax : Ax} {n : Int} {T T' : List (GridTrack α)} {a : GItem α} (h : T'.map fns = T.map fns)
    (ha : GoodItem ax n T a) : GoodItem ax n T' a :=
  ⟨ha.even, ha.span, ha.lt, ha.start,
    by rw [ha.flex]; exact (any_slice_fns _ isFlexible_fns h _ _).symm,
    by rw [ha.intr]; exact (any_slice_fns _ hasIntrinsic_fns h _ _).symm⟩

theorem absI_valid (ax : Ax) (w : Option α) {n : Int} {T : List (GridTrack α)} {it : GItem α}
    (h : GoodItem ax n T it) : (absI ax w it).start < (absI ax w it).end := by
  have h1 := h.even.1
  have h2 := h.even.2
  have h3 := h.lt
  show (it.placementIndexes ax).start / 2 < (it.placementIndexes ax).end / 2
  omega

/-- `determine_if_item_crosses_flexible_or_intrinsic_tracks` of the pure algorithm changes nothing -/
theorem determineCrossing_absI (ax : Ax) (w : Option α) {n : Int} {T : List (GridTrack α)} {it : GItem α}
    (h : GoodItem ax n T it) : determineCrossing T (absI ax w it) = absI ax w it := by
  simp only [determineCrossing, absI_slice ax w it h.even T]
  rw [← h.flex, ← h.intr]
  rfl

theorem determineCrossing_absX (ax : Ax) (w : Option α) {n : Int} {T : List (GridTrack α)} {it : GItem α}
    (h : GoodItem ax n T it) : determineCrossing T (absX ax w it) = absX ax w it := by
  have : sliceOf T (absX ax w it).lo (absX ax w it).hi = sliceOf T (absI ax w it).lo (absI ax w it).hi := rfl
  simp only [determineCrossing, this, absI_slice ax w it h.even T]
  rw [← h.flex, ← h.intr]
  rfl

/-! ### `resolve_intrinsic_track_sizes` -/

theorem pairwise_extL {ax : Ax} (R : GItem α → GItem α → Prop) (R' : GItem α → GItem α → Prop) {a b : List (GItem α)}
    (h : ExtL ax a b) (hR : ∀ x x' y y', x ∈ a → y ∈ a → ExtI ax x x' → ExtI ax y y' → R x y → R' x' y')
    (hp : a.Pairwise R) : b.Pairwise R' := by
  induction h with
  | nil => exact List.Pairwise.nil
  | cons e k ih =>
    rename_i x x' l l'
    rw [List.pairwise_cons] at hp ⊢
    refine ⟨fun y' hy' => ?_, ih (fun p p' q q' hp' hq' => hR p p' q q' (List.mem_cons_of_mem _ hp')
      (List.mem_cons_of_mem _ hq')) hp.2⟩
    obtain ⟨y, hy, ey⟩ := k.mem y' hy'
    exact hR x x' y y' List.mem_cons_self (List.mem_cons_of_mem _ hy) e ey (hp.1 y hy)

theorem resolveIntrinsicTrackSizesM_spec (s : Sizer α) (tracks : List (GridTrack α)) (items : List (GItem α))
    (avail : AvailableSpace α) (n : Int) (T : List (GridTrack α)) (hg : ∀ it ∈ items, GoodItem s.axis n T it) :
    GPost (fun r => ExtL s.axis (items.mergeSort (GridModel.itemLe s.axis)) r.1 ∧ ∀ F, ExtL s.axis r.1 F →
        r.2 = resolveIntrinsicTrackSizes tracks (F.map (absI s.axis s.innerNodeSize.width)) avail
          (sget s.innerNodeSize s.axis))
      (resolveIntrinsicTrackSizesM s tracks items avail) := by
  unfold resolveIntrinsicTrackSizesM
  simp only []
  have hmem : ∀ it ∈ items.mergeSort (GridModel.itemLe s.axis), GoodItem s.axis n T it :=
    fun it hit => hg it (List.mem_mergeSort.mp hit)
  have hsorted : (items.mergeSort (GridModel.itemLe s.axis)).Pairwise fun a b => GridModel.itemLe s.axis a b = true :=
    List.pairwise_mergeSort (fun a b c h1 h2 => by rw [itemLeM_eq] at *; exact leKey_trans _ _ _ _ _ _ _ _ _ h1 h2)
      (fun a b => by rw [itemLeM_eq, itemLeM_eq]; exact leKey_total _ _ _ _ _ _) _
  refine GPost_bind _ _ _ _ (batchLoopM_spec s avail (sget s.innerNodeSize s.axis)
    (sumF (tracks.map (·.flexFactor))) _ _ 0 tracks (fun it hit => (hmem it hit).ok) (LI_zero _ _))
    fun ⟨b, t⟩ hb => ?_
  simp only [] at hb ⊢
  refine GPost_pure _ _ ⟨hb.1, fun F hF => ?_⟩
  have hSF := hb.1.trans hF
  -- the abstraction of the final list is sorted
  have hpw : (F.map (absI s.axis s.innerNodeSize.width)).Pairwise fun a b => GridTracks.itemLe a b = true := by
    rw [List.pairwise_map]
    refine pairwise_extL _ _ hSF ?_ hsorted
    intro x x' y y' hx hy ex ey hxy
    have gx := (hmem x hx).core ex.1
    have gy := (hmem y hy).core ey.1
    rw [itemLeP_eq]
    rw [itemLeM_eq] at hxy
    have e1 : (absI s.axis s.innerNodeSize.width x').span = x.span s.axis := by
      rw [absI_span _ _ _ gx.ok, span_core s.axis ex.1]
    have e2 : (absI s.axis s.innerNodeSize.width y').span = y.span s.axis := by
      rw [absI_span _ _ _ gy.ok, span_core s.axis ey.1]
    have e3 : (absI s.axis s.innerNodeSize.width x').crossesFlexible = x.crossesFlexibleTrack s.axis :=
      crossesFlex_core s.axis ex.1
    have e4 : (absI s.axis s.innerNodeSize.width y').crossesFlexible = y.crossesFlexibleTrack s.axis :=
      crossesFlex_core s.axis ey.1
    have e5 : (((absI s.axis s.innerNodeSize.width x').start : Nat) : Int) = (x.placement s.axis).start + n := by
      rw [← placement_core s.axis ex.1]; exact gx.start
    have e6 : (((absI s.axis s.innerNodeSize.width y').start : Nat) : Int) = (y.placement s.axis).start + n := by
      rw [← placement_core s.axis ey.1]; exact gy.start
    rw [e1, e2, e3, e4, e5, e6, leKey_shift]
    exact hxy
  unfold resolveIntrinsicTrackSizes
  simp only []
  rw [List.mergeSort_of_pairwise hpw, List.length_map, hSF.length, hb.2 F hF]
  rfl

/-! ### `expand_flexible_tracks` -/

theorem absX_lo_hi (ax : Ax) (w : Option α) (it : GItem α) :
    (absX ax w it).lo = (absI ax w it).lo ∧ (absX ax w it).hi = (absI ax w it).hi ∧
    (absX ax w it).crossesFlexible = it.crossesFlexibleTrack ax := ⟨rfl, rfl, rfl⟩

theorem flexItemFractions_spec (ax : Ax) (w : Option α) (inner : Size (Option α)) (tracks : List (GridTrack α)) :
    ∀ items : List (GItem α), (∀ it ∈ items, Even2 ax it) →
      GPost (fun r => ExtL ax items r.1 ∧ ∀ F, ExtL ax r.1 F →
          r.2 = ((F.map (absX ax w)).filter (·.crossesFlexible)).map fun I =>
            findSizeOfFr (sliceOf tracks I.lo I.hi) I.maxContent)
        (flexItemFractions ax inner tracks items)
  | [], _ => by
    refine GPost_pure _ _ ⟨.nil, fun F hF => ?_⟩
    cases hF; rfl
  | it :: rest, he => by
    unfold flexItemFractions
    have herest : ∀ x ∈ rest, Even2 ax x := fun x hx => he x (List.mem_cons_of_mem _ hx)
    split
    · rename_i hfl
      refine GPost_bind _ _ _ _ (maxContentContributionCached_spec ax it Size.none inner) fun ⟨mc, it'⟩ h1 => ?_
      simp only [] at h1 ⊢
      refine GPost_bind _ _ _ _ (flexItemFractions_spec ax w inner tracks rest herest) fun ⟨rest', frs⟩ h2 => ?_
      simp only [] at h2 ⊢
      refine GPost_pure _ _ ⟨.cons h1.1 h2.1, fun F hF => ?_⟩
      cases hF with
      | cons e k =>
        rename_i itF restF
        have hc : core itF = core it := (h1.1.trans e).1
        have hflF : (absX ax w itF).crossesFlexible = true := by
          show itF.crossesFlexibleTrack ax = true
          rw [crossesFlex_core ax hc]; exact hfl
        simp only [List.map_cons, List.filter_cons, hflF, if_true]
        rw [h2.2 _ k]
        congr 1
        have hk : KMaxRaw ax it' mc := h1.2
        rw [(hk.ext e).toAbsX]
        show findSizeOfFr (it'.spannedTracks ax tracks) mc = _
        rw [← spannedTracks_core ax tracks e.1, ← absI_slice ax w itF ((he it List.mem_cons_self).core hc)]
        rfl
    · rename_i hfl
      refine GPost_bind _ _ _ _ (flexItemFractions_spec ax w inner tracks rest herest) fun ⟨rest', frs⟩ h2 => ?_
      simp only [] at h2 ⊢
      refine GPost_pure _ _ ⟨.cons (ExtI.refl _ _) h2.1, fun F hF => ?_⟩
      cases hF with
      | cons e k =>
        rename_i itF restF
        have hflF : (absX ax w itF).crossesFlexible = false := by
          show itF.crossesFlexibleTrack ax = false
          rw [crossesFlex_core ax e.1]; simpa using hfl
        simp only [List.map_cons, List.filter_cons, hflF, Bool.false_eq_true, if_false]
        exact h2.2 _ k

/-- `max_by(total_cmp)` and `max_by(<)` agree (no negative zero): true of exact rationals -/
def TotalIsLt (α : Type) [Num α] : Prop := ∀ a b : α, totalLt a b = Num.flt a b

theorem maxByTotal_eq (hT : TotalIsLt α) (l : List α) : maxByTotal l = maxList l := by
  cases l with
  | nil => rfl
  | cons x rest =>
    simp only [maxByTotal, maxList]
    congr 2
    funext acc y
    rw [hT]

theorem expandFlexibleTracksM_spec (hT : TotalIsLt α) (ax : Ax) (w : Option α) (tracks : List (GridTrack α))
    (items : List (GItem α)) (mn mx : Option α) (av : AvailableSpace α) (inner : Size (Option α))
    (he : ∀ it ∈ items, Even2 ax it) :
    GPost (fun r => ExtL ax items r.1 ∧ ∀ F, ExtL ax r.1 F →
        r.2 = expandFlexibleTracks tracks (F.map (absX ax w)) mn mx av)
      (expandFlexibleTracksM ax tracks items mn mx av inner) := by
  unfold expandFlexibleTracksM
  cases av with
  | definite a =>
    refine GPost_bind (fun r => r = (items, if Num.fle (a - sumF (tracks.map (·.baseSize))) 0 then 0
      else findSizeOfFr tracks a)) _ _ _ (GPost_pure _ _ rfl) fun ⟨its, ff⟩ h => ?_
    cases h
    exact GPost_pure _ _ ⟨ExtL.refl _ _, fun F hF => rfl⟩
  | minContent =>
    refine GPost_bind (fun r => r = (items, (0 : α))) _ _ _ (GPost_pure _ _ rfl) fun ⟨its, ff⟩ h => ?_
    cases h
    exact GPost_pure _ _ ⟨ExtL.refl _ _, fun F hF => rfl⟩
  | maxContent =>
    simp only []
    refine GPost_bind _ _ _ _ (GPost_bind _ _ _ _ (flexItemFractions_spec ax w inner tracks items he)
      fun ⟨its, frs⟩ h => GPost_pure (fun r : List (GItem α) × α => ExtL ax items r.1 ∧ ∀ F, ExtL ax r.1 F → r.2 =
        (let a := (maxList ((tracks.filter (·.maxFn.isFr)).map fun t =>
            let ff := t.flexFactor
            if Num.flt 1 ff then t.baseSize / ff else t.baseSize)).getD 0
          let b := (maxList (((F.map (absX ax w)).filter (·.crossesFlexible)).map fun it =>
            findSizeOfFr (sliceOf tracks it.lo it.hi) it.maxContent)).getD 0
          let flexFraction := Num.fmax a b
          let hypothetical : α := sumF (tracks.map fun t => match t.maxFn with
            | .fr v => Num.fmax t.baseSize (v * flexFraction)
            | _ => t.baseSize)
          let mn' := mn.getD 0
          if Num.flt hypothetical mn' then findSizeOfFr tracks mn'
          else match mx with
            | some mx => if Num.flt mx hypothetical then findSizeOfFr tracks mx else flexFraction
            | none => flexFraction)) _ ⟨h.1, fun F hF => ?_⟩) fun ⟨its, ff⟩ h => ?_
    · simp only [] at h ⊢
      rw [maxByTotal_eq hT, maxByTotal_eq hT, h.2 F hF]
      rfl
    · simp only [] at h ⊢
      refine GPost_pure _ _ ⟨h.1, fun F hF => ?_⟩
      rw [h.2 F hF]
      rfl

/-! ### `track_sizing_algorithm` -/

/-- the pure track sizing algorithm with a separate item list for step 11.7 (`expand_flexible_tracks`) -/
def trackSizing2 (p : SizingParams α) (tracks : List (GridTrack α)) (items itemsX : List (Item α)) :
    List (GridTrack α) :=
  let tracks := initializeTrackSizes tracks p.axisInner
  if tracks.all (fun t => t.growthLimit.eqF t.baseSize) then tracks else
  let items := items.map (determineCrossing tracks)
  let itemsX := itemsX.map (determineCrossing tracks)
  let tracks := resolveIntrinsicTrackSizes tracks items p.avail p.axisInner
  let tracks := maximiseTracks tracks p.axisInner p.avail
  let tracks := expandFlexibleTracks tracks itemsX p.axisMinSize p.axisMaxSize p.availForExpansion
  if p.stretch then stretchAutoTracks tracks p.axisMinSize p.availForExpansion else tracks

/-- with the same items in both places it is the pure algorithm of Model/FrSize.lean -/
theorem trackSizing2_self (p : SizingParams α) (tracks : List (GridTrack α)) (items : List (Item α)) :
    trackSizing2 p tracks items items = trackSizingAlgorithm p tracks items := rfl

theorem trackSizing2_early (p : SizingParams α) (tracks : List (GridTrack α)) (items itemsX : List (Item α))
    (h : (initializeTrackSizes tracks p.axisInner).all (fun t => t.growthLimit.eqF t.baseSize) = true) :
    trackSizing2 p tracks items itemsX = initializeTrackSizes tracks p.axisInner := by
  unfold trackSizing2
  simp only []
  rw [if_pos h]

theorem trackSizing2_late (p : SizingParams α) (tracks : List (GridTrack α)) (items itemsX : List (Item α))
    (h : ¬ (initializeTrackSizes tracks p.axisInner).all (fun t => t.growthLimit.eqF t.baseSize) = true) :
    trackSizing2 p tracks items itemsX =
      (let T0 := initializeTrackSizes tracks p.axisInner
       let T3 := expandFlexibleTracks (maximiseTracks (resolveIntrinsicTrackSizes T0
          (items.map (determineCrossing T0)) p.avail p.axisInner) p.axisInner p.avail)
          (itemsX.map (determineCrossing T0)) p.axisMinSize p.axisMaxSize p.availForExpansion
       if p.stretch then stretchAutoTracks T3 p.axisMinSize p.availForExpansion else T3) := by
  unfold trackSizing2
  simp only []
  rw [if_neg h]

/-- the pure parameters of a run -/
def paramsOf (a : RunArgs α) : SizingParams α :=
  { axisMinSize := a.axisMinSize, axisMaxSize := a.axisMaxSize, stretch := a.axisAlignment == .stretch,
    avail := sget a.availableGridSpace a.axis, axisInner := sget a.innerNodeSize a.axis }

theorem initializeTrackSizes_fns (T : List (GridTrack α)) (inner : Option α) :
    (initializeTrackSizes T inner).map fns = T.map fns := by
  unfold initializeTrackSizes
  rw [List.map_map]
  rfl

theorem mem_of_updP {ax : Ax} {a b : List (GItem α)} (h : UpdP ax a b) (y : GItem α) (hy : y ∈ b) :
    ∃ x ∈ a, frame y = frame x := by
  have : frame y ∈ a.map frame := (h.1.mem_iff).1 (List.mem_map_of_mem hy)
  obtain ⟨x, hx, e⟩ := List.mem_map.1 this
  exact ⟨x, hx, e.symm⟩

/-- **the refinement of one run**: whatever the children answer, the axis tracks a run of the track sizing program returns
are those the pure algorithm computes from the contents of the returned items' contribution caches -/
theorem trackSizingAlgorithmM_refines (hT : TotalIsLt α) (a : RunArgs α) (st : RunState α) (n : Int)
    (hg : ∀ it ∈ st.items, GoodItem a.axis n st.axisTracks it) :
    GPost (fun st' =>
        st'.axisTracks = trackSizing2 (paramsOf a) st.axisTracks
          (st'.items.map (absI a.axis a.innerNodeSize.width)) (st'.items.map (absX a.axis a.innerNodeSize.width)) ∧
        ∀ it ∈ st'.items, GoodItem a.axis n st.axisTracks it)
      (trackSizingAlgorithmM a st) := by
  unfold trackSizingAlgorithmM
  simp only []
  have hfn := initializeTrackSizes_fns st.axisTracks (sget a.innerNodeSize a.axis)
  refine GPost_bind (fun items1 => ∀ y ∈ items1, GoodItem a.axis n st.axisTracks y) _ _ _ ?_ fun items1 h1 => ?_
  · split
    · refine GPost_mono _ _ _ ?_
        (Op_GPost _ _ _ _ _ _ (POp_resolveItemBaselines a.axis a.axis st.items a.innerNodeSize))
      intro r hr y hy
      obtain ⟨x, hx, e⟩ := mem_of_updP hr y hy
      exact (hg x hx).frame e
    · exact GPost_pure _ _ hg
  split
  · rename_i hall
    refine GPost_pure _ _ ⟨?_, h1⟩
    exact (trackSizing2_early (paramsOf a) st.axisTracks _ _ hall).symm
  · rename_i hall
    have h0 : ∀ y ∈ items1, GoodItem a.axis n (initializeTrackSizes st.axisTracks (sget a.innerNodeSize a.axis)) y :=
      fun y hy => (h1 y hy).tracks hfn
    refine GPost_bind _ _ _ _ (resolveIntrinsicTrackSizesM_spec
      { otherAxisTracks := _, est := a.est, axis := a.axis, innerNodeSize := a.innerNodeSize } _ items1
      (sget a.availableGridSpace a.axis) n _ h0) fun ⟨items2, t2⟩ h2 => ?_
    simp only [] at h2 ⊢
    have g2 : ∀ y ∈ items2, GoodItem a.axis n (initializeTrackSizes st.axisTracks (sget a.innerNodeSize a.axis)) y :=
      h2.1.forall_core _ (fun x y h hx => hx.core h) (fun y hy => h0 y (List.mem_mergeSort.mp hy))
    refine GPost_bind _ _ _ _ (expandFlexibleTracksM_spec hT a.axis a.innerNodeSize.width _ items2 a.axisMinSize
      a.axisMaxSize _ a.innerNodeSize (fun y hy => (g2 y hy).even)) fun ⟨items3, t3⟩ h3 => ?_
    simp only [] at h3 ⊢
    have g3 : ∀ y ∈ items3, GoodItem a.axis n (initializeTrackSizes st.axisTracks (sget a.innerNodeSize a.axis)) y :=
      h3.1.forall_core _ (fun x y h hx => hx.core h) g2
    refine GPost_pure _ _ ⟨?_, fun y hy => (g3 y hy).tracks (by rw [hfn])⟩
    simp only []
    have e1 : (items3.map (absI a.axis a.innerNodeSize.width)).map
        (determineCrossing (initializeTrackSizes st.axisTracks (sget a.innerNodeSize a.axis))) =
        items3.map (absI a.axis a.innerNodeSize.width) := by
      rw [List.map_map]
      exact List.map_congr_left fun y hy => determineCrossing_absI _ _ (g3 y hy)
    have e2 : (items3.map (absX a.axis a.innerNodeSize.width)).map
        (determineCrossing (initializeTrackSizes st.axisTracks (sget a.innerNodeSize a.axis))) =
        items3.map (absX a.axis a.innerNodeSize.width) := by
      rw [List.map_map]
      exact List.map_congr_left fun y hy => determineCrossing_absX _ _ (g3 y hy)
    rw [trackSizing2_late (paramsOf a) st.axisTracks _ _ hall]
    simp only []
    rw [show (paramsOf a).axisInner = sget a.innerNodeSize a.axis from rfl, e1, e2,
      h3.2 items3 (ExtL.refl _ _), h2.2 items3 h3.1]
    rfl

end GridLift
