/-
  C10, tree-level theorem — part 5: the positions the in-flow pass assigns satisfy the clauses of the specification's
  `flow` (`walk_flow`), when every in-flow child's answer meets the specification (`KidsMeet`) and honours the known
  width (`KidsWide`).
-/
import TaffyVerif.Lemmas.C10TreeWalk

set_option linter.unusedSectionVars false

namespace C10Thm
open MarginCollapse BlockModel C10Tree C10Conv

/-- horizontal padding + border of a box, as block.rs adds them up -/
def pbW (s : Style Rat) : Rat := (pxP s.padding.left + pxP s.border.left) + (pxP s.padding.right + pxP s.border.right)

/-- every in-flow child honours a known width: `max(known, padding + border)` -/
def KidsWide (ans : Nat → LayoutInput Rat → LayoutOutput Rat) : Nat → List (STree Rat) → Prop
  | _, [] => True
  | idx, t :: ts =>
    (kidInFlow t = true → ∀ inp kw, inp.runMode = .performLayout → inp.knownDimensions.width = some kw →
      (ans idx inp).size.width = max kw (pbW t.style)) ∧ KidsWide ans (idx + 1) ts

/-- `Ts` are the specification trees of `kids` (children indexed from `idx`) whose own boxes carry the layouts `L` -/
def Lay (L : Nat → Layout Rat) : Nat → List (STree Rat) → List Tree → Prop
  | _, [], [] => True
  | idx, t :: ts, T :: Ts =>
    strip T = styleTree t ∧ T.box.y = (L idx).location.y ∧ T.box.h = (L idx).size.height ∧
      T.box.w = (L idx).size.width ∧ Lay L (idx + 1) ts Ts
  | _, [], _ :: _ => False
  | _, _ :: _, [] => False

theorem strip_facts (T : Tree) (t : STree Rat) (h : strip T = styleTree t) :
    T.box.inFlow = kidInFlow t ∧ collapsesThrough T = collapsesThrough (styleTree t) ∧
    topSet T = topSet (styleTree t) ∧ bottomSet T = bottomSet (styleTree t) ∧
    stripBox T.box = sbox t.style t.ctx Layout.new := by
  refine ⟨?_, ?_, ?_, ?_, ?_⟩
  · rw [← styleTree_inFlow, ← h, strip_box]; rfl
  · rw [← h, collapsesThrough_strip]
  · rw [← h, topSet_strip]
  · rw [← h, bottomSet_strip]
  · rw [← strip_box, h, styleTree_box]

theorem itemInput_width (c : FlowCtx Rat) (idx order : Nat) (cs : Style Rat) (inner : Size (Option Rat)) (h : Px cs) :
    (itemInput c (generateItem idx order cs inner)).knownDimensions.width
      = some ((dimO cs.size.width).getD (c.containerInnerWidth - (pxA cs.margin.left + pxA cs.margin.right))) := by
  obtain ⟨e1, e2, e3⟩ := item_sizes idx order cs inner h
  have ht : (generateItem idx order cs inner).isTable = false := h.tbl
  simp only [itemInput, itemKnownDimensions, ht, e1, e2, e3, Size.oo_clamp, itemNonAutoXMarginSum,
    item_margin c idx order cs inner h, Option.getD_some]
  rfl


theorem flow_skip (p : Box) (atTop solid : Bool) (edge : Rat) (pending : List Rat) (i0 : Nat) (T : Tree) (Ts : List Tree)
    (h : T.box.inFlow = false) :
    flow p atTop solid edge pending i0 (T :: Ts) = flow p atTop solid edge pending (i0 + size T) Ts := by
  simp only [flow, h, Bool.not_false, if_true]

theorem flow_through (p : Box) (atTop solid : Bool) (edge : Rat) (pending : List Rat) (i0 : Nat) (T : Tree)
    (Ts : List Tree) (h : T.box.inFlow = true) (ht : collapsesThrough T = true)
    (hw : T.box.width.isNone = true →
      T.box.paddingLeft + T.box.paddingRight + T.box.borderLeft + T.box.borderRight ≤
        p.w - p.paddingLeft - p.paddingRight - p.borderLeft - p.borderRight - T.box.marginLeft - T.box.marginRight →
      T.box.w = p.w - p.paddingLeft - p.paddingRight - p.borderLeft - p.borderRight - T.box.marginLeft - T.box.marginRight)
    (hy : T.box.y = if atTop then edge else edge + collapsed (pending ++ topSet T))
    (hh : T.box.h = 0)
    (hrest : flow p atTop solid edge (pending ++ topSet T ++ bottomSet T) (i0 + size T) Ts = []) :
    flow p atTop solid edge pending i0 (T :: Ts) = [] := by
  simp only [flow, h, ht, Bool.not_true, Bool.false_eq_true, if_false, if_true, hrest, List.append_nil]
  have e1 : (T.box.y != if atTop = true then edge else edge + collapsed (pending ++ topSet T)) = false := by
    rw [← hy]; simp
  have e2 : (T.box.h != 0) = false := by rw [hh]; simp
  simp only [e1, e2, Bool.false_eq_true, if_false, List.append_nil]
  split
  · rename_i hc
    simp only [Bool.and_eq_true, decide_eq_true_eq] at hc
    have := hw hc.1.1 hc.1.2
    rw [this] at hc
    simp at hc
  · rfl

theorem flow_solid (p : Box) (atTop solid : Bool) (edge : Rat) (pending : List Rat) (i0 : Nat) (T : Tree)
    (Ts : List Tree) (h : T.box.inFlow = true) (ht : collapsesThrough T = false)
    (hw : T.box.width.isNone = true →
      T.box.paddingLeft + T.box.paddingRight + T.box.borderLeft + T.box.borderRight ≤
        p.w - p.paddingLeft - p.paddingRight - p.borderLeft - p.borderRight - T.box.marginLeft - T.box.marginRight →
      T.box.w = p.w - p.paddingLeft - p.paddingRight - p.borderLeft - p.borderRight - T.box.marginLeft - T.box.marginRight)
    (hy : T.box.y = if atTop then edge else edge + collapsed (pending ++ topSet T))
    (hrest : flow p false true (T.box.y + T.box.h) (bottomSet T) (i0 + size T) Ts = []) :
    flow p atTop solid edge pending i0 (T :: Ts) = [] := by
  simp only [flow, h, ht, Bool.not_true, Bool.false_eq_true, if_false, hrest, List.append_nil]
  have e1 : (T.box.y != if atTop = true then edge else edge + collapsed (pending ++ topSet T)) = false := by
    rw [← hy]; simp
  simp only [e1, Bool.false_eq_true, if_false, List.append_nil]
  split
  · rename_i hc
    simp only [Bool.and_eq_true, decide_eq_true_eq] at hc
    have := hw hc.1.1 hc.1.2
    rw [this] at hc
    simp at hc
  · rfl


theorem box_of_strip (T : Tree) (s : Style Rat) (ctx : Option (MeasureSpec Rat))
    (h : stripBox T.box = sbox s ctx Layout.new) :
    T.box.marginLeft = pxA s.margin.left ∧ T.box.marginRight = pxA s.margin.right ∧
    T.box.paddingLeft = pxP s.padding.left ∧ T.box.paddingRight = pxP s.padding.right ∧
    T.box.borderLeft = pxP s.border.left ∧ T.box.borderRight = pxP s.border.right ∧
    T.box.width = dimO s.size.width := by
  have e : ∀ f : Box → Rat, (∀ b, f (stripBox b) = f b) → f T.box = f (sbox s ctx Layout.new) := by
    intro f hf; rw [← h, hf]
  refine ⟨e (·.marginLeft) (fun _ => rfl), e (·.marginRight) (fun _ => rfl), e (·.paddingLeft) (fun _ => rfl),
    e (·.paddingRight) (fun _ => rfl), e (·.borderLeft) (fun _ => rfl), e (·.borderRight) (fun _ => rfl), ?_⟩
  have : (stripBox T.box).width = T.box.width := rfl
  rw [← this, h]; rfl

theorem walk_flow (c : FlowCtx Rat) (inner : Size (Option Rat)) (ans : Nat → LayoutInput Rat → LayoutOutput Rat)
    (p : Box) (L : Nat → Layout Rat)
    (hpw : p.w - p.paddingLeft - p.paddingRight - p.borderLeft - p.borderRight = c.containerInnerWidth) :
    ∀ (kids : List (STree Rat)) (Ts : List Tree) (idx order : Nat) (st : FlowState Rat) (atTop solid : Bool)
      (edge : Rat) (pending : List Rat) (i0 : Nat),
      inFamilyCoreKids kids = true → KidsMeet ans idx kids → KidsWide ans idx kids → Lay L idx kids Ts →
      (∀ i l, (i, l) ∈ (walk c inner ans (kids.map STree.style) idx order st).2.2 → L i = l) →
      StateRel c st atTop solid edge pending →
      flow p atTop solid edge pending i0 Ts = [] := by
  intro kids
  induction kids with
  | nil =>
    intro Ts idx order st atTop solid edge pending i0 _ _ _ hlay _ _
    cases Ts with
    | nil => simp only [flow]
    | cons _ _ => simp only [Lay] at hlay
  | cons t ts ih =>
    intro Ts idx order st atTop solid edge pending i0 hfam hmeet hwide hlay hL hrel
    cases Ts with
    | nil => simp only [Lay] at hlay
    | cons T Ts =>
      simp only [Lay] at hlay
      obtain ⟨hstrip, hy, hh, hw, hlay'⟩ := hlay
      simp only [inFamilyCoreKids, Bool.and_eq_true] at hfam
      simp only [KidsMeet] at hmeet
      simp only [KidsWide] at hwide
      obtain ⟨f1, f2, f3, f4, f5⟩ := strip_facts T t hstrip
      cases t with
      | node s ctx gk =>
        have hpx := inFamilyCore_px s ctx gk hfam.1
        simp only [List.map_cons, STree.style] at hL
        by_cases hhid : s.isHidden = true
        · have hin : T.box.inFlow = false := by
            rw [f1]; simp only [kidInFlow, STree.style]
            have : (s.display == Display.none) = true := hhid
            rw [this]; rfl
          rw [flow_skip _ _ _ _ _ _ _ _ hin]
          simp only [walk, hhid, if_true] at hL
          exact ih Ts (idx + 1) order st atTop solid edge pending _ hfam.2 hmeet.2 hwide.2 hlay' hL hrel
        · by_cases hab : (s.position == Position.absolute) = true
          · have hin : T.box.inFlow = false := by
              rw [f1]; simp only [kidInFlow, STree.style, hab]; simp
            rw [flow_skip _ _ _ _ _ _ _ _ hin]
            simp only [walk, hhid, hab, if_true, Bool.false_eq_true, if_false] at hL
            exact ih Ts (idx + 1) (order + 1) st atTop solid edge pending _ hfam.2 hmeet.2 hwide.2 hlay' hL hrel
          · have hh' : s.isHidden = false := by simpa using hhid
            have hab' : (s.position == Position.absolute) = false := by simpa using hab
            have hrelpos : s.position = .relative := by
              cases hp : s.position with
              | relative => rfl
              | absolute => rw [hp] at hab'; exact absurd hab' (by decide)
            have hkin : kidInFlow (.node s ctx gk) = true := by
              simp only [kidInFlow, STree.style]
              have : (s.display == Display.none) = false := hh'
              rw [this, hab']; rfl
            have hin : T.box.inFlow = true := by rw [f1]; exact hkin
            have hm := hmeet.1 hkin _ (itemInput_inFlowIn c idx order s inner hpx)
            have hwd := hwide.1 hkin _ _ rfl (itemInput_width c idx order s inner hpx)
            simp only [walk, hh', hab', Bool.false_eq_true, if_false] at hL
            generalize hout : ans idx (itemInput c (generateItem idx order s inner)) = out at hm hwd hL
            have htop : topMarginSet c (generateItem idx order s inner) out = toSet (topSet T) := by
              rw [item_topSet c idx order s inner hpx, f3, ← hm.top, styleTree_box]; rfl
            have hbot : bottomMarginSet c (generateItem idx order s inner) out = toSet (bottomSet T) := by
              rw [item_bottomSet c idx order s inner hpx, f4, ← hm.bottom, styleTree_box]; rfl
            have hins := item_insetY idx order s inner hpx hrelpos
            have hLi : L idx = (placeItem c st (generateItem idx order s inner) out).layout :=
              hL idx _ List.mem_cons_self
            have hL' : ∀ i l, (i, l) ∈ (walk c inner ans (ts.map STree.style) (idx + 1) (order + 1)
                (placeItem c st (generateItem idx order s inner) out).st).2.2 → L i = l :=
              fun i l hmem => hL i l (List.mem_cons_of_mem _ hmem)
            have hyy : T.box.y = if atTop then edge else edge + collapsed (pending ++ topSet T) := by
              rw [hy, hLi]; exact step_y c st _ out atTop solid edge pending _ hrel htop hins
            obtain ⟨b1, b2, b3, b4, b5, b6, b7⟩ := box_of_strip T s ctx (by simpa only [STree.style, STree.ctx] using f5)
            have hwid : T.box.width.isNone = true →
                T.box.paddingLeft + T.box.paddingRight + T.box.borderLeft + T.box.borderRight ≤
                  p.w - p.paddingLeft - p.paddingRight - p.borderLeft - p.borderRight - T.box.marginLeft - T.box.marginRight →
                T.box.w = p.w - p.paddingLeft - p.paddingRight - p.borderLeft - p.borderRight - T.box.marginLeft
                  - T.box.marginRight := by
              intro hn hle
              rw [hw, hLi, placeItem_size, hwd]
              rw [b7] at hn
              have hnone : dimO s.size.width = none := by
                cases hd : dimO s.size.width with
                | none => rfl
                | some v => rw [hd] at hn; cases hn
              rw [hnone, Option.getD_none, hpw, b1, b2]
              rw [hpw, b1, b2, b3, b4, b5, b6] at hle
              simp only [STree.style, pbW]
              have : (pxP s.padding.left + pxP s.border.left) + (pxP s.padding.right + pxP s.border.right)
                  ≤ c.containerInnerWidth - (pxA s.margin.left + pxA s.margin.right) := by linarith
              rw [max_eq_left this]; ring
            cases hct : out.marginsCanCollapseThrough with
            | true =>
              have hsp : collapsesThrough T = true := by rw [f2, ← hm.through]; exact hct
              refine flow_through p atTop solid edge pending i0 T Ts hin hsp hwid hyy ?_ ?_
              · rw [hh, hLi, placeItem_size]; exact hm.height0 hct
              · exact ih Ts (idx + 1) (order + 1) _ atTop solid edge _ _ hfam.2 hmeet.2 hwide.2 hlay' hL'
                  (step_through c st _ out atTop solid edge pending _ _ hrel htop hbot hct)
            | false =>
              have hsp : collapsesThrough T = false := by rw [f2, ← hm.through]; exact hct
              refine flow_solid p atTop solid edge pending i0 T Ts hin hsp hwid hyy ?_
              have hrel' := step_solid c st _ out _ hbot hins hct
              rw [hy, hh, hLi, placeItem_size]
              exact ih Ts (idx + 1) (order + 1) _ false true _ _ _ hfam.2 hmeet.2 hwide.2 hlay' hL' hrel'

end C10Thm
