/-
  C11 lifted to the flexbox program, part 1: what a PerformLayout run of `FlexModel.computeFlexboxLayout` sets for an
  absolutely positioned child.

    * `computeFlexboxLayout_perform`  a PerformLayout request runs `compute_preliminary` on the amended inputs
    * `frameK`                        the fields of `AlgoConstants` no stage changes (everything but the container sizes,
                                      the node sizes and the gap); `Post_flexPrefix_frame`
    * `flexRun_lays`/`flexRun_res`    the layouts of a run = final layout pass ++ absolute pass ++ hidden pass; the output
                                      size is the final `container_size`
    * `mem_lays_absLoop`              the layouts the absolute pass sets: `abLayout k i st (orc i (abInput k i st))`
    * `abLayout_eq_absFlex`           … which is `AbsPos.absFlex` at `AbsPos.flexCallSite` (the function C11's theorems are
                                      about), the child's answer being the answer to the query the program really sends
-/
import TaffyVerif.Lemmas.LiftRun
import TaffyVerif.Lemmas.FlexItemStages

set_option linter.unusedSectionVars false
set_option linter.unusedVariables false

namespace Lift
open FlexModel EvalFlex
open EvalBlock (Post Post_bind Post_true)

theorem Post_mono {β : Type} {P P' : β → Prop} (p : ProgM Rat β) (h : Post P p) (hh : ∀ b, P b → P' b) : Post P' p := by
  induction p with
  | pure b => exact hh b h
  | call i inp k ih => intro o; exact ih o (h o)
  | setLayout i l k ih => exact ih () h

theorem Post_and {β : Type} {P P' : β → Prop} (p : ProgM Rat β) (h : Post P p) (h' : Post P' p) :
    Post (fun b => P b ∧ P' b) p := by
  induction p with
  | pure b => exact ⟨h, h'⟩
  | call i inp k ih => intro o; exact ih o (h o) (h' o)
  | setLayout i l k ih => exact ih () h h'

theorem Post_pure {β : Type} {P : β → Prop} (b : β) (h : P b) : Post P (pure b : ProgM Rat β) := h

/-! ### the amended inputs -/

/-- the inputs `compute_flexbox_layout` hands to `compute_preliminary` -/
def flexInp (style : Style Rat) (inp : LayoutInput Rat) : LayoutInput Rat :=
  { inp with knownDimensions := styledBasedKnownDimensions style inp }

theorem flexInp_runMode (style : Style Rat) (inp : LayoutInput Rat) : (flexInp style inp).runMode = inp.runMode := rfl
theorem flexInp_parentSize (style : Style Rat) (inp : LayoutInput Rat) : (flexInp style inp).parentSize = inp.parentSize := rfl

theorem computeFlexboxLayout_perform (style : Style Rat) (cs : List (Style Rat)) (inp : LayoutInput Rat)
    (h : inp.runMode = .performLayout) :
    computeFlexboxLayout style cs inp = computePreliminary style cs (flexInp style inp) := by
  unfold computeFlexboxLayout
  simp only
  split
  · rename_i h' _ _
    rw [h] at h'; cases h'
  · rfl

/-! ### the constants no stage changes -/

/-- everything but `container_size`, `inner_container_size`, `node_inner_size`, `node_outer_size` and `gap` -/
def frameK (k : AlgoConstants Rat) : AlgoConstants Rat :=
  { k with containerSize := Size.zero, innerContainerSize := Size.zero, nodeInnerSize := Size.none,
           nodeOuterSize := Size.none, gap := Size.zero }

theorem Post_determineContainerMainSize_frame (k : AlgoConstants Rat) (av : Size (AvailableSpace Rat))
    (lines : List (FlexLineS Rat)) :
    Post (fun r => frameK r.2 = frameK k) (determineContainerMainSize k av lines) := by
  rw [FlexStages.determineContainerMainSize_eq]
  exact Post_bind _ _ (Post_true _) fun a _ => rfl

theorem Post_mainSizeStage_frame (style : Style Rat) (k : AlgoConstants Rat) (av : Size (AvailableSpace Rat))
    (lines : List (FlexLineS Rat)) :
    Post (fun r => frameK r.2 = frameK k) (mainSizeStage style k av lines) := by
  unfold mainSizeStage
  split
  · exact Post_pure _ rfl
  · refine Post_bind _ _ (Post_determineContainerMainSize_frame k av lines) fun a ha => ?_
    obtain ⟨l, k'⟩ := a
    exact Post_pure _ ha

theorem Post_hypStage_consts (inputs : LayoutInput Rat) (av : Size (AvailableSpace Rat))
    (r : List (FlexLineS Rat) × AlgoConstants Rat) : Post (fun r' => r'.2 = r.2) (hypStage inputs av r) := by
  unfold hypStage
  refine Post_bind _ _ (Post_true _) fun l1 _ => ?_
  exact Post_bind _ _ (Post_true _) fun l2 _ => Post_pure _ rfl

/-- **the measuring prefix keeps the frame of the constants** -/
theorem Post_flexPrefix_frame (style : Style Rat) (cs : List (Style Rat)) (inputs : LayoutInput Rat) :
    Post (fun r => frameK r.2 = frameK (k0 style inputs)) (flexPrefix style cs inputs) := by
  unfold flexPrefix
  refine Post_bind _ _ (Post_true _) fun items _ => ?_
  refine Post_bind _ _ (Post_mainSizeStage_frame style _ _ _) fun r hr => ?_
  exact Post_mono _ (Post_hypStage_consts inputs _ r) fun r' hr' => by rw [hr']; exact hr

theorem frameK_crossSize (k : AlgoConstants Rat) (ns : Size (Option Rat)) (lines : List (FlexLineS Rat)) :
    frameK (determineContainerCrossSize k ns lines).2 = frameK k := rfl

/-! ### the tail of a PerformLayout run -/

/-- the lines and constants the measuring prefix hands on in the run against `orc` -/
def flexMid (orc : Orc) (style : Style Rat) (cs : List (Style Rat)) (inp : LayoutInput Rat) :
    List (FlexLineS Rat) × AlgoConstants Rat :=
  res orc (flexPrefix style cs (flexInp style inp))

/-- the lines after steps 8–15 -/
def flexCrossLines (orc : Orc) (style : Style Rat) (cs : List (Style Rat)) (inp : LayoutInput Rat) :
    List (FlexLineS Rat) :=
  crossStage cs (flexInp style inp) (flexMid orc style cs inp).2 (flexMid orc style cs inp).1

/-- the final constants (after `determine_container_cross_size`) and the total line cross size -/
def flexFinalK (orc : Orc) (style : Style Rat) (cs : List (Style Rat)) (inp : LayoutInput Rat) :
    Rat × AlgoConstants Rat :=
  determineContainerCrossSize (flexMid orc style cs inp).2 (flexInp style inp).knownDimensions
    (flexCrossLines orc style cs inp)

/-- the lines the final layout pass visits -/
def flexAlignedLines (orc : Orc) (style : Style Rat) (cs : List (Style Rat)) (inp : LayoutInput Rat) :
    List (FlexLineS Rat) :=
  alignFlexLinesPerAlignContent (flexFinalK orc style cs inp).2 (flexFinalK orc style cs inp).1
    (flexCrossLines orc style cs inp)

theorem flexRun_eq (orc : Orc) (style : Style Rat) (cs : List (Style Rat)) (inp : LayoutInput Rat)
    (h : inp.runMode = .performLayout) :
    computeFlexboxLayout style cs inp =
      (flexPrefix style cs (flexInp style inp) >>= flexTail cs (flexInp style inp)) := by
  rw [computeFlexboxLayout_perform style cs inp h, computePreliminary_eq]

theorem flexTail_perform (cs : List (Style Rat)) (inputs : LayoutInput Rat) (r : List (FlexLineS Rat) × AlgoConstants Rat)
    (h : inputs.runMode = .performLayout) :
    flexTail cs inputs r =
      layoutStage cs (determineContainerCrossSize r.2 inputs.knownDimensions (crossStage cs inputs r.2 r.1)).2
        (determineContainerCrossSize r.2 inputs.knownDimensions (crossStage cs inputs r.2 r.1)).1
        (crossStage cs inputs r.2 r.1) := by
  unfold flexTail
  simp only [h]
  rfl

/-- **the layouts of a PerformLayout run**: the final layout pass, then the absolute pass, then the hidden pass -/
theorem flexRun_lays (orc : Orc) (style : Style Rat) (cs : List (Style Rat)) (inp : LayoutInput Rat)
    (h : inp.runMode = .performLayout) :
    lays orc (computeFlexboxLayout style cs inp) =
      lays orc (finalLayoutPass (flexFinalK orc style cs inp).2 (flexAlignedLines orc style cs inp)) ++
      (lays orc (absLoop (flexFinalK orc style cs inp).2 cs 0 Size.zero) ++
       lays orc (BlockModel.hiddenLoop cs 0)) := by
  rw [flexRun_eq orc style cs inp h, lays_bind]
  obtain ⟨h0, -⟩ := lays_meas orc _ _ (Meas_flexPrefix style cs (flexInp style inp))
  rw [h0, List.nil_append, flexTail_perform cs (flexInp style inp) _ h]
  unfold layoutStage
  rw [lays_bind, lays_bind, lays_bind, lays_pure, List.append_nil]
  rfl

/-- **the output size of a PerformLayout run** is the final `container_size` -/
theorem flexRun_size (orc : Orc) (style : Style Rat) (cs : List (Style Rat)) (inp : LayoutInput Rat)
    (h : inp.runMode = .performLayout) :
    (res orc (computeFlexboxLayout style cs inp)).size = (flexFinalK orc style cs inp).2.containerSize := by
  rw [flexRun_eq orc style cs inp h, res_bind, flexTail_perform cs (flexInp style inp) _ h]
  unfold layoutStage
  rw [res_bind, res_bind, res_bind, res_pure]
  rfl

/-- the frame of the final constants is the frame of `compute_constants` -/
theorem flexFinalK_frame (orc : Orc) (style : Style Rat) (cs : List (Style Rat)) (inp : LayoutInput Rat) :
    frameK (flexFinalK orc style cs inp).2 = frameK (k0 style (flexInp style inp)) := by
  unfold flexFinalK
  rw [frameK_crossSize]
  exact res_post orc _ (Post_flexPrefix_frame style cs (flexInp style inp))

/-! ### who sets what -/

/-- the children the final layout pass lays out are flex items -/
theorem mem_lays_finalLayoutPass (orc : Orc) (style : Style Rat) (cs : List (Style Rat)) (inp : LayoutInput Rat)
    (x : Nat × Layout Rat)
    (hx : x ∈ lays orc (finalLayoutPass (flexFinalK orc style cs inp).2 (flexAlignedLines orc style cs inp))) :
    ∃ s, cs[x.1]? = some s ∧ isItem s = true := by
  obtain ⟨J, hp, hJ⟩ := Lays_finalLayoutPass (flexFinalK orc style cs inp).2 (flexAlignedLines orc style cs inp)
  have h1 : x.1 ∈ idxs (flexAlignedLines orc style cs inp) := hp.mem_iff.1 (mem_lays_Lays orc J _ hJ x hx)
  obtain ⟨-, hm⟩ := lays_meas orc _ _ (Meas_flexPrefix style cs (flexInp style inp))
  have h2 : idxs (flexAlignedLines orc style cs inp) = idxs (flexMid orc style cs inp).1 := by
    simp only [idxs, flexAlignedLines, flexCrossLines, crossStage, shape_alignFlexLines,
      shape_resolveCrossAxisAutoMargins, shape_distribute, shape_determineUsedCrossSize,
      shape_handleAlignContentStretch, shape_calculateCrossSize]
  rw [h2] at h1
  have h3 : idxs (flexMid orc style cs inp).1 = iidx (items0 style cs (flexInp style inp)) := hm
  rw [h3] at h1
  exact (mem_iidx_items _ cs x.1).1 h1

/-- the layouts the absolute pass sets -/
theorem mem_lays_absLoop (orc : Orc) (k : AlgoConstants Rat) : ∀ (l : List (Style Rat)) (order : Nat) (acc : Size Rat)
    (x : Nat × Layout Rat), x ∈ lays orc (absLoop k l order acc) →
    ∃ s, l[x.1 - order]? = some s ∧ order ≤ x.1 ∧ isAbsV s = true ∧
      x.2 = FlexStages.abLayout k x.1 s (orc x.1 (FlexStages.abInput k x.1 s))
  | [], _, _, x, h => by simp [absLoop, lays_pure] at h
  | s :: rest, order, acc, x, h => by
    have step : ∀ acc', x ∈ lays orc (absLoop k rest (order + 1) acc') →
        ∃ s', (s :: rest)[x.1 - order]? = some s' ∧ order ≤ x.1 ∧ isAbsV s' = true ∧
          x.2 = FlexStages.abLayout k x.1 s' (orc x.1 (FlexStages.abInput k x.1 s')) := by
      intro acc' h'
      obtain ⟨s', h1, h2, h3, h4⟩ := mem_lays_absLoop orc k rest (order + 1) acc' x h'
      refine ⟨s', ?_, by omega, h3, h4⟩
      rw [show x.1 - order = (x.1 - (order + 1)) + 1 by omega, List.getElem?_cons_succ]
      exact h1
    rw [absLoop_cons] at h
    by_cases hs : isAbsV s = true
    · rw [if_pos hs, lays_bind, List.mem_append] at h
      rcases h with h | h
      · rw [FlexStages.absItem_eq, lays_bind, lays_computeChildLayout, List.nil_append, res_computeChildLayout,
          lays_bind, lays_setUnroundedLayout] at h
        have hnil : ∀ (c : Prop) [Decidable c] (a b : Size Rat),
            lays orc (if c then (pure a : ProgM Rat (Size Rat)) else pure b) = [] := by
          intro c _ a b; split <;> rfl
        rw [hnil, List.append_nil, List.mem_singleton] at h
        subst h
        exact ⟨s, by simp, Nat.le_refl _, hs, rfl⟩
      · exact step _ h
    · rw [if_neg hs] at h
      exact step _ h

/-! ### the layout of an absolutely positioned child is `AbsPos.absFlex` at `AbsPos.flexCallSite` -/

/-- `absFlex` reads `node_inner_size` only to build the child query -/
theorem absFlex_inner (a : AbsPos.FlexArgs Rat) (ni : Size (Option Rat)) (st : Style Rat) (out : LayoutOutput Rat) :
    AbsPos.absFlex a st (fun _ => out) = AbsPos.absFlex { a with nodeInnerSize := ni } st (fun _ => out) := rfl

theorem abLayout_eq (k : AlgoConstants Rat) (order : Nat) (st : Style Rat) (out : LayoutOutput Rat) :
    FlexStages.abLayout k order st out = AbsPos.absFlex (absArgs k order) st (fun _ => out) := rfl

/-- the arguments of the absolute pass are those of `flexCallSite`, up to `node_inner_size` -/
theorem absArgs_callSite (style : Style Rat) (inputs : LayoutInput Rat) (k : AlgoConstants Rat)
    (hk : frameK k = frameK (k0 style inputs)) (kd : Size (Option Rat)) (order : Nat) :
    { absArgs k order with nodeInnerSize := (AbsPos.flexCallSite style inputs.parentSize kd k.containerSize order).nodeInnerSize } =
      AbsPos.flexCallSite style inputs.parentSize kd k.containerSize order := by
  have e1 : k.border = (k0 style inputs).border := by
    have := congrArg AlgoConstants.border hk; exact this
  have e2 : k.scrollbarGutter = (k0 style inputs).scrollbarGutter := by
    have := congrArg AlgoConstants.scrollbarGutter hk; exact this
  have e3 : k.contentBoxInset = (k0 style inputs).contentBoxInset := by
    have := congrArg AlgoConstants.contentBoxInset hk; exact this
  have e4 : k.dir = (k0 style inputs).dir := by
    have := congrArg AlgoConstants.dir hk; exact this
  have e5 : k.isWrapReverse = (k0 style inputs).isWrapReverse := by
    have := congrArg AlgoConstants.isWrapReverse hk; exact this
  have e6 : k.justifyContent = (k0 style inputs).justifyContent := by
    have := congrArg AlgoConstants.justifyContent hk; exact this
  have e7 : k.alignItems = (k0 style inputs).alignItems := by
    have := congrArg AlgoConstants.alignItems hk; exact this
  simp only [absArgs, e1, e2, e3, e4, e5, e6, e7]
  rfl

/-- **abLayout_eq_absFlex**: the layout the absolute pass hands to `set_unrounded_layout` is `absFlex` at `flexCallSite`
for the final container size, whatever the known dimensions `kd` of the call site are taken to be -/
theorem abLayout_eq_absFlex (style : Style Rat) (inputs : LayoutInput Rat) (k : AlgoConstants Rat)
    (hk : frameK k = frameK (k0 style inputs)) (kd : Size (Option Rat)) (order : Nat) (st : Style Rat)
    (out : LayoutOutput Rat) :
    FlexStages.abLayout k order st out =
      AbsPos.absFlex (AbsPos.flexCallSite style inputs.parentSize kd k.containerSize order) st (fun _ => out) := by
  rw [abLayout_eq, absFlex_inner _ (AbsPos.flexCallSite style inputs.parentSize kd k.containerSize order).nodeInnerSize,
    absArgs_callSite style inputs k hk kd order]

/-- **flexRun_abs**: every layout a PerformLayout run sets for an absolutely positioned, box-generating child `x.1` is
`absFlex` at `flexCallSite` for the run's output size, applied to the child's answer to the query the program sends -/
theorem flexRun_abs (orc : Orc) (style : Style Rat) (cs : List (Style Rat)) (inp : LayoutInput Rat)
    (h : inp.runMode = .performLayout) (x : Nat × Layout Rat) (hx : x ∈ lays orc (computeFlexboxLayout style cs inp))
    (st : Style Rat) (hst : cs[x.1]? = some st) (hvis : st.isHidden = false) (habs : st.position = .absolute)
    (kd : Size (Option Rat)) :
    ∃ q : LayoutInput Rat,
      x.2 = AbsPos.absFlex
        (AbsPos.flexCallSite style inp.parentSize kd (res orc (computeFlexboxLayout style cs inp)).size x.1) st
        (fun _ => orc x.1 q) := by
  rw [flexRun_size orc style cs inp h]
  rw [flexRun_lays orc style cs inp h, List.mem_append, List.mem_append] at hx
  rcases hx with hx | hx | hx
  · obtain ⟨s, hs, hi⟩ := mem_lays_finalLayoutPass orc style cs inp x hx
    rw [hst] at hs; cases hs
    simp only [isItem, habs, hvis] at hi
    exact absurd hi (by decide)
  · obtain ⟨s, hs, _, _, hL⟩ := mem_lays_absLoop orc _ cs 0 Size.zero x hx
    rw [Nat.sub_zero, hst] at hs; cases hs
    exact ⟨FlexStages.abInput (flexFinalK orc style cs inp).2 x.1 st, hL.trans
      (abLayout_eq_absFlex style (flexInp style inp) _ (flexFinalK_frame orc style cs inp) kd x.1 st _)⟩
  · obtain ⟨s, hs, _, hh⟩ := mem_lays_hiddenLoop orc cs 0 x hx
    rw [Nat.sub_zero, hst] at hs; cases hs
    rw [hvis] at hh; cases hh

end Lift
