/-
  Helper lemmas for C07 / C03Flex: the freeze loop of `resolve_flexible_lengths` makes progress.
-/
import TaffyVerif.Model.FlexLine
import Mathlib.Tactic.Linarith

namespace FlexLine

/-- number of unfrozen items -/
def ucount {α : Type} (l : List (FlexItemM α)) : Nat := l.countP fun c => !c.frozen

theorem ucount_eq_zero_iff {α : Type} (l : List (FlexItemM α)) : ucount l = 0 ↔ l.all (·.frozen) = true := by
  unfold ucount
  rw [List.countP_eq_zero, List.all_eq_true]
  constructor
  · intro h c hc
    have := h c hc
    simpa using this
  · intro h c hc
    simp [h c hc]

theorem ucount_le_length {α : Type} (l : List (FlexItemM α)) : ucount l ≤ l.length := List.countP_le_length

/-- a strictly smaller predicate with a witness counts strictly less -/
theorem countP_lt_of_witness {β : Type} (p q : β → Bool) (l : List β) (hqp : ∀ c ∈ l, q c = true → p c = true)
    (hw : ∃ c ∈ l, p c = true ∧ q c = false) : l.countP q < l.countP p := by
  induction l with
  | nil => obtain ⟨c, hc, _⟩ := hw; simp at hc
  | cons a t ih =>
    have hmono : t.countP q ≤ t.countP p := by
      apply List.countP_mono_left
      intro c hc hq
      exact hqp c (List.mem_cons_of_mem _ hc) hq
    obtain ⟨c, hc, hpc, hqc⟩ := hw
    rw [List.mem_cons] at hc
    rcases hc with rfl | hc
    · rw [List.countP_cons_of_pos hpc, List.countP_cons_of_neg (by simp [hqc])]
      omega
    · have iht := ih (fun c hc => hqp c (List.mem_cons_of_mem _ hc)) ⟨c, hc, hpc, hqc⟩
      by_cases hqa : q a = true
      · have hpa := hqp a (List.mem_cons_self) hqa
        rw [List.countP_cons_of_pos hpa, List.countP_cons_of_pos hqa]; omega
      · rw [List.countP_cons_of_neg hqa]
        by_cases hpa : p a = true
        · rw [List.countP_cons_of_pos hpa]; omega
        · rw [List.countP_cons_of_neg hpa]; exact iht

theorem foldl_add_le_init {β : Type} (f : β → Rat) (l : List β) (init : Rat) (h : ∀ c ∈ l, f c ≤ 0) :
    l.foldl (fun a c => a + f c) init ≤ init := by
  induction l generalizing init with
  | nil => simp
  | cons a t ih =>
    simp only [List.foldl_cons]
    have h1 := ih (init + f a) (fun c hc => h c (List.mem_cons_of_mem _ hc))
    have h2 := h a List.mem_cons_self
    linarith

theorem foldl_add_ge_init {β : Type} (f : β → Rat) (l : List β) (init : Rat) (h : ∀ c ∈ l, 0 ≤ f c) :
    init ≤ l.foldl (fun a c => a + f c) init := by
  induction l generalizing init with
  | nil => simp
  | cons a t ih =>
    simp only [List.foldl_cons]
    have h1 := ih (init + f a) (fun c hc => h c (List.mem_cons_of_mem _ hc))
    have h2 := h a List.mem_cons_self
    linarith

theorem exists_pos_of_foldl_pos {β : Type} (f : β → Rat) (l : List β)
    (h : 0 < l.foldl (fun a c => a + f c) 0) : ∃ c ∈ l, 0 < f c := by
  by_contra hne
  have : ∀ c ∈ l, f c ≤ 0 := by
    intro c hc
    by_contra hlt
    exact hne ⟨c, hc, by linarith⟩
  have := foldl_add_le_init f l 0 this
  linarith

theorem exists_neg_of_foldl_neg {β : Type} (f : β → Rat) (l : List β)
    (h : l.foldl (fun a c => a + f c) 0 < 0) : ∃ c ∈ l, f c < 0 := by
  by_contra hne
  have : ∀ c ∈ l, 0 ≤ f c := by
    intro c hc
    by_contra hlt
    exact hne ⟨c, hc, by linarith⟩
  have := foldl_add_ge_init f l 0 this
  linarith

/-- steps c+d of one iteration (frozen children untouched) -/
def clampPass (d : Dist Rat) (items : List (FlexItemM Rat)) : List (FlexItemM Rat) :=
  items.map fun c => if c.frozen then c else clampItem c (distTarget d c)

/-- total violation of the unfrozen items -/
def totalViolation (items1 : List (FlexItemM Rat)) : Rat :=
  (items1.filter fun c => !c.frozen).foldl (fun a c => a + c.violation) (0 : Rat)

/-- step e -/
def freezePass (total : Rat) (items1 : List (FlexItemM Rat)) : List (FlexItemM Rat) :=
  items1.map fun c => if c.frozen then c else freezeItem total c

theorem clampItem_frozen (c : FlexItemM Rat) (t : Rat) : (clampItem c t).frozen = c.frozen := rfl

theorem ucount_clampPass (d : Dist Rat) (items : List (FlexItemM Rat)) : ucount (clampPass d items) = ucount items := by
  unfold ucount clampPass
  rw [List.countP_map]
  congr 1
  funext c
  simp only [Function.comp]
  split <;> simp_all [clampItem_frozen]

/-- the freeze step freezes at least one unfrozen item (all of them when the total violation is zero) -/
theorem ucount_freezePass_lt (items1 : List (FlexItemM Rat)) (h : ucount items1 ≠ 0) :
    ucount (freezePass (totalViolation items1) items1) < ucount items1 := by
  unfold ucount freezePass
  rw [List.countP_map]
  apply countP_lt_of_witness
  · intro c _ hq
    simp only [Function.comp] at hq
    by_cases hf : c.frozen = true
    · simp [hf] at hq
    · simpa using hf
  · by_cases hpos : 0 < totalViolation items1
    · obtain ⟨c, hc, hv⟩ := exists_pos_of_foldl_pos (fun c : FlexItemM Rat => c.violation) _ (by unfold totalViolation at hpos; exact hpos)
      rw [List.mem_filter] at hc
      refine ⟨c, hc.1, hc.2, ?_⟩
      have hf : c.frozen = false := by simpa using hc.2
      simp [Function.comp, hf, freezeItem, Num.fgt, Num.flt, hpos, hv]
    · by_cases hneg : totalViolation items1 < 0
      · obtain ⟨c, hc, hv⟩ := exists_neg_of_foldl_neg (fun c : FlexItemM Rat => c.violation) _ (by unfold totalViolation at hneg; exact hneg)
        rw [List.mem_filter] at hc
        refine ⟨c, hc.1, hc.2, ?_⟩
        have hf : c.frozen = false := by simpa using hc.2
        simp [Function.comp, hf, freezeItem, Num.fgt, Num.flt, hpos, hneg, hv]
      · -- zero: every unfrozen item is frozen
        unfold ucount at h
        have : 0 < items1.countP fun c => !c.frozen := Nat.pos_of_ne_zero h
        rw [List.countP_pos_iff] at this
        obtain ⟨c, hc, hp⟩ := this
        refine ⟨c, hc, hp, ?_⟩
        have hf : c.frozen = false := by simpa using hp
        simp [Function.comp, hf, freezeItem, Num.fgt, Num.flt, hpos, hneg]

/-- when the total violation is zero every item is frozen by the freeze step -/
theorem freezePass_all_of_zero (items1 : List (FlexItemM Rat)) (h : totalViolation items1 = 0) :
    (freezePass (totalViolation items1) items1).all (·.frozen) = true := by
  rw [List.all_eq_true]
  intro c hc
  unfold freezePass at hc
  rw [List.mem_map] at hc
  obtain ⟨y, _, rfl⟩ := hc
  by_cases hf : y.frozen = true
  · simp [hf]
  · simp [hf, freezeItem, Num.fgt, Num.flt, h]

theorem iter_eq (k : RflCtx Rat) (items : List (FlexItemM Rat)) :
    ∃ d, iter k items = freezePass (totalViolation (clampPass d items)) (clampPass d items) := by
  exact ⟨_, rfl⟩

theorem ucount_iter_lt (k : RflCtx Rat) (items : List (FlexItemM Rat)) (h : ucount items ≠ 0) :
    ucount (iter k items) < ucount items := by
  obtain ⟨d, hd⟩ := iter_eq k items
  rw [hd]
  have := ucount_freezePass_lt (clampPass d items) (by rw [ucount_clampPass]; exact h)
  rw [ucount_clampPass] at this
  exact this

/-- with fuel ≥ number of unfrozen items the loop returns, and everything it returns is frozen -/
theorem loop_terminates (k : RflCtx Rat) : ∀ (fuel : Nat) (items : List (FlexItemM Rat)), ucount items ≤ fuel →
    ∃ r, loop k fuel items = some r ∧ r.all (·.frozen) = true ∧ r.length = items.length := by
  intro fuel
  induction fuel with
  | zero =>
    intro items h
    have h0 : items.all (·.frozen) = true := (ucount_eq_zero_iff items).1 (by omega)
    exact ⟨items, by unfold loop; simp [h0], h0, rfl⟩
  | succ n ih =>
    intro items h
    by_cases h0 : items.all (·.frozen) = true
    · exact ⟨items, by unfold loop; simp [h0], h0, rfl⟩
    · have hne : ucount items ≠ 0 := fun hz => h0 ((ucount_eq_zero_iff items).1 hz)
      have hlt := ucount_iter_lt k items hne
      obtain ⟨r, hr, hall, hlen⟩ := ih (iter k items) (by omega)
      refine ⟨r, ?_, hall, ?_⟩
      · rw [loop]; simp only [h0]; exact hr
      · rw [hlen]; obtain ⟨d, hd⟩ := iter_eq k items; rw [hd]; simp [freezePass, clampPass]

end FlexLine
