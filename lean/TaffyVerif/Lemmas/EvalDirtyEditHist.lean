/-
  C15 / C01 — what the structural part of an edit does to the flags, and dirtiness of single nodes along histories.

    * `setStyleOf`, `abs_style_ABx`     `set_style` / `set_node_context` at `p` leaves clause (a) intact and clause (b)
                                        everywhere except at `p` (a `display` toggle may break it there);
    * `abs_replace_ABx`                 replacing child `i` of the node at `q` by a freshly built subtree (empty caches):
                                        (a) everywhere, (b) everywhere except at `q` (the new child is dirty);
      so `mark_dirty(p)` resp. `mark_dirty(q)` restores the invariant (`EvalDirtyEdit.go_restores`);
    * `PathK_of_ABx`                    … and these states satisfy the hypothesis of `go_eq_clearPath`;
    * `DirtyAt`                         the node at a path has an empty cache (`fin = false ∧ meas = false`);
      `DirtyAt_clearPath`, `DirtyAt_go`, `DirtyAt_modifyAt`, `DirtyAt_init`: clearing a path dirties all its prefixes;
      `mark_dirty` and inserting fresh subtrees never make a dirty node clean.
-/
import TaffyVerif.Lemmas.EvalDirtyEdit
import TaffyVerif.Props.C15Refine

set_option autoImplicit false
set_option linter.unusedSectionVars false
set_option linter.unusedVariables false

namespace EvalDirtyEdit
open Eval EvalDirty DirtyPass C15Pass EvalMemo

variable {α : Type} [Num α] {C : Type}

/-- `set_style` / `set_node_context` on a node: new style and measure context, same children -/
def setStyleOf (s : Style α) (ctx : Option (MeasureSpec α)) : STree α → STree α
  | .node _ _ kids => .node s ctx kids

/-! ### list helpers -/

theorem ShapeList_set_tree : ∀ (kids : List (STree α)) (ks : List (NS α C)) (i : Nat) (k : NS α C) (t' : STree α),
    C16.ShapeList kids ks → ks[i]? = some k → C16.Shape t' k → C16.ShapeList (kids.set i t') ks
  | _, [], _, _, _, _, h, _ => by simp at h
  | [], _ :: _, _, _, _, hv, _, _ => by simp [C16.ShapeList] at hv
  | a :: as, b :: bs, 0, k, t', hv, h, hk => by
    simp only [List.getElem?_cons_zero, Option.some.injEq] at h
    subst h
    simp only [C16.ShapeList] at hv
    simp only [List.set_cons_zero, C16.ShapeList]
    exact ⟨hk, hv.2⟩
  | a :: as, b :: bs, i + 1, k, t', hv, h, hk => by
    simp only [List.getElem?_cons_succ] at h
    simp only [C16.ShapeList] at hv
    simp only [List.set_cons_succ, C16.ShapeList]
    exact ⟨hv.1, ShapeList_set_tree as bs i k t' hv.2 h hk⟩

theorem ShapeList_set2 : ∀ (kids : List (STree α)) (ks : List (NS α C)) (i : Nat) (t' : STree α) (k' : NS α C),
    C16.ShapeList kids ks → C16.Shape t' k' → C16.ShapeList (kids.set i t') (ks.set i k')
  | [], [], _, _, _, _, _ => by simp [C16.ShapeList]
  | _ :: _, [], _, _, _, hv, _ => by simp [C16.ShapeList] at hv
  | [], _ :: _, _, _, _, hv, _ => by simp [C16.ShapeList] at hv
  | a :: as, b :: bs, 0, t', k', hv, hk => by
    simp only [C16.ShapeList] at hv
    simp only [List.set_cons_zero, C16.ShapeList]
    exact ⟨hk, hv.2⟩
  | a :: as, b :: bs, i + 1, t', k', hv, hk => by
    simp only [C16.ShapeList] at hv
    simp only [List.set_cons_succ, C16.ShapeList]
    exact ⟨hv.1, ShapeList_set2 as bs i t' k' hv.2 hk⟩

section
variable {ci : CacheImpl α C} (ob : CacheObs ci)

theorem absList_set_tree : ∀ (kids : List (STree α)) (ks : List (NS α C)) (i : Nat) (k : NS α C) (t' : STree α),
    ks[i]? = some k → absList ob (kids.set i t') ks = (absList ob kids ks).set i (absFT ob t' k)
  | [], ks, i, k, t', h => by simp [absList]
  | a :: as, [], i, k, t', h => by simp at h
  | a :: as, b :: bs, 0, k, t', h => by
    simp only [List.getElem?_cons_zero, Option.some.injEq] at h
    subst h
    simp [absList]
  | a :: as, b :: bs, i + 1, k, t', h => by
    simp only [List.getElem?_cons_succ] at h
    simp only [List.set_cons_succ, absList]
    rw [absList_set_tree as bs i k t' h]

theorem absList_set2 : ∀ (kids : List (STree α)) (ks : List (NS α C)) (i : Nat) (t' : STree α) (k' : NS α C),
    absList ob (kids.set i t') (ks.set i k') = (absList ob kids ks).set i (absFT ob t' k')
  | [], ks, i, t', k' => by simp [absList]
  | a :: as, [], i, t', k' => by simp [absList]
  | a :: as, b :: bs, 0, t', k' => by simp [absList]
  | a :: as, b :: bs, i + 1, t', k' => by
    simp only [List.set_cons_succ, absList]
    rw [absList_set2 as bs i t' k']

end

theorem BListEx_set_ex (P : FT → Prop) : ∀ (i : Nat) (l : List FT) (k' : FT), BList l → P k' → BListEx P i (l.set i k')
  | i, [], _, _, _ => by cases i <;> trivial
  | 0, a :: as, k', hv, h => by simp only [List.set_cons_zero]; exact ⟨h, hv.2⟩
  | i + 1, a :: as, k', hv, h => by
    simp only [List.set_cons_succ]
    exact ⟨hv.1, BListEx_set_ex P i as k' hv.2 h⟩

/-! ### `set_style` -/

theorem Shape_style (s : Style α) (ctx : Option (MeasureSpec α)) : ∀ (p : List Nat) (t : STree α) (ns : NS α C),
    C16.Shape t ns → C16.Shape (treeModifyAt (setStyleOf s ctx) p t) ns
  | [], .node _ _ kids, .mk c l nk, h => by
    simp only [treeModifyAt, setStyleOf, C16.Shape] at h ⊢
    exact h
  | i :: p, .node s0 c0 kids, .mk c l nk, h => by
    simp only [C16.Shape] at h
    simp only [treeModifyAt, C16.Shape]
    cases htc : kids[i]? with
    | none => exact h
    | some tc =>
      obtain ⟨k, hk, hshc⟩ := C16.ShapeList_get kids nk i tc h htc
      exact ShapeList_set_tree kids nk i k _ h hk (Shape_style s ctx p tc k hshc)

section
variable {ci : CacheImpl α C} (ob : CacheObs ci)

/-- **abs_style_ABx**: after `set_style` at `p` (before its `mark_dirty`): clause (a) everywhere, clause (b) everywhere
except at the node at `p`; the root's `fin` flag is untouched -/
theorem abs_style_ABx (s : Style α) (ctx : Option (MeasureSpec α)) : ∀ (p : List Nat) (t : STree α) (ns : NS α C),
    C16.Shape t ns → A (absFT ob t ns) → B (absFT ob t ns) →
    A (absFT ob (treeModifyAt (setStyleOf s ctx) p t) ns) ∧ Bx p (absFT ob (treeModifyAt (setStyleOf s ctx) p t) ns) ∧
    (absFT ob (treeModifyAt (setStyleOf s ctx) p t) ns).fin = (absFT ob t ns).fin
  | [], .node s0 c0 kids, .mk c l nk, hsh, ha, hb => by
    simp only [absFT] at ha hb
    have ha' := (A_node _ _ _ _).1 ha
    have hb' := (B_node _ _ _ _).1 hb
    simp only [treeModifyAt, setStyleOf, absFT, Bx, FT.fin]
    exact ⟨(A_node _ _ _ _).2 ha', hb'.2, trivial⟩
  | i :: p, .node s0 c0 kids, .mk c l nk, hsh, ha, hb => by
    simp only [C16.Shape] at hsh
    cases htc : kids[i]? with
    | none =>
      have e : treeModifyAt (setStyleOf s ctx) (i :: p) (.node s0 c0 kids) = .node s0 c0 kids := by
        simp only [treeModifyAt, htc]
      rw [e]
      exact ⟨ha, Bx_of_B _ _ hb, rfl⟩
    | some tc =>
      obtain ⟨k, hk, hshc⟩ := C16.ShapeList_get kids nk i tc hsh htc
      have e : treeModifyAt (setStyleOf s ctx) (i :: p) (.node s0 c0 kids) =
          .node s0 c0 (kids.set i (treeModifyAt (setStyleOf s ctx) p tc)) := by
        simp only [treeModifyAt, htc]
      rw [e]
      simp only [absFT] at ha hb ⊢
      have ha' := (A_node _ _ _ _).1 ha
      have hb' := (B_node _ _ _ _).1 hb
      have hg := absList_get_some ob kids nk i tc k htc hk
      obtain ⟨i1, i2, i3⟩ := abs_style_ABx s ctx p tc k hshc (AList_get _ i _ ha'.2 hg) (BList_get _ i _ hb'.2 hg)
      rw [absList_set_tree ob kids nk i k _ hk]
      refine ⟨(A_node _ _ _ _).2 ⟨ha'.1, AList_set _ i _ ha'.2 i1⟩, ?_, rfl⟩
      simp only [Bx]
      refine ⟨fun hf hh => ?_, BListEx_set_ex _ i _ _ hb'.2 i2⟩
      have hall := hb'.1 hf hh
      exact allFin_set _ i _ hall (by rw [i3]; exact allFin_get _ i _ hall hg)

/-- **abs_setHid**: the flags after the structural part of `set_style` at `p` are the flags before with the
`display:none` flag of the node at `p` set to the new style's -/
theorem abs_setHid (s : Style α) (ctx : Option (MeasureSpec α)) : ∀ (p : List Nat) (t : STree α) (ns : NS α C),
    C16.Shape t ns → absFT ob (treeModifyAt (setStyleOf s ctx) p t) ns = setHid s.isHidden p (absFT ob t ns)
  | [], .node s0 c0 kids, .mk c l nk, _ => by
    simp only [treeModifyAt, setStyleOf, absFT, setHid]
  | i :: p, .node s0 c0 kids, .mk c l nk, hsh => by
    simp only [C16.Shape] at hsh
    cases htc : kids[i]? with
    | none =>
      have e : treeModifyAt (setStyleOf s ctx) (i :: p) (.node s0 c0 kids) = .node s0 c0 kids := by
        simp only [treeModifyAt, htc]
      have hg : (absList ob kids nk)[i]? = none := by rw [absList_get, htc]
      rw [e]
      simp only [absFT, setHid, hg]
    | some tc =>
      obtain ⟨k, hk, hshc⟩ := C16.ShapeList_get kids nk i tc hsh htc
      have e : treeModifyAt (setStyleOf s ctx) (i :: p) (.node s0 c0 kids) =
          .node s0 c0 (kids.set i (treeModifyAt (setStyleOf s ctx) p tc)) := by
        simp only [treeModifyAt, htc]
      have hg := absList_get_some ob kids nk i tc k htc hk
      rw [e]
      simp only [absFT, setHid, hg]
      rw [absList_set_tree ob kids nk i k _ hk, abs_setHid s ctx p tc k hshc]

/-! ### replacing a child by a freshly built subtree -/

theorem Shape_replace (sub : STree α) : ∀ (pth : List Nat) (t : STree α) (ns : NS α C), C16.Shape t ns →
    C16.Shape (treeModifyAt (fun _ => sub) pth t) (modifyAt (fun _ => NS.init ci sub) pth ns)
  | [], t, ns, _ => by
    simp only [treeModifyAt, modifyAt]
    exact C16.Shape_init ci sub
  | i :: p, .node s0 c0 kids, .mk c l nk, h => by
    simp only [C16.Shape] at h
    simp only [treeModifyAt, modifyAt, C16.Shape]
    cases htc : kids[i]? with
    | none =>
      cases hk : nk[i]? with
      | none => exact h
      | some k =>
        obtain ⟨tc, htc', _⟩ := ShapeList_get' kids nk i k h hk
        rw [htc] at htc'; cases htc'
    | some tc =>
      obtain ⟨k, hk, hshc⟩ := C16.ShapeList_get kids nk i tc h htc
      simp only [hk]
      exact ShapeList_set2 kids nk i _ _ h (Shape_replace sub p tc k hshc)

/-- **abs_replace_ABx**: after replacing child `i` of the node at `q` by the freshly built `sub` (before the
`mark_dirty` of that node): clause (a) everywhere, clause (b) everywhere except at the node at `q` -/
theorem abs_replace_ABx (sub : STree α) (i : Nat) : ∀ (q : List Nat) (t : STree α) (ns : NS α C),
    C16.Shape t ns → A (absFT ob t ns) → B (absFT ob t ns) →
    A (absFT ob (treeModifyAt (fun _ => sub) (q ++ [i]) t) (modifyAt (fun _ => NS.init ci sub) (q ++ [i]) ns)) ∧
    Bx q (absFT ob (treeModifyAt (fun _ => sub) (q ++ [i]) t) (modifyAt (fun _ => NS.init ci sub) (q ++ [i]) ns)) ∧
    (absFT ob (treeModifyAt (fun _ => sub) (q ++ [i]) t) (modifyAt (fun _ => NS.init ci sub) (q ++ [i]) ns)).fin =
      (absFT ob t ns).fin
  | [], .node s0 c0 kids, .mk c l nk, hsh, ha, hb => by
    simp only [C16.Shape] at hsh
    simp only [List.nil_append]
    cases htc : kids[i]? with
    | none =>
      have hk : nk[i]? = none := by
        cases hk : nk[i]? with
        | none => rfl
        | some k =>
          obtain ⟨tc, htc', _⟩ := ShapeList_get' kids nk i k hsh hk
          rw [htc] at htc'; cases htc'
      have e1 : treeModifyAt (fun _ => sub) [i] (.node s0 c0 kids) = .node s0 c0 kids := by
        simp only [treeModifyAt, htc]
      have e2 : modifyAt (fun _ => NS.init ci sub) [i] (.mk c l nk) = .mk c l nk := by
        simp only [modifyAt, hk]
      rw [e1, e2]
      exact ⟨ha, Bx_of_B _ _ hb, rfl⟩
    | some tc =>
      obtain ⟨k, hk, hshc⟩ := C16.ShapeList_get kids nk i tc hsh htc
      have e1 : treeModifyAt (fun _ => sub) [i] (.node s0 c0 kids) = .node s0 c0 (kids.set i sub) := by
        simp only [treeModifyAt, htc]
      have e2 : modifyAt (fun _ => NS.init ci sub) [i] (.mk c l nk) = .mk c l (nk.set i (NS.init ci sub)) := by
        simp only [modifyAt, hk]
      rw [e1, e2]
      simp only [absFT] at ha hb ⊢
      have ha' := (A_node _ _ _ _).1 ha
      have hb' := (B_node _ _ _ _).1 hb
      rw [absList_set2 ob kids nk i _ _]
      have hi := C15Refine.KT_init ob sub
      refine ⟨(A_node _ _ _ _).2 ⟨ha'.1, AList_set _ i _ ha'.2 hi.1⟩, ?_, rfl⟩
      simp only [Bx]
      exact BList_set _ i _ hb'.2 hi.2
  | j :: q, .node s0 c0 kids, .mk c l nk, hsh, ha, hb => by
    simp only [C16.Shape] at hsh
    simp only [List.cons_append]
    cases htc : kids[j]? with
    | none =>
      have hk : nk[j]? = none := by
        cases hk : nk[j]? with
        | none => rfl
        | some k =>
          obtain ⟨tc, htc', _⟩ := ShapeList_get' kids nk j k hsh hk
          rw [htc] at htc'; cases htc'
      have e1 : treeModifyAt (fun _ => sub) (j :: (q ++ [i])) (.node s0 c0 kids) = .node s0 c0 kids := by
        simp only [treeModifyAt, htc]
      have e2 : modifyAt (fun _ => NS.init ci sub) (j :: (q ++ [i])) (.mk c l nk) = .mk c l nk := by
        simp only [modifyAt, hk]
      rw [e1, e2]
      exact ⟨ha, Bx_of_B _ _ hb, rfl⟩
    | some tc =>
      obtain ⟨k, hk, hshc⟩ := C16.ShapeList_get kids nk j tc hsh htc
      have e1 : treeModifyAt (fun _ => sub) (j :: (q ++ [i])) (.node s0 c0 kids) =
          .node s0 c0 (kids.set j (treeModifyAt (fun _ => sub) (q ++ [i]) tc)) := by
        simp only [treeModifyAt, htc]
      have e2 : modifyAt (fun _ => NS.init ci sub) (j :: (q ++ [i])) (.mk c l nk) =
          .mk c l (nk.set j (modifyAt (fun _ => NS.init ci sub) (q ++ [i]) k)) := by
        simp only [modifyAt, hk]
      rw [e1, e2]
      simp only [absFT] at ha hb ⊢
      have ha' := (A_node _ _ _ _).1 ha
      have hb' := (B_node _ _ _ _).1 hb
      have hg := absList_get_some ob kids nk j tc k htc hk
      obtain ⟨i1, i2, i3⟩ := abs_replace_ABx sub i q tc k hshc (AList_get _ j _ ha'.2 hg) (BList_get _ j _ hb'.2 hg)
      rw [absList_set2 ob kids nk j _ _]
      refine ⟨(A_node _ _ _ _).2 ⟨ha'.1, AList_set _ j _ ha'.2 i1⟩, ?_, rfl⟩
      simp only [Bx]
      refine ⟨fun hf hh => ?_, BListEx_set_ex _ j _ _ hb'.2 i2⟩
      have hall := hb'.1 hf hh
      exact allFin_set _ j _ hall (by rw [i3]; exact allFin_get _ j _ hall hg)

end

/-- clause (a) everywhere and (b) everywhere except at the END of the path give the local invariant ALONG the path -/
theorem PathK_of_ABx : ∀ (p : List Nat) (t : FT), A t → Bx p t → PathK p t
  | [], _, _, _ => trivial
  | i :: p, .node h f m ks, ha, hb => by
    have ha' := (A_node _ _ _ _).1 ha
    simp only [Bx] at hb
    simp only [PathK]
    refine ⟨ha'.1, ?_⟩
    cases hk : ks[i]? with
    | none => trivial
    | some k =>
      exact ⟨fun h1 h2 => allFin_get ks i k (hb.1 h1 h2) hk,
        PathK_of_ABx p k (AList_get ks i k ha'.2 hk) (BListEx_get _ i ks k hb.2 hk)⟩

/-! ### dirtiness of single nodes -/

section
variable {ci : CacheImpl α C} (ob : CacheObs ci)

/-- the node at path `p` (if there is one) has an empty cache: no final entry, no measure entry -/
def DirtyAt : NS α C → List Nat → Prop
  | .mk c _ _, [] => ob.fin c = false ∧ ob.meas c = false
  | .mk _ _ nk, i :: p =>
    match nk[i]? with
    | some k => DirtyAt k p
    | none => True

theorem DirtyAt_nsAt : ∀ (p : List Nat) (ns k : NS α C), DirtyAt ob ns p → C05.nsAt ns p = some k →
    ob.fin k.cache = false ∧ ob.meas k.cache = false
  | [], .mk c l nk, k, h, hk => by
    simp only [C05.nsAt, Option.some.injEq] at hk
    subst hk
    exact h
  | i :: p, .mk c l nk, k, h, hk => by
    simp only [C05.nsAt] at hk
    simp only [DirtyAt] at h
    cases hi : nk[i]? with
    | none => rw [hi] at hk; cases hk
    | some kc =>
      rw [hi] at hk h
      exact DirtyAt_nsAt p kc k h hk

/-- clearing the path `p' ++ r` leaves the node at `p'` (every prefix: the target and all its ancestors) dirty -/
theorem DirtyAt_clearPath : ∀ (p' r : List Nat) (ns : NS α C), OK ob ns → DirtyAt ob (clearPath ci (p' ++ r) ns) p'
  | [], r, .mk c l nk, hok => by
    simp only [OK] at hok
    cases r with
    | nil =>
      simp only [List.append_nil, clearPath, stateModifyAt, clearHere, DirtyAt]
      exact ob.clear_flags c hok.1
    | cons j r =>
      simp only [List.nil_append, clearPath, stateModifyAt, DirtyAt]
      exact ob.clear_flags c hok.1
  | i :: p', r, .mk c l nk, hok => by
    simp only [OK] at hok
    cases hk : nk[i]? with
    | none =>
      have e : clearPath ci (i :: p' ++ r) (.mk c l nk) = .mk (ci.clear c) l nk := by
        simp only [List.cons_append, clearPath, stateModifyAt, hk]
      rw [e]
      simp only [DirtyAt, hk]
    | some k =>
      have e : clearPath ci (i :: p' ++ r) (.mk c l nk) = .mk (ci.clear c) l (nk.set i (clearPath ci (p' ++ r) k)) := by
        simp only [List.cons_append, clearPath, stateModifyAt, hk]
      rw [e]
      have hl : i < nk.length := by
        rcases Nat.lt_or_ge i nk.length with h | h
        · exact h
        · rw [List.getElem?_eq_none_iff.2 h] at hk; cases hk
      simp only [DirtyAt, List.getElem?_set_self hl]
      exact DirtyAt_clearPath p' r k (OKList_get ob nk i k hok.2 hk)

/-- **`mark_dirty` never makes a dirty node clean** -/
theorem DirtyAt_go (emp : C → Bool) : ∀ (p : List Nat) (ns : NS α C) (p' : List Nat), OK ob ns → DirtyAt ob ns p' →
    DirtyAt ob (markDirtyGo ci emp p ns).1 p'
  | [], .mk c l nk, p', hok, hd => by
    simp only [OK] at hok
    simp only [markDirtyGo]
    cases p' with
    | nil => simp only [DirtyAt]; exact ob.clear_flags c hok.1
    | cons j p'' => simp only [DirtyAt] at hd ⊢; exact hd
  | i :: p, .mk c l nk, p', hok, hd => by
    simp only [OK] at hok
    cases hk : nk[i]? with
    | none => rw [go_none emp i p c l nk hk]; exact hd
    | some k =>
      have hl : i < nk.length := by
        rcases Nat.lt_or_ge i nk.length with h | h
        · exact h
        · rw [List.getElem?_eq_none_iff.2 h] at hk; cases hk
      have key : ∀ c' : C, (ob.fin c = false ∧ ob.meas c = false → ob.fin c' = false ∧ ob.meas c' = false) →
          DirtyAt ob (.mk c' l (nk.set i (markDirtyGo ci emp p k).1)) p' := by
        intro c' hc'
        cases p' with
        | nil => simp only [DirtyAt] at hd ⊢; exact hc' hd
        | cons j p'' =>
          simp only [DirtyAt] at hd ⊢
          by_cases hji : j = i
          · subst hji
            rw [List.getElem?_set_self hl]
            rw [hk] at hd
            exact DirtyAt_go emp p k p'' (OKList_get ob nk j k hok.2 hk) hd
          · rw [List.getElem?_set_ne (Ne.symm hji)]
            exact hd
      cases hr : (markDirtyGo ci emp p k).2 with
      | true =>
        rw [go_true emp i p c l nk k hk hr]
        exact key _ (fun _ => ob.clear_flags c hok.1)
      | false =>
        rw [go_false emp i p c l nk k hk hr]
        exact key _ id

/-- every node of a freshly built subtree is dirty -/
theorem DirtyAt_init : ∀ (p : List Nat) (t : STree α), DirtyAt ob (NS.init ci t) p
  | [], .node s c kids => by
    simp only [NS.init, DirtyAt]
    exact ob.empty_flags
  | i :: p, .node s c kids => by
    simp only [NS.init, DirtyAt]
    have : ∀ (ts : List (STree α)) (i : Nat),
        match (NS.initList ci ts)[i]? with
        | some k => DirtyAt ob k p
        | none => True := by
      intro ts
      induction ts with
      | nil => intro i; simp [NS.initList]
      | cons t ts ih =>
        intro i
        cases i with
        | zero => simp only [NS.initList, List.getElem?_cons_zero]; exact DirtyAt_init p t
        | succ i => simp only [NS.initList, List.getElem?_cons_succ]; exact ih i
    exact this kids i

/-- replacing a subtree's state by an all-dirty one never makes a dirty node clean -/
theorem DirtyAt_modifyAt (g : NS α C → NS α C) (hg : ∀ k p'', DirtyAt ob (g k) p'') :
    ∀ (pth : List Nat) (ns : NS α C) (p' : List Nat), DirtyAt ob ns p' → DirtyAt ob (modifyAt g pth ns) p'
  | [], ns, p', _ => by simp only [modifyAt]; exact hg ns p'
  | i :: pth, .mk c l nk, p', hd => by
    simp only [modifyAt]
    cases hk : nk[i]? with
    | none => exact hd
    | some k =>
      have hl : i < nk.length := by
        rcases Nat.lt_or_ge i nk.length with h | h
        · exact h
        · rw [List.getElem?_eq_none_iff.2 h] at hk; cases hk
      cases p' with
      | nil => simp only [DirtyAt] at hd ⊢; exact hd
      | cons j p'' =>
        simp only [DirtyAt] at hd ⊢
        by_cases hji : j = i
        · subst hji
          rw [List.getElem?_set_self hl]
          rw [hk] at hd
          exact DirtyAt_modifyAt g hg pth k p'' hd
        · rw [List.getElem?_set_ne (Ne.symm hji)]
          exact hd

end

end EvalDirtyEdit
