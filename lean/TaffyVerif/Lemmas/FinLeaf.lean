/-
  C03 (finiteness) — `compute_leaf_layout` (Model/Leaf.lean) and the root driver (Model/Root.lean) at `ER`:
  finite style, finite inputs, a measure function that maps finite arguments to finite sizes ⇒ every number of the
  `LayoutOutput`, of the measure call's arguments and of the root's `Layout` is finite.
-/
import TaffyVerif.Lemmas.FinBasic
import TaffyVerif.Model.Leaf
import TaffyVerif.Model.Root

namespace C03Fin
open LeafModel

/-- the measure function maps finite arguments to finite sizes -/
def MeasureFin (measure : Size (Option ER) → Size (AvailableSpace ER) → Size ER) : Prop :=
  ∀ kd av, SOFin kd → SAvFin av → SFin (measure kd av)

structure BoxFin (b : Box ER) : Prop where
  margin : RFin b.margin
  padding : RFin b.padding
  border : RFin b.border
  paddingBorder : RFin b.paddingBorder
  pbSum : SFin b.pbSum
  adj : SFin b.boxSizingAdjustment

variable {input : LayoutInput ER} {style : Style ER}

theorem fin_box {ps : Size (Option ER)} (hp : SOFin ps) (hs : StyleFin style) : BoxFin (box ps style) := by
  have h1 := fin_rectLPAOrZero hs.margin hp.1
  have h2 := fin_rectLPOrZero hs.padding hp.1
  have h3 := fin_rectLPOrZero hs.border hp.1
  refine ⟨h1, h2, h3, fin_rect_add h2 h3, fin_sumAxes (fin_rect_add h2 h3), ?_⟩
  simp only [box]
  split
  · exact fin_sumAxes (fin_rect_add h2 h3)
  · exact fin_size_zero

theorem fin_nodeSizes {adj : Size ER} (hi : InFin input) (hs : StyleFin style) (ha : SFin adj) :
    SOFin (nodeSizes input style adj).1 ∧ SOFin (nodeSizes input style adj).2.1 ∧
    SOFin (nodeSizes input style adj).2.2.1 ∧ ARFin (nodeSizes input style adj).2.2.2 := by
  unfold nodeSizes
  split
  · simp [fin_simp, hi.kd]
  · simp (maxDischargeDepth := 8) [fin_simp, hi.kd, hi.ps, hs.size, hs.minSize, hs.maxSize, hs.aspectRatio, ha]

theorem fin_scrollbarGutter (hs : StyleFin style) : PFin (scrollbarGutter style) := by
  unfold scrollbarGutter
  constructor <;> (dsimp only; split <;> simp [fin_simp, hs.scrollbarWidth])

theorem fin_contentBoxInset {pb : Rect ER} {g : Point ER} (hp : RFin pb) (hg : PFin g) :
    RFin (contentBoxInset pb g) := by
  simp [contentBoxInset, fin_simp, hp, hg]

theorem fin_availableAxis {known ns mn mx : Option ER} {av : AvailableSpace ER} {ms is : ER}
    (hk : OFin known) (hav : AvFin av) (hms : IsFin ms) (hns : OFin ns) (hmn : OFin mn) (hmx : OFin mx)
    (his : IsFin is) : AvFin (availableAxis known av ms ns mn mx is) := by
  have h0 : AvFin ((known.map AvailableSpace.definite).getD av) := by
    cases known with
    | none => exact hav
    | some v => exact hk
  have h1 := fin_maybeSet (fin_maybeSet (fin_af_sub h0 hms) hk) hns
  unfold availableAxis
  dsimp only
  split
  · rename_i size heq
    rw [heq] at h1
    simp only [AvFin_definite] at h1
    simp (maxDischargeDepth := 8) [fin_simp, *]
  · exact h1

theorem fin_measureAvailableSpace {margin inset : Rect ER} {ns nmin nmax : Size (Option ER)}
    (hi : InFin input) (hm : RFin margin) (hc : RFin inset) (h1 : SOFin ns) (h2 : SOFin nmin) (h3 : SOFin nmax) :
    SAvFin (measureAvailableSpace input margin inset ns nmin nmax) :=
  ⟨fin_availableAxis hi.kd.1 hi.av.1 (fin_hsum hm) h1.1 h2.1 h3.1 (fin_hsum hc),
   fin_availableAxis hi.kd.2 hi.av.2 (fin_vsum hm) h1.2 h2.2 h3.2 (fin_vsum hc)⟩

/-! ### the tail of `compute_leaf_layout` as separate functions (definitional re-bracketing, `computeLeafLayout_eq`) -/

/-- l.135–142: the `known_dimensions` argument of the measure call (`none` = the `unreachable!()` arm) -/
def leafKd (runMode : RunMode) (known : Size (Option ER)) : Option (Size (Option ER)) :=
  match runMode with
  | .computeSize => some known
  | .performLayout => some Size.none
  | .performHiddenLayout => none

/-- l.143–170: the output, given the measured size -/
def leafOut (known : Size (Option ER)) (pbSum paddingSum : Size ER) (ns nmin nmax : Size (Option ER))
    (ar : Option ER) (insetSum : Size ER) (hasStyles : Bool) (measured : Size ER) : LayoutOutput ER :=
  let clampedSize := Size.fo_clamp ((known.orOpt ns).unwrapOr (measured.add insetSum)) nmin nmax
  let size : Size ER :=
    { width := clampedSize.width
      height :=
        if (known.orOpt ns).height.isSome then clampedSize.height
        else MaybeMath.fo_clamp
          (Num.fmax clampedSize.height ((ar.map fun ratio => clampedSize.width / ratio).getD 0))
          nmin.height nmax.height }
  let size := Size.f32Max size pbSum
  { size
    contentSize := measured.add paddingSum
    firstBaselines := ⟨none, none⟩
    topMargin := MarginSet.zero
    bottomMargin := MarginSet.zero
    marginsCanCollapseThrough := !hasStyles && Num.feq size.height 0 && Num.feq measured.height 0 }

/-- l.93–108: the early-return output -/
def leafEarly (w h : ER) (pbSum : Size ER) (nmin nmax : Size (Option ER)) : LayoutOutput ER :=
  { size := Size.f32Max (Size.fo_clamp ⟨w, h⟩ nmin nmax) pbSum
    contentSize := Size.zero
    firstBaselines := ⟨none, none⟩
    topMargin := MarginSet.zero
    bottomMargin := MarginSet.zero
    marginsCanCollapseThrough := false }

/-- l.110–170 -/
def leafMeasured (inp : LayoutInput ER) (b : Box ER) (ns nmin nmax : Size (Option ER)) (ar : Option ER)
    (inset : Rect ER) (hasStyles : Bool) (m : Size (Option ER) → Size (AvailableSpace ER) → Size ER) :
    Traced ER (LayoutOutput ER) :=
  let av := measureAvailableSpace inp b.margin inset ns nmin nmax
  match leafKd inp.runMode inp.knownDimensions with
  | none => .error .unreachableHiddenRunMode
  | some kd =>
    .ok (leafOut inp.knownDimensions b.paddingBorder.sumAxes b.padding.sumAxes ns nmin nmax ar inset.sumAxes hasStyles
          (m kd av), [{ knownDimensions := kd, availableSpace := av }])

def leafBody (inp : LayoutInput ER) (style : Style ER) (b : Box ER)
    (r : Size (Option ER) × Size (Option ER) × Size (Option ER) × Option ER)
    (m : Size (Option ER) → Size (AvailableSpace ER) → Size ER) : Traced ER (LayoutOutput ER) :=
  let inset := contentBoxInset b.paddingBorder (scrollbarGutter style)
  let hasStyles := hasStylesPreventingBeingCollapsedThrough style b.padding b.border r.1 r.2.1
  if inp.runMode == .computeSize && hasStyles then
    match r.1 with
    | ⟨some w, some h⟩ => .ok (leafEarly w h b.paddingBorder.sumAxes r.2.1 r.2.2.1, [])
    | _ => leafMeasured inp b r.1 r.2.1 r.2.2.1 r.2.2.2 inset hasStyles m
  else leafMeasured inp b r.1 r.2.1 r.2.2.1 r.2.2.2 inset hasStyles m

theorem computeLeafLayout_eq (inp : LayoutInput ER) (style : Style ER)
    (m : Size (Option ER) → Size (AvailableSpace ER) → Size ER) :
    computeLeafLayout inp style m =
      leafBody inp style (box inp.parentSize style)
        (nodeSizes inp style (box inp.parentSize style).boxSizingAdjustment) m := by
  unfold computeLeafLayout
  dsimp only
  generalize nodeSizes inp style (box inp.parentSize style).boxSizingAdjustment = r
  obtain ⟨a, b, c, d⟩ := r
  unfold leafBody leafMeasured leafOut leafKd
  dsimp only
  cases inp.runMode <;> dsimp only <;> split <;> try rfl
  all_goals (obtain ⟨aw, ah⟩ := a; cases aw <;> cases ah <;> dsimp only)
  all_goals rfl

theorem fin_leafKd {rm : RunMode} {known kd : Size (Option ER)} (hk : SOFin known) (h : leafKd rm known = some kd) :
    SOFin kd := by
  cases rm <;> simp only [leafKd, Option.some.injEq] at h
  · subst h; exact fin_size_none
  · subst h; exact hk
  · exact absurd h (by simp)

/-- the aspect-ratio floor `clamped.width / ratio`: finite because the ratio is non-zero -/
theorem fin_ratioFloor {ar : Option ER} {w : ER} (ha : ARFin ar) (hw : IsFin w) :
    IsFin ((ar.map fun ratio => w / ratio).getD 0) := by
  cases ar with
  | none => exact fin_zero
  | some r => exact fin_div hw ha.1 ha.2

theorem fin_leafOut {known ns nmin nmax : Size (Option ER)} {pbSum paddingSum insetSum measured : Size ER}
    {ar : Option ER} {hasStyles : Bool}
    (hk : SOFin known) (h1 : SFin pbSum) (h2 : SFin paddingSum) (h3 : SOFin ns) (h4 : SOFin nmin) (h5 : SOFin nmax)
    (h6 : ARFin ar) (h7 : SFin insetSum) (h8 : SFin measured) :
    OutFin (leafOut known pbSum paddingSum ns nmin nmax ar insetSum hasStyles measured) := by
  have hc : SFin (Size.fo_clamp ((known.orOpt ns).unwrapOr (measured.add insetSum)) nmin nmax) :=
    fin_size_fo_clamp (fin_unwrapOr (fin_orOpt hk h3) (fin_size_add h8 h7)) h4 h5
  have hr := fin_ratioFloor (w := (Size.fo_clamp ((known.orOpt ns).unwrapOr (measured.add insetSum)) nmin nmax).width)
    h6 hc.1
  unfold leafOut
  refine ⟨?_, fin_size_add h8 h2, ⟨trivial, trivial⟩, fin_ms_zero, fin_ms_zero⟩
  refine fin_f32Max ⟨hc.1, ?_⟩ h1
  dsimp only
  split
  · exact hc.2
  · exact fin_fo_clamp (fin_fmax hc.2 hr) h4.2 h5.2

theorem fin_leafEarly {w h : ER} {pbSum : Size ER} {nmin nmax : Size (Option ER)}
    (hw : IsFin w) (hh : IsFin h) (h1 : SFin pbSum) (h4 : SOFin nmin) (h5 : SOFin nmax) :
    OutFin (leafEarly w h pbSum nmin nmax) :=
  ⟨fin_f32Max (fin_size_fo_clamp ⟨hw, hh⟩ h4 h5) h1, fin_size_zero, ⟨trivial, trivial⟩, fin_ms_zero, fin_ms_zero⟩

/-- every measure call of the trace has finite arguments -/
def CallsFin (calls : List (MeasureCall ER)) : Prop :=
  ∀ c ∈ calls, SOFin c.knownDimensions ∧ SAvFin c.availableSpace

theorem fin_leafMeasured {b : Box ER} {ns nmin nmax : Size (Option ER)} {ar : Option ER} {inset : Rect ER}
    {hasStyles : Bool} {m : Size (Option ER) → Size (AvailableSpace ER) → Size ER}
    (hi : InFin input) (hb : BoxFin b) (h3 : SOFin ns) (h4 : SOFin nmin) (h5 : SOFin nmax) (h6 : ARFin ar)
    (h7 : RFin inset) (hm : MeasureFin m) {out : LayoutOutput ER} {calls : List (MeasureCall ER)}
    (h : leafMeasured input b ns nmin nmax ar inset hasStyles m = .ok (out, calls)) :
    OutFin out ∧ CallsFin calls := by
  unfold leafMeasured at h
  dsimp only at h
  have hav := fin_measureAvailableSpace hi hb.margin h7 h3 h4 h5
  cases hkd : leafKd input.runMode input.knownDimensions with
  | none => rw [hkd] at h; exact absurd h (by simp)
  | some kd =>
    rw [hkd] at h
    have hk := fin_leafKd hi.kd hkd
    simp only [Except.ok.injEq, Prod.mk.injEq] at h
    obtain ⟨h1, h2⟩ := h
    subst h1; subst h2
    refine ⟨fin_leafOut hi.kd (fin_sumAxes hb.paddingBorder) (fin_sumAxes hb.padding) h3 h4 h5 h6 (fin_sumAxes h7)
      (hm _ _ hk hav), ?_⟩
    intro c hc
    simp only [List.mem_singleton] at hc
    subst hc
    exact ⟨hk, hav⟩

/-- **leaf**: finite style (aspect ratio absent or finite and non-zero), finite input, measure function finite on
finite arguments ⇒ every number of the output and of the measure call's arguments is finite -/
theorem fin_computeLeafLayout {m : Size (Option ER) → Size (AvailableSpace ER) → Size ER}
    (hi : InFin input) (hs : StyleFin style) (hm : MeasureFin m)
    {out : LayoutOutput ER} {calls : List (MeasureCall ER)}
    (h : computeLeafLayout input style m = .ok (out, calls)) : OutFin out ∧ CallsFin calls := by
  rw [computeLeafLayout_eq] at h
  have hb := fin_box hi.ps hs
  obtain ⟨h3, h4, h5, h6⟩ := fin_nodeSizes hi hs hb.adj
  have h7 := fin_contentBoxInset hb.paddingBorder (fin_scrollbarGutter hs)
  revert h h3 h4 h5 h6
  generalize nodeSizes input style (box input.parentSize style).boxSizingAdjustment = r
  obtain ⟨ns, nmin, nmax, ar⟩ := r
  intro h h3 h4 h5 h6
  unfold leafBody at h
  dsimp only at h h3 h4 h5 h6
  split at h
  · split at h
    · simp only [Except.ok.injEq, Prod.mk.injEq] at h
      obtain ⟨h1, h2⟩ := h
      subst h1; subst h2
      exact ⟨fin_leafEarly h3.1 h3.2 (fin_sumAxes hb.paddingBorder) h4 h5, fun c hc => absurd hc (by simp)⟩
    · exact fin_leafMeasured hi hb h3 h4 h5 h6 h7 hm h
  · exact fin_leafMeasured hi hb h3 h4 h5 h6 h7 hm h

/-! ### the harness' measure functions (Model/Prog.lean `MeasureSpec`) -/

def MeasureSpecFin : MeasureSpec ER → Prop
  | .fixed w h => IsFin w ∧ IsFin h
  | .wrap w h => IsFin w ∧ IsFin h

theorem fin_measureSpec {ms : MeasureSpec ER} (h : MeasureSpecFin ms) : MeasureFin ms.measure := by
  intro kd av hk ha
  cases ms with
  | fixed w ht => exact ⟨fin_getD hk.1 h.1, fin_getD hk.2 h.2⟩
  | wrap w ht =>
    obtain ⟨hw, hh⟩ := h
    have h4 : IsFin (w / (Num.two + Num.two)) := fin_div hw (fin_add fin_two fin_two) four_ne_zero
    unfold MeasureSpec.measure
    dsimp only
    refine SFin_mk.mpr ⟨?_, fin_getD hk.2 (fin_mul hh (fin_ite fin_one (fin_ite fin_two (fin_add fin_two fin_two))))⟩
    split
    · rename_i kw e; exact OFin.of_some hk.1 e
    · split
      · exact h4
      · exact hw
      · rename_i a e; exact fin_fmax (fin_fmin (by have := ha.1; rw [e] at this; exact this) hw) h4

theorem fin_ctxMeasure {ctx : Option (MeasureSpec ER)} (h : ∀ m, ctx = some m → MeasureSpecFin m) :
    MeasureFin (RootModel.ctxMeasure ctx) := by
  cases ctx with
  | none => intro _ _ _ _; exact fin_size_zero
  | some m => exact fin_measureSpec (h m rfl)

/-! ### the root driver (Model/Root.lean) -/
open RootModel

variable {av : Size (AvailableSpace ER)}

theorem fin_rootKnownDimensions (hs : StyleFin style) (ha : SAvFin av) : SOFin (rootKnownDimensions style av) := by
  unfold rootKnownDimensions
  dsimp only
  split
  · have hp := fin_map_intoOption ha
    have h2 := fin_rectLPOrZero hs.padding hp.1
    have h3 := fin_rectLPOrZero hs.border hp.1
    have hpb := fin_sumAxes (fin_rect_add h2 h3)
    have hadj : SFin (if style.boxSizing == .contentBox then
        ((Resolve.rectLPOrZero style.padding (av.map AvailableSpace.intoOption).width).add
          (Resolve.rectLPOrZero style.border (av.map AvailableSpace.intoOption).width)).sumAxes else Size.zero) := by
      split
      · exact hpb
      · exact fin_size_zero
    have hmin := fin_size_of_add (fin_maybeApplyAspectRatio (fin_sizeMaybe hs.minSize hp) hs.aspectRatio) hadj
    have hmax := fin_size_of_add (fin_maybeApplyAspectRatio (fin_sizeMaybe hs.maxSize hp) hs.aspectRatio) hadj
    have hsz := fin_size_of_add (fin_maybeApplyAspectRatio (fin_sizeMaybe hs.size hp) hs.aspectRatio) hadj
    refine fin_size_of_max (fin_orOpt (fin_orOpt (fin_orOpt fin_size_none ?_) (fin_size_oo_clamp hsz hmin hmax)) ?_) hpb
    · have hw := hmin.1
      have hh := hmin.2
      refine ⟨?_, ?_⟩
      · simp only [Size.zipMap]
        split
        · rename_i mn mx e1 e2; rw [e1] at hw; exact fin_oite hw trivial
        · trivial
      · simp only [Size.zipMap]
        split
        · rename_i mn mx e1 e2; rw [e1] at hh; exact fin_oite hh trivial
        · trivial
    · exact ⟨fin_of_sub (fin_intoOption ha.1) (fin_hsum (fin_rectLPAOrZero hs.margin hp.1)), trivial⟩
  · exact fin_size_none

theorem fin_rootInput (hs : StyleFin style) (ha : SAvFin av) : InFin (rootInput style av) :=
  ⟨fin_rootKnownDimensions hs ha, fin_map_intoOption ha, ha⟩

theorem fin_rootLayout {out : LayoutOutput ER} (hs : StyleFin style) (ha : SAvFin av) (ho : OutFin out) :
    LayFin (rootLayout style av out) := by
  have hp := fin_intoOption ha.1
  refine ⟨⟨fin_zero, fin_zero⟩, ho.size, ho.contentSize, ⟨?_, ?_⟩, fin_rectLPOrZero hs.border hp,
    fin_rectLPOrZero hs.padding hp, fin_rectLPAOrZero hs.margin hp⟩
  · exact fin_ite hs.scrollbarWidth fin_zero
  · exact fin_ite hs.scrollbarWidth fin_zero

/-- `compute_child_layout` of a childless node: output, the layout the hidden arm stores, the measure calls -/
theorem fin_computeChildLayoutChildless {m : Size (Option ER) → Size (AvailableSpace ER) → Size ER}
    (hi : InFin input) (hs : StyleFin style) (hm : MeasureFin m)
    {out : LayoutOutput ER} {lay : Option (Layout ER)} {calls : List (MeasureCall ER)}
    (h : computeChildLayoutChildless style m input = .ok ((out, lay), calls)) :
    OutFin out ∧ (∀ l, lay = some l → LayFin l) ∧ CallsFin calls := by
  unfold computeChildLayoutChildless at h
  split at h
  · simp only [Except.ok.injEq, Prod.mk.injEq] at h
    obtain ⟨⟨rfl, rfl⟩, rfl⟩ := h
    exact ⟨fin_out_hidden, fun l e => by injection e with e; subst e; exact fin_withOrder 0,
      fun c hc => absurd hc (by simp)⟩
  · simp only [Except.ok.injEq, Prod.mk.injEq] at h
    obtain ⟨⟨rfl, rfl⟩, rfl⟩ := h
    exact ⟨fin_out_hidden, fun l e => by injection e with e; subst e; exact fin_withOrder 0,
      fun c hc => absurd hc (by simp)⟩
  · split at h
    · rename_i o cs heq
      simp only [Except.ok.injEq, Prod.mk.injEq] at h
      obtain ⟨⟨rfl, rfl⟩, rfl⟩ := h
      obtain ⟨h1, h2⟩ := fin_computeLeafLayout hi hs hm heq
      exact ⟨h1, fun l e => absurd e (by simp), h2⟩
    · exact absurd h (by simp)
  all_goals
    simp only [Except.ok.injEq, Prod.mk.injEq] at h
    obtain ⟨⟨rfl, rfl⟩, rfl⟩ := h
    exact ⟨fin_out_hidden, fun l e => absurd e (by simp), fun c hc => absurd hc (by simp)⟩

/-- **root + leaf**: `compute_root_layout` over one childless node -/
theorem fin_layoutSingleLeafWith {m : Size (Option ER) → Size (AvailableSpace ER) → Size ER}
    (hs : StyleFin style) (ha : SAvFin av) (hm : MeasureFin m)
    {lay : Layout ER} {calls : List (MeasureCall ER)}
    (h : layoutSingleLeafWith style m av = .ok (lay, calls)) : LayFin lay ∧ CallsFin calls := by
  unfold layoutSingleLeafWith at h
  split at h
  · rename_i out l cs heq
    simp only [Except.ok.injEq, Prod.mk.injEq] at h
    obtain ⟨rfl, rfl⟩ := h
    obtain ⟨h1, _, h3⟩ := fin_computeChildLayoutChildless (fin_rootInput hs ha) hs hm heq
    exact ⟨fin_rootLayout hs ha h1, h3⟩
  · exact absurd h (by simp)

end C03Fin
