/-
  C04 for grid, part 12: an instance of `gridAlgG_scale` for the REAL `compute_explicit_grid_size_in_axis` and
  `track_sizing_algorithm`: grids all of whose tracks are fixed-size (`minmax(a, b)` with lengths `b ≤ a`, length gaps).
  There every run of `track_sizing_algorithm` takes the early exit ("all tracks have base_size = growth_limit") after
  initialising the track sizes and resolving the baselines, so no THRESHOLD comparison is ever made.
-/
import TaffyVerif.Lemmas.GridScaleTop2

set_option linter.unusedSectionVars false
set_option linter.unusedVariables false
set_option linter.unusedSimpArgs false

namespace C04
open Scalable GridModel GridTracks GridStages GridScale

variable {k : Rat}

/-- a fixed-size track: `minmax(a, b)` with lengths `b ≤ a` (in particular `a` alone) -/
def FixedLen (t : GridTrack Rat) : Prop := ∃ a b : Rat, t.minFn = .length a ∧ t.maxFn = .length b ∧ b ≤ a

theorem fixedLen_prop : TrackProp FixedLen :=
  ⟨fun t t' h1 h2 ⟨a, b, ha, hb, hab⟩ => ⟨a, b, h1.trans ha, h2.trans hb, hab⟩⟩

theorem fixedLen_init (inner : Option Rat) (t : GridTrack Rat) (h : FixedLen t) :
    (initializeTrackSize inner t).growthLimit.eqF (initializeTrackSize inner t).baseSize = true := by
  obtain ⟨a, b, ha, hb, hab⟩ := h
  unfold initializeTrackSize
  simp only [ha, hb, MinTrack.definiteValue, MaxTrack.definiteValue, Option.getD_some, Ext.ofOption, Ext.ltF, flt_def]
  by_cases hlt : b < a
  · simp only [hlt, decide_true, if_true, Ext.eqF, feq_def]
  · have : b = a := le_antisymm hab (not_lt.1 hlt)
    subst this
    simp only [lt_irrefl, decide_false, Bool.false_eq_true, if_false, Ext.eqF, feq_def, decide_true]

theorem fixedLen_all (inner : Option Rat) (l : List (GridTrack Rat)) (h : TPs FixedLen l) :
    (initializeTrackSizes l inner).all (fun t => t.growthLimit.eqF t.baseSize) = true := by
  unfold initializeTrackSizes
  rw [List.all_map, List.all_eq_true]
  intro t ht
  exact fixedLen_init inner t (h t ht)

theorem fixedLen_initTPs (inner : Option Rat) (l : List (GridTrack Rat)) (h : TPs FixedLen l) :
    TPs FixedLen (initializeTrackSizes l inner) := by
  intro t ht
  unfold initializeTrackSizes at ht
  obtain ⟨t0, h0, rfl⟩ := List.mem_map.1 ht
  exact fixedLen_prop.fns t0 _ rfl rfl (h t0 h0)

/-- **the real `track_sizing_algorithm` on fixed-size tracks is homogeneous** -/
theorem trackSizing_fixed_hom (hk : 0 < k) : TSHom k FixedLen trackSizingAlgorithmM trackSizingAlgorithmM := by
  intro a st h1 h2
  unfold trackSizingAlgorithmM
  simp only [ra_axis, ra_innerNodeSize, ra_hasBaselineAlignedItem, rs_axisTracks, rs_otherAxisTracks, rs_items,
    sget_scale, initializeTrackSizes_scale hk]
  refine GSim.bind (Q := Sc k) ?_ fun l' l hl => ?_
  · refine GSim.ite ?_ ?_
    · exact resolveItemBaselines_sim hk _ _ _
    · exact GSim.pure rfl
  · rw [show l' = scale k l from hl]
    have hall := fixedLen_all (sget a.innerNodeSize a.axis) st.axisTracks h1
    have hall' : (scale k (initializeTrackSizes st.axisTracks (sget a.innerNodeSize a.axis))).all
        (fun t => t.growthLimit.eqF t.baseSize) = true := by
      rw [all_scale_list k _ (fun t : GridTrack Rat => t.growthLimit.eqF t.baseSize)
        (fun t : GridTrack Rat => t.growthLimit.eqF t.baseSize)
        (fun t => by rw [gt_growthLimit, gt_baseSize, ext_eqF hk]), hall]
    rw [if_pos hall, if_pos hall']
    exact GSim.pure ⟨rfl, fixedLen_initTPs _ _ h1, h2⟩

/-! ### which tracks `initialize_grid_tracks` produces -/

/-- a fixed-size track sizing function -/
def FixedFn (f : TrackFn Rat) : Prop := ∃ a b : Rat, f.min = .length a ∧ f.max = .length b ∧ b ≤ a

def fixedFnB (f : TrackFn Rat) : Bool :=
  match f.min, f.max with
  | .length a, .length b => decide (b ≤ a)
  | _, _ => false

theorem fixedFnB_iff (f : TrackFn Rat) : fixedFnB f = true ↔ FixedFn f := by
  unfold fixedFnB FixedFn
  constructor
  · intro h
    cases hm : f.min <;> cases hx : f.max <;> rw [hm, hx] at h <;> simp only [Bool.false_eq_true] at h
    rename_i a b
    exact ⟨a, b, rfl, rfl, of_decide_eq_true h⟩
  · rintro ⟨a, b, ha, hb, hab⟩
    rw [ha, hb]
    exact decide_eq_true hab

theorem fixed_new {f : TrackFn Rat} (h : FixedFn f) : FixedLen (GridTrack.new f) := h

theorem fixed_gutter {g : LP Rat} (h : ∃ v, g = .length v) : FixedLen (GridTrack.gutter g) := by
  obtain ⟨v, rfl⟩ := h
  exact ⟨v, v, rfl, rfl, le_refl _⟩

theorem fixed_collapse (t : GridTrack Rat) : FixedLen t.collapse := ⟨0, 0, rfl, rfl, le_refl _⟩

/-- the sizing functions a template mentions -/
def templateFns : List (TrackDef Rat) → List (TrackFn Rat)
  | [] => []
  | .single f :: rest => f :: templateFns rest
  | .rep _ fs :: rest => fs ++ templateFns rest

/-- the static side condition on one axis: every track sizing function of the template and of the auto-track list is
fixed-size, the auto-track list is not empty (no implicit `auto` track), the gap is a length -/
def AxisFixed (tpl : List (TrackDef Rat)) (autoTracks : List (TrackFn Rat)) (gap : LP Rat) : Prop :=
  (∀ f ∈ templateFns tpl, FixedFn f) ∧ (∀ f ∈ autoTracks, FixedFn f) ∧ autoTracks ≠ [] ∧ ∃ v, gap = .length v

def axisFixedB (tpl : List (TrackDef Rat)) (autoTracks : List (TrackFn Rat)) (gap : LP Rat) : Bool :=
  (templateFns tpl).all fixedFnB && autoTracks.all fixedFnB && !autoTracks.isEmpty &&
    (match gap with | .length _ => true | .percent _ => false)

theorem axisFixedB_iff (tpl : List (TrackDef Rat)) (autoTracks : List (TrackFn Rat)) (gap : LP Rat) :
    axisFixedB tpl autoTracks gap = true ↔ AxisFixed tpl autoTracks gap := by
  unfold axisFixedB AxisFixed
  simp only [Bool.and_eq_true, List.all_eq_true, fixedFnB_iff, Bool.not_eq_true', List.isEmpty_eq_false_iff]
  constructor
  · rintro ⟨⟨⟨h1, h2⟩, h3⟩, h4⟩
    refine ⟨h1, h2, h3, ?_⟩
    cases gap with
    | length v => exact ⟨v, rfl⟩
    | percent v => exact absurd h4 Bool.false_ne_true
  · rintro ⟨h1, h2, h3, v, rfl⟩
    exact ⟨⟨⟨h1, h2⟩, h3⟩, rfl⟩

theorem TPs_append {FT : GridTrack Rat → Prop} {a b : List (GridTrack Rat)} (ha : TPs FT a) (hb : TPs FT b) :
    TPs FT (a ++ b) := by
  intro t ht
  rcases List.mem_append.1 ht with h | h
  · exact ha t h
  · exact hb t h

theorem TPs_flatMap {β : Type} {FT : GridTrack Rat → Prop} (l : List β) (g : β → List (GridTrack Rat))
    (h : ∀ x ∈ l, TPs FT (g x)) : TPs FT (l.flatMap g) := by
  intro t ht
  obtain ⟨x, hx, hxt⟩ := List.mem_flatMap.1 ht
  exact h x hx t hxt

theorem getD_mem_of_ne_nil {β : Type} (l : List β) (hl : l ≠ []) (i : Nat) (d : β) : l.getD (i % l.length) d ∈ l := by
  have hlen : 0 < l.length := List.length_pos_of_ne_nil hl
  have hi : i % l.length < l.length := Nat.mod_lt _ hlen
  rw [List.getD_eq_getElem?_getD, List.getElem?_eq_getElem hi]
  exact List.getElem_mem hi

theorem cycleTake_mem (fs : List (TrackFn Rat)) (n : Nat) : ∀ f ∈ cycleTake fs n, f ∈ fs := by
  intro f hf
  unfold cycleTake at hf
  split at hf
  · cases hf
  · rename_i hne
    obtain ⟨i, _, rfl⟩ := List.mem_map.1 hf
    exact getD_mem_of_ne_nil fs (by intro h; rw [h] at hne; exact hne rfl) i _

theorem tps_pairs (gap : LP Rat) (hg : ∃ v, gap = .length v) (l : List (TrackFn Rat)) (hl : ∀ f ∈ l, FixedFn f) :
    TPs FixedLen (l.flatMap fun f => [GridTrack.new f, GridTrack.gutter gap]) :=
  TPs_flatMap l _ fun f hf t ht => by
    simp only [List.mem_cons, List.not_mem_nil, or_false] at ht
    rcases ht with rfl | rfl
    · exact fixed_new (hl f hf)
    · exact fixed_gutter hg

theorem tps_createImplicit (count : Nat) (autoTracks : List (TrackFn Rat)) (offset : Nat) (gap : LP Rat)
    (ha : ∀ f ∈ autoTracks, FixedFn f) (hne : autoTracks ≠ []) (hg : ∃ v, gap = .length v) :
    TPs FixedLen (createImplicitTracks count (autoTrackAt autoTracks offset) gap) := by
  unfold createImplicitTracks
  refine TPs_flatMap _ _ fun i _ t ht => ?_
  simp only [List.mem_cons, List.not_mem_nil, or_false] at ht
  rcases ht with rfl | rfl
  · refine fixed_new (ha _ ?_)
    unfold autoTrackAt
    have : autoTracks.isEmpty = false := by
      cases autoTracks with
      | nil => exact absurd rfl hne
      | cons _ _ => rfl
    rw [this]
    exact getD_mem_of_ne_nil autoTracks hne _ _
  · exact fixed_gutter hg

theorem tps_autoRepeat (fit : Bool) (fs : List (TrackFn Rat)) (n : Nat) (gap : LP Rat) (has : Nat → Bool) (idx : Nat)
    (hf : ∀ f ∈ fs, FixedFn f) (hg : ∃ v, gap = .length v) :
    TPs FixedLen (autoRepeatTracks fit fs n gap has idx) := by
  unfold autoRepeatTracks
  refine TPs_flatMap _ _ fun p hp t ht => ?_
  obtain ⟨f, i⟩ := p
  have hfm : f ∈ cycleTake fs n := by
    have := List.mem_zipIdx hp
    rw [this.2.2]
    exact List.getElem_mem _
  simp only at ht
  split at ht
  · simp only [List.mem_cons, List.not_mem_nil, or_false] at ht
    rcases ht with rfl | rfl <;> exact fixed_collapse _
  · simp only [List.mem_cons, List.not_mem_nil, or_false] at ht
    rcases ht with rfl | rfl
    · exact fixed_new (hf f (cycleTake_mem fs n f hfm))
    · exact fixed_gutter hg

theorem tps_explicit (autoN : Nat) (gap : LP Rat) (has : Nat → Bool) (hg : ∃ v, gap = .length v) :
    ∀ (tpl : List (TrackDef Rat)) (idx : Nat), (∀ f ∈ templateFns tpl, FixedFn f) →
      TPs FixedLen (explicitTracks autoN gap has tpl idx)
  | [], _, _ => fun _ h => by cases h
  | .single f :: rest, idx, h => by
    unfold explicitTracks
    refine TPs_append ?_ (tps_explicit autoN gap has hg rest _ fun g hg' => h g (List.mem_cons_of_mem _ hg'))
    intro t ht
    simp only [List.mem_cons, List.not_mem_nil, or_false] at ht
    rcases ht with rfl | rfl
    · exact fixed_new (h f List.mem_cons_self)
    · exact fixed_gutter hg
  | .rep (.count c) fs :: rest, idx, h => by
    unfold explicitTracks
    have hfs : ∀ f ∈ fs, FixedFn f := fun f hf => h f (List.mem_append_left _ hf)
    refine TPs_append (tps_pairs gap hg _ fun f hf => hfs f (cycleTake_mem fs _ f hf))
      (tps_explicit autoN gap has hg rest _ fun g hg' => h g (List.mem_append_right _ hg'))
  | .rep .autoFit fs :: rest, idx, h => by
    unfold explicitTracks
    have hfs : ∀ f ∈ fs, FixedFn f := fun f hf => h f (List.mem_append_left _ hf)
    exact TPs_append (tps_autoRepeat true fs autoN gap has idx hfs hg)
      (tps_explicit autoN gap has hg rest _ fun g hg' => h g (List.mem_append_right _ hg'))
  | .rep .autoFill fs :: rest, idx, h => by
    unfold explicitTracks
    have hfs : ∀ f ∈ fs, FixedFn f := fun f hf => h f (List.mem_append_left _ hf)
    exact TPs_append (tps_autoRepeat false fs autoN gap has idx hfs hg)
      (tps_explicit autoN gap has hg rest _ fun g hg' => h g (List.mem_append_right _ hg'))

theorem tps_collapseFirstLast (l : List (GridTrack Rat)) (h : TPs FixedLen l) : TPs FixedLen (collapseFirstLast l) := by
  unfold collapseFirstLast
  have hm : ∀ (l : List (GridTrack Rat)) (i : Nat), TPs FixedLen l → TPs FixedLen (l.modify i GridTrack.collapse) := by
    intro l i hl t ht
    obtain ⟨j, hj⟩ := List.mem_iff_getElem?.1 ht
    rw [List.getElem?_modify] at hj
    cases hlj : l[j]? with
    | none => rw [hlj] at hj; cases hj
    | some t0 =>
      rw [hlj] at hj
      have hj' : (if i = j then t0.collapse else t0) = t := by
        have : some (if i = j then t0.collapse else t0) = some t := hj
        exact Option.some.inj this
      by_cases hij : i = j
      · rw [if_pos hij] at hj'
        rw [← hj']; exact fixed_collapse _
      · rw [if_neg hij] at hj'
        rw [← hj']
        exact hl t0 (List.mem_of_getElem? hlj)
  exact hm _ _ (hm _ _ h)

/-- **every track `initialize_grid_tracks` produces on a fixed axis is fixed-size** -/
theorem initializeGridTracks_fixed (counts : TrackCounts) (tpl : List (TrackDef Rat)) (autoTracks : List (TrackFn Rat))
    (gap : LP Rat) (has : Nat → Bool) (h : AxisFixed tpl autoTracks gap) (l : List (GridTrack Rat))
    (hl : initializeGridTracks counts tpl autoTracks gap has = .ok l) : TPs FixedLen l := by
  obtain ⟨h1, h2, h3, h4⟩ := h
  unfold initializeGridTracks at hl
  split at hl
  · cases hl
  · split at hl
    · cases hl
    · rename_i autoN _
      simp only [Except.ok.injEq] at hl
      rw [← hl]
      refine tps_collapseFirstLast _ ?_
      intro t ht
      rcases List.mem_cons.1 ht with rfl | ht
      · exact fixed_gutter h4
      · unfold bodyTracks at ht
        refine TPs_append (TPs_append ?_ ?_) (tps_createImplicit _ _ _ _ h2 h3 h4) t ht
        · split
          · exact tps_createImplicit _ _ _ _ h2 h3 h4
          · intro _ h; cases h
        · split
          · exact tps_explicit autoN gap has h4 tpl _ h1
          · intro _ h; cases h

end C04
