/-
  C03 (finiteness at `ER`) — the grid program, part 6: `distribute_space_up_to_limits` (generic in its four closures) and
  11.6 `maximise_tracks` (`MaximiseFin`).  The divisions: `space / proportion_sum` under `proportion_sum != 0`;
  `(limit − affected) / proportion`, which the model keeps as the explicit `+∞` when the proportion is exactly 0.
-/
import TaffyVerif.Lemmas.FiniteGrid5

set_option linter.unusedSectionVars false
set_option linter.unusedVariables false

namespace C03Fin
open GridModel GridTracks EvalGrid

theorem tracks_cons {a : GridTrack ER} {l : List (GridTrack ER)} (ha : TrackFin a) (hl : TracksFin l) :
    TracksFin (a :: l) := by
  intro x hx
  rcases List.mem_cons.mp hx with rfl | hx
  · exact ha
  · exact hl x hx

theorem ne_zero_of_not_feq {x : ER} (h : ¬ Num.feq x 0 = true) : x ≠ 0 := by
  intro e
  subst e
  exact h (by decide +kernel)

theorem fin_thresholdDist : IsFin (thresholdDist : ER) :=
  fin_div (fin_ofNat _) (fin_ofNat _) (ofNat_ne_zero (by decide))

/-! ### `Ext` operations -/

theorem fin_ext_min {a b : Ext ER} (ha : ExtFin a) (hb : ExtFin b) : ExtFin (Ext.min a b) := by
  cases a <;> cases b <;> first | trivial | exact ha | exact hb | exact fin_fmin ha hb

theorem fin_ext_minF {e : Ext ER} {x : ER} (he : ExtFin e) (hx : IsFin x) : IsFin (e.minF x) := by
  cases e
  · exact fin_fmin he hx
  · exact hx

theorem fin_ext_subDiv {e : Ext ER} {x p : ER} (he : ExtFin e) (hx : IsFin x) (hp : IsFin p) : ExtFin (e.subDiv x p) := by
  cases e
  · unfold Ext.subDiv
    dsimp only
    split
    · trivial
    · rename_i h
      exact fin_div (fin_sub he hx) hp (ne_zero_of_not_feq h)
  · trivial

theorem fin_extStep {a b : Ext ER} (ha : ExtFin a) (hb : ExtFin b) : ExtFin (extStep a b) := by
  cases a <;> cases b <;> simp only [extStep] <;> first | trivial | exact ha | exact hb | (split <;> assumption)

theorem fin_extFold : ∀ (l : List (Ext ER)) (x : Ext ER), ExtFin x → (∀ y ∈ l, ExtFin y) → ExtFin (l.foldl extStep x)
  | [], x, hx, _ => hx
  | y :: l, x, hx, h =>
    fin_extFold l _ (fin_extStep hx (h y (List.mem_cons_self ..))) (fun z hz => h z (List.mem_cons_of_mem _ hz))

theorem fin_extMinList {l : List (Ext ER)} (h : ∀ y ∈ l, ExtFin y) : ∀ m, extMinList l = some m → ExtFin m := by
  intro m hm
  cases l with
  | nil => simp [extMinList] at hm
  | cons x rest =>
    simp only [extMinList, Option.some.injEq] at hm
    subst hm
    exact fin_extFold rest x (h x (List.mem_cons_self ..)) (fun z hz => h z (List.mem_cons_of_mem _ hz))

theorem fin_fitContentLimit {t : GridTrack ER} {a : Option ER} (ht : TrackFin t) (ha : OFin a) :
    ExtFin (t.fitContentLimit a) := by
  have := ht.maxFn
  unfold GridTrack.fitContentLimit
  split
  · rename_i v hv; rw [hv] at this; exact this
  · rename_i v hv
    rw [hv] at this
    split
    · rename_i s; exact fin_mul ha this
    · trivial
  · trivial

theorem fin_fitContentLimitedGrowthLimit {t : GridTrack ER} {a : Option ER} (ht : TrackFin t) (ha : OFin a) :
    ExtFin (t.fitContentLimitedGrowthLimit a) :=
  fin_ext_min ht.growthLimit (fin_fitContentLimit ht ha)

theorem fin_growthLimitOrBase {t : GridTrack ER} (ht : TrackFin t) : IsFin t.growthLimitOrBase := by
  have := ht.growthLimit
  unfold GridTrack.growthLimitOrBase
  split
  · rename_i g hg; rw [hg] at this; exact this
  · exact ht.baseSize

/-! ### `distribute_space_up_to_limits` -/

theorem fin_distributeApply {inc : ER} {isA : GridTrack ER → Bool} {prop aff : GridTrack ER → ER}
    {lim : GridTrack ER → Ext ER} (hinc : IsFin inc) (hp : ∀ t, TrackFin t → IsFin (prop t)) :
    ∀ (ts : List (GridTrack ER)) (space : ER), TracksFin ts → IsFin space →
      TracksFin (distributeApply inc isA prop aff lim ts space).1 ∧
      IsFin (distributeApply inc isA prop aff lim ts space).2 ∧
      (distributeApply inc isA prop aff lim ts space).1.length = ts.length
  | [], space, _, hs => by
    unfold distributeApply
    exact ⟨fun _ h => absurd h List.not_mem_nil, hs, rfl⟩
  | t :: rest, space, h, hs => by
    have ht := h t (List.mem_cons_self ..)
    have hrest : TracksFin rest := fun x hx => h x (List.mem_cons_of_mem _ hx)
    have hincr : IsFin (inc * prop t) := fin_mul hinc (hp t ht)
    have ih1 := fin_distributeApply (isA := isA) (aff := aff) (lim := lim) hinc hp rest (space - inc * prop t) hrest
      (fin_sub hs hincr)
    have ih2 := fin_distributeApply (isA := isA) (aff := aff) (lim := lim) hinc hp rest space hrest hs
    unfold distributeApply
    split
    · dsimp only
      split
      · revert ih1
        generalize distributeApply inc isA prop aff lim rest (space - inc * prop t) = r
        obtain ⟨r1, r2⟩ := r
        intro ih1
        exact ⟨tracks_cons { ht with itemIncurredIncrease := fin_add ht.itemIncurredIncrease hincr } ih1.1, ih1.2.1,
          by simp [ih1.2.2]⟩
      · revert ih2
        generalize distributeApply inc isA prop aff lim rest space = r
        obtain ⟨r1, r2⟩ := r
        intro ih2
        exact ⟨tracks_cons ht ih2.1, ih2.2.1, by simp [ih2.2.2]⟩
    · revert ih2
      generalize distributeApply inc isA prop aff lim rest space = r
      obtain ⟨r1, r2⟩ := r
      intro ih2
      exact ⟨tracks_cons ht ih2.1, ih2.2.1, by simp [ih2.2.2]⟩

/-- **distribute_space_up_to_limits** for closures that are finite on finite tracks: finite space and tracks in ⇒ finite
left-over space and tracks out, same length -/
theorem fin_distributeSpaceUpToLimits {isA : GridTrack ER → Bool} {prop aff : GridTrack ER → ER}
    {lim : GridTrack ER → Ext ER} (hp : ∀ t, TrackFin t → IsFin (prop t)) (ha : ∀ t, TrackFin t → IsFin (aff t))
    (hl : ∀ t, TrackFin t → ExtFin (lim t)) :
    ∀ (fuel : Nat) (space : ER) (ts : List (GridTrack ER)), IsFin space → TracksFin ts →
      IsFin (distributeSpaceUpToLimits fuel space ts isA prop aff lim).1 ∧
      TracksFin (distributeSpaceUpToLimits fuel space ts isA prop aff lim).2 ∧
      (distributeSpaceUpToLimits fuel space ts isA prop aff lim).2.length = ts.length
  | 0, space, ts, hs, hts => by
    unfold distributeSpaceUpToLimits
    exact ⟨hs, hts, rfl⟩
  | fuel + 1, space, ts, hs, hts => by
    unfold distributeSpaceUpToLimits
    split
    · exact ⟨hs, hts, rfl⟩
    · extract_lets growable propSum
      have hg : ∀ t ∈ growable, TrackFin t := fun t ht => hts t (List.mem_of_mem_filter ht)
      have hps : IsFin propSum := fin_gsumF_map fun t ht => hp t (hg t ht)
      split
      · exact ⟨hs, hts, rfl⟩
      · rename_i hne
        split
        · exact ⟨hs, hts, rfl⟩
        · rename_i m hm
          have hmf : ExtFin m := by
            refine fin_extMinList (fun y hy => ?_) m hm
            obtain ⟨t, ht, rfl⟩ := List.mem_map.mp hy
            exact fin_ext_subDiv (hl t (hg t ht)) (ha t (hg t ht)) (hp t (hg t ht))
          have hinc : IsFin (m.minF (space / propSum)) :=
            fin_ext_minF hmf (fin_div hs hps (ne_zero_of_not_feq hne))
          have hap := fin_distributeApply (isA := isA) (aff := aff) (lim := lim) hinc hp ts space hts hs
          dsimp only
          revert hap
          generalize distributeApply (m.minF (space / propSum)) isA prop aff lim ts space = r
          obtain ⟨r1, r2⟩ := r
          intro hap
          have ih := fin_distributeSpaceUpToLimits (isA := isA) hp ha hl fuel r2 r1 hap.2.1 hap.1
          exact ⟨ih.1, ih.2.1, by rw [ih.2.2]; exact hap.2.2⟩

/-! ### 11.6 -/

/-- **maximise_tracks** -/
theorem maximiseFin_len (ts : List (GridTrack ER)) (inner : Option ER) (avail : AvailableSpace ER) (hts : TracksFin ts)
    (hin : OFin inner) (hav : AvFin avail) :
    TracksFin (maximiseTracks ts inner avail) ∧ (maximiseTracks ts inner avail).length = ts.length := by
  unfold maximiseTracks
  extract_lets used
  split
  · refine ⟨?_, by simp⟩
    intro t' ht'
    obtain ⟨t, ht, rfl⟩ := List.mem_map.mp ht'
    exact { hts t ht with baseSize := fin_growthLimitOrBase (hts t ht) }
  · exact ⟨hts, rfl⟩
  · rename_i a
    have hused : IsFin used := fin_sumBase hts
    dsimp only
    split
    · have hd := fin_distributeSpaceUpToLimits (isA := fun _ => true) (prop := fun _ => (1 : ER))
        (aff := fun t => t.baseSize) (lim := fun t => t.fitContentLimitedGrowthLimit inner)
        (fun _ _ => fin_one) (fun t ht => ht.baseSize) (fun t ht => fin_fitContentLimitedGrowthLimit ht hin)
        (distFuel ts.length) (a - used) ts (fin_sub hav hused) hts
      refine ⟨?_, by simp [hd.2.2]⟩
      intro t' ht'
      obtain ⟨t, ht, rfl⟩ := List.mem_map.mp ht'
      have hf := hd.2.1 t ht
      exact { hf with baseSize := fin_add hf.baseSize hf.itemIncurredIncrease, itemIncurredIncrease := fin_zero }
    · exact ⟨hts, rfl⟩

theorem maximiseFin : MaximiseFin := fun ts inner avail hts hin hav => (maximiseFin_len ts inner avail hts hin hav).1

end C03Fin
