/-
  C04 for grid, part 14: `distribute_item_space_to_base_size`, `distribute_item_space_to_growth_limit`, the flush
  functions, `maximise_tracks`, `stretch_auto_tracks` — thresholds as parameters.
-/
import TaffyVerif.Lemmas.GridScaleFr1

set_option linter.unusedSectionVars false
set_option linter.unusedVariables false
set_option linter.unusedSimpArgs false

namespace C04
open Scalable GridModel GridTracks GridStages GridTheta

variable {k : Rat}

@[scale_simp] theorem gt_fitContentLimit (k : Rat) (t : GridTrack Rat) (p : Option Rat) :
    (scale k t).fitContentLimit (scale k p) = scale k (t.fitContentLimit p) := by
  unfold GridTrack.fitContentLimit
  rw [gt_maxFn]
  cases t.maxFn <;> cases p <;> simp only [scale_simp, mul_scale]

@[scale_simp] theorem gt_fitContentLimitedGrowthLimit (hk : 0 < k) (t : GridTrack Rat) (p : Option Rat) :
    (scale k t).fitContentLimitedGrowthLimit (scale k p) = scale k (t.fitContentLimitedGrowthLimit p) := by
  unfold GridTrack.fitContentLimitedGrowthLimit
  rw [gt_fitContentLimit, gt_growthLimit, ext_min hk]

@[scale_simp] theorem gt_growthLimitOrBase (k : Rat) (t : GridTrack Rat) :
    (scale k t).growthLimitOrBase = scale k t.growthLimitOrBase := by
  unfold GridTrack.growthLimitOrBase
  rw [gt_growthLimit, gt_baseSize]
  cases t.growthLimit <;> rfl

theorem beyondLimitsFilter_scale (k : Rat) (ty : ContributionType) (t : GridTrack Rat) :
    beyondLimitsFilter ty (scale k t) = beyondLimitsFilter ty t := by
  cases ty <;> simp only [beyondLimitsFilter, scale_simp]

theorem finishBaseDistribution_scale (hk : 0 < k) (t : GridTrack Rat) :
    finishBaseDistribution (scale k t) = scale k (finishBaseDistribution t) := by
  cases t
  simp only [finishBaseDistribution, scale_gt_mk, flt_scale hk]
  split <;> simp only [scale_gt_mk, scale_zero]

theorem finishGrowthDistribution_scale (hk : 0 < k) (t : GridTrack Rat) :
    finishGrowthDistribution (scale k t) = scale k (finishGrowthDistribution t) := by
  cases t
  simp only [finishGrowthDistribution, scale_gt_mk, flt_scale hk]
  split <;> simp only [scale_gt_mk, scale_zero]

theorem baseSize_fns (k : Rat) : ∀ t : GridTrack Rat, (fun t : GridTrack Rat => t.baseSize) (scale k t) =
    scale k ((fun t : GridTrack Rat => t.baseSize) t) := fun _ => rfl

theorem distributeItemSpaceToBaseSizeInnerT_scale (hk : 0 < k) (θd θi space : Rat) (tracks : List (GridTrack Rat))
    {aff' aff : GridTrack Rat → Bool} {prop' prop : GridTrack Rat → Rat} {lim' lim : GridTrack Rat → Ext Rat}
    (hf : DistFns k aff' aff prop' prop lim' lim) (ty : ContributionType) :
    distributeItemSpaceToBaseSizeInnerT (scale k θd) (scale k θi) (scale k space) (scale k tracks) aff' prop' lim' ty =
      scale k (distributeItemSpaceToBaseSizeInnerT θd θi space tracks aff prop lim ty) := by
  unfold distributeItemSpaceToBaseSizeInnerT
  dsimp only
  rw [feq_scale_zero hk, any_scale_list k tracks aff' aff hf.aff]
  split
  · rfl
  · rw [map_scale_list k tracks (fun t => t.baseSize) (fun t => t.baseSize) (fun _ => rfl), gsumF_scale, sub_scale,
      fmax_zero_scale hk, length_scale_list,
      distributeSpaceUpToLimitsT_scale hk θd hf (baseSize_fns k)]
    rcases distributeSpaceUpToLimitsT θd (distFuel tracks.length)
      (Num.fmax 0 (space - GridTracks.sumF (tracks.map fun t => t.baseSize))) tracks aff prop (fun t => t.baseSize) lim
      with ⟨sp, tr⟩
    simp only [scale_pair, flt_scale hk]
    have hmap : ∀ l : List (GridTrack Rat), (scale k l).map finishBaseDistribution =
        scale k (l.map finishBaseDistribution) :=
      fun l => map_scale_list k l _ _ (finishBaseDistribution_scale hk)
    split
    · have hn : ((scale k tr).filter fun t => aff' t && beyondLimitsFilter ty t).length =
          (tr.filter fun t => aff t && beyondLimitsFilter ty t).length := by
        rw [filter_scale_list k tr _ (fun t => aff t && beyondLimitsFilter ty t)
          (fun t => by rw [hf.aff, beyondLimitsFilter_scale]), length_scale_list]
      simp only [hn, length_scale_list]
      have hf2 : DistFns k (if ((tr.filter fun t => aff t && beyondLimitsFilter ty t).length == 0) = true
            then fun _ => true else beyondLimitsFilter ty)
          (if ((tr.filter fun t => aff t && beyondLimitsFilter ty t).length == 0) = true
            then fun _ => true else beyondLimitsFilter ty) prop' prop lim' lim :=
        ⟨fun t => by split <;> [rfl; exact beyondLimitsFilter_scale k ty t], hf.prop, hf.lim⟩
      rw [distributeSpaceUpToLimitsT_scale hk θd hf2 (baseSize_fns k), scale_snd, hmap]
    · exact hmap tr

theorem distributeItemSpaceToBaseSizeT_scale (hk : 0 < k) (θd θi : Rat) (isFlex useFF : Bool) (space : Rat)
    (tracks : List (GridTrack Rat)) {aff' aff : GridTrack Rat → Bool} {lim' lim : GridTrack Rat → Ext Rat}
    (haff : ∀ t, aff' (scale k t) = aff t) (hlim : ∀ t, lim' (scale k t) = scale k (lim t)) (ty : ContributionType) :
    distributeItemSpaceToBaseSizeT (scale k θd) (scale k θi) isFlex useFF (scale k space) (scale k tracks) aff' lim' ty =
      scale k (distributeItemSpaceToBaseSizeT θd θi isFlex useFF space tracks aff lim ty) := by
  unfold distributeItemSpaceToBaseSizeT
  split
  · split
    · exact distributeItemSpaceToBaseSizeInnerT_scale hk θd θi space tracks
        ⟨fun t => by rw [gt_isFlexible, haff], fun t => gt_flexFactor k t, hlim⟩ ty
    · exact distributeItemSpaceToBaseSizeInnerT_scale hk θd θi space tracks
        ⟨fun t => by rw [gt_isFlexible, haff], fun _ => rfl, hlim⟩ ty
  · exact distributeItemSpaceToBaseSizeInnerT_scale hk θd θi space tracks ⟨haff, fun _ => rfl, hlim⟩ ty

theorem ofNat_div_scale' (k : Rat) (a : Rat) (n : Nat) : scale k a / (Num.ofNat n : Rat) = scale k (a / Num.ofNat n) := by
  simp only [scale_rat]; ring

theorem distributeItemSpaceToGrowthLimitT_scale (hk : 0 < k) (θd space : Rat) (tracks : List (GridTrack Rat))
    {aff' aff : GridTrack Rat → Bool} (haff : ∀ t, aff' (scale k t) = aff t) (axisInner : Option Rat) :
    distributeItemSpaceToGrowthLimitT (scale k θd) (scale k space) (scale k tracks) aff' (scale k axisInner) =
      scale k (distributeItemSpaceToGrowthLimitT θd space tracks aff axisInner) := by
  unfold distributeItemSpaceToGrowthLimitT
  dsimp only
  rw [feq_scale_zero hk, filter_scale_list k tracks aff' aff haff, length_scale_list]
  split
  · rfl
  · rw [map_scale_list k tracks (fun t => t.growthLimitOrBase) (fun t => t.growthLimitOrBase)
      (fun t => gt_growthLimitOrBase k t), gsumF_scale, sub_scale, fmax_zero_scale hk]
    have hgrow : ∀ t : GridTrack Rat,
        (aff' (scale k t) && ((scale k t).infinitelyGrowable ||
          ((scale k t).fitContentLimitedGrowthLimit (scale k axisInner)).isInf)) =
        (aff t && (t.infinitelyGrowable || (t.fitContentLimitedGrowthLimit axisInner).isInf)) := by
      intro t
      rw [haff, gt_infinitelyGrowable, gt_fitContentLimitedGrowthLimit hk, ext_isInf]
    rw [filter_scale_list k tracks _ (fun t => aff t && (t.infinitelyGrowable ||
      (t.fitContentLimitedGrowthLimit axisInner).isInf)) hgrow, length_scale_list]
    have hmap : ∀ l : List (GridTrack Rat), (scale k l).map finishGrowthDistribution =
        scale k (l.map finishGrowthDistribution) :=
      fun l => map_scale_list k l _ _ (finishGrowthDistribution_scale hk)
    split
    · rw [ofNat_div_scale']
      have h1 : (scale k tracks).map (fun t => if (aff' t && (t.infinitelyGrowable ||
            (t.fitContentLimitedGrowthLimit (scale k axisInner)).isInf)) = true
          then { t with itemIncurredIncrease := scale k (Num.fmax 0 (space - GridTracks.sumF
            (tracks.map fun t => t.growthLimitOrBase)) / Num.ofNat (tracks.filter fun t => aff t &&
              (t.infinitelyGrowable || (t.fitContentLimitedGrowthLimit axisInner).isInf)).length) } else t) =
          scale k (tracks.map fun t => if (aff t && (t.infinitelyGrowable ||
            (t.fitContentLimitedGrowthLimit axisInner).isInf)) = true
          then { t with itemIncurredIncrease := Num.fmax 0 (space - GridTracks.sumF
            (tracks.map fun t => t.growthLimitOrBase)) / Num.ofNat (tracks.filter fun t => aff t &&
              (t.infinitelyGrowable || (t.fitContentLimitedGrowthLimit axisInner).isInf)).length } else t) :=
        map_scale_list k tracks _ _ fun t => by
          rw [hgrow]
          split
          · exact gt_setIII k t _
          · rfl
      rw [h1, hmap]
    · have hf : DistFns k aff' aff (fun _ => (1 : Rat)) (fun _ => 1)
          (fun t => t.fitContentLimit (scale k axisInner)) (fun t => t.fitContentLimit axisInner) :=
        ⟨haff, fun _ => rfl, fun t => gt_fitContentLimit k t axisInner⟩
      rw [length_scale_list, distributeSpaceUpToLimitsT_scale hk θd hf (fun t => gt_growthLimitOrBase k t), scale_snd,
        hmap]

/-! ### flushes -/

theorem flushPlannedBaseSizeIncreases_scale (k : Rat) (tracks : List (GridTrack Rat)) :
    flushPlannedBaseSizeIncreases (scale k tracks) = scale k (flushPlannedBaseSizeIncreases tracks) := by
  unfold flushPlannedBaseSizeIncreases
  refine map_scale_list k tracks _ _ fun t => ?_
  cases t
  simp only [scale_gt_mk, add_scale, scale_zero]

theorem flushPlannedGrowthLimitIncreases_scale (hk : 0 < k) (tracks : List (GridTrack Rat)) (b : Bool) :
    flushPlannedGrowthLimitIncreases (scale k tracks) b = scale k (flushPlannedGrowthLimitIncreases tracks b) := by
  unfold flushPlannedGrowthLimitIncreases
  refine map_scale_list k tracks _ _ fun t => ?_
  obtain ⟨a0, a1, a2, a3, a4, a5, a6, a7, a8, a9, a10, a11⟩ := t
  simp only [scale_gt_mk, flt_zero_scale hk]
  split
  · cases a6 <;> simp only [ext_fin, ext_inf, scale_gt_mk, add_scale, scale_zero]
  · simp only [scale_gt_mk, scale_zero]

theorem raiseGrowthLimits_scale (hk : 0 < k) (tracks : List (GridTrack Rat)) :
    raiseGrowthLimits (scale k tracks) = scale k (raiseGrowthLimits tracks) := by
  unfold raiseGrowthLimits
  refine map_scale_list k tracks _ _ fun t => ?_
  rw [gt_growthLimit, gt_baseSize, ext_ltF hk]
  split
  · exact gt_setGL k t (.fin t.baseSize)
  · rfl

theorem flushSpanOne_scale (hk : 0 < k) (tracks : List (GridTrack Rat)) :
    flushSpanOne (scale k tracks) = scale k (flushSpanOne tracks) := by
  unfold flushSpanOne
  refine map_scale_list k tracks _ _ fun t => ?_
  obtain ⟨a0, a1, a2, a3, a4, a5, a6, a7, a8, a9, a10, a11⟩ := t
  cases a6 with
  | inf =>
    simp only [flushSpanOneTrack, scale_gt_mk, ext_inf, flt_zero_scale hk, scale_zero]
    by_cases hp : Num.flt 0 a10 = true
    · simp only [hp, if_true, Ext.ltF, flt_scale hk]
      split <;> rfl
    · simp only [hp, Bool.false_eq_true, if_false, Ext.ltF, ext_inf]
  | fin g =>
    simp only [flushSpanOneTrack, scale_gt_mk, ext_fin, flt_zero_scale hk, scale_zero]
    by_cases hp : Num.flt 0 a10 = true
    · simp only [hp, if_true, Ext.ltF, flt_scale hk, fmax_scale hk]
      split <;> rfl
    · simp only [hp, Bool.false_eq_true, if_false, Ext.ltF, flt_scale hk]
      split <;> rfl

theorem onRange_scale (k : Rat) (l : List (GridTrack Rat)) (lo hi : Nat)
    (f' f : List (GridTrack Rat) → List (GridTrack Rat)) (h : ∀ sl, f' (scale k sl) = scale k (f sl)) :
    onRange (scale k l) lo hi f' = scale k (onRange l lo hi f) := by
  unfold onRange
  have h1 : ((scale k l).drop lo).take (hi - lo) = scale k ((l.drop lo).take (hi - lo)) := by
    simp only [scale_list, List.map_drop, List.map_take]
  rw [h1, h]
  simp only [scale_list, List.map_append, List.map_take, List.map_drop]

/-! ### 11.6, 11.8 -/

theorem maximiseTracksT_scale (hk : 0 < k) (θd : Rat) (tracks : List (GridTrack Rat)) (axisInner : Option Rat)
    (avail : AvailableSpace Rat) :
    maximiseTracksT (scale k θd) (scale k tracks) (scale k axisInner) (scale k avail) =
      scale k (maximiseTracksT θd tracks axisInner avail) := by
  unfold maximiseTracksT
  dsimp only
  cases avail with
  | maxContent =>
    exact map_scale_list k tracks _ _ fun t => by
      rw [gt_growthLimitOrBase]
      exact gt_setBase k t _
  | minContent => rfl
  | definite a =>
    simp only [scale_definite]
    rw [map_scale_list k tracks (fun t => t.baseSize) (fun t => t.baseSize) (fun _ => rfl), gsumF_scale, sub_scale,
      flt_zero_scale hk]
    split
    · have hf : DistFns k (fun _ => true) (fun _ => true) (fun _ => (1 : Rat)) (fun _ => 1)
          (fun t => t.fitContentLimitedGrowthLimit (scale k axisInner))
          (fun t => t.fitContentLimitedGrowthLimit axisInner) :=
        ⟨fun _ => rfl, fun _ => rfl, fun t => gt_fitContentLimitedGrowthLimit hk t axisInner⟩
      rw [length_scale_list, distributeSpaceUpToLimitsT_scale hk θd hf (baseSize_fns k), scale_snd]
      refine map_scale_list k _ _ _ fun t => ?_
      cases t
      simp only [scale_gt_mk, add_scale, scale_zero]
    · rfl

theorem stretchTail_scale (hk : 0 < k) (tracks : List (GridTrack Rat)) (n : Nat) (free : Rat) :
    (if Num.flt 0 (scale k free) = true then
        (scale k tracks).map fun t =>
          if t.maxFn.isAuto = true then { t with baseSize := t.baseSize + scale k free / Num.ofNat n } else t
      else scale k tracks) =
    scale k (if Num.flt 0 free = true then
        tracks.map fun t => if t.maxFn.isAuto = true then { t with baseSize := t.baseSize + free / Num.ofNat n } else t
      else tracks) := by
  rw [flt_zero_scale hk]
  split
  · rw [ofNat_div_scale']
    refine map_scale_list k tracks _ _ fun t => ?_
    rw [gt_maxFn, maxt_isAuto]
    split
    · rw [gt_baseSize, add_scale]
      exact gt_setBase k t _
    · rfl
  · rfl

theorem stretchAutoTracks_scale (hk : 0 < k) (tracks : List (GridTrack Rat)) (mn : Option Rat)
    (av : AvailableSpace Rat) :
    stretchAutoTracks (scale k tracks) (scale k mn) (scale k av) = scale k (stretchAutoTracks tracks mn av) := by
  unfold stretchAutoTracks
  dsimp only
  rw [filter_scale_list k tracks (fun t : GridTrack Rat => t.maxFn.isAuto) (fun t : GridTrack Rat => t.maxFn.isAuto)
    (fun t => by rw [gt_maxFn, maxt_isAuto]), length_scale_list,
    map_scale_list k tracks (fun t : GridTrack Rat => t.baseSize) (fun t : GridTrack Rat => t.baseSize) (fun _ => rfl),
    gsumF_scale]
  split
  · cases av with
    | definite a =>
      simp only [scale_definite, sub_scale]
      exact stretchTail_scale hk tracks _ _
    | minContent =>
      cases mn with
      | none =>
        simp only [scale_minContent, scale_none]
        have := stretchTail_scale hk tracks (tracks.filter fun t => t.maxFn.isAuto).length 0
        rw [scale_zero] at this
        exact this
      | some v =>
        simp only [scale_minContent, scale_some, sub_scale]
        exact stretchTail_scale hk tracks _ _
    | maxContent =>
      cases mn with
      | none =>
        simp only [scale_maxContent, scale_none]
        have := stretchTail_scale hk tracks (tracks.filter fun t => t.maxFn.isAuto).length 0
        rw [scale_zero] at this
        exact this
      | some v =>
        simp only [scale_maxContent, scale_some, sub_scale]
        exact stretchTail_scale hk tracks _ _
  · rfl

end C04
