/-
  C12 / C06 for grid: the whole of `compute_grid_layout` respects the item transformation `phi P`:
  `computeGridLayoutE_rel` — for child-style lists related pointwise by `ChildOK` whose box-generating children give
  the same grid size estimate, the two programs are related (`GRel`), with outputs related by `QO`.
-/
import TaffyVerif.Lemmas.GridBoxTop1
import TaffyVerif.Lemmas.GridPlacementCounts

set_option linter.unusedSectionVars false

namespace GridRel
open GridModel GridTracks GridStages
variable {α : Type} [Num α] [NumCast α]

variable {w : World α} {RC : Size α → Size α → Prop} {QO : LayoutOutput α → LayoutOutput α → Prop}
  (hg : w.Good RC QO) {P : Nat → Bool} (hR : Readers (α := α) P)

/-! ### step 7 -/

def changedUpd (axis : Ax) (av : Size (Option α)) (newMin : α) (it : GItem α) : GItem α :=
  { it with availableSpaceCache := some av,
            minContentContributionCache := sset it.minContentContributionCache axis (some newMin),
            maxContentContributionCache := sset it.maxContentContributionCache axis none,
            minimumContributionCache := sset it.minimumContributionCache axis none }

theorem changedUpd_phi (axis : Ax) (av : Size (Option α)) (newMin : α) (it : GItem α) :
    changedUpd axis av newMin (phi P it) = phi P (changedUpd axis av newMin it) := by
  unfold changedUpd
  rw [← phi_setCaches]
  simp only [phi_minContentContributionCache, phi_maxContentContributionCache, phi_minimumContributionCache]

/-- `Some(new) != cache` -/
def hasChangedB (cache : Option α) (newMin : α) : Bool :=
  match cache with
  | some old => !Num.feq newMin old
  | none => true

theorem minContentChanged_cons (axis : Ax) (ots : List (GridTrack α)) (ins : Size (Option α)) (it : GItem α)
    (rest : List (GItem α)) :
    minContentChanged axis ots ins (it :: rest) =
      if !it.crossesIntrinsicColumn then
        minContentChanged axis ots ins rest >>= fun r => pure (r.1, it :: r.2)
      else
        it.minContentContribution axis (it.availableSpace axis ots (sget ins axis.other) .baseSize) ins >>= fun newMin =>
          if hasChangedB (sget it.minContentContributionCache axis) newMin then
            pure (true, changedUpd axis (it.availableSpace axis ots (sget ins axis.other) .baseSize) newMin it :: rest)
          else
            minContentChanged axis ots ins rest >>= fun r =>
              pure (r.1, changedUpd axis (it.availableSpace axis ots (sget ins axis.other) .baseSize) newMin it :: r.2) := by
  rfl

include hg hR in
theorem minContentChanged_rel (axis : Ax) (ots : List (GridTrack α)) (ins : Size (Option α)) :
    ∀ (items items' : List (GItem α)), LR P (NA w) items items' →
      GRel w (fun r r' => r'.1 = r.1 ∧ LR P (NA w) r.2 r'.2) (minContentChanged axis ots ins items)
        (minContentChanged axis ots ins items')
  | [], items', h => by
    rw [h.1]
    exact GRel.pure ⟨rfl, LR.nil⟩
  | it :: rest, items', h => by
    rw [h.1, List.map_cons, minContentChanged_cons, minContentChanged_cons]
    have hn : ¬ w.abs it.node := h.2 it List.mem_cons_self
    have hrest : LR P (NA w) rest (rest.map (phi P)) := ⟨rfl, fun x hx => h.2 x (List.mem_cons_of_mem _ hx)⟩
    rw [phi_crossesIntrinsicColumn, phi_availableSpace, phi_minContentContributionCache]
    refine GRel.ite ?_ ?_
    · refine GRel.bind (minContentChanged_rel axis ots ins rest _ hrest) fun r r' hr => ?_
      rw [hr.1]
      exact GRel.pure ⟨rfl, LR.cons ⟨rfl, hn⟩ hr.2⟩
    · refine GRel.bind (minContentContribution_rel hg.toReads hR it hn axis _ ins) fun v v' hv => ?_
      subst hv
      rw [changedUpd_phi]
      refine GRel.ite ?_ ?_
      · exact GRel.pure ⟨rfl, LR.cons ⟨rfl, hn⟩ hrest⟩
      · refine GRel.bind (minContentChanged_rel axis ots ins rest _ hrest) fun r r' hr => ?_
        rw [hr.1]
        exact GRel.pure ⟨rfl, LR.cons ⟨rfl, hn⟩ hr.2⟩

theorem clearCaches_rel {G : Nat → Prop} (axis : Ax) (items items' : List (GItem α)) (h : LR P G items items') :
    LR P G (clearCaches axis items) (clearCaches axis items') := by
  unfold clearCaches
  refine h.map _ (fun it => ?_) (fun it => rfl)
  rw [← phi_setCaches]
  simp only [phi_minContentContributionCache, phi_maxContentContributionCache, phi_minimumContributionCache]

/-- the three-component result of step 7 -/
def R3 (P : Nat → Bool) (G : Nat → Prop)
    (r r' : List (GridTrack α) × List (GridTrack α) × List (GItem α)) : Prop :=
  r'.1 = r.1 ∧ r'.2.1 = r.2.1 ∧ LR P G r.2.2 r'.2.2

include hg hR in
theorem gridRerunRows_rel (c : Ctx α) (av : Size (AvailableSpace α)) (ins : Size (Option α)) (st st' : RunState α)
    (h : RST P (NA w) st st') :
    GRel w (R3 P (NA w)) (gridRerunRows c av ins st) (gridRerunRows c av ins st') := by
  obtain ⟨h1, h2, h3⟩ := h
  unfold gridRerunRows
  rw [h1, h2]
  dsimp only
  refine GRel.bind (Q := fun r r' => r'.1 = r.1 ∧ LR P (NA w) r.2 r'.2) ?_ fun r r' hr => ?_
  · refine GRel.ite ?_ ?_
    · exact minContentChanged_rel hg hR _ _ _ _ _ h3
    · exact GRel.pure ⟨rfl, clearCaches_rel _ _ _ h3⟩
  · obtain ⟨b, l⟩ := r
    obtain ⟨b', l'⟩ := r'
    obtain ⟨hb, hl⟩ := hr
    simp only at hb hl
    subst hb
    dsimp only
    refine GRel.ite ?_ ?_
    · refine GRel.bind (trackSizingAlgorithmM_rel hg.toReads hR _ _ _ ?_) fun s s' hs => ?_
      · exact ⟨rfl, rfl, hl⟩
      · exact GRel.pure ⟨hs.2.1, hs.1, hs.2.2⟩
    · exact GRel.pure ⟨rfl, rfl, hl⟩

include hg hR in
theorem gridRerunBody_rel (c : Ctx α) (av : Size (AvailableSpace α)) (hb : Bool) (ins : Size (Option α))
    (rerun : Bool) (columns rows : List (GridTrack α)) (items items' : List (GItem α))
    (h : LR P (NA w) items items') :
    GRel w (R3 P (NA w)) (gridRerunBody c av hb ins rerun columns rows items)
      (gridRerunBody c av hb ins rerun columns rows items') := by
  unfold gridRerunBody
  refine GRel.ite ?_ ?_
  · refine GRel.bind (trackSizingAlgorithmM_rel hg.toReads hR _ _ _ ?_) fun s s' hs => ?_
    · exact ⟨rfl, rfl, h⟩
    · exact gridRerunRows_rel hg hR c av ins s s' hs
  · exact GRel.pure ⟨rfl, rfl, h⟩

include hg hR in
theorem gridRerunK_rel {β γ : Type} {Q : β → γ → Prop} (c : Ctx α) (av : Size (AvailableSpace α)) (hb : Bool)
    (ccb : Size α) (ins : Size (Option α)) (columns rows : List (GridTrack α)) (items items' : List (GItem α))
    (h : LR P (NA w) items items')
    (k : List (GridTrack α) × List (GridTrack α) × List (GItem α) → GM α β)
    (k' : List (GridTrack α) × List (GridTrack α) × List (GItem α) → GM α γ)
    (hk : ∀ r r', R3 P (NA w) r r' → GRelW w Q (k r) (k' r')) :
    GRelW w Q (gridRerunK c av hb ccb ins columns rows items k) (gridRerunK c av hb ccb ins columns rows items' k') := by
  unfold gridRerunK
  dsimp only
  refine GRelW.bind (Q := fun r r' => r'.1 = r.1 ∧ LR P (NA w) r.2 r'.2) (GRelW.of_GRel ?_) fun r r' hr => ?_
  · refine GRel.ite ?_ ?_
    · exact minContentChanged_rel hg hR _ _ _ _ _ h
    · exact GRel.pure ⟨rfl, clearCaches_rel _ _ _ h⟩
  · obtain ⟨b, l⟩ := r
    obtain ⟨b', l'⟩ := r'
    obtain ⟨hb', hl⟩ := hr
    simp only at hb' hl
    subst hb'
    exact GRelW.bind (GRelW.of_GRel (gridRerunBody_rel hg hR c av hb ins _ _ _ _ _ hl)) hk

/-! ### steps 8–9 -/

include hg in
theorem gridFinish_rel (c : Ctx α) (as bs : List (GridChildStyle α)) (hcs : ChildrenOK w P RC 0 as bs)
    (bb ccb : Size α) (cc rc : GridPlacement.TrackCounts)
    (r r' : List (GridTrack α) × List (GridTrack α) × List (GItem α)) (h : R3 P (NA w) r r') :
    GRelW w QO (gridFinish c as bb ccb cc rc r) (gridFinish c bs bb ccb cc rc r') := by
  obtain ⟨h1, h2, h3⟩ := h
  unfold gridFinish
  rw [h1, h2]
  dsimp only
  have hs := h3.mergeSort (fun a b => decide (a.sourceOrder ≤ b.sourceOrder))
    (fun a b => by rw [phi_sourceOrder, phi_sourceOrder])
  refine GRelW.bind (GRelW.of_GRel (positionItems_rel hg as bs hcs _ _ _ _ _ _ 0 _ _ hs hg.rc0)) fun q q' hq => ?_
  obtain ⟨l, acc⟩ := q
  obtain ⟨l', acc'⟩ := q'
  obtain ⟨hl, hacc⟩ := hq
  simp only at hl hacc
  dsimp only
  rw [hl.length]
  refine GRelW.bind (hiddenAbsLoop_rel hg c bb _ _ cc rc as bs 0 _ _ _ hcs hacc) fun x x' hx => ?_
  rw [hl.isEmpty]
  refine GRelW.ite ?_ ?_
  · exact GRelW.pure (hg.outRefl _)
  · rw [gridContainerBaseline_rel _ _ hl]
    exact GRelW.pure (hg.out _ _ _ _ hx)

/-! ### step 6 -/

include hg hR in
theorem gridAfterSizing_rel (c : Ctx α) (as bs : List (GridChildStyle α)) (hcs : ChildrenOK w P RC 0 as bs)
    (inp : LayoutInput α) (hb : Bool) (cc rc : GridPlacement.TrackCounts) (ins0 : Size (Option α)) (ics : α)
    (st st' : RunState α) (h : RST P (NA w) st st') :
    GRelW w QO (gridAfterSizing c as inp hb cc rc ins0 ics st) (gridAfterSizing c bs inp hb cc rc ins0 ics st') := by
  obtain ⟨h1, h2, h3⟩ := h
  unfold gridAfterSizing
  rw [h1, h2]
  dsimp only
  refine GRelW.ite ?_ ?_
  · exact GRelW.pure (hg.outRefl _)
  · exact gridRerunK_rel hg hR c _ hb _ _ _ _ _ _ h3 _ _ fun r r' hr => gridFinish_rel hg c as bs hcs _ _ cc rc r r' hr

/-- the setups of the two runs -/
def RSU (P : Nat → Bool) (G : Nat → Prop) (su su' : Setup α) : Prop :=
  su'.columns = su.columns ∧ su'.rows = su.rows ∧ su'.colCounts = su.colCounts ∧ su'.rowCounts = su.rowCounts ∧
  LR P G su.items su'.items

include hg hR in
theorem gridSizing_rel (c : Ctx α) (as bs : List (GridChildStyle α)) (hcs : ChildrenOK w P RC 0 as bs)
    (inp : LayoutInput α) (su su' : Setup α) (h : RSU P (NA w) su su') :
    GRelW w QO (gridSizing c as inp su) (gridSizing c bs inp su') := by
  obtain ⟨h1, h2, h3, h4, h5⟩ := h
  unfold gridSizing
  rw [h1, h2, h3, h4, h5.any _ (fun a => by rw [phi_alignSelf])]
  dsimp only
  refine GRelW.bind (GRelW.of_GRel (trackSizingAlgorithmM_rel hg.toReads hR _ _ _ ?_)) fun s s' hs => ?_
  · exact ⟨rfl, rfl, h5⟩
  obtain ⟨hs1, hs2, hs3⟩ := hs
  rw [hs1, hs2]
  have hmap := hs3.map (fun it => { it with availableSpaceCache := none }) (fun it => (phi_setAvail P it none).symm)
    (fun it => rfl)
  refine GRelW.bind (GRelW.of_GRel (trackSizingAlgorithmM_rel hg.toReads hR _ _ _ ?_)) fun t t' ht => ?_
  · exact ⟨rfl, rfl, hmap⟩
  exact gridAfterSizing_rel hg hR c as bs hcs inp _ _ _ _ _ t t' ht

/-! ### steps 2–5 -/

theorem mem_enumFrom {β : Type} : ∀ (l : List β) (n i : Nat) (x : β), (i, x) ∈ GridPlacement.enumFrom n l →
    ∃ j, i = n + j ∧ l[j]? = some x
  | [], _, _, _, h => by simp only [GridPlacement.enumFrom, List.not_mem_nil] at h
  | y :: ys, n, i, x, h => by
    simp only [GridPlacement.enumFrom, List.mem_cons, Prod.mk.injEq] at h
    rcases h with ⟨rfl, rfl⟩ | h
    · exact ⟨0, rfl, rfl⟩
    · obtain ⟨j, hj, hx⟩ := mem_enumFrom ys (n + 1) i x h
      exact ⟨j + 1, by omega, by simpa using hx⟩

theorem mem_inFlowChildren (as : List (GridChildStyle α)) (i : Nat) (ch : GridPlacement.Child)
    (h : (i, ch) ∈ inFlowChildren as) :
    ∃ a, as[i]? = some a ∧ a.base.isHidden = false ∧ (a.base.position == Position.absolute) = false := by
  unfold inFlowChildren at h
  obtain ⟨⟨j, a⟩, hm, he⟩ := List.mem_map.1 h
  simp only [Prod.mk.injEq] at he
  obtain ⟨hm1, hm2⟩ := List.mem_filter.1 hm
  obtain ⟨k, hk, ha⟩ := mem_enumFrom as 0 j a hm1
  simp only [Bool.and_eq_true, Bool.not_eq_true', bne] at hm2
  refine ⟨a, ?_, hm2.1, hm2.2⟩
  rw [← he.1, hk, Nat.zero_add]; exact ha

theorem inFlowChildren_rel : ∀ (as bs : List (GridChildStyle α)) (n : Nat), ChildrenOK w P RC n as bs →
    ((GridPlacement.enumFrom n bs).filter fun ic =>
        !ic.2.base.isHidden && ic.2.base.position != .absolute).map (fun ic =>
          (ic.1, (⟨ic.2.gridRow, ic.2.gridColumn⟩ : GridPlacement.Child))) =
      ((GridPlacement.enumFrom n as).filter fun ic =>
        !ic.2.base.isHidden && ic.2.base.position != .absolute).map (fun ic =>
          (ic.1, (⟨ic.2.gridRow, ic.2.gridColumn⟩ : GridPlacement.Child)))
  | [], [], _, _ => rfl
  | [], _ :: _, _, h => by simp only [ChildrenOK] at h
  | _ :: _, [], _, h => by simp only [ChildrenOK] at h
  | a :: as, b :: bs, n, h => by
    simp only [ChildrenOK] at h
    obtain ⟨h1, h2⟩ := h
    have ih := inFlowChildren_rel as bs (n + 1) h2
    have hp : (b.base.position != Position.absolute) = (a.base.position != Position.absolute) := by
      simp only [bne, h1.position]
    simp only [GridPlacement.enumFrom, List.filter_cons, h1.hidden, hp]
    cases hh : a.base.isHidden with
    | true => simpa using ih
    | false =>
      cases hq : (a.base.position == Position.absolute) with
      | true =>
        have : (a.base.position != Position.absolute) = false := by simp only [bne, hq, Bool.not_true]
        simp only [this, Bool.not_false, Bool.and_false, Bool.false_eq_true, if_false]
        exact ih
      | false =>
        have : (a.base.position != Position.absolute) = true := by simp only [bne, hq, Bool.not_false]
        obtain ⟨_, hr, hc, _⟩ := h1.inflow hh hq
        simp only [this, Bool.not_false, Bool.and_true, if_true, List.map_cons, hr, hc, ih]

include hg hR in
theorem gridSetupK_rel {β γ : Type} {Q : β → γ → Prop} (style : GridStyle α) (as bs : List (GridChildStyle α))
    (hcs : ChildrenOK w P RC 0 as bs)
    (hest : ∀ ec er, GridPlacement.computeGridSizeEstimate ec er (boxChildren bs) =
      GridPlacement.computeGridSizeEstimate ec er (boxChildren as))
    (c : Ctx α) (k : Setup α → GM α β) (k' : Setup α → GM α γ)
    (hk : ∀ su su', RSU P (NA w) su su' → GRelW w Q (k su) (k' su')) :
    GRelW w Q (gridSetupK style as c k) (gridSetupK style bs c k') := by
  unfold gridSetupK
  have hin : inFlowChildren bs = inFlowChildren as := inFlowChildren_rel as bs 0 hcs
  rw [hin]
  dsimp only
  refine GRelW.bind (GRelW.of_GRel (GRel.ofExcept _ fun _ => rfl)) fun ec ec' hec => ?_
  subst hec
  refine GRelW.bind (GRelW.of_GRel (GRel.ofExcept _ fun _ => rfl)) fun er er' her => ?_
  subst her
  rw [hest]
  refine GRelW.bind (GRelW.of_GRel (GRel.ofOutcome _ fun _ => rfl)) fun e e' he => ?_
  subst he
  refine GRelW.bind (GRelW.of_GRel (GRel.ofOutcome _ fun _ => rfl)) fun m m' hm => ?_
  subst hm
  cases hpl : GridPlacement.placeGridItems GridPlacement.defaultFuel m (inFlowChildren as) style.gridAutoFlow with
  | panic msg => exact GRelW.of_GRel (GRel.throw _)
  | overflow => exact GRelW.of_GRel (GRel.throw _)
  | outOfFuel => exact GRelW.of_GRel (GRel.throw _)
  | ok placed =>
    show GRelW w Q ((Pure.pure placed : GM α _) >>= _) ((Pure.pure placed : GM α _) >>= _)
    rw [pure_bind, pure_bind]
    have hitems : LR P (NA w)
        (placed.items.reverse.map (mkItem as (c.alignItems.getD .stretch) (c.justifyItems.getD .stretch)))
        (placed.items.reverse.map (mkItem bs (c.alignItems.getD .stretch) (c.justifyItems.getD .stretch))) := by
      have hB := (GridPlacement.invB_final hpl).honoured
      have key : ∀ p ∈ placed.items,
          mkItem bs (c.alignItems.getD .stretch) (c.justifyItems.getD .stretch) p =
            phi P (mkItem as (c.alignItems.getD .stretch) (c.justifyItems.getD .stretch) p) ∧ ¬ w.abs p.index := by
        intro p hp
        obtain ⟨ch, oc, hfc, hidx, _⟩ := hB p hp
        obtain ⟨a, ha, hh, hq⟩ := mem_inFlowChildren as oc.index ch hfc.1
        rw [hidx] at ha
        rcases ChildrenOK.get 0 as bs hcs p.index with ⟨h1, _⟩ | ⟨a', b, h1, h2, h3⟩
        · rw [h1] at ha; cases ha
        · rw [h1] at ha
          cases ha
          obtain ⟨hn, _, _, hnew⟩ := h3.inflow hh hq
          rw [Nat.zero_add] at hn hnew
          refine ⟨?_, hn⟩
          unfold mkItem
          rw [h1, h2]
          exact hnew _ _ _ _
      refine ⟨?_, fun x hx => ?_⟩
      · rw [List.map_map]
        exact List.map_congr_left fun p hp => (key p (List.mem_reverse.1 hp)).1
      · obtain ⟨p, hp, rfl⟩ := List.mem_map.1 hx
        exact (key p (List.mem_reverse.1 hp)).2
    refine GRelW.bind (GRelW.of_GRel (GRel.ofExcept _ fun _ => rfl)) fun cols cols' hc => ?_
    subst hc
    refine GRelW.bind (GRelW.of_GRel (GRel.ofExcept _ fun _ => rfl)) fun rows rows' hr => ?_
    subst hr
    refine GRelW.bind (GRelW.of_GRel (GRel.ofOutcome_rel (resolveItemTrackIndexes_rel _ _ _ _ hitems))) fun l l' hl => ?_
    exact hk _ _ ⟨rfl, rfl, rfl, rfl, determineCrossings_rel _ _ _ _ hl⟩

/-! ### the whole algorithm -/

include hg hR in
/-- **computeGridLayoutE_relW**: related up to the panics the world tolerates (`w.errL`, `w.errR`; the only place where
the two runs can panic differently is the resolution of an absolutely positioned child's grid lines) -/
theorem computeGridLayoutE_relW (style : GridStyle α) (as bs : List (GridChildStyle α)) (inp : LayoutInput α)
    (hcs : ChildrenOK w P RC 0 as bs)
    (hest : ∀ ec er, GridPlacement.computeGridSizeEstimate ec er (boxChildren bs) =
      GridPlacement.computeGridSizeEstimate ec er (boxChildren as)) :
    GRelW w QO (computeGridLayoutE style as inp) (computeGridLayoutE style bs inp) := by
  rw [computeGridLayoutE_eq, computeGridLayoutE_eq]
  have hmain : GRelW w QO
      (gridSetupK style as (mkCtx style.base inp) (gridSizing (mkCtx style.base inp) as inp))
      (gridSetupK style bs (mkCtx style.base inp) (gridSizing (mkCtx style.base inp) bs inp)) :=
    gridSetupK_rel hg hR style as bs hcs hest _ _ _ fun su su' hsu =>
      gridSizing_rel hg hR _ as bs hcs inp su su' hsu
  split
  · exact GRelW.pure (hg.outRefl _)
  · exact hmain

include hg hR in
/-- **computeGridLayoutE_rel**: in a world that tolerates no panic the two programs are related, panics included -/
theorem computeGridLayoutE_rel (style : GridStyle α) (as bs : List (GridChildStyle α)) (inp : LayoutInput α)
    (hcs : ChildrenOK w P RC 0 as bs)
    (hest : ∀ ec er, GridPlacement.computeGridSizeEstimate ec er (boxChildren bs) =
      GridPlacement.computeGridSizeEstimate ec er (boxChildren as))
    (hL : ¬ w.errL) (hR' : ¬ w.errR) :
    GRel w QO (computeGridLayoutE style as inp) (computeGridLayoutE style bs inp) :=
  (computeGridLayoutE_relW hg hR style as bs inp hcs hest).to_GRel (fun h => (hL h).elim) (fun h => (hR' h).elim)

end GridRel
