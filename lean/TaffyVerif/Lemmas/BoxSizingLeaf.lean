/-
  C12 — the leaf site (leaf.rs `box_sizing_adjustment`, Model/Leaf.lean) and the root site
  (compute_root_layout's adjustment, Model/Root.lean).
-/
import TaffyVerif.Lemmas.BoxSizing
import TaffyVerif.Model.Root

namespace C12L
open BoxSizingModel LeafModel RootModel

variable {s : Style Rat} {m : Bool}

/-! ### leaf.rs -/

theorem box_margin (ps : Size (Option Rat)) : (box ps (toBorderBox m s)).margin = (box ps s).margin := rfl
theorem box_padding (ps : Size (Option Rat)) : (box ps (toBorderBox m s)).padding = (box ps s).padding := rfl
theorem box_border (ps : Size (Option Rat)) : (box ps (toBorderBox m s)).border = (box ps s).border := rfl
theorem box_paddingBorder (ps : Size (Option Rat)) :
    (box ps (toBorderBox m s)).paddingBorder = (box ps s).paddingBorder := rfl
theorem box_pbSum (ps : Size (Option Rat)) : (box ps (toBorderBox m s)).pbSum = (box ps s).pbSum := rfl

theorem box_adj (h : Eligible s) (ps : Size (Option Rat)) : (box ps s).boxSizingAdjustment = pbSum s := by
  simp only [box, h.boxSizing, beq_cb_cb, if_true, padding_resolve h, border_resolve h, pbSum_fold]

theorem box_adj_tbb (ps : Size (Option Rat)) : (box ps (toBorderBox m s)).boxSizingAdjustment = Size.zero := rfl

/-- leaf.rs l.37–62: `(node_size, node_min_size, node_max_size, aspect_ratio)` do not see the rewriting -/
theorem nodeSizes_tbb (h : Eligible s) (inp : LayoutInput Rat) :
    nodeSizes inp (toBorderBox m s) (box inp.parentSize (toBorderBox m s)).boxSizingAdjustment
      = nodeSizes inp s (box inp.parentSize s).boxSizingAdjustment := by
  unfold nodeSizes
  cases inp.sizingMode with
  | contentSize => rfl
  | inherentSize =>
    simp only [box_adj h, box_adj_tbb, tbb_size, tbb_minSize, tbb_maxSize, tbb_aspectRatio, h.aspectRatio, aspect_none,
      size_resolve h, minSize_resolve h, maxSize_resolve h, of_add_zero]

theorem leafGutter_tbb : LeafModel.scrollbarGutter (toBorderBox m s) = LeafModel.scrollbarGutter s := rfl

theorem hasStyles_tbb (p b : Rect Rat) (ns nms : Size (Option Rat)) :
    hasStylesPreventingBeingCollapsedThrough (toBorderBox m s) p b ns nms
      = hasStylesPreventingBeingCollapsedThrough s p b ns nms := rfl

/-- **leaf site**: `compute_leaf_layout` — output *and* recorded measure calls — is the same for an eligible
content-box style and its border-box description, for every input and every measure function -/
theorem leaf_site (h : Eligible s) (m : Bool) (inp : LayoutInput Rat)
    (mf : Size (Option Rat) → Size (AvailableSpace Rat) → Size Rat) :
    computeLeafLayout inp s mf = computeLeafLayout inp (toBorderBox m s) mf := by
  simp only [computeLeafLayout, box_margin, box_padding, box_border, box_paddingBorder, nodeSizes_tbb h,
    leafGutter_tbb, hasStyles_tbb]

/-! ### compute_root_layout -/

theorem rootKnown_site (h : Eligible s) (m : Bool) (av : Size (AvailableSpace Rat)) :
    rootKnownDimensions s av = rootKnownDimensions (toBorderBox m s) av := by
  simp only [rootKnownDimensions, tbb_isBlock, tbb_aspectRatio, tbb_margin, tbb_padding, tbb_border, tbb_boxSizing,
    tbb_size, tbb_minSize, tbb_maxSize, h.boxSizing, h.aspectRatio, beq_cb_cb, beq_bb_cb, if_true, Bool.false_eq_true, if_false, padding_resolve h,
    border_resolve h, pbSum_fold, aspect_none, size_resolve h, minSize_resolve h, maxSize_resolve h, of_add_zero]

theorem rootInput_site (h : Eligible s) (m : Bool) (av : Size (AvailableSpace Rat)) :
    rootInput s av = rootInput (toBorderBox m s) av := by
  simp only [rootInput, rootKnown_site h m]

theorem rootLayout_site (m : Bool) (av : Size (AvailableSpace Rat)) (out : LayoutOutput Rat) :
    rootLayout s av out = rootLayout (toBorderBox m s) av out := rfl

theorem childless_site (h : Eligible s) (m : Bool) (inp : LayoutInput Rat)
    (mf : Size (Option Rat) → Size (AvailableSpace Rat) → Size Rat) :
    computeChildLayoutChildless s mf inp = computeChildLayoutChildless (toBorderBox m s) mf inp := by
  simp only [computeChildLayoutChildless, tbb_display, leaf_site h m]

/-- the whole single-leaf tree: root adjustment + dispatch + leaf -/
theorem singleLeaf_site (h : Eligible s) (m : Bool) (mf : Size (Option Rat) → Size (AvailableSpace Rat) → Size Rat)
    (av : Size (AvailableSpace Rat)) :
    layoutSingleLeafWith s mf av = layoutSingleLeafWith (toBorderBox m s) mf av := by
  simp only [layoutSingleLeafWith, ← rootInput_site h m, ← childless_site h m]
  rfl

end C12L
