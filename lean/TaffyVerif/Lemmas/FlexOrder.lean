/-
  Helper lemmas for C07 `line_order_no_overlap`: justification offsets and the offset accumulation.
-/
import TaffyVerif.Model.FlexLine
import Mathlib.Tactic.Linarith
import Mathlib.Tactic.Ring

namespace FlexLine

/-! ### the boxes are the margin boxes at the computed positions -/

theorem length_posGo (t : Rat) (zs : List (FlexItemM Rat × Rat)) : (posGo t zs).length = zs.length := by
  induction zs generalizing t with
  | nil => rfl
  | cons z r ih => obtain ⟨c, s⟩ := z; simp [posGo, ih]

theorem boxGo_eq_zip (t : Rat) (zs : List (FlexItemM Rat × Rat)) :
    boxGo t zs = (zs.zip (posGo t zs)).map fun (z, loc) => marginBox z.1 z.2 loc := by
  induction zs generalizing t with
  | nil => rfl
  | cons z r ih => obtain ⟨c, s⟩ := z; simp [posGo, boxGo, ih]

theorem marginBoxes_eq_zip (zs : List (FlexItemM Rat × Rat)) (start : Rat) (dir : FlexDirection) :
    marginBoxes zs start dir =
      (zs.zip (mainAxisPositions zs start dir)).map fun (z, loc) => marginBox z.1 z.2 loc := by
  unfold marginBoxes mainAxisPositions
  split
  · rw [boxGo_eq_zip, ← List.map_reverse]
    congr 1
    rw [List.zip_eq_zipWith, List.reverse_zipWith (by rw [length_posGo]), List.reverse_reverse, ← List.zip_eq_zipWith]
  · exact boxGo_eq_zip _ _

/-! ### the accumulation -/

/-- an item/size pair with non-negative margins and size and default insets -/
def PairOK (z : FlexItemM Rat × Rat) : Prop :=
  0 ≤ z.1.marginStart ∧ 0 ≤ z.1.marginEnd ∧ 0 ≤ z.2 ∧ z.1.insetStart = none ∧ z.1.insetEnd = none

theorem box_of_step (t : Rat) (c : FlexItemM Rat) (s : Rat) (hi : c.insetStart = none) (he : c.insetEnd = none) :
    marginBox c s (posStep t c s).1 = (t + c.offsetMain, (posStep t c s).2) := by
  unfold marginBox posStep FlexItemM.marginSum
  simp only [hi, he, Option.map_none, Option.or_none, Option.getD_none]
  ext
  · simp
  · simp; ring

/-- every box of a run whose offsets are all ≥ 0 starts at or after the running total, and has `start ≤ end` -/
theorem boxGo_lower (zs : List (FlexItemM Rat × Rat)) (t : Rat) (hok : ∀ z ∈ zs, PairOK z)
    (hoff : ∀ z ∈ zs, 0 ≤ z.1.offsetMain) : ∀ b ∈ boxGo t zs, t ≤ b.1 ∧ b.1 ≤ b.2 := by
  induction zs generalizing t with
  | nil => intro b hb; simp [boxGo] at hb
  | cons z r ih =>
    obtain ⟨c, s⟩ := z
    obtain ⟨hms, hme, hs, hi, he⟩ := hok (c, s) List.mem_cons_self
    have ho := hoff (c, s) List.mem_cons_self
    simp only at hms hme hs hi he ho
    intro b hb
    simp only [boxGo, List.mem_cons] at hb
    have hstep : t ≤ (posStep t c s).2 ∧ t + c.offsetMain ≤ (posStep t c s).2 := by
      unfold posStep FlexItemM.marginSum; simp only; constructor <;> linarith
    rcases hb with rfl | hb
    · rw [box_of_step t c s hi he]; simp only; constructor <;> linarith [hstep.2]
    · have := ih (posStep t c s).2 (fun z hz => hok z (List.mem_cons_of_mem _ hz))
        (fun z hz => hoff z (List.mem_cons_of_mem _ hz)) b hb
      constructor <;> linarith [this.1, this.2, hstep.1]

theorem boxGo_pairwise_nonneg (zs : List (FlexItemM Rat × Rat)) (t : Rat) (hok : ∀ z ∈ zs, PairOK z)
    (hoff : ∀ z ∈ zs, 0 ≤ z.1.offsetMain) : (boxGo t zs).Pairwise fun a b => a.2 ≤ b.1 := by
  induction zs generalizing t with
  | nil => simp [boxGo]
  | cons z r ih =>
    obtain ⟨c, s⟩ := z
    obtain ⟨_, _, _, hi, he⟩ := hok (c, s) List.mem_cons_self
    simp only at hi he
    simp only [boxGo, List.pairwise_cons]
    refine ⟨?_, ih _ (fun z hz => hok z (List.mem_cons_of_mem _ hz)) (fun z hz => hoff z (List.mem_cons_of_mem _ hz))⟩
    intro b hb
    rw [box_of_step t c s hi he]
    exact (boxGo_lower r _ (fun z hz => hok z (List.mem_cons_of_mem _ hz))
      (fun z hz => hoff z (List.mem_cons_of_mem _ hz)) b hb).1

/-- only the offsets of the items after the first visited one need to be ≥ 0 -/
def TailOffsetsNonneg : List (FlexItemM Rat) → Prop
  | [] => True
  | _ :: t => ∀ c ∈ t, 0 ≤ c.offsetMain

theorem boxGo_pairwise (zs : List (FlexItemM Rat × Rat)) (t : Rat) (hok : ∀ z ∈ zs, PairOK z)
    (hoff : TailOffsetsNonneg (zs.map Prod.fst)) : (boxGo t zs).Pairwise fun a b => a.2 ≤ b.1 := by
  cases zs with
  | nil => simp [boxGo]
  | cons z r =>
    obtain ⟨c, s⟩ := z
    obtain ⟨_, _, _, hi, he⟩ := hok (c, s) List.mem_cons_self
    simp only at hi he
    have hoff' : ∀ z ∈ r, 0 ≤ z.1.offsetMain := by
      intro z hz
      exact hoff z.1 (List.mem_map_of_mem hz)
    have hok' : ∀ z ∈ r, PairOK z := fun z hz => hok z (List.mem_cons_of_mem _ hz)
    simp only [boxGo, List.pairwise_cons]
    refine ⟨?_, boxGo_pairwise_nonneg r _ hok' hoff'⟩
    intro b hb
    rw [box_of_step t c s hi he]
    exact (boxGo_lower r _ hok' hoff' b hb).1

theorem boxGo_start_le_end (zs : List (FlexItemM Rat × Rat)) (t : Rat) (hok : ∀ z ∈ zs, PairOK z) :
    ∀ b ∈ boxGo t zs, b.1 ≤ b.2 := by
  induction zs generalizing t with
  | nil => intro b hb; simp [boxGo] at hb
  | cons z r ih =>
    obtain ⟨c, s⟩ := z
    obtain ⟨hms, hme, hs, hi, he⟩ := hok (c, s) List.mem_cons_self
    simp only at hms hme hs hi he
    intro b hb
    simp only [boxGo, List.mem_cons] at hb
    rcases hb with rfl | hb
    · rw [box_of_step t c s hi he]; unfold posStep FlexItemM.marginSum; simp only; linarith
    · exact ih _ (fun z hz => hok z (List.mem_cons_of_mem _ hz)) b hb

/-! ### justification offsets -/

theorem ofNat_nonneg (n : Nat) : (0 : Rat) ≤ Num.ofNat n := by
  show (0 : Rat) ≤ (n : Rat)
  exact_mod_cast Nat.zero_le n

/-- every item except the first visited one gets `gap + max(free, 0)/k ≥ 0` -/
theorem cao_nonfirst_nonneg (free gap : Rat) (n : Nat) (mode : AlignContent) (rev : Bool) (hgap : 0 ≤ gap) :
    0 ≤ computeAlignmentOffset free n gap mode rev false := by
  unfold computeAlignmentOffset
  have hf : (0 : Rat) ≤ Num.fmax free 0 := by
    simp only [Num.fmax]; split <;> linarith
  have h1 := div_nonneg hf (ofNat_nonneg (n - 1))
  have h2 := div_nonneg hf (ofNat_nonneg n)
  have h3 := div_nonneg hf (ofNat_nonneg (n + 1))
  cases mode <;> simp only [Bool.false_eq_true, if_false] <;> linarith

theorem tail_justifyForward (f : Bool → Rat) (l : List (FlexItemM Rat)) (hf : 0 ≤ f false) :
    TailOffsetsNonneg (justifyForward f l) := by
  cases l with
  | nil => trivial
  | cons c r =>
    intro x hx
    simp only [List.mem_map] at hx
    obtain ⟨y, _, rfl⟩ := hx
    exact hf

theorem tail_of_all (l : List (FlexItemM Rat)) (h : ∀ c ∈ l, 0 ≤ c.offsetMain) : TailOffsetsNonneg l := by
  cases l with
  | nil => trivial
  | cons c r => intro x hx; exact h x (List.mem_cons_of_mem _ hx)

/-- margins / insets of the items of a line, as the hypotheses of `line_order_no_overlap` need them -/
def ItemOK (c : FlexItemM Rat) : Prop :=
  0 ≤ c.marginStart ∧ 0 ≤ c.marginEnd ∧ c.insetStart = none ∧ c.insetEnd = none

theorem justifyForward_ok (f : Bool → Rat) (l : List (FlexItemM Rat)) (h : ∀ c ∈ l, ItemOK c) :
    ∀ c ∈ justifyForward f l, ItemOK c := by
  cases l with
  | nil => intro c hc; simp [justifyForward] at hc
  | cons a r =>
    intro c hc
    simp only [justifyForward, List.mem_cons, List.mem_map] at hc
    rcases hc with rfl | ⟨y, hy, rfl⟩
    · exact h a List.mem_cons_self
    · exact h y (List.mem_cons_of_mem _ hy)

/-- what `distribute_remaining_free_space` guarantees: margins stay ≥ 0, insets untouched, and in visiting order
    (reversed for `*-reverse`) every offset after the first is ≥ 0 -/
theorem drfs_ok (items : List (FlexItemM Rat)) (inner gap : Rat) (jc : Option AlignContent) (dir : FlexDirection)
    (hgap : 0 ≤ gap) (hitems : ∀ c ∈ items, ItemOK c ∧ 0 ≤ c.offsetMain) :
    (∀ c ∈ distributeRemainingFreeSpace items inner gap jc dir, ItemOK c) ∧
    TailOffsetsNonneg (if dir.isReverse then (distributeRemainingFreeSpace items inner gap jc dir).reverse
                       else distributeRemainingFreeSpace items inner gap jc dir) := by
  unfold distributeRemainingFreeSpace
  simp only
  split
  · -- auto margins absorb the (positive) free space
    rename_i hcond
    simp only [Bool.and_eq_true, decide_eq_true_eq] at hcond
    obtain ⟨hfree, hnum⟩ := hcond
    have hfree : 0 < inner - (sumAxisGaps gap items.length + sumF (items.map (·.outerTargetMain))) := by
      simpa [Num.fgt, Num.flt] using hfree
    have hm : 0 ≤ (inner - (sumAxisGaps gap items.length + sumF (items.map (·.outerTargetMain)))) /
        Num.ofNat (numAutoMargins items) := div_nonneg (le_of_lt hfree) (ofNat_nonneg _)
    have hall : ∀ c ∈ items.map (fun c : FlexItemM Rat =>
        { c with marginStart := if c.marginStartAuto then (inner - (sumAxisGaps gap items.length + sumF (items.map (·.outerTargetMain)))) / Num.ofNat (numAutoMargins items) else c.marginStart,
                 marginEnd := if c.marginEndAuto then (inner - (sumAxisGaps gap items.length + sumF (items.map (·.outerTargetMain)))) / Num.ofNat (numAutoMargins items) else c.marginEnd }),
        ItemOK c ∧ 0 ≤ c.offsetMain := by
      intro c hc
      rw [List.mem_map] at hc
      obtain ⟨y, hy, rfl⟩ := hc
      obtain ⟨⟨h1, h2, h3, h4⟩, h5⟩ := hitems y hy
      refine ⟨⟨?_, ?_, h3, h4⟩, h5⟩
      · simp only; split <;> assumption
      · simp only; split <;> assumption
    refine ⟨fun c hc => (hall c hc).1, ?_⟩
    split
    · exact tail_of_all _ (fun c hc => (hall c (List.mem_reverse.1 hc)).2)
    · exact tail_of_all _ (fun c hc => (hall c hc).2)
  · -- justify-content
    have hf := cao_nonfirst_nonneg
      (inner - (sumAxisGaps gap items.length + sumF (items.map (·.outerTargetMain)))) gap items.length
      (applyAlignmentFallback (inner - (sumAxisGaps gap items.length + sumF (items.map (·.outerTargetMain))))
        items.length (jc.getD .flexStart) false) dir.isReverse hgap
    by_cases hrev : dir.isReverse = true
    · simp only [hrev, if_true, List.reverse_reverse]
      refine ⟨?_, tail_justifyForward _ _ hf⟩
      intro c hc
      exact justifyForward_ok _ _ (fun c hc => (hitems c (List.mem_reverse.1 hc)).1) c (List.mem_reverse.1 hc)
    · simp only [hrev, if_false, Bool.false_eq_true]
      exact ⟨justifyForward_ok _ _ (fun c hc => (hitems c hc).1), tail_justifyForward _ _ hf⟩

end FlexLine
