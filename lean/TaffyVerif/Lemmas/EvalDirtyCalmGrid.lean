/-
  C15 — `EvalDirty.Calm` for the grid program (`GridModel.computeGridLayout`, Model/Grid.lean).

  Every child query before the positioning stage is addressed to `it.node` of a grid item `it` (the three call sites:
  `min_content_contribution`, `max_content_contribution`, the baseline query of `resolve_item_baselines`), the item lists
  only ever hold the items made from the in-flow children (`gridSetupK_cases`), and those generate boxes
  (`nodesVis_of_perm`).  `GT N Q p`: every query of the `GM` program `p` targets a child in `N` in a non-hidden run mode,
  and every result that is not a panic satisfies `Q`; one walk over the track sizing algorithm and step 7 with
  `Q` = "the items' children are still in `N`".  The positioning stage is `LaysE` (PerformLayout queries only).
-/
import TaffyVerif.Lemmas.EvalDirtyCalm
import TaffyVerif.Lemmas.EvalGridTrees
import TaffyVerif.Lemmas.EvalGridHidden

set_option autoImplicit false
set_option linter.unusedSectionVars false
set_option linter.unusedVariables false

namespace EvalDirty
open Eval GridModel GridTracks EvalGrid EvalBlock
variable {α : Type} [Num α]

/-! ### targets of the queries -/

/-- every query of the program targets a child in `N`, and none is a hidden-mode query -/
def TI {β : Type} (N : Nat → Prop) : ProgM α β → Prop
  | .pure _ => True
  | .call i inp k => N i ∧ inp.runMode ≠ .performHiddenLayout ∧ ∀ o, TI N (k o)
  | .setLayout _ _ k => TI N (k ())

theorem TI_bind_post {β γ : Type} (N : Nat → Prop) (Q : β → Prop) (p : ProgM α β) (f : β → ProgM α γ)
    (hp : TI N p) (hq : Post Q p) (hf : ∀ a, Q a → TI N (f a)) : TI N (p >>= f) := by
  rw [bind_eq]
  induction p with
  | pure b => exact hf b hq
  | call i inp k ih => exact ⟨hp.1, hp.2.1, fun o => ih o (hp.2.2 o) (hq o)⟩
  | setLayout i l k ih => exact ih () hp hq

theorem TI_calm {β : Type} (cs : List (Style α)) (N : Nat → Prop)
    (hN : ∀ i, N i → ∀ s, cs[i]? = some s → s.isHidden = false) (p : ProgM α β) (h : TI N p) : Calm cs p := by
  induction p with
  | pure b => trivial
  | call i inp k ih => exact ⟨h.2.1, fun _ s hs => hN i h.1 s hs, fun o => ih o (h.2.2 o)⟩
  | setLayout i l k ih => exact ih () h

/-- `GT N Q p`: the queries of `p` target children in `N` (never in hidden mode); non-panicking results satisfy `Q` -/
def GT {β : Type} (N : Nat → Prop) (Q : β → Prop) (p : GM α β) : Prop := TI N (run p) ∧ GPost Q p

section gt
variable {β γ : Type} (N : Nat → Prop)

theorem GT_pure (Q : β → Prop) (b : β) (h : Q b) : GT N Q (pure b : GM α β) := ⟨trivial, GPost_pure Q b h⟩

theorem GT_throw (Q : β → Prop) (e : String) : GT N Q (throw e : GM α β) := ⟨trivial, GPost_throw Q e⟩

theorem GT_bind (Q : β → Prop) (R : γ → Prop) (p : GM α β) (f : β → GM α γ) (hp : GT N Q p)
    (hf : ∀ b, Q b → GT N R (f b)) : GT N R (p >>= f) := by
  refine ⟨?_, GPost_bind Q R p f hp.2 fun b hb => (hf b hb).2⟩
  rw [run_bind]
  refine TI_bind_post N _ _ _ hp.1 hp.2 fun r hr => ?_
  cases r with
  | ok a => exact (hf a (hr a rfl)).1
  | error e => trivial

theorem GT_mono (Q R : β → Prop) (p : GM α β) (h : ∀ b, Q b → R b) (hp : GT N Q p) : GT N R p :=
  ⟨hp.1, GPost_mono Q R p h hp.2⟩

theorem GT_call (Q : LayoutOutput α → Prop) (i : Nat) (inp : LayoutInput α) (hi : N i)
    (hm : inp.runMode ≠ .performHiddenLayout) (hq : ∀ o, Q o) : GT N Q (GM.call i inp) := by
  refine ⟨?_, ?_⟩
  · rw [run_call]; exact ⟨hi, hm, fun _ => trivial⟩
  · unfold GPost; rw [run_call]; intro o b hb; cases hb; exact hq o

theorem GT_ofOutcome (Q : β → Prop) (x : GridPlacement.Outcome β) (h : ∀ b, x = .ok b → Q b) :
    GT N Q (GM.ofOutcome x : GM α β) := by
  cases x with
  | ok a => exact GT_pure N Q a (h a rfl)
  | panic m => exact GT_throw N Q _
  | overflow => exact GT_throw N Q _
  | outOfFuel => exact GT_throw N Q _

end gt

/-! ### one item -/
section item
variable (N : Nat → Prop)

theorem GT_minContentContribution (it : GItem α) (ax : Ax) (av inner : Size (Option α)) (hN : N it.node) :
    GT N (fun _ => True) (it.minContentContribution ax av inner) := by
  unfold GItem.minContentContribution
  exact GT_bind N (fun _ => True) _ _ _ (GT_call N _ _ _ hN (by intro h; cases h) fun _ => trivial) fun _ _ =>
    GT_pure N _ _ trivial

theorem GT_maxContentContribution (it : GItem α) (ax : Ax) (av inner : Size (Option α)) (hN : N it.node) :
    GT N (fun _ => True) (it.maxContentContribution ax av inner) := by
  unfold GItem.maxContentContribution
  exact GT_bind N (fun _ => True) _ _ _ (GT_call N _ _ _ hN (by intro h; cases h) fun _ => trivial) fun _ _ =>
    GT_pure N _ _ trivial

theorem GT_minContentContributionCached (it : GItem α) (ax : Ax) (av inner : Size (Option α)) (hN : N it.node) :
    GT N (fun r => N r.2.node) (it.minContentContributionCached ax av inner) := by
  unfold GItem.minContentContributionCached
  split
  · exact GT_pure N _ _ hN
  · exact GT_bind N (fun _ => True) _ _ _ (GT_minContentContribution N it ax av inner hN) fun _ _ => GT_pure N _ _ hN

theorem GT_maxContentContributionCached (it : GItem α) (ax : Ax) (av inner : Size (Option α)) (hN : N it.node) :
    GT N (fun r => N r.2.node) (it.maxContentContributionCached ax av inner) := by
  unfold GItem.maxContentContributionCached
  split
  · exact GT_pure N _ _ hN
  · exact GT_bind N (fun _ => True) _ _ _ (GT_maxContentContribution N it ax av inner hN) fun _ _ => GT_pure N _ _ hN

theorem GT_minimumContribution (it : GItem α) (ax : Ax) (ts : List (GridTrack α)) (kd inner : Size (Option α))
    (hN : N it.node) : GT N (fun r => N r.2.node) (it.minimumContribution ax ts kd inner) := by
  unfold GItem.minimumContribution
  try simp only []
  refine GT_bind N (fun r => N r.2.node) _ _ _ ?_ fun ⟨c, it2⟩ h2 => GT_pure N _ _ h2
  split
  · exact GT_pure N _ _ hN
  · split
    · refine GT_bind N (fun r => N r.2.node) _ _ _ (GT_minContentContributionCached N it ax kd inner hN)
        fun ⟨c, it2⟩ h2 => ?_
      try simp only []
      split <;> exact GT_pure N _ _ h2
    · exact GT_pure N _ _ hN

theorem GT_minimumContributionCached (it : GItem α) (ax : Ax) (ts : List (GridTrack α)) (kd inner : Size (Option α))
    (hN : N it.node) : GT N (fun r => N r.2.node) (it.minimumContributionCached ax ts kd inner) := by
  unfold GItem.minimumContributionCached
  split
  · exact GT_pure N _ _ hN
  · exact GT_bind N (fun r => N r.2.node) _ _ _ (GT_minimumContribution N it ax ts kd inner hN) fun ⟨c, it2⟩ h2 =>
      GT_pure N _ _ h2

theorem sizer_availableSpace_node (s : Sizer α) (it : GItem α) : (s.availableSpace it).2.node = it.node := by
  unfold Sizer.availableSpace GItem.availableSpaceCached
  split <;> rfl

theorem GT_sizer_minContent (s : Sizer α) (it : GItem α) (hN : N it.node) :
    GT N (fun r => N r.2.node) (s.minContentContribution it) := by
  unfold Sizer.minContentContribution
  have hs := sizer_availableSpace_node s it
  generalize s.availableSpace it = r at hs ⊢
  obtain ⟨av, it1⟩ := r
  try simp only [] at hs ⊢
  refine GT_bind N (fun r => N r.2.node) _ _ _ (GT_minContentContributionCached N it1 _ _ _ (by rw [hs]; exact hN))
    fun ⟨c, it2⟩ h2 => GT_pure N _ _ h2

theorem GT_sizer_maxContent (s : Sizer α) (it : GItem α) (hN : N it.node) :
    GT N (fun r => N r.2.node) (s.maxContentContribution it) := by
  unfold Sizer.maxContentContribution
  have hs := sizer_availableSpace_node s it
  generalize s.availableSpace it = r at hs ⊢
  obtain ⟨av, it1⟩ := r
  try simp only [] at hs ⊢
  refine GT_bind N (fun r => N r.2.node) _ _ _ (GT_maxContentContributionCached N it1 _ _ _ (by rw [hs]; exact hN))
    fun ⟨c, it2⟩ h2 => GT_pure N _ _ h2

theorem GT_sizer_minimum (s : Sizer α) (it : GItem α) (ts : List (GridTrack α)) (hN : N it.node) :
    GT N (fun r => N r.2.node) (s.minimumContribution it ts) := by
  unfold Sizer.minimumContribution
  have hs := sizer_availableSpace_node s it
  generalize s.availableSpace it = r at hs ⊢
  obtain ⟨av, it1⟩ := r
  try simp only [] at hs ⊢
  refine GT_bind N (fun r => N r.2.node) _ _ _ (GT_minimumContributionCached N it1 _ _ _ _ (by rw [hs]; exact hN))
    fun ⟨c, it2⟩ h2 => GT_pure N _ _ h2

theorem GT_minimumSpaceM (s : Sizer α) (avail : AvailableSpace α) (it : GItem α) (ts : List (GridTrack α))
    (limit : GItem α → Option α) (hN : N it.node) :
    GT N (fun r => N r.2.node) (minimumSpaceM s avail it ts limit) := by
  unfold minimumSpaceM
  split
  · exact GT_sizer_minimum N s it ts hN
  · split
    · refine GT_bind N (fun r => N r.2.node) _ _ _ (GT_sizer_minimum N s it ts hN) fun ⟨a, it1⟩ h1 => ?_
      refine GT_bind N (fun r => N r.2.node) _ _ _ (GT_sizer_minContent N s it1 h1) fun ⟨b, it2⟩ h2 => ?_
      exact GT_pure N _ _ h2
    · exact GT_sizer_minimum N s it ts hN

theorem GT_sizeSpanOneItemM (s : Sizer α) (avail : AvailableSpace α) (axisInner : Option α) (it : GItem α)
    (ts : List (GridTrack α)) (hN : N it.node) :
    GT N (fun r => N r.1.node) (sizeSpanOneItemM s avail axisInner it ts) := by
  unfold sizeSpanOneItemM
  try simp only []
  split
  · exact GT_throw N _ _
  · rename_i track _
    refine GT_bind N (fun r => N r.2.node) _ _ _ ?_ fun ⟨nb, it1⟩ h1 => ?_
    · split
      · exact GT_bind N (fun r => N r.2.node) _ _ _ (GT_sizer_minContent N s it hN) fun ⟨a, it1⟩ h1 =>
          GT_pure N _ _ h1
      · split
        · exact GT_bind N (fun r => N r.2.node) _ _ _ (GT_sizer_minContent N s it hN) fun ⟨a, it1⟩ h1 =>
            GT_pure N _ _ h1
        · exact GT_pure N _ _ hN
      · exact GT_bind N (fun r => N r.2.node) _ _ _ (GT_sizer_maxContent N s it hN) fun ⟨a, it1⟩ h1 =>
          GT_pure N _ _ h1
      · exact GT_bind N (fun r => N r.2.node) _ _ _ (GT_minimumSpaceM N s avail it ts _ hN) fun ⟨a, it1⟩ h1 =>
          GT_pure N _ _ h1
      · exact GT_pure N _ _ hN
    · try simp only []
      refine GT_bind N (fun r => N r.2.node) _ _ _ ?_ fun ⟨tr, it2⟩ h2 => GT_pure N _ _ h2
      split
      · refine GT_bind N (fun r => N r.2.node) _ _ _ ?_ fun ⟨tr, it2⟩ h2 => ?_
        · split
          · exact GT_bind N (fun r => N r.2.node) _ _ _ (GT_sizer_minContent N s it1 h1) fun ⟨a, it2⟩ h2 =>
              GT_pure N _ _ h2
          · exact GT_pure N _ _ h1
        · try simp only []
          exact GT_bind N (fun r => N r.2.node) _ _ _ (GT_sizer_maxContent N s it2 h2) fun ⟨a, it3⟩ h3 =>
            GT_pure N _ _ h3
      · split
        · exact GT_bind N (fun r => N r.2.node) _ _ _ (GT_sizer_maxContent N s it1 h1) fun ⟨a, it2⟩ h2 =>
            GT_pure N _ _ h2
        · split
          · exact GT_bind N (fun r => N r.2.node) _ _ _ (GT_sizer_minContent N s it1 h1) fun ⟨a, it2⟩ h2 =>
              GT_pure N _ _ h2
          · exact GT_pure N _ _ h1

end item

/-! ### item lists -/
section lists
variable (N : Nat → Prop)

/-- all items' children are in `N` -/
def AllN (items : List (GItem α)) : Prop := ∀ it ∈ items, N it.node

theorem AllN_cons {N : Nat → Prop} {a : GItem α} {l : List (GItem α)} (h1 : N a.node) (h2 : AllN N l) :
    AllN N (a :: l) := by
  intro it hit
  rcases List.mem_cons.1 hit with e | e
  · subst e; exact h1
  · exact h2 it e

theorem AllN_append {N : Nat → Prop} {a b : List (GItem α)} (h1 : AllN N a) (h2 : AllN N b) : AllN N (a ++ b) := by
  intro it hit
  rcases List.mem_append.1 hit with e | e
  · exact h1 it e
  · exact h2 it e

theorem AllN_perm {N : Nat → Prop} {a b : List (GItem α)} (hp : b.Perm a) (h : AllN N a) : AllN N b :=
  fun it hit => h it (hp.mem_iff.1 hit)

theorem AllN_map {N : Nat → Prop} (g : GItem α → GItem α) (hg : ∀ it, (g it).node = it.node) {a : List (GItem α)}
    (h : AllN N a) : AllN N (a.map g) := by
  intro it hit
  obtain ⟨x, hx, e⟩ := List.mem_map.1 hit
  subst e
  rw [hg]; exact h x hx

theorem GT_forItemsM (f : GItem α → List (GridTrack α) → GM α (GItem α × List (GridTrack α)))
    (hf : ∀ it ts, N it.node → GT N (fun r => N r.1.node) (f it ts)) :
    ∀ (items : List (GItem α)) (ts : List (GridTrack α)), AllN N items →
      GT N (fun r => AllN N r.1) (forItemsM f items ts)
  | [], ts, _ => GT_pure N _ _ (fun _ h => by cases h)
  | it :: rest, ts, h => by
    simp only [forItemsM]
    refine GT_bind N (fun r => N r.1.node) _ _ _ (hf it ts (h it List.mem_cons_self)) fun ⟨it', ts'⟩ h1 => ?_
    try simp only []
    refine GT_bind N (fun r => AllN N r.1) _ _ _
      (GT_forItemsM f hf rest ts' fun x hx => h x (List.mem_cons_of_mem _ hx)) fun ⟨rest', ts''⟩ h2 => ?_
    exact GT_pure N _ _ (AllN_cons h1 h2)

/-- one cached query, then a pure update of the tracks -/
theorem GT_query_then {β : Type} (q : GM α (β × GItem α)) (hq : GT N (fun r => N r.2.node) q)
    (g : β → GItem α → List (GridTrack α)) :
    GT N (fun r => N r.1.node) (q >>= fun r => (pure (r.2, g r.1 r.2) : GM α (GItem α × List (GridTrack α)))) :=
  GT_bind N (fun r => N r.2.node) _ _ _ hq fun r hr => GT_pure N _ _ hr

theorem GT_sizeBatchGeneralM (s : Sizer α) (avail : AvailableSpace α) (axisInner : Option α) (isFlex : Bool)
    (ffs : α) (batch : List (GItem α)) (tracks : List (GridTrack α)) (h : AllN N batch) :
    GT N (fun r => AllN N r.1) (sizeBatchGeneralM s avail axisInner isFlex ffs batch tracks) := by
  unfold sizeBatchGeneralM
  try simp only []
  -- 1.
  refine GT_bind N (fun r => AllN N r.1) _ _ _ (GT_forItemsM N _ (fun it ts hN => ?_) batch tracks h) fun ⟨b1, t1⟩ h1 => ?_
  · split
    · exact GT_pure N _ _ hN
    · exact GT_bind N (fun r => N r.2.node) _ _ _ (GT_minimumSpaceM N s avail it ts _ hN) fun ⟨a, it1⟩ hu =>
        GT_pure N _ _ hu
  try simp only []
  -- 2.
  refine GT_bind N (fun r => AllN N r.1) _ _ _ (GT_forItemsM N _ (fun it ts hN => ?_) b1 _ h1) fun ⟨b2, t2⟩ h2 => ?_
  · exact GT_bind N (fun r => N r.2.node) _ _ _ (GT_sizer_minContent N s it hN) fun ⟨a, it1⟩ hu => GT_pure N _ _ hu
  try simp only []
  -- 3.
  refine GT_bind N (fun r => AllN N r.1) _ _ _ ?_ fun ⟨b3, t3⟩ h3 => ?_
  · split
    · refine GT_bind N (fun r => AllN N r.1) _ _ _ (GT_forItemsM N _ (fun it ts hN => ?_) b2 _ h2) fun ⟨b3, t3⟩ h3 =>
        GT_pure N _ _ h3
      refine GT_bind N (fun r => N r.2.node) _ _ _ (GT_sizer_maxContent N s it hN) fun ⟨a, it1⟩ hu => ?_
      try simp only []
      split <;> exact GT_pure N _ _ hu
    · exact GT_pure N _ _ h2
  try simp only []
  -- max-content minimums
  refine GT_bind N (fun r => AllN N r.1) _ _ _ (GT_forItemsM N _ (fun it ts hN => ?_) b3 _ h3) fun ⟨b4, t4⟩ h4 => ?_
  · exact GT_bind N (fun r => N r.2.node) _ _ _ (GT_sizer_maxContent N s it hN) fun ⟨a, it1⟩ hu => GT_pure N _ _ hu
  try simp only []
  split
  · exact GT_pure N _ _ h4
  -- 5.
  refine GT_bind N (fun r => AllN N r.1) _ _ _ (GT_forItemsM N _ (fun it ts hN => ?_) b4 _ h4) fun ⟨b5, t5⟩ h5 => ?_
  · exact GT_bind N (fun r => N r.2.node) _ _ _ (GT_sizer_minContent N s it hN) fun ⟨a, it1⟩ hu => GT_pure N _ _ hu
  try simp only []
  -- 6.
  refine GT_bind N (fun r => AllN N r.1) _ _ _ (GT_forItemsM N _ (fun it ts hN => ?_) b5 _ h5) fun ⟨b6, t6⟩ h6 => ?_
  · exact GT_bind N (fun r => N r.2.node) _ _ _ (GT_sizer_maxContent N s it hN) fun ⟨a, it1⟩ hu => GT_pure N _ _ hu
  exact GT_pure N _ _ h6

theorem GT_batchStep (s : Sizer α) (avail : AvailableSpace α) (axisInner : Option α) (ffs : α) (isFlex : Bool)
    (span : Nat) (batch : List (GItem α)) (tracks : List (GridTrack α)) (h : AllN N batch) :
    GT N (fun r => AllN N r.1)
      (if (!isFlex && span == 1) = true then do
          let (batch, tracks) ← forItemsM (fun it ts => sizeSpanOneItemM s avail axisInner it ts) batch tracks
          pure (batch, flushSpanOne tracks)
        else sizeBatchGeneralM s avail axisInner isFlex ffs batch tracks) := by
  split
  · exact GT_bind N (fun r => AllN N r.1) _ _ _ (GT_forItemsM N _
      (fun it ts hN => GT_sizeSpanOneItemM N s avail axisInner it ts hN) batch tracks h) fun ⟨b1, t1⟩ h1 =>
        GT_pure N _ _ h1
  · exact GT_sizeBatchGeneralM N s avail axisInner isFlex ffs batch tracks h

theorem AllN_take {N : Nat → Prop} {a : List (GItem α)} (n : Nat) (h : AllN N a) : AllN N (a.take n) :=
  fun it hit => h it (List.mem_of_mem_take hit)
theorem AllN_drop {N : Nat → Prop} {a : List (GItem α)} (n : Nat) (h : AllN N a) : AllN N (a.drop n) :=
  fun it hit => h it (List.mem_of_mem_drop hit)

theorem GT_batchLoopM (s : Sizer α) (avail : AvailableSpace α) (axisInner : Option α) (ffs : α) :
    ∀ (fuel : Nat) (items : List (GItem α)) (offset : Nat) (tracks : List (GridTrack α)), AllN N items →
      GT N (fun r => AllN N r.1) (batchLoopM s avail axisInner ffs fuel items offset tracks)
  | 0, items, offset, tracks, h => GT_pure N _ _ h
  | fuel + 1, items, offset, tracks, h => by
    unfold batchLoopM
    cases hget : items[offset]? with
    | none => exact GT_pure N _ _ h
    | some item =>
      try simp only []
      refine GT_bind N (fun r => AllN N r.1) _ _ _
        (GT_batchStep N s avail axisInner ffs _ _ _ tracks (AllN_take _ (AllN_drop _ h))) fun ⟨b, t⟩ hb => ?_
      try simp only []
      have hall : ∀ next, AllN N (items.take offset ++ b ++ items.drop next) := fun next =>
        AllN_append (AllN_append (AllN_take _ h) hb) (AllN_drop _ h)
      split
      · exact GT_pure N _ _ (hall _)
      · exact GT_batchLoopM s avail axisInner ffs fuel _ _ t (hall _)

theorem GT_resolveIntrinsicTrackSizesM (s : Sizer α) (tracks : List (GridTrack α)) (items : List (GItem α))
    (avail : AvailableSpace α) (h : AllN N items) :
    GT N (fun r => AllN N r.1) (resolveIntrinsicTrackSizesM s tracks items avail) := by
  unfold resolveIntrinsicTrackSizesM
  try simp only []
  refine GT_bind N (fun r => AllN N r.1) _ _ _ (GT_batchLoopM N s avail _ _ _ _ 0 tracks
    (AllN_perm (List.mergeSort_perm items (itemLe s.axis)) h)) fun ⟨b, t⟩ hb => GT_pure N _ _ hb

theorem GT_flexItemFractions (ax : Ax) (inner : Size (Option α)) (tracks : List (GridTrack α)) :
    ∀ items : List (GItem α), AllN N items → GT N (fun r => AllN N r.1) (flexItemFractions ax inner tracks items)
  | [], _ => GT_pure N _ _ (fun _ h => by cases h)
  | it :: rest, h => by
    have hr : AllN N rest := fun x hx => h x (List.mem_cons_of_mem _ hx)
    unfold flexItemFractions
    split
    · refine GT_bind N (fun r => N r.2.node) _ _ _
        (GT_maxContentContributionCached N it ax Size.none inner (h it List.mem_cons_self)) fun ⟨mc, it'⟩ h1 => ?_
      try simp only []
      exact GT_bind N (fun r => AllN N r.1) _ _ _ (GT_flexItemFractions ax inner tracks rest hr) fun ⟨rest', frs⟩ h2 =>
        GT_pure N _ _ (AllN_cons h1 h2)
    · exact GT_bind N (fun r => AllN N r.1) _ _ _ (GT_flexItemFractions ax inner tracks rest hr) fun ⟨rest', frs⟩ h2 =>
        GT_pure N _ _ (AllN_cons (h it List.mem_cons_self) h2)

theorem GT_expandFlexibleTracksM (ax : Ax) (tracks : List (GridTrack α)) (items : List (GItem α))
    (mn mx : Option α) (av : AvailableSpace α) (inner : Size (Option α)) (h : AllN N items) :
    GT N (fun r => AllN N r.1) (expandFlexibleTracksM ax tracks items mn mx av inner) := by
  unfold expandFlexibleTracksM
  refine GT_bind N (fun r => AllN N r.1) _ _ _ ?_ fun ⟨b, t⟩ hb => GT_pure N _ _ hb
  split
  · exact GT_pure N _ _ h
  · exact GT_pure N _ _ h
  · try simp only []
    exact GT_bind N (fun r => AllN N r.1) _ _ _ (GT_flexItemFractions N ax inner tracks items h) fun ⟨b, t⟩ hb =>
      GT_pure N _ _ hb

theorem GT_measureRowBaselines (inner : Size (Option α)) : ∀ items : List (GItem α), AllN N items →
    GT N (AllN N) (measureRowBaselines inner items)
  | [], _ => GT_pure N _ _ (fun _ h => by cases h)
  | it :: rest, h => by
    unfold measureRowBaselines
    refine GT_bind N (fun _ => True) _ _ _ (GT_call N _ _ _ (h it List.mem_cons_self) (by intro e; cases e)
      fun _ => trivial) fun out _ => ?_
    try simp only []
    refine GT_bind N (AllN N) _ _ _ (GT_measureRowBaselines inner rest fun x hx => h x (List.mem_cons_of_mem _ hx))
      fun rest' h2 => ?_
    exact GT_pure N _ _ (AllN_cons (h it List.mem_cons_self) h2)

theorem AllN_cutRow {N : Nat → Prop} (ax' : Ax) (first : GItem α) (tl : List (GItem α)) (h : AllN N (first :: tl)) :
    AllN N (cutRow ax' first tl).1 ∧ AllN N (cutRow ax' first tl).2 := by
  unfold cutRow
  split
  · exact ⟨AllN_take _ h, AllN_drop _ h⟩
  · exact ⟨h, fun _ hx => by cases hx⟩

theorem GT_baselineRows (ax' : Ax) (inner : Size (Option α)) : ∀ (fuel : Nat) (items : List (GItem α)), AllN N items →
    GT N (AllN N) (baselineRows ax' inner fuel items)
  | 0, items, h => GT_pure N _ _ h
  | _ + 1, [], h => GT_pure N _ _ h
  | fuel + 1, first :: tl, h => by
    rw [baselineRows_succ_cons]
    obtain ⟨h1, h2⟩ := AllN_cutRow ax' first tl h
    generalize cutRow ax' first tl = pr at h1 h2
    obtain ⟨row, remaining⟩ := pr
    unfold baselineRowsStep
    try simp only [] at h1 h2 ⊢
    split
    · exact GT_bind N (AllN N) _ _ _ (GT_baselineRows ax' inner fuel remaining h2) fun rest' hr =>
        GT_pure N _ _ (AllN_append h1 hr)
    · refine GT_bind N (AllN N) _ _ _ (GT_measureRowBaselines N inner row h1) fun row' hrow => ?_
      try simp only []
      exact GT_bind N (AllN N) _ _ _ (GT_baselineRows ax' inner fuel remaining h2) fun rest' hr =>
        GT_pure N _ _ (AllN_append (by intro it hit; obtain ⟨x, hx, e⟩ := List.mem_map.1 hit; subst e; exact hrow x hx) hr)

theorem GT_resolveItemBaselines (ax' : Ax) (items : List (GItem α)) (inner : Size (Option α)) (h : AllN N items) :
    GT N (AllN N) (resolveItemBaselines ax' items inner) := by
  unfold resolveItemBaselines
  try simp only []
  exact GT_baselineRows N ax' inner _ _ (AllN_perm (List.mergeSort_perm items _) h)

/-- **one run of the track sizing algorithm**: every query goes to the child of one of the run's items -/
theorem GT_trackSizingAlgorithmM (a : RunArgs α) (st : RunState α) (h : AllN N st.items) :
    GT N (fun r => AllN N r.items) (trackSizingAlgorithmM a st) := by
  unfold trackSizingAlgorithmM
  try simp only []
  refine GT_bind N (AllN N) _ _ _ ?_ fun items1 h1 => ?_
  · split
    · exact GT_resolveItemBaselines N a.axis st.items a.innerNodeSize h
    · exact GT_pure N _ _ h
  try simp only []
  split
  · exact GT_pure N _ _ h1
  · refine GT_bind N (fun r => AllN N r.1) _ _ _ (GT_resolveIntrinsicTrackSizesM N
      { otherAxisTracks := _, est := a.est, axis := a.axis, innerNodeSize := a.innerNodeSize } _ items1 _ h1)
      fun ⟨items2, t2⟩ h2 => ?_
    try simp only []
    exact GT_bind N (fun r => AllN N r.1) _ _ _ (GT_expandFlexibleTracksM N a.axis _ items2 _ _ _ _ h2)
      fun ⟨items3, t3⟩ h3 => GT_pure N _ _ h3

/-! ### step 7 -/

theorem GT_minContentChanged (ax : Ax) (tracks : List (GridTrack α)) (inner : Size (Option α)) :
    ∀ items : List (GItem α), AllN N items → GT N (fun r => AllN N r.2) (minContentChanged ax tracks inner items)
  | [], _ => GT_pure N _ _ (fun _ h => by cases h)
  | it :: rest, h => by
    have hr : AllN N rest := fun x hx => h x (List.mem_cons_of_mem _ hx)
    have hi : N it.node := h it List.mem_cons_self
    unfold minContentChanged
    split
    · exact GT_bind N (fun r => AllN N r.2) _ _ _ (GT_minContentChanged ax tracks inner rest hr) fun ⟨bb, rest'⟩ h2 =>
        GT_pure N _ _ (AllN_cons hi h2)
    · try simp only []
      refine GT_bind N (fun (_ : α) => True) _ _ _ (GT_minContentContribution N it ax _ inner hi) fun newMin _ => ?_
      have tailCase : ∀ (hc : Bool) (it' : GItem α), N it'.node →
          GT N (fun r : Bool × List (GItem α) => AllN N r.2)
            (if hc = true then (pure (true, it' :: rest) : GM α (Bool × List (GItem α))) else
              minContentChanged ax tracks inner rest >>= fun x => pure (x.1, it' :: x.2)) := by
        intro hc it' hi'
        cases hc with
        | true => simp only [if_true]; exact GT_pure N _ _ (AllN_cons hi' hr)
        | false =>
          simp only [Bool.false_eq_true, if_false]
          exact GT_bind N (fun r => AllN N r.2) _ _ _ (GT_minContentChanged ax tracks inner rest hr)
            fun x h2 => GT_pure N _ _ (AllN_cons hi' h2)
      split <;> exact tailCase _ _ hi

theorem GT_step7Prep (ax : Ax) (rerun0 : Bool) (tracks : List (GridTrack α)) (inner : Size (Option α))
    (items : List (GItem α)) (h : AllN N items) :
    GT N (fun r => AllN N r.2) (step7Prep ax rerun0 tracks inner items) := by
  unfold step7Prep
  split
  · exact GT_minContentChanged N ax tracks inner items h
  · refine GT_pure N _ _ ?_
    show AllN N (clearCaches ax items)
    unfold clearCaches
    intro it hit
    obtain ⟨x, hx, e⟩ := List.mem_map.1 hit
    subst e
    exact h x hx

theorem GT_step7Mid (availableSpace : Size (AvailableSpace α)) (colArgs rowArgs : RunArgs α)
    (inner : Size (Option α)) (columns rows : List (GridTrack α)) (rerun : Bool) (items : List (GItem α))
    (h : AllN N items) :
    GT N (fun r => AllN N r.2.2) (step7Mid availableSpace colArgs rowArgs inner columns rows rerun items) := by
  unfold step7Mid
  split
  · refine GT_bind N (fun r => AllN N r.items) _ _ _ (GT_trackSizingAlgorithmM N _ _ h) fun st hst => ?_
    try simp only []
    refine GT_bind N (fun r => AllN N r.2) _ _ _ (GT_step7Prep N .blk _ _ inner st.items hst) fun ⟨rr, items5⟩ h5 => ?_
    try simp only []
    split
    · exact GT_bind N (fun r => AllN N r.items) _ _ _ (GT_trackSizingAlgorithmM N _ _ h5) fun st' hst' =>
        GT_pure N _ _ hst'
    · exact GT_pure N _ _ h5
  · exact GT_pure N _ _ h

end lists

/-! ### the whole program -/

theorem LaysE_AllPL {β : Type} (ok : Nat → Layout α → Prop) :
    ∀ (J : List Nat) (p : ProgM α (Except String β)), LaysE ok J p → AllPL p
  | [], p, ⟨r, hr⟩ => by subst hr; trivial
  | j :: J, p, h => by
    rcases h with ⟨e, hp⟩ | ⟨inp, lay, k, hm, _, hp, hk⟩
    · subst hp; trivial
    · subst hp
      exact ⟨hm, fun o => LaysE_AllPL ok J (k o) (hk o)⟩

/-- `Calm` of a `GM` program -/
def GCalm {β : Type} (cs : List (Style α)) (p : GM α β) : Prop := Calm cs (run p)

/-- a prefix whose queries target box-generating children, then any calm tail -/
theorem GCalm_bind_GT {β γ : Type} (cs : List (Style α)) (N : Nat → Prop)
    (hN : ∀ i, N i → ∀ s, cs[i]? = some s → s.isHidden = false) (Q : β → Prop) (p : GM α β) (f : β → GM α γ)
    (hp : GT N Q p) (hf : ∀ b, Q b → GCalm cs (f b)) : GCalm cs (p >>= f) := by
  unfold GCalm
  rw [run_bind]
  refine Calm_bind_post cs _ _ _ (TI_calm cs N hN _ hp.1) hp.2 fun r hr => ?_
  cases r with
  | ok a => exact hf a (hr a rfl)
  | error e => trivial

section whole
variable [NumCast α]

theorem GCalm_gridTail (cs : List (Style α)) (c : Ctx α) (childStyles : List (GridChildStyle α)) (bb cb : Size α)
    (cc rc : GridPlacement.TrackCounts) (columns rows : List (GridTrack α)) (items : List (GItem α)) :
    GCalm cs (gridTail c childStyles bb cb cc rc columns rows items) :=
  AllPL_calm cs _ (LaysE_AllPL _ _ _ (GLays_gridTail (fun _ _ => True) c childStyles bb cb cc rc columns rows items
    (fun _ _ _ => trivial) (fun _ _ _ _ _ => trivial) (fun _ _ _ _ _ => trivial)))

theorem GCalm_gridStep7 (cs : List (Style α)) (N : Nat → Prop)
    (hN : ∀ i, N i → ∀ s, cs[i]? = some s → s.isHidden = false) (c : Ctx α)
    (childStyles : List (GridChildStyle α)) (availableSpace : Size (AvailableSpace α)) (colArgs rowArgs : RunArgs α)
    (inner : Size (Option α)) (bb cb : Size α) (cc rc : GridPlacement.TrackCounts) (columns rows : List (GridTrack α))
    (items : List (GItem α)) (h : AllN N items) :
    GCalm cs (gridStep7 c childStyles availableSpace colArgs rowArgs inner bb cb cc rc columns rows items) := by
  unfold gridStep7
  try simp only []
  refine GCalm_bind_GT cs N hN _ _ _ (GT_step7Prep N .inl _ _ inner items h) fun ⟨rerun, items3⟩ h3 => ?_
  try simp only []
  refine GCalm_bind_GT cs N hN _ _ _ (GT_step7Mid N availableSpace colArgs rowArgs inner _ _ rerun items3 h3)
    fun ⟨columns', rows', items'⟩ _ => ?_
  exact GCalm_gridTail cs c childStyles bb cb cc rc columns' rows' items'

theorem GCalm_gridMain (cs : List (Style α)) (N : Nat → Prop)
    (hN : ∀ i, N i → ∀ s, cs[i]? = some s → s.isHidden = false) (style : GridStyle α)
    (childStyles : List (GridChildStyle α)) (inputs : LayoutInput α) (su : Setup α) (h : AllN N su.items) :
    GCalm cs (gridMain style childStyles inputs su) := by
  unfold gridMain
  try simp only []
  refine GCalm_bind_GT cs N hN _ _ _ (GT_trackSizingAlgorithmM N _ _ h) fun st hst => ?_
  try simp only []
  refine GCalm_bind_GT cs N hN _ _ _ (GT_trackSizingAlgorithmM N _ _ (by intro it hit; obtain ⟨x, hx, e⟩ := List.mem_map.1 hit; subst e; exact hst x hx)) fun st2 hst2 => ?_
  try simp only []
  split
  · exact (trivial : Calm cs (ProgM.pure _))
  · exact GCalm_gridStep7 cs N hN _ childStyles _ _ _ _ _ _ _ _ _ _ _ hst2

/-- **Calm for `compute_grid_layout`** (panicking runs included: a panic ends the run) -/
theorem GCalm_computeGridLayoutE (style : GridStyle α) (childStyles : List (GridChildStyle α)) (inputs : LayoutInput α) :
    GCalm (childStyles.map (·.base)) (computeGridLayoutE style childStyles inputs) := by
  rcases computeGridLayoutE_cases style inputs with ⟨_, o, h⟩ | h
  · rw [h]; exact (trivial : Calm _ (ProgM.pure _))
  · rw [h]
    rcases gridSetupK_cases style childStyles inputs with ⟨e, he⟩ | ⟨su, hperm, hk⟩
    · rw [he]; exact (trivial : Calm _ (ProgM.pure _))
    · rw [hk]
      have hv := nodesVis_of_perm childStyles su.items hperm
      refine GCalm_gridMain _ (fun i => ∃ it ∈ su.items, it.node = i) ?_ style childStyles inputs su
        (fun it hit => ⟨it, hit, rfl⟩)
      rintro i ⟨it, hit, rfl⟩ s hs
      simp only [List.getElem?_map] at hs
      cases hcs : childStyles[it.node]? with
      | none => rw [hcs] at hs; cases hs
      | some c =>
        rw [hcs] at hs
        simp only [Option.map_some, Option.some.injEq] at hs
        rw [← hs]
        exact hv it hit c hcs

theorem Calm_computeGridLayout (style : GridStyle α) (childStyles : List (GridChildStyle α)) (inputs : LayoutInput α) :
    Calm (childStyles.map (·.base)) (computeGridLayout style childStyles inputs) := by
  unfold computeGridLayout
  refine Calm_bind _ _ _ (GCalm_computeGridLayoutE style childStyles inputs) fun r => ?_
  cases r <;> trivial

/-- **grid_calm**: every ComputeSize query of `compute_grid_layout` goes to the child of a grid item, i.e. to a child that
generates a box; the only queries to `display:none` children are the `perform_child_layout` calls of the hidden loop -/
theorem grid_calm [FlexLine.NumX α] (style : Style α) (cs : List (Style α)) (inputs : LayoutInput α) :
    Calm cs (EvalGrid.gridAlg style cs inputs) := by
  have := Calm_computeGridLayout (GridStyle.ofStyle style) (cs.map GridChildStyle.ofStyle) inputs
  rwa [map_base_ofStyle] at this

/-- the stand-in that equals `gridAlg` wherever `gridAlg` cannot panic -/
theorem gridCov_calm [FlexLine.NumX α] (style : Style α) (cs : List (Style α)) (inputs : LayoutInput α) :
    Calm cs (gridCov style cs inputs) := by
  unfold gridCov
  split
  · exact grid_calm style cs inputs
  · exact coverAlg_calm style cs inputs

end whole

end EvalDirty
