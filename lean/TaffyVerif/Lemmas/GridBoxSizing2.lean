/-
  C12 / C06 for grid: Model/GridSizing.lean respects the item transformation `phi P`, part 2: `resolve_item_baselines`.
-/
import TaffyVerif.Lemmas.GridBoxSizing1

set_option linter.unusedSectionVars false

namespace GridRel
open GridModel GridTracks
variable {α : Type} [Num α]

variable {w : World α} (hw : w.Reads) {P : Nat → Bool}

include hw in
theorem measureRowBaselines_rel (ins : Size (Option α)) :
    ∀ (items items' : List (GItem α)), LR P (NA w) items items' →
      GRel w (LR P (NA w)) (measureRowBaselines ins items) (measureRowBaselines ins items')
  | [], items', h => by
    rw [h.1]
    exact GRel.pure LR.nil
  | it :: rest, items', h => by
    rw [h.1, List.map_cons]
    unfold measureRowBaselines
    have hn : ¬ w.abs it.node := h.2 it List.mem_cons_self
    have hrest : LR P (NA w) rest (rest.map (phi P)) := ⟨rfl, fun x hx => h.2 x (List.mem_cons_of_mem _ hx)⟩
    simp only [← phi_setBaseline]
    simp only [phi_node, phi_margin]
    refine GRel.bind (GRel.call hn _) fun a b hab => ?_
    rw [hw.size a b hab, hw.baselines a b hab]
    refine GRel.bind (measureRowBaselines_rel ins rest _ hrest) fun l l' hl => ?_
    exact GRel.pure (LR.cons ⟨rfl, hn⟩ hl)

/-- the row of the first item, and the rest -/
def brSplit (axis : Ax) (items : List (GItem α)) (currentRow : Int) : List (GItem α) × List (GItem α) :=
  match items.findIdx? (fun it => (it.placement axis.other).start != currentRow) with
  | some i => (items.take i, items.drop i)
  | none => (items, [])

def brShim (m : α) (it : GItem α) : GItem α := { it with baselineShim := m - it.baseline.getD 0 }

theorem baselineRows_succ_cons (axis : Ax) (ins : Size (Option α)) (fuel : Nat) (first : GItem α)
    (tl : List (GItem α)) :
    baselineRows axis ins (fuel + 1) (first :: tl) =
      if ((brSplit axis (first :: tl) (first.placement axis.other).start).1.filter
            fun it => it.alignSelf == .baseline).length ≤ 1 then
        baselineRows axis ins fuel (brSplit axis (first :: tl) (first.placement axis.other).start).2 >>= fun rest =>
          pure ((brSplit axis (first :: tl) (first.placement axis.other).start).1 ++ rest)
      else
        measureRowBaselines ins (brSplit axis (first :: tl) (first.placement axis.other).start).1 >>= fun rowItems =>
          baselineRows axis ins fuel (brSplit axis (first :: tl) (first.placement axis.other).start).2 >>= fun rest =>
            pure (rowItems.map (brShim ((maxByTotal (rowItems.map fun it => it.baseline.getD 0)).getD 0)) ++ rest) := by
  rfl

theorem brSplit_rel {G : Nat → Prop} (axis : Ax) (row : Int) {l l' : List (GItem α)} (h : LR P G l l') :
    LR P G (brSplit axis l row).1 (brSplit axis l' row).1 ∧ LR P G (brSplit axis l row).2 (brSplit axis l' row).2 := by
  unfold brSplit
  rw [h.findIdx? _ (fun a => by rw [phi_placement])]
  cases l.findIdx? (fun it => (it.placement axis.other).start != row) with
  | some i => exact ⟨h.take i, h.drop i⟩
  | none => exact ⟨h, LR.nil⟩

theorem brShim_phi (m : α) (it : GItem α) : brShim m (phi P it) = phi P (brShim m it) := by
  unfold brShim
  rw [← phi_setShim, phi_baseline]

include hw in
theorem baselineRows_rel (axis : Ax) (ins : Size (Option α)) :
    ∀ (fuel : Nat) (items items' : List (GItem α)), LR P (NA w) items items' →
      GRel w (LR P (NA w)) (baselineRows axis ins fuel items) (baselineRows axis ins fuel items')
  | 0, items, items', h => by
    unfold baselineRows
    exact GRel.pure h
  | fuel + 1, [], items', h => by
    rw [h.1]
    unfold baselineRows
    exact GRel.pure LR.nil
  | fuel + 1, first :: tl, items', h => by
    have h' := h
    rw [h.1, List.map_cons] at h' ⊢
    rw [baselineRows_succ_cons, baselineRows_succ_cons, phi_placement]
    obtain ⟨h1, h2⟩ := brSplit_rel axis (first.placement axis.other).start h'
    rw [h1.filter_length _ (fun a => by rw [phi_alignSelf])]
    split
    · refine GRel.bind (baselineRows_rel axis ins fuel _ _ h2) fun r r' hr => ?_
      exact GRel.pure (h1.append hr)
    · refine GRel.bind (measureRowBaselines_rel hw ins _ _ h1) fun ri ri' hri => ?_
      refine GRel.bind (baselineRows_rel axis ins fuel _ _ h2) fun r r' hr => ?_
      rw [hri.map_val (fun it => it.baseline.getD 0) (fun a => by rw [phi_baseline])]
      exact GRel.pure ((hri.map _ (brShim_phi _) (fun _ => rfl)).append hr)

include hw in
theorem resolveItemBaselines_rel (axis : Ax) (ins : Size (Option α)) (items items' : List (GItem α))
    (h : LR P (NA w) items items') :
    GRel w (LR P (NA w)) (resolveItemBaselines axis items ins) (resolveItemBaselines axis items' ins) := by
  unfold resolveItemBaselines
  have hs := h.mergeSort (fun a b => decide ((a.placement axis.other).start ≤ (b.placement axis.other).start))
    (fun a b => by rw [phi_placement, phi_placement])
  show GRel w _ (baselineRows axis ins (_ + 1) _) (baselineRows axis ins (_ + 1) _)
  rw [hs.length]
  exact baselineRows_rel hw axis ins _ _ _ hs

end GridRel
