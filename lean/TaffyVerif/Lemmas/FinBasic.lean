/-
  C03 (finiteness) — the finiteness predicates on the shared types at the extended-number instance `ER`
  (Model/ExtNum.lean) and the typing lemmas of the numeric layer: the `Num` operations, util/resolve.rs, util/math.rs
  (`MaybeMath`), the geometry helpers of Model/Style.lean and `CollapsibleMarginSet`.

  Reading: `IsFin x` = `x` is `ER.fin q` for some rational `q` (neither `±∞` nor `NaN`).  All lemmas are tagged `fin_simp`;
  `simp [fin_simp, *]` closes finiteness goals about compositions of these operations by backward chaining.
  The only operation that can leave the finite numbers is division, by a divisor that is zero: `fin_div`.
-/
import TaffyVerif.Model.ExtNum
import TaffyVerif.Model.Style
import TaffyVerif.Lemmas.FinAttr

namespace C03Fin

/-- `x` is a finite number -/
def IsFin : ER → Prop
  | .fin _ => True
  | _ => False

theorem isFin_iff (x : ER) : IsFin x ↔ ∃ q, x = .fin q := by
  cases x <;> simp [IsFin]

theorem isFin_iff_isFinite (x : ER) : IsFin x ↔ Num.isFinite x = true := by
  cases x <;> simp [IsFin, Num.isFinite, ER.isFinite]

@[fin_simp] theorem fin_fin (q : Rat) : IsFin (.fin q) := trivial
@[simp] theorem not_fin_pinf : ¬ IsFin .pinf := id
@[simp] theorem not_fin_ninf : ¬ IsFin .ninf := id
@[simp] theorem not_fin_nan : ¬ IsFin .nan := id

/-! ### the `Num` operations -/

theorem add_def (a b : ER) : a + b = ER.add a b := rfl
theorem sub_def (a b : ER) : a - b = ER.sub a b := rfl
theorem mul_def (a b : ER) : a * b = ER.mul a b := rfl
theorem div_def (a b : ER) : a / b = ER.div a b := rfl
theorem neg_def (a : ER) : -a = ER.neg a := rfl
theorem zero_def : (0 : ER) = .fin 0 := rfl
theorem one_def : (1 : ER) = .fin 1 := rfl

@[fin_simp] theorem fin_zero : IsFin (0 : ER) := trivial
@[fin_simp] theorem fin_one : IsFin (1 : ER) := trivial
@[fin_simp] theorem fin_ofNat (n : Nat) : IsFin (Num.ofNat n : ER) := trivial
@[fin_simp] theorem fin_eps : IsFin (Num.eps : ER) := trivial

@[fin_simp] theorem fin_add {a b : ER} (ha : IsFin a) (hb : IsFin b) : IsFin (a + b) := by
  cases a <;> cases b <;> simp_all [IsFin, add_def, ER.add]

@[fin_simp] theorem fin_neg {a : ER} (ha : IsFin a) : IsFin (-a) := by
  cases a <;> simp_all [IsFin, neg_def, ER.neg]

@[fin_simp] theorem fin_sub {a b : ER} (ha : IsFin a) (hb : IsFin b) : IsFin (a - b) := by
  cases a <;> cases b <;> simp_all [IsFin, sub_def, ER.sub, ER.add, ER.neg]

@[fin_simp] theorem fin_mul {a b : ER} (ha : IsFin a) (hb : IsFin b) : IsFin (a * b) := by
  cases a <;> cases b <;> simp_all [IsFin, mul_def, ER.mul]

/-- division: the one operation that needs more than finite operands -/
@[fin_simp] theorem fin_div {a b : ER} (ha : IsFin a) (hb : IsFin b) (h0 : b ≠ 0) : IsFin (a / b) := by
  cases a <;> cases b <;> simp_all [IsFin, div_def, ER.div, zero_def]

/-- the same with the condition available in each branch -/
theorem fin_ite' {c : Prop} [Decidable c] {a b : ER} (ha : c → IsFin a) (hb : ¬ c → IsFin b) :
    IsFin (if c then a else b) := by
  split
  · exact ha ‹_›
  · exact hb ‹_›

@[fin_simp] theorem fin_two : IsFin (Num.two : ER) := fin_add fin_one fin_one

@[fin_simp] theorem two_ne_zero : (Num.two : ER) ≠ 0 := by
  show ER.fin (1 + 1) ≠ ER.fin 0
  intro h; injection h with h; revert h; decide +kernel

@[fin_simp] theorem four_ne_zero : (Num.two + Num.two : ER) ≠ 0 := by
  show ER.fin ((1 + 1) + (1 + 1)) ≠ ER.fin 0
  intro h; injection h with h; revert h; decide +kernel

@[fin_simp] theorem ofNat_ne_zero {n : Nat} (h : 0 < n) : (Num.ofNat n : ER) ≠ 0 := by
  show ER.fin (n : Rat) ≠ ER.fin 0
  intro h0; injection h0 with h0
  have := Rat.natCast_eq_zero_iff.mp h0
  omega

@[fin_simp] theorem fin_fmax {a b : ER} (ha : IsFin a) (hb : IsFin b) : IsFin (Num.fmax a b) := by
  obtain ⟨p, rfl⟩ := (isFin_iff a).mp ha
  obtain ⟨q, rfl⟩ := (isFin_iff b).mp hb
  by_cases h : ER.flt (.fin p) (.fin q) = true <;> simp [Num.fmax, ER.fmax, ER.isNaN, h, IsFin]

@[fin_simp] theorem fin_fmin {a b : ER} (ha : IsFin a) (hb : IsFin b) : IsFin (Num.fmin a b) := by
  obtain ⟨p, rfl⟩ := (isFin_iff a).mp ha
  obtain ⟨q, rfl⟩ := (isFin_iff b).mp hb
  by_cases h : ER.flt (.fin q) (.fin p) = true <;> simp [Num.fmin, ER.fmin, ER.isNaN, h, IsFin]

@[fin_simp] theorem fin_round {a : ER} (ha : IsFin a) : IsFin (Num.round a) := by
  cases a <;> simp_all [IsFin, Num.round, ER.lift]
@[fin_simp] theorem fin_floor {a : ER} (ha : IsFin a) : IsFin (Num.floor a) := by
  cases a <;> simp_all [IsFin, Num.floor, ER.lift]
@[fin_simp] theorem fin_ceil {a : ER} (ha : IsFin a) : IsFin (Num.ceil a) := by
  cases a <;> simp_all [IsFin, Num.ceil, ER.lift]
@[fin_simp] theorem fin_abs {a : ER} (ha : IsFin a) : IsFin (Num.abs a) := by
  cases a <;> simp_all [IsFin, Num.abs, ER.abs]

@[fin_simp] theorem fin_ite {c : Prop} [Decidable c] {a b : ER} (ha : IsFin a) (hb : IsFin b) :
    IsFin (if c then a else b) := by
  split <;> assumption

/-! ### the predicates on the shared types -/

/-- `None`, or `Some` of a finite number -/
def OFin : Option ER → Prop
  | none => True
  | some v => IsFin v
def SFin (s : Size ER) : Prop := IsFin s.width ∧ IsFin s.height
def SOFin (s : Size (Option ER)) : Prop := OFin s.width ∧ OFin s.height
def PFin (p : Point ER) : Prop := IsFin p.x ∧ IsFin p.y
def POFin (p : Point (Option ER)) : Prop := OFin p.x ∧ OFin p.y
def RFin (r : Rect ER) : Prop := IsFin r.left ∧ IsFin r.right ∧ IsFin r.top ∧ IsFin r.bottom
def ROFin (r : Rect (Option ER)) : Prop := OFin r.left ∧ OFin r.right ∧ OFin r.top ∧ OFin r.bottom
/-- `Definite(v)` with `v` finite, or `MinContent`/`MaxContent` -/
def AvFin : AvailableSpace ER → Prop
  | .definite v => IsFin v
  | _ => True
def SAvFin (s : Size (AvailableSpace ER)) : Prop := AvFin s.width ∧ AvFin s.height
def LPFin : LP ER → Prop
  | .length v => IsFin v
  | .percent v => IsFin v
def LPAFin : LPA ER → Prop
  | .length v => IsFin v
  | .percent v => IsFin v
  | .auto => True
def RLPFin (r : Rect (LP ER)) : Prop := LPFin r.left ∧ LPFin r.right ∧ LPFin r.top ∧ LPFin r.bottom
def RLPAFin (r : Rect (LPA ER)) : Prop := LPAFin r.left ∧ LPAFin r.right ∧ LPAFin r.top ∧ LPAFin r.bottom
def SLPFin (s : Size (LP ER)) : Prop := LPFin s.width ∧ LPFin s.height
def SLPAFin (s : Size (LPA ER)) : Prop := LPAFin s.width ∧ LPAFin s.height
def MSFin (m : MarginSet ER) : Prop := IsFin m.positive ∧ IsFin m.negative

/-- every number of a `LayoutOutput` is finite -/
def OutFin (o : LayoutOutput ER) : Prop :=
  SFin o.size ∧ SFin o.contentSize ∧ POFin o.firstBaselines ∧ MSFin o.topMargin ∧ MSFin o.bottomMargin
/-- every number of a `LayoutInput` is finite: known dimensions, parent size, definite available space -/
def InFin (i : LayoutInput ER) : Prop :=
  SOFin i.knownDimensions ∧ SOFin i.parentSize ∧ SAvFin i.availableSpace
/-- every number of a `Layout` is finite -/
def LayFin (l : Layout ER) : Prop :=
  PFin l.location ∧ SFin l.size ∧ SFin l.contentSize ∧ SFin l.scrollbarSize ∧ RFin l.border ∧ RFin l.padding ∧
  RFin l.margin

/-- the aspect ratio is absent, or finite and non-zero (it is a divisor: `w / ratio`) -/
def ARFin : Option ER → Prop
  | none => True
  | some r => IsFin r ∧ r ≠ 0

/-- every length, percentage and factor of the style is finite and the aspect ratio, if any, is finite and non-zero.
(The grid fields are not constrained here: leaf and block do not read them.) -/
structure StyleFin (s : Style ER) : Prop where
  scrollbarWidth : IsFin s.scrollbarWidth
  inset : RLPAFin s.inset
  size : SLPAFin s.size
  minSize : SLPAFin s.minSize
  maxSize : SLPAFin s.maxSize
  aspectRatio : ARFin s.aspectRatio
  margin : RLPAFin s.margin
  padding : RLPFin s.padding
  border : RLPFin s.border
  gap : SLPFin s.gap
  flexBasis : LPAFin s.flexBasis
  flexGrow : IsFin s.flexGrow
  flexShrink : IsFin s.flexShrink

/-! constructor / projection forms -/
section forms
variable {x1 x2 x3 x4 : ER} {oa ob oc od : Option ER}

@[fin_simp] theorem OFin_none : OFin none := trivial
@[fin_simp] theorem OFin_some : OFin (some x1) ↔ IsFin x1 := Iff.rfl
@[fin_simp] theorem AvFin_definite : AvFin (.definite x1) ↔ IsFin x1 := Iff.rfl
@[fin_simp] theorem AvFin_min : AvFin .minContent := trivial
@[fin_simp] theorem AvFin_max : AvFin .maxContent := trivial
@[fin_simp] theorem LPFin_length : LPFin (.length x1) ↔ IsFin x1 := Iff.rfl
@[fin_simp] theorem LPFin_percent : LPFin (.percent x1) ↔ IsFin x1 := Iff.rfl
@[fin_simp] theorem LPAFin_length : LPAFin (.length x1) ↔ IsFin x1 := Iff.rfl
@[fin_simp] theorem LPAFin_percent : LPAFin (.percent x1) ↔ IsFin x1 := Iff.rfl
@[fin_simp] theorem LPAFin_auto : LPAFin .auto := trivial
@[fin_simp] theorem ARFin_none : ARFin none := trivial
@[fin_simp] theorem ARFin_some : ARFin (some x1) ↔ IsFin x1 ∧ x1 ≠ 0 := Iff.rfl
@[fin_simp] theorem SFin_mk : SFin ⟨x1, x2⟩ ↔ IsFin x1 ∧ IsFin x2 := Iff.rfl
@[fin_simp] theorem SOFin_mk : SOFin ⟨oa, ob⟩ ↔ OFin oa ∧ OFin ob := Iff.rfl
@[fin_simp] theorem PFin_mk : PFin ⟨x1, x2⟩ ↔ IsFin x1 ∧ IsFin x2 := Iff.rfl
@[fin_simp] theorem POFin_mk : POFin ⟨oa, ob⟩ ↔ OFin oa ∧ OFin ob := Iff.rfl
@[fin_simp] theorem RFin_mk : RFin ⟨x1, x2, x3, x4⟩ ↔ IsFin x1 ∧ IsFin x2 ∧ IsFin x3 ∧ IsFin x4 := Iff.rfl
@[fin_simp] theorem ROFin_mk : ROFin ⟨oa, ob, oc, od⟩ ↔ OFin oa ∧ OFin ob ∧ OFin oc ∧ OFin od := Iff.rfl
@[fin_simp] theorem MSFin_mk : MSFin ⟨x1, x2⟩ ↔ IsFin x1 ∧ IsFin x2 := Iff.rfl
@[fin_simp] theorem SAvFin_mk {x y : AvailableSpace ER} : SAvFin ⟨x, y⟩ ↔ AvFin x ∧ AvFin y := Iff.rfl

@[fin_simp] theorem SFin.w {s : Size ER} (h : SFin s) : IsFin s.width := h.1
@[fin_simp] theorem SFin.h {s : Size ER} (h : SFin s) : IsFin s.height := h.2
@[fin_simp] theorem SOFin.w {s : Size (Option ER)} (h : SOFin s) : OFin s.width := h.1
@[fin_simp] theorem SOFin.h {s : Size (Option ER)} (h : SOFin s) : OFin s.height := h.2
@[fin_simp] theorem PFin.px {s : Point ER} (h : PFin s) : IsFin s.x := h.1
@[fin_simp] theorem PFin.py {s : Point ER} (h : PFin s) : IsFin s.y := h.2
@[fin_simp] theorem RFin.l {r : Rect ER} (h : RFin r) : IsFin r.left := h.1
@[fin_simp] theorem RFin.r {r : Rect ER} (h : RFin r) : IsFin r.right := h.2.1
@[fin_simp] theorem RFin.t {r : Rect ER} (h : RFin r) : IsFin r.top := h.2.2.1
@[fin_simp] theorem RFin.b {r : Rect ER} (h : RFin r) : IsFin r.bottom := h.2.2.2
@[fin_simp] theorem ROFin.l {r : Rect (Option ER)} (h : ROFin r) : OFin r.left := h.1
@[fin_simp] theorem ROFin.r {r : Rect (Option ER)} (h : ROFin r) : OFin r.right := h.2.1
@[fin_simp] theorem ROFin.t {r : Rect (Option ER)} (h : ROFin r) : OFin r.top := h.2.2.1
@[fin_simp] theorem ROFin.b {r : Rect (Option ER)} (h : ROFin r) : OFin r.bottom := h.2.2.2
@[fin_simp] theorem RLPFin.l {r : Rect (LP ER)} (h : RLPFin r) : LPFin r.left := h.1
@[fin_simp] theorem RLPFin.r {r : Rect (LP ER)} (h : RLPFin r) : LPFin r.right := h.2.1
@[fin_simp] theorem RLPFin.t {r : Rect (LP ER)} (h : RLPFin r) : LPFin r.top := h.2.2.1
@[fin_simp] theorem RLPFin.b {r : Rect (LP ER)} (h : RLPFin r) : LPFin r.bottom := h.2.2.2
@[fin_simp] theorem RLPAFin.l {r : Rect (LPA ER)} (h : RLPAFin r) : LPAFin r.left := h.1
@[fin_simp] theorem RLPAFin.r {r : Rect (LPA ER)} (h : RLPAFin r) : LPAFin r.right := h.2.1
@[fin_simp] theorem RLPAFin.t {r : Rect (LPA ER)} (h : RLPAFin r) : LPAFin r.top := h.2.2.1
@[fin_simp] theorem RLPAFin.b {r : Rect (LPA ER)} (h : RLPAFin r) : LPAFin r.bottom := h.2.2.2
@[fin_simp] theorem SLPFin.w {s : Size (LP ER)} (h : SLPFin s) : LPFin s.width := h.1
@[fin_simp] theorem SLPFin.h {s : Size (LP ER)} (h : SLPFin s) : LPFin s.height := h.2
@[fin_simp] theorem SLPAFin.w {s : Size (LPA ER)} (h : SLPAFin s) : LPAFin s.width := h.1
@[fin_simp] theorem SLPAFin.h {s : Size (LPA ER)} (h : SLPAFin s) : LPAFin s.height := h.2
@[fin_simp] theorem SAvFin.w {s : Size (AvailableSpace ER)} (h : SAvFin s) : AvFin s.width := h.1
@[fin_simp] theorem SAvFin.h {s : Size (AvailableSpace ER)} (h : SAvFin s) : AvFin s.height := h.2
@[fin_simp] theorem MSFin.p {m : MarginSet ER} (h : MSFin m) : IsFin m.positive := h.1
@[fin_simp] theorem MSFin.n {m : MarginSet ER} (h : MSFin m) : IsFin m.negative := h.2
end forms

/-! ### `Option` helpers -/

@[fin_simp] theorem fin_getD {o : Option ER} {d : ER} (ho : OFin o) (hd : IsFin d) : IsFin (o.getD d) := by
  cases o <;> simp_all [OFin]
@[fin_simp] theorem fin_or {a b : Option ER} (ha : OFin a) (hb : OFin b) : OFin (a.or b) := by
  cases a <;> simp_all [OFin]
@[fin_simp] theorem fin_oite {c : Prop} [Decidable c] {a b : Option ER} (ha : OFin a) (hb : OFin b) :
    OFin (if c then a else b) := by
  split <;> assumption
theorem fin_neg_map {o : Option ER} (h : OFin o) : OFin (o.map fun x => -x) := by
  cases o with
  | none => trivial
  | some v => exact fin_neg h
theorem OFin.of_some {o : Option ER} {v : ER} (h : OFin o) (e : o = some v) : IsFin v := by
  subst e; exact h

/-! ### util/resolve.rs -/

@[fin_simp] theorem fin_LP_maybeResolve {x : LP ER} {ctx : Option ER} (hx : LPFin x) (hc : OFin ctx) :
    OFin (x.maybeResolve ctx) := by
  cases x <;> cases ctx <;> simp_all [LP.maybeResolve, LPFin, OFin, fin_simp]
@[fin_simp] theorem fin_LP_resolveOrZero {x : LP ER} {ctx : Option ER} (hx : LPFin x) (hc : OFin ctx) :
    IsFin (x.resolveOrZero ctx) := fin_getD (fin_LP_maybeResolve hx hc) fin_zero
@[fin_simp] theorem fin_LPA_maybeResolve {x : LPA ER} {ctx : Option ER} (hx : LPAFin x) (hc : OFin ctx) :
    OFin (x.maybeResolve ctx) := by
  cases x <;> cases ctx <;> simp_all [LPA.maybeResolve, LPAFin, OFin, fin_simp]
@[fin_simp] theorem fin_LPA_resolveOrZero {x : LPA ER} {ctx : Option ER} (hx : LPAFin x) (hc : OFin ctx) :
    IsFin (x.resolveOrZero ctx) := fin_getD (fin_LPA_maybeResolve hx hc) fin_zero
@[fin_simp] theorem fin_LPA_resolveToOption {x : LPA ER} {ctx : ER} (hx : LPAFin x) (hc : IsFin ctx) :
    OFin (x.resolveToOption ctx) := by
  cases x <;> simp_all [LPA.resolveToOption, LPAFin, OFin, fin_simp]

@[fin_simp] theorem fin_sizeMaybe {s : Size (LPA ER)} {ctx : Size (Option ER)} (hs : SLPAFin s) (hc : SOFin ctx) :
    SOFin (Resolve.sizeMaybe s ctx) :=
  ⟨fin_LPA_maybeResolve hs.1 hc.1, fin_LPA_maybeResolve hs.2 hc.2⟩
@[fin_simp] theorem fin_rectLPOrZero {r : Rect (LP ER)} {ctx : Option ER} (hr : RLPFin r) (hc : OFin ctx) :
    RFin (Resolve.rectLPOrZero r ctx) :=
  ⟨fin_LP_resolveOrZero hr.1 hc, fin_LP_resolveOrZero hr.2.1 hc, fin_LP_resolveOrZero hr.2.2.1 hc,
   fin_LP_resolveOrZero hr.2.2.2 hc⟩
@[fin_simp] theorem fin_rectLPAOrZero {r : Rect (LPA ER)} {ctx : Option ER} (hr : RLPAFin r) (hc : OFin ctx) :
    RFin (Resolve.rectLPAOrZero r ctx) :=
  ⟨fin_LPA_resolveOrZero hr.1 hc, fin_LPA_resolveOrZero hr.2.1 hc, fin_LPA_resolveOrZero hr.2.2.1 hc,
   fin_LPA_resolveOrZero hr.2.2.2 hc⟩
@[fin_simp] theorem fin_rectLPOrZeroSize {r : Rect (LP ER)} {ctx : Size (Option ER)} (hr : RLPFin r) (hc : SOFin ctx) :
    RFin (Resolve.rectLPOrZeroSize r ctx) :=
  ⟨fin_LP_resolveOrZero hr.1 hc.1, fin_LP_resolveOrZero hr.2.1 hc.1, fin_LP_resolveOrZero hr.2.2.1 hc.2,
   fin_LP_resolveOrZero hr.2.2.2 hc.2⟩
@[fin_simp] theorem fin_rectLPAOrZeroSize {r : Rect (LPA ER)} {ctx : Size (Option ER)} (hr : RLPAFin r)
    (hc : SOFin ctx) : RFin (Resolve.rectLPAOrZeroSize r ctx) :=
  ⟨fin_LPA_resolveOrZero hr.1 hc.1, fin_LPA_resolveOrZero hr.2.1 hc.1, fin_LPA_resolveOrZero hr.2.2.1 hc.2,
   fin_LPA_resolveOrZero hr.2.2.2 hc.2⟩
@[fin_simp] theorem fin_rectLPAMaybe {r : Rect (LPA ER)} {ctx : Option ER} (hr : RLPAFin r) (hc : OFin ctx) :
    ROFin (Resolve.rectLPAMaybe r ctx) :=
  ⟨fin_LPA_maybeResolve hr.1 hc, fin_LPA_maybeResolve hr.2.1 hc, fin_LPA_maybeResolve hr.2.2.1 hc,
   fin_LPA_maybeResolve hr.2.2.2 hc⟩
@[fin_simp] theorem fin_sizeLPOrZero {s : Size (LP ER)} {ctx : Size (Option ER)} (hs : SLPFin s) (hc : SOFin ctx) :
    SFin (Resolve.sizeLPOrZero s ctx) :=
  ⟨fin_LP_resolveOrZero hs.1 hc.1, fin_LP_resolveOrZero hs.2 hc.2⟩

/-! ### util/math.rs (`MaybeMath`) -/
section maybemath
open MaybeMath
variable {l r mn mx : Option ER} {x y z : ER} {a : AvailableSpace ER}

@[fin_simp] theorem fin_oo_min (hl : OFin l) (hr : OFin r) : OFin (oo_min l r) := by
  cases l <;> cases r <;> simp_all [oo_min, OFin, fin_simp]
@[fin_simp] theorem fin_oo_max (hl : OFin l) (hr : OFin r) : OFin (oo_max l r) := by
  cases l <;> cases r <;> simp_all [oo_max, OFin, fin_simp]
@[fin_simp] theorem fin_oo_clamp (hl : OFin l) (h1 : OFin mn) (h2 : OFin mx) : OFin (oo_clamp l mn mx) := by
  cases l <;> cases mn <;> cases mx <;> simp_all [oo_clamp, OFin, fin_simp]
@[fin_simp] theorem fin_oo_add (hl : OFin l) (hr : OFin r) : OFin (oo_add l r) := by
  cases l <;> cases r <;> simp_all [oo_add, OFin, fin_simp]
@[fin_simp] theorem fin_oo_sub (hl : OFin l) (hr : OFin r) : OFin (oo_sub l r) := by
  cases l <;> cases r <;> simp_all [oo_sub, OFin, fin_simp]
@[fin_simp] theorem fin_of_min (hl : OFin l) (hx : IsFin x) : OFin (of_min l x) := by
  cases l <;> simp_all [of_min, OFin, fin_simp]
@[fin_simp] theorem fin_of_max (hl : OFin l) (hx : IsFin x) : OFin (of_max l x) := by
  cases l <;> simp_all [of_max, OFin, fin_simp]
@[fin_simp] theorem fin_of_clamp (hl : OFin l) (hx : IsFin x) (hy : IsFin y) : OFin (of_clamp l x y) := by
  cases l <;> simp_all [of_clamp, OFin, fin_simp]
@[fin_simp] theorem fin_of_add (hl : OFin l) (hx : IsFin x) : OFin (of_add l x) := by
  cases l <;> simp_all [of_add, OFin, fin_simp]
@[fin_simp] theorem fin_of_sub (hl : OFin l) (hx : IsFin x) : OFin (of_sub l x) := by
  cases l <;> simp_all [of_sub, OFin, fin_simp]
@[fin_simp] theorem fin_fo_min (hx : IsFin x) (hr : OFin r) : IsFin (fo_min x r) := by
  cases r <;> simp_all [fo_min, OFin, fin_simp]
@[fin_simp] theorem fin_fo_max (hx : IsFin x) (hr : OFin r) : IsFin (fo_max x r) := by
  cases r <;> simp_all [fo_max, OFin, fin_simp]
@[fin_simp] theorem fin_fo_clamp (hx : IsFin x) (h1 : OFin mn) (h2 : OFin mx) : IsFin (fo_clamp x mn mx) := by
  cases mn <;> cases mx <;> simp_all [fo_clamp, OFin, fin_simp]
@[fin_simp] theorem fin_fo_add (hx : IsFin x) (hr : OFin r) : IsFin (fo_add x r) := by
  cases r <;> simp_all [fo_add, OFin, fin_simp]
@[fin_simp] theorem fin_fo_sub (hx : IsFin x) (hr : OFin r) : IsFin (fo_sub x r) := by
  cases r <;> simp_all [fo_sub, OFin, fin_simp]
@[fin_simp] theorem fin_af_min (ha : AvFin a) (hx : IsFin x) : AvFin (af_min a x) := by
  cases a <;> simp_all [af_min, AvFin, fin_simp]
@[fin_simp] theorem fin_af_max (ha : AvFin a) (hx : IsFin x) : AvFin (af_max a x) := by
  cases a <;> simp_all [af_max, AvFin, fin_simp]
@[fin_simp] theorem fin_af_clamp (ha : AvFin a) (hx : IsFin x) (hy : IsFin y) : AvFin (af_clamp a x y) := by
  cases a <;> simp_all [af_clamp, AvFin, fin_simp]
@[fin_simp] theorem fin_af_add (ha : AvFin a) (hx : IsFin x) : AvFin (af_add a x) := by
  cases a <;> simp_all [af_add, AvFin, fin_simp]
@[fin_simp] theorem fin_af_sub (ha : AvFin a) (hx : IsFin x) : AvFin (af_sub a x) := by
  cases a <;> simp_all [af_sub, AvFin, fin_simp]
@[fin_simp] theorem fin_ao_min (ha : AvFin a) (hr : OFin r) : AvFin (ao_min a r) := by
  cases a <;> cases r <;> simp_all [ao_min, AvFin, OFin, fin_simp]
@[fin_simp] theorem fin_ao_max (ha : AvFin a) (hr : OFin r) : AvFin (ao_max a r) := by
  cases a <;> cases r <;> simp_all [ao_max, AvFin, OFin, fin_simp]
@[fin_simp] theorem fin_ao_clamp (ha : AvFin a) (h1 : OFin mn) (h2 : OFin mx) : AvFin (ao_clamp a mn mx) := by
  cases a <;> cases mn <;> cases mx <;> simp_all [ao_clamp, AvFin, OFin, fin_simp]
@[fin_simp] theorem fin_ao_add (ha : AvFin a) (hr : OFin r) : AvFin (ao_add a r) := by
  cases a <;> cases r <;> simp_all [ao_add, AvFin, OFin, fin_simp]
@[fin_simp] theorem fin_ao_sub (ha : AvFin a) (hr : OFin r) : AvFin (ao_sub a r) := by
  cases a <;> cases r <;> simp_all [ao_sub, AvFin, OFin, fin_simp]
end maybemath

/-! ### geometry helpers (Model/Style.lean) -/
section geom
variable {r r' : Rect ER} {s s' : Size ER} {o o' mn mx : Size (Option ER)} {av : Size (AvailableSpace ER)}
  {d : FlexDirection}

@[fin_simp] theorem fin_hsum (h : RFin r) : IsFin r.horizontalAxisSum := fin_add h.1 h.2.1
@[fin_simp] theorem fin_vsum (h : RFin r) : IsFin r.verticalAxisSum := fin_add h.2.2.1 h.2.2.2
@[fin_simp] theorem fin_sumAxes (h : RFin r) : SFin r.sumAxes := ⟨fin_hsum h, fin_vsum h⟩
@[fin_simp] theorem fin_rect_zero : RFin (Rect.zero : Rect ER) := ⟨fin_zero, fin_zero, fin_zero, fin_zero⟩
@[fin_simp] theorem fin_mainAxisSum (h : RFin r) : IsFin (r.mainAxisSum d) := by
  unfold Rect.mainAxisSum; split <;> simp [fin_simp, h]
@[fin_simp] theorem fin_crossAxisSum (h : RFin r) : IsFin (r.crossAxisSum d) := by
  unfold Rect.crossAxisSum; split <;> simp [fin_simp, h]
@[fin_simp] theorem fin_rect_add (h : RFin r) (h' : RFin r') : RFin (r.add r') :=
  ⟨fin_add h.1 h'.1, fin_add h.2.1 h'.2.1, fin_add h.2.2.1 h'.2.2.1, fin_add h.2.2.2 h'.2.2.2⟩

@[fin_simp] theorem fin_site {c : Prop} [Decidable c] {a b : Size ER} (ha : SFin a) (hb : SFin b) :
    SFin (if c then a else b) := by
  split <;> assumption
@[fin_simp] theorem fin_size_zero : SFin (Size.zero : Size ER) := ⟨fin_zero, fin_zero⟩
@[fin_simp] theorem fin_size_none : SOFin (Size.none : Size (Option ER)) := ⟨trivial, trivial⟩
@[fin_simp] theorem fin_orOpt (h : SOFin o) (h' : SOFin o') : SOFin (o.orOpt o') := ⟨fin_or h.1 h'.1, fin_or h.2 h'.2⟩
@[fin_simp] theorem fin_unwrapOr (h : SOFin o) (h' : SFin s) : SFin (o.unwrapOr s) :=
  ⟨fin_getD h.1 h'.1, fin_getD h.2 h'.2⟩
@[fin_simp] theorem fin_size_main (h : SFin s) : IsFin (s.main d) := by
  unfold Size.main; split <;> simp [fin_simp, h]
@[fin_simp] theorem fin_size_cross (h : SFin s) : IsFin (s.cross d) := by
  unfold Size.cross; split <;> simp [fin_simp, h]
@[fin_simp] theorem fin_osize_main (h : SOFin o) : OFin (o.main d) := by
  unfold Size.main; split <;> simp [fin_simp, h]
@[fin_simp] theorem fin_osize_cross (h : SOFin o) : OFin (o.cross d) := by
  unfold Size.cross; split <;> simp [fin_simp, h]
@[fin_simp] theorem fin_f32Max (h : SFin s) (h' : SFin s') : SFin (s.f32Max s') :=
  ⟨fin_fmax h.1 h'.1, fin_fmax h.2 h'.2⟩
@[fin_simp] theorem fin_f32Min (h : SFin s) (h' : SFin s') : SFin (s.f32Min s') :=
  ⟨fin_fmin h.1 h'.1, fin_fmin h.2 h'.2⟩
@[fin_simp] theorem fin_size_add (h : SFin s) (h' : SFin s') : SFin (s.add s') := ⟨fin_add h.1 h'.1, fin_add h.2 h'.2⟩
@[fin_simp] theorem fin_size_sub (h : SFin s) (h' : SFin s') : SFin (s.sub s') := ⟨fin_sub h.1 h'.1, fin_sub h.2 h'.2⟩

/-- `maybe_apply_aspect_ratio`: `w / ratio` and `h * ratio` — finite when the ratio is finite and NON-ZERO -/
@[fin_simp] theorem fin_maybeApplyAspectRatio {ar : Option ER} (h : SOFin o) (ha : ARFin ar) :
    SOFin (o.maybeApplyAspectRatio ar) := by
  obtain ⟨w, ht⟩ := o
  cases ar with
  | none => exact h
  | some r =>
    obtain ⟨hr, h0⟩ := ha
    cases w <;> cases ht <;> simp_all [Size.maybeApplyAspectRatio, SOFin, OFin, fin_simp]

@[fin_simp] theorem fin_size_oo_add (h : SOFin o) (h' : SOFin o') : SOFin (o.oo_add o') :=
  ⟨fin_oo_add h.1 h'.1, fin_oo_add h.2 h'.2⟩
@[fin_simp] theorem fin_size_oo_sub (h : SOFin o) (h' : SOFin o') : SOFin (o.oo_sub o') :=
  ⟨fin_oo_sub h.1 h'.1, fin_oo_sub h.2 h'.2⟩
@[fin_simp] theorem fin_size_oo_max (h : SOFin o) (h' : SOFin o') : SOFin (o.oo_max o') :=
  ⟨fin_oo_max h.1 h'.1, fin_oo_max h.2 h'.2⟩
@[fin_simp] theorem fin_size_oo_min (h : SOFin o) (h' : SOFin o') : SOFin (o.oo_min o') :=
  ⟨fin_oo_min h.1 h'.1, fin_oo_min h.2 h'.2⟩
@[fin_simp] theorem fin_size_oo_clamp (h : SOFin o) (h1 : SOFin mn) (h2 : SOFin mx) : SOFin (o.oo_clamp mn mx) :=
  ⟨fin_oo_clamp h.1 h1.1 h2.1, fin_oo_clamp h.2 h1.2 h2.2⟩
@[fin_simp] theorem fin_size_of_add (h : SOFin o) (h' : SFin s) : SOFin (o.of_add s) :=
  ⟨fin_of_add h.1 h'.1, fin_of_add h.2 h'.2⟩
@[fin_simp] theorem fin_size_of_sub (h : SOFin o) (h' : SFin s) : SOFin (o.of_sub s) :=
  ⟨fin_of_sub h.1 h'.1, fin_of_sub h.2 h'.2⟩
@[fin_simp] theorem fin_size_of_max (h : SOFin o) (h' : SFin s) : SOFin (o.of_max s) :=
  ⟨fin_of_max h.1 h'.1, fin_of_max h.2 h'.2⟩
@[fin_simp] theorem fin_size_fo_clamp (h : SFin s) (h1 : SOFin mn) (h2 : SOFin mx) : SFin (s.fo_clamp mn mx) :=
  ⟨fin_fo_clamp h.1 h1.1 h2.1, fin_fo_clamp h.2 h1.2 h2.2⟩
@[fin_simp] theorem fin_size_fo_max (h : SFin s) (h' : SOFin o) : SFin (s.fo_max o) :=
  ⟨fin_fo_max h.1 h'.1, fin_fo_max h.2 h'.2⟩
@[fin_simp] theorem fin_size_fo_min (h : SFin s) (h' : SOFin o) : SFin (s.fo_min o) :=
  ⟨fin_fo_min h.1 h'.1, fin_fo_min h.2 h'.2⟩
@[fin_simp] theorem fin_size_ao_sub (h : SAvFin av) (h' : SOFin o) : SAvFin (av.ao_sub o) :=
  ⟨fin_ao_sub h.1 h'.1, fin_ao_sub h.2 h'.2⟩
@[fin_simp] theorem fin_size_af_sub (h : SAvFin av) (h' : SFin s) : SAvFin (av.af_sub s) :=
  ⟨fin_af_sub h.1 h'.1, fin_af_sub h.2 h'.2⟩

@[fin_simp] theorem fin_intoOption {a : AvailableSpace ER} (h : AvFin a) : OFin a.intoOption := by
  cases a <;> simp_all [AvailableSpace.intoOption, AvFin, OFin]
@[fin_simp] theorem fin_map_intoOption (h : SAvFin av) : SOFin (av.map AvailableSpace.intoOption) :=
  ⟨fin_intoOption h.1, fin_intoOption h.2⟩
@[fin_simp] theorem fin_maybeSet {a : AvailableSpace ER} {v : Option ER} (h : AvFin a) (hv : OFin v) :
    AvFin (a.maybeSet v) := by
  cases v <;> simp_all [AvailableSpace.maybeSet, AvFin, OFin]
@[fin_simp] theorem fin_av_unwrapOr {a : AvailableSpace ER} {x : ER} (h : AvFin a) (hx : IsFin x) :
    IsFin (a.unwrapOr x) := fin_getD (fin_intoOption h) hx
@[fin_simp] theorem fin_av_ofOption {v : Option ER} (hv : OFin v) : AvFin (AvailableSpace.ofOption v) := by
  cases v <;> simp_all [AvailableSpace.ofOption, AvFin, OFin]
@[fin_simp] theorem fin_avite {c : Prop} [Decidable c] {a b : AvailableSpace ER} (ha : AvFin a) (hb : AvFin b) :
    AvFin (if c then a else b) := by
  split <;> assumption
@[fin_simp] theorem fin_autoMin {ov : Overflow} : OFin (ov.maybeIntoAutomaticMinSize : Option ER) := by
  unfold Overflow.maybeIntoAutomaticMinSize; split <;> simp [fin_simp]
end geom

/-! ### `CollapsibleMarginSet`, `LayoutOutput`, `Layout` constructors -/
section margins
variable {m m' : MarginSet ER} {x : ER} {s s' : Size ER}

@[fin_simp] theorem fin_ms_zero : MSFin (MarginSet.zero : MarginSet ER) := ⟨fin_zero, fin_zero⟩
@[fin_simp] theorem fin_fromMargin (hx : IsFin x) : MSFin (MarginSet.fromMargin x) := by
  unfold MarginSet.fromMargin; split <;> simp [fin_simp, hx]
@[fin_simp] theorem fin_collapseWithMargin (hm : MSFin m) (hx : IsFin x) : MSFin (m.collapseWithMargin x) := by
  unfold MarginSet.collapseWithMargin; split <;> simp [fin_simp, hm, hx]
@[fin_simp] theorem fin_collapseWithSet (hm : MSFin m) (hm' : MSFin m') : MSFin (m.collapseWithSet m') :=
  ⟨fin_fmax hm.1 hm'.1, fin_fmin hm.2 hm'.2⟩
@[fin_simp] theorem fin_ms_resolve (hm : MSFin m) : IsFin m.resolve := fin_add hm.1 hm.2

@[fin_simp] theorem fin_out_hidden : OutFin (LayoutOutput.hidden : LayoutOutput ER) := by
  simp [OutFin, LayoutOutput.hidden, fin_simp]
@[fin_simp] theorem fin_fromSizes (h : SFin s) (h' : SFin s') : OutFin (LayoutOutput.fromSizes s s') := by
  simp [OutFin, LayoutOutput.fromSizes, LayoutOutput.fromSizesAndBaselines, fin_simp, h, h']
@[fin_simp] theorem fin_fromOuterSize (h : SFin s) : OutFin (LayoutOutput.fromOuterSize s) := by
  simp [LayoutOutput.fromOuterSize, fin_simp, h]
@[fin_simp] theorem fin_withOrder (n : Nat) : LayFin (Layout.withOrder n : Layout ER) := by
  simp [LayFin, Layout.withOrder, fin_simp]
@[fin_simp] theorem fin_layout_new : LayFin (Layout.new : Layout ER) := fin_withOrder 0

@[fin_simp] theorem OutFin.size {o : LayoutOutput ER} (h : OutFin o) : SFin o.size := h.1
@[fin_simp] theorem OutFin.contentSize {o : LayoutOutput ER} (h : OutFin o) : SFin o.contentSize := h.2.1
@[fin_simp] theorem OutFin.baselines {o : LayoutOutput ER} (h : OutFin o) : POFin o.firstBaselines := h.2.2.1
@[fin_simp] theorem OutFin.top {o : LayoutOutput ER} (h : OutFin o) : MSFin o.topMargin := h.2.2.2.1
@[fin_simp] theorem OutFin.bottom {o : LayoutOutput ER} (h : OutFin o) : MSFin o.bottomMargin := h.2.2.2.2
@[fin_simp] theorem InFin.kd {i : LayoutInput ER} (h : InFin i) : SOFin i.knownDimensions := h.1
@[fin_simp] theorem InFin.ps {i : LayoutInput ER} (h : InFin i) : SOFin i.parentSize := h.2.1
@[fin_simp] theorem InFin.av {i : LayoutInput ER} (h : InFin i) : SAvFin i.availableSpace := h.2.2
end margins

end C03Fin
