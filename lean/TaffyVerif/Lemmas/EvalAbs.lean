/-
  C06 — definitions and helper lemmas: absolutely positioned children under the tree-level evaluator (Model/Eval.lean).
  The property theorems are in Props/C06.lean.
-/
import TaffyVerif.Lemmas.EvalUnfold

set_option linter.unusedSectionVars false

namespace C06
open Eval
variable {α : Type} [Num α] {C : Type}

/-! ### definitions -/

/-- an absolutely positioned box: `position:absolute` and not `display:none` -/
def absVis (s : Style α) : Prop := s.position = .absolute ∧ s.display ≠ .none

instance (s : Style α) : Decidable (absVis s) := inferInstanceAs (Decidable (_ ∧ _))

/-- two layout outputs equal in everything but `content_size` -/
def OutEqv (a b : LayoutOutput α) : Prop :=
  a.size = b.size ∧ a.firstBaselines = b.firstBaselines ∧ a.topMargin = b.topMargin ∧
  a.bottomMargin = b.bottomMargin ∧ a.marginsCanCollapseThrough = b.marginsCanCollapseThrough

/-- two layouts equal in everything but `content_size` (paint order, location, size, scrollbar size, border, padding,
margin all equal) -/
def LayEqv (a b : Layout α) : Prop :=
  a.order = b.order ∧ a.location = b.location ∧ a.size = b.size ∧ a.scrollbarSize = b.scrollbarSize ∧
  a.border = b.border ∧ a.padding = b.padding ∧ a.margin = b.margin

theorem OutEqv.refl (a : LayoutOutput α) : OutEqv a a := ⟨rfl, rfl, rfl, rfl, rfl⟩
theorem OutEqv.symm {a b : LayoutOutput α} (h : OutEqv a b) : OutEqv b a :=
  ⟨h.1.symm, h.2.1.symm, h.2.2.1.symm, h.2.2.2.1.symm, h.2.2.2.2.symm⟩
theorem OutEqv.trans {a b c : LayoutOutput α} (h : OutEqv a b) (g : OutEqv b c) : OutEqv a c :=
  ⟨h.1.trans g.1, h.2.1.trans g.2.1, h.2.2.1.trans g.2.2.1, h.2.2.2.1.trans g.2.2.2.1, h.2.2.2.2.trans g.2.2.2.2⟩
theorem LayEqv.refl (a : Layout α) : LayEqv a a := ⟨rfl, rfl, rfl, rfl, rfl, rfl, rfl⟩

/-- `OutEqv` is "equal after overwriting `content_size`" -/
theorem OutEqv_iff (a b : LayoutOutput α) : OutEqv a b ↔ { a with contentSize := b.contentSize } = b := by
  cases a; cases b
  simp only [OutEqv, LayoutOutput.mk.injEq, true_and]

/-- **program equivalence up to absolutely positioned children.**  `abs i` says child index `i` is absolutely
positioned.  Interactions with the other children must match one for one (same child, same input; layouts equal up
to `content_size`), with equivalent continuations for every pair of answers that are equal up to `content_size`;
a `call` or `setLayout` addressed to an `abs` child may occur on either side alone and whatever it answers must
lead to equivalent continuations; final results are related by `R`. -/
inductive AbsEquiv {β γ : Type} (abs : Nat → Prop) (R : β → γ → Prop) : ProgM α β → ProgM α γ → Prop where
  | pure (a : β) (b : γ) : R a b → AbsEquiv abs R (.pure a) (.pure b)
  | call (i : Nat) (inp : LayoutInput α) (kA : LayoutOutput α → ProgM α β) (kB : LayoutOutput α → ProgM α γ) :
      ¬ abs i → (∀ oA oB, OutEqv oA oB → AbsEquiv abs R (kA oA) (kB oB)) →
      AbsEquiv abs R (.call i inp kA) (.call i inp kB)
  | setLayout (i : Nat) (lA lB : Layout α) (kA : Unit → ProgM α β) (kB : Unit → ProgM α γ) :
      LayEqv lA lB → AbsEquiv abs R (kA ()) (kB ()) → AbsEquiv abs R (.setLayout i lA kA) (.setLayout i lB kB)
  | callL (i : Nat) (inp : LayoutInput α) (kA : LayoutOutput α → ProgM α β) (q : ProgM α γ) :
      abs i → (∀ o, AbsEquiv abs R (kA o) q) → AbsEquiv abs R (.call i inp kA) q
  | callR (i : Nat) (inp : LayoutInput α) (p : ProgM α β) (kB : LayoutOutput α → ProgM α γ) :
      abs i → (∀ o, AbsEquiv abs R p (kB o)) → AbsEquiv abs R p (.call i inp kB)
  | setL (i : Nat) (l : Layout α) (kA : Unit → ProgM α β) (q : ProgM α γ) :
      abs i → AbsEquiv abs R (kA ()) q → AbsEquiv abs R (.setLayout i l kA) q
  | setR (i : Nat) (l : Layout α) (p : ProgM α β) (kB : Unit → ProgM α γ) :
      abs i → AbsEquiv abs R p (kB ()) → AbsEquiv abs R p (.setLayout i l kB)

/-- style lists that agree except at indices where BOTH styles are absolutely positioned boxes -/
def AgreeA : List (Style α) → List (Style α) → Prop
  | [], [] => True
  | x :: xs, y :: ys => ((absVis x ∧ absVis y) ∨ (¬ absVis x ∧ x = y)) ∧ AgreeA xs ys
  | _, _ => False

/-- the indices of absolutely positioned children -/
def absIdx (xs : List (Style α)) (i : Nat) : Prop := ∃ x, xs[i]? = some x ∧ absVis x

/-- a container algorithm depends on its absolutely positioned children only through `content_size` -/
def AbsBlind (algs : Algs α) : Prop :=
  ∀ (style : Style α) (xs ys : List (Style α)) (inp : LayoutInput α), AgreeA xs ys →
    AbsEquiv (absIdx xs) OutEqv (algs.block style xs inp) (algs.block style ys inp) ∧
    AbsEquiv (absIdx xs) OutEqv (algs.flex style xs inp) (algs.flex style ys inp) ∧
    AbsEquiv (absIdx xs) OutEqv (algs.grid style xs inp) (algs.grid style ys inp)

mutual
/-- tree B is tree A with absolutely positioned children (at any depth) replaced by arbitrary other absolutely
positioned children (style, content and subtree all arbitrary) -/
def AbsRel : STree α → STree α → Prop
  | .node sA cA kA, .node sB cB kB => sA = sB ∧ cA = cB ∧ AbsRelList kA kB
def AbsRelList : List (STree α) → List (STree α) → Prop
  | [], [] => True
  | a :: as, b :: bs => ((absVis a.style ∧ absVis b.style) ∨ (¬ absVis a.style ∧ AbsRel a b)) ∧ AbsRelList as bs
  | _, _ => False
end

/-- `Option` lifted relation -/
def OptRel {β γ : Type} (R : β → γ → Prop) : Option β → Option γ → Prop
  | none, none => True
  | some a, some b => R a b
  | _, _ => False

theorem OptRel.mono {β γ : Type} {Q Q' : β → γ → Prop} (h : ∀ a b, Q a b → Q' a b) :
    ∀ (x : Option β) (y : Option γ), OptRel Q x y → OptRel Q' x y
  | none, none, _ => trivial
  | some a, some b, hq => h a b hq
  | none, some _, hq => hq.elim
  | some _, none, hq => hq.elim

/-- what the theorem needs from the per-node cache: a relation `R` on caches ("equal up to `content_size` in stored
outputs") that every cache operation respects -/
structure CacheRespects (ci : CacheImpl α C) (R : C → C → Prop) : Prop where
  empty : R ci.empty ci.empty
  get : ∀ a b inp, R a b → OptRel OutEqv (ci.get a inp) (ci.get b inp)
  store : ∀ a b inp oA oB, R a b → OutEqv oA oB → R (ci.store a inp oA) (ci.store b inp oB)
  clear : ∀ a b, R a b → R (ci.clear a) (ci.clear b)

mutual
/-- the state relation along tree A: everywhere outside the absolutely positioned subtrees caches are `R`-related
and own layouts equal up to `content_size`; about an absolutely positioned child and its subtree nothing is required -/
def SimA (R : C → C → Prop) : STree α → NS α C → NS α C → Prop
  | .node _ _ kids, .mk cA lA kA, .mk cB lB kB => R cA cB ∧ LayEqv lA lB ∧ SimAList R kids kA kB
def SimAList (R : C → C → Prop) : List (STree α) → List (NS α C) → List (NS α C) → Prop
  | [], [], [] => True
  | t :: ts, a :: as, b :: bs => (¬ absVis t.style → SimA R t a b) ∧ SimAList R ts as bs
  | _, _, _ => False
end

/-! ### list lemmas -/

theorem AbsRel_style : ∀ (a b : STree α), AbsRel a b → a.style = b.style
  | .node _ _ _, .node _ _ _, h => by simp only [AbsRel] at h; exact h.1

theorem AbsRelList_agree : ∀ (kA kB : List (STree α)), AbsRelList kA kB →
    AgreeA (kA.map STree.style) (kB.map STree.style)
  | [], [], _ => by simp only [List.map_nil, AgreeA]
  | [], _ :: _, h => by simp only [AbsRelList] at h
  | _ :: _, [], h => by simp only [AbsRelList] at h
  | a :: as, b :: bs, h => by
    simp only [AbsRelList] at h
    simp only [List.map_cons, AgreeA]
    refine ⟨?_, AbsRelList_agree as bs h.2⟩
    rcases h.1 with h1 | h1
    · exact Or.inl h1
    · exact Or.inr ⟨h1.1, AbsRel_style a b h1.2⟩

theorem AbsRelList_isEmpty : ∀ (kA kB : List (STree α)), AbsRelList kA kB → kA.isEmpty = kB.isEmpty
  | [], [], _ => rfl
  | [], _ :: _, h => by simp only [AbsRelList] at h
  | _ :: _, [], h => by simp only [AbsRelList] at h
  | _ :: _, _ :: _, _ => rfl

theorem AbsRelList_get : ∀ (kA kB : List (STree α)) (i : Nat), AbsRelList kA kB →
    (kA[i]? = none ∧ kB[i]? = none) ∨
    (∃ a b, kA[i]? = some a ∧ kB[i]? = some b ∧ ((absVis a.style ∧ absVis b.style) ∨ (¬ absVis a.style ∧ AbsRel a b)))
  | [], [], _, _ => Or.inl ⟨by simp, by simp⟩
  | [], _ :: _, _, h => by simp only [AbsRelList] at h
  | _ :: _, [], _, h => by simp only [AbsRelList] at h
  | a :: as, b :: bs, 0, h => by
    simp only [AbsRelList] at h
    exact Or.inr ⟨a, b, by simp, by simp, h.1⟩
  | a :: as, b :: bs, i + 1, h => by
    simp only [AbsRelList] at h
    simpa only [List.getElem?_cons_succ] using AbsRelList_get as bs i h.2

theorem SimAList_get (R : C → C → Prop) : ∀ (ts : List (STree α)) (as bs : List (NS α C)) (i : Nat),
    SimAList R ts as bs →
    (ts[i]? = none ∧ as[i]? = none ∧ bs[i]? = none) ∨
    (∃ t a b, ts[i]? = some t ∧ as[i]? = some a ∧ bs[i]? = some b ∧ (¬ absVis t.style → SimA R t a b))
  | [], [], [], _, _ => Or.inl ⟨by simp, by simp, by simp⟩
  | [], [], _ :: _, _, h => by simp only [SimAList] at h
  | [], _ :: _, _, _, h => by simp only [SimAList] at h
  | _ :: _, [], _, _, h => by simp only [SimAList] at h
  | _ :: _, _ :: _, [], _, h => by simp only [SimAList] at h
  | t :: ts, a :: as, b :: bs, 0, h => by
    simp only [SimAList] at h
    exact Or.inr ⟨t, a, b, by simp, by simp, by simp, h.1⟩
  | t :: ts, a :: as, b :: bs, i + 1, h => by
    simp only [SimAList] at h
    simpa only [List.getElem?_cons_succ] using SimAList_get R ts as bs i h.2

/-- replacing element `i` on both sides by related elements -/
theorem SimAList_set (R : C → C → Prop) : ∀ (ts : List (STree α)) (as bs : List (NS α C)) (i : Nat) (a' b' : NS α C),
    SimAList R ts as bs → (∀ t, ts[i]? = some t → ¬ absVis t.style → SimA R t a' b') →
    SimAList R ts (as.set i a') (bs.set i b')
  | [], [], [], _, _, _, _, _ => by simp only [List.set_nil, SimAList]
  | [], [], _ :: _, _, _, _, h, _ => by simp only [SimAList] at h
  | [], _ :: _, _, _, _, _, h, _ => by simp only [SimAList] at h
  | _ :: _, [], _, _, _, _, h, _ => by simp only [SimAList] at h
  | _ :: _, _ :: _, [], _, _, _, h, _ => by simp only [SimAList] at h
  | t :: ts, a :: as, b :: bs, 0, a', b', h, h' => by
    simp only [SimAList] at h
    simp only [List.set_cons_zero, SimAList]
    exact ⟨h' t (by simp), h.2⟩
  | t :: ts, a :: as, b :: bs, i + 1, a', b', h, h' => by
    simp only [SimAList] at h
    simp only [List.set_cons_succ, SimAList]
    refine ⟨h.1, SimAList_set R ts as bs i a' b' h.2 ?_⟩
    intro t' ht'
    exact h' t' (by simpa using ht')

/-- replacing the state of an absolutely positioned child on the A side only -/
theorem SimAList_setL (R : C → C → Prop) : ∀ (ts : List (STree α)) (as bs : List (NS α C)) (i : Nat) (a' : NS α C),
    SimAList R ts as bs → (∀ t, ts[i]? = some t → absVis t.style) → SimAList R ts (as.set i a') bs
  | [], [], [], _, _, _, _ => by simp only [List.set_nil, SimAList]
  | [], [], _ :: _, _, _, h, _ => by simp only [SimAList] at h
  | [], _ :: _, _, _, _, h, _ => by simp only [SimAList] at h
  | _ :: _, [], _, _, _, h, _ => by simp only [SimAList] at h
  | _ :: _, _ :: _, [], _, _, h, _ => by simp only [SimAList] at h
  | t :: ts, a :: as, b :: bs, 0, a', h, h' => by
    simp only [SimAList] at h
    simp only [List.set_cons_zero, SimAList]
    exact ⟨fun hn => absurd (h' t (by simp)) hn, h.2⟩
  | t :: ts, a :: as, b :: bs, i + 1, a', h, h' => by
    simp only [SimAList] at h
    simp only [List.set_cons_succ, SimAList]
    refine ⟨h.1, SimAList_setL R ts as bs i a' h.2 ?_⟩
    intro t' ht'
    exact h' t' (by simpa using ht')

/-- replacing the state of an absolutely positioned child on the B side only -/
theorem SimAList_setR (R : C → C → Prop) : ∀ (ts : List (STree α)) (as bs : List (NS α C)) (i : Nat) (b' : NS α C),
    SimAList R ts as bs → (∀ t, ts[i]? = some t → absVis t.style) → SimAList R ts as (bs.set i b')
  | [], [], [], _, _, _, _ => by simp only [List.set_nil, SimAList]
  | [], [], _ :: _, _, _, h, _ => by simp only [SimAList] at h
  | [], _ :: _, _, _, _, h, _ => by simp only [SimAList] at h
  | _ :: _, [], _, _, _, h, _ => by simp only [SimAList] at h
  | _ :: _, _ :: _, [], _, _, h, _ => by simp only [SimAList] at h
  | t :: ts, a :: as, b :: bs, 0, b', h, h' => by
    simp only [SimAList] at h
    simp only [List.set_cons_zero, SimAList]
    exact ⟨fun hn => absurd (h' t (by simp)) hn, h.2⟩
  | t :: ts, a :: as, b :: bs, i + 1, b', h, h' => by
    simp only [SimAList] at h
    simp only [List.set_cons_succ, SimAList]
    refine ⟨h.1, SimAList_setR R ts as bs i b' h.2 ?_⟩
    intro t' ht'
    exact h' t' (by simpa using ht')

mutual
theorem SimA_hidden (ci : CacheImpl α C) (R : C → C → Prop) (hc : CacheRespects ci R) :
    ∀ (t : STree α) (a b : NS α C), SimA R t a b → SimA R t (hiddenLayout ci a) (hiddenLayout ci b)
  | .node s _ kids, .mk cA lA kA, .mk cB lB kB, h => by
    simp only [SimA] at h
    simp only [hiddenLayout, SimA]
    exact ⟨hc.clear _ _ h.1, LayEqv.refl _, SimAList_hidden ci R hc kids kA kB h.2.2⟩
theorem SimAList_hidden (ci : CacheImpl α C) (R : C → C → Prop) (hc : CacheRespects ci R) :
    ∀ (ts : List (STree α)) (as bs : List (NS α C)), SimAList R ts as bs →
      SimAList R ts (hiddenLayoutList ci as) (hiddenLayoutList ci bs)
  | [], [], [], _ => by simp only [hiddenLayoutList, SimAList]
  | [], [], _ :: _, h => by simp only [SimAList] at h
  | [], _ :: _, _, h => by simp only [SimAList] at h
  | _ :: _, [], _, h => by simp only [SimAList] at h
  | _ :: _, _ :: _, [], h => by simp only [SimAList] at h
  | t :: ts, a :: as, b :: bs, h => by
    simp only [SimAList] at h
    simp only [hiddenLayoutList, SimAList]
    exact ⟨fun hn => SimA_hidden ci R hc t a b (h.1 hn), SimAList_hidden ci R hc ts as bs h.2⟩
end

/-! ### one node -/

/-- the contract of the recursive call -/
def EvA (R : C → C → Prop) (ev : STree α → NS α C → LayoutInput α → LayoutOutput α × NS α C) : Prop :=
  ∀ tA tB a b cin, AbsRel tA tB → SimA R tA a b →
    OutEqv (ev tA a cin).1 (ev tB b cin).1 ∧ SimA R tA (ev tA a cin).2 (ev tB b cin).2

theorem absIdx_map (kids : List (STree α)) (i : Nat) (h : absIdx (kids.map STree.style) i) :
    ∀ t, kids[i]? = some t → absVis t.style := by
  intro t ht
  obtain ⟨x, hx, hv⟩ := h
  simp only [List.getElem?_map, ht, Option.map_some, Option.some.injEq] at hx
  rw [hx]; exact hv

/-- a call to a child on both sides -/
theorem evalChildOf_simA (R : C → C → Prop) (ev : STree α → NS α C → LayoutInput α → LayoutOutput α × NS α C)
    (hev : EvA R ev) (kA kB : List (STree α)) (hr : AbsRelList kA kB) (i : Nat) (cin : LayoutInput α)
    (ksA ksB : List (NS α C)) (hs : SimAList R kA ksA ksB) :
    (¬ absIdx (kA.map STree.style) i → OutEqv (evalChildOf ev kA i cin ksA).1 (evalChildOf ev kB i cin ksB).1) ∧
    SimAList R kA (evalChildOf ev kA i cin ksA).2 (evalChildOf ev kB i cin ksB).2 := by
  unfold evalChildOf
  rcases AbsRelList_get kA kB i hr with ⟨h1, h2⟩ | ⟨tA, tB, h1, h2, hrel⟩
  · rw [h1, h2]
    exact ⟨fun _ => OutEqv.refl _, hs⟩
  · rcases SimAList_get R kA ksA ksB i hs with ⟨g1, _, _⟩ | ⟨t, a, b, g1, g2, g3, hsim⟩
    · rw [h1] at g1; cases g1
    · rw [h1] at g1; cases g1
      rw [h1, h2, g2, g3]
      simp only
      rcases hrel with ⟨hv, _⟩ | ⟨hn, hrel⟩
      · refine ⟨fun hna => absurd ⟨tA.style, by simp [h1], hv⟩ hna, ?_⟩
        apply SimAList_set R kA ksA ksB i _ _ hs
        intro t' ht' hn
        rw [h1] at ht'; cases ht'
        exact absurd hv hn
      · obtain ⟨e1, e2⟩ := hev tA tB a b cin hrel (hsim hn)
        refine ⟨fun _ => e1, SimAList_set R kA ksA ksB i _ _ hs ?_⟩
        intro t' ht' _
        rw [h1] at ht'; cases ht'
        exact e2

/-- a call to an absolutely positioned child on the A side only -/
theorem evalChildOf_simL (R : C → C → Prop) (ev : STree α → NS α C → LayoutInput α → LayoutOutput α × NS α C)
    (kA : List (STree α)) (i : Nat) (cin : LayoutInput α) (hi : absIdx (kA.map STree.style) i)
    (ksA ksB : List (NS α C)) (hs : SimAList R kA ksA ksB) :
    SimAList R kA (evalChildOf ev kA i cin ksA).2 ksB := by
  unfold evalChildOf
  cases h1 : kA[i]? with
  | none => exact hs
  | some t =>
    cases h2 : ksA[i]? with
    | none => exact hs
    | some k => exact SimAList_setL R kA ksA ksB i _ hs (absIdx_map kA i hi)

/-- a call to an absolutely positioned child on the B side only (`kB` is B's child list; only the index matters) -/
theorem evalChildOf_simR (R : C → C → Prop) (ev : STree α → NS α C → LayoutInput α → LayoutOutput α × NS α C)
    (kA kB : List (STree α)) (i : Nat) (cin : LayoutInput α) (hi : absIdx (kA.map STree.style) i)
    (ksA ksB : List (NS α C)) (hs : SimAList R kA ksA ksB) :
    SimAList R kA ksA (evalChildOf ev kB i cin ksB).2 := by
  unfold evalChildOf
  cases h1 : kB[i]? with
  | none => exact hs
  | some t =>
    cases h2 : ksB[i]? with
    | none => exact hs
    | some k => exact SimAList_setR R kA ksA ksB i _ hs (absIdx_map kA i hi)

theorem setLayoutAt_simA (R : C → C → Prop) (ts : List (STree α)) (ksA ksB : List (NS α C)) (i : Nat)
    (lA lB : Layout α) (hl : LayEqv lA lB) (hs : SimAList R ts ksA ksB) :
    SimAList R ts (setLayoutAt ksA i lA) (setLayoutAt ksB i lB) := by
  unfold setLayoutAt
  rcases SimAList_get R ts ksA ksB i hs with ⟨_, g2, g3⟩ | ⟨t, a, b, g1, g2, g3, hsim⟩
  · rw [g2, g3]; exact hs
  · rw [g2, g3]
    cases a with
    | mk cA l1 kA =>
      cases b with
      | mk cB l2 kB =>
        simp only
        apply SimAList_set R ts ksA ksB i _ _ hs
        intro t' ht' hn
        rw [g1] at ht'; cases ht'
        have := hsim hn
        cases t with
        | node s ctx kids =>
          simp only [SimA] at this ⊢
          exact ⟨this.1, hl, this.2.2⟩

theorem setLayoutAt_simL (R : C → C → Prop) (ts : List (STree α)) (ksA ksB : List (NS α C)) (i : Nat) (l : Layout α)
    (hi : ∀ t, ts[i]? = some t → absVis t.style) (hs : SimAList R ts ksA ksB) :
    SimAList R ts (setLayoutAt ksA i l) ksB := by
  unfold setLayoutAt
  cases h : ksA[i]? with
  | none => exact hs
  | some k =>
    cases k with
    | mk c l0 kk => exact SimAList_setL R ts ksA ksB i _ hs hi

theorem setLayoutAt_simR (R : C → C → Prop) (ts : List (STree α)) (ksA ksB : List (NS α C)) (i : Nat) (l : Layout α)
    (hi : ∀ t, ts[i]? = some t → absVis t.style) (hs : SimAList R ts ksA ksB) :
    SimAList R ts ksA (setLayoutAt ksB i l) := by
  unfold setLayoutAt
  cases h : ksB[i]? with
  | none => exact hs
  | some k =>
    cases k with
    | mk c l0 kk => exact SimAList_setR R ts ksA ksB i _ hs hi

/-- **single-node version**: running equivalent programs against related children gives related results and
related children -/
theorem runProg_simA {β γ : Type} (R : C → C → Prop) (Q : β → γ → Prop)
    (ev : STree α → NS α C → LayoutInput α → LayoutOutput α × NS α C) (hev : EvA R ev)
    (kA kB : List (STree α)) (hr : AbsRelList kA kB) (p : ProgM α β) (q : ProgM α γ)
    (hpq : AbsEquiv (absIdx (kA.map STree.style)) Q p q) :
    ∀ ksA ksB, SimAList R kA ksA ksB →
      Q (runProg (evalChildOf ev kA) p ksA).1 (runProg (evalChildOf ev kB) q ksB).1 ∧
      SimAList R kA (runProg (evalChildOf ev kA) p ksA).2 (runProg (evalChildOf ev kB) q ksB).2 := by
  induction hpq with
  | pure a b hab => intro ksA ksB hs; exact ⟨hab, hs⟩
  | call i inp k1 k2 hi _ ih =>
    intro ksA ksB hs
    simp only [runProg]
    obtain ⟨e1, e2⟩ := evalChildOf_simA R ev hev kA kB hr i inp ksA ksB hs
    exact ih _ _ (e1 hi) _ _ e2
  | setLayout i lA lB k1 k2 hl _ ih =>
    intro ksA ksB hs
    simp only [runProg]
    exact ih _ _ (setLayoutAt_simA R kA ksA ksB i lA lB hl hs)
  | callL i inp k1 q hi _ ih =>
    intro ksA ksB hs
    simp only [runProg]
    exact ih _ _ _ (evalChildOf_simL R ev kA i inp hi ksA ksB hs)
  | callR i inp p k2 hi _ ih =>
    intro ksA ksB hs
    simp only [runProg]
    exact ih _ _ _ (evalChildOf_simR R ev kA kB i inp hi ksA ksB hs)
  | setL i l k1 q hi _ ih =>
    intro ksA ksB hs
    simp only [runProg]
    exact ih _ _ (setLayoutAt_simL R kA ksA ksB i l (absIdx_map kA i hi) hs)
  | setR i l p k2 hi _ ih =>
    intro ksA ksB hs
    simp only [runProg]
    exact ih _ _ (setLayoutAt_simR R kA ksA ksB i l (absIdx_map kA i hi) hs)

theorem runOn_simA (R : C → C → Prop) (ev : STree α → NS α C → LayoutInput α → LayoutOutput α × NS α C)
    (hev : EvA R ev) (s : Style α) (ctx : Option (MeasureSpec α)) (kA kB : List (STree α)) (hr : AbsRelList kA kB)
    (a b : NS α C) (p q : ProgM α (LayoutOutput α)) (hpq : AbsEquiv (absIdx (kA.map STree.style)) OutEqv p q)
    (hs : SimA R (.node s ctx kA) a b) :
    OutEqv (runOn (evalChildOf ev kA) a p).1 (runOn (evalChildOf ev kB) b q).1 ∧
    SimA R (.node s ctx kA) (runOn (evalChildOf ev kA) a p).2 (runOn (evalChildOf ev kB) b q).2 := by
  cases a with
  | mk cA lA ksA =>
    cases b with
    | mk cB lB ksB =>
      simp only [SimA] at hs
      obtain ⟨e1, e2⟩ := runProg_simA R OutEqv ev hev kA kB hr p q hpq ksA ksB hs.2.2
      simp only [runOn, SimA]
      exact ⟨e1, hs.1, hs.2.1, e2⟩

theorem storeOf_simA (ci : CacheImpl α C) (R : C → C → Prop) (hc : CacheRespects ci R) (inp : LayoutInput α)
    (t : STree α) (rA rB : LayoutOutput α × NS α C) (h1 : OutEqv rA.1 rB.1) (h2 : SimA R t rA.2 rB.2) :
    OutEqv (storeOf ci inp rA).1 (storeOf ci inp rB).1 ∧ SimA R t (storeOf ci inp rA).2 (storeOf ci inp rB).2 := by
  obtain ⟨oA, a⟩ := rA
  obtain ⟨oB, b⟩ := rB
  simp only at h1 h2
  cases a with
  | mk cA lA ksA =>
    cases b with
    | mk cB lB ksB =>
      rw [storeOf_mk, storeOf_mk]
      cases t with
      | node s ctx kids =>
        simp only [SimA] at h2 ⊢
        exact ⟨h1, hc.store _ _ inp _ _ h2.1 h1, h2.2.1, h2.2.2⟩

theorem SimA_cache (R : C → C → Prop) : ∀ (t : STree α) (a b : NS α C), SimA R t a b → R a.cache b.cache
  | .node _ _ _, .mk _ _ _, .mk _ _ _, h => by simp only [SimA] at h; exact h.1

theorem computeOf_simA (ci : CacheImpl α C) (R : C → C → Prop) (hc : CacheRespects ci R)
    (sel : Display → Bool → Option Gen.Facts.Callee) (algs : Algs α) (hb : AbsBlind algs)
    (ev : STree α → NS α C → LayoutInput α → LayoutOutput α × NS α C) (hev : EvA R ev)
    (sA sB : Style α) (cA cB : Option (MeasureSpec α)) (kA kB : List (STree α)) (a b : NS α C) (inp : LayoutInput α)
    (hr : AbsRel (.node sA cA kA) (.node sB cB kB)) (hs : SimA R (.node sA cA kA) a b) :
    OutEqv (computeOf ci sel algs ev sA cA kA a inp).1 (computeOf ci sel algs ev sB cB kB b inp).1 ∧
    SimA R (.node sA cA kA) (computeOf ci sel algs ev sA cA kA a inp).2 (computeOf ci sel algs ev sB cB kB b inp).2 := by
  simp only [AbsRel] at hr
  obtain ⟨hss, hcc, hkk⟩ := hr
  subst hss; subst hcc
  obtain ⟨hblock, hflex, hgrid⟩ := hb sA _ _ inp (AbsRelList_agree kA kB hkk)
  unfold computeOf
  rw [← AbsRelList_isEmpty kA kB hkk]
  cases sel sA.display (!kA.isEmpty) with
  | none => exact ⟨OutEqv.refl _, hs⟩
  | some c =>
    cases c with
    | hidden => exact ⟨OutEqv.refl _, SimA_hidden ci R hc _ a b hs⟩
    | leaf => exact ⟨OutEqv.refl _, hs⟩
    | block => exact runOn_simA R ev hev sA cA kA kB hkk a b _ _ hblock hs
    | flex => exact runOn_simA R ev hev sA cA kA kB hkk a b _ _ hflex hs
    | grid => exact runOn_simA R ev hev sA cA kA kB hkk a b _ _ hgrid hs

/-- **related trees and states are evaluated alike, up to `content_size`, at every fuel** -/
theorem eval_EvA (ci : CacheImpl α C) (R : C → C → Prop) (hc : CacheRespects ci R)
    (sel : Display → Bool → Option Gen.Facts.Callee) (algs : Algs α) (hb : AbsBlind algs) :
    ∀ fuel, EvA R (evalNodeWith ci sel algs fuel) := by
  intro fuel
  induction fuel with
  | zero =>
    intro tA tB a b cin _ hs
    rw [eval_zero, eval_zero]
    exact ⟨OutEqv.refl _, hs⟩
  | succ fuel ih =>
    intro tA tB a b cin hr hs
    cases tA with
    | node sA cA kA =>
      cases tB with
      | node sB cB kB =>
        rw [eval_succ, eval_succ]
        split
        · exact ⟨OutEqv.refl _, SimA_hidden ci R hc _ a b hs⟩
        · have hg := hc.get _ _ cin (SimA_cache R _ a b hs)
          cases hA : ci.get a.cache cin with
          | some oA =>
            cases hB : ci.get b.cache cin with
            | some oB =>
              rw [hA, hB] at hg
              exact ⟨hg, hs⟩
            | none => rw [hA, hB] at hg; exact hg.elim
          | none =>
            cases hB : ci.get b.cache cin with
            | some oB => rw [hA, hB] at hg; exact hg.elim
            | none =>
              simp only
              obtain ⟨e1, e2⟩ := computeOf_simA ci R hc sel algs hb _ ih sA sB cA cB kA kB a b cin hr hs
              exact storeOf_simA ci R hc cin _ _ _ e1 e2

/-! ### fresh state -/

mutual
theorem init_simA (ci : CacheImpl α C) (R : C → C → Prop) (hc : CacheRespects ci R) :
    ∀ (tA tB : STree α), AbsRel tA tB → SimA R tA (NS.init ci tA) (NS.init ci tB)
  | .node sA cA kA, .node sB cB kB, h => by
    simp only [AbsRel] at h
    simp only [NS.init, SimA]
    exact ⟨hc.empty, LayEqv.refl _, initList_simA ci R hc kA kB h.2.2⟩
theorem initList_simA (ci : CacheImpl α C) (R : C → C → Prop) (hc : CacheRespects ci R) :
    ∀ (kA kB : List (STree α)), AbsRelList kA kB → SimAList R kA (NS.initList ci kA) (NS.initList ci kB)
  | [], [], _ => by simp only [NS.initList, SimAList]
  | [], _ :: _, h => by simp only [AbsRelList] at h
  | _ :: _, [], h => by simp only [AbsRelList] at h
  | a :: as, b :: bs, h => by
    simp only [AbsRelList] at h
    simp only [NS.initList, SimAList]
    refine ⟨fun hn => ?_, initList_simA ci R hc as bs h.2⟩
    rcases h.1 with h1 | h1
    · exact absurd h1.1 hn
    · exact init_simA ci R hc a b h1.2
end

/-! ### reading the relation at a path -/

/-- the per-node state at a path (child indices from the root) -/
def nsAt : NS α C → List Nat → Option (NS α C)
  | ns, [] => some ns
  | .mk _ _ kids, i :: p =>
    match kids[i]? with
    | some k => nsAt k p
    | none => none

/-- no node on the path below the root, the node at `p` included, is an absolutely positioned box -/
def OutsideAbs : STree α → List Nat → Prop
  | _, [] => True
  | .node _ _ kids, i :: p =>
    match kids[i]? with
    | some c => ¬ absVis c.style ∧ OutsideAbs c p
    | none => True

theorem SimA_at (R : C → C → Prop) : ∀ (p : List Nat) (t : STree α) (a b : NS α C), SimA R t a b → OutsideAbs t p →
    OptRel (fun x y => LayEqv x.layout y.layout ∧ R x.cache y.cache) (nsAt a p) (nsAt b p)
  | [], .node _ _ _, .mk _ _ _, .mk _ _ _, hs, _ => by
    simp only [SimA] at hs
    simp only [nsAt, OptRel, NS.layout, NS.cache]
    exact ⟨hs.2.1, hs.1⟩
  | i :: p, .node s _ kids, .mk _ _ ka, .mk _ _ kb, hs, hv => by
    simp only [SimA] at hs
    simp only [OutsideAbs] at hv
    simp only [nsAt]
    rcases SimAList_get R kids ka kb i hs.2.2 with ⟨_, g2, g3⟩ | ⟨t, a', b', g1, g2, g3, hsim⟩
    · rw [g2, g3]; trivial
    · rw [g2, g3]
      rw [g1] at hv
      exact SimA_at R p t a' b' (hsim hv.1) hv.2

/-! ### composing equivalences (for whoever discharges `AbsBlind`) -/

theorem AbsEquiv.bind {β γ β' γ' : Type} {abs : Nat → Prop} {Q : β → γ → Prop} {Q' : β' → γ' → Prop}
    {p : ProgM α β} {q : ProgM α γ} (h : AbsEquiv abs Q p q)
    {f : β → ProgM α β'} {g : γ → ProgM α γ'} (hfg : ∀ a b, Q a b → AbsEquiv abs Q' (f a) (g b)) :
    AbsEquiv abs Q' (ProgM.bind p f) (ProgM.bind q g) := by
  induction h with
  | pure a b hab => exact hfg a b hab
  | call i inp k1 k2 hi _ ih => exact .call i inp _ _ hi (fun oA oB ho => ih oA oB ho)
  | setLayout i lA lB k1 k2 hl _ ih => exact .setLayout i lA lB _ _ hl ih
  | callL i inp k1 q hi _ ih =>
    simp only [ProgM.bind]
    exact .callL i inp _ _ hi (fun o => ih o)
  | callR i inp p k2 hi _ ih =>
    simp only [ProgM.bind]
    exact .callR i inp _ _ hi (fun o => ih o)
  | setL i l k1 q hi _ ih =>
    simp only [ProgM.bind]
    exact .setL i l _ _ hi ih
  | setR i l p k2 hi _ ih =>
    simp only [ProgM.bind]
    exact .setR i l _ _ hi ih

/-- weakening the result relation -/
theorem AbsEquiv.mono {β γ : Type} {abs : Nat → Prop} {Q Q' : β → γ → Prop}
    {p : ProgM α β} {q : ProgM α γ} (h : AbsEquiv abs Q p q) (hq : ∀ a b, Q a b → Q' a b) :
    AbsEquiv abs Q' p q := by
  induction h with
  | pure a b hab => exact .pure a b (hq a b hab)
  | call i inp k1 k2 hi _ ih => exact .call i inp _ _ hi ih
  | setLayout i lA lB k1 k2 hl _ ih => exact .setLayout i lA lB _ _ hl ih
  | callL i inp k1 q hi _ ih => exact .callL i inp _ _ hi ih
  | callR i inp p k2 hi _ ih => exact .callR i inp _ _ hi ih
  | setL i l k1 q hi _ ih => exact .setL i l _ _ hi ih
  | setR i l p k2 hi _ ih => exact .setR i l _ _ hi ih

/-! ### the cache implementations respect a relation -/

/-- no cache: nothing to relate -/
theorem noCache_respects : CacheRespects (noCache : CacheImpl α Unit) (fun _ _ => True) where
  empty := trivial
  get := fun _ _ _ _ => trivial
  store := fun _ _ _ _ _ _ _ => trivial
  clear := fun _ _ _ => trivial

open CacheModel in
/-- two real caches equal up to `content_size` inside the final-layout entry -/
def RealRel (a b : Cache α) : Prop :=
  a.measureEntries = b.measureEntries ∧ a.isEmptyFlag = b.isEmptyFlag ∧
  OptRel (fun x y => x.knownDimensions = y.knownDimensions ∧ x.availableSpace = y.availableSpace ∧
    OutEqv x.content y.content) a.finalLayoutEntry b.finalLayoutEntry

open CacheModel in
theorem realCache_get (a b : Cache α) (inp : LayoutInput α) (h : RealRel a b) :
    OptRel OutEqv ((realCache : CacheImpl α (Cache α)).get a inp) ((realCache : CacheImpl α (Cache α)).get b inp) := by
  obtain ⟨h1, h2, h3⟩ := h
  simp only [realCache, Cache.get]
  cases inp.runMode with
  | performLayout =>
    simp only
    cases hA : a.finalLayoutEntry with
    | none =>
      cases hB : b.finalLayoutEntry with
      | none => trivial
      | some eB => rw [hA, hB] at h3; exact h3.elim
    | some eA =>
      cases hB : b.finalLayoutEntry with
      | none => rw [hA, hB] at h3; exact h3.elim
      | some eB =>
        rw [hA, hB] at h3
        simp only [OptRel] at h3
        simp only
        rw [h3.1, h3.2.1, h3.2.2.1]
        split
        · exact h3.2.2
        · trivial
  | computeSize =>
    simp only
    rw [h1]
    split
    · exact OutEqv.refl _
    · trivial
  | performHiddenLayout => trivial

open CacheModel in
/-- the real nine-slot cache respects "equal up to `content_size`" -/
theorem realCache_respects : CacheRespects (realCache : CacheImpl α (Cache α)) RealRel where
  empty := ⟨rfl, rfl, trivial⟩
  get := realCache_get
  store := by
    intro a b inp oA oB h ho
    obtain ⟨h1, h2, h3⟩ := h
    simp only [realCache, Cache.store]
    cases inp.runMode with
    | performLayout => exact ⟨h1, rfl, rfl, rfl, ho⟩
    | computeSize => exact ⟨by simp only [h1, ho.1], rfl, h3⟩
    | performHiddenLayout => exact ⟨h1, h2, h3⟩
  clear := by
    intro a b h
    obtain ⟨h1, h2, h3⟩ := h
    simp only [realCache, Cache.clear]
    rw [h2]
    split
    · exact ⟨h1, h2, h3⟩
    · exact ⟨rfl, rfl, trivial⟩

/-- two exact memos with the same keys in the same order and outputs equal up to `content_size` -/
def MemoRel : List (LayoutInput α × LayoutOutput α) → List (LayoutInput α × LayoutOutput α) → Prop
  | [], [] => True
  | x :: xs, y :: ys => x.1 = y.1 ∧ OutEqv x.2 y.2 ∧ MemoRel xs ys
  | _, _ => False

theorem exactMemo_get [DecidableEq α] : ∀ (a b : List (LayoutInput α × LayoutOutput α)) (inp : LayoutInput α),
    MemoRel a b → OptRel OutEqv ((exactMemo : CacheImpl α _).get a inp) ((exactMemo : CacheImpl α _).get b inp)
  | [], [], _, _ => trivial
  | [], _ :: _, _, h => by simp only [MemoRel] at h
  | _ :: _, [], _, h => by simp only [MemoRel] at h
  | x :: xs, y :: ys, inp, h => by
    simp only [MemoRel] at h
    have ih := exactMemo_get xs ys inp h.2.2
    simp only [exactMemo, List.find?_cons] at ih ⊢
    rw [← h.1]
    by_cases hx : x.1 = inp
    · simp only [hx, decide_true, Option.map_some, OptRel]
      exact h.2.1
    · simp only [hx, decide_false]
      exact ih

/-- the exact memo respects "equal up to `content_size`" -/
theorem exactMemo_respects [DecidableEq α] : CacheRespects (exactMemo : CacheImpl α _) MemoRel where
  empty := trivial
  get := exactMemo_get
  store := by
    intro a b inp oA oB h ho
    simp only [exactMemo]
    split
    · exact h
    · exact ⟨rfl, ho, h⟩
  clear := fun _ _ _ => trivial

/-! ### reflexivity of the tree relation, and replacing one absolutely positioned child -/

mutual
theorem AbsRel_refl : ∀ t : STree α, AbsRel t t
  | .node s c kids => by
    simp only [AbsRel, true_and]
    exact AbsRelList_refl kids
theorem AbsRelList_refl : ∀ ts : List (STree α), AbsRelList ts ts
  | [] => trivial
  | t :: ts => by
    simp only [AbsRelList]
    refine ⟨?_, AbsRelList_refl ts⟩
    by_cases h : absVis t.style
    · exact Or.inl ⟨h, h⟩
    · exact Or.inr ⟨h, AbsRel_refl t⟩
end

theorem AbsRelList_set : ∀ (ks : List (STree α)) (i : Nat) (k k' : STree α), ks[i]? = some k →
    ((absVis k.style ∧ absVis k'.style) ∨ (¬ absVis k.style ∧ AbsRel k k')) → AbsRelList ks (ks.set i k')
  | [], _, _, _, h, _ => by simp at h
  | a :: as, 0, k, k', h, hr => by
    simp only [List.getElem?_cons_zero, Option.some.injEq] at h
    subst h
    exact ⟨hr, AbsRelList_refl as⟩
  | a :: as, i + 1, k, k', h, hr => by
    simp only [List.getElem?_cons_succ] at h
    exact ⟨(AbsRelList_refl (a :: as)).1, AbsRelList_set as i k k' h hr⟩

/-- replacing the absolutely positioned box at a non-root path by any other absolutely positioned box (style,
content and subtree arbitrary) gives a related tree -/
theorem AbsRel_replaceAt : ∀ (p : List Nat) (t h r : STree α), p ≠ [] → treeAt t p = some h → absVis h.style →
    absVis r.style → AbsRel t (replaceAt t p r)
  | [], _, _, _, hp, _, _, _ => absurd rfl hp
  | i :: q, .node s c kids, h, r, _, ht, hd, hr => by
    simp only [treeAt] at ht
    simp only [replaceAt]
    cases hk : kids[i]? with
    | none => rw [hk] at ht; cases ht
    | some k =>
      rw [hk] at ht
      simp only [AbsRel, true_and]
      apply AbsRelList_set kids i k _ hk
      cases q with
      | nil =>
        simp only [treeAt, Option.some.injEq] at ht
        subst ht
        exact Or.inl ⟨hd, hr⟩
      | cons j q' =>
        by_cases hv : absVis k.style
        · exact Or.inl ⟨hv, by rw [replaceAt_style]; exact hv⟩
        · exact Or.inr ⟨hv, AbsRel_replaceAt (j :: q') k h r (by simp) ht hd hr⟩

/-- `AgreeA` spelled out by index -/
theorem AgreeA_iff : ∀ (xs ys : List (Style α)), AgreeA xs ys ↔
    (xs.length = ys.length ∧
     ∀ (i : Nat) (x y : Style α), xs[i]? = some x → ys[i]? = some y →
       ((absVis x ∧ absVis y) ∨ (¬ absVis x ∧ x = y)))
  | [], [] => by simp [AgreeA]
  | [], _ :: _ => by simp [AgreeA]
  | _ :: _, [] => by simp [AgreeA]
  | a :: as, b :: bs => by
    have ih := AgreeA_iff as bs
    simp only [AgreeA, List.length_cons, Nat.add_right_cancel_iff]
    constructor
    · intro h
      obtain ⟨hl, hi⟩ := ih.1 h.2
      refine ⟨hl, fun i x y hx hy => ?_⟩
      cases i with
      | zero =>
        simp only [List.getElem?_cons_zero, Option.some.injEq] at hx hy
        subst hx; subst hy
        exact h.1
      | succ i =>
        simp only [List.getElem?_cons_succ] at hx hy
        exact hi i x y hx hy
    · intro h
      refine ⟨h.2 0 a b (by simp) (by simp), ih.2 ⟨h.1, fun i x y hx hy => h.2 (i + 1) x y ?_ ?_⟩⟩
      · simpa using hx
      · simpa using hy

end C06
