/-
  Lemmas for C14Sim: the abstraction relation `Sim t f` between a `TaffyTree` model state (three slot maps) and a
  reference forest (`Model/Forest.lean`: live ids + child lists), the bridge between the decidable spec-side
  precondition `specPre` and the implementation-side `C14.Pre`, and the one-step simulation `step_sim`.
  No Mathlib.
-/
import TaffyVerif.Props.C14

namespace C14Sim
open SlotMapModel TreeModel ForestSpec

/-- `f` is the forest the tree state `t` denotes: the same live ids (listed once each, in any order — the slot
    order of the implementation is not part of the specification) and the same child lists. -/
structure Sim (t : Tree) (f : Forest) : Prop where
  nodup : f.live.Nodup
  live : ∀ k, k ∈ f.live ↔ t.live k
  kids : ∀ k, f.kids k = (t.children.get k).getD []

/-- equality of forests up to the order in which the live ids are listed -/
structure FEquiv (f g : Forest) : Prop where
  live : f.live.Perm g.live
  kids : ∀ k, f.kids k = g.kids k

/-- the abstraction *function* `C14.abs` (live ids in slot order) is a witness of the relation -/
theorem sim_abs (t : Tree) : Sim t (C14.abs t) :=
  ⟨keys_nodup _, fun k => mem_keys _ k, fun _ => rfl⟩

variable {t : Tree} {f : Forest}

theorem Sim.perm (s : Sim t f) : f.live.Perm t.nodes.keys :=
  (List.perm_ext_iff_of_nodup s.nodup (keys_nodup _)).mpr (fun k => by rw [s.live, mem_keys]; rfl)

/-- `Sim t f` says exactly that `f` is `abs t` up to the order of the live list -/
theorem sim_iff_equiv_abs : Sim t f ↔ FEquiv f (C14.abs t) := by
  constructor
  · intro s; exact ⟨s.perm, s.kids⟩
  · intro e
    refine ⟨e.live.nodup_iff.mpr (keys_nodup _), fun k => ?_, e.kids⟩
    rw [e.live.mem_iff]; exact mem_keys _ k

theorem Sim.kids_get (s : Sim t f) {p : Id} {l : List Id} (h : t.children.get p = some l) : f.kids p = l := by
  rw [s.kids, h]; rfl

theorem Sim.isLive (s : Sim t f) (k : Id) : f.isLive k = true ↔ t.live k := by
  simp only [Forest.isLive, decide_eq_true_eq]; exact s.live k

theorem Sim.length (inv : Inv t) (s : Sim t f) : f.live.length = t.nodes.len := by
  rw [inv.wfN.len_eq]; exact s.perm.length_eq

theorem Sim.not_live_of_none (s : Sim t f) {k : Id} (hk : t.nodes.get k = none) : k ∉ f.live := by
  intro h
  have := (s.live k).mp h
  rw [Tree.live, hk] at this
  cases this

theorem Sim.mem_kids (s : Sim t f) (c q : Id) : c ∈ f.kids q ↔ ∃ l, t.children.get q = some l ∧ c ∈ l := by
  rw [s.kids]
  cases hq : t.children.get q with
  | none => simp
  | some l => simp

/-- the spec's derived `parentOf` is the implementation's parent pointer -/
theorem Sim.parentOf (inv : Inv t) (s : Sim t f) {c : Id} {o : Option Id} (ho : t.parents.get c = some o) :
    f.parentOf c = o := by
  unfold Forest.parentOf
  cases o with
  | none =>
    rw [List.find?_eq_none]
    intro q _ hq0
    obtain ⟨l, hl, hcl⟩ := (s.mem_kids c q).mp (of_decide_eq_true hq0)
    have := inv.par_of_mem hl hcl
    rw [ho] at this; cases this
  | some q0 =>
    obtain ⟨lq, hlq, hpl⟩ := (inv.parIff c q0).mp ho
    apply find?_unique
    · exact (s.live q0).mpr (inv.live_of_kids hlq)
    · exact decide_eq_true ((s.mem_kids c q0).mpr ⟨lq, hlq, hpl⟩)
    · intro q _ hq0
      obtain ⟨l, hl, hcl⟩ := (s.mem_kids c q).mp (of_decide_eq_true hq0)
      exact inv.unique_parent hl hcl hlq hpl

/-- the spec's `detached` is "live with parent pointer `None`" -/
theorem Sim.detached_iff (inv : Inv t) (s : Sim t f) {c : Id} (hc : t.live c) :
    f.detached c = true ↔ t.parents.get c = some none := by
  obtain ⟨o, ho⟩ := inv.par_of_live hc
  simp only [Forest.detached, List.all_eq_true, decide_eq_true_eq]
  constructor
  · intro h
    cases o with
    | none => exact ho
    | some p =>
      obtain ⟨l, hl, hcl⟩ := (inv.parIff c p).mp ho
      exact absurd ((s.mem_kids c p).mpr ⟨l, hl, hcl⟩) (h p ((s.live p).mpr (inv.live_of_kids hl)))
  · intro h p _ hcp
    obtain ⟨l, hl, hcl⟩ := (s.mem_kids c p).mp hcp
    exact inv.not_mem_of_detached hl h hcl

/-! ### the precondition: decidable spec-side form ⇔ implementation-side form -/

def creates : Op → Bool
  | .newLeaf | .newLeafWithContext _ | .newWithChildren _ => true
  | _ => false

/-- capacity side condition (not a property of the forest): the slot map is not full; only creating operations read it -/
def Cap (t : Tree) (op : Op) : Prop := creates op = true → t.nodes.slots.length < u32Max

theorem pre_of_specPre (inv : Inv t) (s : Sim t f) (op : Op) (h : specPre f op = true) (cap : Cap t op) :
    C14.Pre t op := by
  cases op with
  | newLeaf => exact cap rfl
  | newLeafWithContext x => exact cap rfl
  | newWithChildren cs =>
    simp only [specPre, Bool.and_eq_true, List.all_eq_true, decide_eq_true_eq] at h
    refine ⟨cap rfl, h.2, fun c hc => ?_⟩
    obtain ⟨h1, h2⟩ := h.1 c hc
    exact (s.detached_iff inv ((s.isLive c).mp h1)).mp h2
  | clear => trivial
  | totalNodeCount => trivial
  | getNodeContext n => trivial
  | remove n => exact (s.isLive n).mp h
  | setNodeContext n x => exact (s.isLive n).mp h
  | parent n => exact (s.isLive n).mp h
  | childCount n => exact (s.isLive n).mp h
  | children n => exact (s.isLive n).mp h
  | childAtIndex n i => exact (s.isLive n).mp h
  | removeChildAtIndex n i => exact (s.isLive n).mp h
  | addChild p c =>
    simp only [specPre, Bool.and_eq_true] at h
    exact ⟨(s.isLive p).mp h.1.1, (s.detached_iff inv ((s.isLive c).mp h.1.2)).mp h.2⟩
  | insertChildAtIndex p i c =>
    simp only [specPre, Bool.and_eq_true] at h
    exact ⟨(s.isLive p).mp h.1.1, (s.detached_iff inv ((s.isLive c).mp h.1.2)).mp h.2⟩
  | replaceChildAtIndex p i c =>
    simp only [specPre, Bool.and_eq_true] at h
    exact ⟨(s.isLive p).mp h.1.1, (s.detached_iff inv ((s.isLive c).mp h.1.2)).mp h.2⟩
  | setChildren p cs =>
    simp only [specPre, Bool.and_eq_true, List.all_eq_true, decide_eq_true_eq] at h
    exact ⟨(s.isLive p).mp h.1.1, h.2, fun c hc => (s.isLive c).mp (h.1.2 c hc)⟩
  | removeChild p c =>
    simp only [specPre, Bool.and_eq_true, decide_eq_true_eq] at h
    exact (s.mem_kids c p).mp h.2
  | removeChildrenRange p a b =>
    simp only [specPre, Bool.and_eq_true, decide_eq_true_eq] at h
    obtain ⟨l, hl⟩ := inv.kids_of_live ((s.isLive p).mp h.1.1)
    exact ⟨l, hl, h.1.2, by rw [← s.kids_get hl]; exact h.2⟩

theorem specPre_of_pre (inv : Inv t) (s : Sim t f) (op : Op) (pre : C14.Pre t op) :
    specPre f op = true ∧ Cap t op := by
  cases op with
  | newLeaf => exact ⟨rfl, fun _ => pre⟩
  | newLeafWithContext x => exact ⟨rfl, fun _ => pre⟩
  | newWithChildren cs =>
    obtain ⟨h1, h2, h3⟩ := pre
    refine ⟨?_, fun _ => h1⟩
    simp only [specPre, Bool.and_eq_true, List.all_eq_true, decide_eq_true_eq]
    refine ⟨fun c hc => ?_, h2⟩
    have hl := inv.live_of_par (h3 c hc)
    exact ⟨(s.isLive c).mpr hl, (s.detached_iff inv hl).mpr (h3 c hc)⟩
  | clear => exact ⟨rfl, fun h => by cases h⟩
  | totalNodeCount => exact ⟨rfl, fun h => by cases h⟩
  | getNodeContext n => exact ⟨rfl, fun h => by cases h⟩
  | remove n => exact ⟨(s.isLive n).mpr pre, fun h => by cases h⟩
  | setNodeContext n x => exact ⟨(s.isLive n).mpr pre, fun h => by cases h⟩
  | parent n => exact ⟨(s.isLive n).mpr pre, fun h => by cases h⟩
  | childCount n => exact ⟨(s.isLive n).mpr pre, fun h => by cases h⟩
  | children n => exact ⟨(s.isLive n).mpr pre, fun h => by cases h⟩
  | childAtIndex n i => exact ⟨(s.isLive n).mpr pre, fun h => by cases h⟩
  | removeChildAtIndex n i => exact ⟨(s.isLive n).mpr pre, fun h => by cases h⟩
  | addChild p c =>
    obtain ⟨h1, h2⟩ := pre
    have hl := inv.live_of_par h2
    refine ⟨?_, fun h => by cases h⟩
    simp only [specPre, Bool.and_eq_true]
    exact ⟨⟨(s.isLive p).mpr h1, (s.isLive c).mpr hl⟩, (s.detached_iff inv hl).mpr h2⟩
  | insertChildAtIndex p i c =>
    obtain ⟨h1, h2⟩ := pre
    have hl := inv.live_of_par h2
    refine ⟨?_, fun h => by cases h⟩
    simp only [specPre, Bool.and_eq_true]
    exact ⟨⟨(s.isLive p).mpr h1, (s.isLive c).mpr hl⟩, (s.detached_iff inv hl).mpr h2⟩
  | replaceChildAtIndex p i c =>
    obtain ⟨h1, h2⟩ := pre
    have hl := inv.live_of_par h2
    refine ⟨?_, fun h => by cases h⟩
    simp only [specPre, Bool.and_eq_true]
    exact ⟨⟨(s.isLive p).mpr h1, (s.isLive c).mpr hl⟩, (s.detached_iff inv hl).mpr h2⟩
  | setChildren p cs =>
    obtain ⟨h1, h2, h3⟩ := pre
    refine ⟨?_, fun h => by cases h⟩
    simp only [specPre, Bool.and_eq_true, List.all_eq_true, decide_eq_true_eq]
    exact ⟨⟨(s.isLive p).mpr h1, fun c hc => (s.isLive c).mpr (h3 c hc)⟩, h2⟩
  | removeChild p c =>
    obtain ⟨l, hl, hc⟩ := pre
    refine ⟨?_, fun h => by cases h⟩
    simp only [specPre, Bool.and_eq_true, decide_eq_true_eq]
    exact ⟨(s.isLive p).mpr (inv.live_of_kids hl), (s.mem_kids c p).mpr ⟨l, hl, hc⟩⟩
  | removeChildrenRange p a b =>
    obtain ⟨l, hl, hab, hb⟩ := pre
    refine ⟨?_, fun h => by cases h⟩
    simp only [specPre, Bool.and_eq_true, decide_eq_true_eq]
    exact ⟨⟨(s.isLive p).mpr (inv.live_of_kids hl), hab⟩, by rw [s.kids_get hl]; exact hb⟩

/-! ### how `Sim` moves along the four kinds of state change -/

/-- nothing structural changes (observers, `set_node_context`) -/
theorem sim_same (s : Sim t f) {t' : Tree} (hN : ∀ k, (t'.nodes.get k).isSome = (t.nodes.get k).isSome)
    (hC : t'.children = t.children) : Sim t' f :=
  ⟨s.nodup, fun k => by rw [s.live]; unfold Tree.live; rw [hN], fun k => by rw [hC]; exact s.kids k⟩

/-- one child list is rewritten (add / insert / remove_child(_at_index) / remove_children_range / replace) -/
theorem sim_relist (s : Sim t f) {p : Id} {l : List Id} (hl : t.children.get p = some l) (l' : List Id)
    (pm : SlotMap (Option Id)) :
    Sim { t with children := t.children.set p l', parents := pm } (f.setKids p l') := by
  refine ⟨s.nodup, s.live, fun k => ?_⟩
  show (if k = p then l' else f.kids k) = ((t.children.set p l').get k).getD []
  rw [get_set_live (by rw [hl]; rfl)]
  split
  · rfl
  · exact s.kids k

/-- a node is created -/
theorem sim_create (s : Sim t f) {t' : Tree} {k : Id} {cs : List Id} {d : NodeData} (hk : t.nodes.get k = none)
    (gN : ∀ x, t'.nodes.get x = if x = k then some d else t.nodes.get x)
    (gC : ∀ x, t'.children.get x = if x = k then some cs else t.children.get x) :
    Sim t' { live := f.live ++ [k], kids := fun q => if q = k then cs else f.kids q } := by
  have hkl := s.not_live_of_none hk
  refine ⟨?_, fun x => ?_, fun x => ?_⟩
  · show (f.live ++ [k]).Nodup
    rw [List.nodup_append]
    refine ⟨s.nodup, by simp, fun a ha b hb => ?_⟩
    rw [List.mem_singleton] at hb
    subst hb
    intro e; subst e; exact hkl ha
  · show x ∈ f.live ++ [k] ↔ (t'.nodes.get x).isSome = true
    rw [gN, List.mem_append, List.mem_singleton]
    by_cases e : x = k
    · simp [e]
    · simp only [e, or_false, if_false]; exact s.live x
  · show (if x = k then cs else f.kids x) = (t'.children.get x).getD []
    rw [gC]
    split
    · rfl
    · exact s.kids x

/-- a node is removed -/
theorem sim_remove (s : Sim t f) {t' : Tree} {n : Id}
    (gN : ∀ x, t'.nodes.get x = if x = n then none else t.nodes.get x)
    (gC : ∀ x, t'.children.get x =
      if x = n then none else (t.children.get x).map (fun l => l.filter (fun f => f ≠ n))) :
    Sim t' { live := f.live.filter (fun q => q ≠ n),
             kids := fun q => if q = n then [] else (f.kids q).filter (fun c => c ≠ n) } := by
  refine ⟨List.filter_sublist.nodup s.nodup, fun x => ?_, fun x => ?_⟩
  · show x ∈ f.live.filter (fun q => q ≠ n) ↔ (t'.nodes.get x).isSome = true
    rw [gN, List.mem_filter]
    by_cases e : x = n
    · simp [e]
    · simp only [e, ne_eq, not_false_eq_true, decide_true, and_true, if_false]; exact s.live x
  · show (if x = n then [] else (f.kids x).filter (fun c => c ≠ n)) = (t'.children.get x).getD []
    rw [gC]
    split
    · rfl
    · rw [s.kids]
      cases t.children.get x <;> rfl

/-- `set_children` -/
theorem sim_setChildren (s : Sim t f) {t' : Tree} {p : Id} {cs : List Id} (hN : t'.nodes = t.nodes)
    (gC : ∀ q, t'.children.get q =
      if q = p then some cs else (t.children.get q).map (fun l => l.filter (fun x => decide (x ∉ cs)))) :
    Sim t' { f with kids := fun q => if q = p then cs else (f.kids q).filter (fun c => decide (c ∉ cs)) } := by
  refine ⟨s.nodup, fun k => by rw [s.live]; unfold Tree.live; rw [hN], fun x => ?_⟩
  show (if x = p then cs else (f.kids x).filter (fun c => decide (c ∉ cs))) = (t'.children.get x).getD []
  rw [gC]
  split
  · rfl
  · rw [s.kids]
    cases t.children.get x <;> rfl

theorem sim_clear (inv : Inv t) : Sim (clear t).1 Forest.empty := by
  obtain ⟨_, g, _⟩ := clear_spec inv.wfN
  obtain ⟨_, gc, _⟩ := clear_spec inv.wfC
  refine ⟨List.nodup_nil, fun k => ?_, fun k => ?_⟩
  · show k ∈ ([] : List Id) ↔ (t.nodes.clear.get k).isSome = true
    rw [g]; simp
  · show ([] : List Id) = (t.children.clear.get k).getD []
    rw [gc]; rfl

/-! ### one step -/

/-- the id a creating operation answered (`specStep` reads its `newId` argument only for the three creating
    operations; for every other operation the value is irrelevant) -/
def newIdOf : Out → Id
  | .ok (.id k) => k
  | _ => ⟨0, 0⟩

theorem getElem?_none_ge {α : Type} {l : List α} {i : Nat} (h : l[i]? = none) : i ≥ l.length := by
  rcases Nat.lt_or_ge i l.length with h' | h'
  · rw [List.getElem?_eq_getElem h'] at h; cases h
  · exact h'

/-- **One-step simulation.** From related states, an operation that meets the spec's precondition (and finds the slot
    map not full) leads to related states, both sides give the same answer (`get_node_context` excepted: contexts are
    not part of the structural spec), and the id a creating operation hands out is not live in the spec state — the
    one constraint the spec puts on a new id. -/
theorem step_sim (inv : Inv t) (s : Sim t f) (op : Op) (hpre : specPre f op = true) (cap : Cap t op) :
    Sim (step t op).1 (specStep f (newIdOf (step t op).2) op).1 ∧
    ((∀ n, op ≠ .getNodeContext n) → (step t op).2 = (specStep f (newIdOf (step t op).2) op).2) ∧
    (creates op = true → (step t op).2 = .ok (.id (newIdOf (step t op).2)) ∧ newIdOf (step t op).2 ∉ f.live) := by
  have pre := pre_of_specPre inv s op hpre cap
  cases op with
  | newLeaf =>
    obtain ⟨t', k, h, _, hk, _, gN, gC, _⟩ := newLeaf_ok inv pre
    simp only [step, h, newIdOf, specStep]
    exact ⟨sim_create s hk gN gC, fun _ => by trivial, fun _ => ⟨by trivial, s.not_live_of_none hk⟩⟩
  | newLeafWithContext x =>
    obtain ⟨t', k, h, _, hk, _, gN, gC, _⟩ := newLeafWithContext_ok inv pre x
    simp only [step, h, newIdOf, specStep]
    exact ⟨sim_create s hk gN gC, fun _ => by trivial, fun _ => ⟨by trivial, s.not_live_of_none hk⟩⟩
  | newWithChildren cs =>
    obtain ⟨t', k, h, _, hk, _, gN, gC, _⟩ := newWithChildren_ok inv pre.1 pre.2.1 pre.2.2
    simp only [step, h, newIdOf, specStep]
    exact ⟨sim_create s hk gN gC, fun _ => by trivial, fun _ => ⟨by trivial, s.not_live_of_none hk⟩⟩
  | clear =>
    simp only [step, specStep]
    exact ⟨sim_clear inv, fun _ => by trivial, fun h => by cases h⟩
  | remove n =>
    obtain ⟨t', h, _, gN, gC, _⟩ := remove_ok inv pre
    simp only [step, h, specStep]
    exact ⟨sim_remove s gN gC, fun _ => by trivial, fun h => by cases h⟩
  | setNodeContext n x =>
    obtain ⟨h, _, hC, _, hN⟩ := setNodeContext_ok inv pre x
    simp only [step, specStep]
    exact ⟨sim_same s hN hC, fun _ => h, fun h => by cases h⟩
  | getNodeContext n =>
    simp only [step, getNodeContext, specStep]
    exact ⟨s, fun h => absurd rfl (h n), fun h => by cases h⟩
  | addChild p c =>
    obtain ⟨l, hl⟩ := inv.kids_of_live pre.1
    simp only [step, addChild_run inv hl pre.2, specStep, s.kids_get hl]
    exact ⟨sim_relist s hl _ _, fun _ => by trivial, fun h => by cases h⟩
  | insertChildAtIndex p i c =>
    obtain ⟨l, hl⟩ := inv.kids_of_live pre.1
    by_cases hi : i ≤ l.length
    · have hi' : ¬ i > l.length := by omega
      simp only [step, insertChild_run inv hl pre.2 hi, specStep, s.kids_get hl, hi', if_false]
      exact ⟨sim_relist s hl _ _, fun _ => by trivial, fun h => by cases h⟩
    · have hi' : i > l.length := by omega
      simp only [step, insertChild_err (c := c) hl hi', specStep, s.kids_get hl, hi', if_true]
      exact ⟨s, fun _ => by trivial, fun h => by cases h⟩
  | setChildren p cs =>
    obtain ⟨t', old, _, h, _, hN, gC, _⟩ := setChildren_ok inv pre.1 pre.2.1 pre.2.2
    simp only [step, h, specStep]
    exact ⟨sim_setChildren s hN gC, fun _ => by trivial, fun h => by cases h⟩
  | removeChild p c =>
    obtain ⟨l, hl, hc⟩ := pre
    obtain ⟨i, hi, h⟩ := removeChild_run inv hl hc
    simp only [step, h, removeChildAt_run inv hl hi, specStep, s.kids_get hl,
      take_drop_eq_filter (inv.nodup p l hl) hi]
    exact ⟨sim_relist s hl _ _, fun _ => by trivial, fun h => by cases h⟩
  | removeChildAtIndex p i =>
    obtain ⟨l, hl⟩ := inv.kids_of_live pre
    cases hi : l[i]? with
    | some c =>
      simp only [step, removeChildAt_run inv hl hi, specStep, s.kids_get hl, hi]
      exact ⟨sim_relist s hl _ _, fun _ => by trivial, fun h => by cases h⟩
    | none =>
      simp only [step, removeChildAt_err hl (getElem?_none_ge hi), specStep, s.kids_get hl, hi]
      exact ⟨s, fun _ => by trivial, fun h => by cases h⟩
  | removeChildrenRange p a b =>
    obtain ⟨l, hl, hab, hb⟩ := pre
    obtain ⟨pm, _, _, h3⟩ := removeRange_run inv hl hab hb
    simp only [step, h3, specStep, s.kids_get hl]
    exact ⟨sim_relist s hl _ _, fun _ => by trivial, fun h => by cases h⟩
  | replaceChildAtIndex p i c =>
    obtain ⟨l, hl⟩ := inv.kids_of_live pre.1
    cases hi : l[i]? with
    | some old =>
      simp only [step, replaceChild_run inv hl pre.2 hi, specStep, s.kids_get hl, hi]
      exact ⟨sim_relist s hl _ _, fun _ => by trivial, fun h => by cases h⟩
    | none =>
      simp only [step, replaceChild_err (c := c) hl (getElem?_none_ge hi), specStep, s.kids_get hl, hi]
      exact ⟨s, fun _ => by trivial, fun h => by cases h⟩
  | childAtIndex p i =>
    obtain ⟨l, hl⟩ := inv.kids_of_live pre
    have h3 := (C14.observers_agree hl i).2.2
    simp only [step] at h3
    simp only [step, specStep, s.kids_get hl]
    refine ⟨?_, fun _ => ?_, fun h => by cases h⟩
    · have : (childAtIndex t p i).1 = t := by unfold childAtIndex; grind
      rw [this]; cases l[i]? <;> exact s
    · rw [h3]; cases l[i]? <;> rfl
  | totalNodeCount =>
    simp only [step, totalNodeCount, specStep, s.length inv]
    exact ⟨s, fun _ => by trivial, fun h => by cases h⟩
  | childCount p =>
    obtain ⟨l, hl⟩ := inv.kids_of_live pre
    simp only [step, childCount, hl, specStep, s.kids_get hl]
    exact ⟨s, fun _ => by trivial, fun h => by cases h⟩
  | children p =>
    obtain ⟨l, hl⟩ := inv.kids_of_live pre
    simp only [step, children, hl, specStep, s.kids_get hl]
    exact ⟨s, fun _ => by trivial, fun h => by cases h⟩
  | parent n =>
    obtain ⟨o, ho⟩ := inv.par_of_live pre
    simp only [step, parent, ho, specStep, s.parentOf inv ho]
    exact ⟨s, fun _ => by trivial, fun h => by cases h⟩

end C14Sim
