/-
  Absence of panics, concluded: the positioning loops, the stages, the whole program; a decidable sufficient condition
  (`gridSafeB`) for "this grid container never panics, whatever its input and whatever its children answer", and its tree
  version (`gridCalmB`), which implies `GridCalm`.

  After the setup (explicit grid, size estimate, placement, track initialisation, track indexes — all independent of the
  children's answers, and independent of the input when the templates have no `auto-fill`/`auto-fit` repetition) the only
  panics of `compute_grid_layout` are slice indexings into the two track vectors (by the items' track indexes, by the
  absolutely positioned children's resolved lines) and the checked integer arithmetic on the lines of absolutely
  positioned children.  They cannot occur when, for the `Setup` that the setup produces,
    * every item's track range is non-empty and inside the track vector, in both axes (`AllR`),
    * the track vectors have (at least) one entry per line and per track of the final counts (`vecLen`), and
    * the i16/u16 arithmetic that resolves an absolutely positioned child's lines does not overflow (`absOKb`).  That the
      resolved lines lie inside the track vectors is no longer a condition: since the repair of
      "absolutely positioned children create implicit tracks" `try_into_track_vec_index` answers `None` for a line outside
      the implicit grid (`absTrackIndexes_in`) instead of `assert!`ing
  — all checked by evaluation on a concrete container (`suOKb`).
-/
import TaffyVerif.Lemmas.EvalGridSafe2
import TaffyVerif.Lemmas.EvalGridTrees

set_option linter.unusedSectionVars false
set_option linter.unusedVariables false

namespace EvalGrid
open GridModel GridTracks EvalBlock
variable {α : Type} [Num α]

section tail
variable [NumCast α]

theorem GSafe_alignAndPositionItem (node : Nat) (cs : Style α) (order : Nat) (area : Rect α)
    (ji ai : Option AlignItems) (shim : α) :
    GSafe (fun _ => True) (alignAndPositionItem node cs order area ji ai shim) := by
  obtain ⟨inp, lay, K, _, hp⟩ := alignAndPositionItem_shape node cs order area ji ai shim
  unfold GSafe
  rw [hp]
  exact fun o => ⟨K o, rfl, trivial⟩

theorem GSafe_trackOffset (tracks : List (GridTrack α)) (i : Nat) (h : i < tracks.length) :
    GSafe (fun _ => True) (trackOffset tracks i) := by
  unfold trackOffset
  rw [List.getElem?_eq_getElem h]
  exact GSafe_pure _ _ trivial

/-- "Position in-flow children" never panics when the items' track indexes are inside the track vectors and the items'
nodes are children -/
theorem GSafe_positionItems (childStyles : List (GridChildStyle α)) (rows columns : List (GridTrack α))
    (ji ai : Option AlignItems) : ∀ (items : List (GItem α)) (index : Nat) (acc : Size α),
    AllR .blk rows.length items → AllR .inl columns.length items → (∀ it ∈ items, it.node < childStyles.length) →
      GSafe (fun r => r.1.length = items.length) (positionItems childStyles rows columns ji ai items index acc)
  | [], _, _, _, _, _ => GSafe_pure _ _ rfl
  | it :: rest, index, acc, hr, hc, hn => by
    unfold positionItems
    obtain ⟨r1, r2⟩ := hr it List.mem_cons_self
    obtain ⟨c1, c2⟩ := hc it List.mem_cons_self
    have r1' : it.rowIndexes.start + 1 ≤ it.rowIndexes.end := r1
    have r2' : it.rowIndexes.end < rows.length := r2
    have c1' : it.columnIndexes.start + 1 ≤ it.columnIndexes.end := c1
    have c2' : it.columnIndexes.end < columns.length := c2
    refine GSafe_bind _ _ _ _ (GSafe_trackOffset rows _ (by omega)) fun top _ => ?_
    refine GSafe_bind _ _ _ _ (GSafe_trackOffset rows _ r2') fun bottom _ => ?_
    refine GSafe_bind _ _ _ _ (GSafe_trackOffset columns _ (by omega)) fun left _ => ?_
    refine GSafe_bind _ _ _ _ (GSafe_trackOffset columns _ c2') fun right _ => ?_
    simp only []
    rw [List.getElem?_eq_getElem (hn it List.mem_cons_self)]
    simp only []
    refine GSafe_bind _ _ _ _ (GSafe_alignAndPositionItem _ _ _ _ _ _ _) fun ⟨contribution, y, height⟩ _ => ?_
    simp only []
    refine GSafe_bind _ _ _ _ (GSafe_positionItems childStyles rows columns ji ai rest _ _
      (fun x hx => hr x (List.mem_cons_of_mem _ hx)) (fun x hx => hc x (List.mem_cons_of_mem _ hx))
      (fun x hx => hn x (List.mem_cons_of_mem _ hx))) fun ⟨rest', acc'⟩ hl => ?_
    exact GSafe_pure _ _ (by simp only [List.length_cons]; exact congrArg (· + 1) hl)

/-- an optional track-vector index is in range -/
def optIn (L : Nat) : Option Int → Bool
  | none => true
  | some i => decide (i.toNat < L)

/-- the lines of an absolutely positioned child resolve without i16/u16 overflow (that they then lie inside the track
vectors is what `try_into_track_vec_index` guarantees: `absTrackIndexes_in`) -/
def absChildOK (cs : GridChildStyle α) (colCounts rowCounts : GridPlacement.TrackCounts) : Bool :=
  match absTrackIndexes cs.gridColumn colCounts, absTrackIndexes cs.gridRow rowCounts with
  | .ok _, .ok _ => true
  | _, _ => false

/-- … for every absolutely positioned child that generates a box -/
def absOKb (childStyles : List (GridChildStyle α)) (colCounts rowCounts : GridPlacement.TrackCounts) : Bool :=
  childStyles.all fun cs =>
    cs.base.isHidden || !(cs.base.position == .absolute) || absChildOK cs colCounts rowCounts

/-- the number of entries of a track vector for these counts: a gutter at each line, a track between two lines -/
def vecLen (c : GridPlacement.TrackCounts) : Int := 2 * (c.negativeImplicit + c.explicit + c.positiveImplicit) + 1

/-- `try_into_track_vec_index` answers `None` or the index of a line of the implicit grid -/
theorem tryIntoTrackVecIndex_spec {line i : Int} {c : GridPlacement.TrackCounts}
    (h : tryIntoTrackVecIndex line c = .ok (some i)) : 0 ≤ i ∧ i + 1 ≤ vecLen c := by
  unfold tryIntoTrackVecIndex at h
  simp only [GridPlacement.bind_eq, GridPlacement.bind_eq_ok] at h
  obtain ⟨n, hn, negN, hnn, h⟩ := h
  obtain ⟨en, -, -⟩ := GridPlacement.i16_eq_ok.1 hn
  obtain ⟨enn, -, -⟩ := GridPlacement.i16_eq_ok.1 hnn
  split at h
  · cases h
  · rename_i h1
    simp only [GridPlacement.bind_eq, GridPlacement.bind_eq_ok] at h
    obtain ⟨s, hs, s16, hs16, h⟩ := h
    obtain ⟨es, -, -⟩ := GridPlacement.u16_eq_ok.1 hs
    obtain ⟨es16, -, -⟩ := GridPlacement.i16_eq_ok.1 hs16
    split at h
    · cases h
    · rename_i h2
      simp only [GridPlacement.bind_eq, GridPlacement.bind_eq_ok] at h
      obtain ⟨j, hj, h⟩ := h
      have ej : j = i := by
        simp only [GridPlacement.pure_eq, GridPlacement.Outcome.ok.injEq, Option.some.injEq] at h
        exact h
      subst ej
      -- `into_track_vec_index`: the index is `2 * (line + negative_implicit)`
      unfold intoTrackVecIndex at hj
      simp only [GridPlacement.bind_eq, GridPlacement.bind_eq_ok] at hj
      obtain ⟨n', hn', negN', hnn', hj⟩ := hj
      obtain ⟨en', -, -⟩ := GridPlacement.i16_eq_ok.1 hn'
      split at hj
      · cases hj
      · simp only [GridPlacement.bind_eq, GridPlacement.bind_eq_ok] at hj
        obtain ⟨s', hs', s16', hs16', hj⟩ := hj
        split at hj
        · cases hj
        · simp only [GridPlacement.bind_eq, GridPlacement.bind_eq_ok] at hj
          obtain ⟨t, ht, u, hu, hj⟩ := hj
          obtain ⟨et, -, -⟩ := GridPlacement.i16_eq_ok.1 ht
          obtain ⟨eu, hu0, -⟩ := GridPlacement.usize_eq_ok.1 hu
          obtain ⟨ej, -, -⟩ := GridPlacement.usize_eq_ok.1 hj
          unfold vecLen
          subst en enn es es16 en' et eu ej
          omega

theorem absLineIndex_in {counts : GridPlacement.TrackCounts} {o r : Option Int} {L : Nat}
    (h : absLineIndex counts o = .ok r) (hL : vecLen counts ≤ (L : Int)) : optIn L r = true := by
  cases o with
  | none =>
    have : r = none := by
      simp only [absLineIndex, GridPlacement.pure_eq, GridPlacement.Outcome.ok.injEq] at h
      exact h.symm
    subst this
    rfl
  | some l =>
    cases r with
    | none => rfl
    | some i =>
      obtain ⟨h0, h1⟩ := tryIntoTrackVecIndex_spec (show tryIntoTrackVecIndex l counts = .ok (some i) from h)
      simp only [optIn, decide_eq_true_eq]
      omega

/-- the resolved lines of an absolutely positioned child are `None` or indexes inside a track vector of the right length -/
theorem absTrackIndexes_in {pl : Line GridPlacement.Placement} {counts : GridPlacement.TrackCounts}
    {r : Line (Option Int)} {L : Nat} (h : absTrackIndexes pl counts = .ok r) (hL : vecLen counts ≤ (L : Int)) :
    optIn L r.start = true ∧ optIn L r.end = true := by
  unfold absTrackIndexes at h
  simp only [GridPlacement.bind_eq, GridPlacement.bind_eq_ok] at h
  obtain ⟨oz, -, q, -, s, hs, e, he, h⟩ := h
  have : r = ⟨s, e⟩ := by
    simp only [GridPlacement.pure_eq, GridPlacement.Outcome.ok.injEq] at h
    exact h.symm
  subst this
  exact ⟨absLineIndex_in hs hL, absLineIndex_in he hL⟩

theorem GSafe_optOffset (tracks : List (GridTrack α)) (i : Option Int) (d : α) (h : optIn tracks.length i = true) :
    GSafe (fun _ => True) (optOffset tracks i d) := by
  unfold optOffset
  cases i with
  | none => exact GSafe_pure _ _ trivial
  | some i => exact GSafe_trackOffset tracks _ (by simpa [optIn] using h)

theorem GSafe_hiddenAbsLoop (c : Ctx α) (bb : Size α) (rows columns : List (GridTrack α))
    (cc rc : GridPlacement.TrackCounts) : ∀ (l : List (GridChildStyle α)) (index order : Nat) (acc : Size α),
    absOKb l cc rc = true → vecLen cc ≤ (columns.length : Int) → vecLen rc ≤ (rows.length : Int) →
      GSafe (fun _ => True) (hiddenAbsLoop c bb rows columns cc rc l index order acc)
  | [], _, _, _, _, _, _ => GSafe_pure _ _ trivial
  | cs :: rest, index, order, acc, h, hLc, hLr => by
    simp only [absOKb, List.all_cons, Bool.and_eq_true] at h
    obtain ⟨h0, hrest⟩ := h
    have ih := fun i o a => GSafe_hiddenAbsLoop c bb rows columns cc rc rest i o a (by simpa [absOKb] using hrest)
      hLc hLr
    unfold hiddenAbsLoop
    split
    · refine GSafe_bind (fun _ => True) _ _ _ (GSafe_call _ _ _ fun _ => trivial) fun _ _ => ?_
      refine GSafe_bind (fun _ => True) _ _ _ (GSafe_setLayout _ _ _ trivial) fun _ _ => ih _ _ _
    · rename_i hh
      split
      · rename_i ha
        simp only [hh, ha, Bool.false_or, Bool.not_true] at h0
        unfold absChildOK at h0
        split at h0
        · rename_i ci ri hci hri
          obtain ⟨a1, a2⟩ := absTrackIndexes_in hci hLc
          obtain ⟨a3, a4⟩ := absTrackIndexes_in hri hLr
          rw [hci, hri]
          show GSafe _ (pure ci >>= fun colIdx => pure ri >>= fun rowIdx => _)
          refine GSafe_bind (fun x => x = ci) _ _ _ (GSafe_pure _ _ rfl) fun colIdx e1 => ?_
          subst e1
          refine GSafe_bind (fun x => x = ri) _ _ _ (GSafe_pure _ _ rfl) fun rowIdx e2 => ?_
          subst e2
          refine GSafe_bind _ _ _ _ (GSafe_optOffset rows _ _ a3) fun top _ => ?_
          refine GSafe_bind _ _ _ _ (GSafe_optOffset rows _ _ a4) fun bottom _ => ?_
          refine GSafe_bind _ _ _ _ (GSafe_optOffset columns _ _ a1) fun left _ => ?_
          refine GSafe_bind _ _ _ _ (GSafe_optOffset columns _ _ a2) fun right _ => ?_
          refine GSafe_bind _ _ _ _ (GSafe_alignAndPositionItem _ _ _ _ _ _ _) fun ⟨contribution, _, _⟩ _ => ?_
          exact ih _ _ _
        · cases h0
      · exact ih _ _ _

/-- what the rest of the program needs of the setup's result -/
structure SuOK (childStyles : List (GridChildStyle α)) (su : Setup α) : Prop where
  cols : AllR .inl su.columns.length su.items
  rows : AllR .blk su.rows.length su.items
  nodes : ∀ it ∈ su.items, it.node < childStyles.length
  abs : absOKb childStyles su.finalColCounts su.finalRowCounts = true
  lenC : vecLen su.finalColCounts ≤ (su.columns.length : Int)
  lenR : vecLen su.finalRowCounts ≤ (su.rows.length : Int)

theorem node_of_frame {a b : GItem α} (h : frame a = frame b) : a.node = b.node := by
  rw [← node_frame a, h, node_frame]

theorem GSafe_gridTail (c : Ctx α) (childStyles : List (GridChildStyle α)) (bb cb : Size α)
    (cc rc : GridPlacement.TrackCounts) (columns rows : List (GridTrack α)) (items : List (GItem α))
    (hc : AllR .inl columns.length items) (hr : AllR .blk rows.length items)
    (hn : ∀ it ∈ items, it.node < childStyles.length)
    (ha : absOKb childStyles cc rc = true) (hLc : vecLen cc ≤ (columns.length : Int))
    (hLr : vecLen rc ≤ (rows.length : Int)) :
    GSafe (fun _ => True) (gridTail c childStyles bb cb cc rc columns rows items) := by
  unfold gridTail
  simp only []
  have hperm := List.mergeSort_perm items (fun a b => decide (a.sourceOrder ≤ b.sourceOrder))
  have lc := alignTracks_length cb.width c.padding.left c.border.left columns c.justifyContent
  have lr := alignTracks_length cb.height c.padding.top c.border.top rows c.alignContent
  refine GSafe_bind _ _ _ _ (GSafe_positionItems childStyles _ _ _ _ _ 0 Size.zero
    (by rw [lr]; exact fun x hx => hr x (hperm.mem_iff.1 hx))
    (by rw [lc]; exact fun x hx => hc x (hperm.mem_iff.1 hx))
    (fun x hx => hn x (hperm.mem_iff.1 hx))) fun ⟨items', ics⟩ _ => ?_
  simp only []
  refine GSafe_bind _ _ _ _ (GSafe_hiddenAbsLoop c bb _ _ cc rc childStyles 0 _ _ ha (by rw [lc]; exact hLc)
    (by rw [lr]; exact hLr)) fun _ _ => ?_
  split <;> exact GSafe_pure _ _ trivial

theorem GSafe_gridStep7 (c : Ctx α) (childStyles : List (GridChildStyle α)) (availableSpace : Size (AvailableSpace α))
    (colArgs rowArgs : RunArgs α) (inner : Size (Option α)) (bb cb : Size α) (cc rc : GridPlacement.TrackCounts)
    (columns rows : List (GridTrack α)) (items : List (GItem α))
    (hcol : colArgs.axis = .inl) (hrow : rowArgs.axis = .blk)
    (hc : AllR .inl columns.length items) (hr : AllR .blk rows.length items)
    (hn : ∀ it ∈ items, it.node < childStyles.length)
    (ha : absOKb childStyles cc rc = true) (hLc : vecLen cc ≤ (columns.length : Int))
    (hLr : vecLen rc ≤ (rows.length : Int)) :
    GSafe (fun _ => True)
      (gridStep7 c childStyles availableSpace colArgs rowArgs inner bb cb cc rc columns rows items) := by
  unfold gridStep7
  simp only []
  have lc : (if (!c.availableGridSpace.width.isDefinite) = true then reresolvePercentTracks cb.width columns
      else columns).length = columns.length := by
    split
    · exact reresolvePercentTracks_length _ _
    · rfl
  have lr : (if (!c.availableGridSpace.height.isDefinite) = true then reresolvePercentTracks cb.height rows
      else rows).length = rows.length := by
    split
    · exact reresolvePercentTracks_length _ _
    · rfl
  refine GSafe_bind _ _ _ _ (GSafe_step7Prep .inl _ _ inner items) fun ⟨rerun, items3⟩ f3 => ?_
  simp only [] at f3 ⊢
  have s3 : FSub items items3 := FSub.of_mapFrame f3
  refine GSafe_bind _ _ _ _ (GSafe_step7Mid availableSpace colArgs rowArgs inner _ _ rerun items3 hcol hrow
    (by rw [lc]; exact hc.sub s3) (by rw [lr]; exact hr.sub s3)) fun ⟨columns', rows', items'⟩ ⟨l1, l2, f4⟩ => ?_
  simp only [] at l1 l2 f4 ⊢
  have s4 : FSub items items' := s3.trans f4
  refine GSafe_gridTail c childStyles bb cb cc rc columns' rows' items'
    (by rw [l1, lc]; exact hc.sub s4) (by rw [l2, lr]; exact hr.sub s4) ?_ ha (by rw [l1, lc]; exact hLc)
    (by rw [l2, lr]; exact hLr)
  intro x hx
  obtain ⟨y, hy, e⟩ := s4 x hx
  rw [node_of_frame e]; exact hn y hy

/-- **the program after the setup never panics** when the setup's result is `SuOK` -/
theorem GSafe_gridMain (style : GridStyle α) (childStyles : List (GridChildStyle α)) (inputs : LayoutInput α)
    (su : Setup α) (hok : SuOK childStyles su) : GSafe (fun _ => True) (gridMain style childStyles inputs su) := by
  unfold gridMain
  simp only []
  refine GSafe_bind _ _ _ _ (GSafe_trackSizingAlgorithmM (colArgsOf (mkCtx style.base inputs) _)
    { axisTracks := su.columns, otherAxisTracks := su.rows, items := su.items } hok.cols) fun st ⟨f1, l1, l1'⟩ => ?_
  simp only [] at f1 l1 l1' ⊢
  have f1' : FSub su.items (st.items.map fun it : GItem α => { it with availableSpaceCache := none }) :=
    f1.trans (FSub.of_mapFrame (UpdL.of_map .inl _ same_clearAvail st.items).1.1)
  refine GSafe_bind _ _ _ _ (GSafe_trackSizingAlgorithmM (rowArgsOf (mkCtx style.base inputs) _)
    { axisTracks := st.otherAxisTracks, otherAxisTracks := st.axisTracks,
      items := st.items.map fun it : GItem α => { it with availableSpaceCache := none } }
    (by show AllR .blk st.otherAxisTracks.length _; rw [l1']; exact hok.rows.sub f1')) fun st2 ⟨f2, l2, l2'⟩ => ?_
  simp only [] at f2 l2 l2' ⊢
  have f2' : FSub su.items st2.items := f1'.trans f2
  split
  · exact GSafe_pure _ _ trivial
  · refine GSafe_gridStep7 _ childStyles _ _ _ _ _ _ _ _ _ _ _ rfl rfl
      (by rw [l2', l1]; exact hok.cols.sub f2') (by rw [l2, l1']; exact hok.rows.sub f2') ?_
      hok.abs (by rw [l2', l1]; exact hok.lenC) (by rw [l2, l1']; exact hok.lenR)
    intro x hx
    obtain ⟨y, hy, e⟩ := f2' x hx
    rw [node_of_frame e]; exact hok.nodes y hy

/-- **`compute_grid_layout` never panics on this input** if its setup hands a `SuOK` result to the rest -/
theorem noPanic_computeGridLayoutE (style : GridStyle α) (childStyles : List (GridChildStyle α))
    (inputs : LayoutInput α) (su : Setup α)
    (hsu : ∀ k : Setup α → GM α (LayoutOutput α), gridSetupK style childStyles inputs k = k su)
    (hok : SuOK childStyles su) : NoPanic (computeGridLayoutE style childStyles inputs) := by
  rcases computeGridLayoutE_cases style inputs with ⟨_, o, h⟩ | h
  · rw [h]; exact ⟨o, rfl⟩
  · rw [h, hsu]
    exact GSafe_noPanic _ _ (GSafe_gridMain style childStyles inputs su hok)

end tail

end EvalGrid
