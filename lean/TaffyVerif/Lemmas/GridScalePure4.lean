/-
  C04 for grid, part 6: the container size, the re-resolution of percentage tracks, and the pure functions of
  `GridItem` (Model/GridItem.lean) and of the item bookkeeping in Model/GridSizing.lean / Model/Grid.lean.
-/
import TaffyVerif.Lemmas.GridScalePure3

set_option linter.unusedSectionVars false
set_option linter.unusedVariables false
set_option linter.unusedSimpArgs false
set_option linter.auxLemma false

namespace C04
open Scalable GridModel GridTracks GridStages

variable {k : Rat}

/-! ### the container size -/

theorem containerBorderBoxOf_scale (hk : 0 < k) (c : Ctx Rat) (kd : Size (Option Rat)) (ics irs : Rat) :
    containerBorderBoxOf (scale k c) (scale k kd) (scale k ics) (scale k irs) =
      scale k (containerBorderBoxOf c kd ics irs) := by
  unfold containerBorderBoxOf
  simp only [scale_simp, hk]

theorem containerContentBoxOf_scale (hk : 0 < k) (c : Ctx Rat) (bb : Size Rat) :
    containerContentBoxOf (scale k c) (scale k bb) = scale k (containerContentBoxOf c bb) := by
  unfold containerContentBoxOf
  simp only [scale_simp, hk]

theorem reresolvePercentTracks_scale (hk : 0 < k) (cb : Rat) (tracks : List (GridTrack Rat)) :
    reresolvePercentTracks (scale k cb) (scale k tracks) = scale k (reresolvePercentTracks cb tracks) := by
  unfold reresolvePercentTracks
  refine map_scale_list k tracks _ _ fun t => ?_
  cases t
  simp only [scale_gt_mk, scale_simp, hk]

/-! ### `GridItem` -/

theorem scale_gi_mk (k : Rat) (a0 a1 : Nat) (a2 a3 : Line Int) (a4 : Bool) (a5 : Point Overflow) (a6 : BoxSizing)
    (a7 a8 a9 : Size (Dimension Rat)) (a10 : Option Rat) (a11 a12 : Rect (LP Rat)) (a13 : Rect (LPA Rat))
    (a14 a15 : AlignItems) (a16 : Option Rat) (a17 : Rat) (a18 a19 : Line Nat) (a20 a21 a22 a23 : Bool)
    (a24 : Option (Size (Option Rat))) (a25 a26 a27 : Size (Option Rat)) (a28 a29 : Rat) :
    scale k (GItem.mk a0 a1 a2 a3 a4 a5 a6 a7 a8 a9 a10 a11 a12 a13 a14 a15 a16 a17 a18 a19 a20 a21 a22 a23 a24 a25 a26
        a27 a28 a29) =
      ⟨a0, a1, a2, a3, a4, a5, a6, scale k a7, scale k a8, scale k a9, a10, scale k a11, scale k a12, scale k a13, a14,
        a15, scale k a16, scale k a17, a18, a19, a20, a21, a22, a23, scale k a24, scale k a25, scale k a26, scale k a27,
        scale k a28, scale k a29⟩ := rfl

theorem itemNew_scale (k : Rat) (node : Nat) (col row : Line Int) (cs : Style Rat) (ai ji : AlignItems) (so : Nat) :
    GItem.new node col row (gscale k cs) ai ji so = scale k (GItem.new node col row cs ai ji so) := by
  unfold GItem.new
  simp only [scale_gi_mk, scale_simp]

@[scale_simp] theorem gi_placement (k : Rat) (it : GItem Rat) (ax : Ax) : (scale k it).placement ax = it.placement ax := by
  cases ax <;> rfl
@[scale_simp] theorem gi_placementIndexes (k : Rat) (it : GItem Rat) (ax : Ax) :
    (scale k it).placementIndexes ax = it.placementIndexes ax := by cases ax <;> rfl
@[scale_simp] theorem gi_trackRange (k : Rat) (it : GItem Rat) (ax : Ax) : (scale k it).trackRange ax = it.trackRange ax := by
  cases ax <;> rfl
@[scale_simp] theorem gi_span (k : Rat) (it : GItem Rat) (ax : Ax) : (scale k it).span ax = it.span ax := by
  cases ax <;> rfl
@[scale_simp] theorem gi_crossesFlexibleTrack (k : Rat) (it : GItem Rat) (ax : Ax) :
    (scale k it).crossesFlexibleTrack ax = it.crossesFlexibleTrack ax := by cases ax <;> rfl
@[scale_simp] theorem gi_crossesIntrinsicTrack (k : Rat) (it : GItem Rat) (ax : Ax) :
    (scale k it).crossesIntrinsicTrack ax = it.crossesIntrinsicTrack ax := by cases ax <;> rfl
@[scale_simp] theorem gi_scroll (k : Rat) (it : GItem Rat) (ax : Ax) : (scale k it).scroll ax = it.scroll ax := by
  cases ax <;> rfl

theorem sliceOf_scale (k : Rat) (l : List (GridTrack Rat)) (lo hi : Nat) :
    sliceOf (scale k l) lo hi = scale k (sliceOf l lo hi) := by
  unfold sliceOf
  simp only [scale_list, List.map_drop, List.map_take]

@[scale_simp] theorem gi_spannedTracks (k : Rat) (it : GItem Rat) (ax : Ax) (ts : List (GridTrack Rat)) :
    (scale k it).spannedTracks ax (scale k ts) = scale k (it.spannedTracks ax ts) := by
  unfold GItem.spannedTracks
  rw [gi_trackRange]
  exact sliceOf_scale k ts _ _

theorem map_sumF_allSome (k : Rat) (l : List (Option Rat)) :
    (allSome (scale k l)).map GridTracks.sumF = scale k ((allSome l).map GridTracks.sumF) := by
  rw [allSome_scale]
  cases allSome l with
  | none => rfl
  | some v => show some (GridTracks.sumF (scale k v)) = some (scale k (GridTracks.sumF v)); rw [gsumF_scale]

@[scale_simp] theorem gi_spannedTrackLimit (k : Rat) (it : GItem Rat) (ax : Ax) (ts : List (GridTrack Rat))
    (p : Option Rat) :
    (scale k it).spannedTrackLimit ax (scale k ts) (scale k p) = scale k (it.spannedTrackLimit ax ts p) := by
  unfold GItem.spannedTrackLimit
  rw [gi_spannedTracks, map_scale_list k _ (fun t : GridTrack Rat => t.maxFn.definiteLimit (scale k p))
    (fun t : GridTrack Rat => t.maxFn.definiteLimit p) (fun t => by simp only [scale_simp]), map_sumF_allSome]

@[scale_simp] theorem gi_spannedFixedTrackLimit (k : Rat) (it : GItem Rat) (ax : Ax) (ts : List (GridTrack Rat))
    (p : Option Rat) :
    (scale k it).spannedFixedTrackLimit ax (scale k ts) (scale k p) = scale k (it.spannedFixedTrackLimit ax ts p) := by
  unfold GItem.spannedFixedTrackLimit
  rw [gi_spannedTracks, map_scale_list k _ (fun t : GridTrack Rat => t.maxFn.definiteValue (scale k p))
    (fun t : GridTrack Rat => t.maxFn.definiteValue p) (fun t => by simp only [scale_simp]), map_sumF_allSome]

/-- the zero of `Num Rat` as the model's `0 : α` elaborates at `α = Rat` -/
local notation "z0" => (@OfNat.ofNat Rat (nat_lit 0) (@Zero.toOfNat0 Rat (@Num.toZero Rat instNumRat)))

theorem lpa_resolveOrZero_z0 (k : Rat) (x : LPA Rat) :
    (scale k x).resolveOrZero (some z0) = scale k (x.resolveOrZero (some z0)) := by
  have h := LPA.resolveOrZero_scale_some k x 0
  rw [scale_zero] at h
  exact h

@[scale_simp] theorem gi_marginsAxisSums (k : Rat) (it : GItem Rat) (w : Option Rat) :
    (scale k it).marginsAxisSums (scale k w) = scale k (it.marginsAxisSums w) := by
  unfold GItem.marginsAxisSums
  simp only [gi_margin, gi_baselineShim, scale_rect_left, scale_rect_right, scale_rect_top, scale_rect_bottom,
    lpa_resolveOrZero_z0, LPA.resolveOrZero_scale, add_scale, rect_mk_scale, Rect.sumAxes_scale]

@[scale_simp] theorem sget_scale {β : Type} [Scalable β] (k : Rat) (s : Size β) (ax : Ax) :
    sget (scale k s) ax = scale k (sget s ax) := by cases ax <;> rfl
@[scale_simp] theorem sset_scale {β : Type} [Scalable β] (k : Rat) (s : Size β) (ax : Ax) (v : β) :
    sset (scale k s) ax (scale k v) = scale k (sset s ax v) := by cases ax <;> rfl
@[scale_simp] theorem sset_scale_none (k : Rat) (s : Size (Option Rat)) (ax : Ax) :
    sset (scale k s) ax none = scale k (sset s ax none) := by cases ax <;> rfl
@[scale_simp] theorem pget_scale_ov (p : Point Overflow) (ax : Ax) : pget p ax = pget p ax := rfl

theorem gi_availableSpace (k : Rat) (it : GItem Rat) (ax : Ax) (ts : List (GridTrack Rat)) (o : Option Rat)
    (e : Estimate) :
    (scale k it).availableSpace ax (scale k ts) (scale k o) e = scale k (it.availableSpace ax ts o e) := by
  unfold GItem.availableSpace
  rw [gi_spannedTracks,
    map_scale_list k _ (fun t => (e.eval t (scale k o)).map fun size => size + t.contentAlignmentAdjustment)
      (fun t => (e.eval t o).map fun size => size + t.contentAlignmentAdjustment)
      (fun t => by
        rw [estimate_eval]
        cases e.eval t o <;> simp only [scale_simp, scale_option, Option.map]),
    map_sumF_allSome]
  cases ax <;> rfl

theorem gi_availableSpaceCached (k : Rat) (it : GItem Rat) (ax : Ax) (ts : List (GridTrack Rat)) (o : Option Rat)
    (e : Estimate) :
    (scale k it).availableSpaceCached ax (scale k ts) (scale k o) e =
      scale k (it.availableSpaceCached ax ts o e) := by
  unfold GItem.availableSpaceCached
  rw [gi_availableSpaceCache]
  cases h : it.availableSpaceCache with
  | some a => rfl
  | none =>
    simp only [scale_none, gi_availableSpace, scale_pair]
    cases it
    simp only [scale_gi_mk, scale_simp]

theorem kd_match_scale (k : Rat) (o e : Option Rat) :
    GItem.knownDimensions.match_1 (fun _ => Option Rat) (scale k o) (fun w => some w) (fun _ => scale k e) =
      scale k (GItem.knownDimensions.match_1 (fun _ => Option Rat) o (fun w => some w) (fun _ => e)) := by
  cases o <;> rfl

theorem size_mk_scale {β : Type} [Scalable β] (k : Rat) (a b : β) :
    (Size.mk (scale k a) (scale k b) : Size β) = scale k (Size.mk a b) := rfl

theorem gi_knownDimensions (hk : 0 < k) (it : GItem Rat) (ins gas : Size (Option Rat)) :
    (scale k it).knownDimensions (scale k ins) (scale k gas) = scale k (it.knownDimensions ins gas) := by
  unfold GItem.knownDimensions
  simp only [gi_marginsAxisSums, gi_aspectRatio, gi_padding, gi_border, gi_boxSizing, gi_size, gi_minSize, gi_maxSize,
    gi_margin, gi_justifySelf, gi_alignSelf, scale_size_width, scale_size_height, scale_rect_left, scale_rect_right,
    scale_rect_top, scale_rect_bottom, LPA.isAuto_scale, Resolve.rectLPOrZeroSize_scale, Rect.add_scale,
    Rect.sumAxes_scale, ite_scale_sizeZero, gridResolveSize_scale hk, Size.of_sub_scale hk, ite_scale_none,
    kd_match_scale, size_mk_scale, Size.maybeApplyAspectRatio_scale, Size.oo_clamp_scale hk]

end C04
