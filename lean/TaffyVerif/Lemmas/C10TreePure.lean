/-
  C10, tree-level theorem — part 11: `BlockModel.runPure` (the block program against a stateless oracle, collecting the
  layouts it sets): its result is `interp`, and in a `PerformLayout` run the layouts set are those of the pure walk, in
  order, followed by layouts of out-of-flow children (`runPure_block_sets`); `firstSet`: the first layout set for a child.
-/
import TaffyVerif.Lemmas.C10TreeEval

set_option linter.unusedSectionVars false

namespace C10Thm
open MarginCollapse BlockModel C10Tree C10Conv EvalMemo EvalBlock Eval

abbrev Orc := Nat → LayoutInput Rat → LayoutOutput Rat

theorem runPure_bind {β γ : Type} (orc : Orc) (p : ProgM Rat β) (f : β → ProgM Rat γ) :
    runPure orc (p >>= f) = ((runPure orc (f (runPure orc p).1)).1, (runPure orc p).2 ++ (runPure orc (f (runPure orc p).1)).2) := by
  unfold runPure
  rw [BlockModel.bind_eq, BlockModel.runProg_bind]

theorem runPure_pure {β : Type} (orc : Orc) (b : β) : runPure orc (ProgM.pure b : ProgM Rat β) = (b, []) := rfl

theorem runPure_fst {β : Type} (orc : Orc) (p : ProgM Rat β) : (runPure orc p).1 = interp orc p := by
  unfold runPure
  induction p with
  | pure b => rfl
  | call i inp k ih => simp only [BlockModel.runProg, interp]; exact ih _
  | setLayout i l k ih => simp only [BlockModel.runProg, interp]; exact ih _

theorem runPure_call {β : Type} (orc : Orc) (i : Nat) (inp : LayoutInput Rat) (k : LayoutOutput Rat → ProgM Rat β) :
    runPure orc (.call i inp k) = runPure orc (k (orc i inp)) := rfl

theorem runPure_set {β : Type} (orc : Orc) (i : Nat) (l : Layout Rat) (k : Unit → ProgM Rat β) :
    runPure orc (.setLayout i l k) = ((runPure orc (k ())).1, (i, l) :: (runPure orc (k ())).2) := rfl

theorem runPure_flowLoop (c : FlowCtx Rat) (inner : Size (Option Rat)) (orc : Orc) :
    ∀ (cs : List (Style Rat)) (idx order : Nat) (st : FlowState Rat),
      runPure orc (flowLoop c (generateItemsFrom inner cs idx order) st)
        = (((walk c inner orc cs idx order st).1, (walk c inner orc cs idx order st).2.1),
            (walk c inner orc cs idx order st).2.2) := by
  intro cs
  induction cs with
  | nil => intro idx order st; rfl
  | cons s rest ih =>
    intro idx order st
    by_cases hh : s.isHidden = true
    · simp only [generateItemsFrom, walk, hh, if_true]
      exact ih _ _ _
    · have hh' : s.isHidden = false := by simpa using hh
      simp only [generateItemsFrom, hh', Bool.false_eq_true, if_false]
      by_cases hab : (s.position == Position.absolute) = true
      · have hp : (generateItem idx order s inner).position = .absolute := by
          have : (generateItem idx order s inner).position = s.position := rfl
          rw [this]; cases hs : s.position with
          | absolute => rfl
          | relative => rw [hs] at hab; exact absurd hab (by decide)
        rw [flowLoop_cons_abs c _ _ st hp, runPure_bind, ih]
        simp only [walk, hh', hab, Bool.false_eq_true, if_false, if_true, runPure_pure, List.append_nil]
      · have hab' : (s.position == Position.absolute) = false := by simpa using hab
        have hp : (generateItem idx order s inner).position ≠ .absolute := by
          have : (generateItem idx order s inner).position = s.position := rfl
          rw [this]; intro hs; rw [hs] at hab'; exact absurd hab' (by decide)
        have hidx : (generateItem idx order s inner).nodeIdx = idx := rfl
        rw [flowLoop_cons_flow c _ _ st hp, runPure_call, runPure_set, runPure_bind, ih]
        simp only [walk, hh', hab', Bool.false_eq_true, if_false, runPure_pure, List.append_nil, hidx]


theorem Addr_mono {β : Type} (A B : Nat → Prop) (h : ∀ i, A i → B i) (p : ProgM Rat β) (hp : Addr A p) : Addr B p := by
  induction p with
  | pure b => trivial
  | call i inp k ih => exact ⟨h i hp.1, fun o => ih o (hp.2 o)⟩
  | setLayout i l k ih => exact ⟨h i hp.1, ih () hp.2⟩

theorem runPure_sets_addr {β : Type} (orc : Orc) (A : Nat → Prop) (p : ProgM Rat β) (hp : Addr A p) :
    ∀ i l, (i, l) ∈ (runPure orc p).2 → A i := by
  induction p with
  | pure b => intro i l h; simp [runPure_pure] at h
  | call j inp k ih => intro i l h; rw [runPure_call] at h; exact ih _ (hp.2 _) i l h
  | setLayout j l0 k ih =>
    intro i l h
    rw [runPure_set] at h
    simp only [List.mem_cons, Prod.mk.injEq] at h
    rcases h with ⟨rfl, _⟩ | h
    · exact hp.1
    · exact ih () hp.2 i l h

/-- out of flow: `display:none`, or absolutely positioned -/
def OutOfFlow (cs : List (Style Rat)) (i : Nat) : Prop :=
  ∃ s, cs[i]? = some s ∧ (s.isHidden = true ∨ s.position = .absolute)

/-- the layouts a `PerformLayout` run of `compute_block_layout` against a pure oracle sets: those of the pure walk, in
order, then layouts of children that are out of flow -/
theorem runPure_block_sets (orc : Orc) (s : Style Rat) (cs : List (Style Rat)) (inp : LayoutInput Rat)
    (hm : inp.runMode = .performLayout) :
    ∃ tail, (runPure orc (computeBlockLayout s cs inp)).2 =
      (walk (flowCtxOf s (innerCtx s (innerInputs s inp)) (blockW orc s cs inp))
        (innerCtx s (innerInputs s inp)).containerContentBoxSize orc cs 0 0
        (flowCtxOf s (innerCtx s (innerInputs s inp)) (blockW orc s cs inp)).initState).2.2 ++ tail ∧
      ∀ i l, (i, l) ∈ tail → OutOfFlow cs i := by
  have hm' : (innerInputs s inp).runMode = .performLayout := hm
  have hnot : ((innerInputs s inp).runMode == RunMode.computeSize) = false := by rw [hm']; rfl
  rw [computeBlockLayout_PL s cs inp hm, computeInner_eq, runPure_bind]
  have hw0 : (runPure orc (containerWidthProg (innerCtx s (innerInputs s inp))
      (generateItemList cs (innerCtx s (innerInputs s inp)).containerContentBoxSize) (innerInputs s inp))).2 = [] :=
    (containerWidthProg_spec (σ := Unit) (fun _ c i => (orc c i, ())) _ _ _ ()).1
  have hw1 : (runPure orc (containerWidthProg (innerCtx s (innerInputs s inp))
      (generateItemList cs (innerCtx s (innerInputs s inp)).containerContentBoxSize) (innerInputs s inp))).1
      = blockW orc s cs inp := runPure_fst orc _
  rw [hw0, hw1, List.nil_append]
  have hafter : innerAfterWidth s cs (innerInputs s inp) (blockW orc s cs inp) =
      (performFinalLayoutOnInFlowChildren (flowCtxOf s (innerCtx s (innerInputs s inp)) (blockW orc s cs inp))
        (generateItemList cs (innerCtx s (innerInputs s inp)).containerContentBoxSize)
        >>= innerTail s cs (innerInputs s inp) (blockW orc s cs inp)) := by
    unfold innerAfterWidth
    simp only [hm']
  rw [hafter, runPure_bind, performFinal_eq, runPure_bind, generateItemList, runPure_flowLoop]
  simp only [runPure_pure, List.append_nil]
  refine ⟨_, rfl, ?_⟩
  apply runPure_sets_addr
  unfold innerTail
  simp only [hnot, Bool.false_eq_true, if_false]
  refine Addr_bind _ _ _ (Addr_mono _ _ ?_ _ (Addr_absLoop (fun i => cs[i]?) _ _ _ _)) (fun acs => ?_)
  · rintro i ⟨s', h1, _, h3⟩; exact ⟨s', h1, Or.inr h3⟩
  · refine Addr_bind _ _ _ (Addr_mono _ _ ?_ _ (Addr_hiddenLoop cs cs 0 (fun j s' hj => by rw [Nat.zero_add]; exact hj)))
      (fun _ => trivial)
    rintro i ⟨s', h1, h2⟩; exact ⟨s', h1, Or.inl h2⟩


/-- the first layout the run set for child `i` (`Layout::new()` if none) -/
def firstSet (sets : List (Nat × Layout Rat)) (i : Nat) : Layout Rat :=
  ((sets.find? (fun e => e.1 == i)).map (·.2)).getD Layout.new

theorem walk_first (c : FlowCtx Rat) (inner : Size (Option Rat)) (orc : Orc) :
    ∀ (cs : List (Style Rat)) (idx order : Nat) (st : FlowState Rat) (tail : List (Nat × Layout Rat)) (i : Nat)
      (l : Layout Rat), (i, l) ∈ (walk c inner orc cs idx order st).2.2 →
      firstSet ((walk c inner orc cs idx order st).2.2 ++ tail) i = l := by
  intro cs
  induction cs with
  | nil => intro idx order st tail i l h; simp [walk] at h
  | cons s rest ih =>
    intro idx order st tail i l h
    by_cases hh : s.isHidden = true
    · simp only [walk, hh, if_true] at h ⊢
      exact ih _ _ _ tail i l h
    · have hh' : s.isHidden = false := by simpa using hh
      by_cases hab : (s.position == Position.absolute) = true
      · simp only [walk, hh', hab, Bool.false_eq_true, if_false, if_true] at h ⊢
        exact ih _ _ _ tail i l h
      · have hab' : (s.position == Position.absolute) = false := by simpa using hab
        simp only [walk, hh', hab', Bool.false_eq_true, if_false, List.mem_cons, Prod.mk.injEq] at h ⊢
        rcases h with ⟨rfl, rfl⟩ | h
        · simp [firstSet]
        · have hge := walk_sets_ge c inner orc rest (idx + 1) (order + 1) _ i l h
          have hne : (idx == i) = false := by simp; omega
          have := ih (idx + 1) (order + 1) _ tail i l h
          simp only [firstSet, List.cons_append, List.find?_cons, hne] at this ⊢
          exact this

end C10Thm
