/-
  C07 lifted to the flexbox program, part 4: steps 8–16 (pure) seen through the main-axis projection.

  `mshape dir lines` = the projected items, line by line.  From the lines the measuring prefix hands on to the lines the
  final layout pass visits, the only stage that changes the projection is step 12:

      mshape (aligned lines) = (mshape (prefix lines)).map distribute_remaining_free_space      (`mshape_aligned`)
-/
import TaffyVerif.Lemmas.LiftFlexFinal

set_option linter.unusedSectionVars false
set_option linter.unusedVariables false

namespace Lift
open FlexModel EvalFlex FlexLine FlexStages

/-- the items, line by line -/
def itemsL (lines : List (FlexLineS Rat)) : List (List (FlexItem Rat)) := lines.map (·.items)
/-- the projected items, line by line -/
def mshape (dir : FlexDirection) (lines : List (FlexLineS Rat)) : List (List (FlexItemM Rat)) :=
  lines.map fun l => l.items.map (toM dir)

theorem mshape_eq (dir : FlexDirection) (lines : List (FlexLineS Rat)) :
    mshape dir lines = (itemsL lines).map (List.map (toM dir)) := by
  simp only [mshape, itemsL, List.map_map]; rfl

theorem itemsL_map_of (f : FlexLineS Rat → FlexLineS Rat) (hf : ∀ l, (f l).items = l.items) (lines : List (FlexLineS Rat)) :
    itemsL (lines.map f) = itemsL lines := by
  simp only [itemsL, List.map_map]
  exact List.map_congr_left fun l _ => hf l

theorem itemsL_mapHead (f : FlexLineS Rat → FlexLineS Rat) (hf : ∀ l, (f l).items = l.items) :
    ∀ lines : List (FlexLineS Rat), itemsL (mapHead f lines) = itemsL lines
  | [] => rfl
  | a :: l => by simp only [mapHead, itemsL, List.map_cons, hf]

theorem itemsL_calculateCrossSize (k : AlgoConstants Rat) (ns : Size (Option Rat)) (lines : List (FlexLineS Rat)) :
    itemsL (calculateCrossSize k ns lines) = itemsL lines := by
  unfold calculateCrossSize
  simp only
  split
  · exact itemsL_mapHead _ (by intro _; rfl) _
  · split
    · rw [itemsL_mapHead _ (by intro _; rfl)]
      exact itemsL_map_of _ (by intro _; rfl) _
    · exact itemsL_map_of _ (by intro _; rfl) _

theorem itemsL_handleAlignContentStretch (k : AlgoConstants Rat) (ns : Size (Option Rat)) (lines : List (FlexLineS Rat)) :
    itemsL (handleAlignContentStretch k ns lines) = itemsL lines := by
  unfold handleAlignContentStretch
  simp only
  split
  · split
    · exact itemsL_map_of _ (by intro _; rfl) _
    · rfl
  · rfl

theorem itemsL_alignForward (f : Bool → Rat) : ∀ lines : List (FlexLineS Rat), itemsL (alignForward f lines) = itemsL lines
  | [] => rfl
  | a :: l => by
    simp only [alignForward, itemsL, List.map_cons, List.map_map]
    refine congrArg₂ _ rfl ?_
    exact List.map_congr_left fun _ _ => rfl

theorem itemsL_reverse (lines : List (FlexLineS Rat)) : itemsL lines.reverse = (itemsL lines).reverse := by
  simp only [itemsL, List.map_reverse]

theorem itemsL_alignFlexLines (k : AlgoConstants Rat) (t : Rat) (lines : List (FlexLineS Rat)) :
    itemsL (alignFlexLinesPerAlignContent k t lines) = itemsL lines := by
  unfold alignFlexLinesPerAlignContent
  simp only
  split
  · rw [itemsL_reverse, itemsL_alignForward, itemsL_reverse, List.reverse_reverse]
  · exact itemsL_alignForward _ _

theorem mshape_map_of (dir : FlexDirection) (f : FlexLineS Rat → FlexLineS Rat)
    (hf : ∀ l, (f l).items.map (toM dir) = l.items.map (toM dir)) (lines : List (FlexLineS Rat)) :
    mshape dir (lines.map f) = mshape dir lines := by
  simp only [mshape, List.map_map]
  exact List.map_congr_left fun l _ => hf l

theorem mshape_determineUsedCrossSize (k : AlgoConstants Rat) (so : Nat → Style Rat) (lines : List (FlexLineS Rat)) :
    mshape k.dir (determineUsedCrossSize k so lines) = mshape k.dir lines := by
  unfold determineUsedCrossSize
  apply mshape_map_of
  intro l
  simp only [List.map_map]
  exact List.map_congr_left fun c _ => toM_usedCrossItem k _ _ c

theorem mshape_resolveCrossAxisAutoMargins (k : AlgoConstants Rat) (lines : List (FlexLineS Rat)) :
    mshape k.dir (resolveCrossAxisAutoMargins k lines) = mshape k.dir lines := by
  unfold resolveCrossAxisAutoMargins
  apply mshape_map_of
  intro l
  simp only [List.map_map]
  exact List.map_congr_left fun c _ => toM_crossAutoMarginItem k _ _ c

/-- step 12 on the projection -/
theorem toM_distributeLine (k : AlgoConstants Rat) (line : FlexLineS Rat) :
    (distributeLine k line).items.map (toM k.dir) =
      distributeRemainingFreeSpace (line.items.map (toM k.dir)) (k.innerContainerSize.main k.dir) (k.gap.main k.dir)
        k.justifyContent k.dir := by
  unfold distributeLine
  simp only
  apply map_toM_zipBack
  have h := drfs_dframe (line.items.map (toM k.dir)) (k.innerContainerSize.main k.dir) (k.gap.main k.dir)
    k.justifyContent k.dir
  have h' := congrArg (List.map sframe) h
  simp only [List.map_map] at h' ⊢
  exact h'

theorem mshape_distribute (k : AlgoConstants Rat) (lines : List (FlexLineS Rat)) :
    mshape k.dir (lines.map (distributeLine k)) =
      (mshape k.dir lines).map fun ms =>
        distributeRemainingFreeSpace ms (k.innerContainerSize.main k.dir) (k.gap.main k.dir) k.justifyContent k.dir := by
  simp only [mshape, List.map_map]
  exact List.map_congr_left fun l _ => toM_distributeLine k l

/-- **steps 8–16 on the projection**: the lines the final layout pass visits are the prefix' lines, distributed -/
theorem mshape_aligned (cs : List (Style Rat)) (inputs : LayoutInput Rat) (k k' : AlgoConstants Rat) (t : Rat)
    (lines : List (FlexLineS Rat)) :
    mshape k.dir (alignFlexLinesPerAlignContent k' t (crossStage cs inputs k lines)) =
      (mshape k.dir lines).map fun ms =>
        distributeRemainingFreeSpace ms (k.innerContainerSize.main k.dir) (k.gap.main k.dir) k.justifyContent k.dir := by
  rw [mshape_eq, itemsL_alignFlexLines, ← mshape_eq]
  unfold crossStage
  rw [mshape_resolveCrossAxisAutoMargins, mshape_distribute, mshape_determineUsedCrossSize, mshape_eq,
    itemsL_handleAlignContentStretch, itemsL_calculateCrossSize, ← mshape_eq]

end Lift
