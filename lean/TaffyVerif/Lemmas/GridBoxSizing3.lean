/-
  C12 / C06 for grid: Model/GridSizing.lean respects the item transformation `phi P`, part 3: the span-1 fast path of
  `resolve_intrinsic_track_sizes`, cut into named pieces (`rfl`).
-/
import TaffyVerif.Lemmas.GridBoxSizing2

set_option linter.unusedSectionVars false

namespace GridRel
open GridModel GridTracks
variable {α : Type} [Num α]

variable {w : World α} (hw : w.Reads) {P : Nat → Bool} (hR : Readers (α := α) P)

include hw hR in
theorem minimumSpaceM_rel (s : Sizer α) (avail : AvailableSpace α) (it : GItem α) (hn : ¬ w.abs it.node)
    (ts : List (GridTrack α)) (limit : GItem α → Option α) (hl : ∀ x, limit (phi P x) = limit x) :
    GRel w (RXI P it) (minimumSpaceM s avail it ts limit) (minimumSpaceM s avail (phi P it) ts limit) := by
  have hgen : GRel w (RXI P it)
      (if (!it.scroll s.axis) = true then
        s.minimumContribution it ts >>= fun r => s.minContentContribution r.2 >>= fun q =>
          pure (Num.fmax (MaybeMath.fo_min q.1 (limit q.2)) r.1, q.2)
       else s.minimumContribution it ts)
      (if (!(phi P it).scroll s.axis) = true then
        s.minimumContribution (phi P it) ts >>= fun r => s.minContentContribution r.2 >>= fun q =>
          pure (Num.fmax (MaybeMath.fo_min q.1 (limit q.2)) r.1, q.2)
       else s.minimumContribution (phi P it) ts) := by
    rw [phi_scroll]
    split
    · refine GRel.bind (sizer_minimumContribution_rel hw hR s it hn ts) fun r r' hr => ?_
      obtain ⟨h1, h2, h3⟩ := hr
      rw [h1, h2]
      refine GRel.bind (sizer_minContentContribution_rel hw hR s r.2 (static_abs h3 hn)) fun q q' hq => ?_
      obtain ⟨h4, h5, h6⟩ := hq
      rw [h4, h5, hl]
      exact GRel.pure ⟨rfl, rfl, h6.trans h3⟩
    · exact sizer_minimumContribution_rel hw hR s it hn ts
  cases avail with
  | definite v => exact sizer_minimumContribution_rel hw hR s it hn ts
  | minContent => exact hgen
  | maxContent => exact hgen

/-! ### the span-1 path, cut -/

/-- "Handle base sizes" -/
def s1Base (s : Sizer α) (avail : AvailableSpace α) (axisInner : Option α) (it : GItem α)
    (axisTracks : List (GridTrack α)) (track : GridTrack α) : GM α (α × GItem α) :=
  match track.minFn with
  | .minContent => do
    let (c, it) ← s.minContentContribution it
    pure (Num.fmax track.baseSize c, it)
  | .percent _ =>
    if axisInner.isNone then do
      let (c, it) ← s.minContentContribution it
      pure (Num.fmax track.baseSize c, it)
    else pure (track.baseSize, it)
  | .maxContent => do
    let (c, it) ← s.maxContentContribution it
    pure (Num.fmax track.baseSize c, it)
  | .auto => do
    let (space, it) ← minimumSpaceM s avail it axisTracks (fun _ => track.maxFn.definiteLimit axisInner)
    pure (Num.fmax track.baseSize space, it)
  | .length _ => pure (track.baseSize, it)

/-- "Handle growth limits" -/
def s1Growth (s : Sizer α) (axisInner : Option α) (track : GridTrack α) (it : GItem α) :
    GM α (GridTrack α × GItem α) :=
  if track.maxFn.isFitContent then do
    let (track, it) ← (
      if !it.scroll s.axis then do
        let (mc, it) ← s.minContentContribution it
        pure ({ track with growthLimitPlannedIncrease := Num.fmax track.growthLimitPlannedIncrease mc }, it)
      else pure (track, it) : GM α (GridTrack α × GItem α))
    let fitContentLimit := track.fitContentLimit axisInner
    let (xc, it) ← s.maxContentContribution it
    let maxContentContribution := fitContentLimit.minF xc
    pure ({ track with growthLimitPlannedIncrease := Num.fmax track.growthLimitPlannedIncrease maxContentContribution }, it)
  else if track.maxFn.isMaxContentAlike || (track.maxFn.usesPercentage && axisInner.isNone) then do
    let (xc, it) ← s.maxContentContribution it
    pure ({ track with growthLimitPlannedIncrease := Num.fmax track.growthLimitPlannedIncrease xc }, it)
  else if track.maxFn.isIntrinsic then do
    let (mc, it) ← s.minContentContribution it
    pure ({ track with growthLimitPlannedIncrease := Num.fmax track.growthLimitPlannedIncrease mc }, it)
  else pure (track, it)

theorem sizeSpanOneItemM_eq (s : Sizer α) (avail : AvailableSpace α) (axisInner : Option α) (it : GItem α)
    (axisTracks : List (GridTrack α)) :
    sizeSpanOneItemM s avail axisInner it axisTracks =
      match axisTracks[(it.placementIndexes s.axis).start + 1]? with
      | none => throw "panic: index out of bounds (axis_tracks[track_index])"
      | some track =>
        s1Base s avail axisInner it axisTracks track >>= fun r =>
          s1Growth s axisInner { track with baseSize := r.1 } r.2 >>= fun q =>
            pure (q.2, axisTracks.set ((it.placementIndexes s.axis).start + 1) q.1) := by
  rfl

include hw hR in
theorem s1Base_rel (s : Sizer α) (avail : AvailableSpace α) (axisInner : Option α) (it : GItem α)
    (hn : ¬ w.abs it.node) (ts : List (GridTrack α)) (track : GridTrack α) :
    GRel w (RXI P it) (s1Base s avail axisInner it ts track) (s1Base s avail axisInner (phi P it) ts track) := by
  unfold s1Base
  cases track.minFn with
  | minContent =>
    exact GRel.bindX (sizer_minContentContribution_rel hw hR s it hn) fun v i2 hs => GRel.pure ⟨rfl, rfl, hs⟩
  | percent v =>
    dsimp only
    split
    · exact GRel.bindX (sizer_minContentContribution_rel hw hR s it hn) fun v i2 hs => GRel.pure ⟨rfl, rfl, hs⟩
    · exact GRel.pure ⟨rfl, rfl, StaticEq.refl _⟩
  | maxContent =>
    exact GRel.bindX (sizer_maxContentContribution_rel hw hR s it hn) fun v i2 hs => GRel.pure ⟨rfl, rfl, hs⟩
  | auto =>
    exact GRel.bindX (minimumSpaceM_rel hw hR s avail it hn ts _ (fun _ => rfl)) fun v i2 hs =>
      GRel.pure ⟨rfl, rfl, hs⟩
  | length v => exact GRel.pure ⟨rfl, rfl, StaticEq.refl _⟩

include hw hR in
theorem s1Growth_rel (s : Sizer α) (axisInner : Option α) (track : GridTrack α) (it : GItem α)
    (hn : ¬ w.abs it.node) :
    GRel w (RXI P it) (s1Growth s axisInner track it) (s1Growth s axisInner track (phi P it)) := by
  unfold s1Growth
  split
  · refine GRel.bindX (P := P) (it := it) ?_ fun t i2 hs => ?_
    · rw [phi_scroll]
      split
      · exact GRel.bindX (sizer_minContentContribution_rel hw hR s it hn) fun v i2 hs => GRel.pure ⟨rfl, rfl, hs⟩
      · exact GRel.pure ⟨rfl, rfl, StaticEq.refl _⟩
    · exact GRel.bindX (sizer_maxContentContribution_rel hw hR s i2 (static_abs hs hn)) fun v i3 hs3 =>
        GRel.pure ⟨rfl, rfl, hs3.trans hs⟩
  · split
    · exact GRel.bindX (sizer_maxContentContribution_rel hw hR s it hn) fun v i2 hs => GRel.pure ⟨rfl, rfl, hs⟩
    · split
      · exact GRel.bindX (sizer_minContentContribution_rel hw hR s it hn) fun v i2 hs => GRel.pure ⟨rfl, rfl, hs⟩
      · exact GRel.pure ⟨rfl, rfl, StaticEq.refl _⟩

include hw hR in
theorem sizeSpanOneItemM_rel (s : Sizer α) (avail : AvailableSpace α) (axisInner : Option α) (it : GItem α)
    (hn : ¬ w.abs it.node) (ts : List (GridTrack α)) :
    GRel w (RIT P it) (sizeSpanOneItemM s avail axisInner it ts) (sizeSpanOneItemM s avail axisInner (phi P it) ts) := by
  rw [sizeSpanOneItemM_eq, sizeSpanOneItemM_eq, phi_placementIndexes]
  cases ts[(it.placementIndexes s.axis).start + 1]? with
  | none => exact GRel.throw _
  | some track =>
    refine GRel.bindX (s1Base_rel hw hR s avail axisInner it hn ts track) fun v i2 hs => ?_
    refine GRel.bindX (s1Growth_rel hw hR s axisInner _ i2 (static_abs hs hn)) fun t i3 hs3 => ?_
    exact GRel.pure ⟨rfl, rfl, hs3.trans hs⟩

end GridRel
