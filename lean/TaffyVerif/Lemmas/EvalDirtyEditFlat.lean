/-
  C15 — the flat model's `Dirty.markDirty` (parent pointers, fuel) IS `markDirtyFT` on the unfolding.

  Below a parentless node of a state satisfying the structural invariant the graph is a finite tree
  (`C15Link.subtree_finite`); hence no node is its own proper descendant (`no_cycle`), the subtrees of two different
  children of a node are disjoint (`siblings_disjoint`), and the subtree relation `Unf` only depends on the flags of the
  descendants (`unf_congr`).  With these, by induction on the path from the subtree's root to the target
  (`flat_go`): running `Dirty.markDirty` from the target — upwards along the parent pointers, clearing until a node is
  already dirty — leaves a flat state whose subtree is `markDirtyFTGo` of the former subtree; nothing outside changes.
  No Mathlib.
-/
import TaffyVerif.Lemmas.DirtyWriteBack
import TaffyVerif.Lemmas.EvalDirtyEdit

set_option autoImplicit false
set_option linter.unusedVariables false

namespace C15Link
open Dirty DirtyPass C15Pass EvalDirtyEdit

/-- the node reached from `a` by the path `p` of child indices -/
def nodeAt (s : St) : Nat → List Nat → Option Nat
  | a, [] => some a
  | a, i :: p =>
    match (s.children a)[i]? with
    | some c => nodeAt s c p
    | none => none

/-! ### tree-ness below a node of finite depth -/

theorem descN_trans {s : St} {a m : Nat} {j : Nat} (h1 : DescN s a j m) :
    ∀ {j' m' : Nat}, DescN s m j' m' → DescN s a (j + j') m' := by
  intro j' m' h2
  induction h2 with
  | refl => exact h1
  | @step j2 n c _ hc ih => exact .step ih hc

theorem desc_descN {s : St} {r x : Nat} (h : Desc s r x) : ∃ j, DescN s r j x := by
  induction h with
  | refl => exact ⟨0, .refl⟩
  | step _ hc ih => obtain ⟨j, hj⟩ := ih; exact ⟨j + 1, .step hj hc⟩

theorem desc_child {s : St} {a c m : Nat} (hc : c ∈ s.children a) (h : Desc s c m) : Desc s a m := by
  induction h with
  | refl => exact .step .refl hc
  | step _ hc' ih => exact .step ih hc'

/-- no node of a subtree of finite depth is its own proper descendant -/
theorem no_cycle {s : St} {d a j : Nat} (hs : Shallow s d a) (h : DescN s a j a) : j = 0 := by
  cases j with
  | zero => rfl
  | succ j =>
    have pump : ∀ k, DescN s a (k * (j + 1)) a := by
      intro k
      induction k with
      | zero => rw [Nat.zero_mul]; exact .refl
      | succ k ih => rw [Nat.succ_mul]; exact descN_trans ih h
    have h1 := (descN_le hs (pump (d + 1))).1
    have h2 : d + 1 ≤ (d + 1) * (j + 1) := Nat.le_mul_of_pos_right _ (Nat.succ_pos j)
    omega

theorem child_not_above {s : St} {d a c : Nat} (hs : Shallow s d a) (hc : c ∈ s.children a) : ¬ Desc s c a := by
  intro h
  obtain ⟨j, hj⟩ := desc_descN h
  have h1 : DescN s a (0 + 1) c := .step .refl hc
  have := no_cycle hs (descN_trans h1 hj)
  omega

/-- the ancestors of a node form a chain -/
theorem desc_comparable {s : St} (st : Struct s) {x y m : Nat} (h1 : Desc s x m) (h2 : Desc s y m) :
    Desc s x y ∨ Desc s y x := by
  induction h1 generalizing y with
  | refl => exact Or.inr h2
  | @step m' c hd hc ih =>
    cases h2 with
    | refl => exact Or.inl (.step hd hc)
    | @step m'' _ hd2 hc2 =>
      have e1 := st.kidsPar m' c hc
      have e2 := st.kidsPar m'' c hc2
      rw [e1] at e2
      have e : m' = m'' := Option.some.inj e2
      subst e
      exact ih hd2

/-- the subtrees of two different children of a node (of a subtree of finite depth) are disjoint -/
theorem siblings_disjoint {s : St} (st : Struct s) {d a c c' m : Nat} (hs : Shallow s d a) (hc : c ∈ s.children a)
    (hc' : c' ∈ s.children a) (hne : c ≠ c') (h1 : Desc s c m) : ¬ Desc s c' m := by
  intro h2
  have key : ∀ {u v : Nat}, u ∈ s.children a → v ∈ s.children a → u ≠ v → Desc s u v → False := by
    intro u v hu hv huv h
    cases h with
    | refl => exact huv rfl
    | @step m'' _ hd hcv =>
      have e1 := st.kidsPar m'' v hcv
      have e2 := st.kidsPar a v hv
      rw [e1] at e2
      have e : m'' = a := Option.some.inj e2
      subst e
      exact child_not_above hs hu hd
  rcases desc_comparable st h1 h2 with h | h
  · exact key hc hc' hne h
  · exact key hc' hc (Ne.symm hne) h

theorem shallow_shape {s s2 : St} (h : s2.children = s.children) : ∀ (d a : Nat), Shallow s d a → Shallow s2 d a
  | 0, a, hs => by
    show s2.children a = []
    rw [h]; exact hs
  | d + 1, a, hs => by
    intro c hc
    rw [h] at hc
    exact shallow_shape h d c (hs c hc)

/-! ### the subtree relation only looks at the descendants -/

/-- node `m` carries the same flags in both states -/
def Frame (s s2 : St) (m : Nat) : Prop := s2.fin m = s.fin m ∧ s2.meas m = s.meas m ∧ s2.hidden m = s.hidden m

mutual
theorem unf_congr {s s2 : St} (hch : s2.children = s.children) : ∀ (t : FT) (c : Nat), Unf s c t →
    (∀ m, Desc s c m → Frame s s2 m) → Unf s2 c t
  | .node h f m ts, c, hu, hf => by
    cases hu with
    | node hl =>
      have hl2 : UnfList s2 (s2.children c) ts := by
        rw [hch]
        exact unfList_congr hch ts (s.children c) hl (fun c' hc' m hm => hf m (desc_child hc' hm))
      have hu2 := Unf.node hl2
      rw [(hf c .refl).1, (hf c .refl).2.1, (hf c .refl).2.2] at hu2
      exact hu2
theorem unfList_congr {s s2 : St} (hch : s2.children = s.children) : ∀ (ts : List FT) (ns : List Nat),
    UnfList s ns ts → (∀ c ∈ ns, ∀ m, Desc s c m → Frame s s2 m) → UnfList s2 ns ts
  | [], _, hl, _ => by cases hl; exact .nil
  | t :: ts, _, hl, hf => by
    cases hl with
    | cons a b =>
      exact .cons (unf_congr hch t _ a (hf _ List.mem_cons_self))
        (unfList_congr hch ts _ b (fun c hc => hf c (List.mem_cons_of_mem _ hc)))
end

theorem unfList_get {s : St} : ∀ (ts : List FT) (ns : List Nat) (i c : Nat), UnfList s ns ts → ns[i]? = some c →
    ∃ tc, ts[i]? = some tc ∧ Unf s c tc
  | [], _, _, _, hl, h => by cases hl; simp at h
  | t :: ts, _, i, c, hl, h => by
    cases hl with
    | cons a b =>
      cases i with
      | zero =>
        simp only [List.getElem?_cons_zero, Option.some.injEq] at h
        subst h
        exact ⟨t, rfl, a⟩
      | succ i =>
        simp only [List.getElem?_cons_succ] at h ⊢
        exact unfList_get ts _ i c b h

/-- replace the subtree of one child; the other children's subtrees only need their own descendants untouched -/
theorem unfList_set {s s2 : St} (hch : s2.children = s.children) : ∀ (ts : List FT) (ns : List Nat) (i c : Nat) (t' : FT),
    UnfList s ns ts → ns.Nodup → ns[i]? = some c → Unf s2 c t' →
    (∀ c' ∈ ns, c' ≠ c → ∀ m, Desc s c' m → Frame s s2 m) →
    UnfList s2 ns (ts.set i t')
  | [], _, _, _, _, hl, _, h, _, _ => by cases hl; simp at h
  | t :: ts, _, i, c, t', hl, hnd, h, hu, hf => by
    cases hl with
    | @cons n ns _ _ a b =>
      have hnd' := List.nodup_cons.1 hnd
      cases i with
      | zero =>
        simp only [List.getElem?_cons_zero, Option.some.injEq] at h
        subst h
        simp only [List.set_cons_zero]
        refine .cons hu (unfList_congr hch ts ns b (fun c' hc' => hf c' (List.mem_cons_of_mem _ hc') ?_))
        intro e; subst e; exact hnd'.1 hc'
      | succ i =>
        simp only [List.getElem?_cons_succ] at h
        simp only [List.set_cons_succ]
        have hcn : n ≠ c := by
          intro e; subst e
          exact hnd'.1 (List.mem_of_getElem? h)
        refine .cons (unf_congr hch t n a (hf n List.mem_cons_self hcn)) ?_
        exact unfList_set hch ts ns i c t' b hnd'.2 h hu (fun c' hc' => hf c' (List.mem_cons_of_mem _ hc'))

/-- clearing the flags of `a` does not disturb the subtrees of its children -/
theorem unfList_clear {s : St} {d a : Nat} (hs : Shallow s d a) {ts : List FT} (hl : UnfList s (s.children a) ts) :
    UnfList (clearNode s a) (s.children a) ts := by
  refine unfList_congr (s := s) (s2 := clearNode s a) rfl ts _ hl (fun c hc m hm => ?_)
  have : m ≠ a := by
    intro e; subst e
    exact child_not_above hs hc hm
  refine ⟨?_, ?_, rfl⟩ <;> simp only [clearNode, upd_other _ _ _ _ this]

theorem markDirty_succ (k : Nat) (s : St) (n : Nat) :
    markDirty (k + 1) s n =
      if s.dirty n then some s
      else match s.parent n with
        | some q => markDirty k (clearNode s n) q
        | none => some (clearNode s n) := by
  rw [markDirty]
  rfl

/-! ### the flat walk is the rose-tree walk -/

/-- **flat_go**: in a state satisfying the structural invariant, for a node `a` whose subtree `ta` has finite depth and a
path `p` from `a` to `n`: the run of `Dirty.markDirty` from `n` — as far as the subtree of `a` is concerned — ends in a
state `s1` of the same shape whose subtree at `a` is `(markDirtyFTGo p ta).1`, with nothing outside the subtree changed;
and the run goes on with the parent of `a` (from `s1`) exactly when `markDirtyFTGo` reports `Cleared`. -/
theorem flat_go {s : St} (st : Struct s) : ∀ (p : List Nat) (a : Nat) (ta : FT) (n d : Nat), Shallow s d a →
    Unf s a ta → nodeAt s a p = some n →
    ∃ s1, SameShape s s1 ∧ Unf s1 a (markDirtyFTGo p ta).1 ∧
      (∀ m, ¬ Desc s a m → s1.fin m = s.fin m ∧ s1.meas m = s.meas m) ∧
      ∀ k, markDirty (p.length + 1 + k) s n =
        if (markDirtyFTGo p ta).2 then
          (match s.parent a with
            | some q => markDirty k s1 q
            | none => some s1)
        else some s1
  | [], a, ta, n, d, hs, hu, hn => by
    simp only [nodeAt, Option.some.injEq] at hn
    subst hn
    cases hu with
    | @node _ ts hl =>
      have hfl : ∀ k, ([] : List Nat).length + 1 + k = k + 1 := by intro k; simp only [List.length_nil]; omega
      cases hfm : (s.fin a || s.meas a) with
      | false =>
        have hf : s.fin a = false := by cases h : s.fin a <;> simp_all
        have hm : s.meas a = false := by cases h : s.meas a <;> simp_all
        refine ⟨s, SameShape.refl s, ?_, fun _ _ => ⟨rfl, rfl⟩, ?_⟩
        · have hu := Unf.node hl
          simp only [markDirtyFTGo]
          rw [hf, hm] at hu
          exact hu
        · intro k
          have hd : s.dirty a = true := by simp [St.dirty, hf, hm]
          rw [hfl, markDirty_succ]
          simp only [markDirtyFTGo, hfm, hd, if_true, Bool.false_eq_true, if_false]
      | true =>
        have hd : s.dirty a = false := by
          simp only [St.dirty]
          cases h1 : s.fin a <;> cases h2 : s.meas a <;> simp_all
        refine ⟨clearNode s a, clearNode_shape s a, ?_, ?_, ?_⟩
        · have hu := Unf.node (s := clearNode s a) (n := a) (ts := ts) (unfList_clear hs hl)
          simp only [markDirtyFTGo]
          have e1 : (clearNode s a).fin a = false := by simp [clearNode, upd]
          have e2 : (clearNode s a).meas a = false := by simp [clearNode, upd]
          have e3 : (clearNode s a).hidden a = s.hidden a := rfl
          rw [e1, e2, e3] at hu
          exact hu
        · intro m hm
          have : m ≠ a := by intro e; subst e; exact hm .refl
          simp only [clearNode, upd_other _ _ _ _ this, and_self]
        · intro k
          rw [hfl, markDirty_succ]
          simp only [markDirtyFTGo, hfm, hd, Bool.false_eq_true, if_false, if_true]
  | i :: p, a, ta, n, d, hs, hu, hn => by
    simp only [nodeAt] at hn
    cases hci : (s.children a)[i]? with
    | none => rw [hci] at hn; cases hn
    | some c =>
      rw [hci] at hn
      have hc : c ∈ s.children a := List.mem_of_getElem? hci
      have hpc : s.parent c = some a := st.kidsPar a c hc
      cases hu with
      | @node _ ts hl =>
        obtain ⟨tc, htc, huc⟩ := unfList_get ts _ i c hl hci
        -- the child's subtree has finite depth too
        have hsc : ∃ d', Shallow s d' c := by
          cases d with
          | zero => have h0 : s.children a = [] := hs; rw [h0] at hc; cases hc
          | succ d' => exact ⟨d', hs c hc⟩
        obtain ⟨d', hsc⟩ := hsc
        obtain ⟨s1c, sh, u1, fr, eqc⟩ := flat_go st p c tc n d' hsc huc hn
        have hna : ¬ Desc s c a := child_not_above hs hc
        have fa := fr a hna
        have hlen : ∀ k, (i :: p).length + 1 + k = p.length + 1 + (k + 1) := by
          intro k; simp only [List.length_cons]; omega
        -- the children of `a` in `s1c`
        have hl1 : UnfList s1c (s.children a) (ts.set i (markDirtyFTGo p tc).1) :=
          unfList_set sh.2.2.2.1 ts _ i c _ hl (st.nodup a) hci u1
            (fun c' hc' hne m hm =>
              ⟨(fr m (siblings_disjoint st hs hc' hc hne hm)).1, (fr m (siblings_disjoint st hs hc' hc hne hm)).2,
                congrFun sh.2.2.2.2 m⟩)
        have frA : ∀ m, ¬ Desc s a m → s1c.fin m = s.fin m ∧ s1c.meas m = s.meas m :=
          fun m hm => fr m (fun h => hm (desc_child hc h))
        cases hr : (markDirtyFTGo p tc).2 with
        | false =>
          refine ⟨s1c, sh, ?_, frA, ?_⟩
          · rw [ftgo_false i p _ _ _ ts tc htc hr]
            have hu := Unf.node (s := s1c) (n := a) (ts := ts.set i (markDirtyFTGo p tc).1)
              (by rw [sh.2.2.2.1]; exact hl1)
            rw [fa.1, fa.2, sh.2.2.2.2] at hu
            exact hu
          · intro k
            rw [hlen, eqc (k + 1), hr, ftgo_false i p _ _ _ ts tc htc hr]
            simp only [Bool.false_eq_true, if_false]
        | true =>
          have e0 : ∀ k, markDirty ((i :: p).length + 1 + k) s n = markDirty (k + 1) s1c a := by
            intro k
            rw [hlen, eqc (k + 1), hr, hpc]
            simp only [if_true]
          cases hfm : (s.fin a || s.meas a) with
          | false =>
            have hf : s.fin a = false := by cases h : s.fin a <;> simp_all
            have hm : s.meas a = false := by cases h : s.meas a <;> simp_all
            refine ⟨s1c, sh, ?_, frA, ?_⟩
            · rw [ftgo_true i p _ _ _ ts tc htc hr]
              have hu := Unf.node (s := s1c) (n := a) (ts := ts.set i (markDirtyFTGo p tc).1)
                (by rw [sh.2.2.2.1]; exact hl1)
              rw [fa.1, fa.2, sh.2.2.2.2, hf, hm] at hu
              exact hu
            · intro k
              have hd : s1c.dirty a = true := by simp [St.dirty, fa.1, fa.2, hf, hm]
              rw [e0, markDirty_succ, ftgo_true i p _ _ _ ts tc htc hr]
              simp only [hfm, hd, if_true, Bool.false_eq_true, if_false]
          | true =>
            have hd : s1c.dirty a = false := by
              simp only [St.dirty, fa.1, fa.2]
              cases h1 : s.fin a <;> cases h2 : s.meas a <;> simp_all
            have hs1 : Shallow s1c d a := shallow_shape sh.2.2.2.1 d a hs
            refine ⟨clearNode s1c a, sh.trans (clearNode_shape s1c a), ?_, ?_, ?_⟩
            · rw [ftgo_true i p _ _ _ ts tc htc hr]
              have hl2 : UnfList (clearNode s1c a) (s1c.children a) (ts.set i (markDirtyFTGo p tc).1) :=
                unfList_clear hs1 (by rw [sh.2.2.2.1]; exact hl1)
              have hu := Unf.node (s := clearNode s1c a) (n := a) (ts := ts.set i (markDirtyFTGo p tc).1) hl2
              have e1 : (clearNode s1c a).fin a = false := by simp [clearNode, upd]
              have e2 : (clearNode s1c a).meas a = false := by simp [clearNode, upd]
              have e3 : (clearNode s1c a).hidden a = s.hidden a := by
                show s1c.hidden a = s.hidden a
                rw [sh.2.2.2.2]
              rw [e1, e2, e3] at hu
              exact hu
            · intro m hm
              have hne : m ≠ a := by intro e; subst e; exact hm .refl
              simp only [clearNode, upd_other _ _ _ _ hne]
              exact frA m hm
            · intro k
              rw [e0, markDirty_succ, ftgo_true i p _ _ _ ts tc htc hr]
              simp only [hfm, hd, Bool.false_eq_true, if_false, if_true, sh.2.2.1]

theorem nodeAt_descN {s : St} : ∀ (p : List Nat) (a n : Nat), nodeAt s a p = some n → DescN s a p.length n
  | [], a, n, h => by
    simp only [nodeAt, Option.some.injEq] at h
    subst h; exact .refl
  | i :: p, a, n, h => by
    simp only [nodeAt] at h
    cases hci : (s.children a)[i]? with
    | none => rw [hci] at h; cases h
    | some c =>
      rw [hci] at h
      have h1 : DescN s a (0 + 1) c := .step .refl (List.mem_of_getElem? hci)
      have := descN_trans h1 (nodeAt_descN p c n h)
      simp only [List.length_cons]
      have e : 0 + 1 + p.length = p.length + 1 := by omega
      rw [e] at this
      exact this

theorem nodeAt_congr {s s2 : St} (hch : s2.children = s.children) : ∀ (p : List Nat) (a : Nat),
    nodeAt s2 a p = nodeAt s a p
  | [], a => rfl
  | i :: p, a => by
    simp only [nodeAt, hch]
    cases (s.children a)[i]? with
    | none => rfl
    | some c => exact nodeAt_congr hch p c

/-! ### `set_style`'s `display` toggle on the unfolding -/

/-- the flat state after the structural part of `set_style(n, hidden := h)` -/
def setHiddenSt (s : St) (n : Nat) (h : Bool) : St := { s with hidden := upd s.hidden n h }

/-- **flat_setHidden**: updating the `display:none` flag of the node the path leads to is `setHid` on the subtree -/
theorem flat_setHidden {s : St} (st : Struct s) (h : Bool) : ∀ (p : List Nat) (a : Nat) (ta : FT) (n d : Nat),
    Shallow s d a → Unf s a ta → nodeAt s a p = some n → Unf (setHiddenSt s n h) a (setHid h p ta)
  | [], a, ta, n, d, hs, hu, hn => by
    simp only [nodeAt, Option.some.injEq] at hn
    subst hn
    cases hu with
    | @node _ ts hl =>
      have hl2 : UnfList (setHiddenSt s a h) ((setHiddenSt s a h).children a) ts := by
        refine unfList_congr (s := s) (s2 := setHiddenSt s a h) rfl ts _ hl (fun c hc m hm => ?_)
        have : m ≠ a := by
          intro e; subst e
          exact child_not_above hs hc hm
        exact ⟨rfl, rfl, by simp only [setHiddenSt, upd_other _ _ _ _ this]⟩
      have hu := Unf.node hl2
      have e1 : (setHiddenSt s a h).hidden a = h := by simp [setHiddenSt, upd]
      have e2 : (setHiddenSt s a h).fin a = s.fin a := rfl
      have e3 : (setHiddenSt s a h).meas a = s.meas a := rfl
      rw [e1, e2, e3] at hu
      simp only [setHid]
      exact hu
  | i :: p, a, ta, n, d, hs, hu, hn => by
    simp only [nodeAt] at hn
    cases hci : (s.children a)[i]? with
    | none => rw [hci] at hn; cases hn
    | some c =>
      rw [hci] at hn
      have hc : c ∈ s.children a := List.mem_of_getElem? hci
      have hdn : Desc s c n := (nodeAt_descN p c n hn).desc
      cases hu with
      | @node _ ts hl =>
        obtain ⟨tc, htc, huc⟩ := unfList_get ts _ i c hl hci
        have hsc : ∃ d', Shallow s d' c := by
          cases d with
          | zero => have h0 : s.children a = [] := hs; rw [h0] at hc; cases hc
          | succ d' => exact ⟨d', hs c hc⟩
        obtain ⟨d', hsc⟩ := hsc
        have ih := flat_setHidden st h p c tc n d' hsc huc hn
        have hl1 : UnfList (setHiddenSt s n h) (s.children a) (ts.set i (setHid h p tc)) :=
          unfList_set (s := s) (s2 := setHiddenSt s n h) rfl ts _ i c _ hl (st.nodup a) hci ih
            (fun c' hc' hne m hm => by
              have : m ≠ n := by
                intro e; subst e
                exact siblings_disjoint st hs hc' hc hne hm hdn
              exact ⟨rfl, rfl, by simp only [setHiddenSt, upd_other _ _ _ _ this]⟩)
        have hna : a ≠ n := by
          intro e; subst e
          exact child_not_above hs hc hdn
        have hu := Unf.node (s := setHiddenSt s n h) (n := a) (ts := ts.set i (setHid h p tc)) hl1
        have e1 : (setHiddenSt s n h).hidden a = s.hidden a := by simp only [setHiddenSt, upd_other _ _ _ _ hna]
        have e2 : (setHiddenSt s n h).fin a = s.fin a := rfl
        have e3 : (setHiddenSt s n h).meas a = s.meas a := rfl
        rw [e1, e2, e3] at hu
        simp only [setHid, htc]
        exact hu

theorem struct_setHidden {s : St} (st : Struct s) (n : Nat) (h : Bool) : Struct (setHiddenSt s n h) :=
  ⟨st.kidsPar, st.parKids, st.nodup, st.bound, st.liveBound⟩

end C15Link
