/-
  C03 (finiteness at `ER`) — the grid program, part 3: pieces of one run of `track_sizing_algorithm` (the parts with a
  division): `compute_alignment_gutter_adjustment` + its application to the gutters, `find_size_of_fr`,
  `stretch_auto_tracks`, and the `map`-shaped steps (`flush_planned_*`, growth-limit raising, the last step of 11.5).
  The batches of 11.5 and the distribution loops (`distribute_space_up_to_limits`, …) are NOT walked (`SizingFin`).
-/
import TaffyVerif.Lemmas.FiniteGrid2

set_option linter.unusedSectionVars false
set_option linter.unusedVariables false

namespace C03Fin
open GridModel GridTracks EvalGrid

/-- `f32::max(x, 1.0)` is not zero -/
theorem fmax_one_ne_zero' {x : ER} (hx : IsFin x) : Num.fmax x 1 ≠ 0 := by
  obtain ⟨q, rfl⟩ := (isFin_iff x).mp hx
  show ER.fmax (.fin q) (.fin 1) ≠ .fin 0
  simp only [ER.fmax, ER.isNaN, Bool.false_eq_true, if_false, ER.flt]
  by_cases h : q < (1 : Rat)
  · simp only [h, decide_true, if_true]
    intro e
    injection e with e
    revert e
    decide +kernel
  · simp only [h, decide_false, Bool.false_eq_true, if_false]
    intro e
    injection e with e
    subst e
    exact absurd (show (0 : Rat) < 1 by decide +kernel) h

/-! ### `compute_alignment_gutter_adjustment` -/

/-- with at least two tracks in the axis (track vector of ≥ 5 entries: gutters at the even, tracks at the odd positions)
the weighted track count is positive and the adjustment finite.  For a ONE-track axis (3 entries) with `space-between` the
divisor is 0 (see `Props/C03FiniteGrid.lean`), and for a vector of 4 entries — which `initialize_grid_tracks` never
produces — it would be 0 as well. -/
theorem fin_gutterAdjustment {al : AlignContent} {a : Option ER} {est : Estimate} {ts : List (GridTrack ER)}
    (hts : TracksFin ts) (ha : OFin a) (hlen : 5 ≤ ts.length) :
    IsFin (computeAlignmentGutterAdjustment al a est ts) := by
  unfold computeAlignmentGutterAdjustment
  split
  · exact fin_zero
  · extract_lets outer inner wtc
    split
    · exact fin_zero
    · rename_i hinner
      split
      · rename_i a'
        extract_lets free
        have hfree : IsFin free := by
          unfold free
          refine fin_getD ?_ fin_zero
          cases hr : allSome (ts.map fun t => est.eval t (some a')) with
          | none => trivial
          | some xs =>
            refine fin_fmax fin_zero (fin_sub ha (fin_gsumF (fin_allSome _ xs (fun o ho => ?_) hr)))
            obtain ⟨t, ht, rfl⟩ := List.mem_map.mp ho
            exact fin_estimate (hts t ht) ha
        have hi : inner ≠ 0 := by
          intro h
          apply hinner
          simp [h]
        have hpos : 0 < wtc := by
          unfold wtc
          have hq : 1 ≤ (ts.length - 3) / 2 := by omega
          exact Nat.add_pos_left (Nat.mul_pos hq (Nat.pos_of_ne_zero hi)) _
        exact fin_mul (fin_div hfree (fin_ofNat _) (ofNat_ne_zero hpos)) (fin_ofNat _)
      · exact fin_zero

/-- the adjustment is only written when the vector has more than 3 entries -/
theorem fin_setGutterAdjustment {adj : ER} {ts : List (GridTrack ER)} (hts : TracksFin ts)
    (hadj : ts.length > 3 → IsFin adj) : TracksFin (setGutterAdjustment adj ts) := by
  unfold setGutterAdjustment
  split
  · rename_i hl
    intro t' ht'
    obtain ⟨⟨t, i⟩, hti, rfl⟩ := List.mem_map.mp ht'
    have hm := List.mem_zipIdx hti
    have htm : t ∈ ts := by rw [hm.2.2]; exact List.getElem_mem _
    have hf := hts t htm
    dsimp only
    split
    · exact { hf with contentAlignmentAdjustment := hadj hl }
    · exact hf
  · exact hts

/-- the gutter adjustment of one run, applied: finite tracks stay finite when the vector has an ODD number of entries
(as every vector `initialize_grid_tracks` produces: `2·n + 1`) -/
theorem fin_gutterStep {al : AlignContent} {a : Option ER} {est : Estimate} {ts : List (GridTrack ER)}
    (hts : TracksFin ts) (ha : OFin a) (hodd : ts.length % 2 = 1) :
    TracksFin (setGutterAdjustment (computeAlignmentGutterAdjustment al a est ts) ts) :=
  fin_setGutterAdjustment hts fun hl => fin_gutterAdjustment hts ha (by omega)

/-- for every alignment but `space-between` the outer gutters carry weight: the divisor is positive whatever the length -/
theorem fin_gutterAdjustment_nsb {al : AlignContent} {a : Option ER} {est : Estimate} {ts : List (GridTrack ER)}
    (hts : TracksFin ts) (ha : OFin a) (hal : al ≠ .spaceBetween) :
    IsFin (computeAlignmentGutterAdjustment al a est ts) := by
  unfold computeAlignmentGutterAdjustment
  split
  · exact fin_zero
  · extract_lets outer inner wtc
    split
    · exact fin_zero
    · rename_i hinner
      split
      · rename_i a'
        extract_lets free
        have hfree : IsFin free := by
          unfold free
          refine fin_getD ?_ fin_zero
          cases hr : allSome (ts.map fun t => est.eval t (some a')) with
          | none => trivial
          | some xs =>
            refine fin_fmax fin_zero (fin_sub ha (fin_gsumF (fin_allSome _ xs (fun o ho => ?_) hr)))
            obtain ⟨t, ht, rfl⟩ := List.mem_map.mp ho
            exact fin_estimate (hts t ht) ha
        have ho : 1 ≤ outer := by
          revert hinner
          unfold outer inner
          cases al <;> simp_all
        have hpos : 0 < wtc := by
          unfold wtc
          exact Nat.add_pos_right _ (by omega)
        exact fin_mul (fin_div hfree (fin_ofNat _) (ofNat_ne_zero hpos)) (fin_ofNat _)
      · exact fin_zero

theorem fin_gutterStep_nsb {al : AlignContent} {a : Option ER} {est : Estimate} {ts : List (GridTrack ER)}
    (hts : TracksFin ts) (ha : OFin a) (hal : al ≠ .spaceBetween) :
    TracksFin (setGutterAdjustment (computeAlignmentGutterAdjustment al a est ts) ts) :=
  fin_setGutterAdjustment hts fun _ => fin_gutterAdjustment_nsb hts ha hal

/-! ### `find_size_of_fr` -/

theorem fin_flexFactor {t : GridTrack ER} (ht : TrackFin t) : IsFin t.flexFactor := by
  have := ht.maxFn
  unfold GridTrack.flexFactor
  split
  · rename_i v hv; rw [hv] at this; exact this
  · exact fin_zero

theorem fin_frAccumulate {hyp : Option ER} : ∀ (ts : List (GridTrack ER)) (acc : ER × ER), TracksFin ts → IsFin acc.1 →
    IsFin acc.2 → IsFin (frAccumulate hyp ts acc).1 ∧ IsFin (frAccumulate hyp ts acc).2
  | [], acc, _, h1, h2 => by
    unfold frAccumulate
    exact ⟨h1, h2⟩
  | t :: rest, (used, sum), h, h1, h2 => by
    have ht := h t (List.mem_cons_self ..)
    have hr : TracksFin rest := fun x hx => h x (List.mem_cons_of_mem _ hx)
    unfold frAccumulate
    split
    · rename_i v hv
      have hvf : IsFin v := by have := ht.maxFn; rw [hv] at this; exact this
      split
      · exact fin_frAccumulate rest _ hr h1 (fin_add h2 hvf)
      · exact fin_frAccumulate rest _ hr (fin_add h1 ht.baseSize) h2
    · exact fin_frAccumulate rest _ hr (fin_add h1 ht.baseSize) h2

/-- the `loop` of `find_size_of_fr`: `leftover / max(flex_factor_sum, 1)` -/
theorem fin_findSizeOfFrLoop {ts : List (GridTrack ER)} {space : ER} (hts : TracksFin ts) (hs : IsFin space) :
    ∀ (fuel : Nat) (hyp : Option ER), OFin hyp → OFin (findSizeOfFrLoop fuel ts space hyp)
  | 0, hyp, h => by unfold findSizeOfFrLoop; exact h
  | fuel + 1, hyp, h => by
    unfold findSizeOfFrLoop
    have hacc := fin_frAccumulate (hyp := hyp) ts (0, 0) hts fin_zero fin_zero
    have hq : IsFin ((space - (frAccumulate hyp ts (0, 0)).1) / Num.fmax (frAccumulate hyp ts (0, 0)).2 1) :=
      fin_div (fin_sub hs hacc.1) (fin_fmax hacc.2 fin_one) (fmax_one_ne_zero' hacc.2)
    dsimp only
    split
    · exact hq
    · exact fin_findSizeOfFrLoop hts hs fuel _ hq

/-- **find_size_of_fr**: finite tracks (base sizes, flex factors) and a finite space to fill ⇒ a finite fr size; the
flex factor sum is clamped to ≥ 1 before the division, so a sum of 0 (or a negative one) is harmless -/
theorem fin_findSizeOfFr {ts : List (GridTrack ER)} {space : ER} (hts : TracksFin ts) (hs : IsFin space) :
    IsFin (findSizeOfFr ts space) := by
  unfold findSizeOfFr
  split
  · exact fin_zero
  · exact fin_getD (fin_findSizeOfFrLoop hts hs _ none trivial) fin_zero

/-! ### `stretch_auto_tracks` -/

theorem fin_stretchAutoTracks {ts : List (GridTrack ER)} {mn : Option ER} {av : AvailableSpace ER} (hts : TracksFin ts)
    (hmn : OFin mn) (hav : AvFin av) : TracksFin (stretchAutoTracks ts mn av) := by
  unfold stretchAutoTracks
  extract_lets n used free extra
  split
  · rename_i hn
    have hused : IsFin used := fin_sumBase hts
    have hfree : IsFin free := by
      unfold free
      split
      · exact fin_sub hav hused
      · split
        · rename_i size; exact fin_sub hmn hused
        · exact fin_zero
    split
    · have hex : IsFin extra := fin_div hfree (fin_ofNat _) (ofNat_ne_zero hn)
      intro t' ht'
      obtain ⟨t, ht, rfl⟩ := List.mem_map.mp ht'
      have hf := hts t ht
      split
      · exact { hf with baseSize := fin_add hf.baseSize hex }
      · exact hf
    · exact hts
  · exact hts

/-! ### the `map`-shaped steps -/

theorem fin_flushPlannedBaseSizeIncreases {ts : List (GridTrack ER)} (hts : TracksFin ts) :
    TracksFin (flushPlannedBaseSizeIncreases ts) := by
  intro t' ht'
  unfold flushPlannedBaseSizeIncreases at ht'
  obtain ⟨t, ht, rfl⟩ := List.mem_map.mp ht'
  have hf := hts t ht
  exact { hf with baseSize := fin_add hf.baseSize hf.baseSizePlannedIncrease, baseSizePlannedIncrease := fin_zero }

theorem fin_raiseGrowthLimits {ts : List (GridTrack ER)} (hts : TracksFin ts) : TracksFin (raiseGrowthLimits ts) := by
  intro t' ht'
  unfold raiseGrowthLimits at ht'
  obtain ⟨t, ht, rfl⟩ := List.mem_map.mp ht'
  have hf := hts t ht
  split
  · exact { hf with growthLimit := hf.baseSize }
  · exact hf

end C03Fin
